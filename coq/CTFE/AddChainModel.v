(* C01: content model of the SUCCESS path of add-chain / add-pre-chain
   (trillian/ctfe/handlers.go addChainInternal, serialize.go buildV1SCT, structures.go GetCTLogID,
   services.go directIssuanceChainService.BuildLogLeaf, trillian/util/log_leaf.go buildLogLeaf /
   ExtraDataForChain, serialization.go MerkleTreeLeafFromChain / SerializeSCTSignatureInput)
   over a de-duplicating backend.  Definitions only.

   What is given abstractly (the outcome of verifyAddChain, C02's subject): the VALIDATED path -
   the leaf certificate's DER and its RawTBSCertificate, and for every further certificate of the
   path (root included) its DER, its RawSubjectPublicKeyInfo and what IsPreIssuer /
   BuildPrecertTBS read of it (RawIssuer, authority key id value, CT EKU).  Everything after
   that point is modelled concretely, byte for byte, on the TLS codec model (TLS/TlsModel.v, at
   the GENERATED descriptors gen/CtTypes.v), the function models of CT/CtFuncs.v and the
   TLV-level model of x509.BuildPrecertTBS (X509/PrecertModel.v).

   Oracles (Section variables): H = SHA-256; sign = crypto.Signer.Sign over SHA-256 of its
   argument under the log key (randomised in reality: the request number is its nonce).
   Fault handling of the same handler (backend errors, missing leaf, ...) is C08's model
   (CTFE/HandlersModel.v add_chain); only what decides the CONTENT is repeated here. *)
From Coq Require Import String NArith ZArith List Bool.
From V Require Import Base.Bytes TLS.TlsModel gen.CtTypes CT.CtFuncs X509.PrecertModel.
Import ListNotations.
Local Open Scope N_scope.

(* ------------------------------------------------------------------ inputs *)

Record cert_info := {
  c_der : bytes;            (* Certificate.Raw *)
  c_spki : bytes;           (* Certificate.RawSubjectPublicKeyInfo *)
  c_pi : preissuer          (* RawIssuer (as a TLV), authority key id extension value, CT EKU present *)
}.

Record submission := {
  s_pre : bool;             (* add-pre-chain (verifyAddChain made sure the leaf is a precertificate iff so) *)
  s_leaf : bytes;           (* validPath[0].Raw *)
  s_tbs : bytes;            (* validPath[0].RawTBSCertificate *)
  s_rest : list cert_info;  (* validPath[1:], the root included *)
  s_now : Z                 (* li.TimeSource.Now().UnixNano() *)
}.

(* tls.SignatureAlgorithmFromPubKey *)
Inductive key_kind := KEcdsa | KRsa | KDsa | KOther.
Definition sig_alg_of (k : key_kind) : N :=
  match k with KEcdsa => 3 | KRsa => 1 | KDsa => 2 | KOther => 0 end.
Definition hash_alg_sha256 : N := 4.   (* tls.SHA256 *)

Record config := {
  k_spki : bytes;           (* x509.MarshalPKIXPublicKey(signer.Public()) *)
  k_kind : key_kind
}.

(* ------------------------------------------------------------------ trillian.LogLeaf and the backend *)

Record log_leaf := { l_value : bytes; l_extra : bytes; l_id : bytes }.

Definition store := list (bytes * log_leaf).       (* LeafIdentityHash -> stored leaf; first write wins *)

Fixpoint find_leaf (id : bytes) (st : store) : option log_leaf :=
  match st with
  | [] => None
  | (k, l) :: r => if bytes_eqb id k then Some l else find_leaf id r
  end.

(* QueueLeaf of a de-duplicating log: an identity hash already present answers the STORED leaf
   (status AlreadyExists), otherwise the leaf is stored and echoed *)
Definition queue_leaf (st : store) (l : log_leaf) : store * log_leaf * bool :=
  match find_leaf (l_id l) st with
  | Some old => (st, old, true)
  | None => ((l_id l, l) :: st, l, false)
  end.

Record state := { st_store : store; st_n : N (* requests served: the signer's nonce *) }.
Definition init_state : state := {| st_store := []; st_n := 0 |}.

(* ------------------------------------------------------------------ outcome *)

Record issued := {
  i_queued : log_leaf;      (* QueueLeafRequest.Leaf *)
  i_returned : log_leaf;    (* QueueLeafResponse.QueuedLeaf.Leaf *)
  i_dup : bool;             (* the backend said AlreadyExists *)
  i_signed : bytes;         (* the bytes handed (through SHA-256) to signer.Sign *)
  i_id : bytes;             (* response: id *)
  i_ts : N;                 (* response: timestamp *)
  i_ext : bytes;            (* response: extensions *)
  i_hash_alg : N;           (* response: signature.algorithm *)
  i_sig_alg : N;
  i_sig : bytes;            (* response: signature.signature *)
  i_sct_bytes : bytes       (* RequestLog.IssueSCT: tls.Marshal of the SCT *)
}.

Inductive outcome := OPanic | Refused (status : Z) | Issued (r : issued).

(* ------------------------------------------------------------------ the handler *)

(* uint64(li.TimeSource.Now().UnixNano() / millisPerNano): int64 division truncates towards zero,
   the conversion to uint64 wraps *)
Definition millis_per_nano : Z := 1000 * 1000.
Definition time_millis (now_ns : Z) : N := Z.to_N ((Z.quot now_ns millis_per_nano) mod 18446744073709551616)%Z.

Definition asn1cert (der : bytes) : val := VStruct [Some (VBytes der)].

(* ct.MerkleTreeLeaf{Version: V1, LeafType: TimestampedEntryLeafType, TimestampedEntry: {...}} *)
Definition merkle_leaf_val (ts etype : N) (x509 precert : option val) : val :=
  VStruct [Some (VInt gen_V1); Some (VInt gen_TimestampedEntryLeafType);
           Some (VStruct [Some (VInt ts); Some (VInt etype); x509; precert; None; Some (VBytes [])])].

(* ------------------------------------------------------------------ the returned-leaf guard

   This tree builds the SCT from whatever leaf the backend returns ("Always use the returned
   leaf").  pending_fixes/C01-1.diff adds one check: the returned leaf must be a leaf for the
   entry that was just submitted (it may carry an older timestamp).  The two variants differ in
   this one definition; [current_guard] is the one the model of the CURRENT tree uses. *)
Definition with_timestamp (leaf : val) (ts : N) : option val :=
  match leaf with
  | VStruct [v; lt; Some (VStruct (Some (VInt _) :: rest))] => Some (VStruct [v; lt; Some (VStruct (Some (VInt ts) :: rest))])
  | _ => None                                                (* TimestampedEntry is nil *)
  end.
(* sameEntry(a, b): equal TLS encodings once both timestamps are zeroed *)
Definition same_entry (a b : val) : bool :=
  match with_timestamp a 0, with_timestamp b 0 with
  | Some x, Some y =>
      match marshal gen_MerkleTreeLeaf None x, marshal gen_MerkleTreeLeaf None y with
      | Ok xb, Ok yb => bytes_eqb xb yb
      | _, _ => false
      end
  | _, _ => false
  end.
Definition guard_none (logged submitted : val) : bool := true.        (* this tree *)
Definition guard_same_entry (logged submitted : val) : bool := same_entry logged submitted.   (* with C01-1.diff *)
Definition current_guard : val -> val -> bool := guard_none.
Definition status_conflict : Z := 409.

Section Oracles.
Variable H : bytes -> bytes.
Variable sign : N -> bytes -> option bytes.
Variable guard : val -> val -> bool.

(* ct.MerkleTreeLeafFromChain(chain, etype, timestamp) *)
Definition leaf_from_chain (s : submission) (ts : N) : res val :=
  if negb (s_pre s) then Ok (merkle_leaf_val ts gen_X509LogEntryType (Some (asn1cert (s_leaf s))) None)
  else
    match s_rest s with
    | [] => ErrStruct                                        (* len(chain) < 2: no issuer cert available *)
    | c1 :: more =>
        let sel :=
          if pi_ct_eku (c_pi c1)                             (* IsPreIssuer(issuer) *)
          then match more with
               | [] => None                                  (* len(chain) < 3: no issuer for the pre-issuer *)
               | c2 :: _ => Some (Some (c_pi c1), c2)        (* preIssuer = chain[1]; issuer = chain[2] *)
               end
          else Some (None, c1) in
        match sel with
        | None => ErrStruct
        | Some (pre, issuer) =>
            match build_precert_tbs (s_tbs s) pre with       (* x509.BuildPrecertTBS(cert.RawTBSCertificate, preIssuer) *)
            | Ok tbs =>
                Ok (merkle_leaf_val ts gen_PrecertLogEntryType None
                      (Some (VStruct [Some (VBytes (H (c_spki issuer))); Some (VBytes tbs)])))
            | ErrSyntax => ErrSyntax | ErrStruct => ErrStruct | Panic => Panic | Hang => Hang
            end
        end
    end.

(* util.ExtraDataForChain(raw[0], raw[1:], isPrecert) *)
Definition extra_data (s : submission) : res bytes :=
  let chain := VList (map (fun c => asn1cert (c_der c)) (s_rest s)) in
  if s_pre s then marshal gen_PrecertChainEntry None (VStruct [Some (asn1cert (s_leaf s)); Some chain])
  else marshal gen_CertificateChain None (VStruct [Some chain]).

(* directIssuanceChainService.BuildLogLeaf -> util.buildLogLeaf *)
Definition build_log_leaf (s : submission) (mleaf : val) : res log_leaf :=
  match marshal gen_MerkleTreeLeaf None mleaf with
  | Ok value =>
      match extra_data s with
      | Ok extra => Ok {| l_value := value; l_extra := extra; l_id := H (s_leaf s) |}
      | ErrSyntax => ErrSyntax | ErrStruct => ErrStruct | Panic => Panic | Hang => Hang
      end
  | ErrSyntax => ErrSyntax | ErrStruct => ErrStruct | Panic => Panic | Hang => Hang
  end.

(* GetCTLogID *)
Definition log_id (cfg : config) : bytes := H (k_spki cfg).

(* buildV1SCT up to the signer: ct.SerializeSCTSignatureInput of
   {V1, leaf.TimestampedEntry.Timestamp, leaf.TimestampedEntry.Extensions} and the leaf.
   Result: (timestamp, extensions, bytes to be signed). *)
Definition sct_signature_input (logged : val) : res (N * bytes * bytes) :=
  match field 2 logged with
  | None => Panic                                            (* leaf.TimestampedEntry is nil *)
  | Some te =>
      match field 0 te, field 1 te, field 5 te with
      | Some (VInt ts), Some (VInt et), Some (VBytes ext) =>
          let body :=
            if et =? gen_X509LogEntryType then
              match field 2 te with Some b => Ok b | None => ErrStruct end          (* tls.Marshal: chosen variant is nil *)
            else if et =? gen_PrecertLogEntryType then
              match field 3 te with Some b => Ok b | None => Panic end              (* PrecertEntry.IssuerKeyHash on nil *)
            else ErrStruct in                                                        (* unsupported entry type *)
          match body with
          | Ok b => match serialize_sct_siginput gen_V1 ts et b ext with
                    | Ok data => Ok (ts, ext, data)
                    | ErrSyntax => ErrSyntax | ErrStruct => ErrStruct | Panic => Panic | Hang => Hang
                    end
          | ErrSyntax => ErrSyntax | ErrStruct => ErrStruct | Panic => Panic | Hang => Hang
          end
      | _, _, _ => Panic
      end
  end.

(* ct.SignedCertificateTimestamp as a model value *)
Definition sct_val (id : bytes) (ts : N) (ext : bytes) (halg salg : N) (sig : bytes) : val :=
  VStruct [Some (VInt gen_V1); Some (VStruct [Some (VBytes id)]); Some (VInt ts); Some (VBytes ext);
           Some (VStruct [Some (VStruct [Some (VInt halg); Some (VInt salg)]); Some (VBytes sig)])].

Definition status_of {A} (r : res A) (st : Z) : outcome :=
  match r with Panic | Hang => OPanic | _ => Refused st end.

Definition add_chain (cfg : config) (st : state) (s : submission) : state * outcome :=
  let n := st_n st in
  let st1 := {| st_store := st_store st; st_n := n + 1 |} in
  let ms := time_millis (s_now s) in
  match leaf_from_chain s ms with
  | Ok mleaf =>
      match build_log_leaf s mleaf with
      | Ok leaf =>
          let '(store', ret, dup) := queue_leaf (st_store st) leaf in
          let st2 := {| st_store := store'; st_n := n + 1 |} in
          (* "Always use the returned leaf as the basis for an SCT." *)
          match complete gen_MerkleTreeLeaf (l_value ret) with
          | Ok logged =>
              if negb (guard logged mleaf) then (st2, Refused status_conflict) else
              match sct_signature_input logged with
              | Ok (ts, ext, data) =>
                  match sign n data with
                  | None => (st2, Refused 500)
                  | Some sig =>
                      let id := log_id cfg in
                      let halg := hash_alg_sha256 in
                      let salg := sig_alg_of (k_kind cfg) in
                      match marshal gen_SignedCertificateTimestamp None (sct_val id ts ext halg salg sig) with
                      | Ok sct_bytes =>
                          (st2, Issued {| i_queued := leaf; i_returned := ret; i_dup := dup; i_signed := data;
                                          i_id := id; i_ts := ts; i_ext := ext; i_hash_alg := halg; i_sig_alg := salg;
                                          i_sig := sig; i_sct_bytes := sct_bytes |})
                      | e => (st2, status_of e 500)
                      end
                  end
              | e => (st2, status_of e 500)
              end
          | e => (st2, status_of e 500)
          end
      | e => (st1, status_of e 500)                          (* li.buildLeaf failed *)
      end
  | e => (st1, status_of e 400)                              (* "failed to build MerkleTreeLeaf" *)
  end.

(* a history of submissions against one instance *)
Definition step (cfg : config) (acc : state * list (submission * outcome)) (s : submission)
  : state * list (submission * outcome) :=
  let '(st', o) := add_chain cfg (fst acc) s in (st', snd acc ++ [(s, o)]).
Definition run_from (cfg : config) (st : state) (subs : list submission) : state * list (submission * outcome) :=
  fold_left (step cfg) subs (st, []).
Definition run (cfg : config) (subs : list submission) := run_from cfg init_state subs.

End Oracles.
