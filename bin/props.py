"""Per-property configuration for bin/check."""

COMMON_TRUSTED = [
    "Coq 8.16.1 kernel (coqc; vm_compute used for case evaluation and finite sweeps; no native_compute)",
    "translators under harness/gen (gofrag: go/ast -> Gallina for the slice named in gen/targets.json)",
    "Go correspondence harness and its generators (harness/cmd/*), Go toolchain, reflect",
    "no extraction: cases are evaluated inside Coq by vm_compute",
]

NOT_APPLICABLE = {}

PROPS = {
    "C18": {
        "harness": "c18",
        "technique": "Coq proof over gofrag-translated window conditions + differential correspondence",
        "level_text": "Theorems (all instants, all optional-bound windows, all shard lists) that each of the three membership tests is exactly start <= t < limit, that routing coincides with admission, and that accepted shard lists are exactly the contiguous ones and route every instant of their span to one shard; the three conditions are re-translated from the Go source on every run, the loop/constructor glue is tied by differential correspondence at boundary instants.",
        "level_note": "Trusted: Coq kernel, gofrag translator, time.Time comparison semantics, protobuf timestamp conversion; glue code (IndexByDate loop, NewTemporalLogClient order of checks) is hand-modelled and validated by correspondence only.",
        "gen_units": ["Windows.v"],
        "coq_deps": ["Temporal/WindowProofs"],
        "case_lib": "Temporal/WindowCase",
        "rule": "cases = (instant, window) points against ctfe.ValidateChain + single-shard TemporalLogClient, "
                "log-list intervals against TemporallyCompatible, shard lists (well-formed and perturbed) probed at every "
                "bound +-1ns; distinct = distinct Coq case term; all are non-trivial (each drives real code)",
        "trusted_base": ["time.Time comparison = comparison of (unix seconds, nanos) as one integer",
                         "protobuf Timestamp.CheckValid/AsTime (shard bounds are valid timestamps)",
                         "x509 chain verification (harness chains are valid by construction; sanity-checked)"],
        "assumptions": ["glue around the generated conditions (loop of IndexByDate, construction order of NewTemporalLogClient) is hand-modelled and tied by correspondence only"],
        "partial": [],
    },
    "C07": {
        "harness": "c07",
        "technique": "Coq proof over gofrag-translated int64 range arithmetic + handler model, differential correspondence over HTTP",
        "level_text": "range_contract is proved for ALL int64 start/end/max (with Go's wrap-around written into the generated definitions), "
                      "so the overflow and alignment boundaries are covered by proof, not sampling; the handler's sanity checks and byte pass-through "
                      "are a hand model tied to the real handler over HTTP with a scripted backend (honest, short, surplus, mis-indexed, garbled root, small tree, RPC errors).",
        "level_note": "Trusted: Coq kernel, gofrag, strconv.ParseInt (modelled as value-or-error), encoding/json and base64 of the response, the scripted backend. "
                      "Entry decoding (LogEntryFromLeaf) is covered under C04/C12, not here.",
        "gen_units": ["GetEntries.v", "HttpStatus.v"],
        "coq_deps": ["CTFE/GetEntriesProofs"],
        "case_lib": "CTFE/GetEntriesCase",
        "rule": "cases = (start,end) from an overflow/alignment boundary grid x max in {1,2,7,1000,2^31,2^62,2^63-1,small random} x align x 12 backend behaviours; "
                "distinct = distinct Coq case term; non-trivial = all (each is one HTTP request through the real handler)",
        "trusted_base": ["strconv.ParseInt semantics", "encoding/json + base64 of ct.GetEntriesResponse", "scripted TrillianLogClient"],
        "assumptions": ["backend RPC errors never map to HTTP 200 (proved for gRPC codes 1..16 under C08)"],
        "partial": ["decode_recovers_submission and get-entry-and-proof byte equality are stated under C04/C08 models"],
    },
}
