(* C05: the RFC 6962 signature-input encoders are injective: two inputs with the same encoding
   agree on every signed field. *)
From Coq Require Import NArith ZArith List Bool Lia.
From Coq.Strings Require Import Byte.
From V Require Import Base.Bytes Sig.SigModel.
Import ListNotations.
Local Open Scope N_scope.

Lemma Some_inj {A} (a b : A) : Some a = Some b -> a = b.
Proof. congruence. Qed.

Lemma app_eq_len {A} : forall (a c b d : list A),
  length a = length c -> a ++ b = c ++ d -> a = c /\ b = d.
Proof.
  induction a as [|x a IH]; destruct c as [|y c]; cbn; intros b d Hl H; try discriminate.
  - auto.
  - inversion H; subst. destruct (IH c b d) as [-> ->]; [lia|assumption|]. auto.
Qed.

Lemma be_enc_app_inj w x y a b :
  x < 256 ^ N.of_nat w -> y < 256 ^ N.of_nat w ->
  be_enc w x ++ a = be_enc w y ++ b -> x = y /\ a = b.
Proof.
  intros Hx Hy H. apply app_eq_len in H; [|rewrite !be_enc_length; reflexivity].
  destruct H as [H ->]. split; [|reflexivity].
  rewrite <- (be_dec_enc w x Hx), <- (be_dec_enc w y Hy), H. reflexivity.
Qed.

Local Opaque be_enc.

Lemma opaque_app_inj w lo hi d d' e e' t t' :
  hi < 256 ^ N.of_nat w ->
  opaque w lo hi d = Some e -> opaque w lo hi d' = Some e' ->
  e ++ t = e' ++ t' -> d = d' /\ t = t'.
Proof.
  unfold opaque. intros Hhi H H' Heq.
  destruct (N.ltb_spec (N.of_nat (length d)) lo); [discriminate|].
  destruct (N.ltb_spec hi (N.of_nat (length d))); [discriminate|].
  destruct (N.ltb_spec (N.of_nat (length d')) lo); [discriminate|].
  destruct (N.ltb_spec hi (N.of_nat (length d'))); [discriminate|].
  cbn [orb] in H, H'. apply Some_inj in H; apply Some_inj in H'; subst e e'.
  rewrite <- !app_assoc in Heq.
  apply be_enc_app_inj in Heq; [|lia|lia]. destruct Heq as [Hl Heq].
  apply app_eq_len in Heq; [exact Heq|lia].
Qed.

Lemma opaque_inj w lo hi d d' e :
  hi < 256 ^ N.of_nat w -> opaque w lo hi d = Some e -> opaque w lo hi d' = Some e -> d = d'.
Proof.
  intros Hhi H H'. destruct (opaque_app_inj w lo hi d d' e e [] [] Hhi H H' eq_refl). assumption.
Qed.

Lemma enc_signed_entry_app_inj e e' eb eb' t t' :
  enc_signed_entry e = Some eb -> enc_signed_entry e' = Some eb' ->
  eb ++ t = eb' ++ t' -> e = e' /\ t = t'.
Proof.
  assert (H24 : 2 ^ 24 - 1 < 256 ^ N.of_nat 3) by reflexivity.
  assert (H16a : 0 < 256 ^ N.of_nat 2) by reflexivity.
  assert (H16b : 1 < 256 ^ N.of_nat 2) by reflexivity.
  unfold enc_signed_entry. intros H H' Heq.
  destruct e as [c|ikh tbs]; destruct e' as [c'|ikh' tbs'].
  - destruct (opaque 3 1 (2 ^ 24 - 1) c) as [cb|] eqn:E; [|discriminate].
    destruct (opaque 3 1 (2 ^ 24 - 1) c') as [cb'|] eqn:E'; [|discriminate].
    apply Some_inj in H; apply Some_inj in H'; subst eb eb'.
    rewrite <- !app_assoc in Heq. apply be_enc_app_inj in Heq; [|assumption|assumption].
    destruct Heq as [_ Heq].
    destruct (opaque_app_inj _ _ _ _ _ _ _ _ _ H24 E E' Heq) as [-> ->]. auto.
  - exfalso.
    destruct (opaque 3 1 (2 ^ 24 - 1) c) as [cb|]; [|discriminate].
    destruct (negb (N.of_nat (length ikh') =? 32)); [discriminate|].
    destruct (opaque 3 1 (2 ^ 24 - 1) tbs') as [tb'|]; [|discriminate].
    apply Some_inj in H; apply Some_inj in H'; subst eb eb'.
    rewrite <- !app_assoc in Heq. apply be_enc_app_inj in Heq; [|assumption|assumption].
    destruct Heq as [Heq _]. discriminate.
  - exfalso.
    destruct (opaque 3 1 (2 ^ 24 - 1) c') as [cb|]; [|discriminate].
    destruct (negb (N.of_nat (length ikh) =? 32)); [discriminate|].
    destruct (opaque 3 1 (2 ^ 24 - 1) tbs) as [tb|]; [|discriminate].
    apply Some_inj in H; apply Some_inj in H'; subst eb eb'.
    rewrite <- !app_assoc in Heq. apply be_enc_app_inj in Heq; [|assumption|assumption].
    destruct Heq as [Heq _]. discriminate.
  - destruct (N.eqb_spec (N.of_nat (length ikh)) 32) as [Hl|]; [|discriminate].
    destruct (N.eqb_spec (N.of_nat (length ikh')) 32) as [Hl'|]; [|discriminate].
    cbn [negb] in H, H'.
    destruct (opaque 3 1 (2 ^ 24 - 1) tbs) as [tb|] eqn:E; [|discriminate].
    destruct (opaque 3 1 (2 ^ 24 - 1) tbs') as [tb'|] eqn:E'; [|discriminate].
    apply Some_inj in H; apply Some_inj in H'; subst eb eb'.
    rewrite <- !app_assoc in Heq. apply be_enc_app_inj in Heq; [|assumption|assumption].
    destruct Heq as [_ Heq].
    apply app_eq_len in Heq; [|lia]. destruct Heq as [-> Heq].
    destruct (opaque_app_inj _ _ _ _ _ _ _ _ _ H24 E E' Heq) as [-> ->]. auto.
Qed.

(* every signed field of an SCT is recoverable from the signed bytes *)
Lemma enc_sct_siginput_injective v ts e ext v' ts' e' ext' m :
  enc_sct_siginput v ts e ext = Some m -> enc_sct_siginput v' ts' e' ext' = Some m ->
  v = v' /\ ts = ts' /\ e = e' /\ ext = ext'.
Proof.
  assert (H16 : 65535 < 256 ^ N.of_nat 2) by reflexivity.
  unfold enc_sct_siginput. intros H H'.
  destruct (N.leb_spec 256 v); [discriminate|]. destruct (N.leb_spec (2 ^ 64) ts); [discriminate|].
  destruct (N.leb_spec 256 v'); [discriminate|]. destruct (N.leb_spec (2 ^ 64) ts'); [discriminate|].
  cbn [orb] in H, H'.
  destruct (enc_signed_entry e) as [eb|] eqn:E; [|discriminate].
  destruct (opaque 2 0 65535 ext) as [xb|] eqn:X; [|discriminate].
  destruct (enc_signed_entry e') as [eb'|] eqn:E'; [|discriminate].
  destruct (opaque 2 0 65535 ext') as [xb'|] eqn:X'; [|discriminate].
  apply Some_inj in H; subst m. apply Some_inj in H'; rename H' into Heq.
  apply be_enc_app_inj in Heq; [|assumption|assumption]. destruct Heq as [-> Heq].
  apply be_enc_app_inj in Heq; [|reflexivity|reflexivity]. destruct Heq as [_ Heq].
  apply be_enc_app_inj in Heq; [|assumption|assumption]. destruct Heq as [-> Heq].
  destruct (enc_signed_entry_app_inj _ _ _ _ _ _ E' E Heq) as [-> Hx].
  subst xb'. rewrite (opaque_inj _ _ _ _ _ _ H16 X X'). auto.
Qed.

(* every signed field of an STH is recoverable from the signed bytes *)
Lemma enc_sth_siginput_injective v ts sz root v' ts' sz' root' m :
  enc_sth_siginput v ts sz root = Some m -> enc_sth_siginput v' ts' sz' root' = Some m ->
  v = v' /\ ts = ts' /\ sz = sz' /\ root = root'.
Proof.
  unfold enc_sth_siginput. intros H H'.
  destruct (N.leb_spec 256 v); [discriminate|]. destruct (N.leb_spec (2 ^ 64) ts); [discriminate|].
  destruct (N.leb_spec (2 ^ 64) sz); [discriminate|].
  destruct (N.leb_spec 256 v'); [discriminate|]. destruct (N.leb_spec (2 ^ 64) ts'); [discriminate|].
  destruct (N.leb_spec (2 ^ 64) sz'); [discriminate|].
  cbn [orb] in H, H'.
  destruct (negb (N.of_nat (length root) =? 32)); [discriminate|].
  destruct (negb (N.of_nat (length root') =? 32)); [discriminate|].
  apply Some_inj in H; subst m. apply Some_inj in H'; rename H' into Heq.
  apply be_enc_app_inj in Heq; [|assumption|assumption]. destruct Heq as [-> Heq].
  apply be_enc_app_inj in Heq; [|reflexivity|reflexivity]. destruct Heq as [_ Heq].
  apply be_enc_app_inj in Heq; [|assumption|assumption]. destruct Heq as [-> Heq].
  apply be_enc_app_inj in Heq; [|assumption|assumption]. destruct Heq as [-> Heq].
  auto.
Qed.

(* the two kinds of signed object can never be confused: byte 1 is the SignatureType *)
Lemma sct_sth_inputs_disjoint v ts e ext v' ts' sz root m :
  enc_sct_siginput v ts e ext = Some m -> enc_sth_siginput v' ts' sz root = Some m -> False.
Proof.
  unfold enc_sct_siginput, enc_sth_siginput. intros H H'.
  destruct (N.leb_spec 256 v); [discriminate|]. destruct (N.leb_spec 256 v'); [discriminate|].
  destruct ((2 ^ 64 <=? ts)); [discriminate|]. cbn [orb] in H.
  destruct (enc_signed_entry e); [|discriminate]. destruct (opaque 2 0 65535 ext); [|discriminate].
  destruct ((false || (2 ^ 64 <=? ts') || (2 ^ 64 <=? sz) || negb (N.of_nat (length root) =? 32))%bool); [discriminate|].
  apply Some_inj in H; subst m. apply Some_inj in H'; rename H' into Heq.
  apply be_enc_app_inj in Heq; [|assumption|assumption]. destruct Heq as [_ Heq].
  apply be_enc_app_inj in Heq; [|reflexivity|reflexivity]. destruct Heq as [Heq _]. discriminate.
Qed.
