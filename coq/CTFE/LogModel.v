(* C06: the log front end over an HONEST reference backend, and the client-side verifiers.
   Definitions only (proofs: CTFE/LogProofs*.v; cases: CTFE/LogCase.v).

   1. REFERENCE BACKEND (what Trillian promises behind trillian.TrillianLogClient, written from
      RFC 6962 s2.1 and the request validation / small-tree conventions of the Trillian log
      server): queued leaves, sequenced leaves in order, de-duplication on LeafIdentityHash,
      root = MTH over the LeafValues (Merkle/Merkle.v, abstract hash H), root timestamp in ns.
      Every RPC is one atomic step.
   2. FRONT END: the eight /ct/v1 endpoints.  The DECISION (status, which RPC) of every read
      endpoint is the C08 model [HandlersModel.serve] applied to the class of the honest reply
      (so every comparison / nil check is the gofrag-GENERATED condition); this file adds what
      C08 abstracts away: WHAT a success answer contains.  get-entries' range is the generated
      [parse_range] / [entries_count] (C07).  The submission path is abstract where
      C01/C02/C03 are concrete: chain validation and precertificate TBS surgery are oracle
      inputs of the op ([OSubmitBad]; the [pe] argument of [OSubmit]).
   3. CLIENT: the leaf hash a client derives from certificate + SCT (ctutil.LeafHash), the STH /
      SCT signature checks (over the signature inputs of CT/CtFuncs.v), inclusion and consistency
      verification ([vpath], [verify_consistency]).

   Concurrency.  A front-end request issues AT MOST ONE backend RPC and keeps no state between
   requests except the one-entry STH signature cache.  A concurrent execution is therefore an
   interleaving of atomic backend RPCs and atomic cache accesses (GetSignature / SetSignature are
   separate critical sections of one mutex).  Every such execution yields the same answers as the
   SEQUENTIAL history that lists the requests in the order of their RPCs, with an [OPoke] before
   a get-sth wherever another thread's SetSignature landed between that get-sth's RPC and its
   cache lookup: [OPoke inp rnd] overwrites the cache with (inp, sign inp rnd) for an ARBITRARY
   input, which is a superset of what any thread can write (a thread writes its own STH input
   with a signature it has just made).  Theorems quantify over ALL op lists. *)
From Coq Require Import ZArith NArith Bool List.
From Coq.Strings Require Import Byte.
From V Require Import Base.GoInt Base.Bytes Merkle.Merkle TLS.TlsModel gen.CtTypes CT.Rfc6962Spec CT.CtFuncs
  gen.HttpStatus gen.GetEntries gen.HandlerConds CTFE.HandlersModel.
Import ListNotations.
Open Scope Z_scope.
Open Scope bool_scope.

(* ------------------------------------------------------------------ vocabulary *)

(* a Trillian LogLeaf as the front end builds it (util.BuildLogLeaf) *)
Record bleaf := { lv : bytes;       (* LeafValue = tls.Marshal(MerkleTreeLeaf) *)
                  lx : bytes;       (* ExtraData = tls.Marshal(CertificateChain | PrecertChainEntry) *)
                  lid : bytes }.    (* LeafIdentityHash = SHA-256(certificate DER) *)

Record bstate := { bq : list bleaf;   (* queued, not yet sequenced, oldest first *)
                   bs : list bleaf;   (* sequenced: index = position *)
                   bns : Z }.         (* TimestampNanos of the current signed log root *)

(* the front end's only state besides the backend: SignatureCache{input, sig} *)
Record state := { be : bstate; cache : option (bytes * bytes) }.

Definition binit (ns : Z) : bstate := {| bq := []; bs := []; bns := ns |}.
Definition init (ns : Z) : state := {| be := binit ns; cache := None |}.

(* which way the handlers forward their two numeric parameters; [wiring_ok] is the code *)
Record wiring := { w_cons : Z -> Z -> Z * Z;     (* (first, second) -> (FirstTreeSize, SecondTreeSize) *)
                   w_eap : Z -> Z -> Z * Z }.    (* (leaf_index, tree_size) -> (LeafIndex, TreeSize) *)
Definition wiring_ok : wiring := {| w_cons := fun f s => (f, s); w_eap := fun i t => (i, t) |}.
Definition wiring_cons_swapped : wiring := {| w_cons := fun f s => (s, f); w_eap := fun i t => (i, t) |}.
Definition wiring_eap_swapped : wiring := {| w_cons := fun f s => (f, s); w_eap := fun i t => (t, i) |}.

Inductive op :=
| OSubmit (pre : bool) (cert : bytes) (chain : list bytes) (pe : option (bytes * bytes)) (now_ns : Z) (rnd : N)
    (* add-chain / add-pre-chain with a chain that validated to the path cert :: chain;
       pe = what ct.MerkleTreeLeafFromChain derives for a precertificate: (issuer key hash,
       defanged TBSCertificate), None = it fails; now_ns = TimeSource.Now().UnixNano() *)
| OSubmitBad (pre : bool)                          (* body not JSON / empty chain / chain rejected *)
| OSeq (k : nat) (ns : Z)                          (* backend: sequence up to k queued leaves, publish a root *)
| OPoke (inp : bytes) (rnd : N)                    (* a concurrent get-sth's delayed SetSignature (see header) *)
| OGetSTH (rnd : N)
| OConsistency (first second : bytes)              (* raw FormValue strings *)
| OProofByHash (hash : bytes) (tree_size : bytes)  (* hash: the base64-DECODED parameter *)
| OEntries (start end_ : bytes)
| OEntryAndProof (leaf_index tree_size : bytes)
| ORoots.

Inductive body :=
| BNone
| BSct (ts : N) (sig : bytes)
| BSth (size ts : N) (root sig : bytes)
| BProof (hashes : list bytes)
| BIncl (idx : N) (path : list bytes)
| BEntries (es : list (bytes * bytes))             (* (leaf_input, extra_data) *)
| BEap (leaf_input extra_data : bytes) (path : list bytes)
| BRoots (certs : list bytes).
Record answer := { a_status : Z; a_body : body }.
Definition fail (st : Z) : answer := {| a_status := st; a_body := BNone |}.
Definition ok200 (b : body) : answer := {| a_status := 200; a_body := b |}.

(* ------------------------------------------------------------------ leaf construction *)

Definition asn1cert (c : bytes) : val := VStruct [Some (VBytes c)].
Definition chain_val (chain : list bytes) : val := VList (map asn1cert chain).

(* ct.MerkleTreeLeafFromChain: the TimestampedEntry body for the endpoint's entry type *)
Definition entry_of (pre : bool) (cert : bytes) (pe : option (bytes * bytes)) : option entry :=
  if pre then match pe with Some (ikh, tbs) => Some (PrecertE ikh tbs) | None => None end
  else Some (X509E cert).

(* tls.Marshal(MerkleTreeLeaf) succeeds exactly within the struct-tag bounds; C04
   leaf_marshal_is_rfc: it then yields [enc_leaf] *)
Definition entry_okb (e : entry) : bool :=
  match e with
  | X509E c => ((1 <=? len c) && (len c <=? 16777215))%N
  | PrecertE h t => Nat.eqb (length h) 32 && ((1 <=? len t) && (len t <=? 16777215))%N
  end.

(* util.ExtraDataForChain *)
Definition extra_ty (pre : bool) : ty := if pre then gen_PrecertChainEntry else gen_CertificateChain.
Definition extra_val (pre : bool) (cert : bytes) (chain : list bytes) : val :=
  if pre then VStruct [Some (asn1cert cert); Some (chain_val chain)] else VStruct [Some (chain_val chain)].

(* uint64(TimeSource.Now().UnixNano() / millisPerNano): Go's truncating division, uint64 conversion *)
Definition ms_of_ns (now_ns : Z) : N := Z.to_N (wrapu (Z.quot now_ns 1000000)).

(* buildV1SCT on the leaf the backend returned: its timestamp and the SCT signature input *)
Definition sct_input_of (leaf_value : bytes) : option (N * bytes) :=
  match complete gen_MerkleTreeLeaf leaf_value with
  | Ok leaf =>
      match field 2 leaf with
      | Some te =>
          match field 0 te, field 1 te, field 5 te with
          | Some (VInt ts), Some (VInt et), Some (VBytes ext) =>
              match (if (et =? gen_X509LogEntryType)%N then field 2 te else field 3 te) with
              | Some bd => match serialize_sct_siginput gen_V1 ts et bd ext with
                           | Ok inp => Some (ts, inp)
                           | _ => None
                           end
              | None => None
              end
          | _, _, _ => None
          end
      | None => None
      end
  | _ => None
  end.

Section Log.
  Variable H : bytes -> bytes.                    (* SHA-256 *)
  Variable sign : bytes -> N -> bytes.            (* the log's signer: message, randomness *)
  Variable sig_ok : bytes -> bytes -> bool.       (* verification under the log's public key *)
  Variable is_precert : bytes -> bool.            (* ctfe.IsPrecertificate of the validated leaf certificate *)
  Variable cfg : config.                          (* C08's configuration record (MaxGetEntriesAllowed, alignment, ...) *)
  Variable trusted : list bytes.                  (* the trusted roots *)
  Variable w : wiring.

  (* ---------------------------------------------------------------- reference backend *)

  Definition values (b : bstate) : list bytes := map lv (bs b).
  Definition bsize (b : bstate) : N := lenN (bs b).
  Definition root_of (b : bstate) (n : N) : bytes := mth H (firstN n (values b)).   (* MTH(D[0:n]) *)
  Definition broot (b : bstate) : bytes := mth H (values b).

  Fixpoint find_id (id : bytes) (l : list bleaf) : option bleaf :=
    match l with
    | [] => None
    | x :: r => if bytes_eqb (lid x) id then Some x else find_id id r
    end.

  (* QueueLeaf: a leaf whose identity hash is already known is NOT queued; the existing leaf is returned *)
  Definition rpc_queue (b : bstate) (lf : bleaf) : bstate * bleaf :=
    match find_id (lid lf) (bs b ++ bq b) with
    | Some old => (b, old)
    | None => ({| bq := bq b ++ [lf]; bs := bs b; bns := bns b |}, lf)
    end.

  (* the sequencer integrates the k oldest queued leaves (all of them if fewer) and publishes a root *)
  Definition rpc_sequence (b : bstate) (k : nat) (ns : Z) : bstate :=
    {| bq := skipn k (bq b); bs := bs b ++ firstn k (bq b); bns := ns |}.

  Definition rpc_consistency (b : bstate) (f s : Z) : reply (option (list bytes)) :=
    if (f <=? 0) || (s <=? 0) || (s <? f) then RpcErr (FCode 3)                  (* InvalidArgument *)
    else if Z.of_N (bsize b) <? s then Reply None                                (* tree too small: root only *)
    else Reply (Some (cproof H (Z.to_N f) (firstN (Z.to_N s) (values b)))).

  Fixpoint find_hash (h : bytes) (i : N) (l : list bytes) : list N :=
    match l with
    | [] => []
    | d :: r => if bytes_eqb (leaf_hash H d) h then i :: find_hash h (i + 1)%N r else find_hash h (i + 1)%N r
    end.

  (* GetInclusionProofByHash, OrderBySequence: one proof per matching leaf below tree_size, lowest first *)
  Definition rpc_incl (b : bstate) (h : bytes) (ts : Z) : reply (list (N * list bytes)) :=
    if (ts <=? 0) || negb (Nat.eqb (length h) 32) then RpcErr (FCode 3)
    else if Z.of_N (bsize b) <? ts then Reply []
    else match filter (fun i => (i <? Z.to_N ts)%N) (find_hash h 0%N (values b)) with
         | [] => RpcErr (FCode 5)                                                (* NotFound *)
         | is => Reply (map (fun i => (i, path H i (firstN (Z.to_N ts) (values b)))) is)
         end.

  Fixpoint number {A} (i : Z) (l : list A) : list (Z * A) :=
    match l with [] => [] | x :: r => (i, x) :: number (i + 1) r end.

  Definition rpc_leaves (b : bstate) (s c : Z) : reply (list (Z * bleaf)) :=
    if (s <? 0) || (c <=? 0) then RpcErr (FCode 3)
    else let n := Z.of_N (bsize b) in
         if n <=? s then Reply []
         else Reply (number s (firstn (Z.to_nat (Z.min c (n - s))) (skipn (Z.to_nat s) (bs b)))).

  Definition rpc_entry (b : bstate) (i ts : Z) : reply (option (bleaf * list bytes)) :=
    if (ts <=? 0) || (i <? 0) || (ts <=? i) then RpcErr (FCode 3)
    else let n := Z.of_N (bsize b) in
         let ts' := if (n <? ts) && (i <? n) then n else ts in                   (* "latest proof we can manage" *)
         if ts' <=? n then
           match nth_error (bs b) (Z.to_nat i) with
           | Some lf => Reply (Some (lf, path H (Z.to_N i) (firstN (Z.to_N ts') (values b))))
           | None => RpcErr (FCode 13)
           end
         else Reply None.

  (* ---------------------------------------------------------------- C08 classes of honest replies *)

  Definition lens (l : list bytes) : list Z := map blen l.
  Definition root_cls (b : bstate) : root := RootOk (Z.of_N (bsize b)) (blen (broot b)).
  Definition unused {A} : reply A := RpcErr FPlain.
  Definition bk (r : reply root) (c : reply cons_reply) (i : reply incl_reply) (l : reply leaves_reply) (e : reply eap_reply) : backend :=
    {| b_queue := unused; b_root := r; b_mirror := unused; b_cons := c; b_incl := i; b_leaves := l; b_entry := e |}.
  Definition env_ok (signer : bool) : env := {| signer_ok := signer; write_ok := true; store_ok := true |}.

  Definition fe_status (e : env) (r : request) (b : backend) : Z :=
    match serve current_guards cfg e MGet true r b with
    | Done resp => status resp
    | HandlersModel.Panic => 0
    end.

  Definition map_reply {A B} (f : A -> B) (r : reply A) : reply B :=
    match r with RpcErr x => RpcErr x | Reply a => Reply (f a) end.

  (* ---------------------------------------------------------------- front end: reads *)

  (* LogSTHGetter.GetSTH + signV1TreeHead with its cache *)
  Definition fe_get_sth (st : state) (rnd : N) : state * answer :=
    let b := be st in
    let size := bsize b in
    let ts := Z.to_N (bns b / 1000 / 1000) in
    let r := broot b in
    let bkr := bk (Reply (root_cls b)) unused unused unused unused in
    match serialize_sth_siginput gen_V1 ts size r with
    | Ok inp =>
        let hit := match cache st with Some (i, s) => if bytes_eqb inp i then Some s else None | None => None end in
        let sg := match hit with Some s => s | None => sign inp rnd end in
        let cache' := match hit with Some _ => cache st | None => Some (inp, sg) end in
        (* GetSTH: `err != nil || len(Signature) == 0` *)
        let s := fe_status (env_ok (negb (Nat.eqb (length sg) 0))) ReqGetSTH bkr in
        ({| be := b; cache := cache' |}, if s =? 200 then ok200 (BSth size ts r sg) else fail s)
    | _ => (st, fail (fe_status (env_ok false) ReqGetSTH bkr))
    end.

  (* the same request when its cache lookup MISSED and the signer then returned an ERROR (an
     unreachable remote signer / HSM): GetSTH's `err != nil` arm answers; signV1TreeHead writes to
     the cache only after the signer has returned a signature, so the state is the one before the
     request.  That the lookup missed is an observation (the signer was called), not computed
     from [cache st]: with overlapping requests the lookup may precede the SetSignature of a
     request that comes earlier in the order of the backend RPCs.  Not an [op]: the histories of
     the theorems assume a working signer ([standing]); this is the model of the one request for
     which the harness makes the signer fail (LogCase.CGetSTHSignFail). *)
  Definition fe_get_sth_signer_fails (st : state) : state * answer :=
    let b := be st in
    (st, fail (fe_status (env_ok false) ReqGetSTH (bk (Reply (root_cls b)) unused unused unused unused))).

  Definition fe_consistency (st : state) (pf ps : bytes) : answer :=
    let b := be st in
    let rp := match parse_int64 pf, parse_int64 ps with
              | Some f, Some s => let '(f', s') := w_cons w f s in rpc_consistency b f' s'
              | _, _ => unused
              end in
    let cls := map_reply (fun p => {| cr_root := root_cls b; cr_proof := option_map lens p |}) rp in
    let s := fe_status (env_ok true) (ReqConsistency pf ps) (bk unused cls unused unused unused) in
    if s =? 200 then
      match parse_int64 pf, rp with
      | Some 0, _ => ok200 (BProof [])                 (* first == 0: emptyProof, no RPC *)
      | _, Reply (Some p) => ok200 (BProof p)
      | _, _ => fail 0
      end
    else fail s.

  Definition fe_proof_by_hash (st : state) (h pts : bytes) : answer :=
    let b := be st in
    let rp := match parse_int64 pts with Some ts => rpc_incl b h ts | None => unused end in
    let cls := map_reply (fun ps => {| ir_root := root_cls b; ir_proofs := map (fun p => lens (snd p)) ps |}) rp in
    let s := fe_status (env_ok true) (ReqProofByHash {| h_len := blen h; h_b64ok := true |} pts) (bk unused unused cls unused unused) in
    if s =? 200 then
      match rp with
      | Reply ((i, p) :: _) => ok200 (BIncl i p)       (* rsp.Proof[0] *)
      | _ => fail 0
      end
    else fail s.

  Definition fe_entries (st : state) (ps pe : bytes) : answer :=
    let b := be st in
    let rp := match parse_int64 ps, parse_int64 pe with
              | Some s0, Some e0 =>
                  match parse_range s0 e0 (c_maxr cfg) (c_align cfg) with
                  | Some (s, en) => rpc_leaves b s (entries_count s en)
                  | None => unused
                  end
              | _, _ => unused
              end in
    let cls := map_reply (fun ls => {| lr_root := root_cls b; lr_leaves := map (fun x => (fst x, true)) ls |}) rp in
    let s := fe_status (env_ok true) (ReqEntries ps pe) (bk unused unused unused cls unused) in
    if s =? 200 then
      match rp with
      | Reply ls => ok200 (BEntries (map (fun x => (lv (snd x), lx (snd x))) ls))
      | _ => fail 0
      end
    else fail s.

  Definition fe_entry_and_proof (st : state) (pli pts : bytes) : answer :=
    let b := be st in
    let rp := match parse_int64 pli, parse_int64 pts with
              | Some i, Some t => let '(i', t') := w_eap w i t in rpc_entry b i' t'
              | _, _ => unused
              end in
    let cls := map_reply (fun r => {| er_root := root_cls b;
                                      er_leaf := match r with Some (lf, _) => LeafPresent (blen (lv lf)) true | None => LeafAbsent end;
                                      er_proof := option_map (fun x => lens (snd x)) r |}) rp in
    let s := fe_status (env_ok true) (ReqEntryAndProof pli pts) (bk unused unused unused unused cls) in
    if s =? 200 then
      match rp with
      | Reply (Some (lf, p)) => ok200 (BEap (lv lf) (lx lf) p)
      | _ => fail 0
      end
    else fail s.

  Definition fe_roots : answer :=
    let s := fe_status (env_ok true) ReqRoots (bk unused unused unused unused unused) in
    if s =? 200 then ok200 (BRoots trusted) else fail s.

  (* ---------------------------------------------------------------- front end: submission *)

  Definition fe_submit (st : state) (pre : bool) (cert : bytes) (chain : list bytes) (pe : option (bytes * bytes))
             (now_ns : Z) (rnd : N) : state * answer :=
    if negb (Bool.eqb (is_precert cert) pre) then (st, fail 400)              (* verifyAddChain: cert / precert mismatch *)
    else match entry_of pre cert pe with
    | None => (st, fail 400)                                                   (* MerkleTreeLeafFromChain fails *)
    | Some e =>
        if negb (entry_okb e) then (st, fail 500)                              (* buildLogLeaf: tls.Marshal(leaf) fails *)
        else match marshal (extra_ty pre) None (extra_val pre cert chain) with
        | Ok x =>
            let lf := {| lv := enc_leaf (ms_of_ns now_ns) e []; lx := x; lid := H cert |} in
            let '(b', stored) := rpc_queue (be st) lf in
            let st' := {| be := b'; cache := cache st |} in
            (* "Always use the returned leaf as the basis for an SCT." *)
            match sct_input_of (lv stored) with
            | Some (ts, inp) => (st', ok200 (BSct ts (sign inp rnd)))
            | None => (st', fail 500)
            end
        | _ => (st, fail 500)                                                  (* ExtraDataForChain fails *)
        end
    end.

  (* ---------------------------------------------------------------- histories *)

  Definition step (st : state) (o : op) : state * answer :=
    match o with
    | OSubmit pre cert chain pe now rnd => fe_submit st pre cert chain pe now rnd
    | OSubmitBad _ => (st, fail 400)
    | OSeq k ns => ({| be := rpc_sequence (be st) k ns; cache := cache st |}, fail 0)
    | OPoke inp rnd => ({| be := be st; cache := Some (inp, sign inp rnd) |}, fail 0)
    | OGetSTH rnd => fe_get_sth st rnd
    | OConsistency pf ps => (st, fe_consistency st pf ps)
    | OProofByHash h pts => (st, fe_proof_by_hash st h pts)
    | OEntries ps pe => (st, fe_entries st ps pe)
    | OEntryAndProof pli pts => (st, fe_entry_and_proof st pli pts)
    | ORoots => (st, fe_roots)
    end.

  Definition after (s0 : state) (ops : list op) : state := fold_left (fun s o => fst (step s o)) ops s0.
  (* the answer to [o] when it is issued after the history [pre] *)
  Definition answer_at (s0 : state) (pre : list op) (o : op) : answer := snd (step (after s0 pre) o).

  Fixpoint run (st : state) (ops : list op) : list answer :=
    match ops with
    | [] => []
    | o :: r => let '(st', a) := step st o in a :: run st' r
    end.

  (* ---------------------------------------------------------------- client side *)

  (* ctutil.LeafHash: MerkleTreeLeafFromChain(chain, type, sct.Timestamp), then ct.LeafHashForLeaf *)
  Definition client_leaf_hash (pre : bool) (cert : bytes) (pe : option (bytes * bytes)) (sct_ts : N) : option bytes :=
    match entry_of pre cert pe with
    | Some e => match leaf_hash_input (embed_leaf sct_ts e []) with
                | Ok preimage => Some (H preimage)
                | _ => None
                end
    | None => None
    end.

  (* LogClient.VerifySCTSignature / ctutil.VerifySCT: the signed bytes rebuilt from chain + SCT *)
  Definition client_verify_sct (pre : bool) (cert : bytes) (pe : option (bytes * bytes)) (sct_ts : N) (sig : bytes) : bool :=
    match entry_of pre cert pe with
    | Some e =>
        match serialize_sct_siginput gen_V1 sct_ts (entry_type e)
                (match e with X509E c => VStruct [Some (VBytes c)] | PrecertE h t => VStruct [Some (VBytes h); Some (VBytes t)] end) [] with
        | Ok inp => sig_ok inp sig
        | _ => false
        end
    | None => false
    end.

  (* LogClient.GetSTH -> VerifySTHSignature *)
  Definition client_verify_sth (size ts : N) (root sig : bytes) : bool :=
    match serialize_sth_siginput gen_V1 ts size root with
    | Ok inp => sig_ok inp sig
    | _ => false
    end.

  (* proof.VerifyInclusion / proof.VerifyConsistency of transparency-dev/merkle (trusted base:
     compared with these recursive verifiers by the harness on every served proof) *)
  Definition client_verify_inclusion (idx size : N) (leaf_hash_ root : bytes) (p : list bytes) : bool :=
    vpath H idx size leaf_hash_ root p.
  Definition client_verify_consistency (m n : N) (r1 r2 : bytes) (p : list bytes) : bool :=
    verify_consistency H m n p r1 r2.

  (* ct.RawLogEntryFromLeaf on a served (leaf_input, extra_data) yields this certificate and chain *)
  Definition decodes_to (leaf_input extra_data cert : bytes) (chain : list bytes) : bool :=
    match raw_log_entry_from_leaf leaf_input extra_data with
    | Ok (_, c, ch) =>
        match c, ch with
        | VStruct [Some (VBytes c')], VList l =>
            bytes_eqb c' cert && (fix eqs (a : list val) (b : list bytes) : bool :=
                                    match a, b with
                                    | [], [] => true
                                    | VStruct [Some (VBytes x)] :: a', y :: b' => bytes_eqb x y && eqs a' b'
                                    | _, _ => false
                                    end) l chain
        | _, _ => false
        end
    | _ => false
    end.

End Log.
