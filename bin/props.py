"""Per-property configuration for bin/check."""

COMMON_TRUSTED = [
    "Coq 8.16.1 kernel (coqc; vm_compute used for case evaluation and finite sweeps; no native_compute)",
    "translators under harness/gen (gofrag: go/ast -> Gallina for the slice named in gen/targets.json)",
    "Go correspondence harness and its generators (harness/cmd/*), Go toolchain, reflect",
    "no extraction: cases are evaluated inside Coq by vm_compute",
]

PROPS = {
    "C18": {
        "harness": "c18",
        "gen_units": ["Windows.v"],
        "coq_deps": ["Temporal/WindowProofs"],
        "case_lib": "Temporal/WindowCase",
        "rule": "cases = (instant, window) points against ctfe.ValidateChain + single-shard TemporalLogClient, "
                "log-list intervals against TemporallyCompatible, shard lists (well-formed and perturbed) probed at every "
                "bound +-1ns; distinct = distinct Coq case term; all are non-trivial (each drives real code)",
        "trusted_base": ["time.Time comparison = comparison of (unix seconds, nanos) as one integer",
                         "protobuf Timestamp.CheckValid/AsTime (shard bounds are valid timestamps)",
                         "x509 chain verification (harness chains are valid by construction; sanity-checked)"],
        "assumptions": ["glue around the generated conditions (loop of IndexByDate, construction order of NewTemporalLogClient) is hand-modelled and tied by correspondence only"],
        "partial": [],
    },
}
