package main

// Third part of the C07 harness: requests the log serves only a PREFIX of.  RFC 6962 lets a log
// answer get-entries with fewer entries than asked for, and this front end does so routinely: a
// range longer than MaxGetEntriesAllowed is truncated, a maximally sized range is shortened to the
// next multiple of the maximum when alignment is on, and a range that runs past the tree ends with
// the tree.  For every such request the property's sentences are evaluated on what the handler
// answered AND on what the library's client (client.LogClient.GetEntries / GetRawEntries) reports
// for the same range: exactly the served entries, as many as were served, element k being the
// decoding of the stored entry start+k, nothing after them.

import (
	"bytes"
	"context"
	"crypto/sha256"
	"encoding/json"
	"flag"
	"fmt"
	"math"
	"math/rand"
	"strconv"

	ct "github.com/google/certificate-transparency-go"
	"github.com/google/certificate-transparency-go/trillian/ctfe"
	"github.com/google/trillian"

	"verif/harness/lib"
)

// entryDiff says how a decoded entry differs from the submission stored at idx ("" = it does not).
func entryDiff(e *ct.LogEntry, idx int64, s submitted) string {
	if e.Index != idx {
		return fmt.Sprintf("decoded with index %d", e.Index)
	}
	te := e.Leaf.TimestampedEntry
	if te == nil {
		return "has no timestamped entry"
	}
	wantType := ct.X509LogEntryType
	if s.precert {
		wantType = ct.PrecertLogEntryType
	}
	if te.EntryType != wantType {
		return fmt.Sprintf("has entry type %v", te.EntryType)
	}
	if te.Timestamp != s.ms {
		return fmt.Sprintf("has timestamp %d, submitted at %d", te.Timestamp, s.ms)
	}
	var got []byte
	if s.precert {
		if e.Precert == nil || e.X509Cert != nil {
			return "is not decoded as a precertificate"
		}
		got = e.Precert.Submitted.Data
		ikh := sha256.Sum256(s.issuer)
		if !bytes.Equal(e.Precert.IssuerKeyHash[:], ikh[:]) {
			return "issuer key hash is not that of the issuer"
		}
	} else {
		if e.X509Cert == nil || e.Precert != nil {
			return "is not decoded as a certificate"
		}
		got = e.X509Cert.Raw
	}
	if !bytes.Equal(got, s.leaf) {
		return "does not decode to the submitted certificate"
	}
	if len(e.Chain) != len(s.rest) {
		return fmt.Sprintf("decodes to a chain of %d, the submitted chain has %d", len(e.Chain), len(s.rest))
	}
	for k := range e.Chain {
		if !bytes.Equal(e.Chain[k].Data, s.rest[k]) {
			return fmt.Sprintf("chain element %d differs from the submitted one", k)
		}
	}
	return ""
}

func prefixRanges(w *lib.Writer, r *rand.Rand, insts []*inst, subs []submitted) {
	n := int64(len(subs))
	if n < 4 {
		return
	}
	oldMax := ctfe.MaxGetEntriesAllowed
	defer func() {
		ctfe.MaxGetEntriesAllowed = oldMax
		flag.Set("align_getentries", "false")
	}()
	ctx := context.Background()
	per := lib.Count(21, 105)
	classes := []string{"one-over-batch", "full-batch", "past-tree", "huge", "several-batches", "inside-batch", "random"}
	for _, in := range insts {
		for c := 0; c < per; c++ {
			maxes := []int64{1, 2, 3, 5, 7, n - 1, n, n + 2, 1000}
			max := maxes[r.Intn(len(maxes))]
			align := r.Intn(2) == 0
			start := r.Int63n(n)
			var end int64
			class := classes[c%len(classes)]
			switch class {
			case "one-over-batch": // one more than a batch
				end = start + max
			case "full-batch": // a maximally sized request: shortened by alignment when that is on
				end = start + max - 1
			case "past-tree": // begins inside the tree, ends beyond it
				start = n - 1 - r.Int63n(3)
				end = n + r.Int63n(5)
			case "huge": // legal, and truncated by the server
				end = math.MaxInt64 - r.Int63n(2)
			case "several-batches":
				end = start + 2*max + r.Int63n(3)
			case "inside-batch":
				end = start + r.Int63n(max)
			default:
				end = start + r.Int63n(3*n)
			}
			ctfe.MaxGetEntriesAllowed = max
			if err := flag.Set("align_getentries", strconv.FormatBool(align)); err != nil {
				panic(err)
			}
			fail := ""
			bad := func(f string, a ...interface{}) {
				if fail == "" {
					fail = fmt.Sprintf("get-entries start=%d end=%d max=%d align=%v tree=%d on %s: ", start, end, max, align, n, in.name) + fmt.Sprintf(f, a...)
				}
			}
			// what the handler serves for the range
			in.env.Backend.Reset()
			rec := in.env.Get(ct.GetEntriesPath, fmt.Sprintf("start=%d&end=%d", start, end))
			calls := in.env.Backend.Reset()
			var ge ct.GetEntriesResponse
			if rec.Code != 200 || json.Unmarshal(rec.Body.Bytes(), &ge) != nil {
				bad("answered %d", rec.Code)
			}
			served := int64(len(ge.Entries))
			// a non-empty run that begins at start, ends no later than end, spans at most the maximum
			// and stays inside the tree
			if served < 1 || served-1 > end-start || served > max || served > n-start {
				bad("served %d entries", served)
			}
			for k := int64(0); k < served && start+k < n; k++ {
				if !bytes.Equal(ge.Entries[k].LeafInput, in.log.leaves[start+k].LeafValue) || !bytes.Equal(ge.Entries[k].ExtraData, insts[0].log.leaves[start+k].ExtraData) {
					bad("served entry %d is not the stored entry %d", k, start+k)
				}
			}
			// what the client reports for the same range: the served entries, each decoded, no more
			got, panicked := -1, ""
			func() {
				defer func() {
					if p := recover(); p != nil {
						panicked = fmt.Sprint(p)
					}
				}()
				es, err := in.lc.GetEntries(ctx, start, end)
				if err != nil {
					bad("client.GetEntries: error %v", err)
					return
				}
				got = len(es)
				if int64(len(es)) != served {
					bad("client.GetEntries returned %d entries, the log served %d", len(es), served)
				}
				for k := range es {
					if idx := start + int64(k); idx >= n {
						bad("client.GetEntries: element %d stands for index %d, beyond the tree", k, idx)
					} else if d := entryDiff(&es[k], idx, subs[idx]); d != "" {
						bad("client.GetEntries: element %d (index %d) %s", k, idx, d)
					}
				}
			}()
			if panicked != "" {
				bad("client.GetEntries panicked: %s", panicked)
			}
			raw, errR := in.lc.GetRawEntries(ctx, start, end)
			if errR != nil || raw == nil {
				bad("client.GetRawEntries: error %v", errR)
			} else {
				if int64(len(raw.Entries)) != served {
					bad("client.GetRawEntries returned %d entries, the log served %d", len(raw.Entries), served)
				}
				for k := range raw.Entries {
					if int64(k) < served && (!bytes.Equal(raw.Entries[k].LeafInput, ge.Entries[k].LeafInput) || !bytes.Equal(raw.Entries[k].ExtraData, ge.Entries[k].ExtraData)) {
						bad("client.GetRawEntries: element %d differs from the handler's answer", k)
					}
				}
			}
			// correspondence with the handler model where the term stays small (the default instance
			// passes the backend's bytes through; the others rebuild extra_data, which is C14's model)
			coq, key := "CGet 1 false PBad PBad (RCode 0) 400 None []", fmt.Sprintf("prefix-%s-%d", in.name, c)
			var reqJ interface{}
			if len(calls) > 0 {
				if rq, ok := calls[0].Req.(*trillian.GetLeavesByRangeRequest); ok {
					reqJ = map[string]int64{"start": rq.StartIndex, "count": rq.Count}
					if in == insts[0] && rq.Count <= 6 && served <= 6 && rq.StartIndex >= 0 {
						var lc, sv []string
						for i := rq.StartIndex; i < rq.StartIndex+rq.Count && i < n; i++ {
							l := in.log.leaves[i]
							lc = append(lc, lib.Pair(lib.Z(l.LeafIndex), lib.Hex(l.LeafValue), lib.Hex(l.ExtraData)))
						}
						for _, e := range ge.Entries {
							sv = append(sv, lib.Pair(lib.Hex(e.LeafInput), lib.Hex(e.ExtraData)))
						}
						coq = fmt.Sprintf("CGet %s %s (PInt %s) (PInt %s) (RLeaves %s %s) %s %s %s", lib.Z(max), lib.Bool(align), lib.Z(start), lib.Z(end),
							lib.Some(lib.Z(n)), lib.List(lc), lib.Z(int64(rec.Code)), lib.Some(lib.Pair(lib.Z(rq.StartIndex), lib.Z(rq.Count))), lib.List(sv))
						key = ""
					}
				}
			}
			w.Add(lib.Case{Coq: coq, Key: key,
				Input:  map[string]interface{}{"op": "read-prefix", "instance": in.name, "start": start, "end": end, "max": max, "align": align, "tree_size": n, "class": class},
				Impl:   map[string]interface{}{"status": rec.Code, "backend_request": reqJ, "served_entries": served, "client_entries": got, "client_panic": panicked},
				PropOK: fail == "", Note: fail,
				Tags: []string{"prefix:" + class, "prefix:" + in.name, fmt.Sprintf("prefix:shortened:%v", served-1 < end-start)},
			})
		}
	}
}
