(* C08 findings: the handler model with the three guards in their PRE-FIX form (this is the only
   difference to CTFE/HandlersModel.current_guards, which takes them from the GENERATED
   gen/HandlerConds.v) and the refutation witnesses for the unpatched tree.
   Patches: pending_fixes/C08-1.diff (get-sth-consistency), C08-2.diff (add-chain / add-pre-chain),
   C08-3.diff (indirect FixLogLeaf, reached from get-entry-and-proof). *)
From Coq Require Import ZArith Bool List.
From Coq.Strings Require Import Byte.
From V Require Import Base.GoInt Base.Bytes gen.HttpStatus gen.GetEntries gen.HandlerConds
  CTFE.HandlersModel CTFE.HandlersSpec CTFE.HandlersProofs.
Import ListNotations.
Open Scope Z_scope.

(* pre-fix:  `if rsp.QueuedLeaf == nil {`   /   no `rsp.Proof == nil` check   /   no `leaf == nil` check *)
Definition prefix_guards : guards :=
  {| g_queue_leaf_missing := fun queued_nil _ => queued_nil;
     g_cons_proof_missing := fun _ => false;
     g_fixleaf_nil := fun _ => false |}.

Definition cfg0 (indirect : bool) : config :=
  {| c_mask := false; c_mapper := fun _ => None; c_indirect := indirect; c_sth := SthLog; c_maxr := 1000; c_align := true |}.
Definition env0 : env := {| signer_ok := true; write_ok := true; store_ok := true |}.
Definition bk (q : reply queue_reply) (c : reply cons_reply) (ea : reply eap_reply) : backend :=
  {| b_queue := q; b_root := RpcErr FPlain; b_mirror := RpcErr FPlain; b_cons := c;
     b_incl := RpcErr FPlain; b_leaves := RpcErr FPlain; b_entry := ea |}.
Definition dflt_q : reply queue_reply := RpcErr FPlain.
Definition dflt_c : reply cons_reply := RpcErr FPlain.
Definition dflt_e : reply eap_reply := RpcErr FPlain.

(* "3", "9", "7", "10" *)
Definition s3 : bytes := [x33]. Definition s9 : bytes := [x39]. Definition s7 : bytes := [x37]. Definition s10 : bytes := [x31; x30].

(* F6: GET get-sth-consistency?first=3&second=9, backend reply {root: size 9, Proof: absent} *)
Definition w_cons_req := ReqConsistency s3 s9.
Definition w_cons_bk := bk dflt_q (Reply {| cr_root := RootOk 9 32; cr_proof := None |}) dflt_e.
Theorem no_panic_refuted_consistency_proof_absent :
  exists cfg e m fo r b, faulty cfg r b /\ serve prefix_guards cfg e m fo r b = Panic.
Proof.
  exists (cfg0 false), env0, MGet, true, w_cons_req, w_cons_bk. split; [|vm_compute; reflexivity].
  cbn. right. left. reflexivity.
Qed.

(* F18: POST add-chain with a valid chain, QueueLeaf reply {QueuedLeaf: {Leaf: absent}} *)
Definition w_add_req := ReqAddChain false ChainOK.
Definition w_add_bk := bk (Reply QNoLeaf) dflt_c dflt_e.
Theorem no_panic_refuted_queued_leaf_without_leaf :
  exists cfg e m fo r b, faulty cfg r b /\ serve prefix_guards cfg e m fo r b = Panic.
Proof.
  exists (cfg0 false), env0, MPost, true, w_add_req, w_add_bk. split; [exact I|vm_compute; reflexivity].
Qed.

(* F19: external issuance-chain storage, GET get-entry-and-proof?leaf_index=7&tree_size=10, and the reply a
   real Trillian gives when its tree (size 5) is smaller than asked: the log root only, no Leaf, no Proof *)
Definition w_eap_req := ReqEntryAndProof s7 s10.
Definition w_eap_bk := bk dflt_q dflt_c (Reply {| er_root := RootOk 5 32; er_leaf := LeafAbsent; er_proof := None |}).
Theorem no_panic_refuted_fixlogleaf_nil :
  exists cfg e m fo r b, faulty cfg r b /\ beyond_tree cfg r b /\ serve prefix_guards cfg e m fo r b = Panic.
Proof.
  exists (cfg0 true), env0, MGet, true, w_eap_req, w_eap_bk. split; [|split; [|vm_compute; reflexivity]].
  - cbn. left. reflexivity.
  - cbn. exists 10, 5, 32, LeafAbsent, None. repeat split; try reflexivity. intros _ k H; discriminate.
Qed.

(* ... and only with external storage: the same request is a clean 400 otherwise (so the storage mode was visible) *)
Example prefix_direct_mode_400 :
  exists resp, serve prefix_guards (cfg0 false) env0 MGet true w_eap_req w_eap_bk = Done resp /\ status resp = 400.
Proof. eexists. split; [vm_compute; reflexivity|reflexivity]. Qed.

(* the patched code on the same three inputs: refused, no panic *)
Example current_on_witnesses :
  (exists r1, serve current_guards (cfg0 false) env0 MGet true w_cons_req w_cons_bk = Done r1 /\ status r1 = 500)
  /\ (exists r2, serve current_guards (cfg0 false) env0 MPost true w_add_req w_add_bk = Done r2 /\ status r2 = 500 /\ sct_issued r2 = false)
  /\ (exists r3, serve current_guards (cfg0 true) env0 MGet true w_eap_req w_eap_bk = Done r3 /\ status r3 = 400).
Proof. repeat split; eexists; (split; [vm_compute; reflexivity|]); repeat split; reflexivity. Qed.

(* The fixes change nothing else: wherever the pre-fix code did not panic, the patched code answers identically. *)
Ltac bm :=
  match goal with
  | |- context [match ?x with _ => _ end] => destruct x eqn:?
  | |- context [if ?x then _ else _] => destruct x eqn:?
  end.

Lemma handle_prefix_or_same cfg e r b :
  handle prefix_guards cfg e r b = HPanic \/ handle prefix_guards cfg e r b = handle current_guards cfg e r b.
Proof.
  destruct r; cbn [handle]; try (right; reflexivity).
  - unfold add_chain, prefix_guards, current_guards, queue_leaf_missing, queue_rsp_missing; cbn.
    destruct b0; try (right; reflexivity).
    destruct (c_indirect cfg && negb (store_ok e)); [right; reflexivity|].
    destruct (b_queue b) as [f|q]; [right; reflexivity|].
    destruct q; cbn; auto.
  - unfold get_sth_consistency, prefix_guards, current_guards, consistency_proof_missing; cbn.
    repeat (bm; auto).
  - unfold get_entry_and_proof, fix_log_leaf, prefix_guards, current_guards, fixleaf_nil_guard; cbn.
    destruct (parse_int64 leaf_index); [|auto]. destruct (parse_int64 tree_size); [|auto].
    destruct (eap_params z z0) as [[li ts]|]; [|auto].
    destruct (b_entry b) as [f|a]; [auto|].
    destruct (c_indirect cfg); [|right; reflexivity].
    destruct (er_leaf a) as [|vl fx]; [left; reflexivity|]. destruct fx; right; reflexivity.
Qed.

Theorem fixes_only_remove_panics : forall cfg e m fo r b,
  serve prefix_guards cfg e m fo r b = Panic \/ serve prefix_guards cfg e m fo r b = serve current_guards cfg e m fo r b.
Proof.
  intros. unfold serve.
  destruct (negb (meth_eqb m (method_of (endpoint_of r)))); [right; reflexivity|].
  destruct (meth_eqb m MGet && negb fo); [right; reflexivity|].
  destruct (handle_prefix_or_same cfg e r b) as [H|H]; rewrite H; auto.
Qed.
Print Assumptions no_panic_refuted_consistency_proof_absent.
Print Assumptions no_panic_refuted_queued_leaf_without_leaf.
Print Assumptions no_panic_refuted_fixlogleaf_nil.
Print Assumptions fixes_only_remove_panics.
