(* Facts about the generated wire layouts and the function models. *)
From Coq Require Import String NArith List Bool Lia PeanoNat.
From V Require Import Base.Bytes TLS.TlsModel TLS.TlsLemmas TLS.TlsRoundTripA TLS.TlsRoundTripB TLS.TlsMarshalSafe
  gen.CtTypes CT.Rfc6962Spec CT.Rfc6962Proofs CT.CtFuncs.
Import ListNotations.
Local Open Scope N_scope.

(* against the GENERATED descriptors *)
Lemma gen_leaf_marshal ts e ext : ts_ok ts -> entry_ok e -> ext_ok ext ->
  marshal gen_MerkleTreeLeaf None (embed_leaf ts e ext) = Ok (enc_leaf ts e ext).
Proof. change gen_MerkleTreeLeaf with rfc_MerkleTreeLeaf. apply leaf_marshal. Qed.
Lemma gen_sct_siginput_marshal ts e ext : ts_ok ts -> entry_ok e -> ext_ok ext ->
  marshal gen_CertificateTimestamp None (embed_sct_siginput ts e ext) = Ok (enc_sct_siginput ts e ext).
Proof. change gen_CertificateTimestamp with rfc_CertificateTimestamp. apply sct_siginput_marshal. Qed.
Lemma gen_sth_siginput_marshal ts size root : ts_ok ts -> ts_ok size -> length root = 32%nat ->
  marshal gen_TreeHeadSignature None (embed_sth_siginput ts size root) = Ok (enc_sth_siginput ts size root).
Proof. change gen_TreeHeadSignature with rfc_TreeHeadSignature. apply sth_siginput_marshal. Qed.
Lemma gen_ds_marshal hash sig s : hash < 256 -> sig < 256 -> len s <= 65535 ->
  marshal gen_DigitallySigned None (embed_ds hash sig s) = Ok (enc_ds hash sig s).
Proof. change gen_DigitallySigned with rfc_DigitallySigned. apply ds_marshal. Qed.
Lemma gen_sct_marshal logid ts ext hash sig s :
  length logid = 32%nat -> ts_ok ts -> ext_ok ext -> hash < 256 -> sig < 256 -> len s <= 65535 ->
  marshal gen_SignedCertificateTimestamp None (embed_sct logid ts ext hash sig s) = Ok (enc_sct logid ts ext hash sig s).
Proof. change gen_SignedCertificateTimestamp with rfc_SignedCertificateTimestamp. apply sct_marshal. Qed.

Definition wire_types : list ty :=
  [gen_MerkleTreeLeaf; gen_TimestampedEntry; gen_SignedCertificateTimestamp; gen_CertificateTimestamp;
   gen_TreeHeadSignature; gen_DigitallySigned; gen_ASN1Cert; gen_PreCert; gen_CertificateChain;
   gen_PrecertChainEntry; gen_CertificateChainHash; gen_PrecertChainEntryHash; gen_SCTList].

Lemma wire_types_wf : forallb (fun t => wf_ty t None && sized t None) wire_types = true.
Proof. vm_compute. reflexivity. Qed.

(* decoding accepts exactly the encodings (of values of the type), for every wire type *)
Lemma wire_decode_exact t v bs :
  In t wire_types -> wt t v -> short bs ->
  (parse t None bs = Ok (v, []) <-> marshal t None v = Ok bs).
Proof.
  intros Hin Hw Hs. pose proof wire_types_wf as H. rewrite forallb_forall in H.
  specialize (H t Hin). apply andb_true_iff in H. destruct H as [_ Hsz].
  symmetry. apply codec_bijection; assumption.
Qed.

(* complete-parse APIs: trailing bytes are an error *)
Lemma complete_no_trailing t data v : complete t data = Ok v -> parse t None data = Ok (v, []).
Proof.
  unfold complete. destruct (parse t None data) as [[v' [|b r]]| | | |]; try discriminate.
  intros H; inversion H; reflexivity.
Qed.

(* signature inputs are refused for unknown versions and unknown entry types *)
Lemma sct_siginput_known ver ts et body ext bs :
  serialize_sct_siginput ver ts et body ext = Ok bs -> ver = gen_V1 /\ (et = gen_X509LogEntryType \/ et = gen_PrecertLogEntryType).
Proof.
  unfold serialize_sct_siginput. destruct (N.eqb_spec ver gen_V1) as [->|?]; cbn [negb]; [|discriminate].
  destruct (N.eqb_spec et gen_X509LogEntryType); [auto|].
  destruct (N.eqb_spec et gen_PrecertLogEntryType); [auto|discriminate].
Qed.

Lemma sth_siginput_known ver ts sz root bs :
  serialize_sth_siginput ver ts sz root = Ok bs -> ver = gen_V1 /\ length root = 32%nat.
Proof.
  unfold serialize_sth_siginput. destruct (N.eqb_spec ver gen_V1) as [->|?]; cbn [negb]; [|discriminate].
  destruct (Nat.eqb_spec (length root) 32); cbn [negb]; [auto|discriminate].
Qed.

(* for RFC-level inputs the function models produce exactly the RFC bytes *)
Lemma sct_siginput_is_rfc ts e ext : ts_ok ts -> entry_ok e -> ext_ok ext ->
  serialize_sct_siginput gen_V1 ts (entry_type e)
    (match e with X509E c => VStruct [Some (VBytes c)] | PrecertE h t => VStruct [Some (VBytes h); Some (VBytes t)] end) ext
  = Ok (enc_sct_siginput ts e ext).
Proof.
  intros H1 H2 H3. pose proof (gen_sct_siginput_marshal ts e ext H1 H2 H3) as H.
  destruct e; exact H.
Qed.

Lemma sth_siginput_is_rfc ts sz root : ts_ok ts -> ts_ok sz -> length root = 32%nat ->
  serialize_sth_siginput gen_V1 ts sz root = Ok (enc_sth_siginput ts sz root).
Proof.
  intros H1 H2 H3. unfold serialize_sth_siginput. rewrite H3. cbn [negb Nat.eqb N.eqb gen_V1].
  apply (gen_sth_siginput_marshal ts sz root H1 H2 H3).
Qed.

(* the Merkle leaf hash input is 0x00 || TLS(leaf) *)
Lemma leaf_hash_input_prefix leaf b :
  leaf_hash_input leaf = Ok b -> exists b', b = Byte.x00 :: b' /\ marshal gen_MerkleTreeLeaf None leaf = Ok b'.
Proof.
  unfold leaf_hash_input. destruct (marshal gen_MerkleTreeLeaf None leaf) as [b'| | | |]; try discriminate.
  intros H; inversion H. exists b'. split; reflexivity.
Qed.

(* entry decoding: success means both parts were parsed completely, the entry type is one of
   the two RFC types and the extra data has the matching structure *)
Lemma raw_entry_complete li x leaf cert chain :
  raw_log_entry_from_leaf li x = Ok (leaf, cert, chain) ->
  parse gen_MerkleTreeLeaf None li = Ok (leaf, []) /\
  ((exists cc, parse gen_CertificateChain None x = Ok (cc, []) /\ field 0 cc = Some chain) \/
   (exists pc, parse gen_PrecertChainEntry None x = Ok (pc, []) /\ field 0 pc = Some cert /\ field 1 pc = Some chain)).
Proof.
  unfold raw_log_entry_from_leaf.
  destruct (complete gen_MerkleTreeLeaf li) as [lf| | | |] eqn:El; try discriminate.
  apply complete_no_trailing in El.
  destruct (field 2 lf) as [te|]; [|discriminate].
  destruct (field 1 te) as [[et| | |]|]; try discriminate.
  destruct (et =? gen_X509LogEntryType).
  - destruct (complete gen_CertificateChain x) as [cc| | | |] eqn:Ec; try discriminate.
    apply complete_no_trailing in Ec.
    destruct (field 2 te) as [c|]; [|discriminate]. destruct (field 0 cc) as [ch|] eqn:Ef; [|discriminate].
    intros H; inversion H; subst. split; [exact El|]. left. exists cc. auto.
  - destruct (et =? gen_PrecertLogEntryType); [|discriminate].
    destruct (complete gen_PrecertChainEntry x) as [pc| | | |] eqn:Ec; try discriminate.
    apply complete_no_trailing in Ec.
    destruct (field 0 pc) as [c|] eqn:E0; [|discriminate]. destruct (field 1 pc) as [ch|] eqn:E1; [|discriminate].
    intros H; inversion H; subst. split; [exact El|]. right. exists pc. auto.
Qed.

(* API message -> internal structure: nothing is lost, nothing trailing is tolerated *)
Lemma to_sct_lossless ver id ts ext sig v :
  to_sct ver id ts ext sig = Ok v ->
  exists e ds, ext = Some e /\ length id = 32%nat /\ parse gen_DigitallySigned None sig = Ok (ds, []) /\
    marshal gen_DigitallySigned None ds = Ok sig /\
    v = VStruct [Some (VInt ver); Some (VStruct [Some (VBytes id)]); Some (VInt ts); Some (VBytes e); Some ds].
Proof.
  unfold to_sct. destruct (Nat.eqb_spec (length id) 32) as [Hl|?]; cbn [negb]; [|discriminate].
  destruct ext as [e|]; [|discriminate].
  destruct (complete gen_DigitallySigned sig) as [ds| | | |] eqn:Ec; try discriminate.
  apply complete_no_trailing in Ec. intros H; inversion H; subst.
  exists e, ds. repeat split; auto.
  destruct (proj1 roundtripB _ _ _ _ _ Ec) as (bs & Hm & Hd & _). rewrite app_nil_r in Hd. subst. exact Hm.
Qed.

Lemma to_sth_lossless size ts root sig r :
  to_sth size ts root sig = Ok r ->
  exists ds, length root = 32%nat /\ parse gen_DigitallySigned None sig = Ok (ds, []) /\
    marshal gen_DigitallySigned None ds = Ok sig /\ r = (size, ts, root, ds).
Proof.
  unfold to_sth. destruct (Nat.eqb_spec (length root) 32) as [Hl|?]; cbn [negb]; [|discriminate].
  destruct (complete gen_DigitallySigned sig) as [ds| | | |] eqn:Ec; try discriminate.
  apply complete_no_trailing in Ec. intros H; inversion H; subst.
  exists ds. repeat split; auto.
  destruct (proj1 roundtripB _ _ _ _ _ Ec) as (bs & Hm & Hd & _). rewrite app_nil_r in Hd. subst. exact Hm.
Qed.
