(* C08 correspondence cases: configuration, environment, request, scripted backend answer and the
   OBSERVED behaviour of the real handler (recover()ed panic, HTTP status, whether the body is an
   http.Error page, whether it carries error text, RequestLog.IssueSCT / Status, backend RPCs seen). *)
From Coq Require Import ZArith Bool List.
From V Require Import Base.GoInt Base.Bytes Base.CaseLib gen.HttpStatus gen.GetEntries gen.HandlerConds CTFE.HandlersModel.
Import ListNotations.
Open Scope Z_scope.

Definition errclass_eqb (a b : errclass) : bool :=
  match a, b with
  | ECode x, ECode y => x =? y
  | EPlain, EPlain | EInternal, EInternal => true
  | _, _ => false
  end.
Definition rpc_eqb (a b : rpc) : bool :=
  match a, b with
  | RpcQueueLeaf, RpcQueueLeaf | RpcGetLatestSignedLogRoot, RpcGetLatestSignedLogRoot
  | RpcGetConsistencyProof, RpcGetConsistencyProof | RpcGetInclusionProofByHash, RpcGetInclusionProofByHash
  | RpcGetLeavesByRange, RpcGetLeavesByRange | RpcGetEntryAndProof, RpcGetEntryAndProof => true
  | _, _ => false
  end.

(* the harness' ErrorMapper is a finite table; an absent mapper is the empty table *)
Definition mapper_of (tbl : list (errclass * Z)) (ec : errclass) : option Z :=
  match find (fun p => errclass_eqb (fst p) ec) tbl with Some p => Some (snd p) | None => None end.

(* a backend that was scripted for one RPC; every other RPC answers a non-gRPC error *)
Definition bk0 : backend :=
  {| b_queue := RpcErr FPlain; b_root := RpcErr FPlain; b_mirror := RpcErr FPlain; b_cons := RpcErr FPlain;
     b_incl := RpcErr FPlain; b_leaves := RpcErr FPlain; b_entry := RpcErr FPlain |}.
Definition bk_queue q := {| b_queue := q; b_root := b_root bk0; b_mirror := b_mirror bk0; b_cons := b_cons bk0; b_incl := b_incl bk0; b_leaves := b_leaves bk0; b_entry := b_entry bk0 |}.
Definition bk_root r m := {| b_queue := b_queue bk0; b_root := r; b_mirror := m; b_cons := b_cons bk0; b_incl := b_incl bk0; b_leaves := b_leaves bk0; b_entry := b_entry bk0 |}.
Definition bk_cons c := {| b_queue := b_queue bk0; b_root := b_root bk0; b_mirror := b_mirror bk0; b_cons := c; b_incl := b_incl bk0; b_leaves := b_leaves bk0; b_entry := b_entry bk0 |}.
Definition bk_incl c := {| b_queue := b_queue bk0; b_root := b_root bk0; b_mirror := b_mirror bk0; b_cons := b_cons bk0; b_incl := c; b_leaves := b_leaves bk0; b_entry := b_entry bk0 |}.
Definition bk_leaves c := {| b_queue := b_queue bk0; b_root := b_root bk0; b_mirror := b_mirror bk0; b_cons := b_cons bk0; b_incl := b_incl bk0; b_leaves := c; b_entry := b_entry bk0 |}.
Definition bk_entry c := {| b_queue := b_queue bk0; b_root := b_root bk0; b_mirror := b_mirror bk0; b_cons := b_cons bk0; b_incl := b_incl bk0; b_leaves := b_leaves bk0; b_entry := c |}.
Definition cons_r r p := {| cr_root := r; cr_proof := p |}.
Definition incl_r r p := {| ir_root := r; ir_proofs := p |}.
Definition leaves_r r l := {| lr_root := r; lr_leaves := l |}.
Definition eap_r r l p := {| er_root := r; er_leaf := l; er_proof := p |}.
Definition hashp n ok := {| h_len := n; h_b64ok := ok |}.

Record observed := {
  ob_panicked : bool; ob_status : Z; ob_error_page : bool; ob_detail : bool; ob_sct : bool;
  ob_logged : list Z; ob_calls : list rpc
}.
Definition obs p s ep d sct lg cs :=
  {| ob_panicked := p; ob_status := s; ob_error_page := ep; ob_detail := d; ob_sct := sct; ob_logged := lg; ob_calls := cs |}.

Inductive case :=
| CServe (mask : bool) (mapper : list (errclass * Z)) (indirect : bool) (sth : sth_mode) (maxr : Z) (align : bool)
         (write_ok store_ok : bool) (m : meth) (form_ok : bool) (r : request) (b : backend) (o : observed).

Definition run (c : case) : outcome :=
  match c with
  | CServe mask mp ind sth maxr al wok sok m fo r b _ =>
      serve current_guards
        {| c_mask := mask; c_mapper := mapper_of mp; c_indirect := ind; c_sth := sth; c_maxr := maxr; c_align := al |}
        {| signer_ok := true; write_ok := wok; store_ok := sok |} m fo r b
  end.

Definition check (c : case) : bool :=
  match c with
  | CServe _ _ _ _ _ _ _ _ _ _ _ _ o =>
      match run c with
      | Panic => ob_panicked o
      | Done resp =>
          negb (ob_panicked o)
          && (status resp =? ob_status o)
          && Bool.eqb (error_page resp) (ob_error_page o)
          && Bool.eqb (detail resp) (ob_detail o)
          && Bool.eqb (sct_issued resp) (ob_sct o)
          && list_eqb Z.eqb [logged resp] (ob_logged o)
          && list_eqb rpc_eqb (calls resp) (ob_calls o)
      end
  end.

Definition explain (c : case) := run c.
