(* C13 - lemmas about one caller's retry loop [run_call] (exclusive use of the backoff). *)
From Coq Require Import ZArith Bool List Lia ZifyBool.
From V Require Import Base.GoInt gen.Retry Client.RetryModel Client.BackoffProofs.
Import ListNotations.
Open Scope Z_scope.

Definition is_retry (a : action) : bool :=
  match a with ASetNil | ANoSet | ASetRA _ => true | ASuccess | AFail _ => false end.

Definition retry_ev (e : ev) : Prop := is_retry (action_of (e_out e)) = true.

Definition final_result (e : ev) : result :=
  match action_of (e_out e) with AFail code => RStatus code (e_body e) | _ => RSuccess (e_body e) end.

(* ------------------------------------------------------------------ classification *)

Lemma action_of_spec o :
  action_of o =
    match o with
    | OTransport | OBodyErr _ | ORedirected _ _ => ASetNil
    | OResp code ra p =>
        if code =? 200 then (if p then ASuccess else ASetNil)
        else if code =? 408 then ANoSet
        else if (code =? 503) || (code =? 429) then ASetRA ra
        else AFail code
    end.
Proof.
  destruct o as [| code | code p | code ra p]; try reflexivity.
  unfold action_of, post_and_parse, parse_when_status, status_action.
  destruct (code =? 200) eqn:E; [destruct p; [rewrite E|]; reflexivity | rewrite E; reflexivity].
Qed.

Lemma success_iff o : action_of o = ASuccess <-> exists ra, o = OResp 200 ra true.
Proof.
  rewrite action_of_spec. split.
  - destruct o as [| code | code p | code ra p]; try discriminate.
    destruct (code =? 200) eqn:E.
    + destruct p; [|discriminate]. intros _. exists ra. f_equal. lia.
    + destruct (code =? 408); [discriminate|]. destruct ((code =? 503) || (code =? 429)); discriminate.
  - intros [ra ->]. reflexivity.
Qed.

Lemma fail_iff o code : action_of o = AFail code <->
  exists ra p, o = OResp code ra p /\ code <> 200 /\ code <> 408 /\ code <> 429 /\ code <> 503.
Proof.
  rewrite action_of_spec. split.
  - destruct o as [| c | c p | c ra p]; try discriminate.
    destruct (c =? 200) eqn:E1; [destruct p; discriminate|].
    destruct (c =? 408) eqn:E2; [discriminate|].
    destruct ((c =? 503) || (c =? 429)) eqn:E3; [discriminate|].
    intros H. injection H as <-. exists ra, p. repeat split; lia.
  - intros (ra & p & -> & H1 & H2 & H3 & H4).
    destruct (code =? 200) eqn:E1; [lia|]. destruct (code =? 408) eqn:E2; [lia|].
    destruct ((code =? 503) || (code =? 429)) eqn:E3; [lia|]. reflexivity.
Qed.

(* the answers after which the loop goes round again *)
Lemma retry_iff o : is_retry (action_of o) = true <->
  (o = OTransport \/ (exists code, o = OBodyErr code) \/ (exists code p, o = ORedirected code p)
   \/ (exists ra, o = OResp 200 ra false)
   \/ (exists ra p, o = OResp 408 ra p) \/ (exists ra p, o = OResp 429 ra p) \/ (exists ra p, o = OResp 503 ra p)).
Proof.
  rewrite action_of_spec. split.
  - destruct o as [| code | code p | code ra p].
    + auto.
    + intros _. right. left. eauto.
    + intros _. right. right. left. eauto.
    + destruct (code =? 200) eqn:E1.
      { destruct p; [discriminate|]. intros _. do 3 right. left. exists ra. f_equal. lia. }
      destruct (code =? 408) eqn:E2.
      { intros _. do 4 right. left. exists ra, p. f_equal. lia. }
      destruct ((code =? 503) || (code =? 429)) eqn:E3; [|discriminate].
      intros _. destruct (code =? 503) eqn:E4.
      * do 6 right. exists ra, p. f_equal. lia.
      * do 5 right. left. exists ra, p. f_equal. lia.
  - intros [-> | [[code ->] | [(code & p & ->) | [[ra ->] | [(ra & p & ->) | [(ra & p & ->) | (ra & p & ->)]]]]]]; reflexivity.
Qed.

(* which retryable answers call backoff.set, and with what *)
Lemma set_nil_iff o : action_of o = ASetNil <->
  (o = OTransport \/ (exists code, o = OBodyErr code) \/ (exists code p, o = ORedirected code p)
   \/ (exists ra, o = OResp 200 ra false)).
Proof.
  rewrite action_of_spec. split.
  - destruct o as [| code | code p | code ra p]; eauto 6.
    destruct (code =? 200) eqn:E1.
    { destruct p; [discriminate|]. intros _. do 3 right. exists ra. f_equal. lia. }
    destruct (code =? 408); [discriminate|]. destruct ((code =? 503) || (code =? 429)); discriminate.
  - intros [-> | [[code ->] | [(code & p & ->) | [ra ->]]]]; reflexivity.
Qed.

Lemma no_set_iff o : action_of o = ANoSet <-> exists ra p, o = OResp 408 ra p.
Proof.
  rewrite action_of_spec. split.
  - destruct o as [| code | code p | code ra p]; try discriminate.
    destruct (code =? 200) eqn:E1; [destruct p; discriminate|].
    destruct (code =? 408) eqn:E2.
    + intros _. exists ra, p. f_equal. lia.
    + destruct ((code =? 503) || (code =? 429)); discriminate.
  - intros (ra & p & ->). reflexivity.
Qed.

Lemma set_ra_iff o ra : action_of o = ASetRA ra <-> exists p, o = OResp 429 ra p \/ o = OResp 503 ra p.
Proof.
  rewrite action_of_spec. split.
  - destruct o as [| code | code p | code ra' p]; try discriminate.
    destruct (code =? 200) eqn:E1; [destruct p; discriminate|].
    destruct (code =? 408) eqn:E2; [discriminate|].
    destruct ((code =? 503) || (code =? 429)) eqn:E3; [|discriminate].
    intros H. injection H as ->. exists p. destruct (code =? 503) eqn:E4; [right | left]; f_equal; lia.
  - intros (p & [-> | ->]); reflexivity.
Qed.

Section Conv.
Variable conv : Z -> Z.
Notation run := (run_call conv).
Notation step := (step_resp conv).

(* ------------------------------------------------------------------ one step *)

Lemma apply_action_spec a r b :
  apply_action conv a r b =
    match a with
    | ASuccess | AFail _ => None
    | ASetNil => Some (fst (set r None b), Some (snd (set r None b)))
    | ANoSet => Some (b, None)
    | ASetRA ra => Some (fst (set r (override_of conv ra r) b), Some (snd (set r (override_of conv ra r) b)))
    end.
Proof. destruct a; simpl; try reflexivity; destruct (set _ _ _); reflexivity. Qed.

Lemma apply_action_none a r b : apply_action conv a r b = None <-> is_retry a = false.
Proof. rewrite apply_action_spec. destruct a; simpl; split; congruence. Qed.

Lemma apply_action_mult_ok a r b b' w : mult_ok b -> apply_action conv a r b = Some (b', w) -> mult_ok b'.
Proof.
  rewrite apply_action_spec. intros H. destruct a; try discriminate; intros E; inversion E; subst; auto using set_mult_ok.
Qed.

Lemma step_fields c t r b e x b' k : step c t r b e = (x, b', k) ->
  r_at x = t /\ r_resp x = r /\ r_out x = e_out e /\ r_act x = action_of (e_out e) /\ r_before x = b /\ r_after x = b' /\
  match apply_action conv (action_of (e_out e)) r b with
  | None => b' = b /\ r_next x = r /\ r_j x = 0 /\ r_logged x = None /\ k = Finished (final_result e)
  | Some (b'', w) =>
      b' = b'' /\ r_logged x = w /\ r_j x = jitter_of (e_jit e) (b_nb b'') r
      /\ r_next x = r + backoff_wait r (b_nb b'') (r_j x)
      /\ k = (if ctx_done_by c (r_next x) then CtxCut else Again (r_next x))
  end.
Proof.
  unfold step_resp, final_result, until. destruct (apply_action conv (action_of (e_out e)) r b) as [[b'' w]|] eqn:E.
  - intros H. inversion H; subst; simpl. repeat split; reflexivity.
  - intros H. inversion H; subst; simpl. repeat split; try reflexivity.
Qed.

Lemma step_again c t r b e x b' t' : step c t r b e = (x, b', Again t') ->
  t' = r_next x /\ ctx_done_by c t' = false /\ is_retry (action_of (e_out e)) = true /\ r <= t'
  /\ exists w, apply_action conv (action_of (e_out e)) r b = Some (b', w).
Proof.
  intros H. destruct (step_fields _ _ _ _ _ _ _ _ H) as (_ & _ & _ & _ & _ & _ & Hm).
  destruct (apply_action conv (action_of (e_out e)) r b) as [[b'' w]|] eqn:E.
  - destruct Hm as (<- & _ & _ & Hn & Hk). destruct (ctx_done_by c (r_next x)) eqn:Ed; [discriminate|].
    injection Hk as ->. repeat split; auto.
    + destruct (is_retry (action_of (e_out e))) eqn:Er; [reflexivity|].
      apply apply_action_none with (r := r) (b := b) in Er. congruence.
    + rewrite Hn. pose proof (next_bounds r (b_nb b') (r_j x)). cbv zeta in H0. lia.
    + eauto.
  - destruct Hm as (_ & _ & _ & _ & Hk). discriminate.
Qed.

Lemma step_cut c t r b e x b' : step c t r b e = (x, b', CtxCut) ->
  ctx_done_by c (r_next x) = true /\ is_retry (action_of (e_out e)) = true.
Proof.
  intros H. destruct (step_fields _ _ _ _ _ _ _ _ H) as (_ & _ & _ & _ & _ & _ & Hm).
  destruct (apply_action conv (action_of (e_out e)) r b) as [[b'' w]|] eqn:E.
  - destruct Hm as (-> & _ & _ & Hn & Hk). destruct (ctx_done_by c (r_next x)) eqn:Ed; [|discriminate].
    split; auto. destruct (is_retry (action_of (e_out e))) eqn:Er; [reflexivity|].
    apply apply_action_none with (r := r) (b := b) in Er. congruence.
  - destruct Hm as (_ & _ & _ & _ & Hk). discriminate.
Qed.

Lemma step_finished c t r b e x b' res : step c t r b e = (x, b', Finished res) ->
  res = final_result e /\ is_retry (action_of (e_out e)) = false /\ b' = b /\ r_next x = r /\ r_resp x = r.
Proof.
  intros H. destruct (step_fields _ _ _ _ _ _ _ _ H) as (_ & Hr & _ & _ & _ & _ & Hm).
  destruct (apply_action conv (action_of (e_out e)) r b) as [[b'' w]|] eqn:E.
  - destruct Hm as (_ & _ & _ & _ & Hk). destruct (ctx_done_by c (r_next x)); discriminate.
  - destruct Hm as (-> & Hn & _ & _ & Hk). injection Hk as ->. repeat split; auto.
    apply apply_action_none in E. exact E.
Qed.

(* ------------------------------------------------------------------ unfolding the loop *)

Lemma run_nil c t b : run c t b [] = mkOut [] [] RPending t b.
Proof. reflexivity. Qed.

Lemma run_cons c t b e evs :
  run c t b (e :: evs) =
    if ctx_done_by c (t + e_dur e) then mkOut [t] [] (RCtx (c_kind c)) (ctx_end_or c t) b
    else match step c t (t + e_dur e) b e with
         | (x, b', Finished res) => mkOut [t] [x] res (t + e_dur e) b'
         | (x, b', CtxCut) => mkOut [t] [x] (RCtx (c_kind c)) (ctx_end_or c (t + e_dur e)) b'
         | (x, b', Again t') => cons_out t x (run c t' b' evs)
         end.
Proof. reflexivity. Qed.

Ltac run_step c t b e Ed x b' k Es :=
  rewrite run_cons in *; destruct (ctx_done_by c (t + e_dur e)) eqn:Ed;
  [ | destruct (step c t (t + e_dur e) b e) as [[x b'] k] eqn:Es; destruct k as [res_f | | t_n] ].

Lemma first_attempt c t b e evs : exists rest, o_attempts (run c t b (e :: evs)) = t :: rest.
Proof. run_step c t b e Ed x b' k Es; simpl; eauto. Qed.

(* per-record properties by induction along the loop *)
Lemma run_forall (J P : rrec -> Prop) (Inv : Z -> backoff -> Prop) c :
  (forall t b e x b' k, Inv t b -> ctx_done_by c (t + e_dur e) = false ->
     step c t (t + e_dur e) b e = (x, b', k) -> J x ->
     P x /\ forall t', k = Again t' -> Inv t' b') ->
  forall evs t b, Inv t b -> Forall J (o_trace (run c t b evs)) -> Forall P (o_trace (run c t b evs)).
Proof.
  intros Hstep. induction evs as [|e evs IH]; intros t b HI HJ.
  - constructor.
  - run_step c t b e Ed x b' k Es; simpl in *.
    + constructor.
    + inversion HJ; subst. constructor; [|constructor]. eapply Hstep; eauto.
    + inversion HJ; subst. constructor; [|constructor]. eapply Hstep; eauto.
    + inversion HJ; subst. destruct (Hstep _ _ _ _ _ _ HI Ed Es H1) as [HP HInv].
      constructor; auto.
Qed.

Lemma run_acts c evs t b : Forall (fun x => r_act x = action_of (r_out x)) (o_trace (run c t b evs)).
Proof.
  apply run_forall with (J := fun _ => True) (Inv := fun _ _ => True); auto.
  - intros. split; auto. destruct (step_fields _ _ _ _ _ _ _ _ H1) as (_ & _ & Ho & Ha & _). congruence.
  - apply Forall_forall. auto.
Qed.

(* ------------------------------------------------------------------ results *)

(* a run that has returned is unaffected by anything the server would have said later *)
Lemma prefix_determines c evs more t b :
  o_res (run c t b evs) <> RPending -> run c t b (evs ++ more) = run c t b evs.
Proof.
  revert t b. induction evs as [|e evs IH]; intros t b H.
  - simpl in H. congruence.
  - rewrite <- app_comm_cons. rewrite !run_cons in *.
    destruct (ctx_done_by c (t + e_dur e)); [reflexivity|].
    destruct (step c t (t + e_dur e) b e) as [[x b'] k]. destruct k; try reflexivity.
    simpl in H. rewrite IH by exact H. reflexivity.
Qed.

(* what a final (non-context) result means *)
Lemma finished_spec c evs t b :
  let out := run c t b evs in
  o_res out = RPending \/ o_res out = RCtx (c_kind c) \/
  exists pre e post tr x,
    evs = pre ++ e :: post /\ Forall retry_ev pre /\ is_retry (action_of (e_out e)) = false
    /\ o_trace out = tr ++ [x] /\ length tr = length pre /\ length (o_attempts out) = S (length pre)
    /\ r_out x = e_out e /\ r_act x = action_of (e_out e) /\ r_next x = r_resp x
    /\ o_end out = r_resp x /\ o_res out = final_result e.
Proof.
  revert t b. induction evs as [|e evs IH]; intros t b; cbv zeta.
  - left. reflexivity.
  - run_step c t b e Ed x b' k Es; simpl.
    + right. left. reflexivity.
    + right. right. destruct (step_finished _ _ _ _ _ _ _ _ Es) as (-> & Hr & -> & Hn & Hresp).
      destruct (step_fields _ _ _ _ _ _ _ _ Es) as (_ & _ & Ho & Ha & _).
      exists [], e, evs, [], x. simpl. repeat split; auto. congruence.
    + right. left. reflexivity.
    + destruct (step_again _ _ _ _ _ _ _ _ Es) as (-> & _ & Hr & _).
      destruct (IH (r_next x) b') as [H | [H | H]]; cbv zeta in H.
      * left. exact H.
      * right. left. exact H.
      * right. right. destruct H as (pre & e' & post & tr & y & -> & Hpre & Hf & Htr & Hl & Hla & H).
        exists (e :: pre), e', post, (x :: tr), y. simpl. rewrite Htr, Hl, Hla.
        repeat split; try tauto. constructor; auto.
Qed.

(* the answer at position k decides, whatever follows it: by induction on k *)
Lemma answer_at_position c pre e post t b :
  Forall retry_ev pre -> is_retry (action_of (e_out e)) = false ->
  let out := run c t b (pre ++ e :: post) in
  o_res out = RCtx (c_kind c)
  \/ (o_res out = final_result e /\ length (o_attempts out) = S (length pre)
      /\ exists tr x, o_trace out = tr ++ [x] /\ length tr = length pre /\ r_out x = e_out e /\ o_end out = r_resp x).
Proof.
  intros Hpre Hf. revert t b. induction Hpre as [|e0 pre He0 Hpre IH]; intros t b; cbv zeta.
  - simpl app. run_step c t b e Ed x b' k Es; simpl.
    + left. reflexivity.
    + right. destruct (step_finished _ _ _ _ _ _ _ _ Es) as (-> & _ & _ & _ & Hresp).
      destruct (step_fields _ _ _ _ _ _ _ _ Es) as (_ & _ & Ho & _).
      repeat split; auto. exists [], x. simpl. repeat split; auto.
    + left. reflexivity.
    + destruct (step_again _ _ _ _ _ _ _ _ Es) as (_ & _ & Hr & _). congruence.
  - rewrite <- app_comm_cons. run_step c t b e0 Ed x b' k Es; simpl.
    + left. reflexivity.
    + destruct (step_finished _ _ _ _ _ _ _ _ Es) as (_ & Hr & _). unfold retry_ev in He0. congruence.
    + left. reflexivity.
    + destruct (IH t_n b') as [H | (H1 & H2 & tr & y & H3 & H4 & H5 & H6)]; cbv zeta in *.
      * left. exact H.
      * right. repeat split; auto. exists (x :: tr), y. simpl. rewrite H3. repeat split; auto.
Qed.

(* ------------------------------------------------------------------ the context *)

Lemma ctx_done_mono c a a' : ctx_done_by c a' = false -> a <= a' -> ctx_done_by c a = false.
Proof. unfold ctx_done_by. destruct (c_end c); [|reflexivity]. lia. Qed.

Lemma ctx_end_or_live c e r : c_end c = Some e -> ctx_done_by c r = false -> ctx_end_or c r = e.
Proof. unfold ctx_end_or, ctx_done_by. intros ->. lia. Qed.

Lemma ctx_spec c evs : Forall (fun e => 0 <= e_dur e) evs -> forall t b,
  let out := run c t b evs in
  Forall (fun a => a = t \/ ctx_done_by c a = false) (o_attempts out)
  /\ (forall k, o_res out = RCtx k -> k = c_kind c /\ exists e, c_end c = Some e /\ o_end out = Z.max e t)
  /\ (forall e, c_end c = Some e -> o_res out <> RPending -> o_end out <= Z.max e t)
  /\ ((exists body, o_res out = RSuccess body) \/ (exists code body, o_res out = RStatus code body) ->
      ctx_done_by c (o_end out) = false)
  /\ t <= o_end out.
Proof.
  induction 1 as [|e evs Hd Hds IH]; intros t b; cbv zeta.
  - simpl. split; [constructor|]. split; [intros k H; discriminate|].
    split; [intros e _ H; congruence|]. split; [|lia].
    intros [[? H] | (? & ? & H)]; discriminate.
  - run_step c t b e Ed x b' k Es; simpl.
    + (* the context ended during (or before) the request *)
      assert (He : exists e', c_end c = Some e' /\ ctx_end_or c t = Z.max e' t).
      { unfold ctx_done_by, ctx_end_or in *. destruct (c_end c) as [e'|]; [|discriminate]. eauto. }
      destruct He as (e' & He' & Hm).
      split; [constructor; auto|]. split.
      { intros k H. inversion H. split; auto. exists e'. auto. }
      split.
      { intros e0 He0 _. rewrite He' in He0. injection He0 as <-. lia. }
      split.
      { intros [[? H] | (? & ? & H)]; discriminate. }
      unfold ctx_end_or. destruct (c_end c); lia.
    + (* final answer *)
      destruct (step_finished _ _ _ _ _ _ _ _ Es) as (-> & _).
      split; [constructor; auto|]. split.
      { unfold final_result. intros k H. destruct (action_of (e_out e)); discriminate. }
      split.
      { intros e0 He0 _. unfold ctx_done_by in Ed. rewrite He0 in Ed. lia. }
      split; [intros _; exact Ed | lia].
    + (* the context ended during the wait *)
      destruct (step_cut _ _ _ _ _ _ _ Es) as (Hc & _).
      destruct (step_fields _ _ _ _ _ _ _ _ Es) as (_ & _ & _ & _ & _ & _ & Hm).
      assert (Hle : t + e_dur e <= r_next x).
      { destruct (apply_action conv (action_of (e_out e)) (t + e_dur e) b) as [[b'' w]|].
        - destruct Hm as (_ & _ & _ & -> & _).
          pose proof (next_bounds (t + e_dur e) (b_nb b'') (r_j x)). cbv zeta in H. lia.
        - destruct Hm as (_ & -> & _). lia. }
      unfold ctx_done_by in Hc, Ed. unfold ctx_end_or. destruct (c_end c) as [e'|] eqn:He'; [|discriminate].
      split; [constructor; auto|]. split.
      { intros k H. inversion H. split; auto. exists e'. split; auto. lia. }
      split.
      { intros e0 He0 _. injection He0 as <-. lia. }
      split.
      { intros [[? H] | (? & ? & H)]; discriminate. }
      lia.
    + (* another round *)
      destruct (step_again _ _ _ _ _ _ _ _ Es) as (-> & Hlive & _ & Hle & _).
      destruct (IH (r_next x) b') as (IH1 & IH2 & IH3 & IH4 & IH5).
      split.
      { constructor; auto. eapply Forall_impl; [|exact IH1]. simpl. intros a [-> | Ha]; auto. }
      split.
      { intros k H. destruct (IH2 _ H) as (-> & e' & He' & Hend). split; auto. exists e'. split; auto.
        unfold ctx_done_by in Hlive. rewrite He' in Hlive. lia. }
      split.
      { intros e0 He0 Hp. specialize (IH3 _ He0 Hp). unfold ctx_done_by in Hlive. rewrite He0 in Hlive. lia. }
      split; [exact IH4 | lia].
Qed.

(* ------------------------------------------------------------------ pacing *)

Definition jit_nonneg (x : rrec) : Prop := 0 <= r_j x.

Section ConvGe.
(* the conversion never asks for less than the server did, as far as a Duration can say *)
Hypothesis conv_ge : forall n, Z.min (n * 1000000000) max_i64 <= conv n.

Lemma wait_ge c evs t b : mult_ok b ->
  Forall jit_nonneg (o_trace (run c t b evs)) ->
  Forall (fun x =>
            (forall n, r_act x = ASetRA (RASeconds n) -> r_resp x + Z.min (n * 1000000000) max_i64 <= r_next x)
            /\ (forall d, r_act x = ASetRA (RADate d) -> Z.min d (r_resp x + max_i64) <= r_next x))
         (o_trace (run c t b evs)).
Proof.
  intros Hb. apply run_forall with (Inv := fun _ b => mult_ok b); auto.
  intros t0 b0 e x b' k Hm Ed Es Hj.
  destruct (step_fields _ _ _ _ _ _ _ _ Es) as (_ & Hr & _ & Ha & _ & _ & Hmatch).
  split.
  - rewrite Ha, Hr. rewrite apply_action_spec in Hmatch.
    pose proof max_i64_val as Hmax. unfold jit_nonneg in Hj.
    split.
    + intros n E. rewrite E in Hmatch. destruct Hmatch as (-> & _ & _ & -> & _). simpl override_of.
      pose proof (set_override_ge (t0 + e_dur e) (conv n) b0 Hm).
      pose proof (conv_ge n).
      pose proof (next_bounds (t0 + e_dur e) (b_nb (fst (set (t0 + e_dur e) (Some (conv n)) b0))) (r_j x)).
      cbv zeta in H1. lia.
    + intros d E. rewrite E in Hmatch. destruct Hmatch as (-> & _ & _ & -> & _). simpl override_of.
      pose proof (set_override_ge (t0 + e_dur e) (sat64 (d - (t0 + e_dur e))) b0 Hm).
      pose proof (sat64_spec (d - (t0 + e_dur e))). pose proof min_i64_val.
      pose proof (next_bounds (t0 + e_dur e) (b_nb (fst (set (t0 + e_dur e) (Some (sat64 (d - (t0 + e_dur e)))) b0))) (r_j x)).
      cbv zeta in H2. lia.
  - intros t' ->. destruct (apply_action conv (action_of (e_out e)) (t0 + e_dur e) b0) as [[b'' w]|] eqn:E.
    + destruct Hmatch as (-> & _). eapply apply_action_mult_ok; eauto.
    + destruct Hmatch as (-> & _). exact Hm.
Qed.
End ConvGe.

Section ConvLe.
Hypothesis conv_le : forall n, conv n <= max_i64.

Definition rec_ok (x : rrec) : Prop := 0 <= r_j x /\ r_at x <= r_resp x.

(* no back-off pending when a POST is made: holds at the start for a fresh client and then at every
   POST of the call, because every wait outlasts notBefore *)
Definition settled (t : Z) (b : backoff) : Prop := mult_ok b /\ b_nb b <= t.

Lemma override_le ra r d : override_of conv ra r = Some d -> d <= max_i64.
Proof.
  destruct ra; simpl; try discriminate; intros E; injection E as <-.
  - apply conv_le.
  - apply sat64_range.
Qed.

Lemma step_settled c t b e x b' t' :
  settled t b -> step c t (t + e_dur e) b e = (x, b', Again t') -> rec_ok x -> settled t' b'.
Proof.
  intros [Hm Hn] Es [Hj Hd].
  destruct (step_fields _ _ _ _ _ _ _ _ Es) as (Hat & Hr & _ & _ & _ & _ & Hmatch).
  destruct (step_again _ _ _ _ _ _ _ _ Es) as (-> & _ & _ & Hle & w & E).
  rewrite E in Hmatch. destruct Hmatch as (_ & _ & _ & Hn' & _).
  split; [eapply apply_action_mult_ok; eauto|].
  rewrite Hat, Hr in Hd.
  assert (Hub : b_nb b' <= t + e_dur e + max_i64).
  { rewrite apply_action_spec in E. pose proof max_i64_val.
    destruct (action_of (e_out e)); try discriminate; injection E as Eb Ew; rewrite <- Eb.
    - pose proof (set_upper (t + e_dur e) None b Hm). simpl in H0. lia.
    - lia.
    - pose proof (set_upper (t + e_dur e) (override_of conv ra (t + e_dur e)) b Hm).
      destruct (override_of conv ra (t + e_dur e)) eqn:Eo.
      + apply override_le in Eo. lia.
      + lia. }
  pose proof (next_bounds (t + e_dur e) (b_nb b') (r_j x)). cbv zeta in H. lia.
Qed.

(* when the server has not asked for more: one exponential step, 1 s .. 128 s, plus the jitter *)
Lemma wait_le_cap c evs t b : settled t b ->
  Forall rec_ok (o_trace (run c t b evs)) ->
  Forall (fun x =>
            (r_act x = ASetNil \/ r_act x = ASetRA RANone \/ r_act x = ASetRA RAJunk) ->
            r_resp x + 1000000000 <= r_next x /\ r_next x - r_resp x <= 128000000000 + r_j x)
         (o_trace (run c t b evs)).
Proof.
  intros Hb. apply run_forall with (Inv := settled); auto.
  intros t0 b0 e x b' k Hs Ed Es Hok. split.
  - destruct Hs as [Hm Hn]. destruct Hok as [Hj Hd].
    destruct (step_fields _ _ _ _ _ _ _ _ Es) as (Hat & Hr & _ & Ha & _ & _ & Hmatch).
    rewrite Ha, Hr. rewrite Hat, Hr in Hd. rewrite apply_action_spec in Hmatch.
    assert (Hnil : forall ov, ov = None ->
      b' = fst (set (t0 + e_dur e) ov b0) -> r_next x = t0 + e_dur e + backoff_wait (t0 + e_dur e) (b_nb b') (r_j x) ->
      t0 + e_dur e + 1000000000 <= r_next x /\ r_next x - (t0 + e_dur e) <= 128000000000 + r_j x).
    { intros ov -> -> ->.
      pose proof (set_nil_fresh (t0 + e_dur e) b0 Hm ltac:(lia)) as Hf. cbv zeta in Hf.
      pose proof (next_bounds (t0 + e_dur e) (b_nb (fst (set (t0 + e_dur e) None b0))) (r_j x)) as Hb'.
      cbv zeta in Hb'. pose proof max_i64_val. lia. }
    intros [E | [E | E]]; rewrite E in Hmatch; destruct Hmatch as (Hb' & _ & _ & Hn' & _);
      (eapply Hnil; [reflexivity | exact Hb' | rewrite Hb'; exact Hn']).
  - intros t' ->. eapply step_settled; eauto.
Qed.

(* 408: backoff.set is not called; the POST is repeated as soon as notBefore + jitter allows,
   which is at once if that instant has passed, and in any case within the jitter *)
Lemma retry_408 c evs t b : settled t b ->
  Forall rec_ok (o_trace (run c t b evs)) ->
  Forall (fun x => r_act x = ANoSet ->
            r_after x = r_before x /\ r_logged x = None
            /\ r_next x = r_resp x + backoff_wait (r_resp x) (b_nb (r_before x)) (r_j x)
            /\ r_next x - r_resp x <= r_j x
            /\ (b_nb (r_before x) + r_j x <= r_resp x -> r_next x = r_resp x))
         (o_trace (run c t b evs)).
Proof.
  intros Hb. apply run_forall with (Inv := settled); auto.
  intros t0 b0 e x b' k Hs Ed Es Hok. split.
  - destruct Hs as [Hm Hn]. destruct Hok as [Hj Hd].
    destruct (step_fields _ _ _ _ _ _ _ _ Es) as (Hat & Hr & _ & Ha & Hbef & Haft & Hmatch).
    rewrite Ha, Hr, Hbef, Haft. rewrite Hat, Hr in Hd. rewrite apply_action_spec in Hmatch.
    intros E. rewrite E in Hmatch. destruct Hmatch as (-> & -> & _ & -> & _).
    pose proof (next_bounds (t0 + e_dur e) (b_nb b0) (r_j x)) as Hb'. cbv zeta in Hb'.
    repeat split; auto; lia.
  - intros t' ->. eapply step_settled; eauto.
Qed.
End ConvLe.

(* ------------------------------------------------------------------ retried exactly when retryable *)

Lemma second_post_iff c t b e e2 evs : ctx_done_by c (t + e_dur e) = false ->
  let out := run c t b (e :: e2 :: evs) in
  exists x rest, o_trace out = x :: rest /\ r_at x = t /\ r_resp x = t + e_dur e /\ r_out x = e_out e
    /\ ((exists a more, o_attempts out = t :: a :: more)
        <-> (is_retry (action_of (e_out e)) = true /\ ctx_done_by c (r_next x) = false))
    /\ (forall a more, o_attempts out = t :: a :: more -> a = r_next x).
Proof.
  intros Ed. cbv zeta. rewrite run_cons, Ed.
  destruct (step c t (t + e_dur e) b e) as [[x b'] k] eqn:Es.
  destruct (step_fields _ _ _ _ _ _ _ _ Es) as (Hat & Hr & Ho & _).
  destruct k as [res_f | | t_n]; unfold cons_out; cbn [o_attempts o_trace].
  - exists x, []. destruct (step_finished _ _ _ _ _ _ _ _ Es) as (_ & Hf & _).
    split; [reflexivity|]. split; [exact Hat|]. split; [exact Hr|]. split; [exact Ho|]. split; [split|].
    + intros (a & more & Hx). discriminate.
    + intros [Hx _]. congruence.
    + intros a more Hx. discriminate.
  - exists x, []. destruct (step_cut _ _ _ _ _ _ _ Es) as (Hc & _).
    split; [reflexivity|]. split; [exact Hat|]. split; [exact Hr|]. split; [exact Ho|]. split; [split|].
    + intros (a & more & Hx). discriminate.
    + intros [_ Hx]. congruence.
    + intros a more Hx. discriminate.
  - destruct (step_again _ _ _ _ _ _ _ _ Es) as (-> & Hl & Hre & _).
    destruct (first_attempt c (r_next x) b' e2 evs) as [rest Hrest].
    exists x, (o_trace (run c (r_next x) b' (e2 :: evs))). rewrite Hrest.
    split; [reflexivity|]. split; [exact Hat|]. split; [exact Hr|]. split; [exact Ho|]. split; [split|].
    + intros _. split; assumption.
    + intros _. eauto.
    + intros a more Hx. injection Hx as <- _. reflexivity.
Qed.

End Conv.
