(* T1 tie: definitions translated from asn1/asn1.go by gofrag on every run (coq/gen/Asn1.v). *)
From Coq Require Import ZArith Bool Lia.
From V Require Import Base.GoInt gen.Asn1.
Local Open Scope Z_scope.

(* T1: invalidLength, translated from asn1/asn1.go on every run, is the comparison the model makes
   ("zlen r1 <? t_len h": the declared length against what is left), including when offset + length
   overflows the machine integer *)
Lemma invalid_length_meaning off len slen :
  0 <= off <= slen -> slen <= max_i64 -> 0 <= len <= max_i64 ->
  invalid_length_gen off len slen = (slen - off <? len).
Proof.
  intros Ho Hs Hl. unfold invalid_length_gen, add64.
  rewrite max_i64_eq in *. pose proof two63_pos as Hp.
  destruct (Z.le_gt_cases (off + len) (two63 - 1)) as [Hfit|Hov].
  - rewrite wrap64_id by (unfold in_i64; rewrite max_i64_eq, min_i64_eq; lia).
    destruct (Z.ltb_spec (off + len) off); [lia|]. cbn [orb].
    destruct (Z.gtb_spec (off + len) slen); destruct (Z.ltb_spec (slen - off) len); try reflexivity; lia.
  - assert (Hw : wrap64 (off + len) = off + len - two64).
    { rewrite <- (wrap64_add_mul (off + len) (-1)). rewrite wrap64_id; [lia|]. unfold in_i64. rewrite max_i64_eq, min_i64_eq, two64_eq. lia. }
    rewrite Hw. rewrite two64_eq. destruct (Z.ltb_spec (off + len - 2 * two63) off); [|lia]. cbn [orb].
    destruct (Z.ltb_spec (slen - off) len); [reflexivity|lia].
Qed.

(* ---------------------------------------------------------------------------------------------
   T1: the two length loops of asn1/marshal.go (lengthLength, base128IntLength), translated on every run as
   fuelled `while` loops, compute the number of octets the model's emitters (len_bytes, append_base128)
   write - for every machine integer, and the fuel never runs out (the result is never the on_fuel value -1) *)
From Coq Require Import List ZifyBool.
From V Require Import Base.Bytes ASN1.DerBase ASN1.DerHeader ASN1.DerHeaderProofs.
Import ListNotations.

Lemma add64_small a : 0 <= a <= 1000 -> add64 a 1 = a + 1.
Proof.
  intros Ha. unfold add64. apply wrap64_id. unfold in_i64. rewrite max_i64_eq, min_i64_eq.
  pose proof two63_pos. assert (1001 < two63) by reflexivity. lia.
Qed.

Lemma shr64_8 i : shr64 i 8 = i / 256.   Proof. reflexivity. Qed.
Lemma shr64_7 i : shr64 i 7 = i / 128.   Proof. reflexivity. Qed.

Lemma zlen_app_one {A} (l : list A) (x : A) : zlen (l ++ [x]) = zlen l + 1.
Proof. unfold zlen. rewrite app_length. cbn [length]. lia. Qed.

Lemma while_fuel_S {S : Type} k (c : S -> bool) (b : S -> S) s :
  while_fuel (Datatypes.S k) c b s = if c s then while_fuel k c b (b s) else Some s.
Proof. reflexivity. Qed.

Lemma len_bytes_S f i :
  len_bytes (S f) i = if i >? 255 then len_bytes f (i / 256) ++ [zb (i mod 256)] else [zb i].
Proof. reflexivity. Qed.

Section LengthLoop.
  Variables (cond : Z * Z -> bool) (body : Z * Z -> Z * Z).
  Hypothesis Hcond : forall nb i, cond (nb, i) = (i >? 255).
  Hypothesis Hbody : forall nb i, body (nb, i) = (add64 nb 1, shr64 i 8).

  Lemma length_loop_spec : forall f i nb F,
    0 <= i < 256 ^ Z.of_nat (S f) -> 0 <= nb -> nb + Z.of_nat f <= 1000 -> (S f <= F)%nat ->
    exists i', while_fuel F cond body (nb, i) = Some (nb + zlen (len_bytes (S f) i) - 1, i').
  Proof.
    induction f as [|f IH]; intros i nb F Hi Hnb Hb HF.
    - destruct F as [|F]; [lia|]. cbn [while_fuel]. rewrite Hcond.
      change (256 ^ Z.of_nat 1) with 256 in Hi.
      cbn [len_bytes]. destruct (Z.gtb_spec i 255) as [Hgt|Hle]; [lia|].
      exists i. f_equal. f_equal. unfold zlen. cbn [length]. lia.
    - destruct F as [|F]; [lia|]. cbn [while_fuel]. rewrite Hcond.
      rewrite (len_bytes_S (S f)). destruct (Z.gtb_spec i 255) as [Hgt|Hle].
      + rewrite Hbody, shr64_8, add64_small by lia.
        assert (Hq : 0 <= i / 256 < 256 ^ Z.of_nat (S f)).
        { rewrite (Nat2Z.inj_succ (S f)), Z.pow_succ_r in Hi by lia.
          split; [apply Z.div_pos; lia|apply Z.div_lt_upper_bound; lia]. }
        destruct (IH (i / 256) (nb + 1) F Hq ltac:(lia) ltac:(lia) ltac:(lia)) as [i' Hi'].
        exists i'. rewrite Hi'. f_equal. f_equal. rewrite zlen_app_one. lia.
      + exists i. f_equal. f_equal. unfold zlen. cbn [length]. lia.
  Qed.
End LengthLoop.

Lemma length_length_meaning i :
  0 <= i <= max_i64 -> length_length_gen i = zlen (len_bytes 8 i) /\ 1 <= length_length_gen i <= 8.
Proof.
  intros Hi. rewrite max_i64_eq in Hi. unfold length_length_gen.
  assert (Hr : 0 <= i < 256 ^ Z.of_nat 8).
  { change (256 ^ Z.of_nat 8) with (2 * two63). pose proof two63_pos. lia. }
  match goal with |- context [while_fuel ?F ?c ?b ?s] =>
    destruct (length_loop_spec c b ltac:(intros; cbv beta iota; first [reflexivity | lia]) (fun _ _ => eq_refl) 7%nat i 1 F Hr ltac:(lia) ltac:(cbn; lia) ltac:(lia)) as [i' Hw]
  end.
  rewrite Hw.
  pose proof (len_bytes_length 7 i 7 Hr) as Hl.
  unfold zlen in *. split; lia.
Qed.

Section Base128Loop.
  Variables (cond : Z * Z -> bool) (body : Z * Z -> Z * Z).
  Hypothesis Hcond : forall l i, cond (l, i) = (i >? 0).
  Hypothesis Hbody : forall l i, body (l, i) = (add64 l 1, shr64 i 7).

  Lemma base128_loop_spec : forall f m l F,
    0 <= m < 128 ^ Z.of_nat f -> 0 <= l -> l + Z.of_nat f <= 1000 -> (S f <= F)%nat ->
    exists i', while_fuel F cond body (l, m) = Some (l + zlen (b128_hi f m), i').
  Proof.
    induction f as [|f IH]; intros m l F Hm Hl Hb HF.
    - destruct F as [|F]; [lia|]. cbn [while_fuel]. rewrite Hcond.
      change (128 ^ Z.of_nat 0) with 1 in Hm.
      destruct (Z.gtb_spec m 0) as [Hgt|Hle]; [lia|].
      exists m. cbn [b128_hi]. f_equal. f_equal. unfold zlen. cbn [length]. lia.
    - destruct F as [|F]; [lia|]. cbn [while_fuel]. rewrite Hcond. cbn [b128_hi].
      destruct (Z.gtb_spec m 0) as [Hgt|Hle]; destruct (Z.leb_spec m 0) as [Hle'|Hgt']; try lia.
      + rewrite Hbody, shr64_7, add64_small by lia.
        assert (Hq : 0 <= m / 128 < 128 ^ Z.of_nat f).
        { rewrite Nat2Z.inj_succ, Z.pow_succ_r in Hm by lia.
          split; [apply Z.div_pos; lia|apply Z.div_lt_upper_bound; lia]. }
        destruct (IH (m / 128) (l + 1) F Hq ltac:(lia) ltac:(lia) ltac:(lia)) as [i' Hi'].
        exists i'. rewrite Hi'. f_equal. f_equal. rewrite zlen_app_one. lia.
      + exists m. f_equal. f_equal. unfold zlen. cbn [length]. lia.
  Qed.
End Base128Loop.

Lemma base128_int_length_meaning n :
  min_i64 <= n <= max_i64 ->
  base128_int_length_gen n = zlen (append_base128 n) /\ 0 <= base128_int_length_gen n <= 10.
Proof.
  intros Hn. rewrite max_i64_eq, min_i64_eq in Hn. unfold base128_int_length_gen, append_base128.
  destruct (Z.eqb_spec n 0) as [->|Hnz].
  { split; [reflexivity|lia]. }
  destruct (Z.ltb_spec n 0) as [Hneg|Hpos].
  - change 16%nat with (S 15). rewrite while_fuel_S. cbv beta iota.
    destruct (Z.gtb_spec n 0); [lia|]. split; [reflexivity|lia].
  - change 16%nat with (S 15). rewrite while_fuel_S. cbv beta iota.
    destruct (Z.gtb_spec n 0) as [_|]; [|lia].
    rewrite shr64_7, (add64_small 0) by lia.
    assert (Hq : 0 <= n / 128 < 128 ^ Z.of_nat 10).
    { split; [apply Z.div_pos; lia|]. apply Z.div_lt_upper_bound; [lia|].
      change (128 * 128 ^ Z.of_nat 10) with (8192 * (2 * two63)). pose proof two63_pos. lia. }
    match goal with |- context [while_fuel ?F ?c ?b ?s] =>
      destruct (base128_loop_spec c b ltac:(intros; cbv beta iota; first [reflexivity | lia]) (fun _ _ => eq_refl) 10%nat (n / 128) (0 + 1) F Hq ltac:(lia) ltac:(cbn; lia) ltac:(lia)) as [i' Hw]
    end.
    rewrite Hw. rewrite zlen_app_one.
    pose proof (b128_hi_length 10 (n / 128) 9) as Hl.
    assert (Hq9 : 0 <= n / 128 < 128 ^ Z.of_nat 9).
    { split; [apply Z.div_pos; lia|]. apply Z.div_lt_upper_bound; [lia|].
      change (128 * 128 ^ Z.of_nat 9) with (64 * (2 * two63)). pose proof two63_pos. lia. }
    specialize (Hl Hq9). unfold zlen in *. split; lia.
Qed.
