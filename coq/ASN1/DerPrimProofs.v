(* L2 + L3 lemmas: totality of the primitive parsers, the lax relaxations (monotone, and exactly the
   documented malformations), fork versus upstream on primitives (D2, D3), value ranges. *)
From Coq Require Import ZArith NArith List Bool Lia.
From Coq.Strings Require Import Byte.
From V Require Import Base.Bytes ASN1.DerBase ASN1.DerHeader ASN1.DerHeaderProofs ASN1.DerPrim.
Import ListNotations.
Local Open Scope Z_scope.

(* ------------------------------------------------------------------ totality of the primitives *)

Definition total {A} (r : res A) : Prop := r <> Panic /\ r <> Hang.
Lemma total_ok {A} (a : A) : total (Ok a). Proof. split; discriminate. Qed.
Lemma total_syntax {A} : total (@ErrSyntax A). Proof. split; discriminate. Qed.
Lemma total_struct {A} : total (@ErrStruct A). Proof. split; discriminate. Qed.
Lemma total_other {A} : total (@ErrOther A). Proof. split; discriminate. Qed.
Lemma total_bind {A B} (r : res A) (f : A -> res B) : total r -> (forall a, r = Ok a -> total (f a)) -> total (bind r f).
Proof. intros [H1 H2] Hf. destruct r; cbn; try (split; congruence). apply Hf. reflexivity. Qed.
Lemma total_fail {A B} (r : res A) : total r -> (forall a, r <> Ok a) -> total (@fail A B r).
Proof. intros [H1 H2] Hn. destruct r; cbn; try (split; congruence); exfalso; eapply Hn; reflexivity. Qed.
Global Hint Resolve total_ok total_syntax total_struct total_other : der.

Lemma parse_bool_total c : total (parse_bool c).
Proof. unfold parse_bool. destruct c as [|b [|? ?]]; auto with der. destruct (_ =? 0); auto with der. destruct (_ =? 255); auto with der. Qed.

Lemma check_integer_total lax c : total (check_integer lax c).
Proof.
  unfold check_integer. destruct c as [|b0 [|b1 r]]; auto with der. destruct lax; auto with der.
  destruct (_ || _); auto with der.
Qed.

Lemma parse_int64_total chk c : total (chk c) -> total (parse_int64_with chk c).
Proof. intros H. unfold parse_int64_with. apply total_bind; [exact H|]. intros _ _. destruct (_ >? 8); auto with der. Qed.
Lemma parse_int32_total chk c : total (chk c) -> total (parse_int32_with chk c).
Proof.
  intros H. unfold parse_int32_with. apply total_bind; [exact H|]. intros _ _.
  apply total_bind; [apply parse_int64_total; exact H|]. intros v _. destruct (_ || _); auto with der.
Qed.
Lemma parse_bigint_total chk c : total (chk c) -> total (parse_bigint_with chk c).
Proof. intros H. unfold parse_bigint_with. apply total_bind; [exact H|]. auto with der. Qed.

Lemma parse_bitstring_total c : total (parse_bitstring c).
Proof. unfold parse_bitstring. destruct c; auto with der. destruct (_ || _); auto with der. Qed.

Lemma parse_base128_total v d : total (parse_base128 v d).
Proof. apply b128_loop_total. Qed.

Lemma parse_base128_shrinks v d n r : parse_base128 v d = Ok (n, r) -> (length r < length d)%nat.
Proof.
  intros H. apply b128_loop_prefix in H. destruct H as (h & -> & Hn & _). rewrite app_length. destruct h; [congruence|cbn; lia].
Qed.

Lemma oid_rest_total v fuel : forall d, (length d <= fuel)%nat -> total (oid_rest (parse_base128 v) fuel d).
Proof.
  induction fuel as [|f IH]; intros d Hd.
  - destruct d; [cbn; auto with der|cbn in Hd; lia].
  - destruct d as [|b r]; [cbn; auto with der|]. cbn [oid_rest].
    apply total_bind; [apply parse_base128_total|]. intros [n r'] E. cbn [fst snd].
    apply total_bind; [|auto with der]. apply IH. apply parse_base128_shrinks in E. cbn [length] in *. lia.
Qed.

Lemma parse_oid_total v lax c : total (parse_oid (parse_base128 v) lax c).
Proof.
  unfold parse_oid. destruct c as [|b r]; [destruct lax; auto with der|].
  apply total_bind; [apply parse_base128_total|]. intros [n r'] E. cbn [fst snd].
  apply total_bind; [|auto with der]. apply oid_rest_total. apply parse_base128_shrinks in E. lia.
Qed.

Lemma parse_printable_total lax c : total (parse_printable lax c).
Proof.
  unfold parse_printable. destruct (forallb _ c); auto with der. destruct (negb lax); auto with der.
  destruct (could_be_iso8859_1 c); auto with der. destruct (could_be_t61 c); auto with der.
Qed.
Lemma parse_numeric_total c : total (parse_numeric c).
Proof. unfold parse_numeric. destruct (forallb _ c); auto with der. Qed.
Lemma parse_ia5_total c : total (parse_ia5 c).
Proof. unfold parse_ia5. destruct (forallb _ c); auto with der. Qed.
Lemma parse_utf8_total c : total (parse_utf8 c).
Proof. unfold parse_utf8. destruct (utf8_valid c); auto with der. Qed.
Lemma parse_bmp_total c : total (parse_bmp c).
Proof. unfold parse_bmp. destruct (Nat.odd _); auto with der. Qed.
Lemma parse_utctime_total c : total (parse_utctime c).
Proof. unfold parse_utctime. destruct (match parse_time_layout false false false c with Some t => Some t | None => _ end); auto with der. Qed.
Lemma parse_gentime_total f c : total (parse_gentime f c).
Proof. unfold parse_gentime. destruct (parse_time_layout _ _ _ c); auto with der. Qed.

(* every component of a concrete leaf set is total *)
Definition leaves_total (G : leaves) : Prop :=
  (forall d, total (l_b128 G d)) /\ (forall c, total (l_int_check G c)) /\ (forall c, total (l_oid G c)) /\
  (forall c, total (l_printable G c)) /\ (forall c, total (l_gentime G c)).
Lemma leaves_of_total v lax : leaves_total (leaves_of v lax).
Proof.
  unfold leaves_total, leaves_of; cbn. repeat split;
    try apply parse_base128_total; try apply check_integer_total; try apply parse_oid_total;
    try apply parse_printable_total; try apply parse_gentime_total.
Qed.

(* ------------------------------------------------------------------ the lax relaxations *)

(* the three documented malformations, as predicates on the content octets *)
Definition nonminimal_int (c : bytes) : Prop :=
  exists b0 b1 r, c = b0 :: b1 :: r /\ ((bz b0 = 0 /\ bz b1 < 128) \/ (bz b0 = 255 /\ 128 <= bz b1)).
Definition printable_8bit (c : bytes) : Prop :=
  forallb (is_printable true true) c = false /\ (could_be_iso8859_1 c = true \/ could_be_t61 c = true).

Lemma check_integer_lax c : check_integer true c = check_integer false c \/ nonminimal_int c.
Proof.
  unfold check_integer. destruct c as [|b0 [|b1 r]]; [left; reflexivity|left; reflexivity|].
  destruct (((bz b0 =? 0) && (bz b1 <? 128)) || ((bz b0 =? 255) && (128 <=? bz b1))) eqn:E; [|left; reflexivity].
  right. exists b0, b1, r. split; [reflexivity|].
  apply orb_true_iff in E. destruct E as [E|E]; apply andb_true_iff in E; destruct E as [E1 E2]; [left|right]; lia.
Qed.
Lemma check_integer_mono c u : check_integer false c = Ok u -> check_integer true c = Ok u.
Proof.
  unfold check_integer. destruct c as [|b0 [|b1 r]]; auto. destruct (_ || _); [discriminate|]. auto.
Qed.

Lemma parse_oid_lax b c : parse_oid b true c = parse_oid b false c \/ c = [].
Proof. destruct c; [right; reflexivity|left; reflexivity]. Qed.
Lemma parse_oid_mono b c l : parse_oid b false c = Ok l -> parse_oid b true c = Ok l.
Proof. destruct c; [discriminate|auto]. Qed.

Lemma parse_printable_lax c : parse_printable true c = parse_printable false c \/ printable_8bit c.
Proof.
  unfold parse_printable, printable_8bit. destruct (forallb (is_printable true true) c); [left; reflexivity|]. cbn [negb].
  destruct (could_be_iso8859_1 c); [right; auto|]. destruct (could_be_t61 c); [right; auto|]. left; reflexivity.
Qed.
Lemma parse_printable_mono c s : parse_printable false c = Ok s -> parse_printable true c = Ok s.
Proof. unfold parse_printable. destruct (forallb _ c); [auto|discriminate]. Qed.

(* results under the relaxation, when the strict parser refuses: what the value then is *)
Lemma parse_printable_lax_value c s :
  parse_printable true c = Ok s -> s = c \/ (could_be_iso8859_1 c = true /\ s = iso8859_1_to_utf8 c).
Proof.
  unfold parse_printable. destruct (forallb _ c); [intros H; inversion H; auto|]. cbn [negb].
  destruct (could_be_iso8859_1 c); [intros H; inversion H; auto|].
  destruct (could_be_t61 c); [intros H; inversion H; auto|discriminate].
Qed.

(* ------------------------------------------------------------------ fork versus upstream (D2 in OIDs, D3) *)

Definition subid_boundary (pre : bytes) : Prop := pre = [] \/ bz (last pre x00) < 128.
(* a sub-identifier of the OID content begins with the octet 0x80 *)
Definition oid_leading80 (c : bytes) : Prop := exists pre s, c = pre ++ x80 :: s /\ subid_boundary pre.

Lemma b128_loop_last v d : forall k acc n r,
  b128_loop v k acc d = Ok (n, r) -> exists h, d = h ++ r /\ h <> [] /\ bz (last h x00) < 128.
Proof.
  induction d as [|b t IH]; intros k acc n r H; cbn [b128_loop] in H; [discriminate|].
  destruct (k =? 5)%nat; [discriminate|]. destruct (_ && _ && _); [discriminate|].
  destruct (Z.ltb_spec (bz b) 128).
  - destruct (_ >? _); [discriminate|]. inversion H; subst. exists [b]. repeat split; [discriminate|assumption].
  - apply IH in H. destruct H as (h & -> & Hn & Hl). exists (b :: h). repeat split; [discriminate|].
    destruct h; [congruence|exact Hl].
Qed.

Lemma last_app_r {A} (pre h : list A) d : h <> [] -> last (pre ++ h) d = last h d.
Proof.
  intros Hn. induction pre as [|x pre IH]; [reflexivity|]. cbn [app].
  assert (Hne : pre ++ h <> []) by (destruct pre; [exact Hn|discriminate]).
  destruct (pre ++ h) as [|y t]; [congruence|]. exact IH.
Qed.

Lemma boundary_app pre h : h <> [] -> bz (last h x00) < 128 -> subid_boundary (pre ++ h).
Proof. intros Hn Hl. right. rewrite last_app_r by exact Hn. exact Hl. Qed.

Lemma oid_rest_variant fuel : forall d pre, subid_boundary pre ->
  oid_rest (parse_base128 Upstream) fuel d = oid_rest (parse_base128 Fork) fuel d \/
  (exists p s, d = p ++ x80 :: s /\ subid_boundary (pre ++ p)).
Proof.
  induction fuel as [|f IH]; intros d pre Hpre; [destruct d; left; reflexivity|].
  destruct d as [|b r]; [left; reflexivity|]. cbn [oid_rest].
  destruct (parse_base128_variant (b :: r)) as [E|(s & E)].
  - rewrite E. destruct (parse_base128 Fork (b :: r)) as [[n r']| | | | |] eqn:EF; try (left; reflexivity).
    cbn [bind fst snd]. unfold parse_base128 in EF. apply b128_loop_last in EF. destruct EF as (h & Eh & Hn & Hl).
    destruct (IH r' (pre ++ h) (boundary_app _ _ Hn Hl)) as [E2|(p & s & -> & Hb)].
    + rewrite E2. left; reflexivity.
    + right. exists (h ++ p), s. rewrite Eh. rewrite <- app_assoc. split; [reflexivity|]. rewrite app_assoc. exact Hb.
  - right. exists [], s. rewrite app_nil_r. split; [exact E|exact Hpre].
Qed.

Lemma parse_oid_variant lax c :
  parse_oid (parse_base128 Upstream) lax c = parse_oid (parse_base128 Fork) lax c \/ oid_leading80 c.
Proof.
  unfold parse_oid. destruct c as [|b r]; [left; reflexivity|].
  destruct (parse_base128_variant (b :: r)) as [E|(s & E)].
  - rewrite E. destruct (parse_base128 Fork (b :: r)) as [[n r']| | | | |] eqn:EF; try (left; reflexivity).
    cbn [bind fst snd]. unfold parse_base128 in EF. apply b128_loop_last in EF. destruct EF as (h & Eh & Hn & Hl).
    destruct (oid_rest_variant (length (b :: r)) r' h (boundary_app [] _ Hn Hl)) as [E2|(p & s & -> & Hb)].
    + rewrite E2. left; reflexivity.
    + right. exists (h ++ p), s. rewrite Eh, <- app_assoc. split; [reflexivity|exact Hb].
  - right. exists [], s. split; [exact E|left; reflexivity].
Qed.

Lemma oid_rest_up_fork fuel : forall d l, oid_rest (parse_base128 Upstream) fuel d = Ok l -> oid_rest (parse_base128 Fork) fuel d = Ok l.
Proof.
  induction fuel as [|f IH]; intros d l; [destruct d; auto|]. destruct d as [|b r]; [auto|]. cbn [oid_rest].
  intros H. apply bind_ok in H. destruct H as ([n r'] & E & H). apply parse_base128_up_fork in E. rewrite E. cbn [bind fst snd] in *.
  apply bind_ok in H. destruct H as (l' & E2 & H). apply IH in E2. rewrite E2. exact H.
Qed.
Lemma parse_oid_up_fork lax c l : parse_oid (parse_base128 Upstream) lax c = Ok l -> parse_oid (parse_base128 Fork) lax c = Ok l.
Proof.
  unfold parse_oid. destruct c as [|b r]; [auto|]. intros H. apply bind_ok in H. destruct H as ([n r'] & E & H).
  apply parse_base128_up_fork in E. rewrite E. cbn [bind fst snd] in *.
  apply bind_ok in H. destruct H as (l' & E2 & H). apply oid_rest_up_fork in E2. rewrite E2. exact H.
Qed.

(* D3: a '.' directly after the fourteen digits YYYYMMDDhhmmss *)
Definition gentime_fraction (c : bytes) : Prop := exists p s, c = p ++ x2e :: s /\ length p = 14%nat.

Lemma two_digits_some d v r : two_digits d = Some (v, r) -> exists a b, d = a :: b :: r.
Proof.
  unfold two_digits. destruct d as [|a [|b t]]; try discriminate. destruct (_ && _); [|discriminate].
  intros H; inversion H; subst. eauto.
Qed.
Lemma four_digits_some d v r : four_digits d = Some (v, r) -> exists a b c e, d = a :: b :: c :: e :: r.
Proof.
  unfold four_digits. destruct (two_digits d) as [[hi r1]|] eqn:E1; [|discriminate].
  destruct (two_digits r1) as [[lo r2]|] eqn:E2; [|discriminate]. intros H; inversion H; subst.
  apply two_digits_some in E1. apply two_digits_some in E2. destruct E1 as (a & b & ->). destruct E2 as (c & e & ->). eauto 6.
Qed.

Lemma parse_fraction_variant d : parse_fraction true d = parse_fraction false d \/ (exists s, d = x2e :: s).
Proof.
  unfold parse_fraction. destruct d as [|p r]; [left; reflexivity|].
  destruct (Z.eqb_spec (bz p) 46) as [E|E]; [|left; reflexivity].
  right. exists r. f_equal. apply bz_inj. rewrite E. reflexivity.
Qed.

Lemma parse_gentime_variant c : parse_gentime true c = parse_gentime false c \/ gentime_fraction c.
Proof.
  unfold parse_gentime, parse_time_layout.
  destruct (four_digits c) as [[year r0]|] eqn:E0; [|left; reflexivity].
  destruct (two_digits r0) as [[mon r1]|] eqn:E1; [|left; reflexivity].
  destruct (two_digits r1) as [[day r2]|] eqn:E2; [|left; reflexivity].
  destruct (two_digits r2) as [[hh r3]|] eqn:E3; [|left; reflexivity].
  destruct (two_digits r3) as [[mi r4]|] eqn:E4; [|left; reflexivity].
  destruct (two_digits r4) as [[ss r5]|] eqn:E5; [|left; reflexivity].
  destruct (parse_fraction_variant r5) as [->|(s & ->)]; [left; reflexivity|].
  right. apply four_digits_some in E0. destruct E0 as (a0 & a1 & a2 & a3 & ->).
  apply two_digits_some in E1. destruct E1 as (b0 & b1 & ->).
  apply two_digits_some in E2. destruct E2 as (c0 & c1 & ->).
  apply two_digits_some in E3. destruct E3 as (d0 & d1 & ->).
  apply two_digits_some in E4. destruct E4 as (e0 & e1 & ->).
  apply two_digits_some in E5. destruct E5 as (f0 & f1 & ->).
  exists [a0; a1; a2; a3; b0; b1; c0; c1; d0; d1; e0; e1; f0; f1], s. split; reflexivity.
Qed.

Lemma parse_fraction_fork_up d r : parse_fraction false d = Some r -> parse_fraction true d = Some r.
Proof. unfold parse_fraction. destruct d as [|p t]; [auto|]. destruct (bz p =? 46); [discriminate|auto]. Qed.

Lemma parse_gentime_fork_up c t : parse_gentime false c = Ok t -> parse_gentime true c = Ok t.
Proof.
  unfold parse_gentime, parse_time_layout.
  destruct (four_digits c) as [[year r0]|]; [|auto].
  destruct (two_digits r0) as [[mon r1]|]; [|auto].
  destruct (two_digits r1) as [[day r2]|]; [|auto].
  destruct (two_digits r2) as [[hh r3]|]; [|auto].
  destruct (two_digits r3) as [[mi r4]|]; [|auto].
  destruct (two_digits r4) as [[ss r5]|]; [|auto].
  destruct (parse_fraction false r5) as [[ns r6]|] eqn:E; [|discriminate].
  rewrite (parse_fraction_fork_up _ _ E). auto.
Qed.

(* ------------------------------------------------------------------ relating two leaf sets *)

(* lax only relaxes *)
Lemma leaves_lax_mono v :
  (forall d, l_b128 (leaves_of v false) d = l_b128 (leaves_of v true) d) /\
  (forall c u, l_int_check (leaves_of v false) c = Ok u -> l_int_check (leaves_of v true) c = Ok u) /\
  (forall c l, l_oid (leaves_of v false) c = Ok l -> l_oid (leaves_of v true) c = Ok l) /\
  (forall c s, l_printable (leaves_of v false) c = Ok s -> l_printable (leaves_of v true) c = Ok s) /\
  (forall c, l_gentime (leaves_of v false) c = l_gentime (leaves_of v true) c).
Proof.
  destruct v; cbn; repeat split; auto using check_integer_mono, parse_oid_mono, parse_printable_mono.
Qed.
