(* C19 - executable model of the CT witness
   (internal/witness/cmd/witness/internal/witness/witness.go: parse, Update, GetSTH, GetLogs,
   signSTH, getLatestSTH, setSTH).  Definitions only; proofs in Witness/WitnessProofs.v.

   The database is ONE table  logID -> raw STH bytes  (exactly what the sths table holds:
   sizes and roots are recovered by re-parsing the stored bytes, as the code does).
   Every Update runs in one SQL transaction and every GetSTH / GetLogs is one query, so each
   operation is one atomic step; N concurrent clients = any interleaving of their steps.

   Oracles (Section variables, nothing assumed beyond what is stated in the proofs file):
     H        SHA-256                         idhash   the configured logs + base64 of their ids
     decode   encoding/json on a raw STH      sig_ok   the log-signature verdict
     sign / verify                            the witness key
   [strict_len] = false is the code as it is; true is the code with pending_fixes/C19-1
   (proof nodes must be hlen bytes long).  [cosign_held] = false is the code as it is (refusals
   and same-STH no-ops answer with the stored bytes verbatim); true is the code with
   pending_fixes/C19-2 (they answer with the held STH cosigned).  Nothing else differs. *)
From Coq Require Import NArith List Bool.
From Coq.Strings Require Import Byte.
From V Require Import Base.Bytes Merkle.Merkle.
Import ListNotations.
Local Open Scope N_scope.

Definition logid := bytes.          (* the log id STRING (base64 text) used as map / table key *)

(* a decoded ct.SignedTreeHead; p_sig is the TLS encoding of TreeHeadSignature *)
Record psth := { p_version : N; p_size : N; p_time : N; p_root : bytes; p_sig : bytes; p_logid : bytes }.

Definition set_logid (p : psth) (h : bytes) : psth :=
  {| p_version := p_version p; p_size := p_size p; p_time := p_time p; p_root := p_root p;
     p_sig := p_sig p; p_logid := h |}.

Definition psth_eqb (a b : psth) : bool :=
  (p_version a =? p_version b) && (p_size a =? p_size b) && (p_time a =? p_time b)
  && bytes_eqb (p_root a) (p_root b) && bytes_eqb (p_sig a) (p_sig b) && bytes_eqb (p_logid a) (p_logid b).

(* tls.Marshal(ct.SignedTreeHead): what the witness signs and the verifier checks.
   SignedTreeHead.Version carries only a json tag, no tls tag: tls.Marshal gives such an Enum
   zero bytes (observed, and compared byte for byte by the harness), so the version is NOT part
   of the cosigned bytes; only version 0 (V1) ever gets here, parse having verified the log
   signature, whose input refuses any other version. *)
Definition sth_enc (p : psth) : bytes :=
  be_enc 8 (p_size p) ++ be_enc 8 (p_time p) ++ p_root p ++ p_sig p ++ p_logid p.

Definition zero_id : bytes := rep 32 x00.

Inductive perr := PUnknownLog | PJson | PBadKey | PMismatch | PBadSig.
Inductive eclass := EOk | ENotFound | EFailedPre | EOther.     (* nil / codes.NotFound / codes.FailedPrecondition / any other error *)
Inductive body := BNone | BRaw (r : bytes) | BCosigned (p : psth) (sig : bytes).
Definition resp := (body * eclass)%type.

(* where inside the transaction the database refuses (lock contention, I/O) *)
Inductive dbfault := NoFault | FBegin | FGet | FSet.

Inductive op :=
| OUpdate (id : logid) (raw : bytes) (proof : list bytes) (f : dbfault)
| OGetSTH (id : logid) (fault : bool)
| OGetLogs (fault : bool).

Inductive out :=
| ORsp (r : resp)
| OLogs (l : option (list logid)).

Definition state := list (logid * bytes).

(* internal/http/server.go: update() answers 409 + the body for FailedPrecondition and 500
   for every other error (including NotFound: it calls httpForCode on the constant 500);
   getSTH() maps the status code through httpForCode *)
Definition http_status_update (e : eclass) : N := match e with EOk => 200 | EFailedPre => 409 | _ => 500 end.
Definition http_status_get (e : eclass) : N :=
  match e with EOk => 200 | ENotFound => 404 | EFailedPre => 409 | EOther => 500 end.

Fixpoint lookup (st : state) (id : logid) : option bytes :=
  match st with
  | [] => None
  | (i, r) :: t => if bytes_eqb i id then Some r else lookup t id
  end.

(* INSERT OR REPLACE *)
Fixpoint store (st : state) (id : logid) (raw : bytes) : state :=
  match st with
  | [] => [(id, raw)]
  | (i, r) :: t => if bytes_eqb i id then (i, raw) :: t else (i, r) :: store t id raw
  end.

Section Witness.
  Variable H : bytes -> bytes.
  Variable hlen : nat.
  Variable strict_len : bool.
  Variable cosign_held : bool.
  (* None: not a configured log; Some None: configured, but the key string is not the base64
     of 32 bytes; Some (Some h): configured, id hash h *)
  Variable idhash : logid -> option (option bytes).
  Variable decode : bytes -> option psth.
  Variable sig_ok : logid -> psth -> bool.
  Variable sign : bytes -> bytes.
  Variable verify : bytes -> bytes -> bool.

  (* parse(): log lookup, JSON, id decoding, id fill-in / match, log signature *)
  Definition parse (raw : bytes) (id : logid) : psth + perr :=
    match idhash id with
    | None => inr PUnknownLog
    | Some oh =>
        match decode raw with
        | None => inr PJson
        | Some p =>
            match oh with
            | None => inr PBadKey
            | Some h =>
                if bytes_eqb (p_logid p) zero_id then
                  (let p' := set_logid p h in if sig_ok id p' then inl p' else inr PBadSig)
                else if negb (bytes_eqb (p_logid p) h) then inr PMismatch   (* FailedPrecondition, lost by the callers' %v *)
                else if sig_ok id p then inl p else inr PBadSig
            end
        end
    end.

  (* signSTH *)
  Definition cosign (p : psth) : body := BCosigned p (sign (sth_enc p)).

  Definition sized_b (h : bytes) : bool := Nat.eqb (length h) hlen.

  (* how the currently held STH is shown in refusals and no-ops *)
  Definition held_body (prevRaw : bytes) (prev : psth) : body :=
    if cosign_held then cosign prev else BRaw prevRaw.

  Definition refused (st : state) (prevRaw : bytes) (prev : psth) : state * resp :=
    (st, (held_body prevRaw prev, EFailedPre)).
  Definition failed (st : state) : state * resp := (st, (BNone, EOther)).

  Definition commit (st : state) (id : logid) (raw : bytes) (next : psth) (f : dbfault) : state * resp :=
    match f with
    | FSet => failed st                                   (* Exec or Commit failed: rolled back *)
    | _ => (store st id raw, (cosign next, EOk))
    end.

  (* Update(), branch for branch *)
  Definition update (st : state) (id : logid) (raw : bytes) (proof : list bytes) (f : dbfault) : state * resp :=
    match idhash id with
    | None => (st, (BNone, ENotFound))
    | Some _ =>
        match parse raw id with
        | inr _ => failed st
        | inl next =>
            match f with
            | FBegin => failed st
            | FGet => failed st
            | _ =>
                match lookup st id with
                | None => commit st id raw next f                                        (* TOFU *)
                | Some prevRaw =>
                    match parse prevRaw id with
                    | inr _ => failed st
                    | inl prev =>
                        if p_size next <? p_size prev then refused st prevRaw prev
                        else if p_size next =? p_size prev then
                          (if negb (bytes_eqb (p_root next) (p_root prev)) then refused st prevRaw prev
                           else (st, (held_body prevRaw prev, EOk)))
                        else if strict_len && negb (forallb sized_b proof) then refused st prevRaw prev
                        else if negb (verify_consistency H (p_size prev) (p_size next) proof (p_root prev) (p_root next))
                             then refused st prevRaw prev
                        else commit st id raw next f
                    end
                end
            end
        end
    end.

  (* GetSTH(): no row -> NotFound; stored bytes re-parsed and cosigned *)
  Definition get_sth (st : state) (id : logid) (fault : bool) : resp :=
    if fault then (BNone, EOther)
    else match lookup st id with
         | None => (BNone, ENotFound)
         | Some raw =>
             match parse raw id with
             | inr _ => (BNone, EOther)
             | inl p => (cosign p, EOk)
             end
         end.

  Definition get_logs (st : state) (fault : bool) : option (list logid) :=
    if fault then None else Some (map fst st).

  Definition step (st : state) (o : op) : state * out :=
    match o with
    | OUpdate id raw pf f => let '(st', r) := update st id raw pf f in (st', ORsp r)
    | OGetSTH id fl => (st, ORsp (get_sth st id fl))
    | OGetLogs fl => (st, OLogs (get_logs st fl))
    end.

  Fixpoint run (st : state) (ops : list op) : state * list out :=
    match ops with
    | [] => (st, [])
    | o :: t => let '(st1, r) := step st o in let '(st2, rs) := run st1 t in (st2, r :: rs)
    end.

  Definition run_state (st : state) (ops : list op) : state := fst (run st ops).

  (* the STH held for a log: the stored bytes as the witness itself reads them *)
  Definition held (st : state) (id : logid) : option psth :=
    match lookup st id with
    | None => None
    | Some raw => match parse raw id with inl p => Some p | inr _ => None end
    end.

  Definition op_sized (o : op) : Prop :=
    match o with OUpdate _ _ pf _ => Forall (fun h => length h = hlen) pf | _ => True end.

End Witness.

(* witness.New over a database that already exists (a restart of the process, or a second Witness
   value created over the same database): CREATE TABLE IF NOT EXISTS - every row stays, whichever
   logs are configured now.  Nothing else of the witness outlives the value: no other state. *)
Definition restart (st : state) : state := st.

(* the configured logs: the [idhash] oracle of the Section above *)
Definition config := logid -> option (option bytes).

(* a life of the database: epochs, each one Witness value with its own configuration, each started
   by witness.New on the table the previous one left *)
Fixpoint run_epochs (H : bytes -> bytes) (hlen : nat) (strict_len cosign_held : bool)
    (decode : bytes -> option psth) (sig_ok : logid -> psth -> bool) (sign : bytes -> bytes)
    (st : state) (eps : list (config * list op)) : state * list (list out) :=
  match eps with
  | [] => (st, [])
  | (idh, ops) :: t =>
      let '(st1, rs) := run H hlen strict_len cosign_held idh decode sig_ok sign (restart st) ops in
      let '(st2, rss) := run_epochs H hlen strict_len cosign_held decode sig_ok sign st1 t in
      (st2, rs :: rss)
  end.

(* executions of N concurrent clients: every interleaving of their operation sequences *)
Inductive interleaving {A : Type} : list (list A) -> list A -> Prop :=
| il_done : forall ts, Forall (fun t => t = []) ts -> interleaving ts []
| il_step : forall pre x t post tr,
    interleaving (pre ++ t :: post) tr -> interleaving (pre ++ (x :: t) :: post) (x :: tr).
