// C07 correspondence harness: GET /ct/v1/get-entries on a real ctfe.Instance over a scripted
// backend; records HTTP status, the GetLeavesByRangeRequest the backend saw, and the served
// entries, for start/end over a grid that includes the int64 overflow and alignment edges.
package main

import (
	"context"
	"encoding/json"
	"flag"
	"fmt"
	"math"
	"math/big"
	"net/url"
	"strconv"

	ct "github.com/google/certificate-transparency-go"
	"github.com/google/certificate-transparency-go/tls"
	"github.com/google/certificate-transparency-go/trillian/ctfe"
	"github.com/google/trillian"
	"github.com/google/trillian/types"
	"google.golang.org/grpc/codes"
	"google.golang.org/grpc/status"

	"verif/harness/ctfeenv"
	"verif/harness/lib"
	"verif/harness/pki"
)

const header = `From Coq Require Import ZArith List. Import ListNotations.
From Coq Require Import String.
From V Require Import Base.Bytes CTFE.GetEntriesModel CTFE.GetEntriesCase.
Local Open Scope Z_scope.
`

type leafT struct {
	Index int64
	Value []byte
	Extra []byte
}

func param(s string) string {
	v, err := strconv.ParseInt(s, 10, 64)
	if err != nil {
		return "PBad"
	}
	return "(PInt " + lib.Z(v) + ")"
}

func main() {
	flag.Parse()
	r := lib.Rand()
	root := pki.Issue(pki.Opts{CN: "root", IsCA: true}, nil)
	env, err := ctfeenv.New(ctfeenv.Options{Roots: []*pki.Entity{root}, Dir: *lib.OutDir})
	if err != nil {
		panic(err)
	}
	w := lib.NewWriter(header, 400)
	defer w.Guard()
	n := lib.Count(900, 30000)

	// the stored log (honest mode serves from it)
	var store []leafT
	for i := 0; i < 40; i++ {
		v := make([]byte, 1+r.Intn(6))
		x := make([]byte, r.Intn(5))
		r.Read(v)
		r.Read(x)
		// the handler passes stored bytes through whatever they are: arbitrary bytes, a well-formed
		// MerkleTreeLeaf, and a well-formed MerkleTreeLeaf followed by further bytes
		if k := i % 4; k == 1 || k == 2 {
			c := make([]byte, 1+r.Intn(5))
			r.Read(c)
			lf, err := tls.Marshal(ct.MerkleTreeLeaf{Version: ct.V1, LeafType: ct.TimestampedEntryLeafType,
				TimestampedEntry: &ct.TimestampedEntry{Timestamp: r.Uint64(), EntryType: ct.X509LogEntryType, X509Entry: &ct.ASN1Cert{Data: c}}})
			if err != nil {
				panic(err)
			}
			if k == 2 {
				lf = append(lf, v...)
			}
			v = lf
		}
		store = append(store, leafT{int64(i), v, x})
	}

	maxes := []int64{1, 2, 7, 1000, 1 << 31, 1 << 62, math.MaxInt64}
	edge := func(max int64) []int64 {
		m := math.MaxInt64
		vs := []int64{0, 1, 2, 5, 39, 40, 41, max - 1, max, max + 1, 2*max - 1, 2 * max, 1 << 62, int64(m), int64(m) - 1, int64(m) - max, int64(m) - max + 1, int64(m) - 999, int64(m) - 1000}
		var out []int64
		for _, v := range vs {
			if v >= 0 {
				out = append(out, v)
			}
		}
		return out
	}
	badParams := []string{"", "abc", "-1", "9223372036854775808", "1.5", "0x10", " 1", "+5", "-9223372036854775808", "１"}

	for i := 0; i < n; i++ {
		max := maxes[r.Intn(len(maxes))]
		if r.Intn(3) == 0 {
			max = 1 + r.Int63n(50)
		}
		align := r.Intn(2) == 0
		ctfe.MaxGetEntriesAllowed = max
		if err := flag.Set("align_getentries", strconv.FormatBool(align)); err != nil {
			panic(err)
		}
		var ss, es string
		tag := "range:grid"
		switch k := r.Intn(10); {
		case k < 5:
			ed := edge(max)
			ss = strconv.FormatInt(ed[r.Intn(len(ed))], 10)
			es = strconv.FormatInt(ed[r.Intn(len(ed))], 10)
		case k < 8: // inside the stored tree
			a := r.Int63n(45)
			b := a + r.Int63n(60)
			ss, es = strconv.FormatInt(a, 10), strconv.FormatInt(b, 10)
			tag = "range:in-tree"
		case k < 9:
			a, b := r.Int63(), r.Int63()
			ss, es = strconv.FormatInt(a, 10), strconv.FormatInt(b, 10)
			tag = "range:random"
		default:
			ss = badParams[r.Intn(len(badParams))]
			es = strconv.FormatInt(r.Int63n(100), 10)
			if r.Intn(2) == 0 {
				ss, es = es, ss
			}
			tag = "range:bad-param"
		}
		// backend behaviour
		mode := []string{"honest", "honest", "honest", "honest", "short", "surplus", "misindexed", "garbled-root", "small-tree", "rpc-error", "plain-error", "empty"}[r.Intn(12)]
		var reply string = "(RCode 0)"
		var replyJ interface{}
		code := codes.Code(1 + r.Intn(16))
		surplusReal := false
		misindexedReal := false
		env.Backend.GetLeavesByRangeFn = func(_ context.Context, req *trillian.GetLeavesByRangeRequest) (*trillian.GetLeavesByRangeResponse, error) {
			if mode == "rpc-error" {
				reply = fmt.Sprintf("(RCode %d)", int(code))
				replyJ = map[string]interface{}{"rpc_error": code.String()}
				return nil, status.Error(code, "injected")
			}
			if mode == "plain-error" {
				reply = "RPlain"
				replyJ = "plain error"
				return nil, fmt.Errorf("not a status error")
			}
			size := uint64(len(store))
			var ls []leafT
			cnt := req.Count
			if mode == "short" && cnt > 1 {
				cnt = 1 + r.Int63n(cnt)
			}
			for j := int64(0); j < cnt && j < 64; j++ {
				idx := req.StartIndex + j
				if idx < 0 || idx >= int64(len(store)) {
					break
				}
				ls = append(ls, store[idx])
			}
			switch mode {
			case "surplus":
				k := 1 + r.Intn(2)
				for j := 0; j < k; j++ {
					nx := req.StartIndex + int64(len(ls))
					ls = append(ls, leafT{nx, []byte{0xee}, []byte{0xff}})
				}
				if req.Count >= 0 && int64(len(ls)) <= req.Count { // make it really surplus when the range is small
					for int64(len(ls)) <= req.Count && len(ls) < 70 {
						nx := req.StartIndex + int64(len(ls))
						ls = append(ls, leafT{nx, []byte{0xee}, []byte{0xff}})
					}
				}
				if size <= uint64(req.StartIndex) && req.StartIndex >= 0 {
					size = uint64(req.StartIndex) + 100
				}
			case "misindexed":
				if len(ls) > 0 {
					j := r.Intn(len(ls))
					l := ls[j]
					l.Index += int64(1 + r.Intn(3))
					if r.Intn(2) == 0 {
						l.Index = ls[j].Index - 1
					}
					ls = append(append(append([]leafT{}, ls[:j]...), l), ls[j+1:]...)
					misindexedReal = true
				}
			case "small-tree":
				if req.StartIndex >= 0 {
					if req.StartIndex == math.MaxInt64 {
						size = uint64(r.Int63())
					} else {
						size = uint64(r.Int63n(req.StartIndex + 1))
					}
				}
				ls = nil
			case "empty":
				ls = nil
			}
			surplusReal = mode == "surplus" && int64(len(ls)) > req.Count
			rootBytes, _ := (&types.LogRootV1{TreeSize: size, RootHash: make([]byte, 32), TimestampNanos: 1}).MarshalBinary()
			rootCoq := lib.Some(lib.ZBig(bigU(size)))
			if mode == "garbled-root" {
				rootBytes = rootBytes[:len(rootBytes)-3]
				rootCoq = "None"
			}
			rsp := &trillian.GetLeavesByRangeResponse{SignedLogRoot: &trillian.SignedLogRoot{LogRoot: rootBytes}}
			var lc []string
			var lj []interface{}
			for _, l := range ls {
				rsp.Leaves = append(rsp.Leaves, &trillian.LogLeaf{LeafIndex: l.Index, LeafValue: l.Value, ExtraData: l.Extra})
				lc = append(lc, lib.Pair(lib.Z(l.Index), lib.Hex(l.Value), lib.Hex(l.Extra)))
				lj = append(lj, l.Index)
			}
			reply = fmt.Sprintf("(RLeaves %s %s)", rootCoq, lib.List(lc))
			replyJ = map[string]interface{}{"tree_size": size, "garbled_root": mode == "garbled-root", "leaf_indices": lj}
			return rsp, nil
		}
		env.Backend.Reset()
		q := url.Values{}
		q.Set("start", ss)
		q.Set("end", es)
		if ss == "" {
			q.Del("start")
		}
		if es == "" {
			q.Del("end")
		}
		rec := env.Get(ct.GetEntriesPath, q.Encode())
		calls := env.Backend.Reset()
		reqCoq := "None"
		var reqJ interface{}
		propOK := true
		note := ""
		sv, serr := strconv.ParseInt(ss, 10, 64)
		ev, eerr := strconv.ParseInt(es, 10, 64)
		valid := serr == nil && eerr == nil && 0 <= sv && sv <= ev
		if len(calls) > 0 {
			rq := calls[0].Req.(*trillian.GetLeavesByRangeRequest)
			reqCoq = lib.Some(lib.Pair(lib.Z(rq.StartIndex), lib.Z(rq.Count)))
			reqJ = map[string]int64{"start": rq.StartIndex, "count": rq.Count}
			// direct oracle on the request (the property's first sentence)
			if !valid {
				propOK, note = false, "backend called for an invalid parameter combination"
			} else if rq.StartIndex != sv || rq.Count < 1 || rq.Count > max || rq.Count-1 > ev-sv {
				propOK, note = false, fmt.Sprintf("get-entries start=%s end=%s max=%d align=%v -> backend start=%d count=%d", ss, es, max, align, rq.StartIndex, rq.Count)
			}
		} else if valid {
			propOK, note = false, "no backend call for a valid range"
		}
		if !valid && (rec.Code < 400 || rec.Code > 499) {
			propOK, note = false, "invalid parameters not answered 4xx"
		}
		var served []string
		var servedJ int
		if rec.Code == 200 {
			var rsp ct.GetEntriesResponse
			if err := json.Unmarshal(rec.Body.Bytes(), &rsp); err != nil {
				propOK, note = false, "200 body does not parse"
			}
			for j, e := range rsp.Entries {
				served = append(served, lib.Pair(lib.Hex(e.LeafInput), lib.Hex(e.ExtraData)))
				// direct oracle: served bytes are the stored bytes of consecutive indices from start
				idx := sv + int64(j)
				if idx >= int64(len(store)) || string(store[idx].Value) != string(e.LeafInput) || string(store[idx].Extra) != string(e.ExtraData) {
					if mode == "honest" || mode == "short" {
						propOK, note = false, "served bytes differ from stored bytes"
					}
				}
			}
			servedJ = len(rsp.Entries)
			if mode == "surplus" || mode == "misindexed" {
				// a mis-indexed or surplus reply must not be served as success
				if surplusReal {
					propOK, note = false, "surplus leaves served with 200"
				}
				if misindexedReal {
					propOK, note = false, "mis-indexed backend reply served with 200"
				}
			}
			if len(rsp.Entries) == 0 && (mode == "honest" || mode == "short") {
				propOK, note = false, "200 with no entries"
			}
		}
		w.Add(lib.Case{
			Coq: fmt.Sprintf("CGet %s %s %s %s %s %s %s %s", lib.Z(max), lib.Bool(align), param(ss), param(es), reply,
				lib.Z(int64(rec.Code)), reqCoq, lib.List(served)),
			Input:  map[string]interface{}{"start": ss, "end": es, "max": max, "align": align, "backend": mode, "reply": replyJ},
			Impl:   map[string]interface{}{"status": rec.Code, "backend_request": reqJ, "served_entries": servedJ},
			PropOK: propOK, Note: note,
			Tags: []string{tag, "backend:" + mode, fmt.Sprintf("status:%d", rec.Code)},
		})
	}
	ctfe.MaxGetEntriesAllowed = 1000
	flag.Set("align_getentries", "false")
	realEntries(w, r)
	overlapping(w, r)
	w.Close()
	fmt.Printf("c07: wrote %d cases\n", w.Len())
}

func bigU(v uint64) *big.Int { return new(big.Int).SetUint64(v) }
