(* C07: hand model of the get-entries handler around the GENERATED range arithmetic. *)
From Coq Require Import ZArith Bool List Lia.
From V Require Import Base.GoInt Base.Bytes gen.GetEntries.
Import ListNotations.
Open Scope Z_scope.

Inductive param := PInt (z : Z) | PBad.      (* strconv.ParseInt(..., 10, 64): value or error *)

Record leaf := { l_index : Z; l_value : bytes; l_extra : bytes }.

(* what the backend answers to GetLeavesByRange *)
Inductive bres :=
| BErr (http : Z)                                  (* RPC error, already mapped by toHTTPStatus (C08) *)
| BReply (root : option Z) (leaves : list leaf).   (* root: None = log root does not unmarshal; Some n = tree size *)

Record outcome := { o_status : Z; o_request : option (Z * Z); o_served : list (bytes * bytes) }.

Fixpoint indices_from (s : Z) (ls : list leaf) : bool :=
  match ls with
  | [] => true
  | l :: r => (l_index l =? s) && indices_from (s + 1) r
  end.

Definition get_entries (maxr : Z) (align : bool) (ps pe : param) (backend : Z -> Z -> bres) : outcome :=
  match ps, pe with
  | PInt s0, PInt e0 =>
      match parse_range s0 e0 maxr align with
      | None => {| o_status := 400; o_request := None; o_served := [] |}
      | Some (s, e) =>
          let count := entries_count s e in
          let req := Some (s, count) in
          match backend s count with
          | BErr h => {| o_status := h; o_request := req; o_served := [] |}
          | BReply None _ => {| o_status := 500; o_request := req; o_served := [] |}
          | BReply (Some n) ls =>
              if n <=? s then {| o_status := 400; o_request := req; o_served := [] |}
              else if Z.of_nat (length ls) >? count then {| o_status := 500; o_request := req; o_served := [] |}
              else if negb (indices_from s ls) then {| o_status := 500; o_request := req; o_served := [] |}
              else {| o_status := 200; o_request := req; o_served := map (fun l => (l_value l, l_extra l)) ls |}
          end
      end
  | _, _ => {| o_status := 400; o_request := None; o_served := [] |}
  end.

(* an honest backend over a stored log: the leaves [s, min(s+count, n)) *)
Definition stored := list (bytes * bytes).
Fixpoint take_from (st : stored) (i : nat) (k : nat) (idx : Z) : list leaf :=
  match k with
  | O => []
  | S k' => match nth_error st i with
            | None => []
            | Some (v, x) => {| l_index := idx; l_value := v; l_extra := x |} :: take_from st (S i) k' (idx + 1)
            end
  end.
Definition honest (st : stored) (s count : Z) : bres :=
  BReply (Some (Z.of_nat (length st))) (take_from st (Z.to_nat s) (Z.to_nat count) s).
