(* Lemmas about the client model. *)
From Coq Require Import String NArith ZArith List Bool Lia.
From V Require Import Base.Bytes Base.GoInt TLS.TlsModel TLS.TlsRoundTripB gen.CtTypes CT.Rfc6962Spec CT.Rfc6962Proofs CT.CtFuncs CT.CtFuncsProofs
  Client.ClientModel Client.ClientSpec Client.ClientCodec.
Import ListNotations.

(* ------------------------------------------------------------------ jsonclient *)

Lemma get_and_parse_reported {F} (o : outcome F) : reported o (get_and_parse o).
Proof.
  unfold reported, get_and_parse, received, good_response, no_response.
  destruct o as [[|]|r]; [reflexivity|left; reflexivity|].
  destruct (r_close_ok r) eqn:Ec; cbn [negb]; [|right; exists r; auto].
  destruct (r_read_ok r) eqn:Er; cbn [negb]; [|exists r; auto].
  destruct (Z.eqb_spec (r_status r) 200) as [Es|Es]; cbn [negb]; [|exists r; auto].
  destruct (r_json r) as [f|] eqn:Ej; [|exists r; auto].
  exists f, r. auto.
Qed.

Lemma get_and_parse_ok {F} (o : outcome F) st b f :
  get_and_parse o = COk (st, b, f) -> good_response o f /\ received o st b.
Proof.
  unfold get_and_parse, good_response, received.
  destruct o as [[|]|r]; try discriminate.
  destruct (r_close_ok r) eqn:Ec; cbn [negb]; [|discriminate].
  destruct (r_read_ok r) eqn:Er; cbn [negb]; [|discriminate].
  destruct (Z.eqb_spec (r_status r) 200) as [Es|Es]; cbn [negb]; [|discriminate].
  destruct (r_json r) as [f'|] eqn:Ej; [|discriminate].
  intros H; inversion H; subst. split; exists r; auto.
Qed.

(* a method that only post-processes a successful GetAndParse, turning some results into
   RspErr with the same status / body, keeps [reported] *)
Lemma reported_refine {F A} (o : outcome F) (k : Z -> N -> F -> result A) :
  (forall st b f, match k st b f with COk _ => True | CRspErr st' b' => st' = st /\ b' = b | _ => False end) ->
  reported o (match get_and_parse o with
              | COk (st, b, f) => k st b f
              | CRspErr st b => CRspErr st b
              | CPlainErr => CPlainErr | CCtxErr => CCtxErr | CPanic => CPanic
              end).
Proof.
  intros Hk. pose proof (get_and_parse_reported o) as R.
  destruct (get_and_parse o) as [[[st b] f]|st b| | |] eqn:E; try exact R.
  destruct (get_and_parse_ok _ _ _ _ E) as [G Rc].
  specialize (Hk st b f). destruct (k st b f) as [a|st' b'| | |]; cbn; try contradiction.
  - exists f. exact G.
  - destruct Hk as [-> ->]. exact Rc.
Qed.

Lemma post_and_parse_cases {F} (o : outcome F) :
  match post_and_parse o with
  | COk (st, b, Some f) => st = 200%Z /\ good_response o f /\ received o st b /\ exists r, o = Resp r /\ r_post r = true
  | COk (st, b, None) => st <> 200%Z /\ received o st b
  | CRspErr st b => received o st b
  | CPlainErr => True
  | CCtxErr => o = NoResp true
  | CPanic => False
  end.
Proof.
  unfold post_and_parse, good_response, received.
  destruct o as [[|]|r]; try exact I; [reflexivity|].
  destruct (r_close_ok r) eqn:Ec; cbn [negb]; [|exact I].
  destruct (r_read_ok r) eqn:Er; cbn [negb]; [|exists r; auto].
  destruct (r_post r) eqn:Ep; cbn [negb]; [|exact I].
  destruct (Z.eqb_spec (r_status r) 200) as [Es|Es].
  - destruct (r_json r) as [f|] eqn:Ej; [|exists r; auto].
    split; [exact Es|]. split; [exists r; auto|]. split; exists r; auto.
  - split; [exact Es|]. exists r; auto.
Qed.

Lemma post_retry_reported {F} (os : list (outcome F)) : reported_seq os (post_retry os).
Proof.
  induction os as [|o rest IH]; cbn [post_retry]; [exact I|].
  assert (Hrest : reported_seq (o :: rest) (post_retry rest)).
  { destruct (post_retry rest) as [a|st b| | |]; cbn in *; try exact IH.
    - destruct IH as (o' & f & r & Hin & Hg & Hr & Hp). exists o', f, r. auto.
    - destruct IH as (o' & Hin & Hr). exists o'. auto. }
  pose proof (post_and_parse_cases o) as C.
  destruct (post_and_parse o) as [[[st b] fo]|st b| | |]; try exact Hrest; try exact I.
  destruct fo as [f|].
  - destruct C as (-> & Hg & Hr & r & Ho & Hp). cbn. exists o, f, r. auto.
  - destruct C as (Hn & Hr).
    destruct (Z.eqb_spec st 200) as [?|_]; [contradiction|].
    destruct (st =? 408)%Z; [exact Hrest|]. destruct ((st =? 503)%Z || (st =? 429)%Z); [exact Hrest|].
    cbn. exists o. auto.
Qed.

Lemma post_retry_ok {F} (os : list (outcome F)) st b f :
  post_retry os = COk (st, b, f) -> exists o r, In o os /\ good_response o f /\ received o st b /\ o = Resp r /\ r_post r = true.
Proof.
  induction os as [|o rest IH]; cbn [post_retry]; [discriminate|].
  assert (Hrest : post_retry rest = COk (st, b, f) -> exists o' r, In o' (o :: rest) /\ good_response o' f /\ received o' st b /\ o' = Resp r /\ r_post r = true).
  { intros H. destruct (IH H) as (o' & r & Hin & Hg). exists o', r. split; [right; exact Hin|exact Hg]. }
  pose proof (post_and_parse_cases o) as C.
  destruct (post_and_parse o) as [[[st' b'] fo]|st' b'| | |]; try exact Hrest; try discriminate.
  destruct fo as [f'|].
  - destruct C as (-> & Hg & Hr & r & Ho & Hp). cbn. intros H; inversion H; subst. exists (Resp r), r. cbn; auto.
  - destruct C as (Hn & Hr).
    destruct (Z.eqb_spec st' 200) as [?|_]; [contradiction|].
    destruct (st' =? 408)%Z; [exact Hrest|]. destruct ((st' =? 503)%Z || (st' =? 429)%Z); [exact Hrest|discriminate].
Qed.

(* retryable attempts are skipped; the first definitive attempt decides *)
Lemma post_retry_skip {F} (pre : list (outcome F)) rest :
  Forall retryable pre -> post_retry (pre ++ rest) = post_retry rest.
Proof.
  induction 1 as [|o pre Ho Hpre IH]; [reflexivity|].
  rewrite <- app_comm_cons. cbn [post_retry]. unfold retryable in Ho.
  pose proof (post_and_parse_cases o) as C.
  destruct (post_and_parse o) as [[[st b] fo]|st b| | |]; try exact IH; try contradiction.
  destruct fo as [f|].
  - destruct C as (-> & _). lia.
  - destruct C as (Hn & _).
    destruct (Z.eqb_spec st 200) as [?|_]; [contradiction|].
    destruct Ho as [->|[->| ->]]; cbn; exact IH.
Qed.

Lemma post_retry_all_retryable {F} (os : list (outcome F)) : Forall retryable os -> post_retry os = CCtxErr.
Proof. intros H. rewrite <- (app_nil_r os). rewrite (post_retry_skip os [] H). reflexivity. Qed.

Lemma post_retry_definitive {F} (o : outcome F) rest :
  ~ retryable o ->
  post_retry (o :: rest) =
    match post_and_parse o with
    | COk (st, b, Some f) => COk (st, b, f)
    | COk (st, b, None) => CRspErr st b
    | _ => CCtxErr
    end.
Proof.
  unfold retryable. intros Hn. cbn [post_retry].
  pose proof (post_and_parse_cases o) as C.
  destruct (post_and_parse o) as [[[st b] fo]|st b| | |]; try (exfalso; apply Hn; exact I); try reflexivity.
  destruct fo as [f|].
  - destruct C as (-> & _). reflexivity.
  - destruct C as (H2 & _).
    destruct (Z.eqb_spec st 200) as [?|_]; [contradiction|].
    destruct (Z.eqb_spec st 408) as [?|N1]; [exfalso; apply Hn; auto|].
    destruct (Z.eqb_spec st 503) as [?|N2]; [exfalso; apply Hn; auto|].
    destruct (Z.eqb_spec st 429) as [?|N3]; [exfalso; apply Hn; auto|]. reflexivity.
Qed.

(* ------------------------------------------------------------------ the methods *)

Section Proofs.
  Variable key : Type.
  Variable sig_ok : key -> bytes -> val -> bool.
  Variable key_hash : key -> bytes.
  Variable x509_of : list bytes -> option bytes.
  Variable precert_of : list bytes -> option (bytes * bytes).
  Variable parse_cert : bytes -> pclass.
  Variable parse_tbs : bytes -> pclass.

  Notation get_sth := (get_sth key sig_ok).
  Notation derive_entry := (derive_entry x509_of precert_of).
  Notation verify_sct := (verify_sct key sig_ok x509_of precert_of).
  Notation sct_log_id := (sct_log_id key key_hash).
  Notation sct_of_response := (sct_of_response key sig_ok key_hash x509_of precert_of).
  Notation add_chain := (add_chain key sig_ok key_hash x509_of precert_of).
  Notation temporal_add_chain := (temporal_add_chain key sig_ok key_hash x509_of precert_of parse_cert).
  Notation to_log_entry := (to_log_entry parse_cert parse_tbs).
  Notation log_entry_from_leaf := (log_entry_from_leaf parse_cert parse_tbs).
  Notation decode_entries := (decode_entries parse_cert parse_tbs).
  Notation get_entries := (get_entries parse_cert parse_tbs).

  (* ---------------- get-sth ---------------- *)

  Lemma get_sth_ok verifier o s :
    get_sth verifier o = COk s ->
    exists f, good_response o f /\ to_sth (h_size f) (h_ts f) (h_root f) (h_sig f) = Ok (t_size s, t_ts s, t_root s, t_sig s) /\
      match verifier with
      | None => True
      | Some k => exists msg, serialize_sth_siginput 0 (t_ts s) (t_size s) (t_root s) = Ok msg /\ sig_ok k msg (t_sig s) = true
      end.
  Proof.
    unfold ClientModel.get_sth.
    destruct (get_and_parse o) as [[[st b] f]|st b| | |] eqn:E; try discriminate.
    destruct (get_and_parse_ok _ _ _ _ E) as [G _].
    destruct (to_sth (h_size f) (h_ts f) (h_root f) (h_sig f)) as [[[[size ts] root] ds]| | | |] eqn:Et; try discriminate.
    destruct verifier as [k|].
    - destruct (serialize_sth_siginput 0 ts size root) as [msg| | | |] eqn:Es; try discriminate.
      destruct (sig_ok k msg ds) eqn:Ev; [|discriminate].
      intros H; inversion H; subst; cbn. exists f. split; [exact G|]. split; [exact Et|]. exists msg. auto.
    - intros H; inversion H; subst; cbn. exists f. auto.
  Qed.

  Lemma get_sth_verified_l k o s :
    get_sth (Some k) o = COk s -> ts_ok (t_ts s) -> ts_ok (t_size s) ->
    sig_ok k (enc_sth_siginput (t_ts s) (t_size s) (t_root s)) (t_sig s) = true /\ length (t_root s) = 32%nat.
  Proof.
    intros H Hts Hsz. destruct (get_sth_ok _ _ _ H) as (f & _ & _ & msg & Hm & Hv).
    destruct (sth_siginput_rfc _ _ _ _ Hts Hsz Hm) as [Hl ->]. auto.
  Qed.

  (* the returned STH is the response's, field for field *)
  Lemma get_sth_fields verifier o s :
    get_sth verifier o = COk s ->
    exists f, good_response o f /\ t_size s = h_size f /\ t_ts s = h_ts f /\ t_root s = h_root f /\
      length (h_root f) = 32%nat /\ parse gen_DigitallySigned None (h_sig f) = Ok (t_sig s, []) /\
      marshal gen_DigitallySigned None (t_sig s) = Ok (h_sig f).
  Proof.
    intros H. destruct (get_sth_ok _ _ _ H) as (f & G & Ht & _).
    destruct (to_sth_lossless _ _ _ _ _ Ht) as (ds & Hl & Hp & Hm & E). inversion E; subst.
    exists f. rewrite <- H3 in *. repeat split; auto; congruence.
  Qed.

  Lemma get_sth_reported verifier o : reported o (get_sth verifier o).
  Proof.
    unfold ClientModel.get_sth. apply reported_refine. intros st b f.
    destruct (to_sth_good (h_size f) (h_ts f) (h_root f) (h_sig f)) as [G1 G2].
    destruct (to_sth (h_size f) (h_ts f) (h_root f) (h_sig f)) as [[[[size ts] root] ds]| | | |]; try contradiction; auto.
    destruct verifier as [k|]; [|exact I].
    destruct (sth_siginput_good 0 ts size root) as [S1 S2].
    destruct (serialize_sth_siginput 0 ts size root) as [msg| | | |]; try contradiction; auto.
    destruct (sig_ok k msg ds); auto.
  Qed.

  (* ---------------- add-chain ---------------- *)

  Lemma derive_entry_spec v chain et e :
    derive_entry v chain et = DEntry e -> submitted_entry x509_of precert_of chain et e /\ entry_type e = et.
  Proof.
    unfold ClientModel.derive_entry, submitted_entry.
    destruct (N.eqb_spec et gen_X509LogEntryType) as [->|N0].
    - destruct chain as [|c0 ch]; [destruct (v_guard_empty_chain v); discriminate|].
      destruct (x509_of (c0 :: ch)) as [c|] eqn:E; [|discriminate].
      intros H; inversion H; subst. split; [|reflexivity]. split; [discriminate|]. left. split; [reflexivity|]. eauto.
    - destruct (N.eqb_spec et gen_PrecertLogEntryType) as [->|N1]; cbn [negb]; [|discriminate].
      destruct chain as [|c0 ch]; [discriminate|].
      destruct (precert_of (c0 :: ch)) as [[h t]|] eqn:E; [|discriminate].
      intros H; inversion H; subst. split; [|reflexivity]. split; [discriminate|]. right. split; [reflexivity|]. eauto.
  Qed.

  Lemma derive_entry_no_panic v chain et :
    v_guard_empty_chain v = true \/ chain <> [] -> derive_entry v chain et <> DPanic.
  Proof.
    unfold ClientModel.derive_entry. intros Hg.
    destruct (et =? gen_X509LogEntryType)%N.
    - destruct chain as [|c0 ch].
      + destruct Hg as [->|Hg]; [discriminate|contradiction].
      + destruct (x509_of (c0 :: ch)); discriminate.
    - destruct (negb (et =? gen_PrecertLogEntryType)%N); [discriminate|].
      destruct chain as [|c0 ch]; [discriminate|]. destruct (precert_of (c0 :: ch)) as [[? ?]|]; discriminate.
  Qed.

  Lemma verify_sct_ok v k chain et s :
    verify_sct v (Some k) chain et s = VOk ->
    exists e msg, derive_entry v chain et = DEntry e /\
      serialize_sct_siginput (s_version s) (s_ts s) et (entry_body e) (s_ext s) = Ok msg /\ sig_ok k msg (s_sig s) = true.
  Proof.
    unfold ClientModel.verify_sct.
    destruct (derive_entry v chain et) as [e| |] eqn:Ed; try discriminate.
    destruct (serialize_sct_siginput (s_version s) (s_ts s) et (entry_body e) (s_ext s)) as [msg| | | |] eqn:Es; try discriminate.
    destruct (sig_ok k msg (s_sig s)) eqn:Ev; [|discriminate]. intros _. exists e, msg. auto.
  Qed.

  Lemma verify_sct_no_panic v verifier chain et s :
    v_guard_empty_chain v = true \/ chain <> [] -> verify_sct v verifier chain et s <> VPanic.
  Proof.
    intros Hg. unfold ClientModel.verify_sct. destruct verifier as [k|]; [|discriminate].
    pose proof (derive_entry_no_panic v chain et Hg) as Hd.
    destruct (derive_entry v chain et) as [e| |]; try discriminate; try contradiction.
    destruct (sct_siginput_good (s_version s) (s_ts s) et (entry_body e) (s_ext s)) as [S1 S2].
    destruct (serialize_sct_siginput _ _ _ _ _) as [msg| | | |]; try discriminate; try contradiction.
    destruct (sig_ok k msg (s_sig s)); discriminate.
  Qed.

  Lemma copy32_id id : length id = 32%nat -> copy32 id = id.
  Proof.
    intros H. unfold copy32. rewrite H. cbn [Nat.sub repeat]. rewrite app_nil_r.
    rewrite <- H. apply firstn_all.
  Qed.

  Lemma copy32_length id : length (copy32 id) = 32%nat.
  Proof.
    unfold copy32. rewrite app_length, firstn_length, repeat_length. lia.
  Qed.

  Lemma sct_log_id_checked k id logid :
    length (key_hash k) = 32%nat -> sct_log_id patched (Some k) id = Some logid -> logid = key_hash k.
  Proof.
    intros Hl. unfold ClientModel.sct_log_id. cbn [v_check_log_id patched].
    destruct id as [|b0 id']; [intros H; inversion H; reflexivity|].
    destruct (bytes_eqb (b0 :: id') (key_hash k)) eqn:E; [|discriminate].
    apply bytes_eqb_eq in E. intros H; inversion H. rewrite E. apply copy32_id. exact Hl.
  Qed.

  Lemma sct_of_response_ok v verifier chain et st b f s :
    sct_of_response v verifier chain et st b f = COk s ->
    exists ext logid, a_ext f = Some ext /\ sct_log_id v verifier (a_id f) = Some logid /\
      complete gen_DigitallySigned (a_sig f) = Ok (s_sig s) /\
      s = {| s_version := a_version f; s_logid := logid; s_ts := a_ts f; s_ext := ext; s_sig := s_sig s |} /\
      verify_sct v verifier chain et s = VOk.
  Proof.
    unfold ClientModel.sct_of_response.
    destruct (complete gen_DigitallySigned (a_sig f)) as [ds| | | |] eqn:Ec; try discriminate.
    destruct (a_ext f) as [ext|]; [|discriminate].
    destruct (sct_log_id v verifier (a_id f)) as [logid|]; [|discriminate].
    match goal with |- context [verify_sct v verifier chain et ?x] => set (s0 := x) end.
    destruct (verify_sct v verifier chain et s0) eqn:Ev; try discriminate.
    intros H; inversion H; subst. exists ext, logid. cbn. auto.
  Qed.

  Lemma sct_of_response_shape v verifier chain et st b f :
    v_guard_empty_chain v = true \/ chain <> [] ->
    match sct_of_response v verifier chain et st b f with
    | COk _ => True | CRspErr st' b' => st' = st /\ b' = b | _ => False
    end.
  Proof.
    intros Hg. unfold ClientModel.sct_of_response.
    destruct (complete_good gen_DigitallySigned (a_sig f)) as [G1 G2].
    destruct (complete gen_DigitallySigned (a_sig f)) as [ds| | | |]; try contradiction; auto.
    destruct (a_ext f) as [ext|]; auto.
    destruct (sct_log_id v verifier (a_id f)) as [logid|]; auto.
    match goal with |- context [verify_sct v verifier chain et ?x] => set (s0 := x) end.
    pose proof (verify_sct_no_panic v verifier chain et s0 Hg) as Hp.
    destruct (verify_sct v verifier chain et s0); auto.
  Qed.

  Lemma add_chain_ok v verifier chain et os s :
    add_chain v verifier chain et os = COk s ->
    exists o r st b f, In o os /\ good_response o f /\ received o st b /\ o = Resp r /\ r_post r = true /\
      sct_of_response v verifier chain et st b f = COk s.
  Proof.
    unfold ClientModel.add_chain.
    destruct (post_retry os) as [[[st b] f]|st b| | |] eqn:E; try discriminate.
    destruct (post_retry_ok _ _ _ _ E) as (o & r & Hin & Hg & Hr & Ho & Hp).
    intros H. exists o, r, st, b, f. repeat split; auto.
  Qed.

  Lemma add_chain_verified_l k chain et os s :
    length (key_hash k) = 32%nat ->
    add_chain patched (Some k) chain et os = COk s -> ts_ok (s_ts s) ->
    exists e, submitted_entry x509_of precert_of chain et e /\ entry_type e = et /\ entry_ok e /\ ext_ok (s_ext s) /\
      s_version s = 0%N /\
      sig_ok k (enc_sct_siginput (s_ts s) e (s_ext s)) (s_sig s) = true /\
      s_logid s = key_hash k.
  Proof.
    intros Hl H Hts. destruct (add_chain_ok _ _ _ _ _ _ H) as (o & r & st & b & f & _ & _ & _ & _ & _ & Hs).
    destruct (sct_of_response_ok _ _ _ _ _ _ _ _ Hs) as (ext & logid & He & Hid & _ & Es & Hv).
    destruct (verify_sct_ok _ _ _ _ _ Hv) as (e & msg & Hd & Hm & Hsig).
    destruct (derive_entry_spec _ _ _ _ Hd) as [Hsub Het].
    rewrite <- Het in Hm. destruct (sct_siginput_rfc _ _ _ _ _ Hts Hm) as (Hv0 & Heo & Hxo & ->).
    exists e. split; [exact Hsub|]. repeat split; auto.
    rewrite Es. cbn. apply (sct_log_id_checked k (a_id f)); auto.
  Qed.

  (* the returned SCT's fields are the response's *)
  Lemma add_chain_fields v verifier chain et os s :
    add_chain v verifier chain et os = COk s ->
    exists o f, In o os /\ good_response o f /\ s_version s = a_version f /\ s_ts s = a_ts f /\ a_ext f = Some (s_ext s) /\
      parse gen_DigitallySigned None (a_sig f) = Ok (s_sig s, []) /\ sct_log_id v verifier (a_id f) = Some (s_logid s).
  Proof.
    intros H. destruct (add_chain_ok _ _ _ _ _ _ H) as (o & r & st & b & f & Hin & Hg & _ & _ & _ & Hs).
    destruct (sct_of_response_ok _ _ _ _ _ _ _ _ Hs) as (ext & logid & He & Hid & Hc & Es & _).
    exists o, f. split; [exact Hin|]. split; [exact Hg|].
    apply complete_no_trailing in Hc. rewrite Es. cbn [s_version s_ts s_ext s_sig s_logid]. repeat split; auto.
  Qed.

  Lemma add_chain_reported v verifier chain et os :
    v_guard_empty_chain v = true \/ chain <> [] ->
    reported_seq os (add_chain v verifier chain et os).
  Proof.
    intros Hg. unfold ClientModel.add_chain. pose proof (post_retry_reported os) as R.
    destruct (post_retry os) as [[[st b] f]|st b| | |] eqn:E; try exact R.
    destruct (post_retry_ok _ _ _ _ E) as (o & r & Hin & Hgd & Hr & Ho & Hp).
    pose proof (sct_of_response_shape v verifier chain et st b f Hg) as S.
    destruct (sct_of_response v verifier chain et st b f) as [s|st' b'| | |]; cbn; try contradiction.
    - exists o, f, r. auto.
    - destruct S as [-> ->]. exists o. auto.
  Qed.

  Lemma add_chain_definitive v verifier chain et pre o rest :
    Forall retryable pre -> ~ retryable o ->
    add_chain v verifier chain et (pre ++ o :: rest) =
      match post_and_parse o with
      | COk (st, b, Some f) => sct_of_response v verifier chain et st b f
      | COk (st, b, None) => CRspErr st b
      | _ => CCtxErr
      end.
  Proof.
    intros Hpre Ho. unfold ClientModel.add_chain. rewrite (post_retry_skip pre (o :: rest) Hpre).
    rewrite (post_retry_definitive o rest Ho).
    destruct (post_and_parse o) as [[[st b] [f|]]|st b| | |]; reflexivity.
  Qed.

  Lemma add_chain_only_retryable v verifier chain et os :
    Forall retryable os -> add_chain v verifier chain et os = CCtxErr.
  Proof. intros H. unfold ClientModel.add_chain. rewrite (post_retry_all_retryable os H). reflexivity. Qed.

  (* the temporal client checks the chain head BEFORE any request, then is add_chain *)
  Lemma temporal_add_chain_spec v verifier chain et os :
    (forall c rest, chain = c :: rest -> parse_cert c = POk ->
       temporal_add_chain v verifier chain et os = add_chain v verifier chain et os) /\
    ((chain = [] \/ exists c rest, chain = c :: rest /\ parse_cert c <> POk) ->
       temporal_add_chain v verifier chain et os = CPlainErr).
  Proof.
    unfold ClientModel.temporal_add_chain. split.
    - intros c rest -> Hp. rewrite Hp. reflexivity.
    - intros [->|(c & rest & -> & Hp)]; [reflexivity|]. destruct (parse_cert c); try reflexivity. contradiction.
  Qed.

  (* ---------------- without a key ---------------- *)

  Lemma verify_sct_none v chain et s : verify_sct v None chain et s = VOk.
  Proof. reflexivity. Qed.

  Lemma sct_of_response_none v chain et st b f :
    sct_of_response v None chain et st b f =
      match complete gen_DigitallySigned (a_sig f) with
      | Ok ds => match a_ext f with
                 | None => CRspErr st b
                 | Some ext => COk {| s_version := a_version f; s_logid := copy32 (a_id f); s_ts := a_ts f; s_ext := ext; s_sig := ds |}
                 end
      | TlsModel.Panic | Hang => CPanic
      | _ => CRspErr st b
      end.
  Proof.
    unfold ClientModel.sct_of_response, ClientModel.sct_log_id.
    destruct (complete gen_DigitallySigned (a_sig f)); try reflexivity; destruct (a_ext f); reflexivity.
  Qed.

  Lemma get_sth_none o :
    get_sth None o =
      match get_and_parse o with
      | COk (st, b, f) =>
          match to_sth (h_size f) (h_ts f) (h_root f) (h_sig f) with
          | Ok (size, ts, root, ds) => COk {| t_size := size; t_ts := ts; t_root := root; t_sig := ds |}
          | TlsModel.Panic | Hang => CPanic
          | _ => CRspErr st b
          end
      | CRspErr st b => CRspErr st b
      | CPlainErr => CPlainErr | CCtxErr => CCtxErr | CPanic => CPanic
      end.
  Proof.
    unfold ClientModel.get_sth. destruct (get_and_parse o) as [[[st b] f]|st b| | |]; try reflexivity;
    destruct (to_sth _ _ _ _) as [[[[size ts] root] ds]| | | |]; reflexivity.
  Qed.

  (* ---------------- get-entries ---------------- *)

  Lemma log_entry_from_leaf_good index li x :
    log_entry_from_leaf index li x <> TlsModel.Panic /\ log_entry_from_leaf index li x <> Hang.
  Proof.
    unfold ClientModel.log_entry_from_leaf. destruct (raw_entry_good li x) as [G1 G2].
    destruct (raw_log_entry_from_leaf li x) as [r| | | |] eqn:E; try (split; discriminate); try contradiction.
    destruct r as [[leaf cert] chain]. pose proof (raw_entry_consistent _ _ _ _ _ E) as Hc.
    destruct Hc as (Hm & ver & lt & ts & et & ox & op & oj & ext & -> & Hc).
    destruct Hc as [(-> & -> & _)|(-> & (h & t & ->) & _)].
    - (* the X.509 variant is a marshalled ASN1Cert: one byte string *)
      change gen_MerkleTreeLeaf with rfc_MerkleTreeLeaf in Hm. minv Hm; try lia.
      cbn. destruct (is_fatal (parse_cert b)); split; discriminate.
    - cbn. destruct (is_fatal (parse_tbs t)); split; discriminate.
  Qed.

  Lemma decode_entries_good start es : forall i,
    decode_entries start i es <> TlsModel.Panic /\ decode_entries start i es <> Hang.
  Proof.
    induction es as [|[li x] rest IH]; intros i; cbn [ClientModel.decode_entries]; [split; discriminate|].
    destruct (log_entry_from_leaf_good (add64 start i) li x) as [G1 G2].
    destruct (log_entry_from_leaf (add64 start i) li x) as [le| | | |]; try (split; discriminate); try contradiction.
    destruct (IH (i + 1)%Z) as [I1 I2].
    destruct (decode_entries start (i + 1) rest); try (split; discriminate); contradiction.
  Qed.

  (* an Ok result has one entry per entry of the response, in order, each decoded from its own
     (leaf_input, extra_data) and numbered start + position (int64 arithmetic) *)
  Definition entry_from (start : Z) (i : Z) (lx : bytes * bytes) (le : log_entry) : Prop :=
    e_index le = add64 start i /\
    exists cert, raw_log_entry_from_leaf (fst lx) (snd lx) = Ok (e_leaf le, cert, e_chain le) /\
      entry_consistent (fst lx) (snd lx) (e_leaf le) cert (e_chain le) /\
      (e_submitted le = None \/ e_submitted le = Some cert).

  Lemma to_log_entry_ok index leaf cert chain le :
    to_log_entry index (leaf, cert, chain) = Ok le ->
    e_index le = index /\ e_leaf le = leaf /\ e_chain le = chain /\ (e_submitted le = None \/ e_submitted le = Some cert).
  Proof.
    unfold ClientModel.to_log_entry.
    destruct (field 2 leaf) as [te|]; [|discriminate].
    destruct (field 1 te) as [[et| | |]|]; try discriminate.
    destruct (et =? gen_X509LogEntryType)%N.
    - destruct (field 2 te) as [x|]; [|discriminate]. destruct (field 0 x) as [[|c| |]|]; try discriminate.
      destruct (is_fatal (parse_cert c)); [discriminate|]. intros H; inversion H; cbn. auto.
    - destruct (et =? gen_PrecertLogEntryType)%N; [|discriminate].
      destruct (field 3 te) as [p|]; [|discriminate]. destruct (field 1 p) as [[|t| |]|]; try discriminate.
      destruct (is_fatal (parse_tbs t)); [discriminate|]. intros H; inversion H; cbn. auto.
  Qed.

  Lemma decode_entries_ok start es : forall i l,
    decode_entries start i es = Ok l ->
    length l = length es /\
    forall n lx, nth_error es n = Some lx -> exists le, nth_error l n = Some le /\ entry_from start (i + Z.of_nat n) lx le.
  Proof.
    induction es as [|[li x] rest IH]; intros i l; cbn [ClientModel.decode_entries].
    - intros H; inversion H. split; [reflexivity|]. intros [|n] lx; discriminate.
    - unfold ClientModel.log_entry_from_leaf.
      destruct (raw_log_entry_from_leaf li x) as [[[leaf cert] chain]| | | |] eqn:Er; try discriminate.
      destruct (to_log_entry (add64 start i) (leaf, cert, chain)) as [le| | | |] eqn:Et; try discriminate.
      destruct (decode_entries start (i + 1) rest) as [l'| | | |] eqn:Ed; try discriminate.
      intros H; inversion H; subst. destruct (IH _ _ Ed) as [Hlen Hn].
      split; [cbn; congruence|]. intros [|n] lx Hx; cbn in Hx.
      + inversion Hx; subst. exists le. split; [reflexivity|].
        destruct (to_log_entry_ok _ _ _ _ _ Et) as (Hi & Hl & Hc & Hs).
        unfold entry_from. rewrite Z.add_0_r. split; [exact Hi|]. exists cert. cbn [fst snd]. rewrite Hl, Hc.
        split; [exact Er|]. split; [apply raw_entry_consistent; exact Er|exact Hs].
      + destruct (Hn n lx Hx) as (le' & Hle & He). exists le'. split; [exact Hle|].
        replace (i + Z.of_nat (S n))%Z with (i + 1 + Z.of_nat n)%Z by lia. exact He.
  Qed.

  Lemma get_entries_ok v start end_ o l :
    get_entries v start end_ o = COk l ->
    (0 <= end_)%Z /\ (start <= end_)%Z /\
    exists es, good_response o es /\ length l = length es /\
      forall n lx, nth_error es n = Some lx -> exists le, nth_error l n = Some le /\ entry_from start (Z.of_nat n) lx le.
  Proof.
    unfold ClientModel.get_entries, get_raw_entries_full.
    destruct (Z.ltb_spec end_ 0) as [?|H0]; [discriminate|]. destruct (Z.ltb_spec end_ start) as [?|H1]; [discriminate|].
    destruct (get_and_parse o) as [[[st b] es]|st b| | |] eqn:E; try discriminate.
    destruct (get_and_parse_ok _ _ _ _ E) as [G _].
    destruct (decode_entries start 0 es) as [l'| | | |] eqn:Ed; try discriminate; try (destruct (v_entries_rsp_error v); discriminate).
    intros Hq; inversion Hq; subst. destruct (decode_entries_ok _ _ _ _ Ed) as [Hl Hn].
    split; [lia|]. split; [lia|]. exists es. split; [exact G|]. split; [exact Hl|]. exact Hn.
  Qed.

  Lemma get_entries_reported start end_ o :
    (0 <= end_)%Z -> (start <= end_)%Z -> reported o (get_entries patched start end_ o).
  Proof.
    intros H0 H1. unfold ClientModel.get_entries, get_raw_entries_full.
    destruct (Z.ltb_spec end_ 0); [lia|]. destruct (Z.ltb_spec end_ start); [lia|].
    apply reported_refine. intros st b es.
    destruct (decode_entries_good start es 0) as [G1 G2].
    destruct (decode_entries start 0 es); try contradiction; cbn; auto.
  Qed.

  Lemma get_raw_entries_reported start end_ o :
    (0 <= end_)%Z -> (start <= end_)%Z -> reported o (get_raw_entries start end_ o).
  Proof.
    intros H0 H1. unfold get_raw_entries, get_raw_entries_full.
    destruct (Z.ltb_spec end_ 0); [lia|]. destruct (Z.ltb_spec end_ start); [lia|].
    pose proof (get_and_parse_reported o) as R.
    destruct (get_and_parse o) as [[[st b] es]|st b| | |] eqn:E; try exact R.
  Qed.

  Lemma get_raw_entries_ok start end_ o es : get_raw_entries start end_ o = COk es -> good_response o es.
  Proof.
    unfold get_raw_entries, get_raw_entries_full.
    destruct (end_ <? 0)%Z; [discriminate|]. destruct (end_ <? start)%Z; [discriminate|].
    destruct (get_and_parse o) as [[[st b] es']|st b| | |] eqn:E; try discriminate.
    intros H; inversion H; subst. apply (get_and_parse_ok _ _ _ _ E).
  Qed.

  (* ---------------- histories ---------------- *)

  Lemma get_sth_history_verified_l k os s :
    In (COk s) (get_sth_history key sig_ok (Some k) os) -> ts_ok (t_ts s) -> ts_ok (t_size s) ->
    sig_ok k (enc_sth_siginput (t_ts s) (t_size s) (t_root s)) (t_sig s) = true /\ length (t_root s) = 32%nat.
  Proof.
    unfold get_sth_history. intros H. apply in_map_iff in H. destruct H as (o & H & _).
    exact (get_sth_verified_l k o s H).
  Qed.

  Lemma add_chain_history_verified_l k calls s :
    length (key_hash k) = 32%nat ->
    In (COk s) (add_chain_history key sig_ok key_hash x509_of precert_of patched (Some k) calls) -> ts_ok (s_ts s) ->
    exists chain et os e, In (chain, et, os) calls /\
      submitted_entry x509_of precert_of chain et e /\ entry_type e = et /\ entry_ok e /\ ext_ok (s_ext s) /\
      s_version s = 0%N /\
      sig_ok k (enc_sct_siginput (s_ts s) e (s_ext s)) (s_sig s) = true /\
      s_logid s = key_hash k.
  Proof.
    intros Hl H Hts. unfold add_chain_history in H. apply in_map_iff in H. destruct H as ([[chain et] os] & H & Hin).
    cbn [fst snd] in H.
    destruct (add_chain_verified_l k chain et os s Hl H Hts) as (e & He).
    exists chain, et, os, e. split; [exact Hin|exact He].
  Qed.

  Lemma entries_bad_range v start end_ o :
    (end_ < 0 \/ end_ < start)%Z -> get_entries v start end_ o = CPlainErr /\ get_raw_entries start end_ o = CPlainErr.
  Proof.
    intros H. unfold ClientModel.get_entries, get_raw_entries, get_raw_entries_full.
    destruct (Z.ltb_spec end_ 0); [split; reflexivity|]. destruct (Z.ltb_spec end_ start); [split; reflexivity|]. lia.
  Qed.
End Proofs.

(* ------------------------------------------------------------------ roots, proofs *)

Lemma all_some_spec {A} (l : list (option A)) l' : all_some l = Some l' <-> l = map Some l'.
Proof.
  revert l'; induction l as [|[a|] r IH]; intros l'; cbn.
  - split; [intros H; inversion H; reflexivity|destruct l'; [reflexivity|discriminate]].
  - destruct (all_some r) as [r'|] eqn:E.
    + split; [intros H; inversion H; subst; cbn; f_equal; apply IH; reflexivity|].
      destruct l' as [|a' l'']; [discriminate|]. cbn. intros H; inversion H; subst.
      f_equal. f_equal. assert (Some r' = Some l'') by (apply IH; reflexivity). congruence.
    + split; [discriminate|]. destruct l' as [|a' l'']; [discriminate|]. cbn. intros H; inversion H; subst.
      assert (None = Some l'') by (apply IH; reflexivity). discriminate.
  - split; [discriminate|]. destruct l'; discriminate.
Qed.

Lemma get_roots_reported o : reported o (get_roots o).
Proof.
  unfold get_roots. apply reported_refine. intros st b cs. destruct (all_some cs); cbn; auto.
Qed.

Lemma get_roots_ok o l : get_roots o = COk l -> good_response o (map Some l).
Proof.
  unfold get_roots. destruct (get_and_parse o) as [[[st b] cs]|st b| | |] eqn:E; try discriminate.
  destruct (all_some cs) as [l'|] eqn:Ea; [|discriminate]. intros H; inversion H; subst.
  apply all_some_spec in Ea. subst. apply (get_and_parse_ok _ _ _ _ E).
Qed.

Lemma pass_through_reported {F} (o : outcome F) : reported o (pass_through o).
Proof.
  unfold pass_through. pose proof (get_and_parse_reported o) as R.
  destruct (get_and_parse o) as [[[st b] f]|st b| | |]; exact R.
Qed.

Lemma pass_through_ok {F} (o : outcome F) f : pass_through o = COk f -> good_response o f.
Proof.
  unfold pass_through. destruct (get_and_parse o) as [[[st b] f']|st b| | |] eqn:E; try discriminate.
  intros H; inversion H; subst. apply (get_and_parse_ok _ _ _ _ E).
Qed.

(* a received response never ends in a plain or context error, and a non-good one never in a result *)
Lemma reported_received {F A} (o : outcome F) (res : result A) r :
  reported o res -> o = Resp r -> r_close_ok r = true ->
  (exists a, res = COk a) \/ res = CRspErr (r_status r) (r_body r).
Proof.
  intros R -> Hc. destruct res as [a|st b| | |]; cbn in R.
  - left. eauto.
  - destruct R as (r' & E & _ & <- & <-). inversion E. right. reflexivity.
  - destruct R as [E|(r' & E & Hc')]; [discriminate|]. inversion E; subst. congruence.
  - discriminate.
  - contradiction.
Qed.

Lemma reported_bad {F A} (o : outcome F) (res : result A) r :
  reported o res -> o = Resp r -> r_close_ok r = true ->
  (r_status r <> 200%Z \/ r_read_ok r = false \/ r_json r = None) ->
  res = CRspErr (r_status r) (r_body r).
Proof.
  intros R E Hc Hb. destruct (reported_received o res r R E Hc) as [[a ->]|H]; [|exact H].
  cbn in R. destruct R as (f & r' & E' & _ & Hr & Hs & Hj). rewrite E in E'. inversion E'; subst r'.
  destruct Hb as [Hb|[Hb|Hb]]; congruence.
Qed.
