(* C18 - every component draws temporal shard boundaries at the same instants.
   Property theorems only; each is closed by [exact] of a lemma proved elsewhere.
   The membership conditions are the GENERATED gen/Windows.v (regenerated from the Go
   source on every run), so these theorems are re-checked against what the code says now. *)
From Coq Require Import ZArith List.
From V Require Import Base.GoInt gen.Windows Temporal.WindowModel Temporal.WindowProofs.
Import ListNotations.
Open Scope Z_scope.

(* the log server's NotAfter window admits t  <->  start <= t < limit *)
Theorem ctfe_inside_iff : forall t iv, ctfe_admits t iv = true <-> inside t iv.
Proof. exact WindowProofs.ctfe_inside_iff. Qed.
Print Assumptions ctfe_inside_iff.

(* the temporal-shard client selects a shard for t  <->  start <= t < limit *)
Theorem client_inside_iff : forall t iv, client_selects t iv = true <-> inside t iv.
Proof. exact WindowProofs.client_inside_iff. Qed.
Print Assumptions client_inside_iff.

(* the log-list filter keeps a log for t  <->  start <= t < limit (no interval: always) *)
Theorem loglist_inside_iff : forall t s e, loglist_keep t s e = true <-> inside t (Some s, Some e).
Proof. exact WindowProofs.loglist_inside_iff. Qed.
Print Assumptions loglist_inside_iff.

(* a certificate is routed to shard i exactly when a server with shard i's window admits it *)
Theorem route_iff_admit : forall shards ivs t i,
  new_temporal shards = Some ivs ->
  (index_by_date t ivs = Some i <-> exists iv, nth_error ivs i = Some iv /\ ctfe_admits t iv = true).
Proof. exact WindowProofs.route_iff_admit_lemma. Qed.
Print Assumptions route_iff_admit.

(* every instant of the overall span is routed, instants outside it are routed nowhere *)
Theorem span_routed_outside_not : forall shards ivs t,
  new_temporal shards = Some ivs ->
  (inside t (span ivs) <-> exists i, index_by_date t ivs = Some i).
Proof. exact WindowProofs.span_routes. Qed.
Print Assumptions span_routed_outside_not.

(* ... to exactly one shard *)
Theorem contiguous_list_routes_uniquely : forall shards ivs t i j iv iv',
  new_temporal shards = Some ivs ->
  nth_error ivs i = Some iv -> nth_error ivs j = Some iv' -> inside t iv -> inside t iv' -> i = j.
Proof. exact WindowProofs.routes_uniquely. Qed.
Print Assumptions contiguous_list_routes_uniquely.

(* construction accepts exactly the non-empty, non-inverted, contiguous lists in which only
   the first shard may lack a lower bound and only the last an upper bound *)
Theorem bad_shard_lists_refused : forall shards ivs,
  new_temporal shards = Some ivs -> ivs = shards /\ well_formed shards.
Proof. exact WindowProofs.new_temporal_spec. Qed.
Print Assumptions bad_shard_lists_refused.

Theorem good_shard_lists_accepted : forall shards, well_formed shards -> new_temporal shards = Some shards.
Proof. exact WindowProofs.new_temporal_complete. Qed.
Print Assumptions good_shard_lists_accepted.

(* the NotAfter that the integration helper NotAfterForLog picks for a log with a non-empty window
   lies inside the window, so the log's server admits it and a client of that one shard routes it there *)
Theorem not_after_for_log_admitted_and_routed : forall now iv,
  nonempty iv ->
  let t := not_after_for_log now iv in
  inside t iv /\ ctfe_admits t iv = true /\ client_selects t iv = true.
Proof. exact WindowProofs.not_after_for_log_admitted_routed. Qed.
Print Assumptions not_after_for_log_admitted_and_routed.

(* non-vacuity: a three-shard list with open ends is accepted and routes boundary instants *)
Example shards_ok :
  let sh := [(None, Some 100); (Some 100, Some 200); (Some 200, None)] in
  new_temporal sh = Some sh /\ index_by_date 99 sh = Some 0%nat /\ index_by_date 100 sh = Some 1%nat
  /\ index_by_date 200 sh = Some 2%nat.
Proof. vm_compute. repeat split. Qed.
Example boundary_instants :
  ctfe_admits 100 (Some 100, Some 200) = true /\ ctfe_admits 200 (Some 100, Some 200) = false
  /\ ctfe_admits 99 (Some 100, Some 200) = false /\ ctfe_admits 199 (Some 100, Some 200) = true.
Proof. vm_compute. repeat split. Qed.
Example narrow_windows :
  not_after_for_log 0 (Some 5000000000, Some 6000000000) = 5500000000
  /\ not_after_for_log 0 (Some 7, Some 8) = 7 /\ not_after_for_log 0 (None, Some 3600000000001) = 1
  /\ nonempty (Some 7, Some 8).
Proof. vm_compute. repeat split. intros s l E1 E2; inversion E1; inversion E2; subst; reflexivity. Qed.
