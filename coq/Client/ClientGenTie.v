(* T1 tie for C12: the status tests of jsonclient/client.go GetAndParse (`StatusCode != http.StatusOK`: an RspError)
   and PostAndParse (`StatusCode == http.StatusOK`: only then is the body parsed), translated by gofrag on every run
   (coq/gen/Client.v), are the tests the model's get_and_parse / post_and_parse make (Client/ClientModel.v). *)
From Coq Require Import ZArith NArith Bool.
From V Require Import Base.GoInt gen.Client Client.ClientModel.

Lemma get_and_parse_status_gen {F} (r : response F) :
  r_close_ok r = true -> r_read_ok r = true ->
  get_and_parse (Resp r) =
  if get_status_error_gen (r_status r) then CRspErr (r_status r) (r_body r)
  else match r_json r with
       | None => CRspErr (r_status r) (r_body r)
       | Some f => COk (r_status r, r_body r, f)
       end.
Proof. intros Hc Hr. unfold get_and_parse, get_status_error_gen. rewrite Hc, Hr. reflexivity. Qed.

Lemma post_and_parse_status_gen {F} (r : response F) :
  r_close_ok r = true -> r_read_ok r = true -> r_post r = true ->
  post_and_parse (Resp r) =
  if post_parses_gen (r_status r) then
    match r_json r with
    | None => CRspErr (r_status r) (r_body r)
    | Some f => COk (r_status r, r_body r, Some f)
    end
  else COk (r_status r, r_body r, None).
Proof. intros Hc Hr Hp. unfold post_and_parse, post_parses_gen. rewrite Hc, Hr, Hp. reflexivity. Qed.
