(* C01: the statements of Props/C01.v in their final form (the model of the CURRENT tree:
   current_guard), assembled from AddChainHistory / AddChainFinding. *)
From Coq Require Import String NArith ZArith List Bool Lia PeanoNat.
From V Require Import Base.Bytes TLS.TlsModel gen.CtTypes
  CT.Rfc6962Spec CT.Rfc6962Proofs CT.CtFuncs X509.Der X509.PrecertModel X509.PrecertProofs
  CTFE.AddChainModel CTFE.AddChainSpec CTFE.AddChainCodec CTFE.AddChainStep CTFE.AddChainHistory CTFE.AddChainFinding CTFE.AddChainDecode.
Import ListNotations.
Local Open Scope N_scope.

Section Current.
Variable H : bytes -> bytes.
Variable sign : N -> bytes -> option bytes.
Variable verify : bytes -> bytes -> bytes -> bool.    (* verify spki message signature *)
Variable cfg : config.
Hypothesis sign_then_verify : forall n d sg, sign n d = Some sg -> verify (k_spki cfg) d sg = true.

Notation issued_at_pos := (at_pos H sign current_guard cfg).

Lemma T_id before s after r : issued_at_pos before s after (Issued r) -> i_id r = H (k_spki cfg).
Proof. exact (id_at H sign current_guard cfg before s after r). Qed.

Lemma T_signed before s after r e :
  issuance_consistent H (before ++ [s]) -> issued_at_pos before s after (Issued r) -> client_entry H s e ->
  entry_ok e /\ i_ext r = [] /\ i_signed r = enc_sct_siginput (i_ts r) e (i_ext r) /\
  verify (k_spki cfg) (enc_sct_siginput (i_ts r) e (i_ext r)) (i_sig r) = true.
Proof.
  intros Hc Hn Hce. destruct (signed_at H sign current_guard cfg before s after r e Hc Hn Hce) as (A & B & C & [n D]).
  repeat split; auto. exact (sign_then_verify n _ _ D).
Qed.

Lemma T_queued before s after r e :
  issued_at_pos before s after (Issued r) -> client_entry H s e ->
  entry_ok e /\ l_value (i_queued r) = enc_leaf (time_millis (s_now s)) e [] /\
  Byte.x00 :: l_value (i_queued r) = leaf_hash_preimage (time_millis (s_now s)) e [].
Proof.
  intros Hn Hce. destruct (queued_client_at H sign current_guard cfg before s after r e Hn Hce) as [He Hq].
  rewrite Hq. repeat split; auto.
Qed.

Lemma T_identity before s after r :
  issued_at_pos before s after (Issued r) -> l_id (i_queued r) = H (s_leaf s).
Proof.
  intros Hn. destruct (queued_at H sign current_guard cfg before s after r Hn) as (e & _ & _ & _ & Hq). rewrite Hq. reflexivity.
Qed.

Lemma T_extra before s after r :
  issued_at_pos before s after (Issued r) ->
  l_extra (i_queued r) = enc_extra_data (s_pre s) (s_leaf s) (map c_der (s_rest s)) /\
  chain_in_range (map c_der (s_rest s)).
Proof.
  intros Hn. destruct (queued_at H sign current_guard cfg before s after r Hn) as (e & _ & _ & Hc & Hq). rewrite Hq. auto.
Qed.

Lemma T_duplicate before s1 mid s2 after r1 r2 :
  let subs := before ++ s1 :: mid ++ s2 :: after in
  nth_error (snd (run H sign current_guard cfg subs)) (length before) = Some (s1, Issued r1) ->
  nth_error (snd (run H sign current_guard cfg subs)) (length before + 1 + length mid) = Some (s2, Issued r2) ->
  H (s_leaf s1) = H (s_leaf s2) ->
  i_dup r2 = true /\ i_returned r2 = i_returned r1 /\ i_ts r2 = i_ts r1 /\ i_ext r2 = i_ext r1 /\ i_signed r2 = i_signed r1 /\
  (i_dup r1 = false -> i_ts r2 = time_millis (s_now s1)).
Proof. exact (duplicate_at H sign current_guard cfg before s1 mid s2 after r1 r2). Qed.

Lemma T_fresh before s after r :
  issued_at_pos before s after (Issued r) ->
  (forall s', In s' before -> H (s_leaf s') <> H (s_leaf s)) ->
  i_dup r = false /\ i_returned r = i_queued r /\ i_ts r = time_millis (s_now s) /\
  ((0 <= s_now s < 9223372036854775808)%Z -> Z.of_N (i_ts r) = clock_ms (s_now s)).
Proof.
  intros Hn Hf. destruct (fresh_at H sign current_guard cfg before s after r Hn Hf) as (A & B & C).
  repeat split; auto. intros Hr. rewrite C. apply time_millis_clock. exact Hr.
Qed.

Lemma T_sct_bytes before s after r :
  issued_at_pos before s after (Issued r) ->
  i_sct_bytes r = enc_sct (H (k_spki cfg)) (i_ts r) (i_ext r) hash_alg_sha256 (sig_alg_of (k_kind cfg)) (i_sig r) /\
  len (i_sig r) <= 65535.
Proof.
  intros Hn. destruct (sct_at H sign current_guard cfg before s after r Hn) as (_ & _ & _ & Hb & Hl).
  rewrite <- (T_id before s after r Hn). auto.
Qed.

Lemma T_decode before s after r :
  issued_at_pos before s after (Issued r) ->
  exists leaf_value,
    raw_log_entry_from_leaf (l_value (i_queued r)) (l_extra (i_queued r)) =
      Ok (leaf_value, asn1cert (s_leaf s), VList (map asn1cert (map c_der (s_rest s)))).
Proof.
  intros Hn. destruct (decode_at H sign current_guard cfg before s after r Hn) as (e & _ & Hd).
  eexists. exact Hd.
Qed.

Lemma T_no_panic subs s o : In (s, o) (snd (run H sign current_guard cfg subs)) -> o <> OPanic.
Proof. exact (history_no_panic H sign current_guard cfg subs s o). Qed.

End Current.

Lemma T_patched H sign (verify : bytes -> bytes -> bytes -> bool) cfg :
  (forall n d sg, sign n d = Some sg -> verify (k_spki cfg) d sg = true) ->
  forall before s after r e,
  at_pos H sign guard_same_entry cfg before s after (Issued r) -> client_entry H s e ->
  entry_ok e /\ i_ext r = [] /\ i_signed r = enc_sct_siginput (i_ts r) e (i_ext r) /\
  verify (k_spki cfg) (enc_sct_siginput (i_ts r) e (i_ext r)) (i_sig r) = true.
Proof.
  intros Hsv before s after r e Hn Hce.
  destruct (signed_at_patched H sign cfg before s after r e Hn Hce) as (A & B & C & [n D]).
  repeat split; auto. exact (Hsv n _ _ D).
Qed.

Lemma T_refuted :
  exists (H : bytes -> bytes) sign cfg before s after r e,
    (forall b, length (H b) = 32%nat) /\
    at_pos H sign guard_none cfg before s after (Issued r) /\
    client_entry H s e /\ i_dup r = true /\
    i_signed r <> enc_sct_siginput (i_ts r) e (i_ext r).
Proof.
  exists toyH, w_sign, w_cfg, [sub_a], sub_b, [], w_r, w_entry_b.
  destruct refuted as (A & B & _ & D).
  split; [exact toyH_len|]. split; [exact A|]. split; [exact w_client_b|]. split; [exact B|exact D].
Qed.

(* the precertificate entry is the FINAL certificate's TBSCertificate without its SCT list
   (what MerkleTreeLeafForEmbeddedSCT / a browser computes from the certificate it is shown) *)
Lemma T_final H s e : client_entry H s e ->
  match e with
  | X509E c => c = s_leaf s
  | PrecertE _ t => exists final, remove_sct_list (enc_tbs final) = Ok t
  end.
Proof. exact (client_entry_is_final_without_scts H s e). Qed.

(* ---------------- non-vacuity ---------------- *)
Definition sub_a_again : submission :=
  {| s_pre := true; s_leaf := w_leaf; s_tbs := enc_tbs (precert_tbs wtwin); s_rest := [pre_a; ca1]; s_now := 7999999999 |}.
Definition w_entry_a : entry := PrecertE (toyH (hex "01")) (enc_tbs (entry_tbs_pre (c_pi pre_a) wtwin)).

Lemma w_client_a : client_entry toyH sub_a w_entry_a /\ client_entry toyH sub_a_again w_entry_a.
Proof.
  split.
  - unfold w_entry_a. apply (CE_preissuer toyH sub_a pre_a ca1 [] wtwin); try reflexivity; ok_small.
  - unfold w_entry_a. apply (CE_preissuer toyH sub_a_again pre_a ca1 [] wtwin); try reflexivity; ok_small.
Qed.

Lemma w_consistent : issuance_consistent toyH ([sub_a] ++ [sub_a_again]).
Proof.
  intros s1 s2 H1 H2 _. cbn in H1, H2.
  destruct H1 as [<-|[<-|[]]], H2 as [<-|[<-|[]]]; split; reflexivity.
Qed.

Lemma w_history :
  exists r1 r2,
    snd (run toyH w_sign current_guard w_cfg [sub_a; sub_a_again]) = [(sub_a, Issued r1); (sub_a_again, Issued r2)] /\
    i_dup r1 = false /\ i_ts r1 = 1 /\ i_dup r2 = true /\ i_ts r2 = 1 /\
    i_signed r2 = enc_sct_siginput 1 w_entry_a [].
Proof.
  pose (l := snd (run toyH w_sign current_guard w_cfg [sub_a; sub_a_again])).
  pose (r1 := match nth_error l 0 with Some (_, Issued r) => r | _ => dummy_issued end).
  pose (r2 := match nth_error l 1 with Some (_, Issued r) => r | _ => dummy_issued end).
  exists r1, r2. vm_compute. repeat split.
Qed.
