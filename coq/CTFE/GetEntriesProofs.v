From Coq Require Import ZArith Bool List Lia.
From V Require Import Base.GoInt Base.Bytes gen.GetEntries CTFE.RangeProofs CTFE.GetEntriesModel.
Import ListNotations.
Open Scope Z_scope.

(* every request with a bad parameter combination is answered 400 without a backend call *)
Lemma bad_params_no_backend_call maxr align ps pe backend :
  (ps = PBad \/ pe = PBad \/ exists s e, ps = PInt s /\ pe = PInt e /\ (s < 0 \/ e < 0 \/ s > e)) ->
  let o := get_entries maxr align ps pe backend in o_status o = 400 /\ o_request o = None /\ o_served o = [].
Proof.
  intros [->|[->|(s & e & -> & -> & H)]]; cbn.
  - auto.
  - destruct ps; auto.
  - rewrite (bad_range_rejected s e maxr align H). auto.
Qed.

(* for 0 <= start <= end the backend is asked for a non-empty range beginning at start, ending
   no later than end, of at most maxr entries; alignment only shortens *)
Lemma good_params_request maxr align s e backend :
  0 <= s <= e -> e <= max_i64 -> 1 <= maxr <= max_i64 ->
  exists count, o_request (get_entries maxr align (PInt s) (PInt e) backend) = Some (s, count)
    /\ 1 <= count <= maxr /\ s + count - 1 <= e
    /\ s + count - 1 <= Z.min e (s + maxr - 1)
    /\ (align = false -> s + count - 1 = Z.min e (s + maxr - 1)).
Proof.
  intros Hs He Hm.
  destruct (range_contract_lemma s e maxr align Hs He Hm) as (e' & Hp & Hr & Hc & Hn & Hle & Hal & _).
  exists (e' - s + 1). cbn. rewrite Hp. rewrite Hc.
  split.
  - destruct (backend s (e' - s + 1)) as [h|[n|] ls]; cbn; try reflexivity.
    destruct (n <=? s); [reflexivity|]. destruct (_ >? _); [reflexivity|]. destruct (negb _); reflexivity.
  - repeat split; try lia. intros Ha. specialize (Hal Ha). lia.
Qed.

Lemma indices_from_spec s ls : indices_from s ls = true ->
  forall i l, nth_error ls i = Some l -> l_index l = s + Z.of_nat i.
Proof.
  revert s; induction ls as [|x r IH]; intros s H i l Hn; [destruct i; discriminate|].
  cbn in H. apply andb_true_iff in H. destruct H as [H1 H2]. apply Z.eqb_eq in H1.
  destruct i as [|i]; cbn in Hn.
  - inversion Hn; subst. lia.
  - rewrite (IH _ H2 i l Hn). lia.
Qed.

(* a 200 answer carries exactly the backend's leaf bytes, in order, for consecutive indices
   beginning at start, and never more than were asked for.  (That an RPC *error* is never
   mapped to 200 is C08's status_reflects_cause; here it is a hypothesis on the backend.) *)
Lemma served_is_passthrough maxr align ps pe backend :
  (forall s c h, backend s c = BErr h -> h <> 200) ->
  let o := get_entries maxr align ps pe backend in
  o_status o = 200 ->
  exists s count n ls, o_request o = Some (s, count) /\ backend s count = BReply (Some n) ls
    /\ s < n /\ Z.of_nat (length ls) <= count
    /\ o_served o = map (fun l => (l_value l, l_extra l)) ls
    /\ (forall i l, nth_error ls i = Some l -> l_index l = s + Z.of_nat i).
Proof.
  intros Hne. cbn. destruct ps as [s0|], pe as [e0|]; cbn; try discriminate.
  destruct (parse_range s0 e0 maxr align) as [[s e]|]; cbn; [|discriminate].
  destruct (backend s (entries_count s e)) as [h|[n|] ls] eqn:Eb; cbn.
  - intros Hh. exfalso. apply (Hne _ _ _ Eb). exact Hh.
  - destruct (Z.leb_spec n s); cbn; [discriminate|].
    destruct (Z.gtb_spec (Z.of_nat (length ls)) (entries_count s e)); cbn; [discriminate|].
    destruct (indices_from s ls) eqn:Ei; cbn; [|discriminate].
    intros _. exists s, (entries_count s e), n, ls. repeat split; auto; try lia.
    apply indices_from_spec. exact Ei.
  - discriminate.
Qed.

Lemma take_from_spec st : forall k i idx,
  idx = Z.of_nat i ->
  let ls := take_from st i k idx in
  map (fun l => (l_value l, l_extra l)) ls = firstn k (skipn i st) /\ indices_from idx ls = true.
Proof.
  induction k as [|k IH]; intros i idx Hi; cbn; [auto|].
  destruct (nth_error st i) as [[v x]|] eqn:En.
  - cbn. specialize (IH (S i) (idx + 1) ltac:(lia)). cbn in IH. destruct IH as [IH1 IH2].
    rewrite IH1, IH2, Z.eqb_refl. split; [|reflexivity].
    assert (Hs : skipn i st = (v, x) :: skipn (S i) st).
    { clear - En. revert st En. induction i as [|i IH]; intros [|a st] En; cbn in *; try discriminate.
      - inversion En; reflexivity.
      - apply IH. exact En. }
    rewrite Hs. reflexivity.
  - cbn. split; [|reflexivity].
    assert (Hs : skipn i st = []).
    { apply nth_error_None in En. apply skipn_all2. exact En. }
    rewrite Hs. destruct k; reflexivity.
Qed.

(* against an honest backend over a stored log, a valid in-tree request is answered 200 with
   the stored (leaf_input, extra_data) of consecutive indices beginning at start *)
Lemma honest_serves_stored maxr align s e st :
  0 <= s <= e -> e <= max_i64 -> 1 <= maxr <= max_i64 -> s < Z.of_nat (length st) ->
  let o := get_entries maxr align (PInt s) (PInt e) (honest st) in
  exists count, o_request o = Some (s, count) /\ 1 <= count <= maxr /\ s + count - 1 <= e /\
    o_status o = 200 /\ o_served o = firstn (Z.to_nat count) (skipn (Z.to_nat s) st) /\ o_served o <> [].
Proof.
  intros Hs He Hm Hn.
  destruct (range_contract_lemma s e maxr align Hs He Hm) as (e' & Hp & Hr & Hc & Hcnt & _).
  exists (e' - s + 1). cbn. rewrite Hp, Hc. unfold honest.
  destruct (Z.leb_spec (Z.of_nat (length st)) s) as [?|_]; [lia|].
  pose proof (take_from_spec st (Z.to_nat (e' - s + 1)) (Z.to_nat s) s ltac:(lia)) as [H1 H2]. cbn in H1, H2.
  set (ls := take_from st (Z.to_nat s) (Z.to_nat (e' - s + 1)) s) in *.
  assert (Hlen : Z.of_nat (length ls) <= e' - s + 1).
  { rewrite <- (map_length (fun l => (l_value l, l_extra l))). rewrite H1. rewrite firstn_length. lia. }
  destruct (Z.gtb_spec (Z.of_nat (length ls)) (e' - s + 1)) as [?|_]; [lia|].
  rewrite H2. cbn. repeat split; try lia; auto.
  rewrite H1. 
  destruct (skipn (Z.to_nat s) st) as [|a r] eqn:Es.
  - exfalso. assert (length (skipn (Z.to_nat s) st) = 0%nat) by (rewrite Es; reflexivity).
    rewrite skipn_length in H. lia.
  - destruct (Z.to_nat (e' - s + 1)) eqn:Ek; [lia|]. cbn. discriminate.
Qed.
