(* C13 finding F14 (pending_fixes/C13-1): before the repair PostAndParseWithRetry converted a
   Retry-After number of seconds with
       b := time.Duration(seconds) * time.Second
   i.e. an int64 multiplication by 1e9 that wraps.  [conv_unpatched] is that arithmetic; the
   model is otherwise the same ([run_call] takes the conversion as its parameter), so the
   patched / unpatched difference is this one definition.  Witnesses are explicit and checked
   by vm_compute.  The repaired conversion (gen/Retry.v: retry_after_duration, translated from
   the patched source) satisfies the full statement: Props/C13.v wait_ge_retry_after. *)
From Coq Require Import ZArith Bool List Lia.
From V Require Import Base.GoInt gen.Retry Client.RetryModel Client.BackoffProofs.
Import ListNotations.
Open Scope Z_scope.

Definition conv_unpatched (seconds : Z) : Z := mul64 seconds 1000000000.

(* 9223372037 s * 1e9 wraps to a negative Duration (about -292 years) *)
Theorem retry_after_seconds_wrap_refuted :
  exists n, 0 < n /\ in_i64 n /\ conv_unpatched n < 0.
Proof. exists 9223372037. vm_compute. repeat split; discriminate. Qed.
Print Assumptions retry_after_seconds_wrap_refuted.

Definition T0 : Z := 946684800000000000.

(* the statement of wait_ge_retry_after fails for the unrepaired arithmetic: a fresh client, a 503
   with Retry-After: 9223372037, and the next POST is scheduled at the very instant of the answer *)
Theorem wait_ge_retry_after_unpatched_refuted :
  exists c evs t b n p,
    mult_ok b
    /\ forallb (fun x => (0 <=? r_j x) && (r_j x <? max_jitter_ns) && (r_at x <=? r_resp x))
               (o_trace (run_call conv_unpatched c t b evs)) = true
    /\ match o_trace (run_call conv_unpatched c t b evs) with
       | x :: _ => r_out x = OResp 503 (RASeconds n) p
                   /\ r_next x < r_resp x + Z.min (n * 1000000000) max_i64
                   /\ r_next x = r_resp x
       | [] => False
       end.
Proof.
  exists (mkCtx None KDeadline),
         [mkEv 0 (OResp 503 (RASeconds 9223372037) false) 0 (JGiven 0); mkEv 0 (OResp 200 RANone true) 1 (JGiven 0)],
         T0, fresh_backoff, 9223372037, false.
  split; [exact mult_ok_fresh|]. split.
  - vm_compute. reflexivity.
  - vm_compute. repeat split.
Qed.
Print Assumptions wait_ge_retry_after_unpatched_refuted.

(* ... and the whole call then succeeds after two POSTs 0 ns apart *)
Example unpatched_retries_at_once :
  let out := run_call conv_unpatched (mkCtx None KDeadline) T0 fresh_backoff
               [mkEv 0 (OResp 503 (RASeconds 9223372037) false) 0 (JGiven 0); mkEv 0 (OResp 200 RANone true) 1 (JGiven 0)] in
  o_attempts out = [T0; T0] /\ o_res out = RSuccess 1.
Proof. vm_compute. split; reflexivity. Qed.

(* symmetric: Retry-After: -9223372037 (the server asks for nothing) wraps to about +292 years: the
   next POST is scheduled far beyond the 128 s cap plus jitter *)
Theorem negative_retry_after_wrap_refuted :
  exists n, n < 0 /\ in_i64 n /\ 128000000000 + 250000000 < conv_unpatched n.
Proof. exists (-9223372037). vm_compute. repeat split; discriminate. Qed.
Print Assumptions negative_retry_after_wrap_refuted.

(* the repaired conversion on the same inputs *)
Example patched_saturates :
  retry_after_duration 9223372037 = max_i64 /\ retry_after_duration (-9223372037) = - max_i64
  /\ retry_after_duration 9223372036 = 9223372036000000000 /\ retry_after_duration 3 = 3000000000.
Proof. vm_compute. repeat split. Qed.
