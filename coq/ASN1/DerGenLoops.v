(* T1 tie, second part: the two byte-writing loops of asn1/marshal.go (appendLength, appendBase128Int),
   translated by gofrag on every run (coq/gen/Asn1.v, octets as Z in 0..255), write exactly the octets of the
   model's emitters len_bytes / append_base128 (ASN1/DerHeader.v) - for every machine integer. *)
From Coq Require Import ZArith Bool Lia List ZifyBool.
From Coq.Strings Require Import Byte.
From V Require Import Base.GoInt Base.Bytes gen.Asn1 ASN1.DerBase ASN1.DerHeader ASN1.DerHeaderProofs ASN1.DerGenTie.
Import ListNotations.
Local Open Scope Z_scope.

(* base-B digits of i, most significant first, k of them *)
Fixpoint digits (B : Z) (k : nat) (i : Z) : list Z :=
  match k with
  | O => []
  | S k' => (i / B ^ Z.of_nat k') mod B :: digits B k' i
  end.

Lemma digits_snoc B k i : 0 < B -> digits B (S k) i = digits B k (i / B) ++ [i mod B].
Proof.
  intros HB. induction k as [|k IH].
  - cbn [digits app]. change (Z.of_nat 0) with 0. rewrite Z.pow_0_r, Z.div_1_r. reflexivity.
  - change (digits B (S (S k)) i) with ((i / B ^ Z.of_nat (S k)) mod B :: digits B (S k) i).
    rewrite IH. change (digits B (S k) (i / B)) with (((i / B) / B ^ Z.of_nat k) mod B :: digits B k (i / B)).
    cbn [app]. f_equal. f_equal.
    rewrite Z.div_div by (try apply Z.pow_pos_nonneg; lia).
    rewrite Nat2Z.inj_succ, Z.pow_succ_r by lia. reflexivity.
Qed.

Lemma small_ops n : 1 <= n <= 16 ->
  sub64 n 1 = n - 1 /\ wrapu (mul64 (sub64 n 1) 8) = 8 * (n - 1).
Proof.
  intros Hn. assert (H1 : sub64 n 1 = n - 1).
  { unfold sub64. apply wrap64_id. unfold in_i64. rewrite max_i64_eq, min_i64_eq. pose proof two63_pos.
    assert (100 < two63) by reflexivity. lia. }
  split; [exact H1|]. rewrite H1.
  assert (H2 : mul64 (n - 1) 8 = 8 * (n - 1)).
  { unfold mul64. rewrite wrap64_id; [lia|]. unfold in_i64. rewrite max_i64_eq, min_i64_eq.
    assert (1000 < two63) by reflexivity. lia. }
  rewrite H2. apply wrapu_id. unfold in_u64. rewrite two64_eq. assert (1000 < two63) by reflexivity. lia.
Qed.

Lemma shr64_small i k : 0 <= k < 64 -> shr64 i k = i / 2 ^ k.
Proof. intros Hk. unfold shr64. destruct (Z.ltb_spec k 64); [reflexivity|lia]. Qed.

Lemma pow2_8 k : 0 <= k -> 2 ^ (8 * k) = 256 ^ k.
Proof. intros Hk. rewrite Z.pow_mul_r by lia. reflexivity. Qed.
Lemma pow2_7 k : 0 <= k -> 2 ^ (7 * k) = 128 ^ k.
Proof. intros Hk. rewrite Z.pow_mul_r by lia. reflexivity. Qed.

(* ---- appendLength ---- *)
Section AppendLengthLoop.
  Variable i : Z.
  Variables (cond : list Z * Z -> bool) (body : list Z * Z -> list Z * Z).
  Hypothesis Hcond : forall d n, cond (d, n) = (n >? 0).
  Hypothesis Hbody : forall d n,
    body (d, n) = (d ++ [(shr64 i (wrapu (mul64 (sub64 n 1) 8))) mod 256], sub64 n 1).

  Lemma append_length_loop : forall (k : nat) d F,
    (k <= 8)%nat -> (S k <= F)%nat ->
    while_fuel F cond body (d, Z.of_nat k) = Some (d ++ digits 256 k i, 0).
  Proof.
    induction k as [|k IH]; intros d F Hk HF.
    - destruct F as [|F]; [lia|]. rewrite while_fuel_S, Hcond. change (Z.of_nat 0 >? 0) with false.
      cbn [digits]. rewrite app_nil_r. reflexivity.
    - destruct F as [|F]; [lia|]. rewrite while_fuel_S, Hcond.
      destruct (Z.gtb_spec (Z.of_nat (S k)) 0) as [_|]; [|lia].
      rewrite Hbody. destruct (small_ops (Z.of_nat (S k)) ltac:(lia)) as [-> ->].
      replace (Z.of_nat (S k) - 1) with (Z.of_nat k) by lia.
      rewrite shr64_small by lia. rewrite pow2_8 by lia.
      rewrite IH by lia. cbn [digits]. rewrite <- app_assoc. reflexivity.
  Qed.
End AppendLengthLoop.

Lemma bz_zb_mod z : bz (zb z) = z mod 256.
Proof.
  assert (H : zb z = zb (z mod 256)) by (unfold zb; rewrite Z.mod_mod by lia; reflexivity).
  rewrite H. apply bz_zb. apply Z.mod_pos_bound. lia.
Qed.

Lemma len_bytes_digits f : forall i, 0 <= i < 256 ^ Z.of_nat (S f) ->
  map bz (len_bytes (S f) i) = digits 256 (length (len_bytes (S f) i)) i.
Proof.
  induction f as [|f IH]; intros i Hi.
  - change (256 ^ Z.of_nat 1) with 256 in Hi. rewrite len_bytes_S.
    destruct (Z.gtb_spec i 255); [lia|]. cbn [map length digits]. change (Z.of_nat 0) with 0.
    rewrite Z.pow_0_r, Z.div_1_r, bz_zb_mod. reflexivity.
  - rewrite (len_bytes_S (S f)). destruct (Z.gtb_spec i 255) as [Hgt|Hle].
    + assert (Hq : 0 <= i / 256 < 256 ^ Z.of_nat (S f)).
      { rewrite (Nat2Z.inj_succ (S f)), Z.pow_succ_r in Hi by lia.
        split; [apply Z.div_pos; lia|apply Z.div_lt_upper_bound; lia]. }
      rewrite map_app, app_length, IH by exact Hq. cbn [map length].
      rewrite Nat.add_1_r, digits_snoc by lia. rewrite bz_zb_mod, Z.mod_mod by lia. reflexivity.
    + cbn [map length digits]. change (Z.of_nat 0) with 0.
      rewrite Z.pow_0_r, Z.div_1_r, bz_zb_mod. reflexivity.
Qed.

Lemma append_length_meaning dst i :
  0 <= i <= max_i64 -> append_length_gen dst i = dst ++ map bz (len_bytes 8 i).
Proof.
  intros Hi. destruct (length_length_meaning i Hi) as [Hll Hb].
  unfold append_length_gen. rewrite max_i64_eq in Hi.
  assert (Hr : 0 <= i < 256 ^ Z.of_nat 8).
  { change (256 ^ Z.of_nat 8) with (2 * two63). pose proof two63_pos. lia. }
  rewrite Hll. unfold zlen.
  pose proof (len_bytes_length 7 i 7 Hr) as Hlen.
  match goal with |- context [while_fuel ?F ?c ?b ?s] =>
    rewrite (append_length_loop i c b ltac:(intros; reflexivity) ltac:(intros; reflexivity)
               (length (len_bytes 8 i)) dst F ltac:(lia) ltac:(lia))
  end.
  rewrite (len_bytes_digits 7 i Hr). reflexivity.
Qed.

(* ---- appendBase128Int ---- *)
Lemma land127 a : 0 <= a -> Z.land (a mod 256) 127 = a mod 128.
Proof.
  intros Ha. change 127 with (Z.ones 7). rewrite Z.land_ones by lia. change (2 ^ 7) with 128.
  rewrite <- (Znumtheory.Zmod_div_mod 128 256); try lia. exists 2. reflexivity.
Qed.

Lemma lor128_table : forallb (fun a => Z.lor a 128 =? a + 128) (map Z.of_nat (seq 0 128)) = true.
Proof. vm_compute. reflexivity. Qed.
Lemma lor128 a : 0 <= a < 128 -> Z.lor a 128 = a + 128.
Proof.
  intros Ha. pose proof (proj1 (forallb_forall _ _) lor128_table a) as H.
  apply Z.eqb_eq, H. apply in_map_iff. exists (Z.to_nat a). split; [lia|]. apply in_seq. lia.
Qed.

(* the octets appendBase128Int writes for counter values k-1 .. 0 *)
Fixpoint b128_digits (k : nat) (n : Z) : list Z :=
  match k with
  | O => []
  | S k' => ((n / 128 ^ Z.of_nat k') mod 128 + (if (Z.of_nat k' =? 0) then 0 else 128)) :: b128_digits k' n
  end.

Section AppendBase128Loop.
  Variable n : Z.
  Hypothesis Hn : 0 <= n.
  Variables (cond : list Z * Z -> bool) (body : list Z * Z -> list Z * Z).
  Hypothesis Hcond : forall d j, cond (d, j) = (j >=? 0).
  Hypothesis Hbody : forall d j,
    body (d, j) =
    (d ++ [let o := (shr64 n (wrapu (mul64 j 7))) mod 256 in
           let o := Z.land o 127 in
           if negb (j =? 0) then Z.lor o 128 else o], sub64 j 1).

  Lemma mul7 j : 0 <= j <= 16 -> wrapu (mul64 j 7) = 7 * j.
  Proof.
    intros Hj. assert (H2 : mul64 j 7 = 7 * j).
    { unfold mul64. rewrite wrap64_id; [lia|]. unfold in_i64. rewrite max_i64_eq, min_i64_eq.
      assert (1000 < two63) by reflexivity. lia. }
    rewrite H2. apply wrapu_id. unfold in_u64. rewrite two64_eq. assert (1000 < two63) by reflexivity. lia.
  Qed.
  Lemma sub1 j : 0 <= j <= 16 -> sub64 j 1 = j - 1.
  Proof.
    intros Hj. unfold sub64. apply wrap64_id. unfold in_i64. rewrite max_i64_eq, min_i64_eq.
    assert (1000 < two63) by reflexivity. lia.
  Qed.

  Lemma append_base128_loop : forall (k : nat) d F,
    (k <= 10)%nat -> (S k <= F)%nat ->
    while_fuel F cond body (d, Z.of_nat k - 1) = Some (d ++ b128_digits k n, -1).
  Proof.
    induction k as [|k IH]; intros d F Hk HF.
    - destruct F as [|F]; [lia|]. rewrite while_fuel_S, Hcond. change (Z.of_nat 0 - 1 >=? 0) with false.
      cbn [b128_digits]. rewrite app_nil_r. reflexivity.
    - destruct F as [|F]; [lia|]. rewrite while_fuel_S, Hcond.
      replace (Z.of_nat (S k) - 1) with (Z.of_nat k) by lia.
      destruct (Z.geb_spec (Z.of_nat k) 0) as [_|]; [|lia].
      rewrite Hbody, mul7, sub1 by lia. rewrite shr64_small by lia. rewrite pow2_7 by lia.
      cbv zeta. rewrite land127 by (apply Z.div_pos; [lia|apply Z.pow_pos_nonneg; lia]).
      rewrite IH by lia. cbn [b128_digits]. rewrite <- app_assoc. cbn [app]. f_equal. f_equal. f_equal.
      destruct (Z.eqb_spec (Z.of_nat k) 0) as [E|E]; cbn [negb]; cbv iota; f_equal; [lia|].
      apply lor128. apply Z.mod_pos_bound. lia.
  Qed.
End AppendBase128Loop.

(* b128_hi writes the continuation octets of m; with the final octet appended this is b128_digits *)
Lemma b128_hi_digits f : forall m, 0 <= m < 128 ^ Z.of_nat f ->
  forall low, 0 <= low < 128 ->
  map bz (b128_hi f m) ++ [low] = b128_digits (S (length (b128_hi f m))) (m * 128 + low).
Proof.
  induction f as [|f IH]; intros m Hm low Hlow.
  - change (128 ^ Z.of_nat 0) with 1 in Hm. assert (m = 0) by lia. subst m.
    cbn [b128_hi map length app b128_digits]. change (Z.of_nat 0) with 0. rewrite Z.pow_0_r, Z.div_1_r.
    change (0 =? 0) with true. cbv iota. rewrite Z.mod_small by lia. f_equal. lia.
  - cbn [b128_hi]. destruct (Z.leb_spec m 0) as [Hle|Hgt].
    + assert (m = 0) by lia. subst m.
      cbn [map length app b128_digits]. change (Z.of_nat 0) with 0. rewrite Z.pow_0_r, Z.div_1_r.
      change (0 =? 0) with true. cbv iota. rewrite Z.mod_small by lia. f_equal. lia.
    + assert (Hq : 0 <= m / 128 < 128 ^ Z.of_nat f).
      { rewrite Nat2Z.inj_succ, Z.pow_succ_r in Hm by lia.
        split; [apply Z.div_pos; lia|apply Z.div_lt_upper_bound; lia]. }
      rewrite map_app, app_length. cbn [map length]. rewrite Nat.add_1_r.
      rewrite <- app_assoc. cbn [app].
      set (L := length (b128_hi f (m / 128))) in *.
      (* peel the last two octets: use IH on m/128 with low' = m mod 128 *)
      pose proof (IH (m / 128) Hq (m mod 128) ltac:(apply Z.mod_pos_bound; lia)) as IH'.
      fold L in IH'.
      replace (m / 128 * 128 + m mod 128) with m in IH' by (pose proof (Z.div_mod m 128 ltac:(lia)); lia).
      (* b128_digits (S (S L)) (m*128+low) = map (+0) ... : relate via general snoc lemma below *)
      revert IH'. generalize (map bz (b128_hi f (m / 128))) as pre. intros pre IH'.
      rewrite bz_zb_mod.
      assert (Hsn : forall k x lo, 0 <= x -> 0 <= lo < 128 ->
                b128_digits (S (S k)) (x * 128 + lo) =
                (removelast (b128_digits (S k) x)) ++ [x mod 128 + 128; lo]).
      { clear. induction k as [|k IHk]; intros x lo Hx Hlo.
        - cbn [b128_digits removelast app]. change (Z.of_nat 1) with 1. change (Z.of_nat 0) with 0.
          rewrite Z.pow_1_r, Z.pow_0_r, Z.div_1_r. change (1 =? 0) with false. change (0 =? 0) with true. cbv iota.
          rewrite Z.div_add_l by lia. rewrite (Z.div_small lo 128) by lia. rewrite Z.add_0_r.
          f_equal. f_equal. rewrite Z.add_0_r, (Z.add_comm (x * 128) lo), Z.mod_add by lia. apply Z.mod_small. lia.
        - change (b128_digits (S (S (S k))) (x * 128 + lo)) with
            (((x * 128 + lo) / 128 ^ Z.of_nat (S (S k))) mod 128 + (if (Z.of_nat (S (S k)) =? 0) then 0 else 128)
             :: b128_digits (S (S k)) (x * 128 + lo)).
          rewrite IHk by assumption.
          change (b128_digits (S (S k)) x) with
            ((x / 128 ^ Z.of_nat (S k)) mod 128 + (if (Z.of_nat (S k) =? 0) then 0 else 128) :: b128_digits (S k) x).
          assert (Hne : b128_digits (S k) x <> []) by (cbn [b128_digits]; discriminate).
          cbn [removelast]. destruct (b128_digits (S k) x) as [|y ys] eqn:E; [contradiction|].
          cbn [app]. f_equal.
          destruct (Z.eqb_spec (Z.of_nat (S (S k))) 0); [lia|]. destruct (Z.eqb_spec (Z.of_nat (S k)) 0); [lia|].
          f_equal. f_equal.
          rewrite (Nat2Z.inj_succ (S k)), Z.pow_succ_r by lia.
          rewrite <- Z.div_div by (try apply Z.pow_pos_nonneg; lia).
          rewrite Z.div_add_l by lia. rewrite (Z.div_small lo 128) by lia. rewrite Z.add_0_r. reflexivity. }
      rewrite (Hsn L m low ltac:(lia) Hlow). rewrite <- IH'.
      rewrite removelast_last. f_equal. f_equal.
      pose proof (Z.mod_pos_bound m 128 ltac:(lia)). rewrite Z.mod_small by lia. lia.
Qed.

Lemma append_base128_meaning dst n :
  min_i64 <= n <= max_i64 -> append_base128_gen dst n = dst ++ map bz (append_base128 n).
Proof.
  intros Hn. destruct (base128_int_length_meaning n Hn) as [Hl Hb].
  unfold append_base128_gen. rewrite Hl. rewrite max_i64_eq, min_i64_eq in Hn.
  unfold append_base128 in *. destruct (Z.ltb_spec n 0) as [Hneg|Hpos].
  - (* negative: length 0, the loop does not run *)
    change (zlen (@nil byte)) with 0. change (sub64 0 1) with (-1).
    change 16%nat with (S 15). rewrite while_fuel_S. cbv beta iota. change (-1 >=? 0) with false. cbv iota.
    cbn [map]. rewrite app_nil_r. reflexivity.
  - assert (Hq9 : 0 <= n / 128 < 128 ^ Z.of_nat 9).
    { split; [apply Z.div_pos; lia|]. apply Z.div_lt_upper_bound; [lia|].
      change (128 * 128 ^ Z.of_nat 9) with (64 * (2 * two63)). pose proof two63_pos. lia. }
    assert (Hq : 0 <= n / 128 < 128 ^ Z.of_nat 10).
    { split; [lia|]. eapply Z.lt_le_trans; [apply Hq9|]. apply Z.pow_le_mono_r; lia. }
    pose proof (b128_hi_length 10 (n / 128) 9 Hq9) as Hlen.
    rewrite zlen_app_one in *. unfold zlen in *.
    set (L := length (b128_hi 10 (n / 128))) in *.
    assert (Hs : sub64 (Z.of_nat L + 1) 1 = Z.of_nat (S L) - 1).
    { unfold sub64. rewrite wrap64_id; [lia|]. unfold in_i64. rewrite max_i64_eq, min_i64_eq.
      assert (1000 < two63) by reflexivity. lia. }
    rewrite Hs.
    match goal with |- context [while_fuel ?F ?c ?b ?s] =>
      rewrite (append_base128_loop n Hpos c b ltac:(intros; reflexivity) ltac:(intros; reflexivity)
                 (S L) dst F ltac:(lia) ltac:(lia))
    end.
    rewrite map_app. cbn [map]. rewrite bz_zb_mod.
    rewrite (Z.mod_small (n mod 128) 256) by (pose proof (Z.mod_pos_bound n 128 ltac:(lia)); lia).
    pose proof (b128_hi_digits 10 (n / 128) Hq (n mod 128) ltac:(apply Z.mod_pos_bound; lia)) as Hd.
    fold L in Hd.
    replace (n / 128 * 128 + n mod 128) with n in Hd by (pose proof (Z.div_mod n 128 ltac:(lia)); lia).
    rewrite Hd. reflexivity.
Qed.
