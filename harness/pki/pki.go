// Package pki generates certificate hierarchies for the harnesses using the repository's
// own x509 fork (CreateCertificate), so every shape the properties quantify over can be built.
package pki

import (
	"crypto"
	"crypto/ecdsa"
	"crypto/ed25519"
	"crypto/elliptic"
	"crypto/rand"
	"crypto/rsa"
	"encoding/pem"
	"math/big"
	"sync"
	"time"

	"github.com/google/certificate-transparency-go/asn1"
	"github.com/google/certificate-transparency-go/x509"
	"github.com/google/certificate-transparency-go/x509/pkix"
)

// Entity is a certificate together with its key.
type Entity struct {
	Cert *x509.Certificate
	DER  []byte
	Key  crypto.Signer
}

var (
	keyMu   sync.Mutex
	keyPool = map[string][]crypto.Signer{}
)

// Key returns a key of the given kind ("p256","p384","p521","rsa2048","rsa1024","rsa3072","rsa4096","ed25519").
// RSA keys are pooled (generation is slow); idx selects a pool slot.
func Key(kind string, idx int) crypto.Signer {
	keyMu.Lock()
	defer keyMu.Unlock()
	for len(keyPool[kind]) <= idx {
		var k crypto.Signer
		var err error
		switch kind {
		case "p256":
			k, err = ecdsa.GenerateKey(elliptic.P256(), rand.Reader)
		case "p384":
			k, err = ecdsa.GenerateKey(elliptic.P384(), rand.Reader)
		case "p521":
			k, err = ecdsa.GenerateKey(elliptic.P521(), rand.Reader)
		case "rsa1024":
			k, err = rsa.GenerateKey(rand.Reader, 1024)
		case "rsa2048":
			k, err = rsa.GenerateKey(rand.Reader, 2048)
		case "rsa3072":
			k, err = rsa.GenerateKey(rand.Reader, 3072)
		case "rsa4096":
			k, err = rsa.GenerateKey(rand.Reader, 4096)
		case "ed25519":
			_, priv, e := ed25519.GenerateKey(rand.Reader)
			k, err = priv, e
		default:
			panic("unknown key kind " + kind)
		}
		if err != nil {
			panic(err)
		}
		keyPool[kind] = append(keyPool[kind], k)
	}
	return keyPool[kind][idx]
}

var serial int64 = 1000

// Opts describes one certificate.
type Opts struct {
	CN         string
	KeyKind    string
	KeyIdx     int
	IsCA       bool
	NotBefore  time.Time
	NotAfter   time.Time
	EKUs       []x509.ExtKeyUsage
	UnknownEKU []asn1.ObjectIdentifier
	ExtraExt   []pkix.Extension // appended via ExtraExtensions
	SKI        []byte           // subject key id (nil = library default for CAs)
	AKI        []byte           // forced authority key id (nil = parent's SKI)
	NoBC       bool             // omit basic constraints
	Serial     *big.Int
	DNSNames   []string
	Mutate     func(t *x509.Certificate)
}

var (
	OIDPoison  = asn1.ObjectIdentifier{1, 3, 6, 1, 4, 1, 11129, 2, 4, 3}
	OIDSCTList = asn1.ObjectIdentifier{1, 3, 6, 1, 4, 1, 11129, 2, 4, 2}
	OIDCTEKU   = asn1.ObjectIdentifier{1, 3, 6, 1, 4, 1, 11129, 2, 4, 4}
)

// PoisonExt is the RFC 6962 critical poison extension with an ASN.1 NULL value.
func PoisonExt() pkix.Extension {
	return pkix.Extension{Id: OIDPoison, Critical: true, Value: []byte{0x05, 0x00}}
}

// Issue creates a certificate signed by parent (nil = self-signed).
func Issue(o Opts, parent *Entity) *Entity {
	if o.KeyKind == "" {
		o.KeyKind = "p256"
	}
	key := Key(o.KeyKind, o.KeyIdx)
	serial++
	sn := o.Serial
	if sn == nil {
		sn = big.NewInt(serial)
	}
	if o.NotBefore.IsZero() {
		o.NotBefore = time.Date(2020, 1, 1, 0, 0, 0, 0, time.UTC)
	}
	if o.NotAfter.IsZero() {
		o.NotAfter = time.Date(2040, 1, 1, 0, 0, 0, 0, time.UTC)
	}
	t := &x509.Certificate{
		SerialNumber: sn, Subject: pkix.Name{CommonName: o.CN, Organization: []string{"verif"}},
		NotBefore: o.NotBefore, NotAfter: o.NotAfter,
		ExtKeyUsage: o.EKUs, UnknownExtKeyUsage: o.UnknownEKU, ExtraExtensions: o.ExtraExt,
		SubjectKeyId: o.SKI, DNSNames: o.DNSNames,
	}
	if !o.NoBC {
		t.BasicConstraintsValid = true
		t.IsCA = o.IsCA
	}
	if o.IsCA {
		t.KeyUsage = x509.KeyUsageCertSign | x509.KeyUsageCRLSign
	} else {
		t.KeyUsage = x509.KeyUsageDigitalSignature
	}
	if o.Mutate != nil {
		o.Mutate(t)
	}
	pc, pk := t, key
	if parent != nil {
		pc, pk = parent.Cert, parent.Key
	}
	if o.AKI != nil {
		// CreateCertificate takes the AKI from parent.SubjectKeyId: use a shallow copy.
		cp := *pc
		cp.SubjectKeyId = o.AKI
		pc = &cp
	}
	der, err := x509.CreateCertificate(rand.Reader, t, pc, key.Public(), pk)
	if err != nil {
		panic(err)
	}
	if fixed, ok := WithRFCValidity(der, t.NotBefore, t.NotAfter, t.SerialNumber); ok {
		der = fixed // the identity unless the fork's time encoder departs from RFC 5280 (see rfcvalidity.go)
	}
	c, err := x509.ParseCertificate(der)
	if err != nil && x509.IsFatal(err) {
		panic(err)
	}
	return &Entity{Cert: c, DER: der, Key: key}
}

// PEM encodes certificates.
func PEM(es ...*Entity) []byte {
	var out []byte
	for _, e := range es {
		out = append(out, pem.EncodeToMemory(&pem.Block{Type: "CERTIFICATE", Bytes: e.DER})...)
	}
	return out
}
