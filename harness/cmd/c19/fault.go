// Storage-fault histories.  The witness is opened over a database/sql driver that wraps the sqlite
// driver and can make exactly ONE statement of a chosen Update call fail: the BEGIN, the SELECT of the
// held row, the INSERT OR REPLACE, or the COMMIT (a failed COMMIT rolls the transaction back, as
// SQLITE_BUSY / disk full do).  The history then GOES ON: the same candidate again, a fork that extends
// the STH held before the fault but not the candidate of the faulted update, stale / replayed STHs,
// GetSTH after every update.  Direct oracle (besides afterUpdate's sentences): an Update whose statement
// failed answers an error and GetSTH answers as before it; every STH an Update returned with a nil
// error is what GetSTH returns right afterwards; all STHs ever returned with a nil error by Update are
// pairwise consistent (same size => same root; two tree roots of the known trees lie on one tree).
// Model: begin -> FBegin, select -> FGet, insert and commit -> FSet (Exec or Commit failed: rolled back),
// set only when the armed statement was actually reached.
package main

import (
	"bytes"
	"context"
	"database/sql"
	"database/sql/driver"
	"errors"
	"fmt"
	"strings"
	"sync"
	"sync/atomic"

	sqlite3 "github.com/mattn/go-sqlite3"
)

// faultCtl: which statement of the next transaction fails (one shot).
type faultCtl struct {
	mu    sync.Mutex
	armed string // "" | begin | select | insert | commit
	fired string
}

func (f *faultCtl) arm(at string) {
	f.mu.Lock()
	f.armed, f.fired = at, ""
	f.mu.Unlock()
}

// disarm returns the point that actually failed ("" = the armed statement was never reached).
func (f *faultCtl) disarm() string {
	f.mu.Lock()
	defer f.mu.Unlock()
	x := f.fired
	f.armed, f.fired = "", ""
	return x
}

func (f *faultCtl) hit(at string) error {
	f.mu.Lock()
	defer f.mu.Unlock()
	if f.armed != at {
		return nil
	}
	f.armed, f.fired = "", at
	return errors.New("injected storage fault at " + strings.ToUpper(at))
}

type faultConnector struct {
	dsn string
	fc  *faultCtl
	drv *sqlite3.SQLiteDriver
}

func (c *faultConnector) Connect(context.Context) (driver.Conn, error) {
	cn, err := c.drv.Open(c.dsn)
	if err != nil {
		return nil, err
	}
	return &faultConn{Conn: cn, fc: c.fc}, nil
}
func (c *faultConnector) Driver() driver.Driver { return c.drv }

type faultConn struct {
	driver.Conn
	fc   *faultCtl
	inTx bool
}

func (c *faultConn) BeginTx(ctx context.Context, opts driver.TxOptions) (driver.Tx, error) {
	if err := c.fc.hit("begin"); err != nil {
		return nil, err
	}
	tx, err := c.Conn.(driver.ConnBeginTx).BeginTx(ctx, opts)
	if err != nil {
		return nil, err
	}
	c.inTx = true
	return &faultTx{tx: tx, c: c}, nil
}

func (c *faultConn) Begin() (driver.Tx, error) {
	return c.BeginTx(context.Background(), driver.TxOptions{})
}

func stmtKind(q string) string {
	q = strings.ToUpper(strings.TrimSpace(q))
	switch {
	case strings.HasPrefix(q, "SELECT"):
		return "select"
	case strings.HasPrefix(q, "INSERT"), strings.HasPrefix(q, "UPDATE"), strings.HasPrefix(q, "REPLACE"), strings.HasPrefix(q, "DELETE"):
		return "insert"
	}
	return "other"
}

func (c *faultConn) QueryContext(ctx context.Context, q string, args []driver.NamedValue) (driver.Rows, error) {
	if c.inTx {
		if err := c.fc.hit(stmtKind(q)); err != nil {
			return nil, err
		}
	}
	return c.Conn.(driver.QueryerContext).QueryContext(ctx, q, args)
}

func (c *faultConn) ExecContext(ctx context.Context, q string, args []driver.NamedValue) (driver.Result, error) {
	if c.inTx {
		if err := c.fc.hit(stmtKind(q)); err != nil {
			return nil, err
		}
	}
	return c.Conn.(driver.ExecerContext).ExecContext(ctx, q, args)
}

func (c *faultConn) PrepareContext(ctx context.Context, q string) (driver.Stmt, error) {
	if c.inTx {
		if err := c.fc.hit(stmtKind(q)); err != nil {
			return nil, err
		}
	}
	return c.Conn.(driver.ConnPrepareContext).PrepareContext(ctx, q)
}

type faultTx struct {
	tx driver.Tx
	c  *faultConn
}

func (t *faultTx) Commit() error {
	t.c.inTx = false
	if err := t.c.fc.hit("commit"); err != nil {
		t.tx.Rollback() // a COMMIT that fails leaves nothing behind
		return err
	}
	return t.tx.Commit()
}

func (t *faultTx) Rollback() error {
	t.c.inTx = false
	return t.tx.Rollback()
}

func openFaultDB(dsn string, fc *faultCtl) *sql.DB {
	return sql.OpenDB(&faultConnector{dsn: dsn, fc: fc, drv: &sqlite3.SQLiteDriver{}})
}

var modelFault = map[string]string{"": "NoFault", "begin": "FBegin", "select": "FGet", "insert": "FSet", "commit": "FSet"}

// okHead = an STH some Update returned with a nil error
type okHead struct {
	p    psth
	desc string
}

// doUpdateFault = doUpdate with one statement of the update's transaction armed to fail.
func (h *harness) doUpdateFault(hc *histCase, orc *oracle, in *instance, op *opT, at string, oks *[]okHead) string {
	ri := h.inspect(op.raw, hc.w.logs)
	hc.raws = append(hc.raws, ri)
	orc.submitted[string(op.raw)] = true
	before := orc.held[op.log.id]
	if before != nil && ri.ok {
		hc.tab.recordVerify(before.p.Size, ri.p.Size, op.proof, before.p.Root)
	}
	in.fc.arm(at)
	u := step{op, in.exec(op, orc.submitted)}
	fired := in.fc.disarm()
	op.fault = modelFault[fired]
	if fired != "" {
		op.desc += " [storage fault: " + strings.ToUpper(fired) + " fails]"
		hc.tags["storage-fault:"+fired] = true
		if before == nil {
			hc.tags["storage-fault-on:first-use"] = true
		} else {
			hc.tags["storage-fault-on:held"] = true
		}
	}
	gop := &opT{kind: "getsth", log: op.log, fault: "NoFault", desc: "getsth after update"}
	g := step{gop, in.exec(gop, orc.submitted)}
	if fired != "" && u.obs.kind != "panic" && g.obs.kind != "panic" {
		// a statement of this update failed: no success, no cosignature, the row as before
		if u.obs.class == "EOk" || u.obs.cosigned {
			held := "nothing"
			if g.obs.class == "EOk" && g.obs.cosigned {
				held = sthKey(g.obs.p)
			}
			orc.fail("Update answered %s (cosigned=%v %s) although the %s of its transaction failed; the witness holds %s: %s",
				u.obs.class, u.obs.cosigned, sthKey(u.obs.p), strings.ToUpper(fired), held, op.desc)
		}
		switch {
		case before == nil && g.obs.class != "ENotFound" && op.log.configured && op.log.idHash != nil:
			orc.fail("after a failed first-use update (%s failed) GetSTH answers %s, not NotFound: %s", fired, g.obs.class, op.desc)
		case before != nil && !(g.obs.class == "EOk" && g.obs.cosigned && g.obs.p.sameSigned(before.p)):
			orc.fail("after a failed update (%s failed) GetSTH no longer answers the STH held before (%s): %s", fired, sthKey(before.p), op.desc)
		}
	}
	orc.afterUpdate(u, g, ri)
	hc.steps = append(hc.steps, u, g)
	// every STH returned with a nil error joins the set of cosigned heads: pairwise consistent
	if u.obs.kind != "panic" && u.obs.class == "EOk" && u.obs.cosigned {
		x := okHead{u.obs.p, op.desc}
		for _, y := range *oks {
			a, b := y, x
			if a.p.Size > b.p.Size {
				a, b = b, a
			}
			if a.p.Size == b.p.Size {
				if !bytes.Equal(a.p.Root, b.p.Root) {
					orc.fail("two STHs of size %d with different roots (%x / %x) were both cosigned with a nil error: %q and %q", a.p.Size, a.p.Root[:4], b.p.Root[:4], y.desc, x.desc)
				}
				continue
			}
			oa, ob := orc.w.owners(a.p.Size, a.p.Root), orc.w.owners(b.p.Size, b.p.Root)
			if a.p.Size == 0 || len(oa) == 0 || len(ob) == 0 {
				continue
			}
			good := false
			for _, t := range ob {
				if bytes.Equal(t.root(a.p.Size), a.p.Root) {
					good = true
				}
			}
			if !good {
				orc.fail("cosigned with a nil error: (%d,%x) of tree %s and (%d,%x) of tree %s, neither extends the other: %q and %q",
					a.p.Size, a.p.Root[:4], oa[0].name, b.p.Size, b.p.Root[:4], ob[0].name, y.desc, x.desc)
			}
		}
		*oks = append(*oks, x)
	}
	return fired
}

var faultPoints = []string{"begin", "select", "insert", "commit", "commit"}

func (h *harness) faultCase(i int) {
	w := h.newWorld()
	mode := seqModes[h.r.Intn(len(seqModes))]
	viaHTTP := h.r.Intn(4) == 0
	h.nextFault = &faultCtl{}
	in := h.newInstance(mode, w.logs, viaHTTP)
	defer in.close()
	orc := &oracle{w: w, in: in, held: map[string]*heldT{}, submitted: map[string]bool{}, ok: true, tags: map[string]bool{}, strict: h.strict}
	hc := &histCase{w: w, tab: newHashTab(), mode: mode + "+fault-driver", tags: orc.tags}
	if viaHTTP {
		hc.mode += "+http"
		hc.tags["via:http"] = true
	} else {
		hc.tags["via:direct"] = true
	}
	hc.tags["db:"+mode] = true
	hc.tags["stream:storage-fault"] = true
	ts := uint64(1000 + h.r.Intn(1000))
	l := w.logs[h.r.Intn(2)]
	var oks []okHead
	T0 := w.trees[0]
	mk := func(t *tree, m, n uint64, what string) *opT {
		ts++
		op := &opT{kind: "update", log: l, fault: "NoFault"}
		op.raw = h.buildSTH(sthSpec{size: n, root: t.root(n), ts: ts, signer: l, sigMode: "good", idMode: []string{"absent", "absent", "own"}[h.r.Intn(3)], idOwner: l,
			form: []string{"std", "std", "getsth", "spaced"}[h.r.Intn(4)]})
		if m > 0 && m <= n {
			op.proof = cloneProof(t.cons(m, n))
		}
		op.desc = fmt.Sprintf("fault-stream:%s log=%s held=%d cand=%d tree=%s", what, l.name, m, n, t.name)
		return op
	}
	pickFault := func() string {
		if h.r.Intn(5) < 3 {
			return faultPoints[h.r.Intn(len(faultPoints))]
		}
		return ""
	}
	// first use (small, so that the forks still agree with it), by lot with a fault, then again
	m0 := 1 + uint64(h.r.Intn(int(T0.size())/3+1))
	for try := 0; try < 3 && orc.held[l.id] == nil && atomic.LoadInt32(&in.hung) == 0; try++ {
		at := ""
		if try == 0 && i%2 == 0 {
			at = faultPoints[(i/2)%len(faultPoints)]
		}
		t := T0
		if try > 0 && h.r.Intn(2) == 0 { // after a failed first use: anything may come first, e.g. another tree
			t = w.trees[1+h.r.Intn(3)]
		}
		h.doUpdateFault(hc, orc, in, mk(t, 0, m0, "first-use"), at, &oks)
	}
	nsteps := 5 + h.r.Intn(5)
	for k := 0; k < nsteps && atomic.LoadInt32(&in.hung) == 0; k++ {
		hd := orc.held[l.id]
		if hd == nil {
			break
		}
		m := hd.p.Size
		cur := T0
		if own := w.owners(m, hd.p.Root); len(own) > 0 {
			cur = own[h.r.Intn(len(own))]
		}
		if m >= cur.size() {
			break
		}
		if x := h.r.Intn(10); x >= 7 { // a generated scenario (stale, replay, fork, bad proof, ...) with or without a fault
			sc := []string{"stale", "replay", "fork", "same-size-other-root", "advance-badproof", "resigned-same"}[h.r.Intn(6)]
			op := h.nextUpdateOf(sc, w, l, hd, &ts)
			op.desc = "fault-stream:" + op.desc
			h.doUpdateFault(hc, orc, in, op, pickFault(), &oks)
			continue
		}
		n := m + 1 + uint64(h.r.Intn(int(cur.size()-m)))
		at := pickFault()
		fired := h.doUpdateFault(hc, orc, in, mk(cur, m, n, "advance"), at, &oks)
		if fired == "" {
			continue
		}
		// the update failed: the witness holds (m, root) as before.  What extends THAT is acceptable,
		// whatever the failed candidate was: a fork that agrees with the held STH and not with the candidate
		// (same size as the candidate, and a smaller one), or the candidate again.
		var forks []*tree
		for _, t := range w.trees {
			if t != cur && m <= t.size() && n <= t.size() && bytes.Equal(t.root(m), hd.p.Root) && !bytes.Equal(t.root(n), cur.root(n)) {
				forks = append(forks, t)
			}
		}
		switch {
		case len(forks) > 0 && h.r.Intn(4) > 0:
			t := forks[h.r.Intn(len(forks))]
			nn := n
			if h.r.Intn(3) == 0 && n > m+1 {
				nn = m + 1 + uint64(h.r.Intn(int(n-m-1)))
			}
			hc.tags["storage-fault-then:fork-of-held"] = true
			h.doUpdateFault(hc, orc, in, mk(t, m, nn, "fork-of-held-after-fault"), "", &oks)
		default:
			hc.tags["storage-fault-then:same-candidate"] = true
			h.doUpdateFault(hc, orc, in, mk(cur, m, n, "same-candidate-after-fault"), "", &oks)
		}
	}
	op := &opT{kind: "getlogs", fault: "NoFault", desc: "getlogs"}
	s := step{op, in.exec(op, orc.submitted)}
	orc.onGetLogs(s)
	hc.steps = append(hc.steps, s)
	for _, s := range hc.steps {
		tagsOfStep(hc.tags, s)
	}
	hc.propOK, hc.note = orc.ok, orc.note
	h.emitHist(hc)
}

func (h *harness) faultCases(n int) {
	for i := 0; i < n && atomic.LoadInt32(&hangs) < 3; i++ {
		h.faultCase(i)
	}
}
