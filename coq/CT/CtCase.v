From Coq Require Import String NArith List Bool.
From V Require Import Base.Bytes Base.CaseLib TLS.TlsModel TLS.TlsCase gen.CtTypes CT.Rfc6962Spec CT.CtFuncs.
Import ListNotations.
Local Open Scope N_scope.

Inductive case :=
| CTyMarshal (t : ty) (v : val) (obs : res bytes)                  (* tls.Marshal on a real wire type *)
| CTyParse (t : ty) (data : bytes) (obs : res (val * bytes))       (* tls.Unmarshal into a real wire type *)
| CSctInput (version ts etype : N) (body : val) (ext : bytes) (obs : res bytes)
| CSthInput (version ts size : N) (root : bytes) (obs : res bytes)
| CRawEntry (leaf extra : bytes) (obs : res (val * val * val))
| CToSct (version : N) (id : bytes) (ts : N) (ext : option bytes) (sig : bytes) (obs : res val)
| CToSth (size ts : N) (root sig : bytes) (obs : res (N * N * bytes * val))
| CComplete (t : ty) (data : bytes) (obs : res val)                (* a whole buffer decoded into a wire type: trailing data is an error *)
(* the independent RFC encoders against the implementation's bytes *)
| CRfcLeaf (ts : N) (e : entry) (ext : bytes) (obs : bytes)
| CRfcSctInput (ts : N) (e : entry) (ext : bytes) (obs : bytes)
| CRfcSthInput (ts size : N) (root : bytes) (obs : bytes).

(* error classes of the wrapper functions are not distinguished by the Go API (plain errors):
   compare Ok-ness and the Ok payload only *)
Definition okish {A} (eqb : A -> A -> bool) (a b : res A) : bool :=
  match a, b with
  | Ok x, Ok y => eqb x y
  | Ok _, _ | _, Ok _ => false
  | Panic, Panic | Hang, Hang => true
  | Panic, _ | _, Panic | Hang, _ | _, Hang => false
  | _, _ => true
  end.

Definition triple_eqb (a b : val * val * val) : bool :=
  val_eqb (fst (fst a)) (fst (fst b)) && val_eqb (snd (fst a)) (snd (fst b)) && val_eqb (snd a) (snd b).
Definition sth_eqb (a b : N * N * bytes * val) : bool :=
  N.eqb (fst (fst (fst a))) (fst (fst (fst b))) && N.eqb (snd (fst (fst a))) (snd (fst (fst b)))
  && bytes_eqb (snd (fst a)) (snd (fst b)) && val_eqb (snd a) (snd b).

Definition check (c : case) : bool :=
  match c with
  | CTyMarshal t v obs => res_eqb bytes_eqb (marshal t None v) obs
  | CTyParse t d obs => res_eqb (pair_eqb val_eqb bytes_eqb) (parse t None d) obs
  | CSctInput ver ts et body ext obs => okish bytes_eqb (serialize_sct_siginput ver ts et body ext) obs
  | CSthInput ver ts sz root obs => okish bytes_eqb (serialize_sth_siginput ver ts sz root) obs
  | CRawEntry l x obs => okish triple_eqb (raw_log_entry_from_leaf l x) obs
  | CToSct ver id ts ext sig obs => okish val_eqb (to_sct ver id ts ext sig) obs
  | CToSth sz ts root sig obs => okish sth_eqb (to_sth sz ts root sig) obs
  | CComplete t d obs => okish val_eqb (complete t d) obs
  | CRfcLeaf ts e ext obs => bytes_eqb (enc_leaf ts e ext) obs
  | CRfcSctInput ts e ext obs => bytes_eqb (enc_sct_siginput ts e ext) obs
  | CRfcSthInput ts sz root obs => bytes_eqb (enc_sth_siginput ts sz root) obs
  end.

Definition explain (c : case) :=
  match c with
  | CTyMarshal t v _ => (Some (marshal t None v), None, None)
  | CTyParse t d _ => (None, Some (parse t None d), None)
  | CSctInput ver ts et body ext _ => (Some (serialize_sct_siginput ver ts et body ext), None, None)
  | CSthInput ver ts sz root _ => (Some (serialize_sth_siginput ver ts sz root), None, None)
  | CRawEntry l x _ => (None, None, Some (raw_log_entry_from_leaf l x))
  | CToSct ver id ts ext sig _ => (match to_sct ver id ts ext sig with Ok _ => Some (Ok []) | _ => Some ErrStruct end, None, None)
  | CToSth sz ts root sig _ => (match to_sth sz ts root sig with Ok _ => Some (Ok []) | _ => Some ErrStruct end, None, None)
  | CComplete t d _ => (match complete t d with Ok _ => Some (Ok []) | _ => Some ErrStruct end, None, None)
  | CRfcLeaf ts e ext _ => (Some (Ok (enc_leaf ts e ext)), None, None)
  | CRfcSctInput ts e ext _ => (Some (Ok (enc_sct_siginput ts e ext)), None, None)
  | CRfcSthInput ts sz root _ => (Some (Ok (enc_sth_siginput ts sz root)), None, None)
  end.
