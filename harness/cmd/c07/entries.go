package main

// Second part of the C07 harness: the property's last sentence.  Real submissions are made through
// add-chain / add-pre-chain to a default-mode instance and to an instance with external issuance
// chain storage; every stored entry is then read back through get-entries and get-entry-and-proof
// (HTTP handlers) and through the real client (client.LogClient.GetRawEntries / GetEntries), and
// decoded with ct.LogEntryFromLeaf.  Certificates with tolerated quirks (non-fatal parse errors)
// are part of the population.

import (
	"bytes"
	"context"
	"crypto/sha256"
	"encoding/asn1"
	"encoding/json"
	"errors"
	"fmt"
	"io"
	"math/rand"
	"net/http"
	"net/http/httptest"
	"sync"
	"time"

	ct "github.com/google/certificate-transparency-go"
	"github.com/google/certificate-transparency-go/client"
	"github.com/google/certificate-transparency-go/jsonclient"
	"github.com/google/certificate-transparency-go/trillian/ctfe/cache"
	"github.com/google/certificate-transparency-go/x509"
	"github.com/google/certificate-transparency-go/x509/pkix"
	"github.com/google/trillian"
	"github.com/google/trillian/types"

	"verif/harness/ctfeenv"
	"verif/harness/lib"
	"verif/harness/pki"
)

// backendLog stores what QueueLeaf sends and serves it back.
type backendLog struct {
	mu     sync.Mutex
	leaves []*trillian.LogLeaf
}

func cloneLeaf(l *trillian.LogLeaf) *trillian.LogLeaf {
	return &trillian.LogLeaf{LeafValue: append([]byte{}, l.LeafValue...), ExtraData: append([]byte{}, l.ExtraData...), LeafIndex: l.LeafIndex, LeafIdentityHash: l.LeafIdentityHash}
}

func (l *backendLog) wire(b *ctfeenv.Backend) {
	root := func() *trillian.SignedLogRoot {
		rb, _ := (&types.LogRootV1{TreeSize: uint64(len(l.leaves)), RootHash: make([]byte, 32), TimestampNanos: 1}).MarshalBinary()
		return &trillian.SignedLogRoot{LogRoot: rb}
	}
	b.QueueLeafFn = func(_ context.Context, req *trillian.QueueLeafRequest) (*trillian.QueueLeafResponse, error) {
		l.mu.Lock()
		defer l.mu.Unlock()
		lf := &trillian.LogLeaf{LeafValue: req.Leaf.LeafValue, ExtraData: req.Leaf.ExtraData, LeafIdentityHash: req.Leaf.LeafIdentityHash, LeafIndex: int64(len(l.leaves))}
		l.leaves = append(l.leaves, lf)
		return &trillian.QueueLeafResponse{QueuedLeaf: &trillian.QueuedLogLeaf{Leaf: cloneLeaf(lf)}}, nil
	}
	b.GetLeavesByRangeFn = func(_ context.Context, req *trillian.GetLeavesByRangeRequest) (*trillian.GetLeavesByRangeResponse, error) {
		l.mu.Lock()
		defer l.mu.Unlock()
		rsp := &trillian.GetLeavesByRangeResponse{SignedLogRoot: root()}
		for i := req.StartIndex; i < req.StartIndex+req.Count && i < int64(len(l.leaves)); i++ {
			rsp.Leaves = append(rsp.Leaves, cloneLeaf(l.leaves[i]))
		}
		return rsp, nil
	}
	b.GetEntryAndProofFn = func(_ context.Context, req *trillian.GetEntryAndProofRequest) (*trillian.GetEntryAndProofResponse, error) {
		l.mu.Lock()
		defer l.mu.Unlock()
		rsp := &trillian.GetEntryAndProofResponse{SignedLogRoot: root()}
		if req.LeafIndex < int64(len(l.leaves)) {
			rsp.Leaf = cloneLeaf(l.leaves[req.LeafIndex])
			rsp.Proof = &trillian.Proof{Hashes: [][]byte{make([]byte, 32)}}
		}
		return rsp, nil
	}
}

// chainStore is an in-memory IssuanceChainStorage.
type chainStore struct {
	mu sync.Mutex
	m  map[string][]byte
}

func (s *chainStore) FindByKey(_ context.Context, key []byte) ([]byte, error) {
	s.mu.Lock()
	defer s.mu.Unlock()
	v, ok := s.m[string(key)]
	if !ok {
		return nil, errors.New("issuance chain not found")
	}
	return v, nil
}

func (s *chainStore) Add(_ context.Context, key, chain []byte) error {
	s.mu.Lock()
	defer s.mu.Unlock()
	if _, ok := s.m[string(key)]; !ok {
		s.m[string(key)] = append([]byte{}, chain...)
	}
	return nil
}

// handlerRT lets the real client talk to the instance's handlers.
type handlerRT struct{ env *ctfeenv.Env }

func (t handlerRT) RoundTrip(req *http.Request) (*http.Response, error) {
	var body []byte
	if req.Body != nil {
		body, _ = io.ReadAll(req.Body)
		req.Body.Close()
	}
	w := httptest.NewRecorder()
	if h, ok := t.env.Inst.Handlers[req.URL.Path]; ok {
		h.ServeHTTP(w, httptest.NewRequest(req.Method, req.URL.RequestURI(), bytes.NewReader(body)))
	} else {
		w.WriteHeader(http.StatusNotFound)
	}
	res := w.Result()
	res.Request = req
	return res, nil
}

type submitted struct {
	precert bool
	quirk   string
	leaf    []byte   // the submitted certificate / precertificate
	rest    [][]byte // the validated chain after it, root included
	issuer  []byte   // SubjectPublicKeyInfo of the direct issuer
	ms      uint64   // the log's clock at submission, in milliseconds
}

// quirks are extensions that the lenient parser accepts with a NON-fatal error (tolerated quirks of
// real-world certificates).  The candidates are probed at start-up against the parser itself; only
// those it classifies as non-fatal are used.
type quirk struct {
	name  string
	ext   pkix.Extension
	noSAN bool
}

func quirkCandidates() []quirk {
	ip5, _ := asn1.Marshal([]asn1.RawValue{{Class: 2, Tag: 7, Bytes: []byte{10, 0, 0, 1, 9}}})
	return []quirk{
		{"san-ip-5-bytes", pkix.Extension{Id: []int{2, 5, 29, 17}, Value: ip5}, true},
		{"empty-aia", pkix.Extension{Id: []int{1, 3, 6, 1, 5, 5, 7, 1, 1}, Value: []byte{0x30, 0x00}}, false},
		{"empty-eku", pkix.Extension{Id: []int{2, 5, 29, 37}, Value: []byte{0x30, 0x00}}, false},
		{"malformed-sct-list", pkix.Extension{Id: []int{1, 3, 6, 1, 4, 1, 11129, 2, 4, 2}, Value: []byte{0x04, 0x03, 0x00, 0x01, 0xff}}, false},
		{"empty-crl-dp", pkix.Extension{Id: []int{2, 5, 29, 31}, Value: []byte{0x30, 0x00}}, false},
		{"bad-policy", pkix.Extension{Id: []int{2, 5, 29, 32}, Value: []byte{0x30, 0x02, 0x30, 0x00}}, false},
	}
}

func usableQuirks(parent *pki.Entity) []quirk {
	var out []quirk
	for _, q := range quirkCandidates() {
		func() {
			defer func() { recover() }() // pki.Issue panics when the parser calls the result fatal
			o := pki.Opts{CN: "quirk probe", KeyIdx: 5, ExtraExt: []pkix.Extension{q.ext}}
			if !q.noSAN {
				o.DNSNames = []string{"probe.example"}
			}
			c := pki.Issue(o, parent)
			if _, err := x509.ParseCertificate(c.DER); err != nil && !x509.IsFatal(err) {
				out = append(out, q)
			}
		}()
	}
	return out
}

// inst is one log instance of the second part: its environment, what its backend stored, and a
// real client talking to its handlers.
type inst struct {
	name string
	env  *ctfeenv.Env
	log  *backendLog
	lc   *client.LogClient
}

func realEntries(w *lib.Writer, r *rand.Rand) {
	roots := []*pki.Entity{pki.Issue(pki.Opts{CN: "entries root A", IsCA: true, KeyIdx: 2}, nil), pki.Issue(pki.Opts{CN: "entries root B", IsCA: true, KeyKind: "rsa2048", KeyIdx: 1}, nil)}
	mk := func(name string, st *chainStore, c cache.IssuanceChainCache) *inst {
		o := ctfeenv.Options{Roots: roots, Dir: *lib.OutDir}
		if st != nil {
			o.ChainStorage, o.ChainCache = st, c
		}
		env, err := ctfeenv.New(o)
		if err != nil {
			panic(err)
		}
		lg := &backendLog{}
		lg.wire(env.Backend)
		lc, err := client.New("https://c07.test"+env.Prefix, &http.Client{Transport: handlerRT{env}}, jsonclient.Options{})
		if err != nil {
			panic(err)
		}
		return &inst{name, env, lg, lc}
	}
	noop, _ := cache.NewIssuanceChainCache(context.Background(), cache.NOOP, cache.Option{})
	lru, _ := cache.NewIssuanceChainCache(context.Background(), cache.LRU, cache.Option{Size: 2, TTL: time.Hour})
	insts := []*inst{mk("default", nil, nil), mk("external-noop", &chainStore{m: map[string][]byte{}}, noop), mk("external-lru2", &chainStore{m: map[string][]byte{}}, lru)}

	quirks := usableQuirks(roots[0])
	if len(quirks) < 2 {
		panic(fmt.Sprintf("c07: only %d certificate quirks are non-fatal for the parser", len(quirks)))
	}
	n := lib.Count(30, 400)
	var subs []submitted
	for i := 0; i < n; i++ {
		root := roots[r.Intn(len(roots))]
		parent := root
		var inter []*pki.Entity
		for d := r.Intn(3); d > 0; d-- {
			e := pki.Issue(pki.Opts{CN: fmt.Sprintf("entries int %d-%d", i, d), IsCA: true, KeyIdx: 1 + r.Intn(3)}, parent)
			inter = append([]*pki.Entity{e}, inter...)
			parent = e
		}
		s := submitted{precert: r.Intn(2) == 0, quirk: "none"}
		if i%8 == 3 {
			// a trusted root submitted on its own: the validated path is that one certificate, the
			// chain after it is EMPTY (extra_data is the encoding of an empty certificate_chain)
			s.precert, s.quirk = false, "root-alone"
			s.leaf, s.issuer = root.DER, root.Cert.RawSubjectPublicKeyInfo
			at := time.Date(2024, 5, 6, 7, 8, 9, 0, time.UTC).Add(time.Duration(i)*time.Hour + time.Duration(r.Intn(1e9)))
			s.ms = uint64(at.UnixNano() / 1e6)
			okAll := true
			for _, in := range insts {
				in.env.Clock.Set(at)
				if rec := in.env.AddChain(false, [][]byte{root.DER}); rec.Code != 200 {
					okAll = false
					w.Add(lib.Case{Coq: "CGet 1 false PBad PBad (RCode 0) 400 None []", Key: fmt.Sprintf("entries-add-%d-%s", i, in.name),
						Input:  map[string]interface{}{"op": "add", "instance": in.name, "quirk": s.quirk},
						Impl:   map[string]interface{}{"status": rec.Code, "body": rec.Body.String()},
						PropOK: false, Note: fmt.Sprintf("a trusted root submitted on its own was answered %d", rec.Code), Tags: []string{"entries:add-refused"}})
				}
			}
			if !okAll {
				return
			}
			subs = append(subs, s)
			continue
		}
		o := pki.Opts{CN: fmt.Sprintf("entry-%d.example", i), KeyIdx: 5, DNSNames: []string{fmt.Sprintf("entry-%d.example", i)}}
		if r.Intn(3) == 0 {
			q := quirks[r.Intn(len(quirks))]
			s.quirk = q.name
			o.ExtraExt = append(o.ExtraExt, q.ext)
			if q.noSAN {
				o.DNSNames = nil
			}
		}
		if s.precert {
			o.ExtraExt = append(o.ExtraExt, pki.PoisonExt())
		}
		leaf := pki.Issue(o, parent)
		if _, perr := x509.ParseCertificate(leaf.DER); (perr != nil) != (s.quirk != "none") || x509.IsFatal(perr) {
			panic(fmt.Sprintf("c07: quirk %s: parse error %v", s.quirk, perr))
		}
		s.leaf, s.issuer = leaf.DER, parent.Cert.RawSubjectPublicKeyInfo
		submit := [][]byte{leaf.DER}
		for _, e := range inter {
			submit = append(submit, e.DER)
			s.rest = append(s.rest, e.DER)
		}
		s.rest = append(s.rest, root.DER)
		if r.Intn(2) == 0 {
			submit = append(submit, root.DER)
		}
		at := time.Date(2024, 5, 6, 7, 8, 9, 0, time.UTC).Add(time.Duration(i)*time.Hour + time.Duration(r.Intn(1e9)))
		s.ms = uint64(at.UnixNano() / 1e6)
		for _, in := range insts {
			in.env.Clock.Set(at)
			if rec := in.env.AddChain(s.precert, submit); rec.Code != 200 {
				w.Add(lib.Case{Coq: "CGet 1 false PBad PBad (RCode 0) 400 None []", Key: fmt.Sprintf("entries-add-%d-%s", i, in.name),
					Input:  map[string]interface{}{"op": "add", "instance": in.name, "quirk": s.quirk, "precert": s.precert},
					Impl:   map[string]interface{}{"status": rec.Code, "body": rec.Body.String()},
					PropOK: false, Note: fmt.Sprintf("well-formed submission (quirk %s) answered %d", s.quirk, rec.Code), Tags: []string{"entries:add-refused"}})
				return
			}
		}
		subs = append(subs, s)
	}

	ctx := context.Background()
	for _, in := range insts {
		for i, s := range subs {
			fail := ""
			bad := func(f string, a ...interface{}) {
				if fail == "" {
					fail = fmt.Sprintf(f, a...)
				}
			}
			// get-entries and get-entry-and-proof through the handlers
			var ge ct.GetEntriesResponse
			rec := in.env.Get(ct.GetEntriesPath, fmt.Sprintf("start=%d&end=%d", i, i))
			if rec.Code != 200 || json.Unmarshal(rec.Body.Bytes(), &ge) != nil || len(ge.Entries) != 1 {
				bad("get-entries for index %d answered %d with %d entries", i, rec.Code, len(ge.Entries))
				ge.Entries = []ct.LeafEntry{{}}
			}
			le := ge.Entries[0]
			var gp ct.GetEntryAndProofResponse
			rec2 := in.env.Get(ct.GetEntryAndProofPath, fmt.Sprintf("leaf_index=%d&tree_size=%d", i, len(subs)))
			if rec2.Code != 200 || json.Unmarshal(rec2.Body.Bytes(), &gp) != nil {
				bad("get-entry-and-proof for index %d answered %d", i, rec2.Code)
			} else if !bytes.Equal(gp.LeafInput, le.LeafInput) || !bytes.Equal(gp.ExtraData, le.ExtraData) {
				bad("get-entry-and-proof and get-entries return different bytes for index %d (extra_data %d vs %d bytes)", i, len(gp.ExtraData), len(le.ExtraData))
			}
			// what the default instance stored is what every mode must serve
			def := insts[0].log.leaves[i]
			if !bytes.Equal(le.ExtraData, def.ExtraData) {
				bad("served extra_data differs from the stored chain for index %d", i)
			}
			if !bytes.Equal(le.LeafInput, in.log.leaves[i].LeafValue) {
				bad("served leaf_input differs from the stored leaf for index %d", i)
			}
			// decoding recovers the submission
			decTS, decCert, decIKH, decTBS := uint64(0), []byte(nil), []byte(nil), []byte(nil)
			var decChain [][]byte
			checkEntry := func(how string, e *ct.LogEntry, err error) {
				if e == nil || x509.IsFatal(err) {
					bad("%s: entry %d (quirk %s) does not decode: %v", how, i, s.quirk, err)
					return
				}
				if e.Index != int64(i) {
					bad("%s: entry %d decoded with index %d", how, i, e.Index)
				}
				te := e.Leaf.TimestampedEntry
				if te == nil {
					bad("%s: entry %d has no timestamped entry", how, i)
					return
				}
				wantType := ct.X509LogEntryType
				if s.precert {
					wantType = ct.PrecertLogEntryType
				}
				if te.EntryType != wantType {
					bad("%s: entry %d has type %v", how, i, te.EntryType)
				}
				if te.Timestamp != s.ms {
					bad("%s: entry %d has timestamp %d, submitted at %d", how, i, te.Timestamp, s.ms)
				}
				var got []byte
				if s.precert {
					if e.Precert == nil || e.X509Cert != nil {
						bad("%s: entry %d is not decoded as a precertificate", how, i)
						return
					}
					got = e.Precert.Submitted.Data
					ikh := sha256.Sum256(s.issuer)
					if !bytes.Equal(e.Precert.IssuerKeyHash[:], ikh[:]) {
						bad("%s: entry %d: issuer key hash is not that of the issuer", how, i)
					}
					decIKH, decTBS = e.Precert.IssuerKeyHash[:], e.Precert.TBSCertificate.Raw
					if e.Precert.TBSCertificate == nil {
						decTBS = nil
					}
				} else {
					if e.X509Cert == nil || e.Precert != nil {
						bad("%s: entry %d is not decoded as a certificate", how, i)
						return
					}
					got = e.X509Cert.Raw
				}
				if !bytes.Equal(got, s.leaf) {
					bad("%s: entry %d does not decode to the submitted certificate", how, i)
				}
				if len(e.Chain) != len(s.rest) {
					bad("%s: entry %d decodes to a chain of %d, submitted chain has %d", how, i, len(e.Chain), len(s.rest))
				} else {
					for k := range e.Chain {
						if !bytes.Equal(e.Chain[k].Data, s.rest[k]) {
							bad("%s: entry %d: chain element %d differs from the submitted one", how, i, k)
						}
					}
				}
				if how == "LogEntryFromLeaf" {
					decTS, decCert = te.Timestamp, got
					decChain = nil
					for _, c := range e.Chain {
						decChain = append(decChain, c.Data)
					}
				}
			}
			e1, err1 := ct.LogEntryFromLeaf(int64(i), &le)
			checkEntry("LogEntryFromLeaf", e1, err1)
			es, errC := in.lc.GetEntries(ctx, int64(i), int64(i))
			if errC != nil || len(es) != 1 {
				bad("client.GetEntries(%d,%d) (quirk %s): %d entries, error %v", i, i, s.quirk, len(es), errC)
			} else {
				checkEntry("client.GetEntries", &es[0], nil)
			}
			raw, errR := in.lc.GetRawEntries(ctx, int64(i), int64(i))
			if errR != nil || len(raw.Entries) != 1 || !bytes.Equal(raw.Entries[0].LeafInput, le.LeafInput) || !bytes.Equal(raw.Entries[0].ExtraData, le.ExtraData) {
				bad("client.GetRawEntries(%d,%d) differs from the handler's answer: %v", i, i, errR)
			}
			var chainCoq []string
			for _, c := range decChain {
				chainCoq = append(chainCoq, lib.Bytes(c))
			}
			w.Add(lib.Case{
				Coq: fmt.Sprintf("CEntry %s %s %s %s %s %s %s %s", lib.Bool(s.precert), lib.Nn(decTS), lib.Bytes(decCert), lib.Bytes(decIKH), lib.Bytes(decTBS),
					lib.List(chainCoq), lib.Bytes(le.LeafInput), lib.Bytes(le.ExtraData)),
				Input:  map[string]interface{}{"op": "read-entry", "instance": in.name, "index": i, "precert": s.precert, "quirk": s.quirk, "chain_len": len(s.rest)},
				Impl:   map[string]interface{}{"leaf_input_len": len(le.LeafInput), "extra_data_len": len(le.ExtraData), "entry_and_proof_status": rec2.Code},
				PropOK: fail == "", Note: fail,
				Tags: []string{"entries:" + in.name, "quirk:" + s.quirk, fmt.Sprintf("precert:%v", s.precert)},
			})
		}
		// a batch read through the client: every entry, in order
		all, errA := in.lc.GetEntries(ctx, 0, int64(len(subs)-1))
		ok := errA == nil && len(all) >= 1 && len(all) <= len(subs)
		for k := range all {
			if all[k].Index != int64(k) || all[k].Leaf.TimestampedEntry == nil || all[k].Leaf.TimestampedEntry.Timestamp != subs[k].ms {
				ok = false
			}
		}
		w.Add(lib.Case{Coq: "CGet 1 false PBad PBad (RCode 0) 400 None []", Key: "entries-batch-" + in.name,
			Input:  map[string]interface{}{"op": "read-batch", "instance": in.name, "n": len(subs)},
			Impl:   map[string]interface{}{"returned": len(all), "error": fmt.Sprint(errA)},
			PropOK: ok, Note: fmt.Sprintf("client.GetEntries(0,%d) returned %d entries, error %v, or entries out of place", len(subs)-1, len(all), errA), Tags: []string{"entries:batch:" + in.name}})
	}
	prefixRanges(w, r, insts, subs)
}
