(* C11 - the obligations over the GENERATED return-shape summaries (gen/X509Returns.v,
   re-translated from the Go source on every run by harness/gen/retshape).  Each is a proof
   over a finite generated object, closed by vm_compute, and lifted to all executions by the
   generic lemma WrapperShape.shape_sound. *)
From Coq Require Import List String Bool.
From V Require Import X509.WrapperShape X509.WrapperModel X509.WrapperProofs gen.X509Returns.
Import ListNotations.
Local Open Scope string_scope.

Definition ret_K : string -> option contract := lookup contracts.
Definition ret_X : string -> option contract := lookup externs.
(* classes an element of a NonFatalErrors list can have, from the arguments of every AddError *)
Definition ret_A : list ecls := nodup_ecls (added_classes ret_K ret_X added_errors).
Definition x509_exec := exec ret_X ret_A returns.

(* every return statement of every listed function has a shape its contract allows *)
Lemma returns_shape_ok : forallb (shape_ok ret_K ret_X ret_A) returns = true.
Proof. vm_compute. reflexivity. Qed.

(* whatever is put into a NonFatalErrors list is, on its own, a fatal-class error: this is
   what makes `return nil, nfe.Errors[0]` (ParsePKIXPublicKey, parseCertificateRequest) coherent *)
Lemma nfe_elements_fatal : ret_A = [EFatal].
Proof. vm_compute. reflexivity. Qed.

(* parsePublicKey's (nil, nil) arm is unreachable from ParsePKIXPublicKey *)
Lemma covers_ok : forallb cover_ok covers = true /\ covers <> [].
Proof. split; [vm_compute; reflexivity | discriminate]. Qed.

(* the exported entry points of the property, with coherent contracts *)
Definition entry_points : list string :=
  ["ParseCertificate"; "ParseTBSCertificate"; "ParseCertificates"; "ParseCertificateList";
   "ParseCertificateListDER"; "ParseCRL"; "ParseDERCRL"; "ParsePKIXPublicKey"; "ParsePKCS1PrivateKey";
   "ParsePKCS1PublicKey"; "ParsePKCS8PrivateKey"; "ParseECPrivateKey"; "ParseCertificateRequest"].
Lemma entry_points_listed :
  forallb (fun f => match ret_K f with Some k => coherent_contract k | None => false end
                    && existsb (fun r => String.eqb (r_fn r) f) returns) entry_points = true.
Proof. vm_compute. reflexivity. Qed.

Lemma returns_meet_contracts : forall d f oc, x509_exec d f oc -> holds ret_K f oc.
Proof. exact (shape_sound ret_K ret_X ret_A returns returns_shape_ok). Qed.

Lemma returns_coherent : forall d f oc, In f entry_points -> x509_exec d f oc -> coherent oc.
Proof.
  intros d f oc Hin Hex.
  pose proof entry_points_listed as Hl. rewrite forallb_forall in Hl. specialize (Hl f Hin).
  apply andb_true_iff in Hl. destruct Hl as [Hl _].
  destruct (ret_K f) as [k|] eqn:EK; [|discriminate].
  eapply (shape_coherent ret_K ret_X ret_A returns returns_shape_ok); eauto.
Qed.

(* the two ids whose fatality ParseCertificateListDER relies on when it returns (nil, &errs)
   straight after AddID *)
Definition fatal_of_id (id : string) : bool :=
  match find (fun p => String.eqb (fst p) id) error_ids with Some p => snd p | None => true end.
Lemma list_ids_fatal : fatal_of_id "ErrInvalidCertList" = true /\ fatal_of_id "ErrTrailingCertList" = true.
Proof. vm_compute. split; reflexivity. Qed.

(* T1 + model: if the abstract inner parser only produces classes that executions of
   parseCertificate can produce, the inner contract of the wrapper theorems holds *)
Lemma inner_contract_from_returns {St Ob E} (parse : St -> option Ob * err E) :
  (forall s, exists d, x509_exec d "parseCertificate" (cls (parse s))) ->
  forall s, meets KLenient (parse s).
Proof.
  intros H s. destruct (H s) as [d Hd]. apply returns_meet_contracts in Hd.
  destruct Hd as [k [Hk Hin]]. vm_compute in Hk. inversion Hk; subst k. exact Hin.
Qed.
