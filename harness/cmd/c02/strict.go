// Independent references of the direct oracle that look at the submitted BYTES (not at the fork's
// parse of them, not at the Coq model):
//
//   - "every certificate parses": a submitted byte string counts only if it is exactly one
//     certificate - one definite-length SEQUENCE that spans the whole string (framing decoded by hand)
//     and that crypto/x509 of the Go standard library parses (it refuses trailing data);
//   - "a NULL value": the two octets 05 00, compared with the value the standard library reads out of
//     the poison extension;
//   - "contains the submitted certificates unchanged and in order": the bytes of the path returned by
//     ValidateChain (oracle.go) and the bytes that reach the backend behind add-chain / add-pre-chain
//     (handedOn) are the submitted byte strings themselves.
package main

import (
	"bytes"
	stdx509 "crypto/x509"
	"encoding/hex"
	"fmt"

	"github.com/google/trillian"

	"verif/harness/ctfeenv"
)

// derNull is the DER encoding of NULL, written out.
var derNull = []byte{0x05, 0x00}

// oneTLV: b is exactly one definite-length TLV with identifier octet id (minimal length octets, as
// DER asks), nothing before, nothing after.
func oneTLV(b []byte, id byte) bool {
	if len(b) < 2 || b[0] != id {
		return false
	}
	l, hdr := int(b[1]), 2
	if l >= 0x80 {
		n := l & 0x7f
		if n == 0 || n > 4 || len(b) < 2+n {
			return false
		}
		l = 0
		for _, x := range b[2 : 2+n] {
			l = l<<8 | int(x)
		}
		if l < 0x80 || b[2] == 0 {
			return false
		}
		hdr = 2 + n
	}
	return hdr+l == len(b)
}

var oneCache = map[string]bool{}

// oneCertificate: the byte string is exactly one certificate.
func oneCertificate(der []byte) bool {
	if v, ok := oneCache[string(der)]; ok {
		return v
	}
	v := oneTLV(der, 0x30)
	if v {
		_, err := stdx509.ParseCertificate(der)
		v = err == nil
	}
	oneCache[string(der)] = v
	return v
}

// stdPoison: the CT poison extensions (1.3.6.1.4.1.11129.2.4.3) the standard library reads out of der.
func stdPoison(der []byte) (crit []bool, vals [][]byte, ok bool) {
	c, err := stdx509.ParseCertificate(der)
	if err != nil {
		return nil, nil, false
	}
	for _, e := range c.Extensions {
		if oidT(e.Id).str() == oidPoisonT.str() {
			crit, vals = append(crit, e.Critical), append(vals, e.Value)
		}
	}
	return crit, vals, true
}

// stdPoisonClass: the oracle's classification of a certificate's poison extension.  When the standard
// library does not read the certificate at all (then it is not admissible either) the class falls
// back on the abstraction.
func stdPoisonClass(der []byte, a absCert) string {
	crit, vals, ok := stdPoison(der)
	if !ok {
		return poisonClassAbs(a)
	}
	if len(vals) == 0 {
		return "absent"
	}
	switch {
	case crit[0] && bytes.Equal(vals[0], derNull):
		return "critical-null"
	case crit[0]:
		return "critical-nonnull"
	}
	return "noncritical"
}

func stdPoisonHex(der []byte) interface{} {
	_, vals, ok := stdPoison(der)
	if !ok || len(vals) == 0 {
		return nil
	}
	return hex.EncodeToString(vals[0])
}

// entry: what the oracle knows about one submitted byte string.
type entry struct {
	one  bool   // exactly one certificate
	what string // for the Note key
}

func (H *hier) entries(c []int) []entry {
	out := make([]entry, len(c))
	for k, i := range c {
		if i < 0 {
			out[k] = entry{oneCertificate(H.junk[-i-1]), H.junkN[-i-1]}
		} else {
			out[k] = entry{H.u.abs[i].OneCert, "standard library refuses " + H.u.role[i]}
		}
	}
	return out
}

// addJunk: one more byte string that is not a certificate; the chain index that stands for it.
func (H *hier) addJunk(b []byte, what string) int {
	H.junk = append(H.junk, b)
	H.junkN = append(H.junkN, what)
	return -len(H.junk)
}

// asn1Cert: the TLS encoding of an ASN.1Cert (opaque<1..2^24-1>).
func asn1Cert(der []byte) []byte {
	n := len(der)
	return append([]byte{byte(n >> 16), byte(n >> 8), byte(n)}, der...)
}

// handedOn: after a 200, the leaf queued at the backend carries the submitted byte strings themselves:
// the first one in the Merkle leaf (certificates) or at the head of the extra data (precertificates),
// the others in the extra data, one after the other in the order given.  "" = it does.
func handedOn(status int, calls []ctfeenv.Call, ders [][]byte) string {
	if status != 200 || len(ders) == 0 {
		return ""
	}
	var leaf *trillian.LogLeaf
	n := 0
	for _, c := range calls {
		if q, ok := c.Req.(*trillian.QueueLeafRequest); ok && c.Method == "QueueLeaf" {
			leaf = q.Leaf
			n++
		}
	}
	if n != 1 || leaf == nil {
		return fmt.Sprintf("queued=%d", n)
	}
	extra, off := leaf.ExtraData, 0
	first := asn1Cert(ders[0])
	if bytes.HasPrefix(extra, first) {
		off = len(first)
	} else if !bytes.Contains(leaf.LeafValue, first) {
		return fmt.Sprintf("entry 0/%d not handed on unchanged", len(ders))
	}
	for k := 1; k < len(ders); k++ {
		e := asn1Cert(ders[k])
		i := bytes.Index(extra[off:], e)
		if i != 0 && !(k == 1 && i == 3) {
			return fmt.Sprintf("entry %d/%d not handed on unchanged", k, len(ders))
		}
		off += i + len(e)
	}
	return ""
}
