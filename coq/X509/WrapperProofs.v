(* C11 - lemmas about the wrapper model: coherence of every wrapper GIVEN the contract of
   what it wraps, totality of the ParseCertificates loop, the IsFatal classification. *)
From Coq Require Import List Bool NArith String Lia.
From V Require Import X509.WrapperShape X509.WrapperModel.
Import ListNotations.
Local Open Scope list_scope.

(* the class of a returned pair, in the vocabulary of the return-shape summaries *)
Definition ecls_of {E} (e : err E) : ecls :=
  match e with
  | ErrNil => ENil
  | ErrNfe _ => ENfe
  | ErrErrs ids => if existsb snd ids then EFatal else EErrsNF
  | ErrOther _ => EFatal
  end.
Definition ocls_of {T} (o : option T) : ocls := match o with Some _ => ONonNil | None => ONil end.
Definition cls {T E} (r : option T * err E) : outcome := (ocls_of (fst r), ecls_of (snd r)).
Definition meets {T E} (k : contract) (r : option T * err E) : Prop := In (cls r) (allowed k).

Lemma is_fatal_ecls_of {E} (e : err E) : is_fatal (ecls_of e) = is_fatal_err E e.
Proof. destruct e; simpl; try reflexivity. destruct (existsb snd ids); reflexivity. Qed.

Lemma coherent_pair_cls {T E} (r : option T * err E) : coherent_pair E r <-> coherent (cls r).
Proof.
  destruct r as [o e]. unfold coherent_pair, coherent, cls. simpl. rewrite is_fatal_ecls_of.
  destruct o; simpl; split; intro H.
  - left. split; [reflexivity | exact H].
  - destruct H as [[_ H] | [H _]]; [exact H | discriminate].
  - right. split; [reflexivity | exact H].
  - destruct H as [[H _] | [_ H]]; [discriminate | exact H].
Qed.

Lemma meets_coherent {T E} k (r : option T * err E) :
  coherent_contract k = true -> meets k r -> coherent_pair E r.
Proof. intros Hk H. apply coherent_pair_cls. eapply allowed_coherent; eauto. Qed.

Ltac inv_allowed H :=
  unfold meets, cls in H; simpl in H;
  repeat (destruct H as [H | H]; [inversion H; clear H | ]); try (destruct H).
(* H : In (a class pair) (allowed k) is impossible *)
Ltac bad H :=
  exfalso; unfold meets, cls in H; simpl in H;
  repeat (destruct H as [H | H]; [discriminate H | ]); exact H.

Section Coherence.
  Variable B : Type.
  Variable is_empty : B -> bool.
  Variable measure : B -> nat.
  Variables St Ob E : Type.
  Variable unm : bool -> B -> ures B St E.
  Variable parse : St -> option Ob * err E.
  Variable e_trailing : E.

  Notation parse_single := (parse_single B is_empty St Ob E unm parse e_trailing).
  Notation parse_many := (parse_many B is_empty measure St Ob E unm parse).

  Lemma finish_some {T} (o : T) nfe : meets KLenient (finish E (Some o) nfe).
  Proof. unfold finish, meets, cls. destruct nfe; simpl; auto. Qed.

  Lemma after_parse_lenient nfe r : meets KLenient r -> meets KLenient (after_parse Ob E nfe r).
  Proof.
    destruct r as [o e]. intro H. unfold after_parse. simpl.
    destruct e as [|es|ids|e0].
    - destruct o as [o|]; [apply finish_some | bad H].
    - destruct o as [o|]; [apply finish_some | bad H].
    - destruct o as [o|]; [|exact H].
      unfold meets, cls in H. simpl in H. destruct (existsb snd ids); bad H.
    - unfold meets, cls. simpl. auto.
  Qed.

  (* ParseCertificate / ParseTBSCertificate *)
  Theorem parse_single_lenient :
    (forall s, meets KLenient (parse s)) -> forall b, meets KLenient (parse_single b).
  Proof.
    intros Hin b. unfold WrapperModel.parse_single.
    destruct (strict_then_lax B St E unm b) as [[[s rest] nfe] | le].
    - destruct (negb (is_empty rest)).
      + unfold meets, cls. simpl. auto.
      + apply after_parse_lenient. apply Hin.
    - unfold meets, cls. simpl. auto.
  Qed.

  (* the first loop of ParseCertificates finishes: every successful Unmarshal consumes input *)
  Hypothesis unm_consumes : forall lax b s rest, unm lax b = UOk s rest -> measure rest < measure b.

  Lemma stl_consumes b s rest es :
    strict_then_lax B St E unm b = inl (s, rest, es) -> measure rest < measure b.
  Proof.
    unfold strict_then_lax, strict_then_lax_gen. destruct (unm false b) eqn:E1.
    - intro H. inversion H; subst. eapply unm_consumes; eauto.
    - destruct (unm true b) eqn:E2; intro H; inversion H; subst. eapply unm_consumes; eauto.
  Qed.

  Lemma unmarshal_all_total f b :
    measure b < f -> unmarshal_all_gen B is_empty St E unm (fun x => x) f b <> None.
  Proof.
    revert b. induction f as [|f IH]; intros b Hlt; [lia|].
    simpl. destruct (is_empty b); [discriminate|].
    fold (strict_then_lax B St E unm b).
    destruct (strict_then_lax B St E unm b) as [[[s rest] es] | le] eqn:Es; [|discriminate].
    apply stl_consumes in Es. specialize (IH rest ltac:(lia)).
    destruct (unmarshal_all_gen B is_empty St E unm (fun x => x) f rest) as [[[ss es'] | le] |]; congruence.
  Qed.

  Theorem parse_many_total b : parse_many b <> WHang.
  Proof.
    unfold WrapperModel.parse_many, parse_many_gen.
    pose proof (unmarshal_all_total (S (measure b)) b ltac:(lia)) as H.
    destruct (unmarshal_all_gen B is_empty St E unm (fun x => x) (S (measure b)) b) as [[[ss es] | le] |];
      [| discriminate | congruence].
    destruct (parse_all St Ob E parse ss) as [[os pes] | e]; discriminate.
  Qed.

  Lemma parse_all_lenient ss :
    (forall s, meets KLenient (parse s)) ->
    match parse_all St Ob E parse ss with
    | inl (os, _) => Forall (fun o => o <> None) os /\ List.length os = List.length ss
    | inr e => is_fatal_err E e = true
    end.
  Proof.
    intro Hin. induction ss as [|s ss IH]; simpl; [split; [constructor | reflexivity]|].
    specialize (Hin s). destruct (parse s) as [o e]. simpl.
    destruct e as [|pes|ids|e0]; simpl.
    - destruct (parse_all St Ob E parse ss) as [[os es] | e']; [|exact IH].
      destruct IH as [IH1 IH2]. split; [constructor; [|exact IH1] | simpl; congruence].
      destruct o; [discriminate | inv_allowed Hin].
    - destruct (parse_all St Ob E parse ss) as [[os es] | e']; [|exact IH].
      destruct IH as [IH1 IH2]. split; [constructor; [|exact IH1] | simpl; congruence].
      destruct o; [discriminate | inv_allowed Hin].
    - unfold meets, cls in Hin. simpl in Hin. destruct (existsb snd ids); [reflexivity|].
      destruct o; simpl in Hin; repeat (destruct Hin as [Hin|Hin]; [inversion Hin|]); destruct Hin.
    - reflexivity.
  Qed.

  (* ParseCertificates: (slice, nil | NonFatalErrors) with every entry non-nil, or (nil, fatal) *)
  Theorem parse_many_lenient :
    (forall s, meets KLenient (parse s)) ->
    forall b, match parse_many b with
              | WHang => False
              | WRet o e => meets KLenient (o, e) /\ (forall os, o = Some os -> Forall (fun x => x <> None) os)
              end.
  Proof.
    intros Hin b. pose proof (parse_many_total b) as Ht.
    unfold WrapperModel.parse_many, parse_many_gen in *.
    destruct (unmarshal_all_gen B is_empty St E unm (fun x => x) (S (measure b)) b) as [[[ss es] | le] |];
      [| | congruence].
    - pose proof (parse_all_lenient ss Hin) as Hp.
      destruct (parse_all St Ob E parse ss) as [[os pes] | e].
      + destruct Hp as [Hp _]. split.
        * unfold finish. destruct (es ++ pes); unfold meets, cls; simpl; auto.
        * intros os' Ho. unfold finish in Ho. destruct (WrapperModel.nonempty (es ++ pes)); simpl in Ho; inversion Ho; subst; exact Hp.
      + split; [|discriminate]. unfold meets, cls. simpl.
        rewrite <- is_fatal_ecls_of in Hp. destruct (ecls_of e); simpl in *; try discriminate. auto.
    - split; [|discriminate]. unfold meets, cls. simpl. auto.
  Qed.

  (* strict-only entry points *)
  Variable e_trailing' : E.
  Theorem parse_strict_only_strict inner :
    (forall s, meets KStrict (inner s)) ->
    forall b, meets KStrict (parse_strict_only B is_empty St Ob E unm e_trailing' inner b).
  Proof.
    intros Hin b. unfold parse_strict_only. destruct (unm false b) as [s rest | e].
    - destruct (negb (is_empty rest)); [unfold meets, cls; simpl; auto | apply Hin].
    - unfold meets, cls; simpl; auto.
  Qed.

  Theorem with_pem_same k pem_strip (f : B -> option Ob * err E) :
    (forall b, meets k (f b)) -> forall b, meets k (with_pem B Ob E pem_strip f b).
  Proof. intros H b. unfold with_pem. apply H. Qed.

  (* ParseCertificateListDER *)
  Variable fatal_id : string -> bool.
  Variable crack_list : St -> crack Ob E.

  Lemma existsb_snd_flagged ids : existsb snd (flagged fatal_id ids) = existsb fatal_id ids.
  Proof. induction ids as [|i ids IH]; simpl; [reflexivity | rewrite IH; reflexivity]. Qed.

  Lemma cls_errs {T} (o : option T) ids :
    cls (o, ErrErrs (E:=E) (flagged fatal_id ids)) = (ocls_of o, if existsb fatal_id ids then EFatal else EErrsNF).
  Proof. unfold cls. simpl. rewrite existsb_snd_flagged. reflexivity. Qed.

  Theorem parse_list_der_lenient :
    fatal_id "ErrInvalidCertList" = true -> fatal_id "ErrTrailingCertList" = true ->
    forall b, meets KLenientErrs (parse_list_der B is_empty St Ob E unm fatal_id crack_list b).
  Proof.
    intros H1 H2 b. unfold parse_list_der.
    destruct (unm false b) as [s rest | e].
    - destruct (negb (is_empty rest)).
      + unfold meets. rewrite cls_errs. simpl. rewrite H2. simpl. auto.
      + destruct (crack_list s) as [e | o ids]; [unfold meets, cls; simpl; auto|].
        destruct (existsb fatal_id ids) eqn:Ef.
        * unfold meets. rewrite cls_errs, Ef. simpl. auto.
        * destruct (WrapperModel.nonempty ids).
          -- unfold meets. rewrite cls_errs, Ef. simpl. auto.
          -- unfold meets, cls; simpl; auto.
    - unfold meets. rewrite cls_errs. simpl. rewrite H1. simpl. auto.
  Qed.

  (* ParsePKIXPublicKey *)
  Variable known_algo : St -> bool.
  Variable e_unknown_algo : E.
  Variable parse_key : St -> (option Ob * err E) * list E.
  Theorem parse_pkix_strict :
    (forall s, known_algo s = true -> meets KStrict (fst (parse_key s))) ->
    forall b, meets KStrict (parse_pkix B is_empty St Ob E unm e_trailing' known_algo e_unknown_algo parse_key b).
  Proof.
    intros Hin b. unfold parse_pkix. destruct (unm false b) as [s rest | e]; [|unfold meets, cls; simpl; auto].
    destruct (negb (is_empty rest)); [unfold meets, cls; simpl; auto|].
    destruct (known_algo s) eqn:Ek; simpl; [|unfold meets, cls; simpl; auto].
    specialize (Hin s Ek). destruct (parse_key s) as [[pub e] nfes]. simpl in Hin.
    destruct e as [|es|ids|e0].
    - destruct nfes; [exact Hin | unfold meets, cls; simpl; auto].
    - exact Hin.
    - exact Hin.
    - exact Hin.
  Qed.

  (* ParsePKCS8PrivateKey *)
  Variable wrap_err : E -> E.
  Variable p8_algo : St -> p8algo Ob.
  Variable e_p8 : E.
  Variables inner_rsa inner_ec : St -> option Ob * err E.

  Lemma rewrap_strict r : meets KStrict r -> meets KStrict (rewrap Ob E wrap_err e_p8 r).
  Proof.
    destruct r as [o e]. unfold rewrap. simpl. intro H.
    destruct e as [|es|ids|e0].
    - exact H.
    - unfold meets, cls; simpl; auto.
    - unfold meets, cls; simpl; auto.
    - unfold meets, cls; simpl; auto.
  Qed.

  Theorem parse_pkcs8_strict :
    (forall s, meets KStrict (inner_rsa s)) -> (forall s, meets KStrict (inner_ec s)) ->
    forall b, meets KStrict (parse_pkcs8 B St Ob E unm wrap_err p8_algo e_p8 inner_rsa inner_ec b).
  Proof.
    intros H1 H2 b. unfold parse_pkcs8. destruct (unm false b) as [s rest | e]; [|unfold meets, cls; simpl; auto].
    destruct (p8_algo s) as [| | ok k |]; try (apply rewrap_strict; auto); try (unfold meets, cls; simpl; auto; fail).
    destruct ok; unfold meets, cls; simpl; auto.
  Qed.
End Coherence.

(* ---- x509.IsFatal ---- *)
Definition ecls_of_go (e : goerr) : ecls :=
  match e with
  | GNil => ENil
  | GNfe _ => ENfe
  | GErrs None => EErrsNF
  | GErrs (Some fl) => if existsb (fun b => b) fl then EFatal else EErrsNF
  | GNfePtr | GOther => EFatal
  end.

Lemma go_is_fatal_class e : go_is_fatal e = is_fatal (ecls_of_go e).
Proof. destruct e as [| | |[fl|]|]; simpl; try reflexivity. destruct (existsb (fun b => b) fl); reflexivity. Qed.

Lemma go_is_fatal_spec e :
  go_is_fatal e = true <->
  (e = GOther \/ e = GNfePtr \/ exists fl, e = GErrs (Some fl) /\ In true fl).
Proof.
  split.
  - destruct e as [| | |[fl|]|]; simpl; intro H; try discriminate; auto.
    right. right. exists fl. split; [reflexivity|].
    apply existsb_exists in H. destruct H as [x [Hx Hb]]. subst. exact Hx.
  - intros [-> | [-> | [fl [-> Hin]]]]; simpl; auto.
    apply existsb_exists. exists true. auto.
Qed.
