package main

// extremeStream: instants far from the present.  A window bound and a NotAfter are instants of the
// proleptic calendar (a protobuf Timestamp and an X.509 GeneralizedTime both run from year 1 to year 9999;
// 9999-12-31T23:59:59Z is RFC 5280's "no well-defined expiration"), not 64-bit nanosecond counts: the
// other streams draw instants between 1995 and 2120 only, where every representation agrees.  Here the
// queried instant AND the bounds are taken from a pool that runs from year 1 to year 9999 and holds both
// edges of the int64-nanosecond range (1677-09-21T00:12:43.145224192Z and 2262-04-11T23:47:16.854775807Z,
// each with its 1 ns neighbour outside), whole centuries either side, and instants exactly 2^64 ns
// (about 584.5 years) before / after an ordinary one.  All four comparers are driven: ValidateChain with the
// window options, a log instance configured from a LogConfig, the log-list filter, and clients of one shard
// and of shard lists.  The oracle is written on time.Time comparisons (start <= t < limit as
// !t.Before(start) && t.Before(limit)); the Coq cases carry exact integers computed in math/big from Unix
// seconds and nanoseconds.
//
// The stream draws from the shared generator only after every other stream has run.

import (
	"context"
	"fmt"
	"math"
	mrand "math/rand"
	"sort"
	"time"

	"github.com/google/certificate-transparency-go/client"
	"github.com/google/certificate-transparency-go/client/configpb"
	"github.com/google/certificate-transparency-go/loglist3"
	"github.com/google/certificate-transparency-go/trillian/ctfe"
	ctfepb "github.com/google/certificate-transparency-go/trillian/ctfe/configpb"
	"github.com/google/certificate-transparency-go/x509"
	"github.com/google/trillian"
	"google.golang.org/protobuf/types/known/timestamppb"

	"verif/harness/ctfeenv"
	"verif/harness/lib"
	"verif/harness/pki"
)

// insideT is the window predicate on time.Time values only.
func insideT(t time.Time, lo, hi *time.Time) bool {
	return (lo == nil || !t.Before(*lo)) && (hi == nil || t.Before(*hi))
}

// plusWrap returns t moved by sign * 2^64 ns.
func plusWrap(t time.Time, sign int) time.Time {
	if sign > 0 {
		return t.Add(math.MaxInt64).Add(math.MaxInt64).Add(2)
	}
	return t.Add(math.MinInt64).Add(math.MinInt64)
}

func era(t time.Time) string {
	switch {
	case t.Before(time.Unix(0, math.MinInt64)):
		return "before-int64ns"
	case t.After(time.Unix(0, math.MaxInt64)):
		return "after-int64ns"
	}
	return "within-int64ns"
}

func extremeStream(w *lib.Writer, r *mrand.Rand) {
	d := func(y int, m time.Month, day, h, mi, s, n int) time.Time {
		return time.Date(y, m, day, h, mi, s, n, time.UTC)
	}
	minNs := d(1677, 9, 21, 0, 12, 43, 145224192)  // -2^63 ns
	maxNs := d(2262, 4, 11, 23, 47, 16, 854775807) // 2^63-1 ns
	if ns(minNs).String() != "-9223372036854775808" || ns(maxNs).String() != "9223372036854775807" {
		panic("harness broken: int64 nanosecond edges")
	}
	y2025, y2026 := d(2025, 1, 1, 0, 0, 0, 0), d(2026, 1, 1, 0, 0, 0, 0)
	mid2025 := d(2025, 7, 1, 12, 0, 0, 0)
	endOfTime := d(9999, 12, 31, 23, 59, 59, 0)
	// whole-second instants (a certificate can carry them)
	whole := []time.Time{d(1, 1, 1, 0, 0, 0, 0), d(1600, 1, 1, 0, 0, 0, 0), d(1677, 9, 21, 0, 12, 43, 0), d(1677, 9, 21, 0, 12, 44, 0),
		y2025, mid2025, d(2262, 4, 11, 23, 47, 16, 0), d(2262, 4, 11, 23, 47, 17, 0), d(2263, 1, 1, 0, 0, 0, 0),
		d(2300, 1, 1, 0, 0, 0, 0), d(2609, 7, 1, 0, 0, 0, 0), endOfTime,
		plusWrap(mid2025, 1).Truncate(time.Second), plusWrap(mid2025, -1).Truncate(time.Second),
		d(1+r.Intn(1600), time.Month(1+r.Intn(12)), 1+r.Intn(28), r.Intn(24), r.Intn(60), r.Intn(60), 0),
		d(2263+r.Intn(7736), time.Month(1+r.Intn(12)), 1+r.Intn(28), r.Intn(24), r.Intn(60), r.Intn(60), 0)}
	// sub-second ones (bounds and routed instants)
	all := append([]time.Time{minNs, minNs.Add(-1), maxNs, maxNs.Add(1), plusWrap(mid2025, 1), plusWrap(mid2025, -1), plusWrap(y2025, 1), plusWrap(y2026, 1).Add(-1),
		d(2263+r.Intn(7736), time.Month(1+r.Intn(12)), 1+r.Intn(28), r.Intn(24), r.Intn(60), r.Intn(60), r.Intn(1e9))}, whole...)
	for _, t := range all {
		if t.Year() < 1 || t.Year() > 9999 {
			panic(fmt.Sprintf("harness broken: instant %v outside years 1..9999", t))
		}
	}
	bounds := []*time.Time{nil, tp(d(1600, 1, 1, 0, 0, 0, 0)), tp(minNs), tp(y2025), tp(y2026), tp(maxNs.Add(1)), tp(d(2300, 1, 1, 0, 0, 0, 0)), tp(endOfTime)}
	epool := pool
	ders := map[int64][]byte{}
	certFor := func(t time.Time) []byte {
		if der, ok := ders[t.Unix()]; ok {
			return der
		}
		der := leaf(t)
		parsed, err := x509.ParseCertificate(der)
		if err != nil || !parsed.NotAfter.Equal(t) {
			panic(fmt.Sprintf("harness PKI broken: certificate with NotAfter %v: parsed %v, %v", t, parsed, err))
		}
		if _, err := ctfe.ValidateChain([][]byte{der, rootDER}, ctfe.NewCertValidationOpts(epool, time.Time{}, false, false, nil, nil, false, nil)); err != nil {
			panic(fmt.Sprintf("harness PKI broken: certificate with NotAfter %v refused without a window: %v", t, err))
		}
		ders[t.Unix()] = der
		return der
	}

	// ---- points: ValidateChain + a client of the single shard; every third through a configured instance ----
	no := 0
	for ti, t := range whole {
		der := certFor(t)
		for li, lo := range bounds {
			for hi_, hi := range bounds {
				ordered := lo == nil || hi == nil || lo.Before(*hi)
				if lo != nil && hi != nil && (!ordered && (ti+li+hi_)%4 != 0 || ordered && (ti+li+hi_)%3 != 0) { // every window with an open end, a third of the bounded ones, a quarter of the empty / inverted ones
					continue
				}
				no++
				want := insideT(t, lo, hi)
				_, err := ctfe.ValidateChain([][]byte{der, rootDER}, ctfe.NewCertValidationOpts(epool, time.Time{}, false, false, lo, hi, false, nil))
				ctfeOK := err == nil
				ok, note := ctfeOK == want, ""
				if !ok {
					note = fmt.Sprintf("a certificate with NotAfter=%s is admitted=%v under the window not_after_start=%v not_after_limit=%v (start <= NotAfter < limit: %v)", wj(&t), ctfeOK, wj(lo), wj(hi), want)
				}
				clientObs := "None"
				var clientJ interface{}
				tlc, cerr := client.NewTemporalLogClient(&configpb.TemporalLogConfig{Shard: []*configpb.LogShardConfig{shardCfg(lo, hi)}}, nil)
				if cerr == nil {
					_, ierr := tlc.IndexByDate(t)
					clientObs, clientJ = lib.Some(lib.Bool(ierr == nil)), ierr == nil
					if ok && (!ordered || (ierr == nil) != want) {
						ok, note = false, fmt.Sprintf("a client of the single shard [%v, %v) routes NotAfter=%s: %v (start <= NotAfter < limit: %v; the server with that window admits it: %v)", wj(lo), wj(hi), wj(&t), ierr == nil, want, ctfeOK)
					}
				} else if ok && ordered {
					ok, note = false, fmt.Sprintf("a client of the single ordered shard [%v, %v) cannot be built: %v", wj(lo), wj(hi), cerr)
				}
				w.Add(lib.Case{
					Coq:    fmt.Sprintf("CPoint %s %s %s %s", lib.ZBig(ns(t)), iv(lo, hi), lib.Bool(ctfeOK), clientObs),
					Key:    fmt.Sprintf("extreme-point-%d-%d-%d", ti, li, hi_),
					Input:  map[string]interface{}{"kind": "extreme-point", "t": jt(&t), "lo": jt(lo), "hi": jt(hi)},
					Impl:   map[string]interface{}{"ctfe_admits": ctfeOK, "client_routes": clientJ},
					PropOK: ok, Note: note, Tags: []string{"extreme-point:" + era(t), "extreme-point:" + where(t, lo, hi)},
				})
				if no%5 != 0 {
					continue
				}
				env, eerr := ctfeenv.New(ctfeenv.Options{Roots: []*pki.Entity{{Cert: rootCert, DER: rootDER, Key: rootKey}}, Dir: *lib.OutDir,
					Configure: func(c *ctfepb.LogConfig) {
						if lo != nil {
							c.NotAfterStart = timestamppb.New(*lo)
						}
						if hi != nil {
							c.NotAfterLimit = timestamppb.New(*hi)
						}
					}})
				inverted := lo != nil && hi != nil && hi.Before(*lo)
				cin := map[string]interface{}{"kind": "extreme-config-point", "t": jt(&t), "lo": jt(lo), "hi": jt(hi)}
				if eerr != nil {
					w.Add(lib.Case{
						Coq: fmt.Sprintf("CConfigPoint %s %s None", lib.ZBig(ns(t)), iv(lo, hi)), Key: fmt.Sprintf("extreme-config-%d-%d-%d", ti, li, hi_),
						Input: cin, Impl: map[string]interface{}{"config_error": eerr.Error()},
						PropOK: inverted, Note: "a configuration with an ordered NotAfter window was refused: " + eerr.Error(), Tags: []string{"extreme-config:refused"},
					})
					continue
				}
				env.Backend.QueueLeafFn = func(_ context.Context, req *trillian.QueueLeafRequest) (*trillian.QueueLeafResponse, error) {
					return &trillian.QueueLeafResponse{QueuedLeaf: &trillian.QueuedLogLeaf{Leaf: req.Leaf}}, nil
				}
				rec := env.AddChain(false, [][]byte{der, rootDER})
				admitted := rec.Code == 200
				cok, cnote := !inverted && admitted == want && (admitted || rec.Code == 400), ""
				if !cok {
					cnote = fmt.Sprintf("log configured with not_after_start=%v not_after_limit=%v answered %d to a certificate with NotAfter=%v (inside the window: %v)", jt(lo), jt(hi), rec.Code, wj(&t), want)
				}
				w.Add(lib.Case{
					Coq: fmt.Sprintf("CConfigPoint %s %s (Some %s)", lib.ZBig(ns(t)), iv(lo, hi), lib.Bool(admitted)), Key: fmt.Sprintf("extreme-config-%d-%d-%d", ti, li, hi_),
					Input: cin, Impl: map[string]interface{}{"status": rec.Code},
					PropOK: cok, Note: cnote, Tags: []string{"extreme-config:" + era(t), "extreme-config:" + where(t, lo, hi)},
				})
			}
		}
	}

	// ---- log list: every instant of the pool against intervals of the pool ----
	for ti, t := range all {
		for k := 0; k < 6; k++ {
			s, e := all[r.Intn(len(all))], all[r.Intn(len(all))]
			switch k {
			case 0:
				s, e = y2025, endOfTime
			case 1:
				s, e = d(1, 1, 1, 0, 0, 0, 0), maxNs.Add(1)
			case 2:
				s, e = y2025, y2026
			case 3:
				s = t
			case 4:
				e = t
			}
			ll := loglist3.LogList{Operators: []*loglist3.Operator{{Name: "op", Logs: []*loglist3.Log{
				{URL: "https://l/", TemporalInterval: &loglist3.TemporalInterval{StartInclusive: s, EndExclusive: e}}}}}}
			res := ll.TemporallyCompatible(&x509.Certificate{NotAfter: t})
			kept := len(res.Operators) == 1 && len(res.Operators[0].Logs) == 1
			want := insideT(t, &s, &e)
			note := ""
			if kept != want {
				note = fmt.Sprintf("the log-list filter keeps=%v a log with interval [%s, %s) for NotAfter=%s (start <= NotAfter < end: %v)", kept, wj(&s), wj(&e), wj(&t), want)
			}
			w.Add(lib.Case{
				Coq:    fmt.Sprintf("CLogList %s %s %s %s", lib.ZBig(ns(t)), lib.ZBig(ns(s)), lib.ZBig(ns(e)), lib.Bool(kept)),
				Key:    fmt.Sprintf("extreme-loglist-%d-%d", ti, k),
				Input:  map[string]interface{}{"kind": "extreme-loglist", "t": jt(&t), "start": jt(&s), "end": jt(&e)},
				Impl:   map[string]interface{}{"kept": kept},
				PropOK: kept == want, Note: note, Tags: []string{"extreme-loglist:" + era(t), fmt.Sprintf("extreme-loglist:kept=%v", kept)},
			})
		}
	}

	// ---- shard lists: k+1 bounds of k contiguous shards (nil = open end), every instant of the pool routed ----
	Y := func(y int) *time.Time { return tp(d(y, 1, 1, 0, 0, 0, 0)) }
	layouts := [][]*time.Time{
		{Y(2024), Y(2025), Y(2026), nil},
		{nil, Y(2024), Y(2025), Y(2026), nil},
		{nil, Y(2025), Y(2026)},
		{Y(2025), Y(2026)},
		{Y(2024), Y(2025), Y(2026), Y(2027)},
		{nil, Y(1600), Y(2025), Y(2300), tp(endOfTime)},
		{Y(1), Y(1600), tp(minNs), Y(2025), tp(maxNs), tp(maxNs.Add(1)), Y(2300), Y(2609), nil},
		{tp(maxNs.Add(1)), Y(2300), Y(9999)},
		{Y(2263), Y(5000), nil},
		{nil, Y(2), Y(1600), Y(1677)},
		{Y(1), tp(minNs.Add(-1)), tp(minNs)},
		{tp(plusWrap(y2025, 1)), tp(plusWrap(y2026, 1))},
	}
	for i := 0; i < 12; i++ { // random ascending subsets of the pool
		k := 2 + r.Intn(5)
		var bs []time.Time
		for _, j := range r.Perm(len(all))[:k] {
			bs = append(bs, all[j])
		}
		sort.Slice(bs, func(a, b int) bool { return bs[a].Before(bs[b]) })
		var lay []*time.Time
		for j := range bs {
			if j == 0 || bs[j].After(bs[j-1]) {
				lay = append(lay, tp(bs[j]))
			}
		}
		if r.Intn(2) == 0 {
			lay[0] = nil
		}
		if r.Intn(2) == 0 {
			lay[len(lay)-1] = nil
		}
		if len(lay) >= 2 {
			layouts = append(layouts, lay)
		}
	}
	for li, lay := range layouts {
		k := len(lay) - 1
		var shards []*configpb.LogShardConfig
		var ivs, sd []string
		var ji []interface{}
		for j := 0; j < k; j++ {
			shards = append(shards, shardCfg(lay[j], lay[j+1]))
			ivs = append(ivs, iv(lay[j], lay[j+1]))
			ji = append(ji, []interface{}{jt(lay[j]), jt(lay[j+1])})
			sd = append(sd, "["+wj(lay[j])+", "+wj(lay[j+1])+")")
		}
		ts := append([]time.Time{}, all...)
		for _, b := range lay {
			if b != nil {
				ts = append(ts, b.Add(-1), *b, b.Add(1))
				for _, sg := range []int{-1, 1} { // 2^64 ns away from the bound, if the calendar reaches that far
					if x := plusWrap(*b, sg); x.Year() >= 1 && x.Year() <= 9999 {
						ts = append(ts, x.Add(-1), x)
					}
				}
			}
		}
		var tz []string
		for _, t := range ts {
			tz = append(tz, lib.ZBig(ns(t)))
		}
		tlc, err := client.NewTemporalLogClient(&configpb.TemporalLogConfig{Shard: shards}, nil)
		key := fmt.Sprintf("extreme-shards-%d", li)
		input := map[string]interface{}{"kind": "extreme-shards", "shards": ji, "probes": len(ts)}
		if err != nil {
			w.Add(lib.Case{
				Coq: fmt.Sprintf("CShards %s %s None", lib.List(ivs), lib.List(tz)), Key: key, Input: input,
				Impl:   map[string]interface{}{"constructed": false, "error": err.Error()},
				PropOK: false, Note: fmt.Sprintf("a client of the contiguous, ascending shard list %v cannot be built: %v", sd, err), Tags: []string{"extreme-shards:refused"},
			})
			continue
		}
		ok, note := true, ""
		var xs []string
		var js []interface{}
		for _, t := range ts {
			idx, ierr := tlc.IndexByDate(t)
			want := -1
			for j := 0; j < k; j++ {
				if insideT(t, lay[j], lay[j+1]) {
					if want >= 0 {
						panic("harness broken: overlapping layout")
					}
					want = j
				}
			}
			got := -1
			if ierr == nil {
				got = idx
				xs = append(xs, lib.Some(lib.Nat(idx)))
				js = append(js, idx)
			} else {
				xs = append(xs, "None")
				js = append(js, nil)
			}
			if got != want && ok {
				ok = false
				note = fmt.Sprintf("a client of the shard list %v routes the instant %s to shard %d; start <= t < limit holds for shard %d (-1 = none)", sd, wj(&t), got, want)
				input["t"] = jt(&t)
			}
		}
		w.Add(lib.Case{
			Coq: fmt.Sprintf("CShards %s %s %s", lib.List(ivs), lib.List(tz), lib.Some(lib.List(xs))), Key: key, Input: input,
			Impl:   map[string]interface{}{"constructed": true, "routes": js},
			PropOK: ok, Note: note, Tags: []string{"extreme-shards:constructed", fmt.Sprintf("extreme-shards:open=%v/%v", lay[0] == nil, lay[k] == nil)},
		})
	}
}
