package main

// What accompanies a refusal.
//
// "A refused update leaves the stored STH unchanged and, when refused as stale or inconsistent, is
// answered with the currently held one."  A candidate is inconsistent with the held STH whenever the
// proof that comes with it does not prove the step - because a hash is wrong, or because it is not a
// proof for this step at all: no nodes, too few, too many, an honest proof for other sizes.  The
// feeder that is merely out of date sends exactly that (a proof from the size it last saw) and has
// to learn what the witness holds.
//
// This file has (a) the independent verdict "does this proof prove (m, root1) -> (n, root2)", from the
// hand-written RFC 9162 2.1.4.2 walk in forge.go and the closed formula for the length of a
// consistency proof, and (b) a focused stream that offers, for a set of held sizes > 0, proofs made of
// 32-byte nodes with every wrong count, through the direct API and through the HTTP server.

import (
	"bytes"
	"crypto/sha256"
	"fmt"
)

// proofProves: every node is hash-sized and the RFC 9162 walk chains the proof from root1 to both roots.
func proofProves(m, n uint64, pf [][]byte, root1, root2 []byte) bool {
	if m == 0 || m >= n {
		return false
	}
	for _, c := range pf {
		if len(c) != sha256.Size {
			return false
		}
	}
	fr, sr, frBad, srBad, ok := rfcRoots(m, n, pf, root1)
	return ok && !frBad && !srBad && bytes.Equal(fr, root1) && bytes.Equal(sr, root2)
}

// consLen: the number of nodes of the RFC 6962 consistency proof between sizes m and n
// (PROOF(m, D[n]) = SUBPROOF(m, D[n], true)); depends on the two sizes only.
func consLen(m, n uint64) int {
	var sub func(m, n uint64, b bool) int
	sub = func(m, n uint64, b bool) int {
		if m == n {
			if b {
				return 0
			}
			return 1
		}
		k := uint64(1)
		for k<<1 < n && k<<1 != 0 {
			k <<= 1
		}
		if m <= k {
			return sub(m, k, b) + 1
		}
		return sub(m-k, n-k, false) + 1
	}
	if m == 0 || m > n {
		return 0
	}
	return sub(m, n, true)
}

func proofShapeTag(w *world, m, n uint64, pf [][]byte) string {
	for _, c := range pf {
		if len(c) != sha256.Size {
			return "odd-sized-node"
		}
	}
	k := consLen(m, n)
	switch d := len(pf) - k; {
	case len(pf) == 0:
		return "count-0"
	case d == 0:
		return "right-count-wrong-hashes"
	case d == -1:
		return "count-k-1"
	case d == 1:
		return "count-k+1"
	case d < 0:
		return "count-fewer"
	}
	return "count-more"
}

func proofShape(w *world, m, n uint64, pf [][]byte) string {
	return fmt.Sprintf("%d proof nodes where a proof for %d -> %d has %d (%s)", len(pf), m, n, consLen(m, n), proofShapeTag(w, m, n, pf))
}

func httpNote(o *obsT) string {
	if o.kind == "http" {
		return fmt.Sprintf(" (HTTP %d)", o.status)
	}
	return ""
}

// ---- the focused stream ----

type badProof struct {
	label string
	pf    [][]byte
}

// wrongCountProofs: proofs of 32-byte nodes for the step m -> n of tree t whose NUMBER of nodes is wrong
// (and a few of the right number that belong to another step).
func (h *harness) wrongCountProofs(t *tree, m, n uint64) []badProof {
	good := t.cons(m, n)
	k := len(good)
	rnd := func() []byte { b := make([]byte, 32); h.r.Read(b); return b }
	cat := func(ps ...[][]byte) [][]byte {
		var out [][]byte
		for _, p := range ps {
			out = append(out, cloneProof(p)...)
		}
		return out
	}
	out := []badProof{{"count-0:nil", nil}, {"count-0:empty", [][]byte{}}}
	if k > 1 { // k-1 > 0 nodes
		out = append(out, badProof{"count-k-1:drop-first", cat(good[1:])}, badProof{"count-k-1:drop-last", cat(good[:k-1])})
		if k > 2 {
			out = append(out, badProof{"count-k-1:drop-middle", cat(good[:k/2], good[k/2+1:])})
		}
	}
	out = append(out,
		badProof{"count-k+1:append-random", cat(good, [][]byte{rnd()})},
		badProof{"count-k+1:prepend-random", cat([][]byte{rnd()}, good)},
		badProof{"count-k+1:append-zero-node", cat(good, [][]byte{make([]byte, 32)})},
		badProof{"count-k+1:repeat-last", cat(good, good[k-1:])},
		badProof{"count-k+1:append-new-root", cat(good, [][]byte{t.root(n)})},
		badProof{"count-k+1:prepend-held-root", cat([][]byte{t.root(m)}, good)},
		badProof{"count-2k:doubled", cat(good, good)},
		badProof{"count-k+7:long-tail", cat(good, [][]byte{rnd(), rnd(), rnd(), rnd(), rnd(), rnd(), rnd()})},
	)
	// honest proofs for other steps of the same tree (what an out-of-date feeder sends)
	other := func(a, b uint64) {
		if a == 0 || a > b || b > t.size() || (a == m && b == n) {
			return
		}
		p := t.cons(a, b)
		rel := "same-count"
		switch {
		case len(p) == 0:
			rel = "count-0"
		case len(p) < k:
			rel = "fewer"
		case len(p) > k:
			rel = "more"
		}
		out = append(out, badProof{fmt.Sprintf("other-sizes:%d->%d:%s", a, b, rel), cat(p)})
	}
	other(m-1, n)
	other(m+1, n)
	other(m, n-1)
	other(m, n+1)
	other(m-1, n+1)
	other(1, n)
	other(m, t.size())
	other(n, t.size())
	other(1, m)
	for i := 0; i < 2; i++ {
		a := 1 + uint64(h.r.Intn(int(t.size())))
		other(a, a+uint64(h.r.Intn(int(t.size()-a)+1)))
	}
	return out
}

// wrongCountCase: one witness, one log: first use at size m, then ONE signed successor n offered again
// and again, each time with another bad proof (a refusal leaves the row as it was, so every attempt meets
// the same held STH - which the GetSTH after each attempt confirms), at last with the honest proof.
func (h *harness) wrongCountCase(m, n uint64, viaHTTP bool) {
	t := newTree("T0", h.randLeaves(int(n)+2+h.r.Intn(3)))
	bad := h.wrongCountProofs(t, m, n)
	w := &world{trees: []*tree{t}, nonTree: map[string]string{}}
	w.logs = []*logT{newLog("A", true, false)}
	l := w.logs[0]
	mode := seqModes[h.r.Intn(len(seqModes))]
	in := h.newInstance(mode, w.logs, viaHTTP)
	defer in.close()
	orc := &oracle{w: w, in: in, held: map[string]*heldT{}, submitted: map[string]bool{}, ok: true, tags: map[string]bool{}, strict: h.strict}
	hc := &histCase{w: w, tab: newHashTab(), mode: mode, tags: orc.tags}
	if viaHTTP {
		hc.mode += "+http"
		hc.tags["via:http"] = true
	} else {
		hc.tags["via:direct"] = true
	}
	hc.tags["db:"+mode] = true
	hc.tags["stream:wrong-count-proof"] = true
	if m&(m-1) == 0 {
		hc.tags["wrong-count-held-size:power-of-two"] = true
	} else {
		hc.tags["wrong-count-held-size:other"] = true
	}
	ts := uint64(1000 + h.r.Intn(1000))
	honest := t.cons(m, n)
	spec := func(size uint64) sthSpec {
		ts++
		return sthSpec{size: size, root: t.root(size), ts: ts, signer: l, sigMode: "good", idMode: []string{"absent", "absent", "own"}[h.r.Intn(3)], idOwner: l,
			form: []string{"std", "std", "getsth", "spaced"}[h.r.Intn(4)]}
	}
	h.doUpdate(hc, orc, in, &opT{kind: "update", log: l, raw: h.buildSTH(spec(m)), fault: "NoFault",
		desc: fmt.Sprintf("wrong-count:first-use log=%s held=0 cand=%d", l.name, m)})
	cand := h.buildSTH(spec(n))
	for _, bp := range bad {
		h.doUpdate(hc, orc, in, &opT{kind: "update", log: l, raw: cand, proof: bp.pf, fault: "NoFault",
			desc: fmt.Sprintf("wrong-count:%s log=%s held=%d cand=%d proof=%d (honest proof: %d nodes)", bp.label, l.name, m, n, len(bp.pf), len(honest))})
	}
	h.doUpdate(hc, orc, in, &opT{kind: "update", log: l, raw: cand, proof: cloneProof(honest), fault: "NoFault",
		desc: fmt.Sprintf("wrong-count:honest-successor log=%s held=%d cand=%d proof=%d", l.name, m, n, len(honest))})
	op := &opT{kind: "getlogs", fault: "NoFault", desc: "getlogs"}
	s2 := step{op, in.exec(op, orc.submitted)}
	orc.onGetLogs(s2)
	hc.steps = append(hc.steps, s2)
	for _, s := range hc.steps {
		tagsOfStep(hc.tags, s)
	}
	hc.propOK, hc.note = orc.ok, orc.note
	hc.extraIn = map[string]interface{}{"held_size": m, "candidate_size": n, "honest_proof_len": len(honest)}
	h.emitHist(hc)
}

// held sizes > 0, a power of two and not; honest proofs of 1 .. 5 nodes
var wrongCountPairs = [][2]uint64{{1, 2}, {4, 8}, {3, 7}, {6, 13}, {7, 8}, {8, 21}}

func (h *harness) wrongCountCases(extra int) {
	for _, p := range wrongCountPairs {
		h.wrongCountCase(p[0], p[1], false)
		h.wrongCountCase(p[0], p[1], true)
	}
	for i := 0; i < extra; i++ {
		n := uint64(2 + h.r.Intn(60))
		m := uint64(1 + h.r.Intn(int(n-1)))
		h.wrongCountCase(m, n, h.r.Intn(2) == 0)
	}
}
