//go:build race

package main

// raceEnabled: the binary was built with -race (thorough tier); the concurrent-use streams
// (weights, roots refresh, log-list refresh against concurrent submissions) run only then.
const raceEnabled = true
