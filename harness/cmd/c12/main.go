// C12 correspondence harness; the code is in main_test.go (a `go test -c` binary, because the
// retrying endpoints are run under testing/synctest virtual time).
package main

func main() {}
