(* C05 model: signature verification (tls/signature.go, signatures.go, serialization.go,
   loglist3.NewFromSignedJSON).  Definitions only; proofs are in Sig/*Proofs.v.

   T1 (regenerated on every run, gen/Sig.v): generateHash's switch table [hash_table] and the
   four conditions of ct.NewSignatureVerifier [rsa_too_small rsa_refuse ec_off_curve ec_refuse].
   Hand-copied and tied by correspondence only: the SignatureAlgorithm codes 1/2/3 and the
   key-type assertions of tls.VerifySignature (type switches are outside gofrag's subset), the
   DER reader (asn1.Unmarshal into struct{R,S *big.Int}), the signature-input serializers.

   Oracles (Section variables): digest, rsa_ok, ecdsa_ok, dsa_ok, json_ok. *)
From Coq Require Import NArith ZArith List Bool Lia.
From Coq.Strings Require Import Byte.
From V Require Import Base.Bytes gen.Sig.
Import ListNotations.
Local Open Scope N_scope.

Inductive res (A : Type) : Type := Ok (a : A) | Err | Panic.
Arguments Ok {A} a.
Arguments Err {A}.
Arguments Panic {A}.

(* ------------------------------------------------------------------------------------------
   DER reader for exactly  SEQUENCE { INTEGER r, INTEGER s }  as the fork's asn1.Unmarshal
   (strict mode, no field parameters) reads it into  struct{ R, S *big.Int }.
   ------------------------------------------------------------------------------------------ *)

(* parseTagAndLength, long-form loop: for each length octet
     if ret.length >= 1<<23 -> "length too large";  ret.length = ret.length<<8 | b;
     if ret.length == 0 -> "superfluous leading zeros". *)
Fixpoint read_len (n : nat) (acc : N) (bs : bytes) : option (N * bytes) :=
  match n with
  | O => Some (acc, bs)
  | S n' =>
      match bs with
      | [] => None                                         (* truncated tag or length *)
      | b :: r =>
          if 2 ^ 23 <=? acc then None                      (* length too large *)
          else let acc' := acc * 256 + b2n b in
               if acc' =? 0 then None                      (* superfluous leading zeros *)
               else read_len n' acc' r
      end
  end.

(* the length octets (after the identifier octet) *)
Definition parse_length (bs : bytes) : option (N * bytes) :=
  match bs with
  | [] => None                                             (* truncated tag or length *)
  | b :: r =>
      let v := b2n b in
      if v <? 128 then Some (v, r)                         (* short form *)
      else let nb := v - 128 in
           if nb =? 0 then None                            (* indefinite length (not DER) *)
           else match read_len (N.to_nat nb) 0 r with
                | None => None
                | Some (l, r') => if l <? 128 then None    (* non-minimal length *)
                                  else Some (l, r')
                end
  end.

(* parseField for a value whose identifier octet must be exactly [e] (0x30 = universal,
   constructed, tag 16;  0x02 = universal, primitive, tag 2): header, tag match, "data
   truncated" check; returns (contents, bytes after the value).
   High-tag-number form (low five bits all ones): parseBase128Int either fails or yields a tag
   >= 31 ("non-minimal tag" otherwise); the tag then cannot equal 16 or 2, the field is not
   optional, so every path is an error; none of them indexes unguarded. *)
Definition parse_tlv (e : byte) (bs : bytes) : option (bytes * bytes) :=
  match bs with
  | [] => None                                             (* sequence truncated *)
  | t :: r =>
      if (b2n t) mod 32 =? 31 then None
      else match parse_length r with
           | None => None
           | Some (l, r') =>
               if negb (byte_eqb t e) then None            (* tags don't match *)
               else if N.of_nat (length r') <? l then None (* data truncated *)
               else Some (firstn (N.to_nat l) r', skipn (N.to_nat l) r')
           end
  end.

(* checkInteger (strict): non-empty; if longer than one octet the first nine bits are neither
   all zero nor all one *)
Definition int_minimal (c : bytes) : bool :=
  match c with
  | [] => false                                            (* empty integer *)
  | [_] => true
  | b0 :: b1 :: _ =>
      negb (((b2n b0 =? 0) && (b2n b1 <? 128)) || ((b2n b0 =? 255) && (128 <=? b2n b1)))
  end.

(* parseBigInt: big-endian two's complement (the Go code computes -(~bytes + 1) for a set top
   bit, which is the same integer) *)
Definition twos (c : bytes) : Z :=
  match c with
  | [] => 0%Z
  | b0 :: _ => if 128 <=? b2n b0 then (Z.of_N (be_dec c) - 256 ^ Z.of_nat (length c))%Z
               else Z.of_N (be_dec c)
  end.

Definition parse_int (c : bytes) : option Z := if int_minimal c then Some (twos c) else None.

(* asn1.Unmarshal(sig, &dsaSig): (R, S, rest).  Bytes left inside the SEQUENCE after S are
   skipped without being looked at ("We allow extra bytes at the end of the SEQUENCE");
   bytes after the SEQUENCE are returned as rest (the caller only logs them). *)
Definition der_rs (sig : bytes) : option (Z * Z * bytes) :=
  match parse_tlv x30 sig with
  | None => None
  | Some (body, rest) =>
      match parse_tlv x02 body with
      | None => None
      | Some (rc, b1) =>
          match parse_int rc with
          | None => None
          | Some r =>
              match parse_tlv x02 b1 with
              | None => None
              | Some (sc, _) =>
                  match parse_int sc with
                  | None => None
                  | Some s => Some (r, s, rest)
                  end
              end
          end
      end
  end.

(* ------------------------------------------------------------------------------------------
   Keys, DigitallySigned
   ------------------------------------------------------------------------------------------ *)

Inductive curve := P256 | P384 | P521 | CurveOther.
(* the integer the generated condition [ec_off_curve] compares with 256 *)
Definition curve_code (c : curve) : Z :=
  match c with P256 => 256 | P384 => 384 | P521 => 521 | CurveOther => 0 end%Z.

(* dynamic type of the crypto.PublicKey; [id] names the key for the primitive oracles.
   KOther: every other dynamic type, including nil and the non-pointer rsa.PublicKey /
   ecdsa.PublicKey values (the code asserts the pointer types). *)
Inductive key :=
| KRSA (id : N) (bits : Z)        (* *rsa.PublicKey, N.BitLen() *)
| KECDSA (id : N) (c : curve)     (* *ecdsa.PublicKey *)
| KDSA (id : N)                   (* *dsa.PublicKey *)
| KEd25519 (id : N)               (* ed25519.PublicKey *)
| KOther (id : N).

(* tls.DigitallySigned: algorithm codes are one byte each on the wire *)
Record dsig := { ds_hash : N; ds_alg : N; ds_sig : bytes }.

(* tls.SignatureAlgorithm constants (tls/types.go), hand-copied *)
Definition SIG_RSA : N := 1.
Definition SIG_DSA : N := 2.
Definition SIG_ECDSA : N := 3.
(* tls.SHA256 *)
Definition HASH_SHA256 : N := 4.

(* ------------------------------------------------------------------------------------------
   RFC 6962 signature inputs, written from the RFC text (s3.2, s3.5)
   ------------------------------------------------------------------------------------------ *)

(* opaque<lo..hi> with a w-byte length prefix *)
Definition opaque (w : nat) (lo hi : N) (d : bytes) : option bytes :=
  let n := N.of_nat (length d) in
  if (n <? lo) || (hi <? n) then None else Some (be_enc w n ++ d).

Inductive signed_entry :=
| SX509 (cert : bytes)                 (* ASN.1Cert: opaque<1..2^24-1> *)
| SPrecert (ikh : bytes) (tbs : bytes) (* PreCert: issuer_key_hash[32], TBSCertificate<1..2^24-1> *).

Definition enc_signed_entry (e : signed_entry) : option bytes :=
  match e with
  | SX509 c =>
      match opaque 3 1 (2 ^ 24 - 1) c with
      | Some cb => Some (be_enc 2 0 ++ cb)                 (* entry_type x509_entry(0) *)
      | None => None
      end
  | SPrecert ikh tbs =>
      if negb (N.of_nat (length ikh) =? 32) then None
      else match opaque 3 1 (2 ^ 24 - 1) tbs with
           | Some tb => Some (be_enc 2 1 ++ ikh ++ tb)     (* entry_type precert_entry(1) *)
           | None => None
           end
  end.

(* digitally-signed struct { Version sct_version; SignatureType signature_type =
   certificate_timestamp(0); uint64 timestamp; LogEntryType entry_type; select(entry_type)
   {...} signed_entry; CtExtensions extensions<0..2^16-1>; } *)
Definition enc_sct_siginput (version ts : N) (e : signed_entry) (ext : bytes) : option bytes :=
  if (256 <=? version) || (2 ^ 64 <=? ts) then None
  else match enc_signed_entry e, opaque 2 0 65535 ext with
       | Some eb, Some xb => Some (be_enc 1 version ++ be_enc 1 0 ++ be_enc 8 ts ++ eb ++ xb)
       | _, _ => None
       end.

(* digitally-signed struct { Version version; SignatureType signature_type = tree_hash(1);
   uint64 timestamp; uint64 tree_size; opaque sha256_root_hash[32]; } *)
Definition enc_sth_siginput (version ts size : N) (root : bytes) : option bytes :=
  if (256 <=? version) || (2 ^ 64 <=? ts) || (2 ^ 64 <=? size) || negb (N.of_nat (length root) =? 32) then None
  else Some (be_enc 1 version ++ be_enc 1 1 ++ be_enc 8 ts ++ be_enc 8 size ++ root).

(* ------------------------------------------------------------------------------------------
   The signed objects as the Go code sees them
   ------------------------------------------------------------------------------------------ *)

(* ct.SignedCertificateTimestamp.  LogID is carried but never signed. *)
Record sct := { sct_version : N; sct_logid : bytes; sct_ts : N; sct_ext : bytes; sct_sig : dsig }.

(* entry.Leaf.TimestampedEntry as SerializeSCTSignatureInput looks at it *)
Inductive tentry :=
| TNil                                     (* nil *TimestampedEntry *)
| TX509 (cert : option bytes)              (* EntryType 0; X509Entry pointer (None = nil) *)
| TPrecert (pc : option (bytes * bytes))   (* EntryType 1; PrecertEntry pointer: (IssuerKeyHash, TBSCertificate) *)
| TOther (ty : N).                         (* any other EntryType *)

(* ct.SignedTreeHead.  LogID is carried but never signed. *)
Record sth := { sth_version : N; sth_size : N; sth_ts : N; sth_root : bytes; sth_sig : dsig }.

Definition lift {A} (o : option A) : res A := match o with Some a => Ok a | None => Err end.

(* ct.SerializeSCTSignatureInput.  Evaluation order of the Go code: switch on the version;
   the composite literal dereferences entry.Leaf.TimestampedEntry (panic when nil); switch on
   the entry type; the precert arm dereferences PrecertEntry (panic when nil); a nil X509Entry
   reaches tls.Marshal, which reports "chosen field is nil". *)
Definition sct_siginput (s : sct) (e : tentry) : res bytes :=
  if negb (sct_version s =? 0) then Err
  else match e with
       | TNil => Panic
       | TX509 None => Err
       | TX509 (Some c) => lift (enc_sct_siginput (sct_version s) (sct_ts s) (SX509 c) (sct_ext s))
       | TPrecert None => Panic
       | TPrecert (Some (ikh, tbs)) => lift (enc_sct_siginput (sct_version s) (sct_ts s) (SPrecert ikh tbs) (sct_ext s))
       | TOther _ => Err
       end.

(* ct.SerializeSTHSignatureInput (the root-hash length test is dead code for a [32]byte, kept) *)
Definition sth_siginput (s : sth) : res bytes :=
  if negb (sth_version s =? 0) then Err
  else if negb (N.of_nat (length (sth_root s)) =? 32) then Err
  else lift (enc_sth_siginput (sth_version s) (sth_ts s) (sth_size s) (sth_root s)).

(* ct.NewSignatureVerifier, over the generated conditions *)
Definition new_verifier (allow : bool) (k : key) : res unit :=
  match k with
  | KRSA _ bits =>
      if rsa_too_small bits then (if rsa_refuse allow then Err else Ok tt) else Ok tt
  | KECDSA _ c =>
      if ec_off_curve (curve_code c) then (if ec_refuse allow then Err else Ok tt) else Ok tt
  | _ => Err
  end.

(* tls.CreateSignature(privKey, hashAlgo, data): dynamic type of privKey as the type switch sees
   it (the VALUE types rsa.PrivateKey / ecdsa.PrivateKey; pointers and everything else take the
   default arm).  generateHash runs first, over the generated table, so an undefined hash code is
   refused before the key is looked at.  [sign_ok]: rsa.SignPKCS1v15 / ecdsa.Sign + asn1.Marshal
   returned no error (an oracle, like the verification primitives).  The result is the
   (Algorithm.Hash, Algorithm.Signature) pair the returned DigitallySigned declares. *)
Inductive privkind := PrivRSA | PrivECDSA | PrivOther.
Definition create_signature (sign_ok : bool) (pk : privkind) (h : N) : res (N * N) :=
  match hash_table (Z.of_N h) with
  | None => Err                                     (* unsupported Algorithm.Hash *)
  | Some _ =>
      match pk with
      | PrivRSA => if sign_ok then Ok (h, SIG_RSA) else Err
      | PrivECDSA => if sign_ok then Ok (h, SIG_ECDSA) else Err
      | PrivOther => Err                            (* unsupported private key type *)
      end
  end.

(* external operations performed by NewFromSignedJSON, in order *)
Inductive jstep := JVerify | JParse.

(* ------------------------------------------------------------------------------------------
   Verifier OBJECTS used over a history of calls: ct.SignatureVerifier{PubKey} (from
   NewSignatureVerifier or a literal), ctutil.LogInfo{Verifier, lastSTH, ...}, and the package
   itself (tls.VerifySignature, ctutil.VerifySCT, loglist3.NewFromSignedJSON called again and
   again in one process).  The state the Go code keeps: the public key, fixed at construction,
   and - LogInfo only - the last STH, which no verification path reads.  There is no memo of
   earlier verdicts in the code; that absence is what the history cases measure.
   ------------------------------------------------------------------------------------------ *)
Record vstate := { vs_key : key; vs_last : option (N * bytes) (* lastSTH: tree size, root *) }.

Inductive vop :=
| OpVerify (data : bytes) (sg : dsig)   (* SignatureVerifier.VerifySignature / tls.VerifySignature with the object's key *)
| OpSct (s : sct) (e : tentry)          (* SignatureVerifier.VerifySCTSignature; LogInfo.VerifySCTSignature (which first
                                           overwrites the leaf's timestamp - not a signed field - with the SCT's);
                                           ctutil.VerifySCTWithVerifier after createLeaf *)
| OpSth (s : sth)                       (* SignatureVerifier.VerifySTHSignature *)
| OpUtil (s : sct) (e : tentry)         (* ctutil.VerifySCT(the object's key, chain, sct), non-compliant keys not allowed *)
| OpJson (data raw : bytes)             (* loglist3.NewFromSignedJSON(data, raw, the object's key) *)
| OpTouch (last : option (N * bytes)).  (* any operation that verifies no signature: LogInfo.SetSTH / LastSTH /
                                           VerifyInclusion*; leaves lastSTH as given; its result is not modelled *)

Section Oracles.
  (* crypto.Hash id (as produced by the generated table: MD5=2 .. SHA512=7) -> message -> digest *)
  Variable digest : Z -> bytes -> bytes.
  (* rsa.VerifyPKCS1v15(key, hashType, digest, sig) == nil *)
  Variable rsa_ok : key -> Z -> bytes -> bytes -> bool.
  (* ecdsa.Verify(key, digest, r, s),  dsa.Verify(key, digest, r, s) *)
  Variable ecdsa_ok : key -> bytes -> Z -> Z -> bool.
  Variable dsa_ok : key -> bytes -> Z -> Z -> bool.
  (* json.Unmarshal(data, &LogList) == nil *)
  Variable json_ok : bytes -> bool.

  (* generateHash: (digest, hashType) or error *)
  Definition generate_hash (h : N) (data : bytes) : option (bytes * Z) :=
    match hash_table (Z.of_N h) with
    | Some (_, ht) => Some (digest ht data, ht)
    | None => None
    end.

  (* the DSA / ECDSA arm after the key-type assertion *)
  Definition verify_rs (prim : bytes -> Z -> Z -> bool) (dg sig : bytes) : res unit :=
    match der_rs sig with
    | None => Err                                   (* failed to unmarshal *)
    | Some (r, s, _) =>                             (* rest is only logged *)
        if (r <=? 0)%Z || (s <=? 0)%Z then Err      (* zero or negative values *)
        else if prim dg r s then Ok tt else Err
    end.

  (* tls.VerifySignature *)
  Definition verify (k : key) (data : bytes) (sg : dsig) : res unit :=
    match generate_hash (ds_hash sg) data with
    | None => Err                                   (* unsupported Algorithm.Hash *)
    | Some (dg, ht) =>
        if ds_alg sg =? SIG_RSA then
          match k with
          | KRSA _ _ => if rsa_ok k ht dg (ds_sig sg) then Ok tt else Err
          | _ => Err                                (* cannot verify RSA signature with %T key *)
          end
        else if ds_alg sg =? SIG_DSA then
          match k with
          | KDSA _ => verify_rs (dsa_ok k) dg (ds_sig sg)
          | _ => Err
          end
        else if ds_alg sg =? SIG_ECDSA then
          match k with
          | KECDSA _ _ => verify_rs (ecdsa_ok k) dg (ds_sig sg)
          | _ => Err
          end
        else Err                                    (* unsupported Algorithm.Signature *)
    end.

  (* SignatureVerifier.VerifySCTSignature / VerifySTHSignature *)
  Definition verify_sct (k : key) (s : sct) (e : tentry) : res unit :=
    match sct_siginput s e with
    | Ok m => verify k m (sct_sig s)
    | Err => Err
    | Panic => Panic
    end.

  Definition verify_sth (k : key) (s : sth) : res unit :=
    match sth_siginput s with
    | Ok m => verify k m (sth_sig s)
    | Err => Err
    | Panic => Panic
    end.

  (* ctutil.VerifySCT after createLeaf has produced the leaf: NewSignatureVerifier, then
     VerifySCTSignature *)
  Definition util_verify_sct (allow : bool) (k : key) (s : sct) (e : tentry) : res unit :=
    match new_verifier allow k with
    | Ok _ => verify_sct k s e
    | Err => Err
    | Panic => Panic
    end.

  (* loglist3.NewFromSignedJSON: result and the trace of external operations *)
  Definition new_from_signed_json (k : key) (data raw : bytes) : res unit * list jstep :=
    let go (alg : N) :=
      match verify k data {| ds_hash := HASH_SHA256; ds_alg := alg; ds_sig := raw |} with
      | Ok _ => (if json_ok data then Ok tt else Err, [JVerify; JParse])
      | Err => (Err, [JVerify])
      | Panic => (Panic, [JVerify])
      end in
    match k with
    | KRSA _ _ => go SIG_RSA
    | KECDSA _ _ => go SIG_ECDSA
    | _ => (Err, [])                                (* unsupported public key type *)
    end.

  (* one call on an object holding key [k] *)
  Definition vcall (k : key) (op : vop) : option (res unit) :=
    match op with
    | OpVerify d sg => Some (verify k d sg)
    | OpSct s e => Some (verify_sct k s e)
    | OpSth s => Some (verify_sth k s)
    | OpUtil s e => Some (util_verify_sct false k s e)
    | OpJson d raw => Some (fst (new_from_signed_json k d raw))
    | OpTouch _ => None
    end.

  Definition vnext (st : vstate) (op : vop) : vstate :=
    match op with
    | OpTouch l => {| vs_key := vs_key st; vs_last := l |}
    | _ => st
    end.

  (* the answers of one object over a history of calls, in order *)
  Fixpoint run_history (st : vstate) (ops : list vop) : list (option (res unit)) :=
    match ops with
    | [] => []
    | op :: r => vcall (vs_key st) op :: run_history (vnext st op) r
    end.
End Oracles.
