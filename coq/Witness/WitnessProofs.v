(* C19 - lemmas about Witness/WitnessModel.v.  Everything is proved for EVERY sequence of
   atomic operations from any well-formed database, hence for every interleaving of any
   number of clients. *)
From Coq Require Import NArith List Bool Lia PeanoNat.
From Coq.Strings Require Import Byte.
From V Require Import Base.Bytes Merkle.Merkle Merkle.MerkleProofs Witness.WitnessModel.
Import ListNotations.
Local Open Scope N_scope.

Lemma bytes_eqb_refl a : bytes_eqb a a = true.
Proof. apply bytes_eqb_eq. reflexivity. Qed.

Lemma bytes_eqb_neq a b : bytes_eqb a b = false <-> a <> b.
Proof.
  split.
  - intros E Hab. subst. rewrite bytes_eqb_refl in E. discriminate.
  - intros Hab. destruct (bytes_eqb a b) eqn:E; [|reflexivity]. apply bytes_eqb_eq in E. contradiction.
Qed.

Lemma lookup_store_same st id raw : lookup (store st id raw) id = Some raw.
Proof.
  induction st as [|[i r] t IH]; cbn.
  - rewrite bytes_eqb_refl. reflexivity.
  - destruct (bytes_eqb i id) eqn:E; cbn; rewrite E; [reflexivity | exact IH].
Qed.

Lemma lookup_store_other st id raw id' : id' <> id -> lookup (store st id raw) id' = lookup st id'.
Proof.
  intros Hne. induction st as [|[i r] t IH]; cbn.
  - replace (bytes_eqb id id') with false by (symmetry; apply bytes_eqb_neq; congruence). reflexivity.
  - destruct (bytes_eqb i id) eqn:E; cbn.
    + apply bytes_eqb_eq in E. subst i.
      replace (bytes_eqb id id') with false by (symmetry; apply bytes_eqb_neq; congruence). reflexivity.
    + destruct (bytes_eqb i id'); [reflexivity | exact IH].
Qed.

Section WitnessProofs.
  Variable H : bytes -> bytes.
  Variable hlen : nat.
  Variable strict_len : bool.
  Variable cosign_held : bool.
  Variable idhash : logid -> option (option bytes).
  Variable decode : bytes -> option psth.
  Variable sig_ok : logid -> psth -> bool.
  Variable sign : bytes -> bytes.
  Variable verify : bytes -> bytes -> bool.

  Notation parse := (parse idhash decode sig_ok).
  Notation update := (update H hlen strict_len cosign_held idhash decode sig_ok sign).
  Notation get_sth := (get_sth idhash decode sig_ok sign).
  Notation step := (step H hlen strict_len cosign_held idhash decode sig_ok sign).
  Notation run := (run H hlen strict_len cosign_held idhash decode sig_ok sign).
  Notation run_state := (run_state H hlen strict_len cosign_held idhash decode sig_ok sign).
  Notation held := (held idhash decode sig_ok).
  Notation cosign := (cosign sign).
  Notation held_body := (held_body cosign_held sign).
  Notation sized := (sized hlen).

  (* ---------------------------------------------------------------- parse *)

  Lemma parse_ok_inv raw id p : parse raw id = inl p ->
    exists h p0, idhash id = Some (Some h) /\ decode raw = Some p0 /\ sig_ok id p = true
      /\ p_logid p = h /\ (p = p0 \/ (p_logid p0 = zero_id /\ p = set_logid p0 h))
      /\ p_size p = p_size p0 /\ p_root p = p_root p0.
  Proof.
    unfold WitnessModel.parse. intros Hp.
    destruct (idhash id) as [[h|]|] eqn:Ei; try discriminate;
      destruct (decode raw) as [p0|] eqn:Ed; try discriminate.
    exists h, p0.
    destruct (bytes_eqb (p_logid p0) zero_id) eqn:Ez.
    - destruct (sig_ok id (set_logid p0 h)) eqn:Es; [|discriminate]. injection Hp as <-.
      apply bytes_eqb_eq in Ez. repeat split; auto.
    - destruct (bytes_eqb (p_logid p0) h) eqn:Eh; cbn [negb] in Hp; [|discriminate].
      destruct (sig_ok id p0) eqn:Es; [|discriminate]. injection Hp as <-.
      apply bytes_eqb_eq in Eh. repeat split; auto.
  Qed.

  (* ---------------------------------------------------------------- one Update *)

  (* the only way the table changes *)
  Definition grows (st : state) (id : logid) (raw : bytes) (pf : list bytes) (next : psth) : Prop :=
    parse raw id = inl next /\
    (lookup st id = None \/
     exists prevRaw prev, lookup st id = Some prevRaw /\ parse prevRaw id = inl prev
       /\ p_size prev < p_size next
       /\ verify_consistency H (p_size prev) (p_size next) pf (p_root prev) (p_root next) = true
       /\ (strict_len = true -> Forall sized pf)).

  Lemma forallb_sized pf : forallb (sized_b hlen) pf = true -> Forall sized pf.
  Proof.
    intros Hf. apply Forall_forall. intros x Hx. rewrite forallb_forall in Hf.
    specialize (Hf x Hx). unfold sized_b in Hf. apply Nat.eqb_eq in Hf. exact Hf.
  Qed.

  Lemma update_inv st id raw pf f st' r : update st id raw pf f = (st', r) ->
    (st' = st /\
       (r = (BNone, ENotFound) \/ r = (BNone, EOther) \/
        exists prevRaw prev, lookup st id = Some prevRaw /\ parse prevRaw id = inl prev
          /\ (r = (held_body prevRaw prev, EFailedPre) \/ r = (held_body prevRaw prev, EOk))))
    \/ (exists next, grows st id raw pf next /\ st' = store st id raw /\ r = (cosign next, EOk)).
  Proof.
    unfold WitnessModel.update, refused, failed, commit, grows. intros Hu.
    destruct (idhash id) as [oh|] eqn:Ei; [| injection Hu as <- <-; left; auto].
    destruct (parse raw id) as [next|e] eqn:Ep; [| injection Hu as <- <-; left; auto].
    destruct f; try (injection Hu as <- <-; left; solve [auto]).
    - (* NoFault *)
      destruct (lookup st id) as [prevRaw|] eqn:El.
      + destruct (parse prevRaw id) as [prev|e] eqn:Epp; [| injection Hu as <- <-; left; auto].
        destruct (p_size next <? p_size prev) eqn:E1; [injection Hu as <- <-; left; split; auto; right; right; eauto 7|].
        destruct (p_size next =? p_size prev) eqn:E2.
        { destruct (negb (bytes_eqb (p_root next) (p_root prev))); injection Hu as <- <-; left; split; auto; right; right; eauto 7. }
        destruct (strict_len && negb (forallb (sized_b hlen) pf)) eqn:E3; [injection Hu as <- <-; left; split; auto; right; right; eauto 7|].
        destruct (verify_consistency H (p_size prev) (p_size next) pf (p_root prev) (p_root next)) eqn:E4;
          cbn [negb] in Hu; [| injection Hu as <- <-; left; split; auto; right; right; eauto 7].
        injection Hu as <- <-. right. exists next. split; [|auto]. split; [reflexivity|].
        right. exists prevRaw, prev. apply N.ltb_ge in E1. apply N.eqb_neq in E2.
        repeat split; auto; try lia.
        intros Hs. rewrite Hs in E3. cbn in E3. apply negb_false_iff in E3. apply forallb_sized. exact E3.
      + injection Hu as <- <-. right. exists next. auto.
    - (* FSet *)
      destruct (lookup st id) as [prevRaw|] eqn:El.
      + destruct (parse prevRaw id) as [prev|e] eqn:Epp; [| injection Hu as <- <-; left; auto].
        destruct (p_size next <? p_size prev) eqn:E1; [injection Hu as <- <-; left; split; auto; right; right; eauto 7|].
        destruct (p_size next =? p_size prev) eqn:E2.
        { destruct (negb (bytes_eqb (p_root next) (p_root prev))); injection Hu as <- <-; left; split; auto; right; right; eauto 7. }
        destruct (strict_len && negb (forallb (sized_b hlen) pf)) eqn:E3; [injection Hu as <- <-; left; split; auto; right; right; eauto 7|].
        destruct (negb (verify_consistency H (p_size prev) (p_size next) pf (p_root prev) (p_root next)));
          injection Hu as <- <-; left; split; auto; right; right; eauto 7.
      + injection Hu as <- <-. left. auto.
  Qed.

  (* ---------------------------------------------------------------- invariant: stored bytes parse *)

  Definition wf (st : state) : Prop := forall id raw, lookup st id = Some raw -> exists p, parse raw id = inl p.

  Lemma wf_nil : wf [].
  Proof. intros id raw Hl. discriminate. Qed.

  Lemma step_state st o st' w : step st o = (st', w) ->
    st' = st \/ exists id raw pf f next, o = OUpdate id raw pf f /\ grows st id raw pf next /\ st' = store st id raw
                                      /\ w = ORsp (cosign next, EOk).
  Proof.
    destruct o as [id raw pf f|id fl|fl]; cbn [WitnessModel.step]; intros Hs.
    - destruct (update st id raw pf f) as [st1 r] eqn:Eu. injection Hs as <- <-.
      destruct (update_inv _ _ _ _ _ _ _ Eu) as [[-> _]|(next & G & -> & ->)]; [left; reflexivity|].
      right. exists id, raw, pf, f, next. auto.
    - injection Hs as <- _. left. reflexivity.
    - injection Hs as <- _. left. reflexivity.
  Qed.

  Lemma wf_step st o st' w : wf st -> step st o = (st', w) -> wf st'.
  Proof.
    intros Hwf Hs. destruct (step_state _ _ _ _ Hs) as [->|(id & raw & pf & f & next & -> & [Hp _] & -> & _)]; [exact Hwf|].
    intros id' raw' Hl. destruct (bytes_eq_dec id' id) as [->|Hne].
    - rewrite lookup_store_same in Hl. injection Hl as <-. eauto.
    - rewrite lookup_store_other in Hl by exact Hne. eauto.
  Qed.

  Lemma run_cons st o t : run st (o :: t) =
    let '(st1, r) := step st o in let '(st2, rs) := run st1 t in (st2, r :: rs).
  Proof. reflexivity. Qed.

  Lemma run_state_cons st o t : run_state st (o :: t) = run_state (fst (step st o)) t.
  Proof.
    unfold WitnessModel.run_state. rewrite run_cons.
    destruct (step st o) as [st1 r]. cbn [fst]. destruct (run st1 t) as [st2 rs]. reflexivity.
  Qed.

  Lemma run_state_app st a b : run_state st (a ++ b) = run_state (run_state st a) b.
  Proof.
    revert st. induction a as [|o a IH]; intros st; [reflexivity|].
    cbn [app]. rewrite !run_state_cons. apply IH.
  Qed.

  Lemma wf_run st ops : wf st -> wf (run_state st ops).
  Proof.
    revert st. induction ops as [|o t IH]; intros st Hwf; [exact Hwf|].
    rewrite run_state_cons. apply IH. destruct (step st o) as [st1 r] eqn:E. eapply wf_step; eauto.
  Qed.

  (* the table only ever holds bytes that some Update of the execution submitted for that log *)
  Lemma stored_was_submitted : forall ops st id raw,
    lookup (run_state st ops) id = Some raw ->
    lookup st id = Some raw \/ exists pf f, In (OUpdate id raw pf f) ops.
  Proof.
    induction ops as [|o t IH]; intros st id raw Hl; [left; exact Hl|].
    rewrite run_state_cons in Hl. destruct (step st o) as [st1 w] eqn:Es. cbn [fst] in Hl.
    destruct (IH st1 id raw Hl) as [A|(pf & f & A)]; [| right; exists pf, f; right; exact A].
    destruct (step_state _ _ _ _ Es) as [->|(id1 & raw1 & pf & f & next & -> & _ & -> & _)]; [left; exact A|].
    destruct (bytes_eq_dec id id1) as [->|Hne].
    - rewrite lookup_store_same in A. injection A as ->. right. exists pf, f. left. reflexivity.
    - rewrite lookup_store_other in A by exact Hne. left. exact A.
  Qed.

  Lemma held_lookup st id p : held st id = Some p -> exists raw, lookup st id = Some raw /\ parse raw id = inl p.
  Proof.
    unfold WitnessModel.held. destruct (lookup st id) as [raw|]; [|discriminate].
    destruct (parse raw id) as [q|] eqn:E; [|discriminate]. intros Hh. injection Hh as <-. eauto.
  Qed.

  (* ---------------------------------------------------------------- one step, seen from one log *)

  (* after a step the row of [id] is the same, or was replaced by an accepted successor *)
  Lemma step_held st o st' w id p : step st o = (st', w) -> held st id = Some p ->
    (lookup st' id = lookup st id /\ held st' id = Some p)
    \/ (exists raw pf f next, o = OUpdate id raw pf f /\ held st' id = Some next /\ lookup st' id = Some raw
          /\ p_size p < p_size next
          /\ verify_consistency H (p_size p) (p_size next) pf (p_root p) (p_root next) = true
          /\ (strict_len = true -> Forall sized pf)).
  Proof.
    intros Hs Hh. destruct (held_lookup _ _ _ Hh) as (raw0 & Hl0 & Hp0).
    destruct (step_state _ _ _ _ Hs) as [->|(id1 & raw & pf & f & next & -> & [Hp G] & -> & _)]; [left; auto|].
    destruct (bytes_eq_dec id id1) as [->|Hne].
    - right. exists raw, pf, f, next. rewrite lookup_store_same.
      destruct G as [G|(prevRaw & prev & A & B & C & D & E)]; [congruence|].
      rewrite Hl0 in A. injection A as <-. rewrite Hp0 in B. injection B as <-.
      repeat split; auto. unfold WitnessModel.held. rewrite lookup_store_same, Hp. reflexivity.
    - left. split; [apply lookup_store_other; exact Hne|].
      unfold WitnessModel.held. rewrite lookup_store_other by exact Hne. exact Hh.
  Qed.

  (* ---------------------------------------------------------------- histories *)

  (* sizes never shrink, a held STH is never dropped, and equal size means the very same row *)
  Lemma history_monotone : forall ops st id p1,
    held st id = Some p1 ->
    exists p2, held (run_state st ops) id = Some p2 /\ p_size p1 <= p_size p2
      /\ (p_size p1 = p_size p2 -> lookup (run_state st ops) id = lookup st id /\ p2 = p1).
  Proof.
    induction ops as [|o t IH]; intros st id p1 Hh.
    - exists p1. cbn. repeat split; auto. lia.
    - rewrite run_state_cons. destruct (step st o) as [st1 w] eqn:Es. cbn [fst].
      destruct (step_held _ _ _ _ id p1 Es Hh) as [[A B]|(raw & pf & f & next & _ & B & _ & C & _)].
      + destruct (IH st1 id p1 B) as (p2 & X & Y & Z). exists p2. repeat split; auto.
        * destruct (Z H0) as [Z1 _]. congruence.
        * apply Z; assumption.
      + destruct (IH st1 id next B) as (p2 & X & Y & Z). exists p2. repeat split; auto; lia.
  Qed.

  Hypothesis H_len : forall x, length (H x) = hlen.
  Hypothesis decode_root_len : forall raw p, decode raw = Some p -> length (p_root p) = hlen.

  Lemma held_root_sized st id p : held st id = Some p -> sized (p_root p).
  Proof.
    intros Hh. destruct (held_lookup _ _ _ Hh) as (raw & _ & Hp).
    destruct (parse_ok_inv _ _ _ Hp) as (h & p0 & _ & Hd & _ & _ & _ & _ & Hr).
    unfold MerkleProofs.sized. rewrite Hr. eapply decode_root_len; eauto.
  Qed.

  (* every earlier held STH is a prefix of every later one (or H collides) *)
  Lemma history_consistent : forall ops st id p1 p2 leaves,
    (strict_len = true \/ Forall (op_sized hlen) ops) ->
    held st id = Some p1 -> held (run_state st ops) id = Some p2 ->
    0 < p_size p1 -> p_size p2 = lenN leaves -> p_root p2 = mth H leaves ->
    p_root p1 = mth H (firstN (p_size p1) leaves) \/ collision_exists H.
  Proof.
    induction ops as [|o t IH]; intros st id p1 p2 leaves Hsz Hh1 Hh2 Hpos Hn Hr.
    - cbn in Hh2. rewrite Hh1 in Hh2. injection Hh2 as <-. left. rewrite firstN_all by lia. exact Hr.
    - rewrite run_state_cons in Hh2. destruct (step st o) as [st1 w] eqn:Es. cbn [fst] in Hh2.
      assert (Hsz' : strict_len = true \/ Forall (op_sized hlen) t).
      { destruct Hsz as [?|F]; [left; assumption | right; exact (Forall_inv_tail F)]. }
      destruct (step_held _ _ _ _ id p1 Es Hh1) as [[A B]|(raw & pf & f & next & Eo & B & _ & C & D & E)].
      + eapply IH; eauto.
      + destruct (history_monotone t st1 id next B) as (p2' & X & Y & _).
        rewrite Hh2 in X. injection X as <-.
        destruct (IH st1 id next p2 leaves Hsz' B Hh2 ltac:(lia) Hn Hr) as [G|G]; [|right; exact G].
        assert (Hpf : Forall sized pf).
        { destruct Hsz as [S|F]; [apply E; exact S|]. apply Forall_inv in F. subst o. exact F. }
        assert (Hlen : lenN (firstN (p_size next) leaves) = p_size next) by (apply lenN_firstN; lia).
        rewrite <- Hlen in D at 1.
        destruct (verify_consistency_sound H hlen H_len (firstN (p_size next) leaves) (p_size p1) (p_root p1) (p_root next) pf
                    Hpos (held_root_sized _ _ _ Hh1) Hpf D G) as [_ [R|R]]; [|right; exact R].
        left. rewrite R. rewrite firstN_firstN by lia. reflexivity.
  Qed.

  (* ---------------------------------------------------------------- responses *)

  Hypothesis sign_verify : forall m, verify m (sign m) = true.

  Definition op_id (o : op) : logid := match o with OUpdate id _ _ _ => id | OGetSTH id _ => id | OGetLogs _ => [] end.

  (* Whatever cosigned body an operation returns: the signature is the witness's over the TLS
     encoding of that very STH, and that STH is what the table holds for the log once the
     operation is done.  (With the code as it is a cosigned body also means success.) *)
  Lemma cosigned_inv st o st' p sg e : wf st -> step st o = (st', ORsp (BCosigned p sg, e)) ->
    (cosign_held = false -> e = EOk) /\ sg = sign (sth_enc p) /\ verify (sth_enc p) sg = true
    /\ held st' (op_id o) = Some p.
  Proof.
    intros Hwf Hs. destruct o as [id raw pf f|id fl|fl]; cbn [WitnessModel.step op_id] in *.
    - destruct (update st id raw pf f) as [st1 r] eqn:Eu. injection Hs as <- ->.
      destruct (update_inv _ _ _ _ _ _ _ Eu) as [[-> [R|[R|(pr & pv & Hl & Hpp & R)]]]|(next & [Hp _] & -> & R)];
        try discriminate R.
      + assert (Hb : BCosigned p sg = held_body pr pv) by (destruct R as [R|R]; injection R as R _; exact R).
        unfold WitnessModel.held_body in Hb, R. destruct cosign_held; [|discriminate Hb].
        unfold WitnessModel.cosign in Hb. injection Hb as -> ->.
        split; [discriminate|]. split; [reflexivity|]. split; [apply sign_verify|].
        unfold WitnessModel.held. rewrite Hl, Hpp. reflexivity.
      + unfold WitnessModel.cosign in R. injection R as -> -> ->.
        split; [reflexivity|]. split; [reflexivity|]. split; [apply sign_verify|].
        unfold WitnessModel.held. rewrite lookup_store_same, Hp. reflexivity.
    - injection Hs as <- Hg. unfold WitnessModel.get_sth in Hg.
      destruct fl; [discriminate|]. destruct (lookup st id) as [raw|] eqn:El; [|discriminate].
      destruct (parse raw id) as [q|] eqn:Ep; [|discriminate].
      unfold WitnessModel.cosign in Hg. injection Hg as <- <- <-.
      rename q into p.
      split; [reflexivity|]. split; [reflexivity|]. split; [apply sign_verify|].
      unfold WitnessModel.held. rewrite El, Ep. reflexivity.
    - discriminate.
  Qed.

  (* GetSTH on a well-formed table: the held STH, cosigned - or NotFound when none is held *)
  Lemma get_sth_spec st id : wf st ->
    match lookup st id with
    | None => get_sth st id false = (BNone, ENotFound)
    | Some raw => exists p, parse raw id = inl p /\ get_sth st id false = (cosign p, EOk)
    end.
  Proof.
    intros Hwf. unfold WitnessModel.get_sth. destruct (lookup st id) as [raw|] eqn:El; [|reflexivity].
    destruct (Hwf id raw El) as [p Hp]. exists p. rewrite Hp. auto.
  Qed.

  (* the refusals, read forwards: what a stale / forked / unproved candidate gets *)
  Lemma refusal_characterised st id raw pf next prevRaw prev :
    parse raw id = inl next -> lookup st id = Some prevRaw -> parse prevRaw id = inl prev ->
    (p_size next < p_size prev
     \/ (p_size next = p_size prev /\ p_root next <> p_root prev)
     \/ (p_size prev < p_size next /\ verify_consistency H (p_size prev) (p_size next) pf (p_root prev) (p_root next) = false)) ->
    update st id raw pf NoFault = (st, (held_body prevRaw prev, EFailedPre)).
  Proof.
    intros Hp Hl Hpp Hc. unfold WitnessModel.update, refused.
    destruct (parse_ok_inv _ _ _ Hp) as (h & p0 & Ei & _).
    rewrite Ei, Hp, Hl, Hpp.
    destruct Hc as [C|[[C1 C2]|[C1 C2]]].
    - rewrite (proj2 (N.ltb_lt _ _) C). reflexivity.
    - replace (p_size next <? p_size prev) with false by (symmetry; apply N.ltb_ge; lia).
      rewrite (proj2 (N.eqb_eq _ _) C1).
      replace (bytes_eqb (p_root next) (p_root prev)) with false by (symmetry; apply bytes_eqb_neq; exact C2).
      reflexivity.
    - replace (p_size next <? p_size prev) with false by (symmetry; apply N.ltb_ge; lia).
      replace (p_size next =? p_size prev) with false by (symmetry; apply N.eqb_neq; lia).
      rewrite C2. cbn [negb]. destruct (strict_len && negb (forallb (sized_b hlen) pf)); reflexivity.
  Qed.

  (* a good candidate with a good proof IS accepted (the witness is not vacuously safe) *)
  Lemma acceptance_characterised st id raw pf next :
    parse raw id = inl next ->
    (lookup st id = None \/
     exists prevRaw prev, lookup st id = Some prevRaw /\ parse prevRaw id = inl prev /\ p_size prev < p_size next
       /\ verify_consistency H (p_size prev) (p_size next) pf (p_root prev) (p_root next) = true
       /\ (strict_len = true -> forallb (sized_b hlen) pf = true)) ->
    update st id raw pf NoFault = (store st id raw, (cosign next, EOk)).
  Proof.
    intros Hp Hc. unfold WitnessModel.update, commit.
    destruct (parse_ok_inv _ _ _ Hp) as (h & p0 & Ei & _).
    rewrite Ei, Hp.
    destruct Hc as [->|(prevRaw & prev & -> & -> & C1 & C2 & C3)]; [reflexivity|].
    replace (p_size next <? p_size prev) with false by (symmetry; apply N.ltb_ge; lia).
    replace (p_size next =? p_size prev) with false by (symmetry; apply N.eqb_neq; lia).
    rewrite C2. cbn [negb].
    destruct strict_len; cbn [andb]; [rewrite C3 by reflexivity|]; reflexivity.
  Qed.

End WitnessProofs.

(* every operation sequence is an execution of some set of clients, and conversely the
   theorems about sequences cover every execution *)
Lemma interleaving_single {A} (tr : list A) : interleaving [tr] tr.
Proof.
  induction tr as [|x t IH].
  - apply il_done. repeat constructor.
  - apply (il_step [] x t [] t). exact IH.
Qed.
