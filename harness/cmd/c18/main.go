// C18 correspondence harness: drives the three real components that draw temporal
// boundaries (ctfe.ValidateChain, client.TemporalLogClient, loglist3.TemporallyCompatible)
// on boundary instants and shard lists, and a fourth that has to land inside them
// (integration.NotAfterForLog, which picks the NotAfter of certificates submitted to a log with a
// window), and writes the observed behaviour as Coq cases.
package main

import (
	"context"
	"crypto/ecdsa"
	"crypto/elliptic"
	"crypto/rand"
	"flag"
	"fmt"
	"math/big"
	mrand "math/rand"
	"time"

	"github.com/google/certificate-transparency-go/client"
	"github.com/google/certificate-transparency-go/client/configpb"
	"github.com/google/certificate-transparency-go/loglist3"
	"github.com/google/certificate-transparency-go/trillian/ctfe"
	ctfepb "github.com/google/certificate-transparency-go/trillian/ctfe/configpb"
	"github.com/google/certificate-transparency-go/trillian/integration"
	"github.com/google/certificate-transparency-go/x509"
	"github.com/google/certificate-transparency-go/x509/pkix"
	"github.com/google/certificate-transparency-go/x509util"
	"github.com/google/trillian"
	"google.golang.org/protobuf/types/known/timestamppb"

	"verif/harness/ctfeenv"
	"verif/harness/pki"

	"verif/harness/lib"
)

const header = `From Coq Require Import ZArith List. Import ListNotations.
From V Require Import Temporal.WindowModel Temporal.WindowCase.
Local Open Scope Z_scope.
`

var (
	rootKey  *ecdsa.PrivateKey
	rootCert *x509.Certificate
	rootDER  []byte
	pool     *x509util.PEMCertPool
	serial   int64 = 100
)

func setupPKI() {
	var err error
	rootKey, err = ecdsa.GenerateKey(elliptic.P256(), rand.Reader)
	if err != nil {
		panic(err)
	}
	tmpl := &x509.Certificate{SerialNumber: big.NewInt(1), Subject: pkix.Name{CommonName: "verif root"},
		NotBefore: time.Unix(0, 0), NotAfter: time.Date(9000, 1, 1, 0, 0, 0, 0, time.UTC),
		IsCA: true, BasicConstraintsValid: true, KeyUsage: x509.KeyUsageCertSign}
	rootDER, err = x509.CreateCertificate(rand.Reader, tmpl, tmpl, &rootKey.PublicKey, rootKey)
	if err != nil {
		panic(err)
	}
	rootCert, err = x509.ParseCertificate(rootDER)
	if err != nil {
		panic(err)
	}
	pool = x509util.NewPEMCertPool()
	pool.AddCert(rootCert)
}

var leafKey *ecdsa.PrivateKey

func leaf(notAfter time.Time) []byte {
	if leafKey == nil {
		leafKey, _ = ecdsa.GenerateKey(elliptic.P256(), rand.Reader)
	}
	serial++
	tmpl := &x509.Certificate{SerialNumber: big.NewInt(serial), Subject: pkix.Name{CommonName: "leaf"},
		NotBefore: time.Unix(1000, 0), NotAfter: notAfter}
	der, err := x509.CreateCertificate(rand.Reader, tmpl, rootCert, &leafKey.PublicKey, rootKey)
	if err != nil {
		panic(err)
	}
	return der
}

// ns returns the instant as nanoseconds since the Unix epoch, unbounded.
func ns(t time.Time) *big.Int {
	v := new(big.Int).Mul(big.NewInt(t.Unix()), big.NewInt(1e9))
	return v.Add(v, big.NewInt(int64(t.Nanosecond())))
}

func optZ(t *time.Time) string {
	if t == nil {
		return "None"
	}
	return lib.Some(lib.ZBig(ns(*t)))
}

func iv(lo, hi *time.Time) string { return lib.Pair(optZ(lo), optZ(hi)) }

func inside(t time.Time, lo, hi *time.Time) bool {
	if lo != nil && ns(t).Cmp(ns(*lo)) < 0 {
		return false
	}
	if hi != nil && ns(t).Cmp(ns(*hi)) >= 0 {
		return false
	}
	return true
}

func jt(t *time.Time) interface{} {
	if t == nil {
		return nil
	}
	return t.UTC().Format(time.RFC3339Nano)
}

var offsets = []time.Duration{-time.Hour, -time.Second, -time.Nanosecond, 0, time.Nanosecond, time.Second, time.Hour,
	-500 * time.Millisecond, 500 * time.Millisecond, -999999999, 999999999}

func pickInstant(r *mrand.Rand) time.Time {
	// whole seconds (certificate granularity), both sides of 2050 (UTCTime / GeneralizedTime)
	lo := time.Date(1995, 1, 1, 0, 0, 0, 0, time.UTC).Unix()
	hi := time.Date(2120, 1, 1, 0, 0, 0, 0, time.UTC).Unix()
	if r.Intn(8) == 0 {
		return time.Date(2050, 1, 1, 0, 0, 0, 0, time.UTC).Add(time.Duration(r.Intn(5)-2) * time.Second)
	}
	return time.Unix(lo+r.Int63n(hi-lo), 0).UTC()
}

func pickBound(r *mrand.Rand, t time.Time) *time.Time {
	switch r.Intn(10) {
	case 0:
		return nil
	case 1:
		b := pickInstant(r).Add(time.Duration(r.Int63n(1e9)))
		return &b
	default:
		b := t.Add(offsets[r.Intn(len(offsets))])
		return &b
	}
}

func shardCfg(lo, hi *time.Time) *configpb.LogShardConfig {
	c := &configpb.LogShardConfig{Uri: "http://log.example/x"}
	if lo != nil {
		c.NotAfterStart = timestamppb.New(*lo)
	}
	if hi != nil {
		c.NotAfterLimit = timestamppb.New(*hi)
	}
	return c
}

func main() {
	flag.Parse()
	r := lib.Rand()
	setupPKI()
	w := lib.NewWriter(header, 400)
	defer w.Guard()
	n := lib.Count(600, 20000)

	// sanity: an unwindowed validation of a generated chain succeeds
	{
		d := leaf(time.Date(2030, 1, 1, 0, 0, 0, 0, time.UTC))
		opts := ctfe.NewCertValidationOpts(pool, time.Time{}, false, false, nil, nil, false, nil)
		if _, err := ctfe.ValidateChain([][]byte{d, rootDER}, opts); err != nil {
			panic(fmt.Sprintf("harness PKI broken: %v", err))
		}
	}

	for i := 0; i < n; i++ {
		switch {
		case i%3 == 0: // point: ctfe + single-shard client
			t := pickInstant(r)
			lo, hi := pickBound(r, t), pickBound(r, t)
			der := leaf(t)
			opts := ctfe.NewCertValidationOpts(pool, time.Time{}, false, false, lo, hi, false, nil)
			chain := [][]byte{der}
			if r.Intn(2) == 0 {
				chain = append(chain, rootDER)
			}
			_, err := ctfe.ValidateChain(chain, opts)
			ctfeOK := err == nil
			clientObs := "None"
			var clientJ interface{}
			propOK := ctfeOK == inside(t, lo, hi)
			tlc, cerr := client.NewTemporalLogClient(&configpb.TemporalLogConfig{Shard: []*configpb.LogShardConfig{shardCfg(lo, hi)}}, nil)
			inverted := lo != nil && hi != nil && ns(*lo).Cmp(ns(*hi)) >= 0
			if cerr == nil {
				_, ierr := tlc.IndexByDate(t)
				clientObs = lib.Some(lib.Bool(ierr == nil))
				clientJ = ierr == nil
				propOK = propOK && !inverted && (ierr == nil) == inside(t, lo, hi)
			} else {
				propOK = propOK && inverted
			}
			tag := "point:outside"
			if inside(t, lo, hi) {
				tag = "point:inside"
			}
			if lo != nil && ns(*lo).Cmp(ns(t)) == 0 || hi != nil && ns(*hi).Cmp(ns(t)) == 0 {
				tag += ":on-bound"
			}
			w.Add(lib.Case{
				Coq:    fmt.Sprintf("CPoint %s %s %s %s", lib.ZBig(ns(t)), iv(lo, hi), lib.Bool(ctfeOK), clientObs),
				Input:  map[string]interface{}{"kind": "point", "t": jt(&t), "lo": jt(lo), "hi": jt(hi)},
				Impl:   map[string]interface{}{"ctfe_admits": ctfeOK, "client_routes": clientJ},
				PropOK: propOK, Tags: []string{tag},
			})
		case i%6 == 4: // point, through the configuration: LogConfig -> ValidateLogConfig -> SetUpInstance -> add-chain
			t := pickInstant(r)
			lo, hi := pickBound(r, t), pickBound(r, t)
			env, eerr := ctfeenv.New(ctfeenv.Options{Roots: []*pki.Entity{{Cert: rootCert, DER: rootDER, Key: rootKey}}, Dir: *lib.OutDir,
				Configure: func(c *ctfepb.LogConfig) {
					if lo != nil {
						c.NotAfterStart = timestamppb.New(*lo)
					}
					if hi != nil {
						c.NotAfterLimit = timestamppb.New(*hi)
					}
				}})
			inverted := lo != nil && hi != nil && ns(*hi).Cmp(ns(*lo)) < 0 // config.go refuses limit before start (equal = empty window)
			if eerr != nil {
				w.Add(lib.Case{
					Coq:    fmt.Sprintf("CConfigPoint %s %s None", lib.ZBig(ns(t)), iv(lo, hi)),
					Key:    fmt.Sprintf("config-refused-%d", i),
					Input:  map[string]interface{}{"kind": "config-point", "t": jt(&t), "lo": jt(lo), "hi": jt(hi)},
					Impl:   map[string]interface{}{"config_error": eerr.Error()},
					PropOK: inverted, Note: "a configuration with an ordered NotAfter window was refused: " + eerr.Error(), Tags: []string{"config:refused"},
				})
				continue
			}
			env.Backend.QueueLeafFn = func(_ context.Context, req *trillian.QueueLeafRequest) (*trillian.QueueLeafResponse, error) {
				return &trillian.QueueLeafResponse{QueuedLeaf: &trillian.QueuedLogLeaf{Leaf: req.Leaf}}, nil
			}
			chain := [][]byte{leaf(t)}
			if r.Intn(2) == 0 {
				chain = append(chain, rootDER)
			}
			rec := env.AddChain(false, chain)
			admitted := rec.Code == 200
			tag := "config:outside"
			if inside(t, lo, hi) {
				tag = "config:inside"
			}
			if lo != nil && ns(*lo).Cmp(ns(t)) == 0 || hi != nil && ns(*hi).Cmp(ns(t)) == 0 {
				tag += ":on-bound"
			}
			note := ""
			ok := !inverted && admitted == inside(t, lo, hi) && (admitted || rec.Code == 400)
			if !ok {
				note = fmt.Sprintf("log configured with not_after_start=%v not_after_limit=%v answered %d to a certificate with NotAfter=%v (inside the window: %v)", jt(lo), jt(hi), rec.Code, t.UTC(), inside(t, lo, hi))
			}
			w.Add(lib.Case{
				Coq:    fmt.Sprintf("CConfigPoint %s %s (Some %s)", lib.ZBig(ns(t)), iv(lo, hi), lib.Bool(admitted)),
				Key:    fmt.Sprintf("config-point-%d", i),
				Input:  map[string]interface{}{"kind": "config-point", "t": jt(&t), "lo": jt(lo), "hi": jt(hi)},
				Impl:   map[string]interface{}{"status": rec.Code},
				PropOK: ok, Note: note, Tags: []string{tag, fmt.Sprintf("config:bounds=%v/%v", lo != nil, hi != nil)},
			})
		case i%3 == 1: // log list
			t := pickInstant(r)
			s, e := pickBound(r, t), pickBound(r, t)
			if s == nil {
				x := t.Add(-time.Duration(r.Int63n(1e12)))
				s = &x
			}
			if e == nil {
				x := t.Add(time.Duration(r.Int63n(1e12)))
				e = &x
			}
			ll := loglist3.LogList{Operators: []*loglist3.Operator{{Name: "op", Logs: []*loglist3.Log{
				{URL: "https://l/", TemporalInterval: &loglist3.TemporalInterval{StartInclusive: *s, EndExclusive: *e}}}}}}
			res := ll.TemporallyCompatible(&x509.Certificate{NotAfter: t})
			kept := len(res.Operators) == 1 && len(res.Operators[0].Logs) == 1
			tag := "loglist:dropped"
			if kept {
				tag = "loglist:kept"
			}
			w.Add(lib.Case{
				Coq:    fmt.Sprintf("CLogList %s %s %s %s", lib.ZBig(ns(t)), lib.ZBig(ns(*s)), lib.ZBig(ns(*e)), lib.Bool(kept)),
				Input:  map[string]interface{}{"kind": "loglist", "t": jt(&t), "start": jt(s), "end": jt(e)},
				Impl:   map[string]interface{}{"kept": kept},
				PropOK: kept == inside(t, s, e), Tags: []string{tag},
			})
		default: // shard list
			k := 1 + r.Intn(5)
			base := pickInstant(r).Add(time.Duration(r.Int63n(1e9)))
			var los, his []*time.Time
			cur := base
			for j := 0; j < k; j++ {
				lo := cur
				hi := cur.Add(time.Duration(1+r.Int63n(1e6)) * time.Duration([]int64{1, 1e3, 1e9, 1e12}[r.Intn(4)]))
				l, h := lo, hi
				los = append(los, &l)
				his = append(his, &h)
				cur = hi
			}
			if r.Intn(2) == 0 {
				los[0] = nil
			}
			if r.Intn(2) == 0 {
				his[k-1] = nil
			}
			mut := "wellformed"
			switch r.Intn(8) {
			case 0: // gap or overlap of 1ns
				if k > 1 {
					j := 1 + r.Intn(k-1)
					x := los[j].Add(time.Duration(2*r.Intn(2)-1) * time.Nanosecond)
					los[j] = &x
					mut = "gap"
				}
			case 1: // inverted / empty
				j := r.Intn(k)
				if los[j] != nil && his[j] != nil {
					if r.Intn(2) == 0 {
						his[j] = los[j]
					} else {
						los[j], his[j] = his[j], los[j]
					}
					mut = "inverted"
				}
			case 2: // missing bound in the middle
				if k > 1 {
					if r.Intn(2) == 0 {
						his[r.Intn(k-1)] = nil
						mut = "open-upper-extended"
					} else {
						los[1+r.Intn(k-1)] = nil
						mut = "open-lower-inside"
					}
				}
			}
			var shards []*configpb.LogShardConfig
			var ivs []string
			var ji []interface{}
			for j := 0; j < k; j++ {
				shards = append(shards, shardCfg(los[j], his[j]))
				ivs = append(ivs, iv(los[j], his[j]))
				ji = append(ji, []interface{}{jt(los[j]), jt(his[j])})
			}
			// probe instants: each bound and its neighbours
			var ts []time.Time
			for j := 0; j < k; j++ {
				for _, b := range []*time.Time{los[j], his[j]} {
					if b != nil {
						ts = append(ts, b.Add(-time.Nanosecond), *b, b.Add(time.Nanosecond))
					}
				}
			}
			ts = append(ts, base.Add(-time.Hour), cur.Add(time.Hour))
			tlc, err := client.NewTemporalLogClient(&configpb.TemporalLogConfig{Shard: shards}, nil)
			obs := "None"
			var jo interface{}
			propOK := true
			// direct oracle: well-formedness
			wf := true
			for j := 0; j < k; j++ {
				if los[j] != nil && his[j] != nil && ns(*los[j]).Cmp(ns(*his[j])) >= 0 {
					wf = false
				}
				if j > 0 && (los[j] == nil || his[j-1] == nil || ns(*los[j]).Cmp(ns(*his[j-1])) != 0) {
					wf = false
				}
			}
			if (err == nil) != wf {
				propOK = false
			}
			var tz []string
			for _, t := range ts {
				tz = append(tz, lib.ZBig(ns(t)))
			}
			if err == nil {
				var xs []string
				var js []interface{}
				for _, t := range ts {
					idx, ierr := tlc.IndexByDate(t)
					cnt, which := 0, -1
					for j := 0; j < k; j++ {
						if inside(t, los[j], his[j]) {
							cnt++
							which = j
						}
					}
					if ierr != nil {
						xs = append(xs, "None")
						js = append(js, nil)
						if cnt != 0 {
							propOK = false
						}
					} else {
						xs = append(xs, lib.Some(lib.Nat(idx)))
						js = append(js, idx)
						if cnt != 1 || which != idx {
							propOK = false
						}
					}
				}
				obs = lib.Some(lib.List(xs))
				jo = js
			}
			w.Add(lib.Case{
				Coq:    fmt.Sprintf("CShards %s %s %s", lib.List(ivs), lib.List(tz), obs),
				Input:  map[string]interface{}{"kind": "shards", "shards": ji, "probes": len(ts)},
				Impl:   map[string]interface{}{"constructed": err == nil, "routes": jo},
				PropOK: propOK, Tags: []string{"shards:" + mut, fmt.Sprintf("shards:constructed=%v", err == nil)},
			})
		}
	}
	notAfterStream(w, r, n)
	kindStream(w, r, n)
	extremeStream(w, r)
	w.Close()
	fmt.Printf("c18: wrote %d cases\n", w.Len())
}

// notAfterStream: the fourth component.  integration.NotAfterForLog(cfg) picks the NotAfter for
// certificates submitted to the log configured by cfg; the instant it returns must lie in the log's window
// [start, limit) as the other three components draw it: start <= t < limit, admitted by a server with that
// window (ValidateChain with the window options, and - every fourth case - a real instance configured from
// the very same LogConfig) and routed to the shard by a client of that single shard.  LogConfigs with no
// bound, a start only, a limit only and both; for both, EVERY width of a list that runs from 1 ns over the
// neighbourhoods of 1 s and 2 s to days (with whole-second and sub-second starts), then random ones.
func notAfterStream(w *lib.Writer, r *mrand.Rand, n int) {
	widths := []time.Duration{1, 2, 3, 1000, 999999999, time.Second, time.Second + 1, 1500 * time.Millisecond, 2*time.Second - 1, 2 * time.Second,
		2*time.Second + 1, 3 * time.Second, 59 * time.Second, time.Minute, time.Hour - 1, time.Hour, 2 * time.Hour, 24 * time.Hour, 48*time.Hour + 1,
		7 * 24 * time.Hour, 365 * 24 * time.Hour}
	type win struct {
		lo, hi *time.Time
		kind   string
		width  time.Duration
	}
	var wins []win
	mk := func(kind string, sub bool, width time.Duration) win {
		base := pickInstant(r)
		if sub {
			base = base.Add(time.Duration(1 + r.Int63n(999999999)))
		}
		lim := base.Add(width)
		switch kind {
		case "none":
			return win{nil, nil, kind, 0}
		case "start-only":
			return win{&base, nil, kind, 0}
		case "limit-only":
			return win{nil, &base, kind, 0}
		}
		return win{&base, &lim, kind, width}
	}
	wins = append(wins, mk("none", false, 0))
	for _, sub := range []bool{false, true} {
		wins = append(wins, mk("start-only", sub, 0), mk("limit-only", sub, 0))
		for _, wd := range widths {
			wins = append(wins, mk("both", sub, wd))
		}
	}
	for i := 0; i < n/20; i++ {
		kind := []string{"both", "both", "both", "start-only", "limit-only", "none"}[r.Intn(6)]
		wd := widths[r.Intn(len(widths))]
		if r.Intn(2) == 0 {
			wd = time.Duration(1 + r.Int63n(int64(4*time.Second)))
		}
		wins = append(wins, mk(kind, r.Intn(2) == 0, wd))
	}
	for i, wn := range wins {
		lo, hi := wn.lo, wn.hi
		cfg := &ctfepb.LogConfig{}
		if lo != nil {
			cfg.NotAfterStart = timestamppb.New(*lo)
		}
		if hi != nil {
			cfg.NotAfterLimit = timestamppb.New(*hi)
		}
		now0 := time.Now()
		t, err := integration.NotAfterForLog(cfg)
		now1 := time.Now()
		input := map[string]interface{}{"kind": "not-after-for-log", "window": wn.kind, "lo": jt(lo), "hi": jt(hi), "width_ns": int64(wn.width)}
		key := fmt.Sprintf("not-after-%d", i)
		if err != nil {
			w.Add(lib.Case{
				Coq: fmt.Sprintf("CNotAfter %s 0 0 None 0 false None", iv(lo, hi)), Key: key,
				Input: input, Impl: map[string]interface{}{"error": err.Error()},
				PropOK: false, Note: fmt.Sprintf("NotAfterForLog fails on a log with not_after_start=%v not_after_limit=%v: %v", jt(lo), jt(hi), err), Tags: []string{"notafter:" + wn.kind + ":error"},
			})
			continue
		}
		// the certificate that carries it (X.509 validity times are whole seconds) and the server's verdict
		der := leaf(t)
		parsed, perr := x509.ParseCertificate(der)
		if perr != nil {
			panic(perr)
		}
		tc := parsed.NotAfter
		opts := ctfe.NewCertValidationOpts(pool, time.Time{}, false, false, lo, hi, false, nil)
		_, verr := ctfe.ValidateChain([][]byte{der, rootDER}, opts)
		ctfeOK := verr == nil
		viaConfig := i%4 == 1
		cfgStatus := 0
		if viaConfig {
			env, eerr := ctfeenv.New(ctfeenv.Options{Roots: []*pki.Entity{{Cert: rootCert, DER: rootDER, Key: rootKey}}, Dir: *lib.OutDir,
				Configure: func(c *ctfepb.LogConfig) { c.NotAfterStart, c.NotAfterLimit = cfg.NotAfterStart, cfg.NotAfterLimit }})
			if eerr != nil {
				cfgStatus = -1
			} else {
				env.Backend.QueueLeafFn = func(_ context.Context, req *trillian.QueueLeafRequest) (*trillian.QueueLeafResponse, error) {
					return &trillian.QueueLeafResponse{QueuedLeaf: &trillian.QueuedLogLeaf{Leaf: req.Leaf}}, nil
				}
				cfgStatus = env.AddChain(false, [][]byte{der, rootDER}).Code
			}
		}
		// the client of that single shard
		clientObs, clientRoutes := "None", false
		var clientJ interface{}
		tlc, cerr := client.NewTemporalLogClient(&configpb.TemporalLogConfig{Shard: []*configpb.LogShardConfig{shardCfg(lo, hi)}}, nil)
		if cerr == nil {
			_, ierr := tlc.IndexByDate(t)
			clientRoutes = ierr == nil
			clientObs, clientJ = lib.Some(lib.Bool(clientRoutes)), clientRoutes
		}
		// direct oracle
		ok, note := true, ""
		desc := fmt.Sprintf("NotAfterForLog returns %s for a log with not_after_start=%v not_after_limit=%v (window of %v)", t.UTC().Format(time.RFC3339Nano), jt(lo), jt(hi), wn.width)
		if wn.kind != "both" {
			desc = fmt.Sprintf("NotAfterForLog returns %s for a log with not_after_start=%v not_after_limit=%v", t.UTC().Format(time.RFC3339Nano), jt(lo), jt(hi))
		}
		switch {
		case !inside(t, lo, hi):
			ok, note = false, desc+", which is outside the window start <= t < limit"
		case cerr != nil:
			ok, note = false, desc+"; a client of that one shard cannot be built: "+cerr.Error()
		case !clientRoutes:
			ok, note = false, desc+", which a client of that one shard routes nowhere"
		case ctfeOK != inside(tc, lo, hi):
			ok, note = false, fmt.Sprintf("%s; the server's window answers %v to the certificate carrying it (NotAfter %s, inside the window: %v)", desc, ctfeOK, tc.UTC().Format(time.RFC3339Nano), inside(tc, lo, hi))
		case viaConfig && (cfgStatus == 200) != inside(tc, lo, hi):
			ok, note = false, fmt.Sprintf("%s; the log configured with that window answers %d to the certificate carrying it (NotAfter %s, inside the window: %v)", desc, cfgStatus, tc.UTC().Format(time.RFC3339Nano), inside(tc, lo, hi))
		}
		if wn.kind == "none" {
			input["t"] = "a day from now"
		} else {
			input["t"] = jt(&t)
		}
		tags := []string{"notafter:" + wn.kind}
		if wn.kind == "both" {
			switch {
			case wn.width < time.Second:
				tags = append(tags, "notafter:width<1s")
			case wn.width < 2*time.Second:
				tags = append(tags, "notafter:width<2s")
			default:
				tags = append(tags, "notafter:width>=2s")
			}
		}
		w.Add(lib.Case{
			Coq:    fmt.Sprintf("CNotAfter %s %s %s %s %s %s %s", iv(lo, hi), lib.ZBig(ns(now0)), lib.ZBig(ns(now1)), lib.Some(lib.ZBig(ns(t))), lib.ZBig(ns(tc)), lib.Bool(ctfeOK), clientObs),
			Key:    key,
			Input:  input,
			Impl:   map[string]interface{}{"ctfe_admits_certificate": ctfeOK, "client_routes": clientJ, "configured_log_status": cfgStatus, "certificate_not_after": jt(&tc)},
			PropOK: ok, Note: note, Tags: tags,
		})
	}
}
