(* C07 - get-entries serves the stored bytes for exactly the range it claims.
   Property theorems only.  parse_range / entries_count are GENERATED from
   trillian/ctfe/handlers.go on every run (gen/GetEntries.v). *)
From Coq Require Import ZArith List.
From V Require Import Base.GoInt Base.Bytes gen.GetEntries CTFE.RangeProofs CTFE.GetEntriesModel CTFE.GetEntriesProofs.
Import ListNotations.
Open Scope Z_scope.

(* the range contract over the WHOLE int64 domain: start kept, end only shortened, count exact,
   non-empty and at most the maximum; alignment only shortens (and lands on a multiple) *)
Theorem range_contract : forall start end_ maxr align,
  0 <= start <= end_ -> end_ <= max_i64 -> 1 <= maxr <= max_i64 ->
  exists e, parse_range start end_ maxr align = Some (start, e)
    /\ start <= e <= end_
    /\ entries_count start e = e - start + 1
    /\ 1 <= e - start + 1 <= maxr
    /\ e <= Z.min end_ (start + maxr - 1)
    /\ (align = false -> e = Z.min end_ (start + maxr - 1))
    /\ (align = true -> maxr <= end_ - start + 1 -> (e + 1) mod maxr = 0).
Proof. exact range_contract_lemma. Qed.
Print Assumptions range_contract.

Theorem backend_request_within_claimed_range : forall maxr align s e backend,
  0 <= s <= e -> e <= max_i64 -> 1 <= maxr <= max_i64 ->
  exists count, o_request (get_entries maxr align (PInt s) (PInt e) backend) = Some (s, count)
    /\ 1 <= count <= maxr /\ s + count - 1 <= e
    /\ s + count - 1 <= Z.min e (s + maxr - 1)
    /\ (align = false -> s + count - 1 = Z.min e (s + maxr - 1)).
Proof. exact good_params_request. Qed.
Print Assumptions backend_request_within_claimed_range.

Theorem other_params_4xx_without_backend_call : forall maxr align ps pe backend,
  (ps = PBad \/ pe = PBad \/ exists s e, ps = PInt s /\ pe = PInt e /\ (s < 0 \/ e < 0 \/ s > e)) ->
  let o := get_entries maxr align ps pe backend in o_status o = 400 /\ o_request o = None /\ o_served o = [].
Proof. exact bad_params_no_backend_call. Qed.
Print Assumptions other_params_4xx_without_backend_call.

Theorem served_bytes_are_backend_bytes : forall maxr align ps pe backend,
  (forall s c h, backend s c = BErr h -> h <> 200) ->
  let o := get_entries maxr align ps pe backend in
  o_status o = 200 ->
  exists s count n ls, o_request o = Some (s, count) /\ backend s count = BReply (Some n) ls
    /\ s < n /\ Z.of_nat (length ls) <= count
    /\ o_served o = map (fun l => (l_value l, l_extra l)) ls
    /\ (forall i l, nth_error ls i = Some l -> l_index l = s + Z.of_nat i).
Proof. exact served_is_passthrough. Qed.
Print Assumptions served_bytes_are_backend_bytes.

Theorem served_bytes_are_stored : forall maxr align s e st,
  0 <= s <= e -> e <= max_i64 -> 1 <= maxr <= max_i64 -> s < Z.of_nat (length st) ->
  let o := get_entries maxr align (PInt s) (PInt e) (honest st) in
  exists count, o_request o = Some (s, count) /\ 1 <= count <= maxr /\ s + count - 1 <= e /\
    o_status o = 200 /\ o_served o = firstn (Z.to_nat count) (skipn (Z.to_nat s) st) /\ o_served o <> [].
Proof. exact honest_serves_stored. Qed.
Print Assumptions served_bytes_are_stored.

(* non-vacuity: the overflow corner inputs satisfy the hypotheses and behave *)
Example corner_max : parse_range 0 max_i64 1000 false = Some (0, 999)
  /\ parse_range (max_i64 - 999) max_i64 1000 true = Some (max_i64 - 999, max_i64 - 808)
  /\ entries_count (max_i64 - 5) max_i64 = 6.
Proof. vm_compute. repeat split. Qed.
