package main

// Alternative spellings of a configured log id.
//
// The witness is configured with log id STRINGS (map keys; the same strings key the sths table
// and come back from GetLogs).  A log id is the base64 text of a SHA-256 hash, so there are many
// other strings that a lenient reader would take for "the same log": the URL-safe alphabet, missing
// or surplus padding, white space, percent-encoding, another case, the hex form, a final character
// with non-zero spare bits, a line break in the middle (Go's base64 decoder skips those).  None of them
// is configured.  The property's sentence about unknown log ids does not depend on how near a miss is:
// anything that is not byte-identical to a configured id names an unknown log - refused, nothing
// stored under it, not listed, and the row of the configured log is left alone.
//
// An alias carries the key of the log it imitates, so every STH offered under it is a genuinely
// signed STH of that log (absent or matching log_id): the ONLY thing wrong with the request is the
// spelling of the id.  Written with the standard library only.

import (
	"encoding/base64"
	"encoding/hex"
	"fmt"
	"net/url"
	"strings"
)

type spellingT struct {
	kind string
	id   string
}

func percentAll(s string, upper bool) string {
	var sb strings.Builder
	for i := 0; i < len(s); i++ {
		if upper {
			fmt.Fprintf(&sb, "%%%02X", s[i])
		} else {
			fmt.Fprintf(&sb, "%%%02x", s[i])
		}
	}
	return sb.String()
}

func swapCaseAt(s string, want int) string {
	b := []byte(s)
	k := 0
	for i, c := range b {
		if (c >= 'a' && c <= 'z') || (c >= 'A' && c <= 'Z') {
			if k == want {
				b[i] = c ^ 0x20
				return string(b)
			}
			k++
		}
	}
	return s
}

const b64std = "ABCDEFGHIJKLMNOPQRSTUVWXYZabcdefghijklmnopqrstuvwxyz0123456789+/"

// spellingsOf lists the alternative spellings of a configured id (44 characters: 43 + one '=').
func spellingsOf(l *logT) []spellingT {
	id := l.id
	urlsafe := strings.NewReplacer("+", "-", "/", "_").Replace(id)
	nopad := strings.TrimRight(id, "=")
	out := []spellingT{
		{"urlsafe", urlsafe},
		{"urlsafe-nopad", strings.TrimRight(urlsafe, "=")},
		{"urlsafe-of-hash", base64.URLEncoding.EncodeToString(l.idHash)},
		{"nopad", nopad},
		{"extra-pad", id + "="},
		{"extra-pad2", id + "=="},
		{"trailing-newline", id + "\n"},
		{"trailing-crlf", id + "\r\n"},
		{"trailing-space", id + " "},
		{"trailing-tab", id + "\t"},
		{"leading-space", " " + id},
		{"leading-newline", "\n" + id},
		{"embedded-newline", id[:20] + "\n" + id[20:]},
		{"embedded-crlf", id[:32] + "\r\n" + id[32:]},
		{"percent-path", url.PathEscape(id)},
		{"percent-query", url.QueryEscape(id)},
		{"percent-query-lower", strings.NewReplacer("%2F", "%2f", "%2B", "%2b", "%3D", "%3d").Replace(url.QueryEscape(id))},
		{"percent-pad-only", nopad + "%3D"},
		{"percent-all", percentAll(id, true)},
		{"percent-twice", url.QueryEscape(url.QueryEscape(id))},
		{"plus-as-space", strings.ReplaceAll(id, "+", " ")},
		{"lower-case", strings.ToLower(id)},
		{"upper-case", strings.ToUpper(id)},
		{"one-letter-case", swapCaseAt(id, 0)},
		{"hex", hex.EncodeToString(l.idHash)},
		{"hex-upper", strings.ToUpper(hex.EncodeToString(l.idHash))},
		{"hex-0x", "0x" + hex.EncodeToString(l.idHash)},
		{"quoted", `"` + id + `"`},
		{"trailing-slash", id + "/"},
		{"trailing-nul", id + "\x00"},
	}
	// the 43rd character carries 4 bits of the hash and 2 spare bits, which the canonical text leaves 0:
	// the three other characters with the same upper 4 bits decode (leniently) to the same 32 bytes
	if len(nopad) == 43 {
		if k := strings.IndexByte(b64std, nopad[42]); k >= 0 {
			for d := 1; d < 4; d++ {
				out = append(out, spellingT{fmt.Sprintf("spare-bits-%d", d), nopad[:42] + string(b64std[k&^3|d]) + "="})
			}
		}
	}
	// middle letters in the other case, one at a time (a case-insensitive collation would fold them)
	for _, k := range []int{7, 19} {
		out = append(out, spellingT{fmt.Sprintf("letter-%d-case", k), swapCaseAt(id, k)})
	}
	var res []spellingT
	seen := map[string]bool{id: true}
	for _, s := range out {
		if seen[s.id] || s.id == "" {
			continue
		}
		seen[s.id] = true
		res = append(res, s)
	}
	return res
}

// aliasesOf: one unconfigured logT per alternative spelling of l's id, cached in the world.
func (w *world) aliasesOf(l *logT) []*logT {
	if w.aliases == nil {
		w.aliases = map[*logT][]*logT{}
	}
	if as, ok := w.aliases[l]; ok {
		return as
	}
	var as []*logT
	for _, s := range spellingsOf(l) {
		as = append(as, &logT{name: l.name + "~" + s.kind, id: s.id, sk: l.sk, sv: l.sv, configured: false, idHash: l.idHash, aliasOf: l, spelling: s.kind})
	}
	w.aliases[l] = as
	return as
}

// ---- the focused stream: every spelling, against a log that holds an STH ----

// spellingCase: logs A and B hold an STH each; every alternative spelling of either id then receives
// a validly signed STH of that log - by turns a stale one, a forked one, the honest successor with its
// proof, a replay of the held bytes - followed by GetSTH under the spelling, GetSTH under the configured
// id, and GetLogs every few steps.  Everything under a spelling has to be refused as an unknown log.
func (h *harness) spellingCase(viaHTTP bool, mode string) {
	w := h.newWorld()
	in := h.newInstance(mode, w.logs, viaHTTP)
	defer in.close()
	orc := &oracle{w: w, in: in, held: map[string]*heldT{}, submitted: map[string]bool{}, ok: true, tags: map[string]bool{}, strict: h.strict}
	hc := &histCase{w: w, tab: newHashTab(), mode: mode, tags: orc.tags}
	if viaHTTP {
		hc.mode += "+http"
		hc.tags["via:http"] = true
	} else {
		hc.tags["via:direct"] = true
	}
	hc.tags["db:"+mode] = true
	hc.tags["stream:id-spelling"] = true
	T0 := w.trees[0]
	ts := uint64(1000 + h.r.Intn(1000))
	sign := func(l *logT, t *tree, n uint64) []byte {
		ts++
		return h.buildSTH(sthSpec{size: n, root: t.root(n), ts: ts, signer: l, sigMode: "good", idMode: []string{"absent", "own"}[h.r.Intn(2)], idOwner: l,
			form: []string{"std", "getsth", "spaced"}[h.r.Intn(3)]})
	}
	getLogs := func() {
		op := &opT{kind: "getlogs", fault: "NoFault", desc: "getlogs"}
		s := step{op, in.exec(op, orc.submitted)}
		orc.onGetLogs(s)
		hc.steps = append(hc.steps, s)
	}
	getSTH := func(l *logT) {
		op := &opT{kind: "getsth", log: l, fault: "NoFault", desc: "getsth " + l.name}
		s := step{op, in.exec(op, orc.submitted)}
		orc.onGetSTH(s)
		hc.steps = append(hc.steps, s)
	}
	heldAt := map[*logT]uint64{}
	for _, l := range w.logs[:2] {
		m := 3 + uint64(h.r.Intn(int(T0.size())-4)) // 3 .. size-2: room below for a stale one, above for a successor
		heldAt[l] = m
		h.doUpdate(hc, orc, in, &opT{kind: "update", log: l, raw: sign(l, T0, m), fault: "NoFault",
			desc: fmt.Sprintf("spelling:first-use log=%s held=0 cand=%d", l.name, m)})
	}
	k := 0
	for _, l := range w.logs[:2] {
		m := heldAt[l]
		// four genuinely signed STHs of this log, offered under every spelling by turns
		type candT struct {
			what  string
			raw   []byte
			proof [][]byte
		}
		stale := 1 + uint64(h.r.Intn(int(m)-1))
		f := w.trees[1+h.r.Intn(3)]
		fn := 1 + uint64(h.r.Intn(int(f.size())))
		succ := m + 1 + uint64(h.r.Intn(int(T0.size()-m)))
		cands := []candT{
			{fmt.Sprintf("stale cand=%d", stale), sign(l, T0, stale), nil}, // what the seeded witness would cosign although it holds a larger one
			{fmt.Sprintf("fork-%s cand=%d", f.name, fn), sign(l, f, fn), nil},
			{fmt.Sprintf("successor cand=%d", succ), sign(l, T0, succ), T0.cons(m, succ)},
			{fmt.Sprintf("replay cand=%d", m), orc.held[l.id].raw, nil},
		}
		for _, al := range w.aliasesOf(l) {
			c := cands[k%len(cands)]
			k++
			op := &opT{kind: "update", log: al, fault: "NoFault", raw: c.raw, proof: cloneProof(c.proof)}
			op.desc = fmt.Sprintf("alt-spelling:%s log=%s held=%d %s proof=%d id=%q", al.spelling, al.name, m, c.what, len(op.proof), al.id)
			h.doUpdate(hc, orc, in, op)
			getSTH(l)
			if k%6 == 0 {
				getLogs()
			}
		}
	}
	getLogs()
	for _, s := range hc.steps {
		tagsOfStep(hc.tags, s)
	}
	hc.propOK, hc.note = orc.ok, orc.note
	h.emitHist(hc)
}

func (h *harness) spellingCases() {
	h.spellingCase(false, "memory-1conn")
	h.spellingCase(true, "file-1conn")
}
