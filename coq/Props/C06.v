(* C06 - the log front end presents one verifiable, append-only history.
   Property theorems only.  Model: CTFE/LogModel.v (honest reference backend from RFC 6962 2.1 +
   the eight endpoints, whose status decisions are the C08 functions over the gofrag-GENERATED
   conditions, get-entries over the GENERATED range arithmetic of C07) + the client-side verifiers.

   Every theorem is over EVERY operation history [ops] (submissions fresh and duplicate, rejected
   submissions, sequencing steps of any batch size, reads with any parameter strings, and
   [OPoke], which stands for the delayed SetSignature of a concurrent get-sth): concurrent
   requests are interleavings of atomic backend RPCs and cache accesses, and an arbitrary op list
   subsumes every interleaving (LogModel.v, header).  [answer_at s0 pre o] is the answer to [o]
   issued after history [pre].

   [standing H sign sig_ok cfg]: SHA-256 values are 32 bytes; a signature made by the signer
   verifies and is not empty; a regular log with chains stored in the backend and
   1 <= MaxGetEntriesAllowed.  Collision resistance is NOT assumed: where uniqueness matters the
   conclusion names the explicit collision.  [hist_ok]: root timestamps are uint64.
   [fits]: fewer than 2^64 leaves.  Numeric parameters are the raw strings; "parses to n" is
   [parse_int64 s = Some n] (strconv.ParseInt as modelled and corresponded under C08). *)
From Coq Require Import String ZArith NArith Bool List Lia.
From V Require Import Base.GoInt Base.Bytes Merkle.Merkle TLS.TlsModel TLS.TlsRoundTripA CT.Rfc6962Spec
  CTFE.HandlersModel CTFE.LogModel CTFE.LogProofsC CTFE.LogProofsD CTFE.LogProofsE CTFE.LogProofsF CTFE.LogCase.
From V Require Import gen.Sth CTFE.LogGenTie.
Import ListNotations.
Open Scope Z_scope.

(* 1. every STH served reports the backend's tree size, root hash and ns / 10^6 *)
Theorem sth_reports_backend : forall H sign sig_ok is_precert cfg trusted, standing H sign sig_ok cfg ->
  forall ns0 ops rnd, hist_ok ns0 ops ->
  let st := after H sign is_precert cfg trusted wiring_ok (init ns0) ops in fits st ->
  exists sg, answer_at H sign is_precert cfg trusted wiring_ok (init ns0) ops (OGetSTH rnd)
             = ok200 (BSth (bsize (be st)) (Z.to_N (bns (be st) / 1000000)) (broot H (be st)) sg).
Proof. exact f_sth_reports_backend. Qed.
Print Assumptions sth_reports_backend.

(* 2. ... and verifies under the log key: as the client checks it (serialize, verify) and, the same
      thing by C04, over the RFC 6962 3.5 bytes *)
Theorem sth_signature_verifies : forall H sign sig_ok is_precert cfg trusted, standing H sign sig_ok cfg ->
  forall ns0 ops rnd n t r sg, hist_ok ns0 ops ->
  fits (after H sign is_precert cfg trusted wiring_ok (init ns0) ops) ->
  answer_at H sign is_precert cfg trusted wiring_ok (init ns0) ops (OGetSTH rnd) = ok200 (BSth n t r sg) ->
  client_verify_sth sig_ok n t r sg = true /\ sig_ok (enc_sth_siginput t n r) sg = true.
Proof. exact f_sth_signature_verifies. Qed.
Print Assumptions sth_signature_verifies.

(* 3. the signature cache only changes WHICH valid signature is served: over the same backend
      state, whatever valid (input, signature) pairs two caches hold - in particular the caches
      of any two reachable states - the same (size, timestamp, root) is served, verifying *)
Theorem sig_cache_transparent : forall H sign sig_ok cfg, standing H sign sig_ok cfg ->
  forall st1 st2 rnd1 rnd2,
  be st1 = be st2 -> fits st1 -> 0 <= bns (be st1) < two64 -> cache_valid sig_ok st1 -> cache_valid sig_ok st2 ->
  exists size ts root sg1 sg2,
    snd (fe_get_sth H sign cfg st1 rnd1) = ok200 (BSth size ts root sg1) /\
    snd (fe_get_sth H sign cfg st2 rnd2) = ok200 (BSth size ts root sg2) /\
    client_verify_sth sig_ok size ts root sg1 = true /\ client_verify_sth sig_ok size ts root sg2 = true.
Proof. intros H sign sig_ok cfg S. exact (f_sig_cache_transparent H sign sig_ok (fun _ => false) cfg [] S). Qed.
Print Assumptions sig_cache_transparent.
Theorem reachable_cache_is_valid : forall H sign sig_ok is_precert cfg trusted, standing H sign sig_ok cfg ->
  forall ns0 ops, hist_ok ns0 ops -> cache_valid sig_ok (after H sign is_precert cfg trusted wiring_ok (init ns0) ops).
Proof. exact f_cache_valid_reachable. Qed.
Print Assumptions reachable_cache_is_valid.

(* 3b. a get-sth whose cache lookup missed and whose signer call returned an ERROR
       (LogModel.fe_get_sth_signer_fails: the cache is written only after the signer returned a
       signature) leaves backend and cache exactly as it found them and serves no tree head (500
       unless an error mapper says otherwise); the retry is answered as if the failed request had
       never been made - so theorems 1-3 apply to it unchanged *)
Theorem signer_failure_leaves_no_trace : forall H sign cfg st,
  fst (fe_get_sth_signer_fails H cfg st) = st /\
  a_body (snd (fe_get_sth_signer_fails H cfg st)) = BNone /\
  (forall rnd, fe_get_sth H sign cfg (fst (fe_get_sth_signer_fails H cfg st)) rnd = fe_get_sth H sign cfg st rnd) /\
  ((forall x, length (H x) = 32%nat) -> c_sth cfg = SthLog -> c_mapper cfg EInternal = None ->
   a_status (snd (fe_get_sth_signer_fails H cfg st)) = 500).
Proof.
  intros H sign cfg st. destruct (f_signer_failure H sign cfg st) as (A & B & C).
  split; [exact A|]. split; [exact B|]. split; [exact C|]. apply signer_fails_500.
Qed.
Print Assumptions signer_failure_leaves_no_trace.

(* 4. any two STHs served in a history: the earlier one is not larger, and at any later time the
      front end serves, for their two sizes, a consistency proof that verifies against their roots *)
Theorem any_two_sths_linked : forall H sign sig_ok is_precert cfg trusted, standing H sign sig_ok cfg ->
  forall s0 p1 mid mid' r1 r2 n1 t1 root1 sg1 n2 t2 root2 sg2 pf ps,
  answer_at H sign is_precert cfg trusted wiring_ok s0 p1 (OGetSTH r1) = ok200 (BSth n1 t1 root1 sg1) ->
  answer_at H sign is_precert cfg trusted wiring_ok s0 (p1 ++ OGetSTH r1 :: mid) (OGetSTH r2) = ok200 (BSth n2 t2 root2 sg2) ->
  parse_int64 pf = Some (Z.of_N n1) -> parse_int64 ps = Some (Z.of_N n2) ->
  (n1 <= n2)%N /\
  exists proof, answer_at H sign is_precert cfg trusted wiring_ok s0 (p1 ++ OGetSTH r1 :: mid ++ OGetSTH r2 :: mid') (OConsistency pf ps)
                = ok200 (BProof proof)
                /\ client_verify_consistency H n1 n2 root1 root2 proof = true.
Proof. exact f_any_two_sths_linked. Qed.
Print Assumptions any_two_sths_linked.

(* 5. every entry served for index i in the tree of a served STH of size n comes with an audit
      path (get-entry-and-proof) that verifies against THAT STH's root; the entry is the stored leaf *)
Theorem served_entry_has_verifying_path : forall H sign sig_ok is_precert cfg trusted, standing H sign sig_ok cfg ->
  forall ns0 p1 mid r n t root sg pli pts i,
  hist_ok ns0 (p1 ++ OGetSTH r :: mid) ->
  answer_at H sign is_precert cfg trusted wiring_ok (init ns0) p1 (OGetSTH r) = ok200 (BSth n t root sg) ->
  parse_int64 pli = Some i -> parse_int64 pts = Some (Z.of_N n) -> 0 <= i < Z.of_N n ->
  exists lf p,
    nth_error (bs (be (after H sign is_precert cfg trusted wiring_ok (init ns0) (p1 ++ OGetSTH r :: mid)))) (Z.to_nat i) = Some lf
    /\ answer_at H sign is_precert cfg trusted wiring_ok (init ns0) (p1 ++ OGetSTH r :: mid) (OEntryAndProof pli pts)
       = ok200 (BEap (lv lf) (lx lf) p)
    /\ p = path H (Z.to_N i) (firstN n (LogModel.values (be (after H sign is_precert cfg trusted wiring_ok (init ns0) (p1 ++ OGetSTH r :: mid)))))
    /\ client_verify_inclusion H (Z.to_N i) n (leaf_hash H (lv lf)) root p = true.
Proof. exact f_served_entry_has_verifying_path. Qed.
Print Assumptions served_entry_has_verifying_path.

(* 6. get-entries serves the stored bytes of consecutive sequenced indices from start (never empty,
      never more than asked or allowed) ... *)
Theorem get_entries_serves_sequenced_leaves : forall H sign sig_ok is_precert cfg trusted, standing H sign sig_ok cfg ->
  forall s0 ops ps pe st0 e0,
  parse_int64 ps = Some st0 -> parse_int64 pe = Some e0 -> 0 <= st0 <= e0 ->
  st0 < Z.of_N (bsize (be (after H sign is_precert cfg trusted wiring_ok s0 ops))) ->
  exists es, answer_at H sign is_precert cfg trusted wiring_ok s0 ops (OEntries ps pe) = ok200 (BEntries es) /\ es <> [] /\
    Z.of_nat (length es) <= e0 - st0 + 1 /\ Z.of_nat (length es) <= c_maxr cfg /\
    forall j v x, nth_error es j = Some (v, x) ->
      exists lf, nth_error (bs (be (after H sign is_precert cfg trusted wiring_ok s0 ops))) (Z.to_nat st0 + j) = Some lf /\ v = lv lf /\ x = lx lf.
Proof. exact f_entries_are_sequenced. Qed.
Print Assumptions get_entries_serves_sequenced_leaves.

(* ... and every sequenced leaf is found by its leaf hash (get-proof-by-hash) in every tree that
   contains it, at the lowest index carrying that hash, with a verifying audit path *)
Theorem served_entry_found_by_hash : forall H sign sig_ok is_precert cfg trusted, standing H sign sig_ok cfg ->
  forall ns0 ops i lf n pts, hist_ok ns0 ops ->
  let st := after H sign is_precert cfg trusted wiring_ok (init ns0) ops in
  nth_error (bs (be st)) i = Some lf ->
  parse_int64 pts = Some n -> Z.of_nat i < n -> n <= Z.of_N (bsize (be st)) ->
  exists j p lf', answer_at H sign is_precert cfg trusted wiring_ok (init ns0) ops (OProofByHash (leaf_hash H (lv lf)) pts) = ok200 (BIncl j p)
    /\ (j <= N.of_nat i)%N /\ nth_error (bs (be st)) (N.to_nat j) = Some lf' /\ leaf_hash H (lv lf') = leaf_hash H (lv lf)
    /\ client_verify_inclusion H j (Z.to_N n) (leaf_hash H (lv lf)) (root_of H (be st) (Z.to_N n)) p = true.
Proof. exact f_served_entry_found_by_hash. Qed.
Print Assumptions served_entry_found_by_hash.

(* 7. an accepted submission (an SCT was issued) is STORED: the backend holds, under the
      certificate's identity hash, the leaf  enc_leaf sct_timestamp e0 []  built by the submission
      (p0, cert0, chain0) that created it - this very submission when the identity hash was new,
      otherwise an earlier one with the same identity hash (cert0 = cert, or cert0 <> cert is an
      explicit collision H cert0 = H cert); the SCT signs exactly that leaf; the leaf stays *)
Theorem accepted_submission_is_stored : forall H sign sig_ok is_precert cfg trusted, standing H sign sig_ok cfg ->
  forall ns0 pre p cert chain pe now rnd ts sg,
  hist_ok ns0 (pre ++ [OSubmit p cert chain pe now rnd]) ->
  answer_at H sign is_precert cfg trusted wiring_ok (init ns0) pre (OSubmit p cert chain pe now rnd) = ok200 (BSct ts sg) ->
  exists p0 cert0 chain0 pe0 now0 rnd0 e0 x0,
    let lf0 := {| lv := enc_leaf ts e0 []; lx := x0; lid := H cert |} in
    In (OSubmit p0 cert0 chain0 pe0 now0 rnd0) (pre ++ [OSubmit p cert chain pe now rnd])
    /\ H cert0 = H cert /\ ts = ms_of_ns now0
    /\ built H is_precert lf0 p0 cert0 chain0 pe0 now0 /\ entry_of p0 cert0 pe0 = Some e0 /\ entry_ok e0
    /\ In lf0 (all_leaves (be (after H sign is_precert cfg trusted wiring_ok (init ns0) (pre ++ [OSubmit p cert chain pe now rnd]))))
    /\ sig_ok (enc_sct_siginput ts e0 []) sg = true
    /\ ((forall lf, In lf (all_leaves (be (after H sign is_precert cfg trusted wiring_ok (init ns0) pre))) -> lid lf <> H cert) ->
        p0 = p /\ cert0 = cert /\ chain0 = chain /\ pe0 = pe /\ now0 = now).
Proof. exact f_accepted_submission. Qed.
Print Assumptions accepted_submission_is_stored.
Theorem stored_leaves_persist : forall H sign sig_ok is_precert cfg trusted, standing H sign sig_ok cfg ->
  forall s0 a b lf,
  In lf (all_leaves (be (after H sign is_precert cfg trusted wiring_ok s0 a))) ->
  In lf (all_leaves (be (after H sign is_precert cfg trusted wiring_ok s0 (a ++ b)))).
Proof. exact f_leaves_persist. Qed.
Print Assumptions stored_leaves_persist.

(* 8. once sequenced (at index i), for the leaf built by submission (p, cert, chain) with SCT
      timestamp ms_of_ns now:  the leaf hash a client computes from certificate + SCT alone is the
      backend's leaf hash of the stored LeafValue;  the stored entry decodes (ct.RawLogEntryFromLeaf)
      to that certificate and chain;  get-proof-by-hash finds it in every tree containing it, with a
      verifying path;  and the leaf hash occurs at NO OTHER index - except through an explicit
      collision of H, or for a twin precertificate (see single_index_refuted_for_twin_precertificates) *)
Theorem sct_leaf_found_once_sequenced : forall H sign sig_ok is_precert cfg trusted, standing H sign sig_ok cfg ->
  forall ns0 ops i lf p cert chain pe now, hist_ok ns0 ops ->
  let st := after H sign is_precert cfg trusted wiring_ok (init ns0) ops in
  nth_error (bs (be st)) i = Some lf -> built H is_precert lf p cert chain pe now ->
  client_leaf_hash H p cert pe (ms_of_ns now) = Some (leaf_hash H (lv lf)) /\
  (short (lx lf) -> decodes_to (lv lf) (lx lf) cert chain = true) /\
  (forall n pts, parse_int64 pts = Some n -> Z.of_nat i < n -> n <= Z.of_N (bsize (be st)) ->
     exists j pth lf', answer_at H sign is_precert cfg trusted wiring_ok (init ns0) ops (OProofByHash (leaf_hash H (lv lf)) pts) = ok200 (BIncl j pth)
       /\ (j <= N.of_nat i)%N /\ nth_error (bs (be st)) (N.to_nat j) = Some lf'
       /\ leaf_hash H (lv lf') = leaf_hash H (lv lf)
       /\ client_verify_inclusion H j (Z.to_N n) (leaf_hash H (lv lf)) (root_of H (be st) (Z.to_N n)) pth = true) /\
  (forall j lf', nth_error (bs (be st)) j = Some lf' -> leaf_hash H (lv lf') = leaf_hash H (lv lf) ->
     j = i \/ collision_at H (lv lf') (lv lf) \/ (p = true /\ lv lf' = lv lf /\ lid lf' <> lid lf)).
Proof. exact f_sct_leaf_found. Qed.
Print Assumptions sct_leaf_found_once_sequenced.

(* the unrestricted "single index whose entry decodes to the submitted certificate" is false for
   twin precertificates (same TBSCertificate and issuer key, different signature bytes, same
   millisecond): both get SCTs with the same timestamp, both leaves are sequenced with the SAME
   LeafValue, and get-proof-by-hash for the second submission's leaf hash returns index 0, whose
   entry decodes to the FIRST precertificate, not the second *)
Theorem single_index_refuted_for_twin_precertificates :
  twin_c1 <> twin_c2 /\ toyH twin_c1 <> toyH twin_c2 /\ hist_ok 0 twin_ops /\
  is_sct (twin_ans [] twin_op1) 1700000000123 = true /\
  is_sct (twin_ans [twin_op1] twin_op2) 1700000000123 = true /\
  exists lf0 lf1,
    nth_error (bs (be twin_st)) 0 = Some lf0 /\ nth_error (bs (be twin_st)) 1 = Some lf1 /\
    lv lf0 = lv lf1 /\ lid lf0 <> lid lf1 /\
    client_leaf_hash toyH true twin_c2 twin_pe 1700000000123 = Some (leaf_hash toyH (lv lf1)) /\
    is_incl_at (twin_ans twin_ops (OProofByHash (leaf_hash toyH (lv lf1)) (hex "32"))) 0 = true /\
    decodes_to (lv lf0) (lx lf0) twin_c1 [twin_ca] = true /\
    decodes_to (lv lf0) (lx lf0) twin_c2 [twin_ca] = false.
Proof. exact twin_precert_witness. Qed.
Print Assumptions single_index_refuted_for_twin_precertificates.

(* 9. (first, second) are forwarded in this order: what is served is PROOF(first, D[0:second]) of
      RFC 6962 2.1.2 and it verifies between the roots of those two sizes;  with the two swapped
      the same request is not answered at all *)
Theorem first_second_not_swapped : forall H sign sig_ok is_precert cfg trusted, standing H sign sig_ok cfg ->
  forall ns0 ops pf ps f s,
  let st := after H sign is_precert cfg trusted wiring_ok (init ns0) ops in
  parse_int64 pf = Some f -> parse_int64 ps = Some s -> 0 < f -> f <= s -> s <= Z.of_N (bsize (be st)) ->
  exists pr, answer_at H sign is_precert cfg trusted wiring_ok (init ns0) ops (OConsistency pf ps) = ok200 (BProof pr)
    /\ pr = cproof H (Z.to_N f) (firstN (Z.to_N s) (LogModel.values (be st)))
    /\ client_verify_consistency H (Z.to_N f) (Z.to_N s) (root_of H (be st) (Z.to_N f)) (root_of H (be st) (Z.to_N s)) pr = true.
Proof. exact f_first_second. Qed.
Print Assumptions first_second_not_swapped.
Theorem first_second_swapped_is_refuted : forall H sign sig_ok is_precert cfg trusted, standing H sign sig_ok cfg ->
  forall ns0 ops pf ps f s,
  c_mapper cfg (ECode 3) = None ->
  parse_int64 pf = Some f -> parse_int64 ps = Some s -> 0 < f -> f < s ->
  a_status (answer_at H sign is_precert cfg trusted wiring_cons_swapped (init ns0) ops (OConsistency pf ps)) = 400.
Proof. exact f_first_second_swapped. Qed.
Print Assumptions first_second_swapped_is_refuted.

(* 10. (leaf_index, tree_size) are forwarded in this order: PATH(leaf_index, D[0:tree_size]) of
       RFC 6962 2.1.1 with the stored leaf of that index; swapped, the request is not answered *)
Theorem index_vs_size_not_mixed : forall H sign sig_ok is_precert cfg trusted, standing H sign sig_ok cfg ->
  forall ns0 ops pli pts i t, hist_ok ns0 ops ->
  let st := after H sign is_precert cfg trusted wiring_ok (init ns0) ops in
  parse_int64 pli = Some i -> parse_int64 pts = Some t -> 0 <= i -> i < t -> t <= Z.of_N (bsize (be st)) ->
  exists lf pth, nth_error (bs (be st)) (Z.to_nat i) = Some lf
    /\ answer_at H sign is_precert cfg trusted wiring_ok (init ns0) ops (OEntryAndProof pli pts) = ok200 (BEap (lv lf) (lx lf) pth)
    /\ pth = path H (Z.to_N i) (firstN (Z.to_N t) (LogModel.values (be st)))
    /\ client_verify_inclusion H (Z.to_N i) (Z.to_N t) (leaf_hash H (lv lf)) (root_of H (be st) (Z.to_N t)) pth = true.
Proof. exact f_index_size. Qed.
Print Assumptions index_vs_size_not_mixed.
Theorem index_vs_size_swapped_is_refuted : forall H sign sig_ok is_precert cfg trusted, standing H sign sig_ok cfg ->
  forall ns0 ops pli pts i t,
  c_mapper cfg (ECode 3) = None ->
  parse_int64 pli = Some i -> parse_int64 pts = Some t -> 0 <= i -> i < t ->
  a_status (answer_at H sign is_precert cfg trusted wiring_eap_swapped (init ns0) ops (OEntryAndProof pli pts)) = 400.
Proof. exact f_index_size_swapped. Qed.
Print Assumptions index_vs_size_swapped_is_refuted.

(* non-vacuity: the standing assumptions are satisfiable, and a concrete history (two certificates,
   a duplicate, two sequencing steps, two STHs) meets the hypotheses of the theorems above: the
   STHs are served with sizes 1 and 2, the parameter strings parse, the duplicate gets the FIRST
   submission's timestamp *)
Example standing_is_satisfiable : standing toyH replay_sign replay_sig_ok toy_cfg.
Proof. exact toy_standing. Qed.
Example history_meets_hypotheses :
  let c1 := hex "3003020101" in let c2 := hex "3003020102" in let ca := hex "30030201ff" in
  let p1 := [OSubmit false c1 [ca] None 1700000000123456789 0; OSeq 5 1700000001000000000] in
  let mid := [OSubmit false c2 [ca] None 1700000002123456789 0; OSubmit false c1 [ca] None 1700000003000000000 0;
              OSeq 1 1700000004999999999] in
  let ans := answer_at toyH replay_sign (fun _ => false) toy_cfg [ca] wiring_ok (init 5) in
  hist_ok 5 (p1 ++ OGetSTH 1 :: mid ++ [OGetSTH 2])
  /\ (exists r sg, ans p1 (OGetSTH 1) = ok200 (BSth 1 1700000001000 r sg))
  /\ (exists r sg, ans (p1 ++ OGetSTH 1 :: mid) (OGetSTH 2) = ok200 (BSth 2 1700000004999 r sg))
  /\ parse_int64 (hex "31") = Some 1 /\ parse_int64 (hex "32") = Some 2 /\ parse_int64 (hex "30") = Some 0
  /\ is_sct (ans (p1 ++ OGetSTH 1 :: [OSubmit false c2 [ca] None 1700000002123456789 0]) (OSubmit false c1 [ca] None 1700000003000000000 0))
            1700000000123 = true.
Proof.
  cbv zeta. split.
  { split; [change two64 with 18446744073709551616; lia|].
    repeat constructor; change two64 with 18446744073709551616; lia. }
  split; [do 2 eexists; vm_compute; reflexivity|].
  split; [do 2 eexists; vm_compute; reflexivity|].
  repeat split; vm_compute; reflexivity.
Qed.

(* the two numeric fields of a served tree head as sth.go LogSTHGetter.GetSTH computes them today (translated on
   every run): the backend root's nanosecond timestamp divided by 1000 twice - the millisecond reading the model's
   fe_get_sth signs (`bns b / 1000 / 1000`) - and the backend's tree size unchanged *)
Theorem sth_timestamp_as_in_source : forall ns, 0 <= ns -> sth_timestamp_gen ns = ns / 1000 / 1000.
Proof. exact sth_timestamp_meaning. Qed.
Print Assumptions sth_timestamp_as_in_source.

Theorem sth_tree_size_as_in_source : forall size, sth_tree_size_gen size = size.
Proof. exact sth_tree_size_meaning. Qed.
Print Assumptions sth_tree_size_as_in_source.
