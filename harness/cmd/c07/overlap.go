package main

// Fourth part of the C07 harness: OVERLAPPING get-entries requests to one instance.  "Answers with
// the stored leaf_input and extra_data of consecutive indices beginning at start, unmodified" is a
// statement about every request, also about one whose answer is still being written (a slow peer,
// an answer larger than the socket buffers) while the instance handles other requests.  Each reader
// asks for its own range and compares what IT received with the stored bytes of ITS range and with
// the answer the same request got when it was made alone.
//
// Three ways of overlapping, each over several classes of stored entries (tiny, medium, large, of
// equal size so that answers to different ranges have equal length; and of mixed sizes):
//   - gated:  in-process; K requests are held inside the handler's Write (the writer has consumed
//     the beginning of the bytes it was handed and consumes the rest later, as a blocked connection
//     does), K further requests for other ranges are then served completely, then the first K are
//     let go;
//   - timed:  in-process; K readers issue requests back to back through writers that consume the
//     bytes piecewise with pauses; no synchronisation between readers (this is the form the race
//     detector can see through);
//   - socket: a real net/http server on the loopback interface with small socket buffers; K slow
//     readers take the response headers and leave the body unread while K fast readers are served.

import (
	"bytes"
	"context"
	"encoding/json"
	"flag"
	"fmt"
	"io"
	"math/rand"
	"net"
	"net/http"
	"net/http/httptest"
	"sync"
	"time"

	ct "github.com/google/certificate-transparency-go"
	"github.com/google/certificate-transparency-go/tls"
	"github.com/google/certificate-transparency-go/trillian/ctfe"
	"github.com/google/trillian"
	"github.com/google/trillian/types"

	"verif/harness/ctfeenv"
	"verif/harness/lib"
	"verif/harness/pki"
)

type ovClass struct {
	name        string
	leaf, extra int // bytes of certificate data in the leaf, bytes of extra_data
	count       int // entries per request
	mixed       bool
}

type ovResult struct {
	start  int64
	reader string // "slow" or "fast"
	status int
	body   []byte
	err    string
}

// slowWriter is an http.ResponseWriter that takes its time over the bytes it is handed, as a
// connection to a slow peer does: it consumes the beginning, then (gated) waits to be released or
// (timed) pauses between pieces, and consumes the rest.
type slowWriter struct {
	h       http.Header
	code    int
	buf     bytes.Buffer
	entered chan struct{}
	once    sync.Once
	release <-chan struct{} // nil: timed
	pause   time.Duration
}

func (s *slowWriter) Header() http.Header { return s.h }
func (s *slowWriter) WriteHeader(c int) {
	if s.code == 0 {
		s.code = c
	}
}
func (s *slowWriter) Write(p []byte) (int, error) {
	if s.code == 0 {
		s.code = http.StatusOK
	}
	n0 := len(p) / 4
	if n0 > 512 {
		n0 = 512
	}
	s.buf.Write(p[:n0])
	s.once.Do(func() { close(s.entered) })
	rest := p[n0:]
	if s.release != nil {
		select {
		case <-s.release:
		case <-time.After(10 * time.Second):
		}
		s.buf.Write(rest)
		return len(p), nil
	}
	step := len(rest)/8 + 1
	for len(rest) > 0 {
		time.Sleep(s.pause)
		k := step
		if k > len(rest) {
			k = len(rest)
		}
		s.buf.Write(rest[:k])
		rest = rest[k:]
	}
	return len(p), nil
}

func serveInto(h http.Handler, w http.ResponseWriter, target string) (err string) {
	defer func() {
		if p := recover(); p != nil {
			err = fmt.Sprint("handler panicked: ", p)
		}
	}()
	h.ServeHTTP(w, httptest.NewRequest(http.MethodGet, target, nil))
	return ""
}

// smallBufListener gives accepted connections a small send buffer, so that an answer of a few
// hundred kilobytes does not disappear into the kernel.
type smallBufListener struct{ net.Listener }

func (l smallBufListener) Accept() (net.Conn, error) {
	c, err := l.Listener.Accept()
	if tc, ok := c.(*net.TCPConn); ok && err == nil {
		tc.SetWriteBuffer(32 << 10)
	}
	return c, err
}

func overlapping(w *lib.Writer, r *rand.Rand) {
	root := pki.Issue(pki.Opts{CN: "overlap root", IsCA: true, KeyIdx: 2}, nil)
	env, err := ctfeenv.New(ctfeenv.Options{Roots: []*pki.Entity{root}, Dir: *lib.OutDir})
	if err != nil {
		panic(err)
	}
	oldMax := ctfe.MaxGetEntriesAllowed
	ctfe.MaxGetEntriesAllowed = 1000
	flag.Set("align_getentries", "false")
	defer func() { ctfe.MaxGetEntriesAllowed = oldMax }()

	const K = 24 // requests held back per round; as many again are served meanwhile
	var (
		store []leafT
		mu    sync.Mutex
		seen  map[int64]int64 // start -> count the backend was asked for (starts are distinct within a round)
	)
	env.Backend.GetLeavesByRangeFn = func(_ context.Context, req *trillian.GetLeavesByRangeRequest) (*trillian.GetLeavesByRangeResponse, error) {
		mu.Lock()
		seen[req.StartIndex] = req.Count
		store := store
		mu.Unlock()
		rb, _ := (&types.LogRootV1{TreeSize: uint64(len(store)), RootHash: make([]byte, 32), TimestampNanos: 1}).MarshalBinary()
		rsp := &trillian.GetLeavesByRangeResponse{SignedLogRoot: &trillian.SignedLogRoot{LogRoot: rb}}
		for i := req.StartIndex; i >= 0 && i < req.StartIndex+req.Count && i < int64(len(store)); i++ {
			l := store[i]
			rsp.Leaves = append(rsp.Leaves, &trillian.LogLeaf{LeafIndex: l.Index, LeafValue: append([]byte{}, l.Value...), ExtraData: append([]byte{}, l.Extra...)})
		}
		return rsp, nil
	}
	path := env.Prefix + ct.GetEntriesPath
	h := http.Handler(env.Inst.Handlers[path])
	target := func(start int64, count int) string {
		return fmt.Sprintf("%s?start=%d&end=%d", path, start, start+int64(count)-1)
	}

	// the real server
	mux := http.NewServeMux()
	mux.Handle(path, h)
	srv := httptest.NewUnstartedServer(mux)
	srv.Listener = smallBufListener{srv.Listener}
	srv.Start()
	defer srv.Close()
	tr := &http.Transport{DisableCompression: true, MaxIdleConnsPerHost: 2 * K,
		DialContext: func(ctx context.Context, network, addr string) (net.Conn, error) {
			c, err := (&net.Dialer{}).DialContext(ctx, network, addr)
			if tc, ok := c.(*net.TCPConn); ok && err == nil {
				tc.SetReadBuffer(32 << 10)
			}
			return c, err
		}}
	defer tr.CloseIdleConnections()
	hc := &http.Client{Transport: tr, Timeout: 60 * time.Second}

	gated := func(starts []int64, count int) []ovResult {
		res := make([]ovResult, len(starts))
		release := make(chan struct{})
		var wg sync.WaitGroup
		sws := make([]*slowWriter, K)
		done := make([]chan struct{}, K)
		for j := 0; j < K; j++ {
			sws[j] = &slowWriter{h: http.Header{}, entered: make(chan struct{}), release: release}
			done[j] = make(chan struct{})
			wg.Add(1)
			go func(j int) {
				defer wg.Done()
				defer close(done[j])
				e := serveInto(h, sws[j], target(starts[j], count))
				res[j] = ovResult{start: starts[j], reader: "slow", err: e}
			}(j)
		}
		for j := 0; j < K; j++ { // every held request is inside Write (or has ended without one)
			select {
			case <-sws[j].entered:
			case <-done[j]:
			}
		}
		var wg2 sync.WaitGroup
		for j := K; j < len(starts); j++ {
			wg2.Add(1)
			go func(j int) {
				defer wg2.Done()
				rec := httptest.NewRecorder()
				e := serveInto(h, rec, target(starts[j], count))
				res[j] = ovResult{start: starts[j], reader: "fast", status: rec.Code, body: rec.Body.Bytes(), err: e}
			}(j)
		}
		wg2.Wait()
		close(release)
		wg.Wait()
		for j := 0; j < K; j++ {
			res[j].status, res[j].body = sws[j].code, sws[j].buf.Bytes()
		}
		return res
	}
	timed := func(starts []int64, count int) []ovResult {
		res := make([]ovResult, len(starts))
		var wg sync.WaitGroup
		for g := 0; g < K; g++ {
			wg.Add(1)
			go func(g int) {
				defer wg.Done()
				for j := g; j < len(starts); j += K {
					sw := &slowWriter{h: http.Header{}, entered: make(chan struct{}), pause: 40 * time.Microsecond}
					e := serveInto(h, sw, target(starts[j], count))
					res[j] = ovResult{start: starts[j], reader: "slow", status: sw.code, body: sw.buf.Bytes(), err: e}
				}
			}(g)
		}
		wg.Wait()
		return res
	}
	socket := func(starts []int64, count int) []ovResult {
		res := make([]ovResult, len(starts))
		release := make(chan struct{})
		var wg sync.WaitGroup
		entered := make([]chan struct{}, K)
		for j := 0; j < K; j++ {
			entered[j] = make(chan struct{})
			wg.Add(1)
			go func(j int) {
				defer wg.Done()
				res[j] = ovResult{start: starts[j], reader: "slow"}
				rsp, err := hc.Get(srv.URL + target(starts[j], count))
				close(entered[j]) // the headers are here: the handler is writing (or has finished)
				if err != nil {
					res[j].err = "request failed: " + err.Error()
					return
				}
				select {
				case <-release:
				case <-time.After(20 * time.Second):
				}
				b, err := io.ReadAll(rsp.Body)
				rsp.Body.Close()
				if err != nil {
					res[j].err = "reading the body failed: " + err.Error()
				}
				res[j].status, res[j].body = rsp.StatusCode, b
			}(j)
		}
		for j := 0; j < K; j++ {
			<-entered[j]
		}
		var wg2 sync.WaitGroup
		for j := K; j < len(starts); j++ {
			wg2.Add(1)
			go func(j int) {
				defer wg2.Done()
				res[j] = ovResult{start: starts[j], reader: "fast"}
				rsp, err := hc.Get(srv.URL + target(starts[j], count))
				if err != nil {
					res[j].err = "request failed: " + err.Error()
					return
				}
				b, err := io.ReadAll(rsp.Body)
				rsp.Body.Close()
				if err != nil {
					res[j].err = "reading the body failed: " + err.Error()
				}
				res[j].status, res[j].body = rsp.StatusCode, b
			}(j)
		}
		wg2.Wait()
		close(release)
		wg.Wait()
		return res
	}

	classes := []ovClass{
		{name: "tiny", leaf: 3, extra: 2, count: 2},
		{name: "medium", leaf: 700, extra: 1500, count: 8},
		{name: "large", leaf: 3 << 10, extra: 8 << 10, count: 16},
		{name: "mixed", leaf: 1500, extra: 2500, count: 6, mixed: true},
	}
	type mode struct {
		name string
		run  func([]int64, int) []ovResult
	}
	modes := []mode{{"gated", gated}, {"timed", timed}, {"socket", socket}}
	reps := lib.Count(1, 6)
	for rep := 0; rep < reps; rep++ {
		for _, cl := range classes {
			// the stored log of this class
			var st []leafT
			for i := 0; i < 2*K+cl.count; i++ {
				nl, nx := cl.leaf, cl.extra
				if cl.mixed {
					nl, nx = 1+r.Intn(cl.leaf), 1+r.Intn(cl.extra)
				}
				c := make([]byte, nl)
				x := make([]byte, nx)
				r.Read(c)
				r.Read(x)
				lf, err := tls.Marshal(ct.MerkleTreeLeaf{Version: ct.V1, LeafType: ct.TimestampedEntryLeafType,
					TimestampedEntry: &ct.TimestampedEntry{Timestamp: r.Uint64(), EntryType: ct.X509LogEntryType, X509Entry: &ct.ASN1Cert{Data: c}}})
				if err != nil {
					panic(err)
				}
				st = append(st, leafT{int64(i), lf, x})
			}
			mu.Lock()
			store, seen = st, map[int64]int64{}
			mu.Unlock()
			// what an answer is, against the stored log: "" when it is the stored bytes of a non-empty run
			// of at most count consecutive indices beginning at start
			verify := func(start int64, status int, body []byte) (string, ct.GetEntriesResponse) {
				var ge ct.GetEntriesResponse
				if status != 200 {
					return fmt.Sprintf("answered %d", status), ge
				}
				if err := json.Unmarshal(body, &ge); err != nil {
					return "the body does not parse", ct.GetEntriesResponse{}
				}
				if len(ge.Entries) < 1 || len(ge.Entries) > cl.count {
					return fmt.Sprintf("served %d entries", len(ge.Entries)), ge
				}
				for k, e := range ge.Entries {
					idx := start + int64(k)
					if idx < int64(len(st)) && bytes.Equal(e.LeafInput, st[idx].Value) && bytes.Equal(e.ExtraData, st[idx].Extra) {
						continue
					}
					whose := "bytes of no stored entry"
					for _, l := range st {
						if bytes.Equal(e.LeafInput, l.Value) && bytes.Equal(e.ExtraData, l.Extra) {
							whose = fmt.Sprintf("the stored entry %d", l.Index)
						}
					}
					return fmt.Sprintf("served entry %d is not the stored entry %d: it holds %s", k, idx, whose), ge
				}
				return "", ge
			}
			// every request made alone, first: the reference answer for its range
			type ref struct {
				status int
				body   []byte
				fail   string
				ge     ct.GetEntriesResponse
			}
			alone := make([]ref, 2*K)
			for s := 0; s < 2*K; s++ {
				rec := httptest.NewRecorder()
				serveInto(h, rec, target(int64(s), cl.count))
				a := ref{status: rec.Code, body: append([]byte{}, rec.Body.Bytes()...)}
				a.fail, a.ge = verify(int64(s), a.status, a.body)
				alone[s] = a
			}
			for _, m := range modes {
				if m.name == "socket" && cl.name == "tiny" {
					continue // an answer that fits the connection's buffers is complete before anything overlaps
				}
				starts := make([]int64, 2*K)
				for i, p := range r.Perm(2 * K) {
					starts[i] = int64(p)
				}
				mu.Lock()
				seen = map[int64]int64{}
				mu.Unlock()
				env.Backend.Reset()
				res := m.run(starts, cl.count)
				env.Backend.Reset()
				for j, o := range res {
					end := o.start + int64(cl.count) - 1
					fail := ""
					bad := func(f string, a ...interface{}) {
						if fail == "" {
							fail = fmt.Sprintf("get-entries start=%d end=%d (%s entries, %s reader, %s) overlapping %d other get-entries requests: ", o.start, end, cl.name, o.reader, m.name, 2*K-1) + fmt.Sprintf(f, a...)
						}
					}
					var ge ct.GetEntriesResponse
					if a := alone[o.start]; o.err != "" {
						bad("%s", o.err)
					} else if o.status == a.status && bytes.Equal(o.body, a.body) {
						// byte for byte the answer the request got alone: the verdict on that answer holds
						ge = a.ge
						if a.fail != "" {
							bad("%s", a.fail)
						}
					} else {
						var f string
						if f, ge = verify(o.start, o.status, o.body); f != "" {
							bad("%s", f)
						}
						bad("the answer differs from the answer to the same request made alone")
					}
					coq, key := "CGet 1 false PBad PBad (RCode 0) 400 None []", fmt.Sprintf("overlap-%d-%s-%s-%d", rep, cl.name, m.name, j)
					mu.Lock()
					cnt, called := seen[o.start]
					mu.Unlock()
					var reqJ interface{}
					if called {
						reqJ = map[string]int64{"start": o.start, "count": cnt}
					}
					if cl.name == "tiny" && called && o.err == "" {
						var lc, sv []string
						for i := o.start; i < o.start+cnt && i < int64(len(store)); i++ {
							lc = append(lc, lib.Pair(lib.Z(store[i].Index), lib.Hex(store[i].Value), lib.Hex(store[i].Extra)))
						}
						for _, e := range ge.Entries {
							sv = append(sv, lib.Pair(lib.Hex(e.LeafInput), lib.Hex(e.ExtraData)))
						}
						coq = fmt.Sprintf("CGet 1000 false (PInt %s) (PInt %s) (RLeaves %s %s) %s %s %s", lib.Z(o.start), lib.Z(end),
							lib.Some(lib.Z(int64(len(store)))), lib.List(lc), lib.Z(int64(o.status)), lib.Some(lib.Pair(lib.Z(o.start), lib.Z(cnt))), lib.List(sv))
						key = ""
					}
					w.Add(lib.Case{Coq: coq, Key: key,
						Input:  map[string]interface{}{"op": "read-overlapping", "start": o.start, "end": end, "entries": cl.name, "overlap": m.name, "reader": o.reader, "others": 2*K - 1, "rep": rep},
						Impl:   map[string]interface{}{"status": o.status, "backend_request": reqJ, "served_entries": len(ge.Entries), "body_len": len(o.body), "alone_len": len(alone[o.start].body), "error": o.err},
						PropOK: fail == "", Note: fail,
						Tags: []string{"overlap:" + m.name, "overlap:" + cl.name, "overlap:" + o.reader},
					})
				}
			}
		}
	}
}
