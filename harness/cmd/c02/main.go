// C02 correspondence harness: generated certificate hierarchies with real keys, perturbed
// submissions and admission-option combinations, run through ctfe.ValidateChain,
// ctfe.IsPrecertificate and the add-chain / add-pre-chain endpoints of a real ctfe.Instance.
// Every certificate is abstracted into the Coq model's record (the signature oracle is filled
// by pairwise CheckSignatureFrom); the observed behaviour is written as Coq cases, and the
// property's "if and only if" is evaluated directly by an independent implementation of
// `admissible` over the abstracted certificates (oracle.go).
package main

import (
	"bytes"
	"context"
	"crypto"
	"crypto/rand"
	"crypto/sha256"
	"errors"
	"flag"
	"fmt"
	"io"
	"math/big"
	mrand "math/rand"
	"sort"
	"strings"
	"time"

	"github.com/google/certificate-transparency-go/asn1"
	"github.com/google/certificate-transparency-go/trillian/ctfe"
	"github.com/google/certificate-transparency-go/trillian/ctfe/configpb"
	"github.com/google/certificate-transparency-go/x509"
	"github.com/google/certificate-transparency-go/x509/pkix"
	"github.com/google/certificate-transparency-go/x509util"
	"github.com/google/trillian"
	"google.golang.org/protobuf/types/known/timestamppb"
	"k8s.io/klog/v2"

	"verif/harness/ctfeenv"
	"verif/harness/lib"
	"verif/harness/pki"
)

const coqImports = `From Coq Require Import ZArith NArith List. Import ListNotations.
From V Require Import CTFE.ChainModel CTFE.ChainCase.
`

// ------------------------------------------------------------------ abstraction

type absExt struct {
	ID       int
	Critical bool
	Null     bool
}

// absCert mirrors the Coq record `cert`.
type absCert struct {
	ID       int
	Subject  int
	Issuer   int
	SKI, AKI int // -1 = absent
	Key      int
	Sigs     []int
	BCValid  bool
	IsCA     bool
	NotAfter *big.Int // ns
	EKUs     []int
	Exts     []absExt
	// for the direct oracle only (strict.go), never written into the Coq case: what the Go standard
	// library and a hand-written framing check say about the DER of this certificate
	OneCert bool   // the DER is exactly one certificate
	Poison  string // poison extension class read from the standard library's parse
}

// interning tables shared by all hierarchies of a run (deterministic: first-come numbering)
type interner struct {
	m map[string]int
}

func (t *interner) get(b []byte) int {
	if t.m == nil {
		t.m = map[string]int{}
	}
	if v, ok := t.m[string(b)]; ok {
		return v
	}
	v := len(t.m)
	t.m[string(b)] = v
	return v
}

var (
	names, keyids, pubkeys interner
	oids                   = map[string]int{pki.OIDPoison.String(): 0}
)

func oidID(oid asn1.ObjectIdentifier) int {
	s := oid.String()
	if v, ok := oids[s]; ok {
		return v
	}
	v := len(oids)
	oids[s] = v
	return v
}

func nsOf(t time.Time) *big.Int {
	v := new(big.Int).Mul(big.NewInt(t.Unix()), big.NewInt(1e9))
	return v.Add(v, big.NewInt(int64(t.Nanosecond())))
}

// universe: every certificate of one hierarchy, distinct DER, index = model id.
type universe struct {
	name  string
	ents  []*pki.Entity
	role  []string
	abs   []absCert
	byDER map[string]int
}

func (u *universe) add(e *pki.Entity, role string) int {
	if i, ok := u.byDER[string(e.DER)]; ok {
		return i
	}
	u.byDER[string(e.DER)] = len(u.ents)
	u.ents = append(u.ents, e)
	u.role = append(u.role, role)
	return len(u.ents) - 1
}

func optID(t *interner, b []byte) int {
	if len(b) == 0 {
		return -1
	}
	return t.get(b)
}

// abstract fills u.abs, the signature oracle by pairwise CheckSignatureFrom.
func (u *universe) abstract() {
	u.abs = make([]absCert, len(u.ents))
	for i, e := range u.ents {
		c := e.Cert
		a := absCert{ID: i, Subject: names.get(c.RawSubject), Issuer: names.get(c.RawIssuer),
			SKI: optID(&keyids, c.SubjectKeyId), AKI: optID(&keyids, c.AuthorityKeyId),
			Key: pubkeys.get(c.RawSubjectPublicKeyInfo), BCValid: c.BasicConstraintsValid, IsCA: c.IsCA,
			NotAfter: nsOf(c.NotAfter)}
		for _, k := range c.ExtKeyUsage {
			a.EKUs = append(a.EKUs, int(k))
		}
		for _, x := range c.Extensions {
			a.Exts = append(a.Exts, absExt{oidID(x.Id), x.Critical, bytes.Equal(x.Value, derNull)})
		}
		a.OneCert = oneCertificate(e.DER)
		a.Poison = stdPoisonClass(e.DER, a)
		for j, p := range u.ents {
			if safeCheckSig(c, p.Cert) {
				a.Sigs = append(a.Sigs, j)
			}
		}
		u.abs[i] = a
	}
}

func safeCheckSig(c, p *x509.Certificate) (ok bool) {
	defer func() {
		if recover() != nil {
			ok = false
		}
	}()
	return c.CheckSignatureFrom(p) == nil
}

func coqOptN(v int) string {
	if v < 0 {
		return "None"
	}
	return lib.Some(lib.Nn(uint64(v)))
}
func coqNList(xs []int) string {
	var s []string
	for _, x := range xs {
		s = append(s, lib.Nn(uint64(x)))
	}
	return lib.List(s)
}
func (a absCert) coq() string {
	var ex []string
	for _, x := range a.Exts {
		ex = append(ex, fmt.Sprintf("mkExt %s %s %s", lib.Nn(uint64(x.ID)), lib.Bool(x.Critical), lib.Bool(x.Null)))
	}
	return fmt.Sprintf("mkCert %s %s %s %s %s %s %s %s %s %s %s %s", lib.Nn(uint64(a.ID)), lib.Nn(uint64(a.Subject)),
		lib.Nn(uint64(a.Issuer)), coqOptN(a.SKI), coqOptN(a.AKI), lib.Nn(uint64(a.Key)), coqNList(a.Sigs),
		lib.Bool(a.BCValid), lib.Bool(a.IsCA), lib.ZBig(a.NotAfter), coqNList(a.EKUs), lib.List(ex))
}
func (u *universe) coqDef() string {
	var cs []string
	for _, a := range u.abs {
		cs = append(cs, " "+a.coq())
	}
	return fmt.Sprintf("Definition %s : list cert := [\n%s\n].\n", u.name, strings.Join(cs, ";\n"))
}

// ---- X.509 v1 certificates (no extensions, hence no basic constraints): CreateCertificate only
// writes v3, so the TBSCertificate is assembled here and signed with a P-256 key.
type v1Validity struct{ NotBefore, NotAfter time.Time }
type v1TBS struct {
	Serial    *big.Int
	SigAlg    pkix.AlgorithmIdentifier
	Issuer    asn1.RawValue
	Validity  v1Validity
	Subject   asn1.RawValue
	PublicKey asn1.RawValue
}
type v1Certificate struct {
	TBS    asn1.RawValue
	SigAlg pkix.AlgorithmIdentifier
	Sig    asn1.BitString
}

var oidECDSAWithSHA256 = asn1.ObjectIdentifier{1, 2, 840, 10045, 4, 3, 2}
var v1Serial int64 = 770000

// issueV1 creates a v1 certificate for (cn, key) signed by signer (a P-256 key) under issuerName
// (nil = self-issued).
func issueV1(cn string, key crypto.Signer, issuerName []byte, signer crypto.Signer, notAfter time.Time) *pki.Entity {
	subj, err := asn1.Marshal(pkix.Name{CommonName: cn, Organization: []string{"verif"}}.ToRDNSequence())
	if err != nil {
		panic(err)
	}
	if issuerName == nil {
		issuerName = subj
	}
	spki, err := x509.MarshalPKIXPublicKey(key.Public())
	if err != nil {
		panic(err)
	}
	v1Serial++
	alg := pkix.AlgorithmIdentifier{Algorithm: oidECDSAWithSHA256}
	tbs, err := asn1.Marshal(v1TBS{Serial: big.NewInt(v1Serial), SigAlg: alg, Issuer: asn1.RawValue{FullBytes: issuerName},
		Validity: v1Validity{time.Date(2020, 1, 1, 0, 0, 0, 0, time.UTC), notAfter}, Subject: asn1.RawValue{FullBytes: subj},
		PublicKey: asn1.RawValue{FullBytes: spki}})
	if err != nil {
		panic(err)
	}
	d := sha256.Sum256(tbs)
	sig, err := signer.Sign(rand.Reader, d[:], crypto.SHA256)
	if err != nil {
		panic(err)
	}
	der, err := asn1.Marshal(v1Certificate{TBS: asn1.RawValue{FullBytes: tbs}, SigAlg: alg, Sig: asn1.BitString{Bytes: sig, BitLength: 8 * len(sig)}})
	if err != nil {
		panic(err)
	}
	c, err := x509.ParseCertificate(der)
	if err != nil && x509.IsFatal(err) {
		panic(fmt.Sprintf("v1 certificate does not parse: %v", err))
	}
	if c.Version != 1 || c.BasicConstraintsValid {
		panic("not a v1 certificate")
	}
	return &pki.Entity{Cert: c, DER: der, Key: key}
}

// ------------------------------------------------------------------ hierarchies

var (
	tOld  = time.Date(2010, 3, 4, 5, 6, 7, 0, time.UTC) // long expired
	tNew  = time.Date(2031, 3, 4, 5, 6, 7, 0, time.UTC) // far from expiry
	tNew2 = time.Date(2033, 1, 1, 0, 0, 0, 0, time.UTC) // another shard
	tHTTP = time.Date(2026, 1, 1, 0, 0, 0, 0, time.UTC) // stands for time.Now() in HTTP cases
	oidA  = asn1.ObjectIdentifier{1, 2, 3, 4, 5, 6, 7}
	oidB  = asn1.ObjectIdentifier{1, 2, 3, 4, 5, 6, 8}
	oidC  = asn1.ObjectIdentifier{2, 5, 29, 99}
)

// hier: a universe plus the handles the perturbations need.
type hier struct {
	u       *universe
	roots   []int   // all root certificates
	trustCf [][]int // trust configurations (ordered index lists)
	leaves  []int
	paths   map[int][][]int // for each leaf: its honest chains, leaf first, root last
	cas     []int           // all CA certificates (roots, intermediates, cross-signs, decoys)
	junk    [][]byte        // byte strings that are not one certificate
	junkN   []string        // what each of them is (for the Note key)
	target  []targeted      // hand-picked (trust configuration, chain) pairs
}

type targeted struct {
	roots []int
	chain []int
	kind  string
}

var keyKinds = []string{"p256", "p256", "p384", "ed25519", "rsa2048"}

func pickKind(r *mrand.Rand) (string, int) {
	k := keyKinds[r.Intn(len(keyKinds))]
	if k == "rsa2048" {
		return k, r.Intn(3)
	}
	return k, r.Intn(12)
}

// withIssuerName makes `signer` sign under another certificate's subject name (names no longer chain).
func withIssuerName(signer, named *pki.Entity) *pki.Entity {
	cp := *signer.Cert
	cp.RawSubject = named.Cert.RawSubject
	cp.Subject = named.Cert.Subject
	return &pki.Entity{Cert: &cp, DER: signer.DER, Key: signer.Key}
}

func kid(r *mrand.Rand) []byte {
	b := make([]byte, 8)
	r.Read(b)
	return b
}

func genHier(r *mrand.Rand, h int) *hier {
	u := &universe{name: fmt.Sprintf("U%d", h), byDER: map[string]int{}}
	H := &hier{u: u, paths: map[int][][]int{}}
	// key-id policy: 0 = none anywhere, 1 = consistent everywhere, 2 = CAs carry SKIs but some children omit the AKI
	kidMode := r.Intn(3)
	ski := func() []byte {
		if kidMode == 0 {
			return nil
		}
		return kid(r)
	}
	ca := func(cn string, parent *pki.Entity, mut func(*pki.Opts)) *pki.Entity {
		kk, ki := pickKind(r)
		o := pki.Opts{CN: fmt.Sprintf("%s h%d", cn, h), KeyKind: kk, KeyIdx: ki, IsCA: true, SKI: ski(), NotAfter: tNew2}
		if mut != nil {
			mut(&o)
		}
		return pki.Issue(o, parent)
	}
	nR := 2 + r.Intn(2)
	var roots []*pki.Entity
	for k := 0; k < nR; k++ {
		e := ca(fmt.Sprintf("Root%d", k), nil, nil)
		roots = append(roots, e)
		H.roots = append(H.roots, u.add(e, "root"))
	}
	kkA, kiA := pickKind(r)
	ia := ca("IntA", roots[0], func(o *pki.Opts) { o.KeyKind, o.KeyIdx = kkA, kiA })
	ib := ca("IntB", ia, nil)
	// cross-sign: IntA's subject and key, issued by Root1
	iax := pki.Issue(pki.Opts{CN: fmt.Sprintf("IntA h%d", h), KeyKind: kkA, KeyIdx: kiA, IsCA: true,
		SKI: ia.Cert.SubjectKeyId, NotAfter: tNew2}, roots[1])
	// decoy: IntB's subject name with ANOTHER key, issued by Root1 (for forged-signature leaves)
	decoy := ca("IntB", roots[1], func(o *pki.Opts) {
		if kidMode != 0 && r.Intn(2) == 0 {
			o.SKI = ib.Cert.SubjectKeyId // same key id, different key
		}
	})
	// pre-issuer: CT EKU, under IntB
	pi := ca("PreIssuer", ib, func(o *pki.Opts) { o.EKUs = []x509.ExtKeyUsage{x509.ExtKeyUsageCertificateTransparency} })
	// an intermediate that lacks the CA bit (basic constraints present, cA false) and one without basic constraints
	notca := pki.Issue(pki.Opts{CN: fmt.Sprintf("NotCA h%d", h), IsCA: false, SKI: ski(), NotAfter: tNew2}, ia)
	nobc := pki.Issue(pki.Opts{CN: fmt.Sprintf("NoBC h%d", h), NoBC: true, SKI: ski(), NotAfter: tNew2}, ia)
	iIA, iIB, iIAX, iDecoy, iPI := u.add(ia, "int"), u.add(ib, "int"), u.add(iax, "xsign"), u.add(decoy, "decoy"), u.add(pi, "preissuer")
	iNotCA, iNoBC := u.add(notca, "notca"), u.add(nobc, "nobc")
	H.cas = append(append([]int{}, H.roots...), iIA, iIB, iIAX, iDecoy, iPI)
	r0, r1 := H.roots[0], H.roots[1]

	addLeaf := func(role string, o pki.Opts, parent *pki.Entity, chains ...[]int) int {
		o.CN = fmt.Sprintf("%s h%d", role, h)
		if o.NotAfter.IsZero() {
			o.NotAfter = tNew
		}
		if kidMode == 2 && o.AKI == nil && r.Intn(2) == 0 {
			// omit the AKI although the issuer has an SKI
			p := *parent.Cert
			p.SubjectKeyId = nil
			parent = &pki.Entity{Cert: &p, DER: parent.DER, Key: parent.Key}
		}
		e := pki.Issue(o, parent)
		i := u.add(e, role)
		H.leaves = append(H.leaves, i)
		for _, c := range chains {
			H.paths[i] = append(H.paths[i], append([]int{i}, c...))
		}
		return i
	}
	viaB := [][]int{{iIB, iIA, r0}, {iIB, iIAX, r1}}
	viaA := [][]int{{iIA, r0}, {iIAX, r1}}
	sa := []x509.ExtKeyUsage{x509.ExtKeyUsageServerAuth}
	addLeaf("leaf-plain", pki.Opts{EKUs: sa}, ib, viaB...)
	addLeaf("leaf-old", pki.Opts{EKUs: sa, NotAfter: tOld}, ib, viaB...)
	addLeaf("leaf-noeku", pki.Opts{}, ia, viaA...)
	addLeaf("leaf-client", pki.Opts{EKUs: []x509.ExtKeyUsage{x509.ExtKeyUsageClientAuth, x509.ExtKeyUsageEmailProtection}}, ib, viaB...)
	addLeaf("leaf-ext", pki.Opts{EKUs: sa, ExtraExt: []pkix.Extension{{Id: oidA, Value: []byte{4, 1, 1}}, {Id: oidB, Critical: true, Value: []byte{5, 0}}}}, ib, viaB...)
	addLeaf("leaf-direct", pki.Opts{EKUs: sa}, roots[0], []int{r0})
	addLeaf("leaf-r1", pki.Opts{EKUs: sa, NotAfter: tOld}, roots[1], []int{r1})
	addLeaf("pre-ok", pki.Opts{EKUs: sa, ExtraExt: []pkix.Extension{pki.PoisonExt()}}, ib, viaB...)
	addLeaf("pre-old", pki.Opts{ExtraExt: []pkix.Extension{{Id: oidA, Value: []byte{4, 0}}, pki.PoisonExt()}, NotAfter: tOld}, ia, viaA...)
	addLeaf("pre-via-preissuer", pki.Opts{EKUs: sa, ExtraExt: []pkix.Extension{pki.PoisonExt()}}, pi, []int{iPI, iIB, iIA, r0}, []int{iPI, iIB, iIAX, r1})
	addLeaf("poison-noncritical", pki.Opts{EKUs: sa, ExtraExt: []pkix.Extension{{Id: pki.OIDPoison, Critical: false, Value: []byte{5, 0}}}}, ib, viaB...)
	addLeaf("poison-nonnull", pki.Opts{EKUs: sa, ExtraExt: []pkix.Extension{{Id: pki.OIDPoison, Critical: true, Value: []byte{1, 1, 0xff}}}}, ia, viaA...)
	addLeaf("poison-noncritical-nonnull", pki.Opts{ExtraExt: []pkix.Extension{{Id: pki.OIDPoison, Critical: false, Value: []byte{4, 0}}}}, ib, viaB...)
	// forged: names IntB, signed by the decoy's key
	addLeaf("leaf-forged", pki.Opts{EKUs: sa}, decoy, viaB...)
	// misnamed: signed by IntB's key (and carrying its key id) under IntA's name
	addLeaf("leaf-misnamed", pki.Opts{EKUs: sa}, withIssuerName(ib, ia), viaB...)
	// issued by certificates that may not sign
	addLeaf("leaf-under-notca", pki.Opts{EKUs: sa}, notca, []int{iNotCA, iIA, r0})
	addLeaf("leaf-under-nobc", pki.Opts{EKUs: sa}, nobc, []int{iNoBC, iIA, r0})
	if kidMode != 0 {
		// authority key id pointing at somebody else's subject key id (F17 and friends)
		addLeaf("leaf-aki-root", pki.Opts{EKUs: sa, AKI: roots[0].Cert.SubjectKeyId}, ib, viaB...)
		addLeaf("leaf-aki-inta", pki.Opts{EKUs: sa, AKI: ia.Cert.SubjectKeyId}, ib, viaB...)
		addLeaf("leaf-aki-unknown", pki.Opts{EKUs: sa, AKI: kid(r)}, ib, viaB...)
		addLeaf("leaf-aki-root1", pki.Opts{AKI: roots[1].Cert.SubjectKeyId}, ia, viaA...)
	}
	if kidMode != 0 {
		// the three-certificate form of F17: [L, IntA, Root0] with L.AKI = Root0.SKI
		addLeaf("leaf-aki-root-short", pki.Opts{EKUs: sa, AKI: roots[0].Cert.SubjectKeyId}, ia, []int{iIA, r0})
	}
	// X.509 v1 certificates: a v1 trust anchor, and a v1 certificate used as an intermediate
	rv := pki.Issue(pki.Opts{CN: fmt.Sprintf("RootV h%d", h), KeyKind: "p256", KeyIdx: 8, IsCA: true, SKI: ski(), NotAfter: tNew2}, nil)
	v1root := issueV1(fmt.Sprintf("V1Root h%d", h), pki.Key("p256", 9), nil, pki.Key("p256", 9), tNew2)
	v1int := issueV1(fmt.Sprintf("V1Int h%d", h), pki.Key("p256", 10), rv.Cert.RawSubject, rv.Key, tNew2)
	iRV, iV1R, iV1I := u.add(rv, "root"), u.add(v1root, "v1root"), u.add(v1int, "v1int")
	lV1R := addLeaf("leaf-under-v1root", pki.Opts{EKUs: sa}, v1root, []int{iV1R})
	lV1I := addLeaf("leaf-under-v1int", pki.Opts{EKUs: sa}, v1int, []int{iV1I, iRV})
	iUnderV1 := u.add(pki.Issue(pki.Opts{CN: fmt.Sprintf("IntUnderV1 h%d", h), IsCA: true, SKI: ski(), NotAfter: tNew2}, v1root), "int")
	lUV1 := addLeaf("leaf-under-int-under-v1root", pki.Opts{}, u.ents[iUnderV1], []int{iUnderV1, iV1R})
	H.cas = append(H.cas, iRV, iV1R, iV1I)
	lPlain, lNoEKU := H.leaves[0], H.leaves[2]
	for _, t := range []targeted{
		// a trusted intermediate
		{[]int{r0, iIA}, []int{iIA, r0}, "trusted-leaf+issuer"},
		{[]int{iIA, r0}, []int{iIA, r0}, "trusted-leaf+issuer"},
		{[]int{r0, iIA}, []int{iIA}, "trusted-leaf-alone"},
		{[]int{r0, iIA}, []int{lPlain, iIB, iIA}, "ends-at-trusted-intermediate"},
		{[]int{iIA}, []int{lPlain, iIB, iIA}, "ends-at-trusted-intermediate"},
		{[]int{r0, iIA}, []int{lPlain, iIB, iIA, r0}, "passes-trusted-intermediate"},
		{[]int{iIA, r1}, []int{lPlain, iIB, iIA, r0}, "continues-past-trust"},
		{[]int{iIA}, []int{lNoEKU}, "leaf-only-under-trusted-intermediate"},
		{[]int{iIB, iIA, r0}, []int{iIB, iIA, r0}, "trusted-leaf+issuer"},
		// v1 certificates
		{[]int{iV1R}, []int{lV1R}, "v1-root-absent"},
		{[]int{iV1R, r0}, []int{lV1R, iV1R}, "v1-root-present"},
		{[]int{iV1R}, []int{lUV1, iUnderV1}, "v1-root-absent"},
		{[]int{r0, iV1R}, []int{lUV1, iUnderV1, iV1R}, "v1-root-present"},
		{[]int{iRV}, []int{lV1I, iV1I, iRV}, "v1-intermediate"},
		{[]int{iRV}, []int{lV1I, iV1I}, "v1-intermediate"},
		{[]int{iV1I}, []int{lV1I, iV1I}, "v1-intermediate-trusted"},
		{[]int{iV1I, iRV}, []int{lV1I}, "v1-intermediate-trusted"},
		{[]int{iRV}, []int{iV1I, iRV}, "v1-as-leaf"},
		// not trusted at all
		{[]int{r1}, []int{lPlain, iIB, iIA, r0}, "untrusted-root"},
		{[]int{r1}, []int{lPlain, iIB, iIA}, "untrusted-root"},
	} {
		H.target = append(H.target, t)
	}
	// CA certificates submitted as leaves
	H.leaves = append(H.leaves, iIB, iIA, iPI, r0)
	H.paths[iIB] = [][]int{{iIB, iIA, r0}, {iIB, iIAX, r1}}
	H.paths[iIA] = [][]int{{iIA, r0}}
	H.paths[iPI] = [][]int{{iPI, iIB, iIA, r0}}
	H.paths[r0] = [][]int{{r0}}

	H.trustCf = [][]int{{r0}, {r0, r1}, {r1, r0}, H.roots, {r1}, {r0, iIA}, {iIA, r1}, {r0, r1, iIAX, iIB}, {r0, iRV, iV1R}, {iV1I, r0, r1}}
	good := roots[0].DER
	H.junk = [][]byte{{}, {0x30, 0x03, 0x02, 0x01, 0x01}, good[:len(good)/2], append(append([]byte{}, good...), 0x00), []byte("not a certificate")}
	H.junkN = []string{"empty", "short-sequence", "root-truncated", "root+1-trailing", "text"}
	u.abstract()
	return H
}

// line: x0 (self-signed) <- x1 <- ... <- xn, no key ids, one key kind: for the signature-check budget.
func genLine(n int, name string) *hier {
	u := &universe{name: name, byDER: map[string]int{}}
	H := &hier{u: u, paths: map[int][][]int{}}
	var prev *pki.Entity
	for k := 0; k <= n; k++ {
		e := pki.Issue(pki.Opts{CN: fmt.Sprintf("line %d", k), KeyKind: "p256", KeyIdx: k % 5, IsCA: true, NotAfter: tNew}, prev)
		u.add(e, "line")
		prev = e
	}
	H.roots = []int{0}
	H.trustCf = [][]int{{0}}
	u.abstract()
	return H
}

// ------------------------------------------------------------------ options

type opts struct {
	Roots      []int
	Now        time.Time
	RejExpired bool
	RejUnexp   bool
	Start      *time.Time
	Limit      *time.Time
	OnlyCA     bool
	EKUs       []int
	RejExt     []asn1.ObjectIdentifier
	Cfg        *cfgW // the class of config.go: the LogConfig fields as written (envFor writes them verbatim)
}

func optZ(t *time.Time) string {
	if t == nil {
		return "None"
	}
	return lib.Some(lib.ZBig(nsOf(*t)))
}
func natList(xs []int) string {
	var s []string
	for _, x := range xs {
		s = append(s, lib.Nat(x))
	}
	return lib.List(s)
}
func (o opts) rejIDs() []int {
	var r []int
	for _, x := range o.RejExt {
		r = append(r, oidID(x))
	}
	return r
}
func (o opts) coq() string {
	return fmt.Sprintf("(mkCO %s %s %s %s %s %s %s %s %s)", natList(o.Roots), lib.ZBig(nsOf(o.Now)), lib.Bool(o.RejExpired),
		lib.Bool(o.RejUnexp), optZ(o.Start), optZ(o.Limit), lib.Bool(o.OnlyCA), coqNList(o.EKUs), coqNList(o.rejIDs()))
}
func jt(t *time.Time) interface{} {
	if t == nil {
		return nil
	}
	return t.UTC().Format(time.RFC3339Nano)
}
func (o opts) json() map[string]interface{} {
	var rej []string
	for _, x := range o.RejExt {
		rej = append(rej, x.String())
	}
	m := map[string]interface{}{"roots": o.Roots, "now": jt(&o.Now), "reject_expired": o.RejExpired, "reject_unexpired": o.RejUnexp,
		"not_after_start": jt(o.Start), "not_after_limit": jt(o.Limit), "accept_only_ca": o.OnlyCA, "ekus": o.EKUs, "reject_ext": rej}
	if o.Cfg != nil {
		m["config_written"] = o.Cfg.key()
	}
	return m
}

var offs = []time.Duration{-time.Hour, -time.Second, -time.Nanosecond, 0, time.Nanosecond, time.Second, time.Hour}

func around(r *mrand.Rand, t time.Time) *time.Time {
	if r.Intn(4) == 0 {
		return nil
	}
	x := t.Add(offs[r.Intn(len(offs))])
	return &x
}

var ekuChoices = [][]int{nil, nil, nil, {1}, {2}, {1, 2}, {4, 3}, {0}, {14}}

// genOpts: options for a direct ValidateChain call, boundaries placed around the leaf's NotAfter.
func genOpts(r *mrand.Rand, H *hier, leafNA time.Time) opts {
	o := opts{Roots: H.trustCf[r.Intn(len(H.trustCf))], Now: leafNA.Add(offs[r.Intn(len(offs))])}
	if r.Intn(2) == 0 {
		o.Now = tHTTP
	}
	switch r.Intn(6) {
	case 0:
		o.RejExpired = true
	case 1:
		o.RejUnexp = true
	case 2:
		o.RejExpired, o.RejUnexp = true, true
	}
	if r.Intn(2) == 0 {
		o.Start, o.Limit = around(r, leafNA), around(r, leafNA)
	}
	o.OnlyCA = r.Intn(8) == 0
	o.EKUs = ekuChoices[r.Intn(len(ekuChoices))]
	return o
}

var ekuNames = map[int]string{1: "ServerAuth", 2: "ClientAuth", 3: "CodeSigning", 4: "EmailProtection"}

// genHTTPOpts: options expressible in a LogConfig; "now" is the wall clock, so the window is the
// only instant-sensitive part and every NotAfter is years away from the clock.
func genHTTPOpts(r *mrand.Rand, H *hier, leafNA time.Time) opts {
	o := opts{Roots: H.trustCf[r.Intn(len(H.trustCf))], Now: tHTTP}
	switch r.Intn(5) {
	case 0:
		o.RejExpired = true
	case 1:
		o.RejUnexp = true
	}
	if r.Intn(3) == 0 {
		o.Start, o.Limit = around(r, leafNA), around(r, leafNA)
		if o.Start != nil && o.Limit != nil && o.Limit.Before(*o.Start) {
			o.Start, o.Limit = o.Limit, o.Start
		}
	}
	o.OnlyCA = r.Intn(10) == 0
	switch r.Intn(6) {
	case 0:
		o.EKUs = []int{1}
	case 1:
		o.EKUs = []int{2, 4}
	}
	switch r.Intn(5) {
	case 0:
		o.RejExt = []asn1.ObjectIdentifier{oidA}
	case 1:
		o.RejExt = []asn1.ObjectIdentifier{oidC, oidB}
	case 2:
		o.RejExt = []asn1.ObjectIdentifier{pki.OIDPoison}
	}
	return o
}

// ------------------------------------------------------------------ perturbations

type sub struct {
	chain []int // index into the universe; < 0 = junk DER number -(k+1)
	kind  string
}

func clone(x []int) []int { return append([]int{}, x...) }

func perturb(r *mrand.Rand, H *hier) sub {
	leaf := H.leaves[r.Intn(len(H.leaves))]
	ps := H.paths[leaf]
	full := clone(ps[r.Intn(len(ps))])
	c := clone(full)
	kind := "as-issued"
	if r.Intn(2) == 0 && len(c) > 1 {
		c = c[:len(c)-1]
		kind = "root-absent"
	}
	any := func() int { return r.Intn(len(H.u.ents)) }
	switch r.Intn(16) {
	case 0, 1, 2, 3, 4:
	case 5: // drop
		if len(c) > 1 {
			i := r.Intn(len(c))
			c = append(c[:i], c[i+1:]...)
			kind += "+drop"
		}
	case 6: // swap adjacent
		if len(c) > 1 {
			i := r.Intn(len(c) - 1)
			c[i], c[i+1] = c[i+1], c[i]
			kind += "+swap"
		}
	case 7: // duplicate
		i := r.Intn(len(c))
		j := r.Intn(len(c) + 1)
		c = append(c[:j], append([]int{c[i]}, c[j:]...)...)
		kind += "+duplicate"
	case 8: // insert unrelated
		j := 1 + r.Intn(len(c))
		c = append(c[:j], append([]int{any()}, c[j:]...)...)
		kind += "+insert"
	case 9: // replace one by another CA (cross-sign, decoy, other root)
		if len(c) > 1 {
			i := 1 + r.Intn(len(c)-1)
			c[i] = H.cas[r.Intn(len(H.cas))]
			kind += "+replace-ca"
		}
	case 10: // leaf only
		c = c[:1]
		kind = "leaf-only"
	case 11: // junk DER
		i := r.Intn(len(c) + 1)
		c = append(c[:i], append([]int{-(1 + r.Intn(len(H.junk)))}, c[i:]...)...)
		kind += "+junk"
	case 12: // append another root / the cross-signed twin
		c = append(c, H.cas[r.Intn(len(H.cas))])
		kind += "+append-ca"
	case 13: // reverse
		for i, j := 0, len(c)-1; i < j; i, j = i+1, j-1 {
			c[i], c[j] = c[j], c[i]
		}
		kind += "+reverse"
	case 14: // shuffle the tail
		t := c[1:]
		r.Shuffle(len(t), func(i, j int) { t[i], t[j] = t[j], t[i] })
		kind += "+shuffle"
	case 15: // completely random
		n := 1 + r.Intn(4)
		c = nil
		for i := 0; i < n; i++ {
			c = append(c, any())
		}
		kind = "random"
	}
	return sub{c, kind}
}

func (H *hier) ders(c []int) [][]byte {
	var out [][]byte
	for _, i := range c {
		if i < 0 {
			out = append(out, H.junk[-i-1])
		} else {
			out = append(out, H.u.ents[i].DER)
		}
	}
	return out
}
func coqChain(c []int) string {
	var s []string
	for _, i := range c {
		if i < 0 {
			s = append(s, "None")
		} else {
			s = append(s, lib.Some(lib.Nat(i)))
		}
	}
	return lib.List(s)
}

// ------------------------------------------------------------------ running the implementation

type obs struct {
	class string // "accepted" "norfc" "rejected" "panic"
	path  []int
	raw   [][]byte // the bytes of the certificates of the returned path
	err   string
}

func (o obs) coq() string {
	switch o.class {
	case "accepted":
		return "(OAccepted " + coqNList(o.path) + ")"
	case "norfc":
		return "ONoRFCPath"
	case "rejected":
		return "ORejected"
	}
	return "OPanic"
}

func runValidate(H *hier, c []int, o opts) (res obs) {
	defer func() {
		if p := recover(); p != nil {
			res = obs{class: "panic", err: fmt.Sprint(p)}
		}
	}()
	pool := x509util.NewPEMCertPool()
	for _, i := range o.Roots {
		pool.AddCert(H.u.ents[i].Cert)
	}
	var ekus []x509.ExtKeyUsage
	for _, k := range o.EKUs {
		ekus = append(ekus, x509.ExtKeyUsage(k))
	}
	vo := ctfe.NewCertValidationOpts(pool, o.Now, o.RejExpired, o.RejUnexp, o.Start, o.Limit, o.OnlyCA, ekus)
	path, err := ctfe.ValidateChain(H.ders(c), vo)
	if err != nil {
		if errors.Is(err, ctfe.ErrNoRFCCompliantPathFound) {
			return obs{class: "norfc", err: err.Error()}
		}
		return obs{class: "rejected", err: err.Error()}
	}
	res = obs{class: "accepted"}
	for _, p := range path {
		i, ok := H.u.byDER[string(p.Raw)]
		if !ok {
			i = 1 << 20 // a certificate from nowhere: cannot equal any model id
		}
		res.path = append(res.path, i)
		res.raw = append(res.raw, append([]byte{}, p.Raw...))
	}
	return res
}

var envs = map[string]*ctfeenv.Env{}

func envFor(H *hier, o opts) *ctfeenv.Env {
	key := H.u.name + "|" + fmt.Sprint(o.json())
	if e, ok := envs[key]; ok {
		return e
	}
	var roots []*pki.Entity
	for _, i := range o.Roots {
		roots = append(roots, H.u.ents[i])
	}
	e, err := ctfeenv.New(ctfeenv.Options{Roots: roots, Dir: *lib.OutDir, NoClock: true, Configure: func(c *configpb.LogConfig) {
		if w := o.Cfg; w != nil {
			c.RejectExpired, c.RejectUnexpired, c.AcceptOnlyCa = w.RejectExpired, w.RejectUnexpired, w.AcceptOnlyCA
			if w.NotAfterStart != nil {
				c.NotAfterStart = timestamppb.New(*w.NotAfterStart)
			}
			if w.NotAfterLimit != nil {
				c.NotAfterLimit = timestamppb.New(*w.NotAfterLimit)
			}
			c.ExtKeyUsages = append([]string{}, w.ExtKeyUsages...)
			c.RejectExtensions = append([]string{}, w.RejectExtensions...)
			return
		}
		c.RejectExpired, c.RejectUnexpired, c.AcceptOnlyCa = o.RejExpired, o.RejUnexp, o.OnlyCA
		if o.Start != nil {
			c.NotAfterStart = timestamppb.New(*o.Start)
		}
		if o.Limit != nil {
			c.NotAfterLimit = timestamppb.New(*o.Limit)
		}
		for _, k := range o.EKUs {
			c.ExtKeyUsages = append(c.ExtKeyUsages, ekuNames[k])
		}
		for _, x := range o.RejExt {
			c.RejectExtensions = append(c.RejectExtensions, x.String())
		}
	}})
	if err != nil {
		panic(fmt.Sprintf("cannot build instance for %v: %v", o.json(), err))
	}
	e.Backend.QueueLeafFn = func(_ context.Context, in *trillian.QueueLeafRequest) (*trillian.QueueLeafResponse, error) {
		return &trillian.QueueLeafResponse{QueuedLeaf: &trillian.QueuedLogLeaf{Leaf: in.Leaf}}, nil
	}
	envs[key] = e
	return e
}

// runHTTP: the status, and what reached the backend (for the byte-identity clause, strict.go).
func runHTTP(H *hier, c []int, o opts, pre bool) (status int, calls []ctfeenv.Call) {
	defer func() {
		if recover() != nil {
			status = 0
		}
	}()
	e := envFor(H, o)
	e.Backend.Reset()
	e.ReqLog.Reset()
	status = e.AddChain(pre, H.ders(c)).Code
	return status, e.Backend.Reset()
}

// ------------------------------------------------------------------ main

func sortedKeys(m map[string]bool) []string {
	var ks []string
	for k := range m {
		ks = append(ks, k)
	}
	sort.Strings(ks)
	return ks
}

func main() {
	flag.Parse()
	klog.LogToStderr(false)
	klog.SetOutput(io.Discard)
	r := lib.Rand()
	if y := time.Now().Year(); y < 2012 || y > 2029 {
		panic("the wall clock must lie between the harness's expired (2010) and unexpired (2031) certificates")
	}
	nH := lib.Count(10, 36)
	perH := lib.Count(150, 450)
	var hs []*hier
	for h := 0; h < nH; h++ {
		hs = append(hs, genHier(r, h))
	}
	line := genLine(103, "ULine")
	// the class of config.go draws from a second stream of the same seed, so that the cases above
	// are the same whether or not the class is there
	rc := mrand.New(mrand.NewSource(lib.Seed() ^ 0x6366672d433032))
	var chs []*cfgHier
	for k := 0; k < lib.Count(3, 8); k++ {
		chs = append(chs, genCfgHier(rc, k))
	}
	// likewise the classes of poison.go and trailing.go: streams of their own
	rp := mrand.New(mrand.NewSource(lib.Seed() ^ 0x706f69736f6e))
	rt := mrand.New(mrand.NewSource(lib.Seed() ^ 0x747261696c))
	var phs []*poisonHier
	for k := 0; k < lib.Count(1, 3); k++ {
		phs = append(phs, genPoisonHier(rp, k))
	}
	// the classes of lineage.go (several certificates for one CA name on a path; path-length
	// constraints): a stream of their own as well
	rl := mrand.New(mrand.NewSource(lib.Seed() ^ 0x6c696e65616765))
	var ths, lhs []*hier
	for k := 0; k < lib.Count(3, 4); k++ {
		ths = append(ths, genTwinHier(rl, k))
	}
	for k := 0; k < lib.Count(1, 2); k++ {
		lhs = append(lhs, genPathLenHier(rl, k))
	}
	header := coqImports
	for _, H := range append(append([]*hier{}, ths...), lhs...) {
		header += H.u.coqDef()
	}
	for _, P := range phs {
		header += P.H.u.coqDef()
	}
	for _, H := range append(hs, line) {
		header += H.u.coqDef()
	}
	for _, C := range chs {
		header += C.H.u.coqDef()
	}
	w := lib.NewWriter(header, 300)
	defer w.Guard()

	emitValidate := func(H *hier, s sub, o opts, extraTags ...string) {
		res := runValidate(H, s.chain, o)
		ok, why := admissible(H.u.abs, o, s.chain, H.entries(s.chain))
		propOK, note := judgeValidate(H.u.abs, o, s.chain, H.ders(s.chain), res, ok, why)
		tags := append([]string{"validate:" + res.class, "shape:" + s.kind, fmt.Sprintf("admissible=%v", ok)}, extraTags...)
		if !ok {
			tags = append(tags, "not-admissible:"+strings.SplitN(why, " ", 2)[0])
		}
		w.Add(lib.Case{
			Coq:    fmt.Sprintf("CValidate %s %s %s %s", H.u.name, o.coq(), coqChain(s.chain), res.coq()),
			Input:  map[string]interface{}{"kind": "validate", "universe": H.u.name, "chain": s.chain, "roles": rolesOf(H, s.chain), "opts": o.json(), "shape": s.kind},
			Impl:   map[string]interface{}{"class": res.class, "path": res.path, "err": res.err, "admissible": ok, "why_not": why},
			PropOK: propOK, Note: note, Tags: tags,
		})
	}
	emitHTTP := func(H *hier, s sub, o opts, pre bool) {
		st, calls := runHTTP(H, s.chain, o, pre)
		ok, why := admissible(H.u.abs, o, s.chain, H.entries(s.chain))
		want200, wwhy := expect200(H.u.abs, s.chain, pre, ok, why)
		propOK, note := judgeHTTP(H.u.abs, o, s.chain, pre, st, want200, ok, wwhy, handedOn(st, calls, H.ders(s.chain)))
		ep := "add-chain"
		if pre {
			ep = "add-pre-chain"
		}
		w.Add(lib.Case{
			Coq:    fmt.Sprintf("CHttp %s %s %s %s %s", H.u.name, o.coq(), coqChain(s.chain), lib.Bool(pre), lib.Nn(uint64(st))),
			Input:  map[string]interface{}{"kind": "http", "endpoint": ep, "universe": H.u.name, "chain": s.chain, "roles": rolesOf(H, s.chain), "opts": o.json(), "shape": s.kind},
			Impl:   map[string]interface{}{"status": st, "admissible": ok, "expected_200": want200, "why_not": wwhy},
			PropOK: propOK, Note: note, Tags: []string{fmt.Sprintf("http:%s:%d", ep, st), "shape:" + s.kind},
		})
	}

	emitPrecert := func(H *hier, i int, extraTags ...string) {
		e := H.u.ents[i]
		got, gotErr := safeIsPrecert(e.Cert)
		cls := poisonClass(H.u.abs[i])
		o := "None"
		if gotErr == "" {
			o = lib.Some(lib.Bool(got))
		}
		propOK := (cls == "critical-null") == (got && gotErr == "") && (cls == "absent") == (!got && gotErr == "") && gotErr != "panic"
		w.Add(lib.Case{
			Coq:    fmt.Sprintf("CPrecert %s %s %s", H.u.name, lib.Nat(i), o),
			Input:  map[string]interface{}{"kind": "precert", "universe": H.u.name, "cert": i, "role": H.u.role[i], "poison_value": stdPoisonHex(e.DER)},
			Impl:   map[string]interface{}{"is_precert": got, "error": gotErr, "poison": cls},
			PropOK: propOK, Note: "is-precertificate: poison=" + cls + " role=" + H.u.role[i], Tags: append([]string{"precert:" + cls}, extraTags...),
		})
	}

	emitCfg := func(C *cfgHier, k cfgCase) {
		H := C.H
		o := optsFor(C, k.cfg, k.rej)
		st, calls := runHTTP(H, k.chain, o, k.pre)
		d := C.std[k.leaf]
		fok, fwhy := k.cfg.pass(d, time.Now())
		ok, why := admissibleF(H.u.abs, o, k.chain, H.entries(k.chain), func(absCert) (bool, string) { return fok, fwhy })
		want200, wwhy := expect200(H.u.abs, k.chain, k.pre, ok, why)
		propOK, note := judgeHTTP(H.u.abs, o, k.chain, k.pre, st, want200, ok, wwhy, handedOn(st, calls, H.ders(k.chain)))
		ep := "add-chain"
		if k.pre {
			ep = "add-pre-chain"
		}
		verdict := "pass"
		if !fok {
			verdict = strings.SplitN(fwhy, " ", 2)[0]
		}
		tags := append([]string{fmt.Sprintf("http:%s:%d", ep, st), "shape:" + k.shape, "cfg:filters=" + verdict,
			fmt.Sprintf("cfg:filters-on=%d", k.cfg.filtersOn()), fmt.Sprintf("cfg:rej-len=%d", len(k.cfg.RejectExtensions)),
			fmt.Sprintf("cfg:eku-len=%d", len(k.cfg.ExtKeyUsages))}, k.tags...)
		w.Add(lib.Case{
			Coq: fmt.Sprintf("CHttp %s %s %s %s %s", H.u.name, o.coq(), coqChain(k.chain), lib.Bool(k.pre), lib.Nn(uint64(st))),
			Input: map[string]interface{}{"kind": "http-configured", "endpoint": ep, "universe": H.u.name, "chain": k.chain, "roles": rolesOf(H, k.chain),
				"config": k.cfg, "leaf": d, "opts": o.json(), "shape": k.shape},
			Impl:   map[string]interface{}{"status": st, "filters_pass": fok, "admissible": ok, "expected_200": want200, "why_not": wwhy},
			PropOK: propOK, Note: note, Tags: tags,
		})
	}

	for _, H := range hs {
		// IsPrecertificate on every certificate of the universe
		for i := range H.u.ents {
			emitPrecert(H, i)
		}
		// every honest chain, plain options, both endpoints (root present and absent)
		for _, leaf := range H.leaves {
			for _, p := range H.paths[leaf] {
				for cut := 0; cut < 2 && cut < len(p); cut++ {
					s := sub{clone(p[:len(p)-cut]), []string{"as-issued", "root-absent"}[cut]}
					o := opts{Roots: H.trustCf[1], Now: tHTTP}
					emitValidate(H, s, o, "honest")
					emitHTTP(H, s, o, false)
					emitHTTP(H, s, o, true)
				}
			}
		}
		for _, t := range H.target {
			s := sub{clone(t.chain), t.kind}
			o := opts{Roots: t.roots, Now: tHTTP}
			emitValidate(H, s, o, "targeted")
			emitHTTP(H, s, o, false)
		}
		for k := 0; k < perH; k++ {
			s := perturb(r, H)
			na := tNew
			if len(s.chain) > 0 && s.chain[0] >= 0 {
				na = H.u.ents[s.chain[0]].Cert.NotAfter
			}
			if k%3 != 2 {
				emitValidate(H, s, genOpts(r, H, na))
			} else {
				emitHTTP(H, s, genHTTPOpts(r, H, na), r.Intn(2) == 0)
			}
		}
		// the empty submission: ValidateChain indexes chain[0]; the endpoint refuses it first
		emitValidate(H, sub{nil, "empty"}, opts{Roots: H.trustCf[0], Now: tHTTP})
		emitHTTP(H, sub{nil, "empty"}, opts{Roots: H.trustCf[0], Now: tHTTP}, false)
	}
	// the signature-check budget: a line of k certificates under x0, root absent / present
	for _, k := range []int{3, 99, 100, 101, 102} {
		for _, withRoot := range []bool{false, true} {
			var c []int
			for i := k; i >= 1; i-- {
				c = append(c, i)
			}
			kind := fmt.Sprintf("line-%d-root-absent", k)
			if withRoot {
				c = append(c, 0)
				kind = fmt.Sprintf("line-%d-root-present", k)
			}
			emitValidate(line, sub{c, kind}, opts{Roots: []int{0}, Now: tHTTP}, "budget")
		}
	}
	// the configured filters, taken through the configuration (config.go)
	for _, C := range chs {
		for _, k := range cfgCases(rc, C, lib.Count(70, 220)) {
			emitCfg(C, k)
		}
	}
	// the class "poison extension values" (poison.go)
	for _, P := range phs {
		for _, k := range P.cases() {
			switch k.op {
			case "precert":
				emitPrecert(P.H, k.sub.chain[0], "poison-values")
			case "validate":
				emitValidate(P.H, k.sub, opts{Roots: P.H.trustCf[0], Now: tHTTP}, "poison-values")
			default:
				emitHTTP(P.H, k.sub, opts{Roots: P.H.trustCf[0], Now: tHTTP}, k.op == "add-pre-chain")
			}
		}
	}
	// the class "an entry that is a certificate and something more" (trailing.go)
	for _, H := range hs {
		for _, k := range trailingCases(rt, H, lib.Count(1, 2)) {
			o := opts{Roots: H.trustCf[1], Now: tHTTP}
			emitValidate(H, k.sub, o, "trailing")
			emitHTTP(H, k.sub, o, k.pre)
		}
	}
	for _, P := range phs {
		for _, k := range trailingCases(rt, P.H, 1) {
			o := opts{Roots: P.H.trustCf[0], Now: tHTTP}
			emitValidate(P.H, k.sub, o, "trailing")
			emitHTTP(P.H, k.sub, o, k.pre)
		}
	}
	// the classes of lineage.go
	lineage := func(H *hier, class string, nPerturb int) {
		all := opts{Roots: H.trustCf[1], Now: tHTTP}
		for _, leaf := range H.leaves {
			for _, p := range H.paths[leaf] {
				for cut := 0; cut < 2 && cut < len(p); cut++ {
					s := sub{clone(p[:len(p)-cut]), class + ":" + []string{"as-issued", "root-absent"}[cut]}
					tags := []string{class, "honest"}
					if class == "pathlen" {
						tags = append(tags, pathLenTags(H, p, s.chain)...)
					}
					emitValidate(H, s, all, tags...)
					emitHTTP(H, s, all, false)
					emitHTTP(H, s, all, true)
				}
			}
		}
		for _, t := range H.target {
			s := sub{clone(t.chain), t.kind}
			o := opts{Roots: t.roots, Now: tHTTP}
			emitValidate(H, s, o, class, "targeted")
			emitHTTP(H, s, o, false)
			emitHTTP(H, s, o, true)
		}
		for k := 0; k < nPerturb; k++ {
			s := perturb(rl, H)
			s.kind = class + ":" + s.kind
			na := tNew
			if len(s.chain) > 0 && s.chain[0] >= 0 {
				na = H.u.ents[s.chain[0]].Cert.NotAfter
			}
			if k%3 != 2 {
				emitValidate(H, s, genOpts(rl, H, na), class)
			} else {
				emitHTTP(H, s, genHTTPOpts(rl, H, na), rl.Intn(2) == 0)
			}
		}
	}
	for _, H := range ths {
		lineage(H, "twins", lib.Count(45, 100))
	}
	for _, H := range lhs {
		lineage(H, "pathlen", lib.Count(45, 100))
	}
	w.Close()
	fmt.Printf("c02: wrote %d cases (%d hierarchies, %d instances)\n", w.Len(), len(hs), len(envs))
}

func rolesOf(H *hier, c []int) []string {
	var out []string
	for _, i := range c {
		if i < 0 {
			out = append(out, "junk:"+H.junkN[-i-1])
		} else {
			out = append(out, H.u.role[i])
		}
	}
	return out
}

func safeIsPrecert(c *x509.Certificate) (is bool, errClass string) {
	defer func() {
		if recover() != nil {
			is, errClass = false, "panic"
		}
	}()
	b, err := ctfe.IsPrecertificate(c)
	if err != nil {
		return false, "error"
	}
	return b, ""
}
