// The class "poison extension values": leaves that chain correctly to the trusted root and carry the
// CT poison extension with every single-TLV variation of 05 00 - class bits, constructed bit, tag
// number (low and high form), length form, content octets - plus trailing bytes, truncations and the
// empty value, each critical and non-critical.  Each goes through IsPrecertificate, ValidateChain and
// both endpoints (root submitted or not).  The direct oracle reads the extension with the Go standard
// library and compares the value with the two octets 05 00 (strict.go): a precertificate exactly when
// critical and NULL, any other poison extension refused on both endpoints.
package main

import (
	"fmt"
	mrand "math/rand"

	"github.com/google/certificate-transparency-go/x509"
	"github.com/google/certificate-transparency-go/x509/pkix"

	"verif/harness/pki"
)

type poisonValue struct {
	name string
	val  []byte
}

// poisonValues: 05 00 and its neighbours.
func poisonValues() []poisonValue {
	vs := []poisonValue{{"null", []byte{0x05, 0x00}}}
	add := func(name string, b ...byte) { vs = append(vs, poisonValue{name, b}) }
	// identifier octet: the four classes x primitive / constructed, tag number 5
	for _, id := range []byte{0x45, 0x85, 0xc5, 0x25, 0x65, 0xa5, 0xe5} {
		add(fmt.Sprintf("id-%02x", id), id, 0x00)
	}
	// tag number: neighbours of 5, 5 in the high-tag-number form, other universal types
	add("tag-04", 0x04, 0x00)
	add("tag-06", 0x06, 0x00)
	add("tag-00", 0x00, 0x00)
	add("tag-high-5", 0x1f, 0x05, 0x00)
	add("tag-high-5-padded", 0x1f, 0x80, 0x05, 0x00)
	add("tag-high-5-constructed", 0x3f, 0x05, 0x00)
	add("boolean", 0x01, 0x01, 0xff)
	add("integer-5", 0x02, 0x01, 0x05)
	add("sequence-empty", 0x30, 0x00)
	add("sequence-of-null", 0x30, 0x02, 0x05, 0x00)
	add("octet-string-of-null", 0x04, 0x02, 0x05, 0x00)
	add("explicit-0-null", 0xa0, 0x02, 0x05, 0x00)
	// length form
	add("len-long-81", 0x05, 0x81, 0x00)
	add("len-long-82", 0x05, 0x82, 0x00, 0x00)
	add("len-indefinite", 0x05, 0x80)
	add("len-indefinite-eoc", 0x05, 0x80, 0x00, 0x00)
	add("constructed-indefinite-eoc", 0x25, 0x80, 0x00, 0x00)
	// content
	add("content-00", 0x05, 0x01, 0x00)
	add("content-ff", 0x05, 0x01, 0xff)
	add("content-0000", 0x05, 0x02, 0x00, 0x00)
	add("content-long-len", 0x05, 0x81, 0x01, 0x00)
	add("content-null", 0x05, 0x02, 0x05, 0x00)
	add("constructed-content-null", 0x25, 0x02, 0x05, 0x00)
	// trailing bytes, truncation, nothing
	add("trail-00", 0x05, 0x00, 0x00)
	add("trail-ff", 0x05, 0x00, 0xff)
	add("trail-null", 0x05, 0x00, 0x05, 0x00)
	add("lead-00", 0x00, 0x05, 0x00)
	add("truncated", 0x05)
	add("short-content", 0x05, 0x01)
	add("empty")
	add("text", 0x42, 0x42, 0x42)
	return vs
}

type poisonHier struct {
	H      *hier
	leaves []int    // one per value x critical
	chain  [][]int  // its honest chain, root last
	tag    []string // value name / critical
}

func genPoisonHier(r *mrand.Rand, k int) *poisonHier {
	u := &universe{name: fmt.Sprintf("UP%d", k), byDER: map[string]int{}}
	P := &poisonHier{H: &hier{u: u, paths: map[int][][]int{}}}
	kinds := []string{"p256", "p384", "ed25519"}
	var rootSKI, intSKI []byte
	if k%2 == 0 {
		rootSKI, intSKI = kid(r), kid(r)
	}
	root := pki.Issue(pki.Opts{CN: fmt.Sprintf("PoisonRoot p%d", k), KeyKind: kinds[k%3], KeyIdx: 0, IsCA: true, SKI: rootSKI, NotAfter: tNew2}, nil)
	inter := pki.Issue(pki.Opts{CN: fmt.Sprintf("PoisonInt p%d", k), KeyKind: kinds[(k+1)%3], KeyIdx: 1, IsCA: true, SKI: intSKI, NotAfter: tNew2}, root)
	// a pre-issuer under the intermediate: the issuer of some of the leaves
	pre := pki.Issue(pki.Opts{CN: fmt.Sprintf("PoisonPreIssuer p%d", k), KeyKind: "p256", KeyIdx: 2, IsCA: true, SKI: intSKI2(intSKI, r), NotAfter: tNew2,
		EKUs: []x509.ExtKeyUsage{x509.ExtKeyUsageCertificateTransparency}}, inter)
	iR, iI, iP := u.add(root, "root"), u.add(inter, "int"), u.add(pre, "preissuer")
	P.H.roots = []int{iR}
	P.H.trustCf = [][]int{{iR}, {iR}}
	P.H.cas = []int{iR, iI, iP}
	sa := []x509.ExtKeyUsage{x509.ExtKeyUsageServerAuth}
	n := 0
	for _, v := range poisonValues() {
		for crit := 0; crit < 2; crit++ {
			n++
			role := fmt.Sprintf("poison-%s-%s", v.name, []string{"noncritical", "critical"}[crit])
			o := pki.Opts{CN: fmt.Sprintf("%s p%d", role, k), KeyKind: "p256", KeyIdx: 3 + n%4, EKUs: sa, NotAfter: tNew,
				ExtraExt: []pkix.Extension{{Id: pki.OIDPoison, Critical: crit == 1, Value: append([]byte{}, v.val...)}}}
			// where the extension stands among the others, and who issues the leaf, vary
			if r.Intn(3) == 0 {
				o.ExtraExt = append([]pkix.Extension{{Id: oidA, Value: []byte{4, 1, byte(n)}}}, o.ExtraExt...)
			}
			parent, above := inter, []int{iI, iR}
			switch r.Intn(4) {
			case 0:
				parent, above = root, []int{iR}
			case 1:
				parent, above = pre, []int{iP, iI, iR}
			}
			i := u.add(pki.Issue(o, parent), role)
			P.leaves = append(P.leaves, i)
			P.chain = append(P.chain, append([]int{i}, above...))
			P.tag = append(P.tag, role)
			P.H.leaves = append(P.H.leaves, i)
			P.H.paths[i] = [][]int{append([]int{i}, above...)}
		}
	}
	// a leaf without the extension, for the contrast
	plain := u.add(pki.Issue(pki.Opts{CN: fmt.Sprintf("poison-absent p%d", k), KeyKind: "p256", KeyIdx: 3, EKUs: sa, NotAfter: tNew}, inter), "poison-absent")
	P.leaves, P.chain, P.tag = append(P.leaves, plain), append(P.chain, []int{plain, iI, iR}), append(P.tag, "poison-absent")
	P.H.leaves = append(P.H.leaves, plain)
	P.H.paths[plain] = [][]int{{plain, iI, iR}}
	u.abstract()
	return P
}

type poisonCase struct {
	op  string // "precert" "validate" "add-chain" "add-pre-chain"
	sub sub
}

// cases: every leaf through IsPrecertificate, ValidateChain and both endpoints, the root submitted and
// not submitted.
func (P *poisonHier) cases() []poisonCase {
	var out []poisonCase
	for j, l := range P.leaves {
		out = append(out, poisonCase{"precert", sub{[]int{l}, "poison-value"}})
		for cut := 0; cut < 2 && cut < len(P.chain[j]); cut++ {
			c := clone(P.chain[j][:len(P.chain[j])-cut])
			kind := "poison-value:" + []string{"as-issued", "root-absent"}[cut]
			if cut == 0 {
				out = append(out, poisonCase{"validate", sub{c, kind}})
			}
			out = append(out, poisonCase{"add-chain", sub{clone(c), kind}}, poisonCase{"add-pre-chain", sub{clone(c), kind}})
		}
	}
	return out
}
