// Package ctfeenv builds a real ctfe.Instance over a scriptable in-process backend.
package ctfeenv

import (
	"bytes"
	"context"
	"crypto"
	"crypto/x509"
	"encoding/json"
	"fmt"
	"net/http"
	"net/http/httptest"
	"net/url"
	"os"
	"path/filepath"
	"strings"
	"sync"
	"time"

	ct "github.com/google/certificate-transparency-go"
	"github.com/google/certificate-transparency-go/trillian/ctfe"
	"github.com/google/certificate-transparency-go/trillian/ctfe/cache"
	"github.com/google/certificate-transparency-go/trillian/ctfe/configpb"
	"github.com/google/certificate-transparency-go/trillian/ctfe/storage"
	ctx509 "github.com/google/certificate-transparency-go/x509"
	"github.com/google/trillian"
	"github.com/google/trillian/crypto/keys"
	"github.com/google/trillian/crypto/keys/der"
	"github.com/google/trillian/crypto/keyspb"
	"github.com/google/trillian/monitoring"
	"google.golang.org/grpc"
	"google.golang.org/protobuf/proto"
	"google.golang.org/protobuf/types/known/anypb"

	"verif/harness/pki"
)

func init() {
	keys.RegisterHandler(&keyspb.PrivateKey{}, signerFromProto)
}

// signer hook (Options.WrapSigner): the instance obtains its crypto.Signer from the key proto
// through the handler registry of trillian/crypto/keys, so a wrapper can only be installed
// there; setupMu makes "set the hook, set up the instance" one critical section.
var (
	setupMu    sync.Mutex
	wrapSigner func(crypto.Signer) crypto.Signer
)

func signerFromProto(ctx context.Context, pb proto.Message) (crypto.Signer, error) {
	s, err := der.FromProto(ctx, pb)
	if err == nil && wrapSigner != nil {
		s = wrapSigner(s)
	}
	return s, err
}

// Call records one backend RPC.
type Call struct {
	Method string
	Req    interface{}
}

// Backend is a scriptable trillian.TrillianLogClient.  Unset functions return Unimplemented-like errors.
type Backend struct {
	mu    sync.Mutex
	Calls []Call

	QueueLeafFn               func(context.Context, *trillian.QueueLeafRequest) (*trillian.QueueLeafResponse, error)
	GetInclusionProofByHashFn func(context.Context, *trillian.GetInclusionProofByHashRequest) (*trillian.GetInclusionProofByHashResponse, error)
	GetConsistencyProofFn     func(context.Context, *trillian.GetConsistencyProofRequest) (*trillian.GetConsistencyProofResponse, error)
	GetLatestSignedLogRootFn  func(context.Context, *trillian.GetLatestSignedLogRootRequest) (*trillian.GetLatestSignedLogRootResponse, error)
	GetEntryAndProofFn        func(context.Context, *trillian.GetEntryAndProofRequest) (*trillian.GetEntryAndProofResponse, error)
	GetLeavesByRangeFn        func(context.Context, *trillian.GetLeavesByRangeRequest) (*trillian.GetLeavesByRangeResponse, error)
}

func (b *Backend) rec(m string, r interface{}) {
	b.mu.Lock()
	b.Calls = append(b.Calls, Call{m, r})
	b.mu.Unlock()
}

// Reset clears and returns the recorded calls.
func (b *Backend) Reset() []Call {
	b.mu.Lock()
	defer b.mu.Unlock()
	c := b.Calls
	b.Calls = nil
	return c
}

var errUnset = fmt.Errorf("backend function not scripted")

func (b *Backend) QueueLeaf(ctx context.Context, in *trillian.QueueLeafRequest, _ ...grpc.CallOption) (*trillian.QueueLeafResponse, error) {
	b.rec("QueueLeaf", in)
	if b.QueueLeafFn == nil {
		return nil, errUnset
	}
	return b.QueueLeafFn(ctx, in)
}
func (b *Backend) GetInclusionProof(ctx context.Context, in *trillian.GetInclusionProofRequest, _ ...grpc.CallOption) (*trillian.GetInclusionProofResponse, error) {
	b.rec("GetInclusionProof", in)
	return nil, errUnset
}
func (b *Backend) GetInclusionProofByHash(ctx context.Context, in *trillian.GetInclusionProofByHashRequest, _ ...grpc.CallOption) (*trillian.GetInclusionProofByHashResponse, error) {
	b.rec("GetInclusionProofByHash", in)
	if b.GetInclusionProofByHashFn == nil {
		return nil, errUnset
	}
	return b.GetInclusionProofByHashFn(ctx, in)
}
func (b *Backend) GetConsistencyProof(ctx context.Context, in *trillian.GetConsistencyProofRequest, _ ...grpc.CallOption) (*trillian.GetConsistencyProofResponse, error) {
	b.rec("GetConsistencyProof", in)
	if b.GetConsistencyProofFn == nil {
		return nil, errUnset
	}
	return b.GetConsistencyProofFn(ctx, in)
}
func (b *Backend) GetLatestSignedLogRoot(ctx context.Context, in *trillian.GetLatestSignedLogRootRequest, _ ...grpc.CallOption) (*trillian.GetLatestSignedLogRootResponse, error) {
	b.rec("GetLatestSignedLogRoot", in)
	if b.GetLatestSignedLogRootFn == nil {
		return nil, errUnset
	}
	return b.GetLatestSignedLogRootFn(ctx, in)
}
func (b *Backend) GetEntryAndProof(ctx context.Context, in *trillian.GetEntryAndProofRequest, _ ...grpc.CallOption) (*trillian.GetEntryAndProofResponse, error) {
	b.rec("GetEntryAndProof", in)
	if b.GetEntryAndProofFn == nil {
		return nil, errUnset
	}
	return b.GetEntryAndProofFn(ctx, in)
}
func (b *Backend) InitLog(ctx context.Context, in *trillian.InitLogRequest, _ ...grpc.CallOption) (*trillian.InitLogResponse, error) {
	b.rec("InitLog", in)
	return nil, errUnset
}
func (b *Backend) AddSequencedLeaves(ctx context.Context, in *trillian.AddSequencedLeavesRequest, _ ...grpc.CallOption) (*trillian.AddSequencedLeavesResponse, error) {
	b.rec("AddSequencedLeaves", in)
	return nil, errUnset
}
func (b *Backend) GetLeavesByRange(ctx context.Context, in *trillian.GetLeavesByRangeRequest, _ ...grpc.CallOption) (*trillian.GetLeavesByRangeResponse, error) {
	b.rec("GetLeavesByRange", in)
	if b.GetLeavesByRangeFn == nil {
		return nil, errUnset
	}
	return b.GetLeavesByRangeFn(ctx, in)
}

// Clock is an injectable util.TimeSource.
type Clock struct {
	mu sync.Mutex
	T  time.Time
}

func (c *Clock) Now() time.Time { c.mu.Lock(); defer c.mu.Unlock(); return c.T }
func (c *Clock) Set(t time.Time) { c.mu.Lock(); c.T = t; c.mu.Unlock() }

// ReqLog records what the front end reports through RequestLog.  If Inner is set every call is
// forwarded to it as well (e.g. the production ctfe.DefaultRequestLog), after recording.
type ReqLog struct {
	mu       sync.Mutex
	Issued   [][]byte
	Statuses []int
	Inner    ctfe.RequestLog
}

func (l *ReqLog) Start(c context.Context) context.Context {
	if l.Inner != nil {
		return l.Inner.Start(c)
	}
	return c
}
func (l *ReqLog) LogPrefix(c context.Context, p string) {
	if l.Inner != nil {
		l.Inner.LogPrefix(c, p)
	}
}
func (l *ReqLog) AddDERToChain(c context.Context, d []byte) {
	if l.Inner != nil {
		l.Inner.AddDERToChain(c, d)
	}
}
func (l *ReqLog) AddCertToChain(c context.Context, cert *ctx509.Certificate) {
	if l.Inner != nil {
		l.Inner.AddCertToChain(c, cert)
	}
}
func (l *ReqLog) FirstAndSecond(c context.Context, f, s int64) {
	if l.Inner != nil {
		l.Inner.FirstAndSecond(c, f, s)
	}
}
func (l *ReqLog) StartAndEnd(c context.Context, s, e int64) {
	if l.Inner != nil {
		l.Inner.StartAndEnd(c, s, e)
	}
}
func (l *ReqLog) LeafIndex(c context.Context, i int64) {
	if l.Inner != nil {
		l.Inner.LeafIndex(c, i)
	}
}
func (l *ReqLog) TreeSize(c context.Context, n int64) {
	if l.Inner != nil {
		l.Inner.TreeSize(c, n)
	}
}
func (l *ReqLog) LeafHash(c context.Context, h []byte) {
	if l.Inner != nil {
		l.Inner.LeafHash(c, h)
	}
}
func (l *ReqLog) IssueSCT(c context.Context, b []byte) {
	l.mu.Lock()
	l.Issued = append(l.Issued, append([]byte{}, b...))
	l.mu.Unlock()
	if l.Inner != nil {
		l.Inner.IssueSCT(c, b)
	}
}
func (l *ReqLog) Status(c context.Context, s int) {
	l.mu.Lock()
	l.Statuses = append(l.Statuses, s)
	l.mu.Unlock()
	if l.Inner != nil {
		l.Inner.Status(c, s)
	}
}

// Reset clears and returns (issued SCTs, statuses).
func (l *ReqLog) Reset() ([][]byte, []int) {
	l.mu.Lock()
	defer l.mu.Unlock()
	i, s := l.Issued, l.Statuses
	l.Issued, l.Statuses = nil, nil
	return i, s
}

// Options configures New.
type Options struct {
	Roots        []*pki.Entity
	LogKey       crypto.Signer // default: P-256
	Configure    func(*configpb.LogConfig)
	Mask         bool
	ErrorMapper  func(error) (int, bool)
	ChainStorage storage.IssuanceChainStorage
	ChainCache   cache.IssuanceChainCache
	Dir          string // scratch dir for the roots PEM file
	Deadline     time.Duration
	STHStorage   ctfe.MirrorSTHStorage
	NoClock      bool
	// WrapSigner, if set, wraps the log's signer (the one that signs SCTs and STHs) before the
	// instance sees it: latency, gates and failures of the signer.  Public() must stay the log key's.
	WrapSigner func(crypto.Signer) crypto.Signer
	// Quota users (InstanceOptions.CertificateQuotaUser / RemoteQuotaUser); nil = no quota, as before.
	CertificateQuotaUser func(*ctx509.Certificate) string
	RemoteQuotaUser      func(*http.Request) string
	// RequestLogInner, if set, receives every RequestLog call after the recording ReqLog
	// (e.g. new(ctfe.DefaultRequestLog), what ct_server installs).
	RequestLogInner ctfe.RequestLog
}

// Env is a constructed instance with its collaborators.
type Env struct {
	Inst    *ctfe.Instance
	Backend *Backend
	Clock   *Clock
	ReqLog  *ReqLog
	LogKey  crypto.Signer
	Config  *configpb.LogConfig
	Prefix  string
}

var envCount int

// New validates a LogConfig and sets up an Instance through the real code paths.
func New(o Options) (*Env, error) {
	envCount++
	if o.LogKey == nil {
		o.LogKey = pki.Key("p256", 7)
	}
	if o.Dir == "" {
		o.Dir = os.TempDir()
	}
	os.MkdirAll(o.Dir, 0o755)
	rootsFile := filepath.Join(o.Dir, fmt.Sprintf("verif-roots-%d-%d.pem", os.Getpid(), envCount))
	if err := os.WriteFile(rootsFile, pki.PEM(o.Roots...), 0o600); err != nil {
		return nil, err
	}
	defer os.Remove(rootsFile)
	privDER, err := x509.MarshalPKCS8PrivateKey(o.LogKey)
	if err != nil {
		return nil, err
	}
	pubDER, err := x509.MarshalPKIXPublicKey(o.LogKey.Public())
	if err != nil {
		return nil, err
	}
	priv, err := anypb.New(&keyspb.PrivateKey{Der: privDER})
	if err != nil {
		return nil, err
	}
	cfg := &configpb.LogConfig{LogId: 4242, Prefix: "vlog", RootsPemFile: []string{rootsFile},
		PrivateKey: priv, PublicKey: &keyspb.PublicKey{Der: pubDER}}
	if o.Configure != nil {
		o.Configure(cfg)
	}
	vc, err := ctfe.ValidateLogConfig(cfg)
	if err != nil {
		return nil, fmt.Errorf("ValidateLogConfig: %w", err)
	}
	be := &Backend{}
	rl := &ReqLog{Inner: o.RequestLogInner}
	dl := o.Deadline
	if dl == 0 {
		dl = 10 * time.Second
	}
	iopts := ctfe.InstanceOptions{Validated: vc, Client: be, Deadline: dl, MetricFactory: monitoring.InertMetricFactory{},
		RequestLog: rl, MaskInternalErrors: o.Mask, ErrorMapper: o.ErrorMapper, STHStorage: o.STHStorage,
		CertificateQuotaUser: o.CertificateQuotaUser, RemoteQuotaUser: o.RemoteQuotaUser}
	clk := &Clock{T: time.Date(2024, 5, 6, 7, 8, 9, 123456789, time.UTC)}
	var inst *ctfe.Instance
	setupMu.Lock()
	wrapSigner = o.WrapSigner
	defer func() {
		wrapSigner = nil
		setupMu.Unlock()
	}()
	if o.NoClock {
		inst, err = ctfe.SetUpInstanceVerif(context.Background(), iopts, nil, o.ChainStorage, o.ChainCache)
	} else {
		inst, err = ctfe.SetUpInstanceVerif(context.Background(), iopts, clk, o.ChainStorage, o.ChainCache)
	}
	if err != nil {
		return nil, fmt.Errorf("SetUpInstance: %w", err)
	}
	return &Env{Inst: inst, Backend: be, Clock: clk, ReqLog: rl, LogKey: o.LogKey, Config: cfg, Prefix: "/" + strings.Trim(cfg.Prefix, "/")}, nil
}

// Get issues a GET on an endpoint path such as ct.GetEntriesPath with a raw query.
func (e *Env) Get(path, rawQuery string) *httptest.ResponseRecorder {
	return e.Do(http.MethodGet, path, rawQuery, nil)
}

// Do issues a request against the instance's handler for path.
func (e *Env) Do(method, path, rawQuery string, body []byte) *httptest.ResponseRecorder {
	h, ok := e.Inst.Handlers[e.Prefix+path]
	w := httptest.NewRecorder()
	if !ok {
		w.WriteHeader(http.StatusNotFound)
		return w
	}
	u := url.URL{Path: e.Prefix + path, RawQuery: rawQuery}
	req := httptest.NewRequest(method, u.String(), bytes.NewReader(body))
	h.ServeHTTP(w, req)
	return w
}

// AddChain posts a chain to add-chain / add-pre-chain.
func (e *Env) AddChain(pre bool, chain [][]byte) *httptest.ResponseRecorder {
	body, _ := json.Marshal(ct.AddChainRequest{Chain: chain})
	p := ct.AddChainPath
	if pre {
		p = ct.AddPreChainPath
	}
	return e.Do(http.MethodPost, p, "", body)
}
