// C16, entries whose [pre-]certificate parses WITH A COMPLAINT.  The repository's parser is lax: for a
// certificate with a tolerable defect it returns the parsed certificate AND an error of type
// x509.NonFatalErrors (documented on x509.ParseCertificate / ParseTBSCertificate and on
// RawLogEntry.ToLogEntry).  Real logs are full of such certificates.  For the property they are ordinary
// entries: they parse, the matcher is consulted, and an entry the matcher selects gets exactly one callback.
// The older streams log clean certificates and unparsable ones only, so every branch that tells the two kinds
// of error apart (scanner.isCertErrorFatal, CertParseFailMatcher, the copier's NotAfter check) was only ever
// taken with err == nil or with a fatal error.
//
// This file adds
//   - pool items with one tolerable defect each (eight certificates, four precertificates, two issuers),
//     checked when the pool is built: the parser hands out the certificate, the error is a
//     x509.NonFatalErrors value with at least one entry, subject / issuer / serial are what was asked for;
//   - the repository's own matchers next to the harness's (MatchAll, MatchSubjectRegex, MatchSerialNumber,
//     MatchIssuerRegex, CertParseFailMatcher with and without MatchNonFatalErrs), their verdict per pool item
//     computed here from what the matcher was built from (reference, by hand);
//   - a scan stream whose logs mix defective, clean and unparsable entries (the oracle is emit's: every entry
//     of the range the matcher selects gets exactly one callback of the right kind);
//   - runs of the two consumers (migrillian Controller, integration copier) over source logs with such
//     entries: the Controller migrates them as they are, the copier hands them out also when a NotAfter
//     window makes it parse the leaf.

package main

import (
	"crypto/sha256"
	"fmt"
	"math/big"
	mrand "math/rand"
	"os"
	"regexp"
	"strings"
	"time"

	ct "github.com/google/certificate-transparency-go"
	"github.com/google/certificate-transparency-go/asn1"
	"github.com/google/certificate-transparency-go/scanner"
	"github.com/google/certificate-transparency-go/tls"
	"github.com/google/certificate-transparency-go/x509"
	"github.com/google/certificate-transparency-go/x509/pkix"

	"verif/harness/pki"
)

// ---------------------------------------------------------------- tolerable defects

type defect struct {
	name string
	opts func(o *pki.Opts)
}

func extDefect(name string, critical bool, oid asn1.ObjectIdentifier, val ...byte) defect {
	return defect{name, func(o *pki.Opts) {
		o.ExtraExt = append(o.ExtraExt, pkix.Extension{Id: oid, Critical: critical, Value: append([]byte{}, val...)})
	}}
}

// each is a class of certificate seen in real logs that the fork's parser tolerates (x509.go: nfe.AddError)
var defects = []defect{
	extDefect("ExtendedKeyUsage extension with an empty value", false, asn1.ObjectIdentifier{2, 5, 29, 37}),
	// SubjectAltName ::= SEQUENCE { [7] iPAddress of 5 bytes }
	extDefect("iPAddress SAN of 5 bytes", false, asn1.ObjectIdentifier{2, 5, 29, 17}, 0x30, 0x07, 0x87, 0x05, 1, 2, 3, 4, 5),
	// NameConstraints ::= SEQUENCE { [0] permittedSubtrees { GeneralSubtree { [2] dNSName "a..b.c" } } }
	extDefect("dNSName name constraint a..b.c", true, asn1.ObjectIdentifier{2, 5, 29, 30}, 0x30, 0x0c, 0xa0, 0x0a, 0x30, 0x08, 0x82, 0x06, 'a', '.', '.', 'b', '.', 'c'),
	// embedded SCT list: an OCTET STRING whose TLS structure is truncated
	extDefect("embedded SCT list that is truncated", false, pki.OIDSCTList, 0x04, 0x03, 0x00, 0x05, 0xff),
	// embedded SCT list: not an OCTET STRING at all
	extDefect("embedded SCT list that is not an OCTET STRING", false, pki.OIDSCTList, 0x01, 0x01, 0xff),
	extDefect("empty AuthorityInfoAccess", false, asn1.ObjectIdentifier{1, 3, 6, 1, 5, 5, 7, 1, 1}, 0x30, 0x00),
	extDefect("empty SubjectInfoAccess", false, asn1.ObjectIdentifier{1, 3, 6, 1, 5, 5, 7, 1, 11}, 0x30, 0x00),
	// strict DER refuses '_' in a PrintableString, the lax second attempt of the parser accepts it
	{"common name with '_' in a PrintableString", func(o *pki.Opts) {
		cn := strings.Replace(o.CN, ".", "_", 1)
		o.CN = cn
		o.Mutate = func(t *x509.Certificate) {
			t.Subject.ExtraNames = []pkix.AttributeTypeAndValue{{Type: asn1.ObjectIdentifier{2, 5, 4, 3},
				Value: asn1.RawValue{Class: asn1.ClassUniversal, Tag: asn1.TagPrintableString, Bytes: []byte(cn)}}}
		}
	}},
}

const (
	nfCerts    = 8 // pool items basePool .. basePool+7: certificates, one per defect
	nfPrecerts = 4 // then precertificates (the TBS in the leaf carries the defect)
)

func buildNonFatalPool(root *pki.Entity) {
	root2 := pki.Issue(pki.Opts{CN: "c16 second root", IsCA: true, KeyIdx: 1}, nil)
	issuers := []*pki.Entity{root, root2}
	for i := 0; i < nfCerts; i++ {
		iss := issuers[i%2]
		chain, err := tls.Marshal(ct.CertificateChain{Entries: []ct.ASN1Cert{{Data: iss.DER}}})
		must(err)
		o := pki.Opts{CN: fmt.Sprintf("nf%d.example", i)}
		d := defects[i%len(defects)]
		d.opts(&o)
		c := pki.Issue(o, iss)
		li, err := tls.Marshal(*ct.CreateX509MerkleTreeLeaf(ct.ASN1Cert{Data: c.DER}, uint64(4000+i)))
		must(err)
		pool = append(pool, poolItem{class: "x509", leaf: ct.LeafEntry{LeafInput: li, ExtraData: chain}, key: string(c.DER),
			serial: c.Cert.SerialNumber.String(), cn: o.CN, issuer: iss.Cert.Subject.CommonName, defect: d.name})
	}
	for i := 0; i < nfPrecerts; i++ {
		iss := issuers[(i+1)%2]
		o := pki.Opts{CN: fmt.Sprintf("nfpre%d.example", i)}
		d := defects[(2*i+1)%len(defects)]
		d.opts(&o)
		c := pki.Issue(o, iss) // its TBS is what the log signed
		po := pki.Opts{CN: o.CN, ExtraExt: []pkix.Extension{pki.PoisonExt()}}
		pre := pki.Issue(po, iss) // what was submitted
		leaf := ct.MerkleTreeLeaf{Version: ct.V1, LeafType: ct.TimestampedEntryLeafType,
			TimestampedEntry: &ct.TimestampedEntry{Timestamp: uint64(4100 + i), EntryType: ct.PrecertLogEntryType,
				PrecertEntry: &ct.PreCert{IssuerKeyHash: sha256.Sum256(iss.Cert.RawSubjectPublicKeyInfo), TBSCertificate: c.Cert.RawTBSCertificate}}}
		li, err := tls.Marshal(leaf)
		must(err)
		extra, err := tls.Marshal(ct.PrecertChainEntry{PreCertificate: ct.ASN1Cert{Data: pre.DER}, CertificateChain: []ct.ASN1Cert{{Data: iss.DER}}})
		must(err)
		pool = append(pool, poolItem{class: "pre", leaf: ct.LeafEntry{LeafInput: li, ExtraData: extra}, key: string(pre.DER),
			serial: c.Cert.SerialNumber.String(), cn: o.CN, issuer: iss.Cert.Subject.CommonName, defect: d.name})
	}
}

// checkParsed: the premise of the stream, checked against the parser when the pool is built.  A pool item
// with a defect parses (the certificate is handed out) and the error says "tolerable" in the way the
// parser's documentation gives: a x509.NonFatalErrors value; an item without one parses without any error.
func checkParsed(i int, p poolItem, le *ct.LogEntry, perr error) {
	if p.class != "x509" && p.class != "pre" {
		return
	}
	var c *x509.Certificate
	if le != nil {
		switch {
		case le.X509Cert != nil:
			c = le.X509Cert
		case le.Precert != nil:
			c = le.Precert.TBSCertificate
		}
	}
	if c == nil {
		panic(fmt.Sprintf("pool item %d (%s): the parser hands out no certificate: %v", i, p.class, perr))
	}
	if p.defect == "" {
		if perr != nil {
			panic(fmt.Sprintf("pool item %d is meant to be clean, the parser says: %v", i, perr))
		}
	} else {
		nfe, ok := perr.(x509.NonFatalErrors)
		if !ok || len(nfe.Errors) == 0 || x509.IsFatal(perr) {
			panic(fmt.Sprintf("pool item %d (%s) is meant to parse with a non-fatal error, the parser says: %T %v", i, p.defect, perr, perr))
		}
	}
	if c.Subject.CommonName != p.cn || c.Issuer.CommonName != p.issuer || c.SerialNumber.String() != p.serial {
		panic(fmt.Sprintf("pool item %d: subject %q issuer %q serial %v, expected %q %q %s", i, c.Subject.CommonName, c.Issuer.CommonName, c.SerialNumber, p.cn, p.issuer, p.serial))
	}
}

// ---------------------------------------------------------------- the repository's matchers

func matcherName(sp *spec) string {
	if sp.impl == "" {
		return sp.mk
	}
	return sp.mk + "/" + sp.impl
}

func cnRegex(cns []string) *regexp.Regexp {
	if len(cns) == 0 {
		return regexp.MustCompile(`^$`)
	}
	var q []string
	for _, c := range cns {
		q = append(q, regexp.QuoteMeta(c))
	}
	return regexp.MustCompile("^(" + strings.Join(q, "|") + ")$")
}

func repoMatcher(sp *spec) interface{} {
	switch sp.impl {
	case "all":
		return scanner.MatchAll{}
	case "subject-regex":
		re := cnRegex(sp.implArg)
		return scanner.MatchSubjectRegex{CertificateSubjectRegex: re, PrecertificateSubjectRegex: re}
	case "serial":
		var n big.Int
		if _, ok := n.SetString(sp.implArg[0], 10); !ok {
			panic("c16: serial")
		}
		return scanner.MatchSerialNumber{SerialNumber: n}
	case "issuer-regex":
		re := cnRegex(sp.implArg)
		return scanner.MatchIssuerRegex{CertificateIssuerRegex: re, PrecertificateIssuerRegex: re}
	case "parse-fail":
		return scanner.CertParseFailMatcher{MatchNonFatalErrs: false}
	case "parse-fail+non-fatal":
		return scanner.CertParseFailMatcher{MatchNonFatalErrs: true}
	}
	panic("c16: unknown matcher implementation " + sp.impl)
}

// setMatcher fixes the matcher of a scan and what it selects, per pool item (reference: the sentence that
// documents the matcher, applied to what the pool item was built from - not to a parse of it).
func setMatcher(r *mrand.Rand, sp *spec, choice int) {
	sp.mask = make([]bool, len(pool))
	parses := func(p poolItem) bool { return p.class == "x509" || p.class == "pre" }
	switch choice {
	case 0: // no matcher: the documented default matches everything
		sp.mk = "nil"
		for i := range sp.mask {
			sp.mask[i] = true
		}
	case 1:
		sp.mk, sp.impl = "cert", "all"
		for i := range sp.mask {
			sp.mask[i] = true
		}
	case 2, 3: // "either CN or any SAN matches": a set of common names
		sp.mk, sp.impl = "cert", "subject-regex"
		for i, p := range pool {
			if parses(p) && r.Intn(3) != 0 {
				sp.mask[i] = true
				sp.implArg = append(sp.implArg, p.cn)
			}
		}
	case 4: // "only if the serial number matches": the serial of an entry of the log (if one parses)
		sp.mk, sp.impl = "cert", "serial"
		var cand []int
		for _, it := range sp.logItems {
			if parses(pool[it]) {
				cand = append(cand, it)
			}
		}
		j := basePool + r.Intn(nfCerts+nfPrecerts)
		if len(cand) > 0 {
			j = cand[r.Intn(len(cand))]
		}
		sp.implArg = []string{pool[j].serial}
		for i, p := range pool {
			sp.mask[i] = parses(p) && p.serial == pool[j].serial
		}
	case 5: // "issuer CN matches"
		sp.mk, sp.impl = "cert", "issuer-regex"
		sp.implArg = []string{[]string{"c16 root", "c16 second root", "c16 second root", "c16 nobody"}[r.Intn(4)]}
		for i, p := range pool {
			sp.mask[i] = parses(p) && p.issuer == sp.implArg[0]
		}
	case 6, 7: // the harness's own matchers, any verdicts
		sp.mk = []string{"cert", "leaf"}[choice-6]
		for i := range sp.mask {
			sp.mask[i] = r.Intn(3) != 0
		}
	default: // "any [pre-]certificate that triggered an error on parsing", tolerable ones on request
		sp.mk, sp.impl = "leaf", "parse-fail"
		if choice == 9 {
			sp.impl = "parse-fail+non-fatal"
		}
		for i, p := range pool {
			sp.mask[i] = !parses(p) || choice == 9 && p.defect != ""
		}
	}
}

// ---------------------------------------------------------------- scans

func nfItem(r *mrand.Rand) int {
	switch c := r.Intn(20); {
	case c < 11:
		return basePool + r.Intn(nfCerts+nfPrecerts)
	case c < 18:
		return r.Intn(14)
	}
	return 14 + r.Intn(basePool-14)
}

func genScanNF(r *mrand.Rand) *spec {
	sp := &spec{scan: true, tag: "scan-non-fatal"}
	sp.batch = pick(r, 1, 2, 3, 5, 8, 1000)
	sp.workers = pick(r, 1, 2, 3)
	sp.matchers = pick(r, 1, 1, 2, 4)
	sp.buffer = pick(r, 0, 0, 1, 3, 100)
	size0 := int64(pick(r, 1, 2, 4, 4, 9, 16, 25))
	if r.Intn(3) == 0 {
		sp.start = r.Int63n(size0)
	}
	sp.end = int64(pick(r, 0, 0, 0, int(size0), int(size0)+3, int(size0)/2))
	sp.sth = []sthStep{{size: size0}}
	sp.logLen = int(size0)
	sp.precertOnly = r.Intn(5) == 0
	switch r.Intn(12) {
	case 0:
		sp.tag = "scan-non-fatal-cancel"
		sp.cancelReq = 1 + r.Intn(5)
	case 1:
		sp.cont = true
		sz := size0
		for n := 1 + r.Intn(3); n > 0; n-- {
			sz += int64(1 + r.Intn(2*sp.batch%30+2))
			if sz > 60 {
				sz = 60
			}
			sp.sth = append(sp.sth, sthStep{size: sz})
		}
		sp.logLen = int(sz)
		sp.tag, sp.endAction = "scan-non-fatal-cont-cancel", "cancel"
	}
	for i := 0; i < sp.logLen; i++ {
		sp.logItems = append(sp.logItems, nfItem(r))
	}
	setMatcher(r, sp, r.Intn(10))
	genResp(r, sp, []float64{0, 0, 0.2, 0.5}[r.Intn(4)], []float64{0, 0.3, 0.8}[r.Intn(3)], 0)
	return sp
}

// every matcher over a log that holds the whole pool, and the smallest telling log (clean, defective, clean,
// defective) scanned with each of the repository's certificate matchers
func fixedScanNF() []*spec {
	var out []*spec
	r := mrand.New(mrand.NewSource(16)) // (choices 2, 3, 6, 7 draw verdicts)
	for choice := 0; choice < 10; choice++ {
		for _, po := range []bool{false, true} {
			sp := &spec{scan: true, batch: 5, workers: 2, matchers: 2, buffer: 1, tag: "scan-non-fatal", precertOnly: po,
				resp: map[int64][]rspec{5: {{rShort, 2}, {rE429, 0}}}}
			sp.sth = []sthStep{{size: int64(len(pool))}}
			sp.logLen = len(pool)
			for i := range pool {
				sp.logItems = append(sp.logItems, (i*7+3)%len(pool)) // (7 and the pool size are coprime: a permutation)
			}
			setMatcher(r, sp, choice)
			out = append(out, sp)
		}
	}
	if len(pool)%7 == 0 {
		panic("c16: fixedScanNF needs another stride")
	}
	for choice := 0; choice <= 5; choice++ {
		for k := 0; k < 3; k++ {
			sp := &spec{scan: true, batch: 2, workers: 1 + k%2, matchers: 1 + k, buffer: k, tag: "scan-non-fatal", resp: map[int64][]rspec{}}
			sp.sth = []sthStep{{size: 4}}
			sp.logLen = 4
			a, b := basePool+(2*choice+k)%nfCerts, basePool+nfCerts+(choice+k)%nfPrecerts
			sp.logItems = []int{k, a, 8 + k, b}
			setMatcher(r, sp, choice)
			out = append(out, sp)
		}
	}
	return out
}

// ---------------------------------------------------------------- the consumers

// genMigrateNF: a migration whose source log holds defective [pre-]certificates among the clean ones: they
// are entries like any other ("we want to migrate this log entry as is").
func genMigrateNF(r *mrand.Rand) *mSpec {
	sp := genMigrate(r)
	n := 0
	for k, it := range sp.items {
		if it < 14 && r.Intn(2) == 0 {
			sp.items[k] = basePool + r.Intn(nfCerts+nfPrecerts)
			n++
		}
	}
	if n > 0 {
		sp.tag += "+non-fatal-entries"
	}
	return sp
}

// copier: leaves with a tolerable defect under the accepted root (and one under the foreign root), NotAfter
// on and next to the window boundaries like the clean ones
const baseCPool = 22

var (
	cnfCerts    int // cpool items baseCPool .. : certificates
	cnfPrecerts int // then precertificates (left out with VERIF_C16_COPIER_NFPRE=0)
)

func buildCopyPoolNF(rootA, rootB *pki.Entity) {
	if len(cpool) != baseCPool {
		panic("c16: baseCPool is out of date")
	}
	ts := uint64(6000)
	for i := 0; i < 8; i++ {
		root := rootA
		if i == 5 {
			root = rootB
		}
		na := time.Date(2030+i, 1, 1, 0, 0, 0, 0, time.UTC)
		if i%3 == 1 {
			na = na.Add(-time.Second)
		}
		o := pki.Opts{CN: fmt.Sprintf("copynf%d.example", i), NotAfter: na}
		d := defects[i%len(defects)]
		d.opts(&o)
		c := pki.Issue(o, root)
		if _, err := x509.ParseCertificate(c.DER); err == nil || x509.IsFatal(err) {
			panic(fmt.Sprintf("copier pool: %s is meant to parse with a non-fatal error: %v", d.name, err))
		}
		chain, err := tls.Marshal(ct.CertificateChain{Entries: []ct.ASN1Cert{{Data: root.DER}}})
		must(err)
		li, err := tls.Marshal(*ct.CreateX509MerkleTreeLeaf(ct.ASN1Cert{Data: c.DER}, ts))
		must(err)
		ts++
		cpool = append(cpool, cItem{class: "x509", rootOK: root == rootA, notAfter: na, leaf: ct.LeafEntry{LeafInput: li, ExtraData: chain},
			chain: [][]byte{c.DER, root.DER}, defect: d.name})
		cnfCerts++
	}
	for i := 0; i < 3; i++ {
		na := time.Date(2032+2*i, 1, 1, 0, 0, 0, 0, time.UTC)
		o := pki.Opts{CN: fmt.Sprintf("copynfpre%d.example", i), NotAfter: na, ExtraExt: []pkix.Extension{pki.PoisonExt()}}
		d := defects[(3*i)%len(defects)]
		d.opts(&o)
		pre := pki.Issue(o, rootA)
		if _, err := x509.ParseCertificate(pre.DER); err == nil || x509.IsFatal(err) {
			panic(fmt.Sprintf("copier pool: precertificate with %s is meant to parse with a non-fatal error: %v", d.name, err))
		}
		leaf := ct.MerkleTreeLeaf{Version: ct.V1, LeafType: ct.TimestampedEntryLeafType,
			TimestampedEntry: &ct.TimestampedEntry{Timestamp: ts, EntryType: ct.PrecertLogEntryType,
				PrecertEntry: &ct.PreCert{IssuerKeyHash: sha256.Sum256(rootA.Cert.RawSubjectPublicKeyInfo), TBSCertificate: pre.Cert.RawTBSCertificate}}}
		ts++
		li, err := tls.Marshal(leaf)
		must(err)
		extra, err := tls.Marshal(ct.PrecertChainEntry{PreCertificate: ct.ASN1Cert{Data: pre.DER}, CertificateChain: []ct.ASN1Cert{{Data: rootA.DER}}})
		must(err)
		cpool = append(cpool, cItem{class: "pre", rootOK: true, notAfter: na, leaf: ct.LeafEntry{LeafInput: li, ExtraData: extra},
			chain: [][]byte{pre.DER, rootA.DER}, defect: d.name})
		cnfPrecerts++
	}
}

func genCopyNF(r *mrand.Rand, late bool) *cSpec {
	sp := genCopy(r, late)
	n := cnfCerts
	if os.Getenv("VERIF_C16_COPIER_NFPRE") != "0" {
		n += cnfPrecerts
	}
	for k := range sp.items {
		if r.Intn(2) == 0 {
			sp.items[k] = baseCPool + r.Intn(n)
		}
	}
	if sp.naStart == 0 && sp.naLimit == 0 && r.Intn(4) != 0 { // mostly with a window: the copier then parses the leaf
		if r.Intn(2) == 0 {
			sp.naStart = 2030 + r.Intn(5)
		} else {
			sp.naLimit = 2033 + r.Intn(6)
		}
		sp.tag += "+window"
	}
	sp.tag += "+non-fatal-entries"
	return sp
}
