(* L4 lemmas, part 2: two runs of parseField over different leaf sets, related by an abstract
   relation (instantiated in DerHeadline.v). *)
From Coq Require Import ZArith NArith List Bool Lia.
From Coq.Strings Require Import Byte.
From V Require Import Base.Bytes ASN1.DerBase ASN1.DerHeader ASN1.DerHeaderProofs ASN1.DerPrim ASN1.DerPrimProofs ASN1.DerModel ASN1.DerStructProofs.
Import ListNotations.
Local Open Scope Z_scope.

Scheme aty_mut := Induction for aty Sort Prop
with fields_mut := Induction for fields Sort Prop.
Combined Scheme aty_fields_ind from aty_mut, fields_mut.

(* Two runs of parseField that differ only in the leaf set (the lax relaxations, or fork versus
   upstream), related by an abstract relation [Rel d] between outcomes, indexed by the slice [d] of
   the input being parsed.  Instantiated twice below: "accepts more" and "equal, or a documented
   difference is located in d". *)
Section Sim.
  Variables (v0 v1 : variant) (G1 G2 : leaves).
  Hypothesis Hb1 : l_b128 G1 = parse_base128 v1.

  Variable Rel : forall A : Type, bytes -> res A -> res A -> Prop.
  Arguments Rel {A}.
  Hypothesis Rel_refl : forall A d (r : res A), Rel d r r.
  Hypothesis Rel_bind : forall A B d (r1 r2 : res A) (f1 f2 : A -> res B),
    Rel d r1 r2 -> (forall a, r1 = Ok a -> Rel d (f1 a) (f2 a)) -> Rel d (bind r1 f1) (bind r2 f2).
  Hypothesis Rel_sub : forall A d' d (r1 r2 : res A), infix d' d -> Rel d' r1 r2 -> Rel d r1 r2.

  (* the leaves, each at the place where parseField consults it *)
  Hypothesis H_tag : forall tb r, bz tb mod 32 = 31 -> Rel (tb :: r) (l_b128 G1 r) (l_b128 G2 r).
  Hypothesis H_int : forall hb c h, parse_tl v1 hb = Ok (h, []) -> zlen c = t_len h -> Rel (hb ++ c) (l_int_check G1 c) (l_int_check G2 c).
  Hypothesis H_oid : forall hb c h, parse_tl v1 hb = Ok (h, []) -> zlen c = t_len h -> Rel (hb ++ c) (l_oid G1 c) (l_oid G2 c).
  Hypothesis H_printable : forall hb c h, parse_tl v1 hb = Ok (h, []) -> zlen c = t_len h -> Rel (hb ++ c) (l_printable G1 c) (l_printable G2 c).
  Hypothesis H_gentime : forall hb c h, parse_tl v1 hb = Ok (h, []) -> zlen c = t_len h -> Rel (hb ++ c) (l_gentime G1 c) (l_gentime G2 c).

  Lemma sim_parse_tl d : Rel d (parse_tl_with (l_b128 G1) d) (parse_tl_with (l_b128 G2) d).
  Proof.
    rewrite !parse_tl_with_eq. destruct d as [|b r]; [apply Rel_refl|].
    destruct (Z.eqb_spec (bz b mod 32) 31) as [E|E]; [|apply Rel_refl].
    apply Rel_bind; [apply H_tag; exact E|]. intros a _. apply Rel_refl.
  Qed.

  Lemma parse_tl1_suffix d h r : parse_tl_with (l_b128 G1) d = Ok (h, r) -> exists hb, d = hb ++ r /\ parse_tl v1 hb = Ok (h, []) /\ (2 <= length hb)%nat.
  Proof. rewrite Hb1. apply parse_tl_suffix. Qed.

  Lemma sim_explicit t p h r1 d : infix r1 d ->
    Rel d (explicit_phase (l_b128 G1) t p h r1) (explicit_phase (l_b128 G2) t p h r1).
  Proof.
    intros Hin. unfold explicit_phase. destruct (negb (p_explicit p)); [apply Rel_refl|].
    destruct r1 as [|b0 r0]; [apply Rel_refl|]. destruct (p_tag p); [|apply Rel_refl].
    destruct (_ && _ && _); [|apply Rel_refl]. destruct (is_raw t); [apply Rel_refl|].
    destruct (0 <? t_len h); [|apply Rel_refl].
    apply Rel_bind; [|intros a _; apply Rel_refl]. eapply Rel_sub; [exact Hin|apply sim_parse_tl].
  Qed.

  Lemma sim_header t p d : Rel d (header_phase (l_b128 G1) t p d) (header_phase (l_b128 G2) t p d).
  Proof.
    unfold header_phase. apply Rel_bind; [apply sim_parse_tl|]. intros [h r1] E. cbn [fst snd].
    apply parse_tl1_suffix in E. destruct E as (hb & -> & _).
    apply Rel_bind; [apply sim_explicit; apply infix_app_l|]. intros a _. apply Rel_refl.
  Qed.

  Section AtLeaf.
    Variables (hb c : bytes) (h : tl).
    Hypothesis Hh : parse_tl v1 hb = Ok (h, []).
    Hypothesis Hl : zlen c = t_len h.

    Lemma sim_int64 : Rel (hb ++ c) (parse_int64_with (l_int_check G1) c) (parse_int64_with (l_int_check G2) c).
    Proof. unfold parse_int64_with. apply Rel_bind; [eapply H_int; eauto|]. intros; apply Rel_refl. Qed.
    Lemma sim_int32 : Rel (hb ++ c) (parse_int32_with (l_int_check G1) c) (parse_int32_with (l_int_check G2) c).
    Proof.
      unfold parse_int32_with. apply Rel_bind; [eapply H_int; eauto|]. intros _ _.
      apply Rel_bind; [apply sim_int64|]. intros; apply Rel_refl.
    Qed.
    Lemma sim_bigint : Rel (hb ++ c) (parse_bigint_with (l_int_check G1) c) (parse_bigint_with (l_int_check G2) c).
    Proof. unfold parse_bigint_with. apply Rel_bind; [eapply H_int; eauto|]. intros; apply Rel_refl. Qed.

    Lemma sim_string utag : Rel (hb ++ c) (parse_string G1 utag c) (parse_string G2 utag c).
    Proof. unfold parse_string. destruct (utag =? 19); [eapply H_printable; eauto|apply Rel_refl]. Qed.

    Lemma sim_rmap {A B} (f : A -> B) d (r1 r2 : res A) : Rel d r1 r2 -> Rel d (rmap f r1) (rmap f r2).
    Proof. intros H. unfold rmap. apply Rel_bind; [exact H|]. intros; apply Rel_refl. Qed.

    Lemma sim_prim_body t utag full : Rel (hb ++ c) (prim_body G1 t utag h c full) (prim_body G2 t utag h c full).
    Proof.
      destruct t; cbn [prim_body]; try apply Rel_refl; apply sim_rmap.
      - destruct w64; [apply sim_int64|apply sim_int32].
      - apply sim_bigint.
      - eapply H_oid; eauto.
      - apply sim_int32.
      - destruct (utag =? 23); [apply Rel_refl|eapply H_gentime; eauto].
      - apply sim_string.
    Qed.

    Lemma sim_any_value tag : Rel (hb ++ c) (any_value G1 tag c) (any_value G2 tag c).
    Proof.
      unfold any_value.
      destruct (tag =? 19); [apply sim_rmap; eapply H_printable; eauto|].
      destruct (tag =? 18); [apply Rel_refl|]. destruct (tag =? 22); [apply Rel_refl|].
      destruct (tag =? 20); [apply Rel_refl|]. destruct (tag =? 12); [apply Rel_refl|].
      destruct (tag =? 2); [apply sim_rmap, sim_int64|]. destruct (tag =? 3); [apply Rel_refl|].
      destruct (tag =? 6); [apply sim_rmap; eapply H_oid; eauto|]. destruct (tag =? 23); [apply Rel_refl|].
      destruct (tag =? 24); [apply sim_rmap; eapply H_gentime; eauto|]. apply Rel_refl.
    Qed.
  End AtLeaf.

  Lemma sim_parse_any d : Rel d (parse_any G1 d) (parse_any G2 d).
  Proof.
    unfold parse_any. apply Rel_bind; [apply sim_parse_tl|]. intros [h r] E. cbn [fst snd].
    destruct (Z.ltb_spec (zlen r) (t_len h)); [apply Rel_refl|].
    rewrite Hb1 in E. pose proof (parse_tl_bound _ _ _ _ E) as (_ & _ & Hlen).
    apply parse_tl_suffix in E. destruct E as (hb & -> & Hh & _).
    apply Rel_bind; [|intros; apply Rel_refl].
    destruct (negb (t_compound h) && (t_class h =? 0)); [|apply Rel_refl].
    eapply Rel_sub; [|eapply sim_any_value; [exact Hh|apply ztake_len; lia]].
    rewrite <- (ztake_zdrop (t_len h) r) at 2. rewrite app_assoc. apply infix_app_r.
  Qed.

  Lemma sim_seq_count ma etag ecomp fuel : forall d n,
    Rel d (seq_count (l_b128 G1) ma etag ecomp fuel d n) (seq_count (l_b128 G2) ma etag ecomp fuel d n).
  Proof.
    induction fuel as [|f IH]; intros d n; destruct d as [|b0 d0]; cbn [seq_count]; try apply Rel_refl.
    apply Rel_bind; [apply sim_parse_tl|]. intros [h r] E. cbn [fst snd].
    destruct (_ && _); [apply Rel_refl|]. destruct (_ <? _); [apply Rel_refl|].
    apply parse_tl1_suffix in E. destruct E as (hb & -> & _).
    eapply Rel_sub; [|apply IH]. eapply infix_trans; [apply infix_zdrop|apply infix_app_l].
  Qed.

  Lemma sim_seq_elems (pe1 pe2 : bytes -> res (val * bytes)) :
    (forall d, Rel d (pe1 d) (pe2 d)) -> (forall d x r, pe1 d = Ok (x, r) -> exists hd, d = hd ++ r) ->
    forall n d, Rel d (seq_elems pe1 n d) (seq_elems pe2 n d).
  Proof.
    intros Hpe Hsuf. induction n as [|n IH]; intros d; cbn [seq_elems]; [apply Rel_refl|].
    apply Rel_bind; [apply Hpe|]. intros [x r] E. cbn [fst snd]. apply Hsuf in E. destruct E as (hd & ->).
    apply Rel_bind; [|intros; apply Rel_refl]. eapply Rel_sub; [apply infix_app_l|apply IH].
  Qed.

  Definition PS (t : aty) : Prop := forall p d, Rel d (parse_field v0 (fun _ => G1) t p d) (parse_field v0 (fun _ => G2) t p d).
  Definition QS (fs : fields) : Prop := forall lax d, Rel d (parse_fields v0 (fun _ => G1) lax fs d) (parse_fields v0 (fun _ => G2) lax fs d).

  Lemma header1_body t p d h utag inner rest :
    header_phase (l_b128 G1) t p d = Ok (HBody h utag inner rest) ->
    exists pre hb, d = pre ++ hb ++ inner ++ rest /\ parse_tl v1 hb = Ok (h, []) /\ zlen inner = t_len h /\ (2 <= length hb)%nat.
  Proof. rewrite Hb1. apply header_phase_body. Qed.

  Lemma infix_body pre hb inner rest : infix (hb ++ inner) (pre ++ hb ++ inner ++ rest).
  Proof. exists pre, rest. rewrite <- app_assoc. reflexivity. Qed.
  Lemma infix_inner pre hb inner rest : infix inner (pre ++ hb ++ inner ++ rest).
  Proof. exists (pre ++ hb), rest. rewrite <- app_assoc. reflexivity. Qed.

  (* every non-recursive kind *)
  Lemma sim_prim_field t p d (k1 : res (val * bytes)) (k2 : bytes -> res (val * bytes)) :
    Rel d (bind (header_phase (l_b128 G1) t p d) (fun st => match st with
             | HDefault => k1 | HFlagSet r => k2 r
             | HBody h utag inner rest => bind (prim_body G1 t utag h inner (consumed d rest)) (fun x => Ok (x, rest)) end))
          (bind (header_phase (l_b128 G2) t p d) (fun st => match st with
             | HDefault => k1 | HFlagSet r => k2 r
             | HBody h utag inner rest => bind (prim_body G2 t utag h inner (consumed d rest)) (fun x => Ok (x, rest)) end)).
  Proof.
    apply Rel_bind; [apply sim_header|]. intros st E. destruct st as [|r|h utag inner rest]; try apply Rel_refl.
    apply header1_body in E. destruct E as (pre & hb & Hd & Hh & Hl & _).
    apply Rel_bind; [|intros; apply Rel_refl].
    apply Rel_sub with (d' := hb ++ inner); [rewrite Hd; apply infix_body|].
    apply sim_prim_body; assumption.
  Qed.

  Lemma sim_leaf_kind t p d :
    (forall rc fs, t <> TStruct rc fs) -> (forall sn e, t <> TSeqOf sn e) ->
    Rel d (parse_field v0 (fun _ => G1) t p d) (parse_field v0 (fun _ => G2) t p d).
  Proof.
    intros Hns Hnq. destruct d as [|b0 d0]; [destruct t; cbn; apply Rel_refl|].
    destruct t; cbn [parse_field];
      try apply sim_prim_field; try apply sim_parse_any.
    - exfalso; eapply Hnq; reflexivity.
    - exfalso; eapply Hns; reflexivity.
  Qed.

  Lemma sim_parse_field : (forall t, PS t) /\ (forall fs, QS fs).
  Proof.
    apply aty_fields_ind; unfold PS, QS; intros;
      try (apply sim_leaf_kind; intros; discriminate).
    - (* TSeqOf *)
      destruct d as [|b0 d0]; [cbn; apply Rel_refl|]. cbn [parse_field].
      apply Rel_bind; [apply sim_header|]. intros st E. destruct st as [|r|h utag inner rest]; try apply Rel_refl.
      apply header1_body in E. destruct E as (pre & hb & Hd & Hh & Hl & _).
      apply Rel_bind; [|intros; apply Rel_refl].
      eapply Rel_sub; [rewrite Hd; apply infix_inner|].
      unfold parse_seq_of. destruct (universal e) as [[[ma et] ec]|]; [|apply Rel_refl].
      apply Rel_bind; [apply sim_seq_count|]. intros n _.
      apply sim_seq_elems; [intros d'; apply H|].
      intros d' x r Hpe. eapply (parse_field_suffix v0 v1); [|exact Hpe]. intros b; exact Hb1.
    - (* TStruct *)
      destruct d as [|b0 d0]; [cbn; apply Rel_refl|]. cbn [parse_field].
      apply Rel_bind; [apply sim_header|]. intros st E. destruct st as [|r|h utag inner rest]; try apply Rel_refl.
      apply header1_body in E. destruct E as (pre & hb & Hd & Hh & Hl & _).
      apply Rel_bind; [|intros; apply Rel_refl].
      eapply Rel_sub; [rewrite Hd; apply infix_inner|]. apply H.
    - (* FNil *) cbn. apply Rel_refl.
    - (* FCons *)
      cbn [parse_fields]. apply Rel_bind; [apply H|]. intros [x r] E. cbn [fst snd].
      eapply (parse_field_suffix v0 v1) in E; [|intros b; exact Hb1]. destruct E as (hd & ->).
      apply Rel_bind; [|intros; apply Rel_refl]. eapply Rel_sub; [apply infix_app_l|apply H0].
  Qed.
End Sim.
