(* C18: temporal windows.  The three membership tests are the GENERATED conditions of
   gen/Windows.v (translated from cert_checker.go, multilog.go, logfilter.go on every run);
   this file adds the hand-written glue around them: the IndexByDate loop and the
   NewTemporalLogClient construction checks (whose individual conditions are generated too). *)
From Coq Require Import ZArith Bool List Lia.
From V Require Import Base.GoInt gen.Windows.
Import ListNotations.
Open Scope Z_scope.

Definition interval := (option Z * option Z)%type.   (* [lower, upper) with optional bounds *)

(* the specification: t is inside [lo, hi) *)
Definition inside (t : Z) (iv : interval) : Prop :=
  (forall s, fst iv = Some s -> s <= t) /\ (forall l, snd iv = Some l -> t < l).

Definition insideb (t : Z) (iv : interval) : bool :=
  match fst iv with Some s => s <=? t | None => true end &&
  match snd iv with Some l => t <? l | None => true end.

(* ctfe.ValidateChain: the two NotAfter rejections *)
Definition ctfe_admits (t : Z) (iv : interval) : bool :=
  negb (ctfe_reject_early t (fst iv) (snd iv)) && negb (ctfe_reject_late t (fst iv) (snd iv)).

(* client.TemporalLogClient.IndexByDate: one loop iteration selects the shard unless skipped *)
Definition client_selects (t : Z) (iv : interval) : bool :=
  negb (client_skip_early t (fst iv) (snd iv)) && negb (client_skip_late t (fst iv) (snd iv)).

Fixpoint index_by_date_from (i : nat) (t : Z) (ivs : list interval) : option nat :=
  match ivs with
  | [] => None
  | iv :: rest => if client_selects t iv then Some i else index_by_date_from (S i) t rest
  end.
Definition index_by_date := index_by_date_from 0.

(* loglist3.TemporallyCompatible for one log: no interval = always compatible *)
Definition loglist_compatible (t : Z) (ti : option (Z * Z)) : bool :=
  match ti with None => true | Some (s, e) => loglist_keep t s e end.

(* client.NewTemporalLogClient: returns the interval list or refuses.
   (shardInterval's timestamp CheckValid is protobuf's; inputs here are valid instants.) *)
Definition shard_interval (iv : interval) : option interval :=
  if shard_inverted (fst iv) (snd iv) then None else Some iv.

Fixpoint extend (overall_hi : option Z) (shards : list interval) : option (list interval) :=
  match shards with
  | [] => Some []
  | sh :: rest =>
      match shard_interval sh with
      | None => None
      | Some iv =>
          if shard_no_upper overall_hi (fst iv) then None
          else if shard_no_lower overall_hi (fst iv) then None
          else if shard_gap overall_hi (fst iv) then None
          else match extend (snd iv) rest with
               | None => None
               | Some ivs => Some (iv :: ivs)
               end
      end
  end.

Definition new_temporal (shards : list interval) : option (list interval) :=
  match shards with
  | [] => None
  | sh :: rest =>
      match shard_interval sh with
      | None => None
      | Some iv => match extend (snd iv) rest with
                   | None => None
                   | Some ivs => Some (iv :: ivs)
                   end
      end
  end.

(* overall span of an accepted list: [first lower, last upper) *)
Fixpoint last_upper (hi : option Z) (rest : list interval) : option Z :=
  match rest with [] => hi | iv :: r => last_upper (snd iv) r end.
Definition span (ivs : list interval) : interval :=
  match ivs with
  | [] => (None, None)
  | iv :: rest => (fst iv, last_upper (snd iv) rest)
  end.

(* trillian/integration NotAfterForLog: the NotAfter that certificates submitted to a log with window
   iv are given.  Hand-written after the Go function, branch for branch: no bound -> a day from now;
   start only -> a day after the start; both -> the start plus half of limit.Sub(start) (time.Time.Sub
   saturates at the ends of the Duration range; Go's integer division truncates towards zero);
   limit only -> an hour before the limit. *)
Definition hour_ns : Z := 3600000000000.
Definition day_ns : Z := 24 * hour_ns.
Definition sub_sat (a b : Z) : Z := Z.max min_i64 (Z.min max_i64 (a - b)).
Definition not_after_for_log (now : Z) (iv : interval) : Z :=
  match iv with
  | (None, None) => now + day_ns
  | (Some s, None) => s + day_ns
  | (Some s, Some l) => s + Z.quot (sub_sat l s) 2
  | (None, Some l) => l - hour_ns
  end.

(* a window that holds at least one instant *)
Definition nonempty (iv : interval) : Prop :=
  forall s l, fst iv = Some s -> snd iv = Some l -> s < l.

(* ---- correspondence-case runners (evaluated by vm_compute on harness cases) ---- *)
Definition run_point (t : Z) (iv : interval) : bool * bool :=
  (ctfe_admits t iv, client_selects t iv).
Definition run_loglist (t s e : Z) : bool := loglist_keep t s e.
Definition run_shards (shards : list interval) (ts : list Z) : option (list (option nat)) :=
  match new_temporal shards with
  | None => None
  | Some ivs => Some (map (fun t => index_by_date t ivs) ts)
  end.
