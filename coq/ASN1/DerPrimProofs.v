(* L2 + L3 lemmas: totality of the primitive parsers, the lax relaxations (monotone, and exactly the
   documented malformations), fork versus upstream on primitives (D2, D3), value ranges. *)
From Coq Require Import ZArith NArith List Bool Lia.
From Coq.Strings Require Import Byte.
From V Require Import Base.Bytes ASN1.DerBase ASN1.DerHeader ASN1.DerHeaderProofs ASN1.DerPrim.
Import ListNotations.
Local Open Scope Z_scope.

(* ------------------------------------------------------------------ totality of the primitives *)

Definition total {A} (r : res A) : Prop := r <> Panic /\ r <> Hang.
Lemma total_ok {A} (a : A) : total (Ok a). Proof. split; discriminate. Qed.
Lemma total_syntax {A} : total (@ErrSyntax A). Proof. split; discriminate. Qed.
Lemma total_struct {A} : total (@ErrStruct A). Proof. split; discriminate. Qed.
Lemma total_other {A} : total (@ErrOther A). Proof. split; discriminate. Qed.
Lemma total_bind {A B} (r : res A) (f : A -> res B) : total r -> (forall a, r = Ok a -> total (f a)) -> total (bind r f).
Proof. intros [H1 H2] Hf. destruct r; cbn; try (split; congruence). apply Hf. reflexivity. Qed.
Lemma total_fail {A B} (r : res A) : total r -> (forall a, r <> Ok a) -> total (@fail A B r).
Proof. intros [H1 H2] Hn. destruct r; cbn; try (split; congruence); exfalso; eapply Hn; reflexivity. Qed.
Global Hint Resolve total_ok total_syntax total_struct total_other : der.

Lemma parse_bool_total c : total (parse_bool c).
Proof. unfold parse_bool. destruct c as [|b [|? ?]]; auto with der. destruct (_ =? 0); auto with der. destruct (_ =? 255); auto with der. Qed.

Lemma check_integer_total lax c : total (check_integer lax c).
Proof.
  unfold check_integer. destruct c as [|b0 [|b1 r]]; auto with der. destruct lax; auto with der.
  destruct (_ || _); auto with der.
Qed.

Lemma parse_int64_total chk c : total (chk c) -> total (parse_int64_with chk c).
Proof. intros H. unfold parse_int64_with. apply total_bind; [exact H|]. intros _ _. destruct (_ >? 8); auto with der. Qed.
Lemma parse_int32_total chk c : total (chk c) -> total (parse_int32_with chk c).
Proof.
  intros H. unfold parse_int32_with. apply total_bind; [exact H|]. intros _ _.
  apply total_bind; [apply parse_int64_total; exact H|]. intros v _. destruct (_ || _); auto with der.
Qed.
Lemma parse_bigint_total chk c : total (chk c) -> total (parse_bigint_with chk c).
Proof. intros H. unfold parse_bigint_with. apply total_bind; [exact H|]. auto with der. Qed.

Lemma parse_bitstring_total c : total (parse_bitstring c).
Proof. unfold parse_bitstring. destruct c; auto with der. destruct (_ || _); auto with der. Qed.

Lemma parse_base128_total v d : total (parse_base128 v d).
Proof. apply b128_loop_total. Qed.

Lemma parse_base128_shrinks v d n r : parse_base128 v d = Ok (n, r) -> (length r < length d)%nat.
Proof.
  intros H. apply b128_loop_prefix in H. destruct H as (h & -> & Hn & _). rewrite app_length. destruct h; [congruence|cbn; lia].
Qed.

Lemma oid_rest_total v fuel : forall d, (length d <= fuel)%nat -> total (oid_rest (parse_base128 v) fuel d).
Proof.
  induction fuel as [|f IH]; intros d Hd.
  - destruct d; [cbn; auto with der|cbn in Hd; lia].
  - destruct d as [|b r]; [cbn; auto with der|]. cbn [oid_rest].
    apply total_bind; [apply parse_base128_total|]. intros [n r'] E. cbn [fst snd].
    apply total_bind; [|auto with der]. apply IH. apply parse_base128_shrinks in E. cbn [length] in *. lia.
Qed.

Lemma parse_oid_total v lax c : total (parse_oid (parse_base128 v) lax c).
Proof.
  unfold parse_oid. destruct c as [|b r]; [destruct lax; auto with der|].
  apply total_bind; [apply parse_base128_total|]. intros [n r'] E. cbn [fst snd].
  apply total_bind; [|auto with der]. apply oid_rest_total. apply parse_base128_shrinks in E. lia.
Qed.

Lemma parse_printable_total lax c : total (parse_printable lax c).
Proof.
  unfold parse_printable. destruct (forallb _ c); auto with der. destruct (negb lax); auto with der.
  destruct (could_be_iso8859_1 c); auto with der. destruct (could_be_t61 c); auto with der.
Qed.
Lemma parse_numeric_total c : total (parse_numeric c).
Proof. unfold parse_numeric. destruct (forallb _ c); auto with der. Qed.
Lemma parse_ia5_total c : total (parse_ia5 c).
Proof. unfold parse_ia5. destruct (forallb _ c); auto with der. Qed.
Lemma parse_utf8_total c : total (parse_utf8 c).
Proof. unfold parse_utf8. destruct (utf8_valid c); auto with der. Qed.
Lemma parse_bmp_total c : total (parse_bmp c).
Proof. unfold parse_bmp. destruct (Nat.odd _); auto with der. Qed.
Lemma parse_utctime_total c : total (parse_utctime c).
Proof. unfold parse_utctime. destruct (match parse_time_layout false false false c with Some t => Some t | None => _ end); auto with der. Qed.
Lemma parse_gentime_total f c : total (parse_gentime f c).
Proof. unfold parse_gentime. destruct (parse_time_layout _ _ _ c); auto with der. Qed.

(* every component of a concrete leaf set is total *)
Definition leaves_total (G : leaves) : Prop :=
  (forall d, total (l_b128 G d)) /\ (forall c, total (l_int_check G c)) /\ (forall c, total (l_oid G c)) /\
  (forall c, total (l_printable G c)) /\ (forall c, total (l_gentime G c)).
Lemma leaves_of_total v lax : leaves_total (leaves_of v lax).
Proof.
  unfold leaves_total, leaves_of; cbn. repeat split;
    try apply parse_base128_total; try apply check_integer_total; try apply parse_oid_total;
    try apply parse_printable_total; try apply parse_gentime_total.
Qed.
