// Class "vector length bounds": decoding must accept exactly the byte strings RFC 6962 section 3
// (and RFC 5246 section 4.3 for the vector syntax) describes, in particular a length prefix outside
// the declared <floor..ceiling> of a vector is an error - also when that length is ZERO.
//
// For every structure the property names, well-formed encodings are written BY HAND from the RFC
// text (the builders below; nothing of /repo is used to make the bytes), and then every
// variable-length vector in it - at every position: leaf certificate, TBSCertificate, every chain
// element, pre_certificate, extensions, signature, each SerializedSCT, the lists themselves - is
// presented deformed: emptied (length prefix 0, enclosing lengths consistent), with its prefix
// zeroed but the content left in place, cut to one octet, and with the prefix one too large / one
// too small.  Whether a byte string must be accepted is decided by the reference parser below
// (refs), a second hand transcription of the RFC grammar with the RFC's declared bounds as
// literals; neither the builders nor the reference read the struct tags of /repo.
//
// Routes: tls.Unmarshal into each wire type (prefix parse: acceptance and the number of octets left
// over must agree with the reference, the decoded value must re-encode to the consumed octets),
// ct.RawLogEntryFromLeaf on (leaf_input, extra_data) (complete parse of both), and the SCT list route
// tls.Unmarshal + x509util.ParseSCTsFromSCTList (complete parse of the list and of every SCT in it).
package main

import (
	"encoding/binary"
	"encoding/hex"
	"fmt"
	mrand "math/rand"
	"reflect"

	ct "github.com/google/certificate-transparency-go"
	"github.com/google/certificate-transparency-go/tls"
	"github.com/google/certificate-transparency-go/x509"
	"github.com/google/certificate-transparency-go/x509util"

	"verif/harness/lib"
	"verif/harness/tlsgen"
)

// ---- hand encoder: a tree of fixed fields, vectors and sequences ----

type hv struct {
	kind byte   // 'f' fixed-size field (uintN, enum, opaque[N]); 'v' vector; 's' sequence of fields
	name string // vectors: the RFC's name and declared bounds (a label for the reports only)
	w    int    // vectors: octets of the length prefix
	raw  []byte // 'f', and 'v' with opaque content
	kids []*hv  // 's', and 'v' whose content is structured (elements of a list, or a serialized structure)
}

func hf(raw ...byte) *hv                       { return &hv{kind: 'f', raw: raw} }
func hseq(kids ...*hv) *hv                     { return &hv{kind: 's', kids: kids} }
func hvec(name string, w int, raw []byte) *hv  { return &hv{kind: 'v', name: name, w: w, raw: raw} }
func hlist(name string, w int, kids []*hv) *hv { return &hv{kind: 'v', name: name, w: w, kids: kids} }
func hu64(v uint64) *hv                        { return hf(binary.BigEndian.AppendUint64(nil, v)...) }
func hu16(v uint16) *hv                        { return hf(byte(v>>8), byte(v)) }

type vsite struct {
	name string
	w, n int // prefix width, content octets in the well-formed encoding
}

// venc encodes a tree; the target-th vector (in the fixed order of encoding) is deformed.
type venc struct {
	seen, target int
	mode         string
	sites        []vsite // filled when target < 0
}

func (e *venc) enc(v *hv) []byte {
	switch v.kind {
	case 'f':
		return v.raw
	case 's':
		var b []byte
		for _, k := range v.kids {
			b = append(b, e.enc(k)...)
		}
		return b
	}
	content := v.raw
	if v.kids != nil {
		content = nil
		for _, k := range v.kids {
			content = append(content, e.enc(k)...)
		}
	}
	idx := e.seen
	e.seen++
	if e.target < 0 {
		e.sites = append(e.sites, vsite{v.name, v.w, len(content)})
	}
	n := len(content)
	if idx == e.target {
		switch e.mode {
		case "empty":
			content, n = nil, 0
		case "prefix-zeroed":
			n = 0
		case "one-octet":
			content, n = content[:1], 1
		case "prefix+1":
			n++
		case "prefix-1":
			n--
		}
	}
	b := make([]byte, 0, v.w+len(content))
	for i := v.w - 1; i >= 0; i-- {
		b = append(b, byte(n>>(8*uint(i))))
	}
	return append(b, content...)
}

// ---- builders, from the RFC text ----

// RFC 6962 3.1: opaque ASN.1Cert<1..2^24-1>
func bCert(pos string, der []byte) *hv { return hvec(pos+" ASN.1Cert<1..2^24-1>", 3, der) }

// RFC 6962 3.2: struct { opaque issuer_key_hash[32]; TBSCertificate tbs_certificate; } PreCert; opaque TBSCertificate<1..2^24-1>
func bPreCert(ikh [32]byte, tbs []byte) *hv {
	return hseq(hf(ikh[:]...), hvec("PreCert.tbs_certificate TBSCertificate<1..2^24-1>", 3, tbs))
}

type hEntry struct {
	ts      uint64
	precert bool
	ikh     [32]byte
	body    []byte
	ext     []byte
}

// entry_type, signed_entry, extensions (shared by TimestampedEntry and the SCT signature input)
func (h hEntry) tail(where string) []*hv {
	ext := hvec(where+".extensions CtExtensions<0..2^16-1>", 2, h.ext)
	if h.precert {
		return []*hv{hu16(1), bPreCert(h.ikh, h.body), ext}
	}
	return []*hv{hu16(0), bCert(where+".signed_entry", h.body), ext}
}

// RFC 6962 3.4: struct { uint64 timestamp; LogEntryType entry_type; select(entry_type) {...} signed_entry; CtExtensions extensions; } TimestampedEntry
func bTimestampedEntry(h hEntry) *hv {
	return hseq(append([]*hv{hu64(h.ts)}, h.tail("TimestampedEntry")...)...)
}

// RFC 6962 3.4: struct { Version version; MerkleLeafType leaf_type; select (leaf_type) { case timestamped_entry: TimestampedEntry; } } MerkleTreeLeaf
func bLeaf(h hEntry) *hv { return hseq(hf(0, 0), bTimestampedEntry(h)) }

// RFC 6962 3.2: digitally-signed struct { Version sct_version; SignatureType signature_type = certificate_timestamp; uint64 timestamp; LogEntryType entry_type; select... signed_entry; CtExtensions extensions; }
func bCertTimestamp(h hEntry) *hv {
	return hseq(append([]*hv{hf(0, 0), hu64(h.ts)}, h.tail("CertificateTimestamp")...)...)
}

// RFC 5246 4.7: struct { SignatureAndHashAlgorithm algorithm; opaque signature<0..2^16-1>; } DigitallySigned
func bDS(hash, alg byte, sig []byte) *hv {
	return hseq(hf(hash, alg), hvec("DigitallySigned.signature<0..2^16-1>", 2, sig))
}

// RFC 6962 3.2: struct { Version sct_version; LogID id; uint64 timestamp; CtExtensions extensions; digitally-signed ... } SignedCertificateTimestamp
func bSCT(id [32]byte, ts uint64, ext []byte, ds *hv) *hv {
	return hseq(hf(0), hf(id[:]...), hu64(ts), hvec("SignedCertificateTimestamp.extensions CtExtensions<0..2^16-1>", 2, ext), ds)
}

// RFC 6962 4.6: ASN.1Cert certificate_chain<0..2^24-1>
func bChain(name string, certs [][]byte) *hv {
	var kids []*hv
	for i, c := range certs {
		kids = append(kids, bCert(fmt.Sprintf("%s[%d]", name, i), c))
	}
	if kids == nil {
		kids = []*hv{}
	}
	return hlist(name+"<0..2^24-1>", 3, kids)
}

// RFC 6962 3.1: struct { ASN.1Cert pre_certificate; ASN.1Cert precertificate_chain<0..2^24-1>; } PrecertChainEntry
func bPrecertChainEntry(pre []byte, certs [][]byte) *hv {
	return hseq(bCert("PrecertChainEntry.pre_certificate", pre), bChain("precertificate_chain", certs))
}

// RFC 6962 3.3: opaque SerializedSCT<1..2^16-1>; struct { SerializedSCT sct_list <1..2^16-1>; } SignedCertificateTimestampList
func bSCTList(scts []*hv) *hv {
	var kids []*hv
	for i, s := range scts {
		kids = append(kids, hlist(fmt.Sprintf("sct_list[%d] SerializedSCT<1..2^16-1>", i), 2, []*hv{s}))
	}
	return hlist("sct_list<1..2^16-1>", 2, kids)
}

// the two storage formats of the implementation that are not in the RFC (types.go: an ASN.1Cert and /
// or a hash of at most 256 octets); their ASN.1Cert is the RFC's
func bChainHash(h []byte) *hv { return hvec("CertificateChainHash.issuance_chain_hash<0..256>", 2, h) }
func bPrecertChainEntryHash(pre, h []byte) *hv {
	return hseq(bCert("PrecertChainEntryHash.pre_certificate", pre), hvec("PrecertChainEntryHash.issuance_chain_hash<0..256>", 2, h))
}

// ---- reference parser: the RFC grammar once more, with the declared bounds as literals ----

type cur struct {
	b      []byte
	bad    bool
	nonRFC bool // met the implementation's documented extension (entry type 32768): no verdict
}

func (c *cur) take(n int) []byte {
	if c.bad || n > len(c.b) {
		c.bad = true
		return nil
	}
	x := c.b[:n]
	c.b = c.b[n:]
	return x
}

func (c *cur) uint(w int) int {
	v := 0
	for _, x := range c.take(w) {
		v = v<<8 | int(x)
	}
	return v
}

// vec reads a vector whose length in octets must lie in floor..ceiling
func (c *cur) vec(w, floor, ceiling int) []byte {
	n := c.uint(w)
	if c.bad || n < floor || n > ceiling {
		c.bad = true
		return nil
	}
	return c.take(n)
}

// list reads a vector of elements: the elements must use up the vector exactly
func (c *cur) list(w, floor, ceiling int, elem func(*cur)) {
	body := c.vec(w, floor, ceiling)
	s := &cur{b: body}
	for !c.bad && !s.bad && len(s.b) > 0 {
		elem(s)
	}
	if s.bad {
		c.bad = true
	}
}

func rCert(c *cur)    { c.vec(3, 1, 1<<24-1) }
func rPreCert(c *cur) { c.take(32); c.vec(3, 1, 1<<24-1) }
func rEntryTail(c *cur) {
	switch et := c.uint(2); {
	case c.bad:
	case et == 0:
		rCert(c)
	case et == 1:
		rPreCert(c)
	default:
		c.nonRFC = c.nonRFC || et == 32768
		c.bad = true
	}
	c.vec(2, 0, 1<<16-1)
}
func rTimestampedEntry(c *cur) { c.take(8); rEntryTail(c) }
func rLeaf(c *cur) {
	c.take(1)
	if c.uint(1) != 0 {
		c.bad = true
	}
	rTimestampedEntry(c)
}
func rCertTimestamp(c *cur) { c.take(2); c.take(8); rEntryTail(c) }
func rDS(c *cur)            { c.take(2); c.vec(2, 0, 1<<16-1) }
func rSCT(c *cur)           { c.take(1); c.take(32); c.take(8); c.vec(2, 0, 1<<16-1); rDS(c) }
func rChain(c *cur)         { c.list(3, 0, 1<<24-1, rCert) }
func rPrecertChainEntry(c *cur) {
	rCert(c)
	rChain(c)
}
func rSCTList(c *cur)               { c.list(2, 1, 1<<16-1, func(s *cur) { s.vec(2, 1, 1<<16-1) }) }
func rChainHash(c *cur)             { c.vec(2, 0, 256) }
func rPrecertChainEntryHash(c *cur) { rCert(c); rChainHash(c) }

// complete: the whole buffer is one structure
func complete(f func(*cur), b []byte) (ok, nonRFC bool) {
	c := &cur{b: b}
	f(c)
	return !c.bad && len(c.b) == 0, c.nonRFC
}

// ---- the stream ----

type boundsSubject struct {
	wire string // name of the wire type (gen_<wire> in coq/gen/CtTypes.v)
	t    reflect.Type
	ref  func(*cur)
	tree *hv
	what string
}

var boundsModes = []string{"empty", "prefix-zeroed", "one-octet", "prefix+1", "prefix-1"}

func modeApplies(mode string, s vsite) bool {
	switch mode {
	case "empty", "prefix-zeroed", "prefix-1":
		return s.n > 0
	case "one-octet":
		return s.n > 1
	}
	return true
}

// deformations of a tree (or of several trees encoded one after the other with one numbering of the
// vectors): the well-formed encoding first, then every vector in every mode.
func deformations(trees []*hv, f func(site vsite, mode string, parts [][]byte)) {
	count := &venc{target: -1}
	var parts [][]byte
	for _, t := range trees {
		parts = append(parts, count.enc(t))
	}
	f(vsite{name: "-"}, "none", parts)
	for k, s := range count.sites {
		for _, mode := range boundsModes {
			if !modeApplies(mode, s) {
				continue
			}
			e := &venc{target: k, mode: mode}
			var parts [][]byte
			for _, t := range trees {
				parts = append(parts, e.enc(t))
			}
			f(s, mode, parts)
		}
	}
}

func verdict(ok bool) string {
	if ok {
		return "accept"
	}
	return "refuse"
}

func vectorBounds(r *mrand.Rand, w *lib.Writer, round int) {
	full := round%2 == 0 // every vector non-empty, so that every position can be emptied
	size := func(floor, span int) int {
		if full {
			return floor + 1 + r.Intn(span)
		}
		return floor + r.Intn(span+1)
	}
	entry := func(precert bool) hEntry {
		h := hEntry{ts: r.Uint64(), precert: precert, body: payload(r, size(1, 30)), ext: payload(r, size(0, 3))}
		copy(h.ikh[:], payload(r, 32))
		return h
	}
	certs := func() [][]byte {
		var cs [][]byte
		for k := size(0, 3); k > 0; k-- {
			cs = append(cs, payload(r, size(1, 20)))
		}
		return cs
	}
	sct := func() *hv {
		var id [32]byte
		copy(id[:], payload(r, 32))
		return bSCT(id, r.Uint64(), payload(r, size(0, 3)), bDS(byte(r.Intn(7)), byte(r.Intn(4)), payload(r, size(0, 72))))
	}
	scts := func() []*hv {
		var l []*hv
		for k := size(1, 2); k > 0; k-- {
			l = append(l, sct())
		}
		return l
	}
	subjects := []boundsSubject{
		{"ASN1Cert", reflect.TypeOf(ct.ASN1Cert{}), rCert, bCert("ASN1Cert", payload(r, size(1, 30))), ""},
		{"PreCert", reflect.TypeOf(ct.PreCert{}), rPreCert, bPreCert(entry(true).ikh, payload(r, size(1, 30))), ""},
		{"TimestampedEntry", reflect.TypeOf(ct.TimestampedEntry{}), rTimestampedEntry, bTimestampedEntry(entry(false)), "x509_entry"},
		{"TimestampedEntry", reflect.TypeOf(ct.TimestampedEntry{}), rTimestampedEntry, bTimestampedEntry(entry(true)), "precert_entry"},
		{"MerkleTreeLeaf", reflect.TypeOf(ct.MerkleTreeLeaf{}), rLeaf, bLeaf(entry(false)), "x509_entry"},
		{"MerkleTreeLeaf", reflect.TypeOf(ct.MerkleTreeLeaf{}), rLeaf, bLeaf(entry(true)), "precert_entry"},
		{"CertificateTimestamp", reflect.TypeOf(ct.CertificateTimestamp{}), rCertTimestamp, bCertTimestamp(entry(false)), "x509_entry"},
		{"CertificateTimestamp", reflect.TypeOf(ct.CertificateTimestamp{}), rCertTimestamp, bCertTimestamp(entry(true)), "precert_entry"},
		{"DigitallySigned", reflect.TypeOf(tls.DigitallySigned{}), rDS, bDS(4, 3, payload(r, size(0, 72))), ""},
		{"SignedCertificateTimestamp", reflect.TypeOf(ct.SignedCertificateTimestamp{}), rSCT, sct(), ""},
		{"CertificateChain", reflect.TypeOf(ct.CertificateChain{}), rChain, bChain("certificate_chain", certs()), ""},
		{"PrecertChainEntry", reflect.TypeOf(ct.PrecertChainEntry{}), rPrecertChainEntry, bPrecertChainEntry(payload(r, size(1, 30)), certs()), ""},
		{"SCTList", reflect.TypeOf(x509.SignedCertificateTimestampList{}), rSCTList, bSCTList(scts()), ""},
		{"CertificateChainHash", reflect.TypeOf(ct.CertificateChainHash{}), rChainHash, bChainHash(payload(r, size(0, 32))), ""},
		{"PrecertChainEntryHash", reflect.TypeOf(ct.PrecertChainEntryHash{}), rPrecertChainEntryHash, bPrecertChainEntryHash(payload(r, size(1, 30)), payload(r, size(0, 32))), ""},
	}

	// route 1: tls.Unmarshal into the wire type (a prefix parse)
	for _, sub := range subjects {
		sub := sub
		d := tlsgen.FromGoType(sub.t)
		deformations([]*hv{sub.tree}, func(site vsite, mode string, parts [][]byte) {
			in := parts[0]
			c := &cur{b: in}
			sub.ref(c)
			refOK, refRest := !c.bad, len(c.b)
			dst := reflect.New(sub.t)
			var rest []byte
			var uerr error
			pan := try(func() { rest, uerr = tls.Unmarshal(in, dst.Interface()) })
			cls := classify(uerr)
			if pan {
				cls = "panic"
			}
			o := coqClass(cls)
			ok, note := true, ""
			what := fmt.Sprintf("%s %s with vector %s %s (%d content octets in the well-formed encoding): %x", sub.wire, sub.what, site.name, mode, site.n, in)
			switch {
			case pan:
				ok, note = false, "tls.Unmarshal panics on "+what
			case c.nonRFC:
			case (uerr == nil) != refOK:
				ok, note = false, fmt.Sprintf("tls.Unmarshal must %s but does %s: %s", verdict(refOK), verdict(uerr == nil), what)
			case uerr == nil && len(rest) != refRest:
				ok, note = false, fmt.Sprintf("tls.Unmarshal leaves %d octets, the RFC structure leaves %d: %s", len(rest), refRest, what)
			}
			if cls == "ok" {
				o = fmt.Sprintf("Ok (%s, %s)", tlsgen.ValCoq(d, dst.Elem()), lib.Bytes(rest))
				rb, rerr := tls.Marshal(dst.Elem().Interface())
				if ok && (rerr != nil || string(rb) != string(in[:len(in)-len(rest)])) {
					ok, note = false, "decoded value does not re-encode to the consumed octets: "+what
				}
			}
			w.Add(lib.Case{
				Coq:    fmt.Sprintf("CTyParse gen_%s %s (%s)", sub.wire, lib.Bytes(in), o),
				Input:  map[string]interface{}{"op": "unmarshal-vector-bounds", "type": sub.wire, "entry": sub.what, "vector": site.name, "deformation": mode, "bytes": hex.EncodeToString(in), "rfc": verdict(refOK)},
				Impl:   map[string]interface{}{"class": cls, "rest": len(rest)},
				PropOK: ok, Note: note,
				Tags: []string{"bounds:unmarshal:" + mode + ":rfc-" + verdict(refOK) + ":" + cls},
			})
		})
	}

	// route 2: ct.RawLogEntryFromLeaf - leaf_input and extra_data must both be complete parses
	for _, precert := range []bool{false, true} {
		precert := precert
		leaf := bLeaf(entry(precert))
		extraTree, extraRef := bChain("certificate_chain", certs()), rChain
		if precert {
			extraTree, extraRef = bPrecertChainEntry(payload(r, size(1, 30)), certs()), rPrecertChainEntry
		}
		deformations([]*hv{leaf, extraTree}, func(site vsite, mode string, parts [][]byte) {
			li, extra := parts[0], parts[1]
			leafOK, nonRFC := complete(rLeaf, li)
			extraOK, _ := complete(extraRef, extra)
			refOK := leafOK && extraOK
			var rle *ct.RawLogEntry
			var rerr error
			pan := try(func() { rle, rerr = ct.RawLogEntryFromLeaf(7, &ct.LeafEntry{LeafInput: li, ExtraData: extra}) })
			what := fmt.Sprintf("vector %s %s: leaf_input %x extra_data %x", site.name, mode, li, extra)
			o := "ErrStruct"
			ok, note := true, ""
			switch {
			case pan:
				o, ok, note = "Panic", false, "RawLogEntryFromLeaf panics on "+what
			case nonRFC:
			case (rerr == nil) != refOK:
				ok, note = false, fmt.Sprintf("RawLogEntryFromLeaf must %s but does %s: %s", verdict(refOK), verdict(rerr == nil), what)
			}
			if !pan && rerr == nil {
				dl := tlsgen.FromGoType(reflect.TypeOf(rle.Leaf))
				dc := tlsgen.FromGoType(reflect.TypeOf(rle.Cert))
				var cs []string
				for _, c := range rle.Chain {
					cs = append(cs, tlsgen.ValCoq(dc, reflect.ValueOf(c)))
				}
				o = fmt.Sprintf("Ok (%s, %s, VList %s)", tlsgen.ValCoq(dl, reflect.ValueOf(rle.Leaf)), tlsgen.ValCoq(dc, reflect.ValueOf(rle.Cert)), lib.List(cs))
			}
			w.Add(lib.Case{
				Coq:    fmt.Sprintf("CRawEntry %s %s (%s)", lib.Bytes(li), lib.Bytes(extra), o),
				Input:  map[string]interface{}{"op": "raw-entry-vector-bounds", "precert": precert, "vector": site.name, "deformation": mode, "leaf_input": hex.EncodeToString(li), "extra_data": hex.EncodeToString(extra), "rfc": verdict(refOK)},
				Impl:   map[string]interface{}{"ok": rerr == nil && !pan},
				PropOK: ok, Note: note,
				Tags: []string{"bounds:raw-entry:" + mode + ":rfc-" + verdict(refOK) + fmt.Sprintf(":ok=%v", rerr == nil && !pan)},
			})
		})
	}

	// route 3: an SCT list as it sits in a certificate extension or an OCSP / TLS extension:
	// tls.Unmarshal (complete) then x509util.ParseSCTsFromSCTList (every SerializedSCT one complete SCT)
	deformations([]*hv{bSCTList(scts())}, func(site vsite, mode string, parts [][]byte) {
		in := parts[0]
		c := &cur{b: in}
		var elems [][]byte
		c.list(2, 1, 1<<16-1, func(s *cur) { elems = append(elems, s.vec(2, 1, 1<<16-1)) })
		refOK := !c.bad && len(c.b) == 0
		for _, e := range elems {
			if one, _ := complete(rSCT, e); !one {
				refOK = false
			}
		}
		var l x509.SignedCertificateTimestampList
		var got []*ct.SignedCertificateTimestamp
		var err error
		pan := try(func() {
			var rest []byte
			if rest, err = tls.Unmarshal(in, &l); err == nil && len(rest) > 0 {
				err = fmt.Errorf("trailing data")
			}
			if err == nil {
				got, err = x509util.ParseSCTsFromSCTList(&l)
			}
		})
		what := fmt.Sprintf("vector %s %s: %x", site.name, mode, in)
		ok, note := true, ""
		switch {
		case pan:
			ok, note = false, "SCT list decoding panics on "+what
		case (err == nil) != refOK:
			ok, note = false, fmt.Sprintf("SCT list decoding (tls.Unmarshal + ParseSCTsFromSCTList) must %s but does %s: %s", verdict(refOK), verdict(err == nil), what)
		case err == nil && len(got) != len(elems):
			ok, note = false, fmt.Sprintf("SCT list decodes to %d SCTs, the list holds %d: %s", len(got), len(elems), what)
		}
		w.Add(lib.Case{
			Key:    fmt.Sprintf("sct-list-bounds-%d-%s-%s", round, site.name, mode),
			Input:  map[string]interface{}{"op": "sct-list-vector-bounds", "vector": site.name, "deformation": mode, "bytes": hex.EncodeToString(in), "rfc": verdict(refOK)},
			Impl:   map[string]interface{}{"ok": err == nil && !pan, "scts": len(got)},
			PropOK: ok, Note: note,
			Tags: []string{"bounds:sct-list:" + mode + ":rfc-" + verdict(refOK) + fmt.Sprintf(":ok=%v", err == nil && !pan)},
		})
	})
}
