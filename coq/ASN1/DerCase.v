(* Correspondence cases for C10: asn1.UnmarshalWithParams / MarshalWithParams of the fork and of
   encoding/asn1 on run-time generated types. *)
From Coq Require Import ZArith NArith List Bool.
From Coq.Strings Require Import Byte.
From V Require Import Base.Bytes Base.CaseLib ASN1.DerBase ASN1.DerHeader ASN1.DerPrim ASN1.DerModel.
Import ListNotations.

Inductive case :=
| CUnm (v : variant) (t : aty) (toks : list tok) (d : bytes) (obs : res (val * bytes))
| CMar (v : variant) (t : aty) (toks : list tok) (x : val) (obs : res bytes).

Definition res_eqb {A} (eqb : A -> A -> bool) (a b : res A) : bool :=
  match a, b with
  | Ok x, Ok y => eqb x y
  | ErrSyntax, ErrSyntax | ErrStruct, ErrStruct | ErrOther, ErrOther | Panic, Panic | Hang, Hang => true
  | _, _ => false
  end.

Definition check (c : case) : bool :=
  match c with
  | CUnm v t toks d obs => res_eqb (pair_eqb val_eqb bytes_eqb) (unmarshal v t toks d) obs
  | CMar v t toks x obs => res_eqb bytes_eqb (marshal v t toks x) obs
  end.

Definition explain (c : case) :=
  match c with
  | CUnm v t toks d _ => (Some (unmarshal v t toks d), None)
  | CMar v t toks x _ => (None, Some (marshal v t toks x))
  end.
