// The class "the configured filters, taken through the configuration": a LogConfig is written
// (reject_extensions lists of 0..4 OID strings of various lengths, ext_key_usages lists of several
// names, reject_expired / reject_unexpired, the not_after window, accept_only_ca), taken through
// ValidateLogConfig + SetUpInstance, and leaves are submitted to add-chain / add-pre-chain of that
// instance.  The direct oracle is "admitted iff the chain is in order AND the leaf satisfies every
// filter of the configuration the harness wrote": the filters are evaluated here over the written
// strings and over a description of the leaf obtained with the Go standard library (crypto/x509,
// encoding/asn1), never over the instance's parsed options or the fork's parsed certificate.
package main

import (
	stdx509 "crypto/x509"
	stdasn1 "encoding/asn1"
	"fmt"
	mrand "math/rand"
	"strconv"
	"strings"
	"time"

	"github.com/google/certificate-transparency-go/asn1"
	"github.com/google/certificate-transparency-go/x509"
	"github.com/google/certificate-transparency-go/x509/pkix"

	"verif/harness/pki"
)

// ------------------------------------------------------------------ object identifiers, by hand

type oidT []int

func (o oidT) str() string {
	s := make([]string, len(o))
	for i, a := range o {
		s[i] = strconv.Itoa(a)
	}
	return strings.Join(s, ".")
}
func (o oidT) fork() asn1.ObjectIdentifier { return asn1.ObjectIdentifier(append([]int{}, o...)) }

var (
	oidSCTList   = oidT{1, 3, 6, 1, 4, 1, 11129, 2, 4, 2}
	oidPoisonT   = oidT{1, 3, 6, 1, 4, 1, 11129, 2, 4, 3}
	oidExtEKU    = oidT{2, 5, 29, 37}
	oidExtSAN    = oidT{2, 5, 29, 17}
	oidExtPolicy = oidT{2, 5, 29, 32}
	oidExtNC     = oidT{2, 5, 29, 30}
	oidExtAKI    = oidT{2, 5, 29, 35}
)

// randOID: n arcs; small, medium and large arc values (every arc fits 28 bits).
func randOID(r *mrand.Rand, n int) oidT {
	o := oidT{1 + r.Intn(2)}
	if o[0] == 1 {
		o = append(o, r.Intn(40))
	} else {
		o = append(o, r.Intn(1000))
	}
	for len(o) < n {
		switch r.Intn(4) {
		case 0:
			o = append(o, r.Intn(128))
		case 1:
			o = append(o, 128+r.Intn(16384-128))
		case 2:
			o = append(o, 16384+r.Intn(1<<21))
		default:
			o = append(o, r.Intn(1<<28))
		}
	}
	return o
}

// ------------------------------------------------------------------ the configuration as written

// cfgW is exactly what goes into the LogConfig (envFor writes these fields verbatim).
type cfgW struct {
	RejectExtensions []string   `json:"reject_extensions"`
	ExtKeyUsages     []string   `json:"ext_key_usages"`
	RejectExpired    bool       `json:"reject_expired"`
	RejectUnexpired  bool       `json:"reject_unexpired"`
	AcceptOnlyCA     bool       `json:"accept_only_ca"`
	NotAfterStart    *time.Time `json:"not_after_start"`
	NotAfterLimit    *time.Time `json:"not_after_limit"`
}

func (c cfgW) key() string {
	return fmt.Sprintf("rej=%v eku=%v exp=%v unexp=%v ca=%v start=%v limit=%v", c.RejectExtensions, c.ExtKeyUsages,
		c.RejectExpired, c.RejectUnexpired, c.AcceptOnlyCA, jt(c.NotAfterStart), jt(c.NotAfterLimit))
}

// the names ext_key_usages takes, with the RFC 5280 / vendor object identifier each stands for
// (the oracle's table) ...
var ekuOIDByName = map[string]string{
	"ServerAuth":                 "1.3.6.1.5.5.7.3.1",
	"ClientAuth":                 "1.3.6.1.5.5.7.3.2",
	"CodeSigning":                "1.3.6.1.5.5.7.3.3",
	"EmailProtection":            "1.3.6.1.5.5.7.3.4",
	"IPSECEndSystem":             "1.3.6.1.5.5.7.3.5",
	"IPSECTunnel":                "1.3.6.1.5.5.7.3.6",
	"IPSECUser":                  "1.3.6.1.5.5.7.3.7",
	"TimeStamping":               "1.3.6.1.5.5.7.3.8",
	"OCSPSigning":                "1.3.6.1.5.5.7.3.9",
	"MicrosoftServerGatedCrypto": "1.3.6.1.4.1.311.10.3.3",
	"NetscapeServerGatedCrypto":  "2.16.840.1.113730.4.1",
}

// ... and the fork's constant (to issue leaves and to tell the Coq model, which counts in the
// fork's numbering).
var ekuForkByName = map[string]x509.ExtKeyUsage{
	"ServerAuth": x509.ExtKeyUsageServerAuth, "ClientAuth": x509.ExtKeyUsageClientAuth,
	"CodeSigning": x509.ExtKeyUsageCodeSigning, "EmailProtection": x509.ExtKeyUsageEmailProtection,
	"IPSECEndSystem": x509.ExtKeyUsageIPSECEndSystem, "IPSECTunnel": x509.ExtKeyUsageIPSECTunnel,
	"IPSECUser": x509.ExtKeyUsageIPSECUser, "TimeStamping": x509.ExtKeyUsageTimeStamping,
	"OCSPSigning":                x509.ExtKeyUsageOCSPSigning,
	"MicrosoftServerGatedCrypto": x509.ExtKeyUsageMicrosoftServerGatedCrypto,
	"NetscapeServerGatedCrypto":  x509.ExtKeyUsageNetscapeServerGatedCrypto,
}

var ekuAllNames = []string{"ServerAuth", "ClientAuth", "CodeSigning", "EmailProtection", "IPSECEndSystem", "IPSECTunnel",
	"IPSECUser", "TimeStamping", "OCSPSigning", "MicrosoftServerGatedCrypto", "NetscapeServerGatedCrypto"}

// ------------------------------------------------------------------ the leaf, by the standard library

type stdExt struct {
	OID      string `json:"oid"`
	Critical bool   `json:"critical"`
}
type stdLeaf struct {
	Exts     []stdExt  `json:"extensions"`
	EKUs     []string  `json:"eku_oids"`
	IsCA     bool      `json:"is_ca"`
	NotAfter time.Time `json:"not_after"`
}

func stdOIDString(o stdasn1.ObjectIdentifier) string { return oidT(o).str() }

func describeLeaf(der []byte) stdLeaf {
	c, err := stdx509.ParseCertificate(der)
	if err != nil {
		panic(fmt.Sprintf("the standard library does not parse a generated leaf: %v", err))
	}
	l := stdLeaf{IsCA: c.BasicConstraintsValid && c.IsCA, NotAfter: c.NotAfter}
	for _, e := range c.Extensions {
		l.Exts = append(l.Exts, stdExt{stdOIDString(e.Id), e.Critical})
		if stdOIDString(e.Id) == oidExtEKU.str() {
			var ids []stdasn1.ObjectIdentifier
			if rest, err := stdasn1.Unmarshal(e.Value, &ids); err != nil || len(rest) != 0 {
				panic(fmt.Sprintf("extended key usage extension of a generated leaf: %v", err))
			}
			for _, id := range ids {
				l.EKUs = append(l.EKUs, stdOIDString(id))
			}
		}
	}
	return l
}

func (l stdLeaf) has(oid string) bool {
	for _, e := range l.Exts {
		if e.OID == oid {
			return true
		}
	}
	return false
}

// pass: the leaf satisfies every filter of the written configuration.  Reasons in the order of
// filtersPass (oracle.go), with the position of the offending list entry for the Note key.
func (c cfgW) pass(l stdLeaf, now time.Time) (bool, string) {
	if c.NotAfterStart != nil && l.NotAfter.Before(*c.NotAfterStart) {
		return false, "window-early"
	}
	if c.NotAfterLimit != nil && !l.NotAfter.Before(*c.NotAfterLimit) {
		return false, "window-late"
	}
	if c.AcceptOnlyCA && !l.IsCA {
		return false, "not-ca"
	}
	expired := l.NotAfter.Before(now)
	if c.RejectExpired && expired {
		return false, "expired"
	}
	if c.RejectUnexpired && !expired {
		return false, "unexpired"
	}
	for i, bad := range c.RejectExtensions {
		for _, e := range l.Exts {
			if e.OID == bad {
				return false, fmt.Sprintf("forbidden-extension listed=%d/%d arcs=%d critical=%v", i, len(c.RejectExtensions),
					strings.Count(bad, ".")+1, e.Critical)
			}
		}
	}
	anyEKU := false
	for _, n := range c.ExtKeyUsages {
		if n == "Any" {
			anyEKU = true
		}
	}
	if len(c.ExtKeyUsages) > 0 && !anyEKU {
		found := false
		for _, n := range c.ExtKeyUsages {
			for _, k := range l.EKUs {
				if k == ekuOIDByName[n] {
					found = true
				}
			}
		}
		if !found {
			return false, fmt.Sprintf("eku listed=%d leaf=%d", len(c.ExtKeyUsages), len(l.EKUs))
		}
	}
	return true, ""
}

// filtersOn: how many filters the configuration switches on (for the statistics).
func (c cfgW) filtersOn() int {
	n := 0
	for _, b := range []bool{len(c.RejectExtensions) > 0, len(c.ExtKeyUsages) > 0, c.RejectExpired, c.RejectUnexpired, c.AcceptOnlyCA,
		c.NotAfterStart != nil, c.NotAfterLimit != nil} {
		if b {
			n++
		}
	}
	return n
}

// ------------------------------------------------------------------ the hierarchy of the class

type cfgHier struct {
	H       *hier
	pool    []oidT            // the extension ids leaves of this hierarchy may carry
	lists   []oidT            // what a reject_extensions list is drawn from (pool + ids no leaf / every leaf carries)
	chainOf map[int][]int     // leaf -> honest chain, root last
	std     map[int]stdLeaf   // leaf -> description by the standard library
	one     map[string][2]int // pool id -> leaf carrying exactly that extra extension (non-critical, critical)
	onePre  map[string][2]int // the same with the poison extension (precertificates)
	ee      []int             // end-entity certificates, not precertificates
	pre     []int             // precertificates
	cas     []int             // CA certificates submitted as leaves
	ekuOne  map[string]int    // name -> leaf with exactly that extended key usage
	named   map[string]int    // role -> leaf (roles that occur once)
	ekuLeaf []int             // leaves with zero, one or several extended key usages
}

func genCfgHier(r *mrand.Rand, k int) *cfgHier {
	u := &universe{name: fmt.Sprintf("UC%d", k), byDER: map[string]int{}}
	C := &cfgHier{H: &hier{u: u, paths: map[int][][]int{}}, chainOf: map[int][]int{}, std: map[int]stdLeaf{},
		one: map[string][2]int{}, onePre: map[string][2]int{}, ekuOne: map[string]int{}, named: map[string]int{}}
	var rootSKI, intSKI []byte
	if k%2 == 0 {
		rootSKI, intSKI = kid(r), kid(r)
	}
	root := pki.Issue(pki.Opts{CN: fmt.Sprintf("CfgRoot c%d", k), KeyKind: "p256", KeyIdx: 0, IsCA: true, SKI: rootSKI, NotAfter: tNew2}, nil)
	inter := pki.Issue(pki.Opts{CN: fmt.Sprintf("CfgInt c%d", k), KeyKind: "p256", KeyIdx: 1, IsCA: true, SKI: intSKI, NotAfter: tNew2}, root)
	iR, iI := u.add(root, "root"), u.add(inter, "int")
	C.H.roots = []int{iR}
	C.H.trustCf = [][]int{{iR}}

	// the pool: lengths 3..18 (beyond any small scratch size), one id that extends another by one arc,
	// one that differs from it in the last arc only
	p0 := randOID(r, 7)
	p1 := append(append(oidT{}, p0...), 5)
	p2 := append(oidT{}, p0...)
	p2[len(p2)-1]++
	C.pool = []oidT{p0, p1, p2, randOID(r, 3), randOID(r, 4), randOID(r, 12), randOID(r, 18)}
	seen := map[string]bool{}
	for _, p := range C.pool {
		if seen[p.str()] {
			panic("generated object identifiers collide")
		}
		seen[p.str()] = true
	}
	C.lists = append(append([]oidT{}, C.pool...), oidSCTList, oidPoisonT, oidExtEKU, oidExtSAN, oidExtPolicy, oidExtNC, oidExtAKI,
		randOID(r, 5), randOID(r, 9), randOID(r, 17), p0[:len(p0)-1])

	ext := func(o oidT, crit bool) pkix.Extension {
		return pkix.Extension{Id: o.fork(), Critical: crit, Value: []byte{4, 2, byte(len(o)), byte(r.Intn(256))}}
	}
	sa := []x509.ExtKeyUsage{x509.ExtKeyUsageServerAuth}
	n := 0
	leaf := func(role string, o pki.Opts, parent *pki.Entity, above ...int) int {
		n++
		o.CN = fmt.Sprintf("%s c%d n%d", role, k, n)
		o.KeyKind, o.KeyIdx = "p256", 2+n%4
		if o.NotAfter.IsZero() {
			o.NotAfter = tNew
		}
		e := pki.Issue(o, parent)
		i := u.add(e, role)
		C.chainOf[i] = append([]int{i}, above...)
		C.std[i] = describeLeaf(e.DER)
		C.named[role] = i
		return i
	}
	viaI := []int{iI, iR}
	for _, p := range C.pool {
		var a, b [2]int
		for c := 0; c < 2; c++ {
			a[c] = leaf("cfg-one-ext", pki.Opts{EKUs: sa, ExtraExt: []pkix.Extension{ext(p, c == 1)}}, inter, viaI...)
			b[c] = leaf("cfg-pre-one-ext", pki.Opts{EKUs: sa, ExtraExt: []pkix.Extension{ext(p, c == 1), pki.PoisonExt()}}, inter, viaI...)
			C.ee = append(C.ee, a[c])
			C.pre = append(C.pre, b[c])
		}
		C.one[p.str()], C.onePre[p.str()] = a, b
	}
	C.ee = append(C.ee,
		leaf("cfg-none", pki.Opts{}, inter, viaI...),
		leaf("cfg-two-ext", pki.Opts{EKUs: sa, ExtraExt: []pkix.Extension{ext(C.pool[3], false), ext(C.pool[6], true)}}, inter, viaI...),
		leaf("cfg-three-ext", pki.Opts{ExtraExt: []pkix.Extension{ext(C.pool[1], true), ext(C.pool[0], false), ext(C.pool[5], false)}, DNSNames: []string{"cfg.example"}}, inter, viaI...),
		leaf("cfg-old", pki.Opts{EKUs: sa, NotAfter: tOld}, inter, viaI...),
		leaf("cfg-old-ext", pki.Opts{NotAfter: tOld, ExtraExt: []pkix.Extension{ext(C.pool[2], false)}}, inter, viaI...),
		leaf("cfg-direct", pki.Opts{EKUs: sa, ExtraExt: []pkix.Extension{ext(C.pool[4], false)}}, root, iR))
	C.pre = append(C.pre,
		leaf("cfg-pre", pki.Opts{EKUs: sa, ExtraExt: []pkix.Extension{pki.PoisonExt()}}, inter, viaI...),
		leaf("cfg-pre-old", pki.Opts{NotAfter: tOld, ExtraExt: []pkix.Extension{pki.PoisonExt(), ext(C.pool[5], true)}}, inter, viaI...))
	// extended key usages: none, each of a few alone, several
	C.ekuLeaf = append(C.ekuLeaf, C.named["cfg-none"])
	for _, name := range []string{"ServerAuth", "ClientAuth", "CodeSigning", "EmailProtection", "TimeStamping", "OCSPSigning", "IPSECUser", "NetscapeServerGatedCrypto"} {
		i := leaf("cfg-eku-"+name, pki.Opts{EKUs: []x509.ExtKeyUsage{ekuForkByName[name]}}, inter, viaI...)
		C.ekuOne[name] = i
		C.ekuLeaf = append(C.ekuLeaf, i)
		C.ee = append(C.ee, i)
	}
	for _, names := range [][]string{{"ClientAuth", "EmailProtection"}, {"IPSECTunnel", "CodeSigning", "MicrosoftServerGatedCrypto"}} {
		var ks []x509.ExtKeyUsage
		for _, nm := range names {
			ks = append(ks, ekuForkByName[nm])
		}
		i := leaf("cfg-eku-several", pki.Opts{EKUs: ks, ExtraExt: []pkix.Extension{ext(C.pool[2], true)}}, inter, viaI...)
		C.ekuLeaf = append(C.ekuLeaf, i)
		C.ee = append(C.ee, i)
	}
	// CA certificates as leaves: the intermediate itself, and a sub-CA carrying a pool extension
	C.chainOf[iI] = []int{iI, iR}
	C.std[iI] = describeLeaf(inter.DER)
	sub := leaf("cfg-subca", pki.Opts{IsCA: true, SKI: intSKI2(intSKI, r), ExtraExt: []pkix.Extension{ext(C.pool[0], false)}}, inter, viaI...)
	C.cas = []int{iI, sub}
	u.abstract()
	return C
}

func intSKI2(parent []byte, r *mrand.Rand) []byte {
	if parent == nil {
		return nil
	}
	return kid(r)
}

// ------------------------------------------------------------------ configurations

// drawOIDs: n distinct ids from `from`, none of which the leaf carries.
func drawOIDs(r *mrand.Rand, from []oidT, n int, l stdLeaf, not ...string) []oidT {
	var cand []oidT
	for _, o := range from {
		s := o.str()
		skip := l.has(s)
		for _, x := range not {
			skip = skip || x == s
		}
		if !skip {
			cand = append(cand, o)
		}
	}
	r.Shuffle(len(cand), func(i, j int) { cand[i], cand[j] = cand[j], cand[i] })
	if n > len(cand) {
		n = len(cand)
	}
	return cand[:n]
}

func insertOID(l []oidT, p int, x oidT) []oidT {
	out := append([]oidT{}, l[:p]...)
	out = append(out, x)
	return append(out, l[p:]...)
}
func insertStr(l []string, p int, x string) []string {
	out := append([]string{}, l[:p]...)
	out = append(out, x)
	return append(out, l[p:]...)
}

func oidStrings(l []oidT) []string {
	var s []string
	for _, o := range l {
		s = append(s, o.str())
	}
	return s
}

// drawNames: n distinct ext_key_usages names the leaf has none of.
func drawNames(r *mrand.Rand, n int, l stdLeaf) []string {
	var cand []string
	for _, nm := range ekuAllNames {
		has := false
		for _, k := range l.EKUs {
			has = has || k == ekuOIDByName[nm]
		}
		if !has {
			cand = append(cand, nm)
		}
	}
	r.Shuffle(len(cand), func(i, j int) { cand[i], cand[j] = cand[j], cand[i] })
	return cand[:n]
}

// leafNames: the ext_key_usages names of the leaf's own extended key usages.
func leafNames(l stdLeaf) []string {
	var out []string
	for _, nm := range ekuAllNames {
		for _, k := range l.EKUs {
			if k == ekuOIDByName[nm] {
				out = append(out, nm)
			}
		}
	}
	return out
}

// optsFor: the options record of the existing oracle / Coq model for a written configuration
// (ids interned from the harness's own arcs, key usages in the fork's numbering).
func optsFor(C *cfgHier, c cfgW, rej []oidT) opts {
	o := opts{Roots: C.H.trustCf[0], Now: tHTTP, RejExpired: c.RejectExpired, RejUnexp: c.RejectUnexpired, Start: c.NotAfterStart,
		Limit: c.NotAfterLimit, OnlyCA: c.AcceptOnlyCA, Cfg: &c}
	for _, x := range rej {
		o.RejExt = append(o.RejExt, x.fork())
	}
	for _, nm := range c.ExtKeyUsages {
		if nm == "Any" {
			o.EKUs = nil
			break
		}
		o.EKUs = append(o.EKUs, int(ekuForkByName[nm]))
	}
	return o
}

// cfgCase is one submission of the class.
type cfgCase struct {
	leaf  int
	chain []int
	pre   bool
	rej   []oidT
	cfg   cfgW
	shape string
	tags  []string
}

func (C *cfgHier) mk(leaf int, rej []oidT, c cfgW, shape string, tags ...string) cfgCase {
	c.RejectExtensions = oidStrings(rej)
	return cfgCase{leaf: leaf, chain: clone(C.chainOf[leaf]), pre: C.std[leaf].has(oidPoisonT.str()), rej: rej, cfg: c, shape: shape, tags: tags}
}

// cfgCases: the systematic part (each list length x each position of the offending entry x critical
// or not x present or absent; key-usage lists likewise; every filter on and exactly one violated) and
// a random part where the filters are drawn independently.
func cfgCases(r *mrand.Rand, C *cfgHier, nRandom int) []cfgCase {
	var out []cfgCase
	anyLeaf := func() int {
		all := append(append(append([]int{}, C.ee...), C.pre...), C.cas...)
		return all[r.Intn(len(all))]
	}
	// reject_extensions
	for n := 0; n <= 4; n++ {
		for rep := 0; rep < 2; rep++ {
			l := anyLeaf()
			out = append(out, C.mk(l, drawOIDs(r, C.lists, n, C.std[l]), cfgW{}, "cfg-rej-absent", fmt.Sprintf("cfg:offender=absent/%d", n)))
		}
		for p := 0; p < n; p++ {
			for crit := 0; crit < 2; crit++ {
				x := C.pool[r.Intn(len(C.pool))]
				l := C.one[x.str()][crit]
				if r.Intn(3) == 0 {
					l = C.onePre[x.str()][crit]
				}
				rej := insertOID(drawOIDs(r, C.lists, n-1, C.std[l]), p, x)
				out = append(out, C.mk(l, rej, cfgW{}, "cfg-rej-present", fmt.Sprintf("cfg:offender=%d/%d", p, n), fmt.Sprintf("cfg:offender-critical=%v", crit == 1)))
			}
			// an extension every certificate with key usages carries anyway, listed at position p
			l := C.ekuLeaf[r.Intn(len(C.ekuLeaf))]
			rej := insertOID(drawOIDs(r, C.lists, n-1, C.std[l], oidExtEKU.str()), p, oidExtEKU)
			out = append(out, C.mk(l, rej, cfgW{}, "cfg-rej-standard", fmt.Sprintf("cfg:offender-standard=%d/%d", p, n)))
		}
	}
	// a leaf with several extra extensions, each of them listed alone and last/first among others
	for _, l := range C.ee {
		if C.H.u.role[l] != "cfg-two-ext" && C.H.u.role[l] != "cfg-three-ext" {
			continue
		}
		for _, p := range C.pool {
			if !C.std[l].has(p.str()) {
				continue
			}
			others := drawOIDs(r, C.lists, 2, C.std[l])
			out = append(out, C.mk(l, []oidT{p}, cfgW{}, "cfg-rej-present", "cfg:offender=0/1"))
			out = append(out, C.mk(l, insertOID(others, r.Intn(3), p), cfgW{}, "cfg-rej-present", "cfg:offender=any/3"))
		}
	}
	// ext_key_usages
	for n := 1; n <= 4; n++ {
		for p := 0; p < n; p++ {
			l := C.ekuLeaf[1+r.Intn(len(C.ekuLeaf)-1)]
			mine := leafNames(C.std[l])
			names := insertStr(drawNames(r, n-1, C.std[l]), p, mine[r.Intn(len(mine))])
			out = append(out, C.mk(l, nil, cfgW{ExtKeyUsages: names}, "cfg-eku-listed", fmt.Sprintf("cfg:eku=%d/%d", p, n)))
		}
		l := C.ekuLeaf[r.Intn(len(C.ekuLeaf))]
		out = append(out, C.mk(l, nil, cfgW{ExtKeyUsages: drawNames(r, n, C.std[l])}, "cfg-eku-not-listed", fmt.Sprintf("cfg:eku=absent/%d", n)))
		l = C.ekuLeaf[r.Intn(len(C.ekuLeaf))]
		out = append(out, C.mk(l, nil, cfgW{ExtKeyUsages: insertStr(drawNames(r, n-1, C.std[l]), r.Intn(n), "Any")}, "cfg-eku-any", fmt.Sprintf("cfg:eku=any/%d", n)))
	}
	// every filter on and satisfied; then exactly one of them violated
	var subjects []int
	for i := 0; i < 3; i++ {
		x := C.pool[r.Intn(len(C.pool))]
		subjects = append(subjects, C.one[x.str()][r.Intn(2)])
	}
	subjects = append(subjects, C.onePre[C.pool[r.Intn(len(C.pool))].str()][r.Intn(2)], C.cas[1], C.named["cfg-old-ext"])
	for _, l := range subjects {
		d := C.std[l]
		na := d.NotAfter
		start, limit := na, na.Add(offs[4+r.Intn(3)])
		if r.Intn(2) == 0 {
			start = na.Add(offs[r.Intn(3)])
		}
		old := na.Before(time.Now())
		base := cfgW{RejectExpired: !old, RejectUnexpired: old, AcceptOnlyCA: d.IsCA, NotAfterStart: &start, NotAfterLimit: &limit}
		rej := drawOIDs(r, C.lists, 3, d)
		if mine := leafNames(d); len(mine) > 0 {
			base.ExtKeyUsages = insertStr(drawNames(r, 2, d), r.Intn(3), mine[0])
		}
		out = append(out, C.mk(l, rej, base, "cfg-all-on", "cfg:violated=none"))
		var own []oidT
		for _, p := range C.pool {
			if d.has(p.str()) {
				own = append(own, p)
			}
		}
		v := base
		out = append(out, C.mk(l, insertOID(rej[:2], r.Intn(3), own[r.Intn(len(own))]), v, "cfg-all-on", "cfg:violated=extension"))
		if len(base.ExtKeyUsages) > 0 {
			v = base
			v.ExtKeyUsages = drawNames(r, 3, d)
			out = append(out, C.mk(l, rej, v, "cfg-all-on", "cfg:violated=eku"))
		}
		v = base
		v.RejectExpired, v.RejectUnexpired = base.RejectUnexpired, base.RejectExpired
		out = append(out, C.mk(l, rej, v, "cfg-all-on", "cfg:violated=expiry"))
		v = base
		s2 := na.Add(offs[4+r.Intn(3)])
		l2 := s2.Add(time.Hour)
		v.NotAfterStart, v.NotAfterLimit = &s2, &l2
		out = append(out, C.mk(l, rej, v, "cfg-all-on", "cfg:violated=window-start"))
		v = base
		l3 := na.Add(offs[1+r.Intn(3)])
		s3 := l3.Add(-time.Hour)
		v.NotAfterStart, v.NotAfterLimit = &s3, &l3
		out = append(out, C.mk(l, rej, v, "cfg-all-on", "cfg:violated=window-limit"))
		if !d.IsCA {
			v = base
			v.AcceptOnlyCA = true
			out = append(out, C.mk(l, rej, v, "cfg-all-on", "cfg:violated=only-ca"))
		}
	}
	// random: every filter drawn independently
	for i := 0; i < nRandom; i++ {
		l := anyLeaf()
		d := C.std[l]
		var c cfgW
		var rej []oidT
		if r.Intn(3) != 0 {
			n := r.Intn(5)
			if r.Intn(3) == 0 {
				// without regard to what the leaf carries
				idx := r.Perm(len(C.lists))
				for _, j := range idx[:n] {
					rej = append(rej, C.lists[j])
				}
			} else {
				rej = drawOIDs(r, C.lists, n, d)
			}
		}
		if r.Intn(2) == 0 {
			n := 1 + r.Intn(3)
			mine := leafNames(d)
			if len(mine) > 0 && r.Intn(3) != 0 {
				c.ExtKeyUsages = insertStr(drawNames(r, n-1, d), r.Intn(n), mine[r.Intn(len(mine))])
			} else {
				c.ExtKeyUsages = drawNames(r, n, d)
			}
			if r.Intn(8) == 0 {
				c.ExtKeyUsages = insertStr(c.ExtKeyUsages, r.Intn(len(c.ExtKeyUsages)+1), "Any")
			}
		}
		old := d.NotAfter.Before(time.Now())
		switch r.Intn(6) {
		case 0, 1:
			c.RejectExpired, c.RejectUnexpired = !old, old
		case 2:
			c.RejectExpired, c.RejectUnexpired = old, !old
		}
		if r.Intn(3) == 0 {
			c.NotAfterStart, c.NotAfterLimit = around(r, d.NotAfter), around(r, d.NotAfter)
			if c.NotAfterStart != nil && c.NotAfterLimit != nil && c.NotAfterLimit.Before(*c.NotAfterStart) {
				c.NotAfterStart, c.NotAfterLimit = c.NotAfterLimit, c.NotAfterStart
			}
		}
		c.AcceptOnlyCA = r.Intn(6) == 0 || (d.IsCA && r.Intn(2) == 0)
		k := C.mk(l, rej, c, "cfg-random")
		switch r.Intn(10) {
		case 0: // the other endpoint
			k.pre = !k.pre
			k.shape += "+other-endpoint"
		case 1: // root not submitted
			if len(k.chain) > 1 {
				k.chain = k.chain[:len(k.chain)-1]
				k.shape += "+root-absent"
			}
		case 2: // the issuer dropped: the filters pass or not, the chain does not lead to the root
			if len(k.chain) > 2 {
				k.chain = append(k.chain[:1], k.chain[2:]...)
				k.shape += "+drop"
			}
		}
		out = append(out, k)
	}
	return out
}
