(* C06 proofs, part F: a get-sth whose cache lookup missed and whose signer call returned an error
   (LogModel.fe_get_sth_signer_fails).  signV1TreeHead writes to the signature cache only after the
   signer has returned a signature, so

   - the request leaves the state (backend and cache) exactly as it found it;
   - it serves no tree head at all (no body; status 500 unless an error mapper is configured);
   - hence the retry after the failure is answered as if the failed request had never been made:
     in particular with a signature that verifies (Props/C06.v sth_signature_verifies applies to
     the unchanged state). *)
From Coq Require Import String ZArith NArith Bool List Lia PeanoNat.
From Coq.Strings Require Import Byte.
From V Require Import Base.GoInt Base.Bytes Merkle.Merkle TLS.TlsModel gen.CtTypes CT.Rfc6962Spec CT.CtFuncs
  gen.HttpStatus gen.GetEntries gen.HandlerConds Merkle.MerkleProofs CTFE.HandlersModel CTFE.LogModel CTFE.LogProofsA.
Import ListNotations.
Open Scope Z_scope.
Open Scope bool_scope.

Section SignerFails.
  Variable H : bytes -> bytes.
  Variable sign : bytes -> N -> bytes.
  Variable cfg : config.

  Lemma signer_fails_state st : fst (fe_get_sth_signer_fails H cfg st) = st.
  Proof. reflexivity. Qed.

  Lemma signer_fails_no_body st : a_body (snd (fe_get_sth_signer_fails H cfg st)) = BNone.
  Proof. reflexivity. Qed.

  (* a regular log without an error mapper answers 500 *)
  Lemma signer_fails_500 st :
    (forall x, length (H x) = 32%nat) -> c_sth cfg = SthLog -> c_mapper cfg EInternal = None ->
    a_status (snd (fe_get_sth_signer_fails H cfg st)) = 500.
  Proof.
    intros H_len cfg_log Hmap. unfold fe_get_sth_signer_fails. cbn [snd fail a_status].
    unfold fe_status, serve. cbn [endpoint_of method_of meth_eqb negb andb handle bk b_root b_mirror].
    unfold get_sth. rewrite cfg_log. unfold signed_log_root. cbn [root_cls root_is_missing].
    unfold sth_root_missing, sth_hash_size_bad.
    assert (Hl : blen (broot H (be st)) = 32) by (unfold blen, broot; rewrite (mth_length H 32 H_len); reflexivity).
    rewrite Hl. cbn [Z.eqb Pos.eqb negb].
    unfold env_ok. cbn [signer_ok negb]. unfold to_status. rewrite Hmap.
    unfold send_error. cbn [status]. reflexivity.
  Qed.

  Lemma f_signer_failure st :
    fst (fe_get_sth_signer_fails H cfg st) = st /\
    a_body (snd (fe_get_sth_signer_fails H cfg st)) = BNone /\
    (forall rnd, fe_get_sth H sign cfg (fst (fe_get_sth_signer_fails H cfg st)) rnd = fe_get_sth H sign cfg st rnd).
  Proof. split; [reflexivity|]. split; reflexivity. Qed.
End SignerFails.
