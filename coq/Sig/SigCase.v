(* Correspondence cases for C05: observed behaviour of tls.VerifySignature, asn1.Unmarshal on
   the signature value, ct.NewSignatureVerifier, ct.SerializeSCT/STHSignatureInput,
   SignatureVerifier.VerifySCTSignature / VerifySTHSignature, ctutil.VerifySCT and
   loglist3.NewFromSignedJSON.  The primitive oracles of the model are instantiated per case
   from a table the harness filled by calling the Go standard library directly (hash
   functions, rsa.VerifyPKCS1v15, ecdsa.Verify, dsa.Verify, encoding/json). *)
From Coq Require Import NArith ZArith List Bool.
From Coq.Strings Require Import Byte.
From V Require Import Base.Bytes Base.CaseLib Sig.SigModel.
Import ListNotations.

Inductive outcome := OOk | OErr | OPanic.
Definition outcome_of {A} (r : res A) : outcome :=
  match r with Ok _ => OOk | Err => OErr | Panic => OPanic end.
Definition outcome_eqb (a b : outcome) : bool :=
  match a, b with OOk, OOk | OErr, OErr | OPanic, OPanic => true | _, _ => false end.

Record oracle := {
  o_msg : bytes;                             (* the message the digests below are of *)
  o_digests : list (Z * bytes);              (* crypto.Hash id, digest of o_msg *)
  o_rsa : list (Z * bytes * bytes * bool);   (* hash id, digest, signature, rsa.VerifyPKCS1v15 == nil *)
  o_rs : list (bytes * Z * Z * bool);        (* digest, r, s, ecdsa.Verify / dsa.Verify (the case's key) *)
  o_json : bool                              (* json.Unmarshal(o_msg, &LogList) == nil *)
}.
Definition no_oracle : oracle := {| o_msg := []; o_digests := []; o_rsa := []; o_rs := []; o_json := false |}.

Definition digest_of (o : oracle) (ht : Z) (m : bytes) : bytes :=
  if bytes_eqb m (o_msg o) then
    match find (fun e => Z.eqb (fst e) ht) (o_digests o) with Some e => snd e | None => [] end
  else [].
Definition rsa_of (o : oracle) (_ : key) (ht : Z) (dg sig : bytes) : bool :=
  existsb (fun e => match e with (ht', dg', sig', ok) =>
                      Z.eqb ht ht' && bytes_eqb dg dg' && bytes_eqb sig sig' && ok end) (o_rsa o).
Definition rs_of (o : oracle) (_ : key) (dg : bytes) (r s : Z) : bool :=
  existsb (fun e => match e with (dg', r', s', ok) =>
                      bytes_eqb dg dg' && Z.eqb r r' && Z.eqb s s' && ok end) (o_rs o).
Definition json_of (o : oracle) (m : bytes) : bool := bytes_eqb m (o_msg o) && o_json o.

Definition m_verify o := verify (digest_of o) (rsa_of o) (rs_of o) (rs_of o).
Definition m_verify_sct o := verify_sct (digest_of o) (rsa_of o) (rs_of o) (rs_of o).
Definition m_verify_sth o := verify_sth (digest_of o) (rsa_of o) (rs_of o) (rs_of o).
Definition m_util o := util_verify_sct (digest_of o) (rsa_of o) (rs_of o) (rs_of o).
Definition m_json o := new_from_signed_json (digest_of o) (rsa_of o) (rs_of o) (rs_of o) (json_of o).

Inductive case :=
| CVerify (k : key) (data : bytes) (sg : dsig) (o : oracle) (obs : outcome)
| CDer (sig : bytes) (obs : option (Z * Z * N))          (* R, S, len(rest) *)
| CNewVerifier (allow : bool) (k : key) (obs : outcome)
| CSctInput (s : sct) (e : tentry) (obs : res bytes)
| CSthInput (s : sth) (obs : res bytes)
| CSct (k : key) (s : sct) (e : tentry) (o : oracle) (obs : outcome)
| CSth (k : key) (s : sth) (o : oracle) (obs : outcome)
| CUtil (allow : bool) (k : key) (s : sct) (e : tentry) (o : oracle) (obs : outcome)
| CJson (k : key) (data raw : bytes) (o : oracle) (obs : outcome).

Definition der_view (sig : bytes) : option (Z * Z * N) :=
  match der_rs sig with Some (r, s, rest) => Some (r, s, N.of_nat (length rest)) | None => None end.
Definition der_view_eqb (a b : Z * Z * N) : bool :=
  match a, b with (r, s, n), (r', s', n') => Z.eqb r r' && Z.eqb s s' && N.eqb n n' end.

Definition res_bytes_eqb (a b : res bytes) : bool :=
  match a, b with
  | Ok x, Ok y => bytes_eqb x y
  | Err, Err | Panic, Panic => true
  | _, _ => false
  end.

Definition check (c : case) : bool :=
  match c with
  | CVerify k data sg o obs => outcome_eqb (outcome_of (m_verify o k data sg)) obs
  | CDer sig obs => opt_eqb der_view_eqb (der_view sig) obs
  | CNewVerifier allow k obs => outcome_eqb (outcome_of (new_verifier allow k)) obs
  | CSctInput s e obs => res_bytes_eqb (sct_siginput s e) obs
  | CSthInput s obs => res_bytes_eqb (sth_siginput s) obs
  | CSct k s e o obs => outcome_eqb (outcome_of (m_verify_sct o k s e)) obs
  | CSth k s o obs => outcome_eqb (outcome_of (m_verify_sth o k s)) obs
  | CUtil allow k s e o obs => outcome_eqb (outcome_of (m_util o allow k s e)) obs
  | CJson k data raw o obs => outcome_eqb (outcome_of (fst (m_json o k data raw))) obs
  end.

(* what the model computes: (outcome, DER view, signature input, JSON trace) *)
Definition explain (c : case) : option outcome * option (option (Z * Z * N)) * option (res bytes) * option (list jstep) :=
  match c with
  | CVerify k data sg o _ => (Some (outcome_of (m_verify o k data sg)), Some (der_view (ds_sig sg)), None, None)
  | CDer sig _ => (None, Some (der_view sig), None, None)
  | CNewVerifier allow k _ => (Some (outcome_of (new_verifier allow k)), None, None, None)
  | CSctInput s e _ => (None, None, Some (sct_siginput s e), None)
  | CSthInput s _ => (None, None, Some (sth_siginput s), None)
  | CSct k s e o _ => (Some (outcome_of (m_verify_sct o k s e)), Some (der_view (ds_sig (sct_sig s))), Some (sct_siginput s e), None)
  | CSth k s o _ => (Some (outcome_of (m_verify_sth o k s)), Some (der_view (ds_sig (sth_sig s))), Some (sth_siginput s), None)
  | CUtil allow k s e o _ => (Some (outcome_of (m_util o allow k s e)), None, Some (sct_siginput s e), None)
  | CJson k data raw o _ => (Some (outcome_of (fst (m_json o k data raw))), Some (der_view raw), None, Some (snd (m_json o k data raw)))
  end.
