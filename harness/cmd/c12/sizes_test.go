package main

// SIZE-boundary stream: every POST and GET endpoint of the client answered with LARGE bodies whose
// interesting byte (the first byte of trailing junk, the last byte of an error page, the byte that
// makes a JSON text incomplete) sits just below, on and just above powers of two (4 KiB, 64 KiB,
// 128 KiB, 1 MiB).  A client that reads the body through a bounded buffer / io.LimitReader and does
// not notice the truncation treats a prefix as the whole response; the direct oracle judges every
// call against the bytes the scripted server ACTUALLY sent:
//   - a result only from a 200 body that encoding/json (standard library, here) decodes - for POST
//     endpoints: that is AS A WHOLE one JSON value followed only by white space (errorOracle,
//     json.Valid; caseAddChain, json.Unmarshal of the whole body);
//   - an RspError carries the status and the COMPLETE body (errorOracle, bytes.Equal).

import (
	"encoding/json"
	"fmt"
	"testing"

	"verif/harness/lib"
)

// boundaries: offsets at which the interesting byte is put
func sizeBoundaries() []int {
	return []int{4095, 4096, 4097, 65535, 65536, 65537, 131072, 1<<20 + 1}
}

var jsonWS = []byte{' ', '\n', '\t', '\r'}

// pad returns b followed by JSON white space up to length n (b itself when it is longer)
func padWS(r randT, b []byte, n int) []byte {
	out := append(make([]byte, 0, n+64), b...)
	ws := jsonWS[r.Intn(len(jsonWS))]
	for len(out) < n {
		out = append(out, ws)
	}
	return out
}

func filler(r randT, n int) []byte {
	out := make([]byte, n)
	for i := range out {
		out[i] = byte(33 + r.Intn(90))
		if out[i] == '"' || out[i] == '\\' {
			out[i] = 'x'
		}
	}
	return out
}

// sizeVariants: the size classes around one boundary n, for an endpoint whose perfectly good 200
// body is [good] (a JSON object).  [post]: statuses that PostAndParseWithRetry does not retry.
func sizeVariants(r randT, good []byte, n int) []variant {
	one := func(name string, st int, body []byte) variant {
		name = fmt.Sprintf("size:%s@%d", name, n)
		return variant{name, []wireItem{resp(st, body, name)}}
	}
	junks := [][]byte{[]byte("]]this is not JSON"), good, []byte("x"), {0}, []byte("}"), []byte(`,"a":1}`)}
	junk := junks[r.Intn(len(junks))]
	statuses := []int{400, 403, 404, 500, 502, 501, 409, 201, 204}
	st := statuses[r.Intn(len(statuses))]
	var vs []variant
	// 1. valid JSON, white space up to byte n, junk from byte n on: not a JSON value as a whole
	vs = append(vs, one("json+space+junk", 200, append(padWS(r, good, n), junk...)))
	// 2. error answer with a body of exactly n bytes
	vs = append(vs, one(fmt.Sprintf("status-%d-body", st), st, filler(r, n)))
	// 3. 200 with a body of n bytes that is not JSON: the closing brace never comes / an open string
	switch r.Intn(3) {
	case 0:
		vs = append(vs, one("200-unclosed-object", 200, padWS(r, good[:len(good)-1], n)))
	case 1:
		vs = append(vs, one("200-unclosed-string", 200, append([]byte(`{"pad":"`), filler(r, n-8)...)))
	default:
		vs = append(vs, one("200-html", 200, append([]byte(htmlPage), filler(r, n-len(htmlPage))...)))
	}
	// 4. well-formed large answers: n bytes of value + white space; the closing brace as byte n+1
	// after a large ignored member (a prefix of these is NOT the response)
	if n >= 65535 || lib.Tier() != "quick" {
		if fill := n - len(good) - 12; fill < 0 || r.Intn(2) == 0 {
			vs = append(vs, one("json+space", 200, padWS(r, good, n)))
		} else {
			head := append([]byte(`{"padding":"`), filler(r, fill)...)
			vs = append(vs, one("json-large-ignored-member", 200, append(append(head, `",`...), good[1:]...)))
		}
		// the members AFTER byte n: a prefix lacks them
		tail := padWS(r, []byte("{"), n)
		vs = append(vs, one("json-members-after-space", 200, append(tail, good[1:]...)))
	}
	return vs
}

func genSizes(t *testing.T, r randT, w *lib.Writer, fx *fixtures, configs []*logKey, rep int) {
	key := configs[rep%2]
	signer, foreign := key, fx.foreign[rep%2]
	other := entryOf(fx.chain("x509-other"), false)
	for bi, n := range sizeBoundaries() {
		// POST: add-chain, add-pre-chain, on the plain and the temporal client, with the log key and (now and then) without
		for si, s := range []struct {
			chain   string
			precert bool
		}{{"x509-3", false}, {"pre-3", true}} {
			ch := fx.chain(s.chain)
			e := entryOf(ch, s.precert)
			_, good := sctVariants(r, fx, signer, foreign, ch, e, other)
			for vi, v := range sizeVariants(r, good, n) {
				k := key
				if r.Intn(8) == 0 {
					k = nil
				}
				w.Add(caseAddChain(t, addSpec{key: k, usePEM: r.Intn(2) == 0, temporal: (bi+si+vi+rep)%3 == 0, precert: s.precert, chain: ch,
					name: v.name, idClass: "key-hash", items: v.items}))
			}
		}
		// GET: every other endpoint
		_, goodSTH := sthVariants(r, signer, foreign)
		for _, v := range sizeVariants(r, goodSTH, n) {
			w.Add(caseGetSTH(t, nil, key, r.Intn(2) == 0, v))
		}
		nodes := nodesJSON([][]byte{randBytes(r, 32), randBytes(r, 32)})
		specs := entrySpecs(r, fx)
		for _, g := range []struct {
			ep   endpoint
			good string
		}{
			{rootsEndpoint(), fmt.Sprintf(`{"certificates":["%s","%s"]}`, b64(fx.root.DER), b64(fx.inter.DER))},
			{consEndpoint(pickU64(r), pickU64(r)), `{"consistency":` + nodes + `}`},
			{proofEndpoint(randBytes(r, 32), pickU64(r)), `{"leaf_index":` + fmt.Sprint(r.Intn(100000)) + `,"audit_path":` + nodes + `}`},
			{eapEndpoint(pickU64(r), pickU64(r)), fmt.Sprintf(`{"leaf_input":"%s","extra_data":"%s","audit_path":%s}`, b64(specs[0].li), b64(specs[0].ex), nodes)},
		} {
			for _, v := range sizeVariants(r, []byte(g.good), n) {
				w.Add(caseEndpoint(t, g.ep, v))
			}
		}
		for _, v := range sizeVariants(r, entriesJSON(specs[:2]), n) {
			for _, c := range casesEntries(t, nil, 0, 1, v, (bi+rep)%2 == 0) {
				w.Add(c)
			}
		}
	}
}

// wholeJSON: the body is, as a whole, one JSON value followed only by white space (encoding/json)
func wholeJSON(body []byte) bool { return json.Valid(body) }
