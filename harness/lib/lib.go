// Package lib holds what every correspondence harness shares: the seeded PRNG, the case
// writer (Coq shards + JSONL mirror + distribution statistics) and Coq term printers.
package lib

import (
	"encoding/hex"
	"encoding/json"
	"flag"
	"fmt"
	"math/big"
	"math/rand"
	"os"
	"path/filepath"
	"runtime/debug"
	"sort"
	"strconv"
	"strings"
)

var (
	OutDir = flag.String("out", "", "output directory for cases")
	NFlag  = flag.Int("n", 0, "number of generated cases (0 = tier default)")
)

// Seed returns VERIF_SEED (default 1).
func Seed() int64 {
	if s := os.Getenv("VERIF_SEED"); s != "" {
		if v, err := strconv.ParseInt(s, 10, 64); err == nil {
			return v
		}
	}
	return 1
}

// Tier returns "quick" or "thorough".
func Tier() string {
	if os.Getenv("VERIF_TIER") == "thorough" {
		return "thorough"
	}
	return "quick"
}

// Count picks the number of cases for the tier unless -n overrides it.
func Count(quick, thorough int) int {
	if *NFlag > 0 {
		return *NFlag
	}
	if Tier() == "thorough" {
		return thorough
	}
	return quick
}

func Rand() *rand.Rand { return rand.New(rand.NewSource(Seed())) }

// SubRand derives an independent generator (for a goroutine) from r, so that every random
// choice of a run still comes from the one seed.
func SubRand(r *rand.Rand) *rand.Rand { return rand.New(rand.NewSource(r.Int63())) }

// Case is one correspondence case: the Coq term of type `case` (defined by the property's
// Coq case library), a JSON mirror for replay files, the verdict of the DIRECT property
// oracle evaluated on the implementation's behaviour (independent of the model), and tags
// that feed the input-distribution statistics.
type Case struct {
	Coq     string      `json:"-"`
	Input   interface{} `json:"input"`
	Impl    interface{} `json:"impl"`
	PropOK  bool        `json:"prop_ok"`
	Note    string      `json:"note,omitempty"`
	Tags    []string    `json:"tags,omitempty"`
	Trivial bool        `json:"trivial,omitempty"`
	Key     string      `json:"-"` // distinctness key; defaults to Coq
}

type Writer struct {
	dir     string
	header  string
	shard   int
	cases   []Case
	tags    map[string]int
	keys    map[string]bool
	nontriv int
	jsonl   *os.File
	n       int
}

// NewWriter: header is the Coq preamble (imports) which must bring into scope
// `case : Type` and `check : case -> bool`.
func NewWriter(header string, shard int) *Writer {
	if *OutDir == "" {
		fmt.Fprintln(os.Stderr, "-out is required")
		os.Exit(2)
	}
	os.MkdirAll(*OutDir, 0o755)
	old, _ := filepath.Glob(filepath.Join(*OutDir, "cases_*.v"))
	for _, f := range old {
		os.Remove(f)
	}
	f, err := os.Create(filepath.Join(*OutDir, "cases.jsonl"))
	if err != nil {
		panic(err)
	}
	return &Writer{dir: *OutDir, header: header, shard: shard, tags: map[string]int{}, keys: map[string]bool{}, jsonl: f}
}

func (w *Writer) Add(c Case) {
	w.cases = append(w.cases, c)
	for _, t := range c.Tags {
		w.tags[t]++
	}
	k := c.Key
	if k == "" {
		k = c.Coq
	}
	if !c.Trivial && !w.keys[k] {
		w.nontriv++
	}
	w.keys[k] = true
	rec := map[string]interface{}{"id": w.n, "input": c.Input, "impl": c.Impl, "prop_ok": c.PropOK, "note": c.Note, "tags": c.Tags}
	b, _ := json.Marshal(rec)
	w.jsonl.Write(append(b, '\n'))
	w.n++
}

func (w *Writer) Len() int { return w.n }

// Guard, deferred in a harness's main right after the writer is created, turns a panic of the
// harness (typically an implementation call that "cannot fail" failing on a changed tree) into a
// recorded failing case, so that the cases gathered so far are still evaluated and the abort is
// reported with what failed rather than as a bare harness crash.
func (w *Writer) Guard() {
	if p := recover(); p != nil {
		st := string(debug.Stack())
		if len(st) > 3000 {
			st = st[:3000]
		}
		w.Add(Case{Coq: "", Key: "harness-abort", Input: map[string]interface{}{"op": "harness-abort"},
			Impl:   map[string]interface{}{"panic": fmt.Sprint(p), "stack": st},
			PropOK: false, Note: "harness aborted: a call that succeeds on every tree where the property holds failed: " + fmt.Sprint(p), Tags: []string{"harness-abort"}})
		w.Close()
		os.Exit(0)
	}
}

func (w *Writer) Close() {
	w.jsonl.Close()
	nsh := 0
	for i := 0; i < len(w.cases); i += w.shard {
		j := i + w.shard
		if j > len(w.cases) {
			j = len(w.cases)
		}
		var b strings.Builder
		b.WriteString(w.header)
		b.WriteString("\nDefinition cases : list (N * case) := [\n")
		first := true
		for k := i; k < j; k++ {
			if w.cases[k].Coq == "" { // recorded in cases.jsonl only (see Guard)
				continue
			}
			if !first {
				b.WriteString(";\n")
			}
			first = false
			fmt.Fprintf(&b, " (%d%%N, %s)", k, w.cases[k].Coq)
		}
		b.WriteString("\n")
		b.WriteString("].\n")
		b.WriteString("Definition bad : list N := Eval vm_compute in (List.map fst (List.filter (fun c => negb (check (snd c))) cases)).\nPrint bad.\n")
		os.WriteFile(filepath.Join(w.dir, fmt.Sprintf("cases_%03d.v", nsh)), []byte(b.String()), 0o644)
		nsh++
	}
	var tags []string
	for t := range w.tags {
		tags = append(tags, t)
	}
	sort.Strings(tags)
	dist := map[string]int{}
	for _, t := range tags {
		dist[t] = w.tags[t]
	}
	var samples []interface{}
	step := len(w.cases)/4 + 1
	for i := 0; i < len(w.cases); i += step {
		samples = append(samples, map[string]interface{}{"id": i, "input": w.cases[i].Input, "impl": w.cases[i].Impl})
	}
	stats := map[string]interface{}{"evaluations": w.n, "distinct_nontrivial": w.nontriv, "shards": nsh,
		"distribution": dist, "samples": samples, "seed": Seed(), "tier": Tier()}
	b, _ := json.MarshalIndent(stats, "", " ")
	os.WriteFile(filepath.Join(w.dir, "stats.json"), b, 0o644)
}

// ---- Coq term printers ----

func Z(v int64) string       { return "(" + strconv.FormatInt(v, 10) + ")%Z" }
func ZBig(v *big.Int) string { return "(" + v.String() + ")%Z" }
func Nn(v uint64) string     { return strconv.FormatUint(v, 10) + "%N" }
func Nat(v int) string       { return strconv.Itoa(v) + "%nat" }
func Bool(b bool) string {
	if b {
		return "true"
	}
	return "false"
}
func Opt(s *string) string {
	if s == nil {
		return "None"
	}
	return "(Some " + *s + ")"
}
func Some(s string) string     { return "(Some " + s + ")" }
func List(xs []string) string  { return "[" + strings.Join(xs, "; ") + "]" }
func Pair(xs ...string) string { return "(" + strings.Join(xs, ", ") + ")" }

// Hex renders bytes as a Coq term of type `list byte` via V.Base.Bytes.hex.
func Hex(b []byte) string {
	if len(b) == 0 {
		return "[]"
	}
	return "(hex \"" + hex.EncodeToString(b) + "\"%string)"
}

// Str renders a Go string as a Coq string literal (ASCII printable only; others via hex).
func Str(s string) string {
	return "\"" + strings.ReplaceAll(s, "\"", "\"\"") + "\""
}

// Bytes renders a byte string compactly: long runs of one byte become `rep n b`, the rest hex.
func Bytes(b []byte) string {
	if len(b) <= 96 {
		return Hex(b)
	}
	var parts []string
	i := 0
	for i < len(b) {
		j := i
		for j < len(b) && b[j] == b[i] {
			j++
		}
		if j-i >= 48 {
			parts = append(parts, fmt.Sprintf("rep %d%%N (n2b %d%%N)", j-i, b[i]))
			i = j
			continue
		}
		// literal segment up to the next long run
		k := i
		for k < len(b) {
			m := k
			for m < len(b) && b[m] == b[k] {
				m++
			}
			if m-k >= 48 {
				break
			}
			k = m
		}
		parts = append(parts, Hex(b[i:k]))
		i = k
	}
	return "(" + strings.Join(parts, " ++ ") + ")"
}
