(* C17 - what the model says about /repo BEFORE pending_fixes/C17-1 and C17-2.

   1. races.go without the fix is the model with p = false.  There the statement
      enough_answers_implies_success is false: two logs (10 Google, 20 non-Google), both
      answering with an SCT, Chrome-like groups (Google >= 1, non-Google >= 1, all >= 2).
      The Google and non-Google races start both requests; the All-logs race finds both logs
      already requested, so both its goroutines report at once, it sees "not complete" and
      reports failure; then both SCTs arrive.  GetSCTs returns the two SCTs - which satisfy
      the policy - together with the verdict "All-logs didn't receive enough SCTs".
      (Observed on the real code under virtual time with any log latency above one second.)

   2. The lock-set table of the unpatched tree contains unguarded reads of guarded fields:
      Proxy.dist (proxy.go AddChain/AddPreChain, proxy_server.go HandleInfo),
      LogGroupInfo.LogWeights (ctpolicy.go GetSubmissionSession, SetLogWeight),
      LogListManager.latestLL (loglist_manager.go ProduceClientLogList).  The entries below
      are copied from the table generated from that tree; the obligation fails on them and
      a concrete racy trace is exhibited. *)
From Coq Require Import ZArith NArith Bool List String.
From V Require Import Submission.SubmitModel Submission.SubmitStateProofs Submission.SubmitEnoughState
     Submission.SubmitEnough Submission.LockLib.
Import ListNotations.

Definition c_w : cfg :=
  [mkGroup 1 [10%N] 1 false [10%N]; mkGroup 2 [20%N] 1 false [20%N]; mkGroup 0 [10%N; 20%N] 2 true [10%N; 20%N]].
Definition oc_w (l : N) : outcome := OSct.
Definition tr_w : list action :=
  [AWakeTimer 1 10; ACheck 1 10; ARequest 1 10; AStart 1 10;
   AWakeTimer 2 20; ACheck 2 20; ARequest 2 20; AStart 2 20;
   AWakeTimer 0 10; ACheck 0 10; ARequest 0 10; ACount 0 10;
   AWakeTimer 0 20; ACheck 0 20; ARequest 0 20; ACount 0 20;
   ARecvCount 0; AMainCheck 0; ARecvCount 0; AMainCheck 0; AMainFinal 0; ASendEvent 0; ATopRecv;
   AReturn 1 10 true; ASetRes 1 10; ACount 1 10; ARecvCount 1; AMainCheck 1; ASendEvent 1;
   AReturn 2 20 true; ASetRes 2 20; ACount 2 20; ARecvCount 2; AMainCheck 2; ASendEvent 2;
   ATopRecv; ATopRecv; ATopCollect]%N.

Ltac nodup := repeat (apply NoDup_cons; [simpl; intuition discriminate|]); apply NoDup_nil.

Lemma c_w_wf : wf c_w.
Proof.
  split.
  - simpl. nodup.
  - intros gr [<-|[<-|[<-|[]]]]; simpl; (split; [nodup|]); (split; [nodup|]); intros x Hx; exact Hx.
Qed.

Lemma c_w_good : good_cfg c_w.
Proof.
  split.
  - intros gr1 gr2 l [<-|[<-|[<-|[]]]] [<-|[<-|[<-|[]]]] B1 B2 L1 L2; simpl in *; try reflexivity; try congruence;
      exfalso; intuition (subst; discriminate).
  - intros grb gr [<-|[<-|[<-|[]]]] Hb [<-|[<-|[<-|[]]]]; simpl in *; try discriminate; intros l Hl; simpl in *; intuition.
Qed.

Lemma c_w_enough : enough c_w oc_w.
Proof. intros gr [<-|[<-|[<-|[]]]]; vm_compute; discriminate. Qed.

(* without the fix: enough logs answer, the caller never cancels, the returned set
   satisfies the policy - and GetSCTs says it did not succeed *)
Theorem enough_answers_implies_success_refuted :
  exists c oc tr s scts,
    wf c /\ good_cfg c /\ enough c oc /\
    run false c oc (init false c) tr = Some s /\
    returned s = Some (scts, false) /\ ctxdone s = false /\ policy_satisfiedb c scts = true.
Proof.
  exists c_w, oc_w, tr_w.
  destruct (run false c_w oc_w (init false c_w) tr_w) as [s|] eqn:E; [|vm_compute in E; discriminate].
  exists s, [10%N; 20%N]. split; [exact c_w_wf|]. split; [exact c_w_good|]. split; [exact c_w_enough|].
  split; [reflexivity|].
  assert (R : returned s = Some ([10%N; 20%N], false) /\ ctxdone s = false).
  { assert (X : option_map (fun s => (returned s, ctxdone s)) (run false c_w oc_w (init false c_w) tr_w)
              = Some (Some ([10%N; 20%N], false), false)) by (vm_compute; reflexivity).
    rewrite E in X. simpl in X. inversion X. split; reflexivity. }
  destruct R as [R1 R2]. split; [exact R1|]. split; [exact R2|]. vm_compute. reflexivity.
Qed.
Print Assumptions enough_answers_implies_success_refuted.

(* the same schedule on the fixed code cannot be run: the All-logs goroutines wait *)
Example same_schedule_blocked_after_fix : run true c_w oc_w (init true c_w) tr_w = None.
Proof. vm_compute. reflexivity. Qed.

(* ---- lock-set table entries of the unpatched tree ---- *)
Open Scope string_scope.
Definition prefix_locks : list access := [
  mkAccess "Proxy" "dist" true [("distMu", Ex)] false "submission/proxy.go:184 Proxy.restartDistributor";
  mkAccess "Proxy" "dist" false [] false "submission/proxy.go:191 Proxy.AddPreChain";
  mkAccess "Proxy" "dist" false [] false "submission/proxy.go:198 Proxy.AddPreChain";
  mkAccess "Proxy" "dist" false [] false "submission/proxy.go:203 Proxy.AddChain";
  mkAccess "Proxy" "dist" false [] false "submission/proxy.go:209 Proxy.AddChain";
  mkAccess "Proxy" "dist" false [] false "submission/proxy_server.go:135 ProxyServer.HandleInfo";
  mkAccess "LogListManager" "latestLL" true [("mu", Ex)] false "submission/loglist_manager.go:109 LogListManager.RefreshLogList";
  mkAccess "LogListManager" "latestLL" false [] false "submission/loglist_manager.go:116 LogListManager.ProduceClientLogList";
  mkAccess "LogGroupInfo" "LogWeights" true [("wMu", Ex)] false "ctpolicy/ctpolicy.go:97 LogGroupInfo.SetLogWeights";
  mkAccess "LogGroupInfo" "LogWeights" true [("wMu", Ex)] false "ctpolicy/ctpolicy.go:101 LogGroupInfo.SetLogWeights";
  mkAccess "LogGroupInfo" "LogWeights" false [] false "ctpolicy/ctpolicy.go:118 LogGroupInfo.SetLogWeight";
  mkAccess "LogGroupInfo" "LogWeights" true [("wMu", Ex)] false "ctpolicy/ctpolicy.go:127 LogGroupInfo.SetLogWeight";
  mkAccess "LogGroupInfo" "LogWeights" false [] false "ctpolicy/ctpolicy.go:141 LogGroupInfo.GetSubmissionSession"
].

Theorem guarded_fields_race_free_refuted : table_ok prefix_locks = false.
Proof. vm_compute. reflexivity. Qed.
Print Assumptions guarded_fields_race_free_refuted.

(* a trace that respects mutex semantics and has a data race on Proxy.dist:
   thread 1 (restartDistributor) holds distMu and writes dist, thread 2 (AddChain) reads it *)
Definition w_dist := mkAccess "Proxy" "dist" true [("distMu", Ex)] false "submission/proxy.go:184 Proxy.restartDistributor".
Definition r_dist := mkAccess "Proxy" "dist" false [] false "submission/proxy.go:203 Proxy.AddChain".
Definition racy_trace : list event :=
  [EAcq 1%N 0%N "distMu" Ex; EAcc 1%N 0%N w_dist; EAcc 2%N 0%N r_dist; ERel 1%N 0%N "distMu" Ex].

Theorem proxy_dist_race_witness :
  (exists hs, lrun [] racy_trace = Some hs) /\ adjacent_race racy_trace /\
  In w_dist prefix_locks /\ In r_dist prefix_locks.
Proof.
  split; [eexists; vm_compute; reflexivity|]. split.
  - exists [EAcq 1%N 0%N "distMu" Ex], [ERel 1%N 0%N "distMu" Ex], 1%N, 2%N, 0%N, w_dist, r_dist.
    split; [reflexivity|]. split; [discriminate | vm_compute; reflexivity].
  - split; simpl; auto 10.
Qed.
Print Assumptions proxy_dist_race_witness.
