package main

// 9. The encodings of a private-key VALUE, and leading padding of every primitive value of a key.
//
// A key container carries its secret as an OCTET STRING (SEC 1 privateKey) or as INTEGERs
// (PKCS#1), and the parsers normalise what they read: superfluous leading zero octets are
// stripped in a loop, keys written without their leading zeros are left-padded, the value is
// range-checked against the group order.  Every encoder (the fork's, crypto/x509's, OpenSSL's)
// writes exactly one form - the scalar left-padded to the octet length of the order - and the one
// historical fixture pads by a single octet; byte flips of such keys never yield a consistent
// longer OCTET STRING.  So the normalising code only ever ran zero or one time round its loop.
// This stream enumerates the class on purpose:
//
//	(a) EC private keys written by hand (derTLV) for EVERY curve the parser knows (P-224, P-256,
//	    P-384, P-521 and the fork-only secp192r1) x scalar classes {0, 1, one octet, two / one
//	    natural leading zero octets, full length, order-1, order, order+1, all ones} x octet forms
//	    {exact, minimal, one leading zero dropped, 1 2 3 4 8 n superfluous leading zero octets, zero
//	    octets in front of the minimal form, over-long with a non-zero first octet (01 80 ff), zero
//	    then non-zero, non-zero then zero, a trailing zero octet} x containers {SEC 1 with
//	    parameters and public key, with parameters only, without parameters; PKCS#8 with the curve
//	    in the algorithm identifier (the encoders' form), in both places, inside only, nowhere,
//	    and with ANOTHER curve outside than inside (the outer one governs, so the same octets are
//	    short / over-long for it)} through ParseECPrivateKey / ParsePKCS8PrivateKey.
//	    Oracle, besides coh (no panic, no hang, object xor fatal error): an independent reference
//	    for the outcome - the octets are accepted iff a curve is named and their big-endian value
//	    (math/big) is below the group order (taken from crypto/elliptic, for secp192r1 from
//	    SEC 2); an accepted key has exactly that value as D, names that curve and carries the
//	    point D*G computed by crypto/elliptic (for secp192r1 by a hand-written CurveParams) - and,
//	    where crypto/x509 knows the curve, the same verdict and the same key as
//	    crypto/x509.ParseECPrivateKey / ParsePKCS8PrivateKey on the same bytes.
//	(b) a padding operator on EVERY primitive INTEGER, OCTET STRING, BIT STRING and OBJECT
//	    IDENTIFIER of every key document of the pool (PKIX, PKCS#1 private / public, PKCS#8, SEC 1;
//	    real, generated, three-prime): 1, 2, 3 leading zero octets, 1, 2 leading ff octets, a
//	    leading 01, a trailing 00 (for a BIT STRING also behind the unused-bits octet), enclosing
//	    lengths re-encoded; one site per (kind, operator, structural position) in the quick tier.
//	    Oracle: coh through every entry point of the kind, and crypto/x509 as a one-sided
//	    reference: what crypto/x509 accepts the fork accepts without error, and a key both accept
//	    is the same key (all components).
//
// The operator of (b) is also drawn at random in the mutation stream (`pad-primitive`).

import (
	"crypto/dsa"
	"crypto/ecdsa"
	"crypto/ed25519"
	"crypto/elliptic"
	"crypto/rsa"
	stdx509 "crypto/x509"
	"encoding/hex"
	"fmt"
	"math/big"
	mrand "math/rand"
	"strings"

	"github.com/google/certificate-transparency-go/x509"

	"verif/harness/lib"
)

// ---------------------------------------------------------------- curves (reference side)

type refCurve struct {
	name string
	oid  []byte         // DER of the curve's object identifier
	ref  elliptic.Curve // reference arithmetic: crypto/elliptic, or hand-written parameters
	std  bool           // crypto/x509 knows the curve
}

func (c refCurve) order() *big.Int { return c.ref.Params().N }
func (c refCurve) size() int       { return (c.order().BitLen() + 7) / 8 }

func hexInt(s string) *big.Int {
	v, ok := new(big.Int).SetString(s, 16)
	if !ok {
		panic("bad constant " + s)
	}
	return v
}

// secp192r1 as SEC 2 (2.2.2) / FIPS 186-4 (D.1.2.1) give it; generic short-Weierstrass a = -3
// arithmetic of crypto/elliptic.CurveParams.
func refP192() elliptic.Curve {
	return &elliptic.CurveParams{Name: "P-192", BitSize: 192,
		P:  hexInt("fffffffffffffffffffffffffffffffeffffffffffffffff"),
		N:  hexInt("ffffffffffffffffffffffff99def836146bc9b1b4d22831"),
		B:  hexInt("64210519e59c80e70fa7e9ab72243049feb8deecc146b9b1"),
		Gx: hexInt("188da80eb03090f67cbf20eb43a18800f4ff0afd82ff1012"),
		Gy: hexInt("07192b95ffc8da78631011ed6b24cdd573f977a11e794811")}
}

func refCurves() []refCurve {
	return []refCurve{
		{"P-192", derOID(1, 2, 840, 10045, 3, 1, 1), refP192(), false},
		{"P-224", derOID(1, 3, 132, 0, 33), elliptic.P224(), true},
		{"P-256", derOID(1, 2, 840, 10045, 3, 1, 7), elliptic.P256(), true},
		{"P-384", derOID(1, 3, 132, 0, 34), elliptic.P384(), true},
		{"P-521", derOID(1, 3, 132, 0, 35), elliptic.P521(), true},
	}
}

// refPoint: D*G by the reference arithmetic; (0, 0) stands for the point at infinity (D = 0), as
// crypto/elliptic reports it.
func refPoint(c refCurve, d *big.Int) (x, y *big.Int) {
	if d.Sign() == 0 {
		return new(big.Int), new(big.Int)
	}
	return c.ref.ScalarBaseMult(d.Bytes()) //nolint:staticcheck // reference computation
}

// ---------------------------------------------------------------- scalars and octet forms

type namedInt struct {
	n string
	v *big.Int
}

func randBelow(r *mrand.Rand, lo, hi *big.Int) *big.Int { // lo <= v < hi
	span := new(big.Int).Sub(hi, lo)
	b := make([]byte, (span.BitLen()+7)/8+8)
	r.Read(b)
	v := new(big.Int).SetBytes(b)
	return v.Add(v.Mod(v, span), lo)
}

func scalarClasses(r *mrand.Rand, c refCurve) []namedInt {
	n, N := c.size(), c.order()
	pow := func(octets int) *big.Int { return new(big.Int).Lsh(big.NewInt(1), uint(8*octets)) }
	one := big.NewInt(1)
	return []namedInt{
		{"zero", new(big.Int)},
		{"one", big.NewInt(1)},
		{"one-octet", big.NewInt(int64(0x80 + r.Intn(0x80)))},
		{"two-leading-zeros", randBelow(r, pow(n-3), pow(n-2))},
		{"one-leading-zero", randBelow(r, pow(n-2), pow(n-1))},
		{"full-length", randBelow(r, pow(n-1), N)},
		{"order-1", new(big.Int).Sub(N, one)},
		{"order", new(big.Int).Set(N)},
		{"order+1", new(big.Int).Add(N, one)},
		{"all-ones", new(big.Int).Sub(pow(n), one)},
	}
}

func leftPad(b []byte, n int) []byte {
	if len(b) >= n {
		return append([]byte{}, b...)
	}
	return append(make([]byte, n-len(b)), b...)
}

// octetForms: the ways the scalar v may be written into the privateKey OCTET STRING of a curve
// whose order has n octets.
func octetForms(v *big.Int, n int) []namedBytes {
	exact, minimal := leftPad(v.Bytes(), n), v.Bytes()
	out := []namedBytes{{"exact", exact}}
	if len(minimal) < n {
		out = append(out, namedBytes{"minimal", minimal})
	}
	if len(minimal) < n-1 {
		out = append(out, namedBytes{"one-zero-dropped", exact[1:]})
	}
	for _, k := range []int{1, 2, 3, 4, 8, n} {
		out = append(out, namedBytes{fmt.Sprintf("zeros+%d", k), append(make([]byte, k), exact...)})
	}
	if len(minimal) < n {
		out = append(out, namedBytes{"zeros+2-before-minimal", append(make([]byte, 2), minimal...)},
			namedBytes{fmt.Sprintf("zeros+%d-before-minimal", n), append(make([]byte, n), minimal...)})
	}
	for _, lead := range [][]byte{{0x01}, {0x80}, {0xff}, {0x00, 0x01}, {0x01, 0x00}, {0x00, 0x00, 0x00, 0x01}} {
		out = append(out, namedBytes{"lead-" + hex.EncodeToString(lead), append(append([]byte{}, lead...), exact...)})
	}
	out = append(out, namedBytes{"trailing-zero", append(append([]byte{}, exact...), 0x00)})
	return out
}

// ---------------------------------------------------------------- containers

type ecContainer struct {
	name  string
	fn    int
	build func(octets []byte, in, other refCurve, pub []byte) []byte
	// which curve governs: 0 none, 1 the key's, 2 the other one
	governs int
}

func ecContainers() []ecContainer {
	v0, v1 := []byte{0x02, 0x01, 0x00}, []byte{0x02, 0x01, 0x01}
	ecOID := derOID(1, 2, 840, 10045, 2, 1)
	sec1 := func(octets []byte, params []byte, pub []byte) []byte {
		parts := [][]byte{v1, derTLV(0x04, octets)}
		if params != nil {
			parts = append(parts, derTLV(0xa0, params))
		}
		if pub != nil {
			parts = append(parts, derTLV(0xa1, derTLV(0x03, []byte{0x00}, pub)))
		}
		return sq(parts...)
	}
	p8 := func(outer []byte, inner []byte) []byte {
		alg := sq(ecOID)
		if outer != nil {
			alg = sq(ecOID, outer)
		}
		return sq(v0, alg, derTLV(0x04, inner))
	}
	return []ecContainer{
		{"sec1/params+public", fnEC, func(o []byte, c, _ refCurve, pub []byte) []byte { return sec1(o, c.oid, pub) }, 1},
		{"pkcs8/outer-params", fnPKCS8, func(o []byte, c, _ refCurve, pub []byte) []byte { return p8(c.oid, sec1(o, nil, pub)) }, 1},
		{"sec1/params", fnEC, func(o []byte, c, _ refCurve, _ []byte) []byte { return sec1(o, c.oid, nil) }, 1},
		{"pkcs8/both-params", fnPKCS8, func(o []byte, c, _ refCurve, pub []byte) []byte { return p8(c.oid, sec1(o, c.oid, pub)) }, 1},
		{"pkcs8/inner-params", fnPKCS8, func(o []byte, c, _ refCurve, _ []byte) []byte { return p8(nil, sec1(o, c.oid, nil)) }, 1},
		{"pkcs8/outer-other-curve", fnPKCS8, func(o []byte, c, other refCurve, _ []byte) []byte { return p8(other.oid, sec1(o, c.oid, nil)) }, 2},
		{"sec1/no-params", fnEC, func(o []byte, _, _ refCurve, pub []byte) []byte { return sec1(o, nil, pub) }, 0},
		{"pkcs8/no-params", fnPKCS8, func(o []byte, _, _ refCurve, _ []byte) []byte { return p8(nil, sec1(o, nil, nil)) }, 0},
	}
}

// ---------------------------------------------------------------- guarded key parsers

type keyRes struct {
	key      interface{}
	err      error
	panicked string
}

func guardKey(f func() (interface{}, error)) (out keyRes) {
	defer func() {
		if p := recover(); p != nil {
			out = keyRes{panicked: fmt.Sprint(p)}
		}
	}()
	k, err := f()
	return keyRes{key: k, err: err}
}

func isNilKey(k interface{}) bool {
	switch x := k.(type) {
	case nil:
		return true
	case *ecdsa.PrivateKey:
		return x == nil
	case *rsa.PrivateKey:
		return x == nil
	case *rsa.PublicKey:
		return x == nil
	case *ecdsa.PublicKey:
		return x == nil
	case *dsa.PublicKey:
		return x == nil
	}
	return false
}

// forkKey / stdKey: the key object of one entry point of the fork / of crypto/x509 (nil: the
// reference has no such entry point)
func forkKey(fn int, b []byte) keyRes {
	return guardKey(func() (interface{}, error) {
		switch fn {
		case fnEC:
			k, err := x509.ParseECPrivateKey(b)
			if k == nil {
				return nil, err
			}
			return k, err
		case fnPKCS8:
			return x509.ParsePKCS8PrivateKey(b)
		case fnPKCS1Priv:
			k, err := x509.ParsePKCS1PrivateKey(b)
			if k == nil {
				return nil, err
			}
			return k, err
		case fnPKCS1Pub:
			k, err := x509.ParsePKCS1PublicKey(b)
			if k == nil {
				return nil, err
			}
			return k, err
		case fnPKIX:
			return x509.ParsePKIXPublicKey(b)
		}
		return nil, fmt.Errorf("no key parser %d", fn)
	})
}

func stdKey(fn int, b []byte) keyRes {
	return guardKey(func() (interface{}, error) {
		switch fn {
		case fnEC:
			k, err := stdx509.ParseECPrivateKey(b)
			if k == nil {
				return nil, err
			}
			return k, err
		case fnPKCS8:
			return stdx509.ParsePKCS8PrivateKey(b)
		case fnPKCS1Priv:
			k, err := stdx509.ParsePKCS1PrivateKey(b)
			if k == nil {
				return nil, err
			}
			return k, err
		case fnPKCS1Pub:
			k, err := stdx509.ParsePKCS1PublicKey(b)
			if k == nil {
				return nil, err
			}
			return k, err
		case fnPKIX:
			return stdx509.ParsePKIXPublicKey(b)
		}
		return nil, fmt.Errorf("no key parser %d", fn)
	})
}

func bi(v *big.Int) string {
	if v == nil {
		return "nil"
	}
	return v.Text(16)
}

// keyProj: every component of a key object, as text (the two packages return the same Go types)
func keyProj(k interface{}) string {
	switch x := k.(type) {
	case *rsa.PrivateKey:
		var ps []string
		for _, p := range x.Primes {
			ps = append(ps, bi(p))
		}
		return fmt.Sprintf("rsa-private n=%s e=%x d=%s primes=%s", bi(x.N), x.E, bi(x.D), strings.Join(ps, ","))
	case *rsa.PublicKey:
		return fmt.Sprintf("rsa-public n=%s e=%x", bi(x.N), x.E)
	case *ecdsa.PrivateKey:
		return fmt.Sprintf("ec-private %s d=%s x=%s y=%s", x.Curve.Params().Name, bi(x.D), bi(x.X), bi(x.Y))
	case *ecdsa.PublicKey:
		return fmt.Sprintf("ec-public %s x=%s y=%s", x.Curve.Params().Name, bi(x.X), bi(x.Y))
	case *dsa.PublicKey:
		return fmt.Sprintf("dsa-public p=%s q=%s g=%s y=%s", bi(x.P), bi(x.Q), bi(x.G), bi(x.Y))
	case ed25519.PrivateKey:
		return "ed25519-private " + hex.EncodeToString(x)
	case ed25519.PublicKey:
		return "ed25519-public " + hex.EncodeToString(x)
	}
	return fmt.Sprintf("%T", k)
}

// ---------------------------------------------------------------- (a) EC scalar encodings

// ecScalarCase judges one hand-written EC private key against the reference.
func (rn *runner) ecScalarCase(ct ecContainer, src string, der, octets []byte, eff *refCurve, tags []string) {
	r := rn.coh(ct.fn, src, nil, der, tags...)
	if r.panicked != "" || r.hung {
		return // the failing case is the one coh wrote
	}
	fk := forkKey(ct.fn, der)
	if fk.panicked != "" {
		return
	}
	value := new(big.Int).SetBytes(octets)
	expect := eff != nil && value.Cmp(eff.order()) < 0
	has := !isNilKey(fk.key)
	var dd []string
	if has != expect {
		dd = append(dd, fmt.Sprintf("accepted=%v, reference (a curve is named and the value of the octets is below its order)=%v", has, expect))
	}
	if has {
		k, isEC := fk.key.(*ecdsa.PrivateKey)
		switch {
		case !isEC:
			dd = append(dd, fmt.Sprintf("object is a %T", fk.key))
		case eff == nil:
		default:
			if k.D == nil || k.D.Cmp(value) != 0 {
				dd = append(dd, fmt.Sprintf("D=%s, value of the octets=%s", bi(k.D), bi(value)))
			}
			if k.Curve == nil || k.Curve.Params().N.Cmp(eff.order()) != 0 || k.Curve.Params().P.Cmp(eff.ref.Params().P) != 0 {
				dd = append(dd, "curve is not "+eff.name)
			}
			if x, y := refPoint(*eff, value); k.X == nil || k.Y == nil || k.X.Cmp(x) != 0 || k.Y.Cmp(y) != 0 {
				dd = append(dd, fmt.Sprintf("public point (%s, %s), reference D*G (%s, %s)", bi(k.X), bi(k.Y), bi(x), bi(y)))
			}
		}
	}
	impl := map[string]interface{}{"fn": parsers[ct.fn].name, "object": has, "err": fmt.Sprint(fk.err), "reference_accepts": expect}
	if eff == nil || eff.std {
		sk := stdKey(ct.fn, der)
		shas := sk.panicked == "" && !isNilKey(sk.key)
		impl["std_object"], impl["std_err"] = shas, fmt.Sprint(sk.err)
		if sk.panicked == "" {
			if shas != has {
				dd = append(dd, fmt.Sprintf("accepted=%v, crypto/x509 accepted=%v (%v)", has, shas, sk.err))
			} else if has && keyProj(sk.key) != keyProj(fk.key) {
				dd = append(dd, fmt.Sprintf("key %s, crypto/x509 %s", keyProj(fk.key), keyProj(sk.key)))
			}
		}
	}
	noerr := !expect || (has && fk.err == nil)
	ok := noerr && len(dd) == 0
	note := ""
	if !ok {
		note = fmt.Sprintf("%s on EC private key %s: %s", parsers[ct.fn].name, src, strings.Join(dd, "; "))
		if !noerr && len(dd) == 0 {
			note = fmt.Sprintf("%s on EC private key %s: error %v for a key the reference accepts", parsers[ct.fn].name, src, fk.err)
		}
	}
	if len(dd) > 0 {
		impl["differences"] = dd
	}
	rn.w.Add(lib.Case{Coq: fmt.Sprintf("(CConf %s %s)", lib.Bool(len(dd) == 0), lib.Bool(noerr)), Input: describe(src, nil, der, !ok), Impl: impl,
		PropOK: ok, Note: note, Tags: append(append([]string{}, tags...), "keyref:compared", fmt.Sprintf("keyref:accept-%v", expect)), Key: fmt.Sprintf("keyref %d %s", ct.fn, sha(der))})
}

func (rn *runner) ecScalarStream() {
	quick := lib.Tier() == "quick"
	curves := refCurves()
	conts := ecContainers()
	n := 0
	for ci, c := range curves {
		other := curves[(ci+1)%len(curves)]
		if ci%2 == 1 {
			other = curves[(ci+len(curves)-1)%len(curves)] // a smaller curve outside: the octets are over-long for it
		}
		for _, s := range scalarClasses(rn.r, c) {
			var pub []byte
			if s.v.Sign() > 0 && s.v.Cmp(c.order()) < 0 {
				x, y := refPoint(c, s.v)
				pub = elliptic.Marshal(c.ref, x, y) //nolint:staticcheck // uncompressed point 04 || X || Y
			}
			for _, f := range octetForms(s.v, c.size()) {
				for cti, ct := range conts {
					// quick tier: the two forms the encoders write for every (curve, scalar, form), the other
					// six in rotation
					if quick && cti >= 2 && (n+cti)%6 != 0 {
						continue
					}
					var eff *refCurve
					switch ct.governs {
					case 1:
						eff = &c
					case 2:
						eff = &other
					}
					der := ct.build(f.b, c, other, pub)
					src := fmt.Sprintf("keyscalar/%s/%s/%s/%s", c.name, s.n, f.n, ct.name)
					lenClass := "octets:exact"
					switch d := len(f.b) - c.size(); {
					case d < 0:
						lenClass = "octets:short"
					case d == 1:
						lenClass = "octets:long+1"
					case d > 1:
						lenClass = "octets:long+2.."
					}
					rn.ecScalarCase(ct, src, der, f.b, eff, []string{"stream:key-scalar", "kind:" + strings.SplitN(ct.name, "/", 2)[0], "curve:" + c.name,
						"scalar:" + s.n, "form:" + f.n, "container:" + ct.name, lenClass})
					// the same bytes through the sibling entry point (each names the other in its error path)
					if n%8 == 0 {
						sib := fnPKCS8
						if ct.fn == fnPKCS8 {
							sib = fnEC
						}
						rn.coh(sib, src, nil, der, "stream:key-scalar-cross")
					}
				}
				n++
			}
		}
	}
}

// ---------------------------------------------------------------- (b) padding of every primitive value

type padOp struct {
	name string
	// f returns the new content of a primitive element (nil: not applicable)
	f func(tag byte, content []byte) []byte
}

func prepend(p []byte) func(byte, []byte) []byte {
	return func(_ byte, c []byte) []byte { return append(append([]byte{}, p...), c...) }
}

var padOps = []padOp{
	{"zeros+1", prepend([]byte{0})},
	{"zeros+2", prepend([]byte{0, 0})},
	{"zeros+3", prepend([]byte{0, 0, 0})},
	{"ff+1", prepend([]byte{0xff})},
	{"ff+2", prepend([]byte{0xff, 0xff})},
	{"lead-01", prepend([]byte{0x01})},
	{"trailing-zero", func(_ byte, c []byte) []byte { return append(append([]byte{}, c...), 0) }},
	{"bits-zeros+2", func(tag byte, c []byte) []byte { // behind the unused-bits octet of a BIT STRING
		if tag != 0x03 || len(c) < 1 {
			return nil
		}
		return append([]byte{c[0], 0, 0}, c[1:]...)
	}},
}

func paddable(b []byte, t tlv) bool {
	switch t.tag {
	case 0x02, 0x04, 0x03, 0x06:
		return kids(b, t) == nil
	}
	return false
}

func applyPad(op padOp, b []byte, path []tlv) []byte {
	t := path[len(path)-1]
	nc := op.f(t.tag, b[t.off+t.hdr:t.end()])
	if nc == nil {
		return nil
	}
	repl := append(encHeader(tagBytes(b, t), len(nc)), nc...)
	if len(path) == 1 {
		return repl
	}
	return replaceNode(b, path, repl)
}

func init() {
	mutations = append(mutations, mutation{"pad-primitive", func(r *mrand.Rand, b []byte, _ [][]byte) []byte {
		p := randomPath(r, b, func(t tlv) bool { return paddable(b, t) })
		if p == nil {
			return nil
		}
		return applyPad(padOps[r.Intn(len(padOps))], b, p)
	}})
}

// keyRefCase: crypto/x509 as a one-sided reference for one key entry point on one input
func (rn *runner) keyRefCase(fn int, src string, ops []string, b []byte, tags []string) {
	fk := forkKey(fn, b)
	if fk.panicked != "" {
		return // reported by coh
	}
	sk := stdKey(fn, b)
	if sk.panicked != "" {
		return
	}
	has, shas := !isNilKey(fk.key), !isNilKey(sk.key)
	var dd []string
	if has && shas && keyProj(fk.key) != keyProj(sk.key) {
		dd = append(dd, fmt.Sprintf("key %s, crypto/x509 %s", keyProj(fk.key), keyProj(sk.key)))
	}
	noerr := !(shas && sk.err == nil) || (has && fk.err == nil)
	ok := noerr && len(dd) == 0
	note := ""
	if !noerr {
		note = fmt.Sprintf("%s: error %v (object=%v) on a key crypto/x509 accepts: %s %v", parsers[fn].name, fk.err, has, src, ops)
	} else if !ok {
		note = fmt.Sprintf("%s on %s %v: %s", parsers[fn].name, src, ops, strings.Join(dd, "; "))
	}
	cls := "both-reject"
	switch {
	case has && shas:
		cls = "both-accept"
	case has:
		cls = "fork-only"
	case shas:
		cls = "std-only"
	}
	rn.w.Add(lib.Case{Coq: fmt.Sprintf("(CConf %s %s)", lib.Bool(len(dd) == 0), lib.Bool(noerr)), Input: describe(src, ops, b, !ok),
		Impl:   map[string]interface{}{"fn": parsers[fn].name, "object": has, "err": fmt.Sprint(fk.err), "std_object": shas, "std_err": fmt.Sprint(sk.err), "differences": dd},
		PropOK: ok, Note: note, Tags: append(append([]string{}, tags...), "keyref:"+cls), Key: fmt.Sprintf("keyref %d %s", fn, sha(b))})
}

func (rn *runner) keyPaddingStream(byKind map[string][]doc) {
	per := lib.Count(1, 4)
	seen := map[string]int{}
	for _, k := range []string{"ec", "pkcs8", "pkcs1", "pkcs1pub", "pub"} {
		var pool []doc
		for _, gen := range []bool{true, false} {
			for _, d := range byKind[k] {
				if strings.HasPrefix(d.src, "generated/") == gen {
					pool = append(pool, d)
				}
			}
		}
		for _, d := range pool {
			for _, path := range allNodes(d.der) {
				t := path[len(path)-1]
				if !paddable(d.der, t) {
					continue
				}
				pos := nodePosition(d.der, path)
				for _, op := range padOps {
					key := k + " " + op.name + " " + pos
					if seen[key] >= per {
						continue
					}
					b := applyPad(op, d.der, path)
					if b == nil {
						continue
					}
					seen[key]++
					ops := []string{fmt.Sprintf("%s on %02x at %d (len %d) position %s", op.name, t.tag, t.off, t.length, pos)}
					tags := []string{"stream:key-padding", "mut:pad-" + op.name, "kind:" + k, fmt.Sprintf("padded-tag:%02x", t.tag)}
					for _, fn := range kindFns(k) {
						r := rn.coh(fn, d.src, ops, b, tags...)
						if r.panicked == "" && !r.hung {
							rn.keyRefCase(fn, d.src, ops, b, tags)
						}
					}
				}
			}
		}
	}
}

func (rn *runner) keyValueStream(byKind map[string][]doc) {
	rn.ecScalarStream()
	rn.keyPaddingStream(byKind)
}
