(* C15: lemmas about CTFE/ConfigModel.v - the instance built from a configuration:
   handler key set, STH getter selection, get-sth behaviour. *)
From Coq Require Import ZArith Bool List String Ascii Lia ZifyBool.
From V Require Import Base.GoInt gen.Config gen.ConfigTables CTFE.ConfigModel CTFE.ConfigProofs.
Import ListNotations.
Open Scope string_scope.
Open Scope Z_scope.
Open Scope bool_scope.

Lemma append_inj_l p : forall a b, p ++ a = p ++ b -> a = b.
Proof. induction p as [|c p IH]; simpl; intros a b H; [exact H | inversion H; auto]. Qed.

Lemma in_map_append p x l : In (p ++ x) (map (append p) l) <-> In x l.
Proof.
  rewrite in_map_iff. split.
  - intros [y [He Hy]]. apply append_inj_l in He. subst. exact Hy.
  - intros H. exists x. auto.
Qed.

(* facts about the GENERATED tables, decided by computation *)
Lemma add_chain_is_handler : In path_add_chain handler_paths.
Proof. apply mem_str_In. vm_compute. reflexivity. Qed.
Lemma add_pre_chain_is_handler : In path_add_pre_chain handler_paths.
Proof. apply mem_str_In. vm_compute. reflexivity. Qed.
Lemma get_sth_is_handler : In path_get_sth handler_paths.
Proof. apply mem_str_In. vm_compute. reflexivity. Qed.
Lemma add_chain_is_dropped : In path_add_chain dropped_paths.
Proof. apply mem_str_In. vm_compute. reflexivity. Qed.
Lemma add_pre_chain_is_dropped : In path_add_pre_chain dropped_paths.
Proof. apply mem_str_In. vm_compute. reflexivity. Qed.
Lemma get_sth_not_dropped : ~ In path_get_sth dropped_paths.
Proof. apply mem_str_false. vm_compute. reflexivity. Qed.
(* only the two submission endpoints are ever dropped *)
Lemma dropped_are_the_add_endpoints : forall x, In x dropped_paths -> x = path_add_chain \/ x = path_add_pre_chain.
Proof.
  assert (H : forallb (fun x => String.eqb x path_add_chain || String.eqb x path_add_pre_chain) dropped_paths = true)
    by (vm_compute; reflexivity).
  rewrite forallb_forall in H. intros x Hx. specialize (H x Hx).
  apply orb_true_iff in H. destruct H as [H | H]; apply String.eqb_eq in H; auto.
Qed.

Definition writable (c : LogConfig) : Prop := lc_is_mirror c = false /\ lc_is_readonly c = false.

Lemma handler_key_iff c x :
  In (norm_prefix (lc_prefix c) ++ x) (handler_keys c) <->
  In x handler_paths /\ (writable c \/ ~ In x dropped_paths).
Proof.
  unfold handler_keys, writable, c_drop_add_endpoints.
  destruct (lc_is_readonly c), (lc_is_mirror c); cbv [orb];
    try (rewrite filter_In, in_map_append, negb_true_iff, mem_str_false, in_map_append;
         split; [intros [H1 H2]; split; [exact H1 | right; exact H2]
                | intros [H1 [[Ha Hb] | H2]]; [discriminate | split; assumption]]).
  rewrite in_map_append. split; [intros H; split; [exact H | left; split; reflexivity] | tauto].
Qed.

Lemma set_up_instance_some c e inst :
  set_up_instance c e = Some inst -> i_handlers inst = handler_keys c /\ i_getter inst = getter_of c.
Proof.
  unfold set_up_instance.
  repeat match goal with |- context [if ?b then None else _] => destruct b end; try discriminate.
  intros H; inversion H; subst; simpl; auto.
Qed.

Lemma handlers_iff_writable_lemma c e inst :
  set_up_instance c e = Some inst ->
  (In (norm_prefix (lc_prefix c) ++ path_add_chain) (i_handlers inst) <-> writable c) /\
  (In (norm_prefix (lc_prefix c) ++ path_add_pre_chain) (i_handlers inst) <-> writable c) /\
  (forall x, In x handler_paths -> x <> path_add_chain -> x <> path_add_pre_chain ->
             In (norm_prefix (lc_prefix c) ++ x) (i_handlers inst)).
Proof.
  intros H. apply set_up_instance_some in H. destruct H as [-> _]. split; [| split].
  - split.
    + intros H. apply handler_key_iff in H. destruct H as [_ [H | H]]; [exact H | exfalso; exact (H add_chain_is_dropped)].
    + intros H. apply handler_key_iff. split; [exact add_chain_is_handler | left; exact H].
  - split.
    + intros H. apply handler_key_iff in H. destruct H as [_ [H | H]]; [exact H | exfalso; exact (H add_pre_chain_is_dropped)].
    + intros H. apply handler_key_iff. split; [exact add_pre_chain_is_handler | left; exact H].
  - intros x Hx H1 H2. apply handler_key_iff. split; [exact Hx | right]. intros Hd.
    destruct (dropped_are_the_add_endpoints x Hd); contradiction.
Qed.

(* every key of the instance is <normalised prefix> ++ <one of the generated paths> *)
Lemma handler_keys_shape c k :
  In k (handler_keys c) -> exists x, In x handler_paths /\ k = norm_prefix (lc_prefix c) ++ x.
Proof.
  unfold handler_keys. destruct (c_drop_add_endpoints _ _).
  - rewrite filter_In, in_map_iff. intros [[x [He Hx]] _]. eauto.
  - rewrite in_map_iff. intros [x [He Hx]]. eauto.
Qed.

(* ------------------------------------------------------------------ getter selection *)

Lemma getter_of_spec c :
  getter_of c = match lc_frozen_sth c with
                | Some s => GFrozen s
                | None => if lc_is_mirror c then GMirror else GLog
                end.
Proof.
  unfold getter_of. destruct (lc_frozen_sth c) as [s|], (lc_is_mirror c); vm_compute; reflexivity.
Qed.

Lemma frozen_serves_only_frozen_lemma c e inst s backend storage sign_ok :
  set_up_instance c e = Some inst -> lc_frozen_sth c = Some s ->
  get_sth (i_getter inst) backend storage sign_ok =
    {| r_result := SthOk (wrapu (sth_tree_size s)) (wrapu (sth_timestamp s));
       r_backend_calls := 0; r_storage_arg := None |}.
Proof.
  intros H Hs. apply set_up_instance_some in H. destruct H as [_ ->].
  rewrite getter_of_spec, Hs. reflexivity.
Qed.

Lemma wrap64_le_nonneg n : 0 <= n -> wrap64 n <= n.
Proof.
  intros Hn. unfold wrap64.
  assert (0 < two64) by (rewrite two64_eq; pose proof two63_pos; lia).
  pose proof two63_pos.
  assert ((n + two63) mod two64 <= n + two63) by (apply Z.mod_le; lia).
  lia.
Qed.

Lemma mirror_sth_le_backend_lemma c e inst n t storage sign_ok sz ts :
  set_up_instance c e = Some inst ->
  lc_is_mirror c = true -> lc_frozen_sth c = None ->
  storage_contract storage -> 0 <= n ->
  r_result (get_sth (i_getter inst) (BRoot n t) storage sign_ok) = SthOk sz ts ->
  0 <= sz <= n.
Proof.
  intros H Hm Hf Hc Hn. apply set_up_instance_some in H. destruct H as [_ ->].
  rewrite getter_of_spec, Hf, Hm. simpl.
  destruct (storage (wrap64 n)) as [sz' ts'| |] eqn:Es; intros Hr; inversion Hr; subst.
  apply Hc in Es. pose proof (wrap64_le_nonneg n Hn). lia.
Qed.

(* a non-frozen mirror consults the backend exactly once and hands its tree size to the storage *)
Lemma mirror_asks_storage_with_backend_size c e inst n t storage sign_ok :
  set_up_instance c e = Some inst -> lc_is_mirror c = true -> lc_frozen_sth c = None ->
  in_i64 n ->
  r_storage_arg (get_sth (i_getter inst) (BRoot n t) storage sign_ok) = Some n /\
  r_backend_calls (get_sth (i_getter inst) (BRoot n t) storage sign_ok) = 1.
Proof.
  intros H Hm Hf Hn. apply set_up_instance_some in H. destruct H as [_ ->].
  rewrite getter_of_spec, Hf, Hm. simpl. rewrite (wrap64_id n Hn). auto.
Qed.

(* an ordinary log signs what the backend reports *)
Lemma log_serves_backend_root c e inst n t storage :
  set_up_instance c e = Some inst -> lc_is_mirror c = false -> lc_frozen_sth c = None ->
  r_result (get_sth (i_getter inst) (BRoot n t) storage true) = SthOk n (t / 1000 / 1000).
Proof.
  intros H Hm Hf. apply set_up_instance_some in H. destruct H as [_ ->].
  rewrite getter_of_spec, Hf, Hm. reflexivity.
Qed.

(* setUpLogInfo refuses what ValidateLogConfig does not look at *)
Lemma set_up_requires c e inst :
  set_up_instance c e = Some inst ->
  (lc_is_mirror c = false -> 0 < lc_n_roots c \/ lc_n_roots c < 0) /\
  se_roots_load_ok e = true /\
  (lc_is_mirror c = false -> se_signer_ok e = true /\ (lc_public_key c <> None -> se_key_match e = true)) /\
  In (lc_storage_backend c) setup_storage_arms.
Proof.
  unfold set_up_instance, c_roots_missing.
  repeat match goal with |- context [if ?b then None else _] => let E := fresh "E" in destruct b eqn:E end;
    try discriminate.
  intros _.
  match goal with H : negb (mem_Z _ _) = false |- _ => apply negb_false_iff, mem_Z_In in H; rename H into Hin end.
  destruct (lc_is_mirror c), (se_roots_load_ok e), (se_signer_ok e), (se_key_match e), (lc_public_key c);
    simpl in *; repeat split; intros; try congruence; try lia; try exact Hin.
Qed.

(* the honest storage honours the MirrorSTHStorage contract (non-vacuity of the hypothesis) *)
Lemma best_le_bound max sths : forall best,
  (forall b t, best = Some (b, t) -> 0 <= b <= max) ->
  Forall (fun p => 0 <= fst p) sths ->
  forall b t, best_le max best sths = Some (b, t) -> 0 <= b <= max.
Proof.
  induction sths as [|[sz ts] r IH]; intros best Hb Hf b t; simpl.
  - intros H. exact (Hb b t H).
  - inversion Hf as [|? ? Hsz Hr]; subst. simpl in Hsz. apply IH; [| exact Hr].
    intros b' t'. destruct (sz <=? max) eqn:E; simpl.
    + destruct (match best with Some (b0, _) => b0 <? sz | None => true end).
      * intros H; inversion H; subst. lia.
      * apply Hb.
    + apply Hb.
Qed.

Lemma honest_storage_meets_contract sths :
  Forall (fun p => 0 <= fst p) sths -> storage_contract (honest_storage sths).
Proof.
  intros Hf max sz ts. unfold honest_storage.
  destruct (best_le max None sths) as [[b t]|] eqn:E; [| discriminate].
  intros H; inversion H; subst. eapply best_le_bound; [| exact Hf | exact E]. intros ? ? H0; discriminate.
Qed.

Lemma getter_matches_config_lemma c e inst :
  set_up_instance c e = Some inst ->
  i_getter inst = match lc_frozen_sth c with
                  | Some s => GFrozen s
                  | None => if lc_is_mirror c then GMirror else GLog
                  end.
Proof. intros H. apply set_up_instance_some in H. destruct H as [_ ->]. apply getter_of_spec. Qed.
