(* C08: backend faults are refused (never 200, never an SCT), bad requests are rejected before
   any backend call, statuses reflect causes.  Lemmas per handler, then lifted through ServeHTTP. *)
From Coq Require Import ZArith Bool List Lia ZifyBool.
From V Require Import Base.GoInt Base.Bytes gen.HttpStatus gen.GetEntries gen.HandlerConds
  CTFE.RangeProofs CTFE.HandlersModel CTFE.HandlersSpec CTFE.HandlersProofs.
Import ListNotations.
Open Scope Z_scope.

(* ------------------------------------------------------------------ helpers *)

Lemma wrapu_param z : in_i64 z -> 0 <= z -> wrapu z = z.
Proof.
  unfold in_i64. rewrite max_i64_eq. intros [_ H] H0. apply wrapu_id. unfold in_u64.
  rewrite two64_eq. pose proof two63_pos. lia.
Qed.

Lemma consistency_range_some f0 s0 f s :
  consistency_range f0 s0 = Some (f, s) -> f = f0 /\ s = s0 /\ 0 <= f0 <= s0.
Proof.
  unfold consistency_range. destruct ((f0 <? 0) || (s0 <? 0)) eqn:A; [discriminate|].
  destruct (s0 <? f0) eqn:B; [discriminate|]. intros H; inversion H; subst. lia.
Qed.

Lemma consistency_range_none f0 s0 : f0 < 0 \/ s0 < 0 \/ s0 < f0 -> consistency_range f0 s0 = None.
Proof.
  intros H. unfold consistency_range. destruct ((f0 <? 0) || (s0 <? 0)) eqn:A; [reflexivity|].
  destruct (s0 <? f0) eqn:B; [reflexivity|]. lia.
Qed.

Lemma eap_params_some li0 ts0 li ts :
  eap_params li0 ts0 = Some (li, ts) -> li = li0 /\ ts = ts0 /\ 0 <= li0 < ts0.
Proof.
  unfold eap_params. destruct (ts0 <=? 0) eqn:A; [discriminate|]. destruct (li0 <? 0) eqn:B; [discriminate|].
  destruct (li0 >=? ts0) eqn:C; [discriminate|]. intros H; inversion H; subst. lia.
Qed.

Lemma eap_params_none li0 ts0 : ts0 <= 0 \/ li0 < 0 \/ li0 >= ts0 -> eap_params li0 ts0 = None.
Proof.
  intros H. unfold eap_params. destruct (ts0 <=? 0) eqn:A; [reflexivity|]. destruct (li0 <? 0) eqn:B; [reflexivity|].
  destruct (li0 >=? ts0) eqn:C; [reflexivity|]. lia.
Qed.

Lemma parse_range_start s0 e0 maxr al s en : parse_range s0 e0 maxr al = Some (s, en) -> s = s0 /\ 0 <= s0.
Proof.
  unfold parse_range. destruct ((s0 <? 0) || (e0 <? 0)) eqn:A; [discriminate|].
  destruct (s0 >? e0) eqn:B; [discriminate|]. intros H; inversion H; subst. lia.
Qed.

Lemma parse_range_bounds s0 e0 maxr al s en : parse_range s0 e0 maxr al = Some (s, en) -> 0 <= s0 <= e0 /\ 0 <= e0.
Proof.
  unfold parse_range. destruct ((s0 <? 0) || (e0 <? 0)) eqn:A; [discriminate|].
  destruct (s0 >? e0) eqn:B; [discriminate|]. intros _. lia.
Qed.

Lemma parse_range_none s0 e0 maxr al : s0 < 0 \/ e0 < 0 \/ s0 > e0 -> parse_range s0 e0 maxr al = None.
Proof.
  intros H. unfold parse_range. destruct ((s0 <? 0) || (e0 <? 0)) eqn:A; [reflexivity|].
  destruct (s0 >? e0) eqn:B; [reflexivity|]. lia.
Qed.

Lemma existsb_bad_hash lens : hashes_bad lens -> existsb audit_hash_bad lens = true.
Proof.
  intros [h [Hin Hne]]. apply existsb_exists. exists h. split; [exact Hin|]. unfold audit_hash_bad. lia.
Qed.

Lemma existsb_bad_hash_inv lens : existsb audit_hash_bad lens = true -> hashes_bad lens.
Proof.
  intros H. apply existsb_exists in H. destruct H as [h [Hin Hb]]. exists h. split; [exact Hin|].
  unfold audit_hash_bad in Hb. lia.
Qed.

Lemma any_index_bad_spec start ls : forall i,
  (exists k l, nth_error ls k = Some l /\ fst l <> start + (i + Z.of_nat k)) ->
  in_i64 start -> 0 <= start -> 0 <= i -> start + i + Z.of_nat (length ls) <= max_i64 + 1 ->
  any_index_bad start i ls = true.
Proof.
  induction ls as [|l r IH]; intros i [k [x [Hn Hne]]] Hs Hs0 Hi Hb.
  - destruct k; discriminate.
  - cbn [any_index_bad]. destruct k as [|k].
    + cbn in Hn. inversion Hn; subst x. apply orb_true_iff. left.
      unfold entries_index_bad, add64. rewrite wrap64_id.
      * cbn in Hne. lia.
      * unfold in_i64 in *. cbn [length] in Hb. lia.
    + apply orb_true_iff. right. apply IH.
      * exists k, x. split; [exact Hn|]. lia.
      * exact Hs.
      * exact Hs0.
      * lia.
      * cbn [length] in Hb. lia.
Qed.

Lemma existsb_unfixable ls : some_unfixable ls -> existsb (fun l : Z * bool => negb (snd l)) ls = true.
Proof. intros [l [Hin Hs]]. apply existsb_exists. exists l. rewrite Hs. auto. Qed.

Lemma existsb_all_fixable ls : all_fixable ls -> existsb (fun l : Z * bool => negb (snd l)) ls = false.
Proof.
  intros H. destruct (existsb _ ls) eqn:E; [|reflexivity]. apply existsb_exists in E.
  destruct E as [l [Hin Hn]]. rewrite (H l Hin) in Hn. discriminate.
Qed.

Ltac early := cbn; intros Hc; exfalso; apply Hc; reflexivity.
Ltac refuse := cbn; intros _; repeat split; try reflexivity; try lia.

(* ------------------------------------------------------------------ faults are refused *)

Lemma add_chain_refuses cfg e b be : sane_mapper cfg -> queue_faulty be ->
  hret_refuses (add_chain current_guards cfg e b be).
Proof.
  intros Hm Hf. unfold add_chain, current_guards, queue_rsp_missing, queue_leaf_missing; cbn.
  destruct b; try early.
  destruct (c_indirect cfg && negb (store_ok e)); [early|].
  destruct be as [f|q]; cbn in Hf.
  - pose proof (to_status_range cfg _ Hm (err_of_fault_ok f Hf)). refuse.
  - destruct q as [| | |d]; cbn; try refuse. destruct d; try refuse. contradiction.
Qed.

Lemma signed_log_root_faulty be : (match be with RpcErr f => fault_ok f | Reply (RootOk _ h) => h <> 32 | Reply _ => True end) ->
  exists ec, signed_log_root be = Some ec /\ err_ok ec.
Proof.
  unfold signed_log_root, sth_root_missing, sth_hash_size_bad. destruct be as [f|r]; intros H.
  - eexists; split; [reflexivity|apply err_of_fault_ok; exact H].
  - destruct r; cbn; try (exists EInternal; split; [reflexivity|exact I]).
    destruct (negb (hashlen =? 32)) eqn:E; [exists EInternal; split; [reflexivity|exact I]|]. lia.
Qed.

Lemma signed_log_root_ok_inv be : signed_log_root be = None -> exists n, be = Reply (RootOk n 32).
Proof.
  unfold signed_log_root, sth_root_missing, sth_hash_size_bad. destruct be as [f|r]; [discriminate|].
  destruct r; cbn; try discriminate. destruct (negb (hashlen =? 32)) eqn:E; [discriminate|].
  intros _. exists size. f_equal. f_equal. lia.
Qed.

Lemma get_sth_refuses cfg e be mir : sane_mapper cfg -> sth_faulty cfg be mir ->
  hret_refuses (get_sth cfg e be mir).
Proof.
  intros Hm Hf. unfold get_sth. destruct (c_sth cfg) eqn:Emode.
  - (* log *)
    destruct (signed_log_root be) as [ec|] eqn:E.
    + assert (err_ok ec).
      { unfold signed_log_root, sth_root_missing, sth_hash_size_bad in E. destruct be as [f|r].
        - inversion E. apply err_of_fault_ok. exact Hf.
        - destruct r; cbn in E; inversion E; try exact I. destruct (negb (hashlen =? 32)); inversion E; exact I. }
      pose proof (to_status_range cfg _ Hm H). refuse.
    + apply signed_log_root_ok_inv in E. destruct E as [n ->]. cbn in Hf. destruct Hf as [Hf|[Hf _]]; [lia|congruence].
  - (* mirror *)
    destruct (signed_log_root be) as [ec|] eqn:E.
    + assert (err_ok ec).
      { unfold signed_log_root, sth_root_missing, sth_hash_size_bad in E. destruct be as [f|r].
        - inversion E. apply err_of_fault_ok. exact Hf.
        - destruct r; cbn in E; inversion E; try exact I. destruct (negb (hashlen =? 32)); inversion E; exact I. }
      pose proof (to_status_range cfg _ Hm H). refuse.
    + apply signed_log_root_ok_inv in E. destruct E as [n ->]. cbn in Hf. destruct Hf as [Hf|[_ Hf]]; [lia|].
      destruct mir as [f|u]; [|contradiction].
      pose proof (to_status_range cfg _ Hm (err_of_fault_ok f Hf)). refuse.
  - (* frozen: no backend call at all *)
    unfold finish. destruct (write_ok e); early.
Qed.

Lemma get_sth_consistency_refuses cfg e pf ps be s : sane_mapper cfg ->
  parse_int64 ps = Some s -> cons_faulty s be ->
  hret_refuses (get_sth_consistency current_guards cfg e pf ps be).
Proof.
  intros Hm Hp Hf. unfold get_sth_consistency, current_guards, consistency_proof_missing; cbn.
  destruct ((blen pf =? 0) || (blen ps =? 0)); [early|].
  destruct (parse_int64 pf) as [f0|]; [|early]. rewrite Hp.
  destruct (consistency_range f0 s) as [[f s']|] eqn:Er; [|early].
  apply consistency_range_some in Er. destruct Er as [-> [-> Hr]].
  destruct (consistency_needs_backend f0); [|unfold finish; destruct (write_ok e); early].
  destruct be as [fl|r]; cbn in Hf.
  - pose proof (to_status_range cfg _ Hm (err_of_fault_ok fl Hf)). refuse.
  - destruct (cr_root r) as [| |n h] eqn:Eroot; cbn; try refuse.
    unfold consistency_tree_too_small. rewrite (wrapu_param s (parse_int64_range _ _ Hp)) by lia.
    destruct (n <? s) eqn:En; [refuse|].
    destruct Hf as [Hf|[Hf|Hf]]; [lia| |].
    + rewrite Hf. cbn. refuse.
    + destruct Hf as [lens [-> Hb]]. cbn. rewrite (existsb_bad_hash _ Hb). refuse.
Qed.

Lemma get_proof_by_hash_refuses cfg e h pts be ts : sane_mapper cfg ->
  parse_int64 pts = Some ts -> incl_faulty ts be ->
  hret_refuses (get_proof_by_hash cfg e h pts be).
Proof.
  intros Hm Hp Hf. unfold get_proof_by_hash.
  destruct (proof_hash_param_empty (h_len h)); [early|].
  destruct (negb (h_b64ok h)); [early|]. rewrite Hp. cbn [is_none oget].
  unfold proof_tree_size_param_bad. cbn [orb].
  destruct (ts <? 1) eqn:Ets; [early|].
  destruct be as [fl|r]; cbn in Hf.
  - pose proof (to_status_range cfg _ Hm (err_of_fault_ok fl Hf)). refuse.
  - destruct (ir_root r) as [| |n hl] eqn:Eroot; cbn; try refuse.
    unfold proof_tree_too_small. rewrite (wrapu_param ts (parse_int64_range _ _ Hp)) by lia.
    destruct (n <? ts) eqn:En; [refuse|].
    destruct Hf as [Hf|[Hf|Hf]]; [lia| |].
    + rewrite Hf. cbn. refuse.
    + destruct Hf as [p [rest [-> Hb]]]. unfold proof_absent. cbn [length].
      destruct (Z.of_nat (S (length rest)) =? 0) eqn:E0; [refuse|].
      rewrite (existsb_bad_hash _ Hb). refuse.
Qed.

Lemma get_entries_refuses cfg e ps pe be s0 e0 s en : sane_mapper cfg -> 1 <= c_maxr cfg <= max_i64 ->
  parse_int64 ps = Some s0 -> parse_int64 pe = Some e0 ->
  parse_range s0 e0 (c_maxr cfg) (c_align cfg) = Some (s, en) ->
  leaves_faulty cfg s (entries_count s en) be ->
  hret_refuses (get_entries cfg e ps pe be).
Proof.
  intros Hm Hmax Hs He Hr Hf. unfold get_entries. rewrite Hs, He, Hr.
  destruct (parse_range_start _ _ _ _ _ _ Hr) as [-> Hs0].
  pose proof (parse_int64_range _ _ Hs) as Hin.
  destruct be as [fl|r]; cbn in Hf.
  - pose proof (to_status_range cfg _ Hm (err_of_fault_ok fl Hf)). refuse.
  - destruct (c_indirect cfg && existsb (fun l => negb (snd l)) (lr_leaves r)) eqn:Efix; [refuse|].
    destruct (lr_root r) as [| |n hl] eqn:Eroot; cbn; try refuse.
    unfold entries_tree_too_small. rewrite (wrapu_param s0 Hin) by lia.
    destruct (n <=? s0) eqn:En; [refuse|].
    unfold entries_too_many.
    destruct (Z.of_nat (length (lr_leaves r)) >? entries_count s0 en) eqn:Ecnt; [refuse|].
    destruct Hf as [Hf|[Hf|[Hf|Hf]]]; [lia|lia| |].
    + (* mis-indexed: the index check fires; start+i cannot wrap because len <= count = en - start + 1 <= MaxInt64 + 1 - start *)
      destruct (any_index_bad s0 0 (lr_leaves r)) eqn:Eidx; [refuse|].
      exfalso.
      destruct (parse_range_bounds _ _ _ _ _ _ Hr) as [Hb1 Hb2].
      pose proof (parse_int64_range _ _ He) as Hine. unfold in_i64 in Hine.
      destruct (range_contract_lemma s0 e0 (c_maxr cfg) (c_align cfg) ltac:(lia) ltac:(lia) Hmax)
        as [e' [Hpr [Hle [Hcnt _]]]].
      rewrite Hpr in Hr. inversion Hr. subst e'. rewrite Hcnt in Ecnt.
      rewrite any_index_bad_spec in Eidx; [discriminate| | exact Hin | exact Hs0 | lia | lia].
      destruct Hf as [i [l [Hn Hne]]]. exists i, l. split; [exact Hn|]. lia.
    + destruct Hf as [Hi Hu]. rewrite Hi, (existsb_unfixable _ Hu) in Efix. discriminate.
Qed.

Lemma get_entry_and_proof_refuses cfg e pli pts be ts : sane_mapper cfg ->
  parse_int64 pts = Some ts -> eap_faulty cfg ts be ->
  hret_refuses (get_entry_and_proof current_guards cfg e pli pts be).
Proof.
  intros Hm Hp Hf. unfold get_entry_and_proof, fix_log_leaf, current_guards, fixleaf_nil_guard; cbn.
  destruct (parse_int64 pli) as [li0|]; [|early]. rewrite Hp.
  destruct (eap_params li0 ts) as [[li ts']|] eqn:Er; [|early].
  apply eap_params_some in Er. destruct Er as [-> [-> Hr]].
  destruct be as [fl|r]; cbn in Hf.
  - pose proof (to_status_range cfg _ Hm (err_of_fault_ok fl Hf)). refuse.
  - destruct (c_indirect cfg) eqn:Ei.
    + destruct (er_leaf r) as [|vl fx] eqn:El.
      * destruct (er_root r) as [| |n hl] eqn:Eroot; cbn; try refuse.
        destruct (eap_tree_too_small n ts); [refuse|]. unfold eap_reply_incomplete. cbn. refuse.
      * destruct fx; [|refuse].
        destruct (er_root r) as [| |n hl] eqn:Eroot; cbn; try refuse.
        unfold eap_tree_too_small. rewrite (wrapu_param ts (parse_int64_range _ _ Hp)) by lia.
        destruct (n <? ts) eqn:En; [refuse|].
        unfold eap_reply_incomplete, eap_proof_empty. cbn.
        destruct Hf as [Hf|[Hf|[Hf|[Hf|[Hf|Hf]]]]]; try lia; try discriminate.
        -- destruct Hf as [fx Hf]. inversion Hf. subst vl. cbn. refuse.
        -- rewrite Hf. cbn. destruct (vl =? 0); refuse.
        -- destruct Hf as [Hts ->]. cbn. destruct (vl =? 0); cbn; [refuse|].
           destruct (ts >? 1) eqn:E1; [cbn; refuse|lia].
        -- destruct Hf as [_ [n' Hf]]. discriminate.
    + destruct (er_root r) as [| |n hl] eqn:Eroot; cbn; try refuse.
      unfold eap_tree_too_small. rewrite (wrapu_param ts (parse_int64_range _ _ Hp)) by lia.
      destruct (n <? ts) eqn:En; [refuse|].
      unfold eap_reply_incomplete, eap_proof_empty.
      destruct Hf as [Hf|[Hf|[Hf|[Hf|[Hf|Hf]]]]]; try lia.
      * rewrite Hf. cbn. refuse.
      * destruct Hf as [fx ->]. cbn. refuse.
      * rewrite Hf. cbn. destruct (er_leaf r) as [|vl fx]; cbn; [refuse|]. destruct (vl =? 0); refuse.
      * destruct Hf as [Hts ->]. destruct (er_leaf r) as [|vl fx]; cbn; [refuse|].
        destruct (vl =? 0); cbn; [refuse|]. destruct (ts >? 1) eqn:E1; [cbn; refuse|lia].
Qed.

Lemma handle_refuses cfg e r b : sane_mapper cfg -> 1 <= c_maxr cfg <= max_i64 -> faulty cfg r b ->
  hret_refuses (handle current_guards cfg e r b).
Proof.
  intros Hm Hmax Hf. destruct r; cbn in *.
  - apply add_chain_refuses; assumption.
  - apply get_sth_refuses; assumption.
  - destruct (parse_int64 second) eqn:E; [|contradiction]. eapply get_sth_consistency_refuses; eauto.
  - destruct (parse_int64 tree_size) eqn:E; [|contradiction]. eapply get_proof_by_hash_refuses; eauto.
  - destruct (parse_int64 start) eqn:E1; [|contradiction]. destruct (parse_int64 end_) eqn:E2; [|contradiction].
    destruct (parse_range z z0 (c_maxr cfg) (c_align cfg)) as [[s en]|] eqn:E3; [|contradiction].
    eapply get_entries_refuses; eauto.
  - contradiction.
  - destruct (parse_int64 tree_size) eqn:E; [|contradiction]. eapply get_entry_and_proof_refuses; eauto.
Qed.

(* lifted through ServeHTTP *)
Lemma serve_fault_never_200 cfg e m fo r b : sane_mapper cfg -> 1 <= c_maxr cfg <= max_i64 -> faulty cfg r b ->
  match serve current_guards cfg e m fo r b with
  | Panic => False
  | Done resp => calls resp <> [] -> refused resp
  end.
Proof.
  intros Hm Hmax Hf. unfold serve.
  destruct (negb (meth_eqb m (method_of (endpoint_of r)))); [cbn; intros C; exfalso; apply C; reflexivity|].
  destruct (meth_eqb m MGet && negb fo); [cbn; intros C; exfalso; apply C; reflexivity|].
  pose proof (handle_refuses cfg e r b Hm Hmax Hf) as H.
  destruct (handle current_guards cfg e r b) as [|st err sct cs]; [exact H|].
  cbn in H. destruct err.
  - cbn. intros Hc. destruct (H Hc) as [_ [Hr Hs]]. unfold refused; cbn. repeat split; try lia; assumption.
  - destruct (serve_guard_non200 st); cbn; intros Hc; destruct (H Hc) as [C _]; discriminate.
Qed.
