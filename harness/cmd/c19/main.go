// C19 correspondence harness: the real witness (verifhooks/witness re-export, real SQLite, real
// ECDSA log and witness keys) is driven with histories of Update / GetSTH / GetLogs over a
// family of honest and forked Merkle trees; after every step the response class, the body and
// the held STH are recorded and compared (a) with the Coq model (check in WitnessCase.v) and
// (b) with the property's own sentences (direct oracle, written against the observed history
// and the known leaves only).  Restart histories (restart.go) cut a history into epochs, each begun
// by witness.New over the database the previous one left, under the same or another set of
// configured logs.  Storage-fault histories (fault.go) make one statement of a chosen Update's transaction
// fail (BEGIN / SELECT / INSERT / COMMIT) and go on.  Also: transparency-dev/merkle's VerifyConsistency against the
// recursive RFC 6962 verifier of Merkle.v, and the library's tree against mth/cproof/path.
package main

import (
	"flag"
	"fmt"
	"io"
	"os"
	"sync/atomic"

	"k8s.io/klog/v2"

	"verif/harness/lib"
)

const header = `From Coq Require Import String.
From Coq Require Import NArith List Bool. Import ListNotations.
From Coq.Strings Require Import Byte.
From V Require Import Base.Bytes Merkle.Merkle Witness.WitnessModel Witness.WitnessCase.
Local Open Scope N_scope.
`

func main() {
	flag.Parse()
	kf := flag.NewFlagSet("klog", flag.ContinueOnError)
	klog.InitFlags(kf)
	kf.Set("logtostderr", "false")
	kf.Set("alsologtostderr", "false")
	kf.Set("stderrthreshold", "FATAL")
	klog.SetOutput(io.Discard) // the witness logs "Rollback(): ... already been committed" on every success
	r := lib.Rand()
	w := lib.NewWriter(header, 14)
	defer w.Guard()
	h := newHarness(r, w)
	defer os.RemoveAll(h.dbdir)

	h.findingReplays()
	h.forgedProofCases(lib.Count(3, 60))
	h.wrongCountCases(lib.Count(2, 80))
	h.spellingCases()
	h.restartCases(lib.Count(30, 200))
	h.faultCases(lib.Count(24, 300))
	nSeq := lib.Count(140, 1500)
	for i := 0; i < nSeq && atomic.LoadInt32(&hangs) < 3; i++ {
		h.sequentialCase(i)
	}
	nConc := lib.Count(24, 300)
	for i := 0; i < nConc && atomic.LoadInt32(&hangs) < 6; i++ {
		h.concurrentCase(i)
	}
	nVer := lib.Count(400, 6000)
	for i := 0; i < nVer; i++ {
		h.verifyCase(i)
	}
	nTree := lib.Count(40, 600)
	for i := 0; i < nTree; i++ {
		h.treeCase(i)
	}
	w.Close()
	fmt.Printf("c19: wrote %d cases\n", w.Len())
}
