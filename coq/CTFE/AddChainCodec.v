(* C01: codec facts the handler model needs, over the GENERATED descriptors:
   a successful tls.Marshal of a leaf / chain / SCT value yields exactly the RFC bytes AND the
   field values were in the RFC's ranges (so the theorems about issued SCTs need no size
   hypotheses: whatever was issued was in range); the leaf decodes back to the value it encodes;
   the signature input of a decoded leaf is the RFC signature input. *)
From Coq Require Import String NArith ZArith List Bool Lia PeanoNat.
From V Require Import Base.Bytes TLS.TlsModel TLS.TlsLemmas TLS.TlsRoundTripA gen.CtTypes
  CT.Rfc6962Spec CT.Rfc6962Proofs CT.CtFuncs CT.CtFuncsProofs CTFE.AddChainModel CTFE.AddChainSpec.
Import ListNotations.
Local Open Scope N_scope.

Arguments check : simpl never.
Arguments low_bytes : simpl never.
Arguments be_enc : simpl never.
Arguments N.of_nat : simpl never.
Arguments N.to_nat : simpl never.
Arguments N.pow : simpl never.
Arguments N.modulo : simpl never.
Arguments app : simpl never.

Ltac checks Hm :=
  repeat match type of Hm with
  | context [check ?i ?n] =>
      let E := fresh "E" in
      destruct (check i n) eqn:E; [apply check_true in E; cbn [f_count f_min f_max] in E | try discriminate Hm]
  end.

(* ---------------- MerkleTreeLeaf ---------------- *)

Lemma ts_ok_millis now : ts_ok (time_millis now).
Proof.
  unfold ts_ok, time_millis.
  pose proof (Z.mod_pos_bound (Z.quot now millis_per_nano) 18446744073709551616 ltac:(lia)) as Hb.
  lia.
Qed.

Lemma leaf_marshal_inv ts e ext b : ts_ok ts ->
  marshal gen_MerkleTreeLeaf None (embed_leaf ts e ext) = Ok b ->
  entry_ok e /\ Rfc6962Proofs.ext_ok ext /\ b = enc_leaf ts e ext.
Proof.
  intros Hts Hm.
  assert (Hr : entry_ok e /\ Rfc6962Proofs.ext_ok ext).
  { destruct e as [c|h t]; cbn in Hm.
    - checks Hm. unfold entry_ok, Rfc6962Proofs.ext_ok, len. split; lia.
    - destruct (Nat.eqb_spec (length h) (N.to_nat 32)) as [Hh|]; [|discriminate Hm].
      checks Hm. unfold entry_ok, Rfc6962Proofs.ext_ok, len. change (N.to_nat 32) with 32%nat in Hh. repeat split; try lia. }
  destruct Hr as [He Hx]. repeat split; auto.
  rewrite (gen_leaf_marshal ts e ext Hts He Hx) in Hm. congruence.
Qed.

Lemma enc_leaf_length ts e ext :
  N.of_nat (length (enc_leaf ts e ext)) =
  14 + len ext + match e with X509E c => 3 + len c | PrecertE h t => len h + 3 + len t end.
Proof.
  unfold enc_leaf, opaque16, len. destruct e; cbn [enc_entry entry_type];
    unfold opaque24, u8, u16, u24, u64, len; repeat rewrite app_length; repeat rewrite be_enc_length; lia.
Qed.

Lemma leaf_short ts e ext : entry_ok e -> Rfc6962Proofs.ext_ok ext -> short (enc_leaf ts e ext).
Proof.
  intros He Hx. unfold short, two64N. rewrite enc_leaf_length.
  unfold Rfc6962Proofs.ext_ok in Hx. destruct e as [c|h t]; cbn in He.
  - lia.
  - destruct He as [Hh Ht]. unfold len in *. lia.
Qed.

Lemma leaf_wt ts e ext : ts_ok ts -> entry_ok e -> wt gen_MerkleTreeLeaf (embed_leaf ts e ext).
Proof.
  unfold ts_ok. intros Hts He. destruct e as [c|h t]; cbn in He |- *.
  - repeat split; auto; lia.
  - destruct He as [Hh _]. change (N.to_nat 32) with 32%nat. repeat split; auto; lia.
Qed.

Lemma leaf_sized : sized gen_MerkleTreeLeaf None = true.
Proof. vm_compute. reflexivity. Qed.

(* tls.Unmarshal of the stored bytes, with the "no trailing data" check of addChainInternal *)
Lemma leaf_decodes ts e ext : ts_ok ts -> entry_ok e -> Rfc6962Proofs.ext_ok ext ->
  complete gen_MerkleTreeLeaf (enc_leaf ts e ext) = Ok (embed_leaf ts e ext).
Proof.
  intros Hts He Hx. unfold complete.
  pose proof (proj1 roundtripA gen_MerkleTreeLeaf None (embed_leaf ts e ext) (enc_leaf ts e ext)
                leaf_sized (gen_leaf_marshal ts e ext Hts He Hx) (leaf_short ts e ext He Hx) (leaf_wt ts e ext Hts He) []) as Hp.
  rewrite app_nil_r in Hp. rewrite Hp. reflexivity.
Qed.

(* ---------------- the SCT signature input of a decoded leaf ---------------- *)
Arguments serialize_sct_siginput : simpl never.

Lemma siginput_of_leaf ts e ext : ts_ok ts -> entry_ok e -> Rfc6962Proofs.ext_ok ext ->
  sct_signature_input (embed_leaf ts e ext) = Ok (ts, ext, enc_sct_siginput ts e ext).
Proof.
  intros Hts He Hx. pose proof (sct_siginput_is_rfc ts e ext Hts He Hx) as Hs.
  destruct e as [c|h t]; unfold sct_signature_input; cbn; cbn in Hs; rewrite Hs; reflexivity.
Qed.

(* ---------------- extra data ---------------- *)

Lemma opaque24_nonempty d : opaque24 d <> [].
Proof.
  unfold opaque24, u24. intros Hn. apply (f_equal (@length _)) in Hn.
  rewrite app_length, be_enc_length in Hn. cbn in Hn. lia.
Qed.

Lemma asn1cert_marshal_inv d b :
  marshal gen_ASN1Cert None (asn1cert d) = Ok b -> 1 <= len d <= 16777215 /\ b = opaque24 d.
Proof.
  intros Hm. cbn in Hm. checks Hm. split; [unfold len; lia|].
  inversion Hm. unfold opaque24, u24, len. rewrite low_bytes_small by (pow_facts; lia).
  change (N.to_nat 3) with 3%nat. rewrite app_nil_r. reflexivity.
Qed.

Lemma cert_list_marshal_inv ders inner :
  marshal_list (marshal gen_ASN1Cert None) (map asn1cert ders) = Ok inner ->
  Forall (fun d => 1 <= len d <= 16777215) ders /\ inner = concat (map opaque24 ders).
Proof.
  revert inner. induction ders as [|d r IH]; intros inner Hm.
  - cbn in Hm. inversion Hm. split; [constructor|reflexivity].
  - cbn [map marshal_list] in Hm.
    destruct (marshal gen_ASN1Cert None (asn1cert d)) as [bd| | | |] eqn:Ed; try discriminate Hm.
    apply asn1cert_marshal_inv in Ed. destruct Ed as [Hd ->].
    destruct (opaque24 d) as [|x xs] eqn:Eo; [exfalso; exact (opaque24_nonempty d Eo)|].
    destruct (marshal_list (marshal gen_ASN1Cert None) (map asn1cert r)) as [br| | | |] eqn:Er; try discriminate Hm.
    destruct (IH br eq_refl) as [Hr ->]. inversion Hm. split; [constructor; assumption|].
    cbn [map concat]. rewrite Eo. reflexivity.
Qed.

Lemma cert_chain_marshal_inv ders b :
  marshal gen_CertificateChain None (VStruct [Some (VList (map asn1cert ders))]) = Ok b ->
  chain_in_range ders /\ b = enc_cert_chain ders.
Proof.
  intros Hm.
  change gen_CertificateChain
    with (TStruct (FCons "Entries"%string [CMinlen 0; CMaxlen 16777215] false (TVec gen_ASN1Cert) FNil)) in Hm.
  remember gen_ASN1Cert as elt eqn:Helt in Hm. cbn in Hm. subst elt.
  destruct (marshal_list (marshal gen_ASN1Cert None) (map asn1cert ders)) as [inner| | | |] eqn:El; try discriminate Hm.
  apply cert_list_marshal_inv in El. destruct El as [Hf ->].
  set (inner := concat (map opaque24 ders)) in *.
  checks Hm. inversion Hm. unfold chain_in_range, enc_cert_chain. fold inner. unfold Der.len.
  split; [split; [exact Hf|lia]|].
  unfold opaque24, u24, len. rewrite low_bytes_small by (pow_facts; lia). change (N.to_nat 3) with 3%nat.
  rewrite app_nil_r. reflexivity.
Qed.

Lemma precert_chain_marshal_inv leaf ders b :
  marshal gen_PrecertChainEntry None (VStruct [Some (asn1cert leaf); Some (VList (map asn1cert ders))]) = Ok b ->
  1 <= len leaf <= 16777215 /\ chain_in_range ders /\ b = enc_precert_chain_entry leaf ders.
Proof.
  intros Hm.
  change gen_PrecertChainEntry
    with (TStruct (FCons "PreCertificate"%string [CMinlen 1; CMaxlen 16777215] false gen_ASN1Cert
                  (FCons "CertificateChain"%string [CMinlen 0; CMaxlen 16777215] false (TVec gen_ASN1Cert) FNil))) in Hm.
  unfold gen_ASN1Cert at 1 in Hm.
  remember gen_ASN1Cert as elt eqn:Helt in Hm. cbn in Hm. subst elt.
  destruct (check _ (N.of_nat (length leaf))) eqn:E0; [apply check_true in E0; cbn [f_count f_min f_max] in E0|discriminate Hm].
  destruct (marshal_list (marshal gen_ASN1Cert None) (map asn1cert ders)) as [inner| | | |] eqn:El; try discriminate Hm.
  apply cert_list_marshal_inv in El. destruct El as [Hf ->].
  set (inner := concat (map opaque24 ders)) in *.
  checks Hm. inversion Hm. unfold chain_in_range, enc_precert_chain_entry, enc_cert_chain. fold inner. unfold Der.len.
  split; [unfold len; lia|]. split; [split; [exact Hf|lia]|].
  unfold opaque24, u24, len. repeat rewrite low_bytes_small by (pow_facts; lia). change (N.to_nat 3) with 3%nat.
  rewrite ?app_nil_r, <- ?app_assoc. reflexivity.
Qed.

(* ---------------- the SCT handed to RequestLog.IssueSCT ---------------- *)

Lemma sct_marshal_inv id ts ext halg salg sig b : ts_ok ts ->
  marshal gen_SignedCertificateTimestamp None (sct_val id ts ext halg salg sig) = Ok b ->
  length id = 32%nat /\ Rfc6962Proofs.ext_ok ext /\ halg < 256 /\ salg < 256 /\ len sig <= 65535 /\
  b = enc_sct id ts ext halg salg sig.
Proof.
  intros Hts Hm.
  assert (Hr : length id = 32%nat /\ Rfc6962Proofs.ext_ok ext /\ halg < 256 /\ salg < 256 /\ len sig <= 65535).
  { cbn in Hm. destruct (Nat.eqb_spec (length id) (N.to_nat 32)) as [Hi|]; [|discriminate Hm].
    checks Hm. unfold Rfc6962Proofs.ext_ok, len. change (N.to_nat 32) with 32%nat in Hi. pow_facts. repeat split; lia. }
  destruct Hr as (H1 & H2 & H3 & H4 & H5). repeat split; auto.
  pose proof (gen_sct_marshal id ts ext halg salg sig H1 Hts H2 H3 H4 H5) as Hg.
  change (embed_sct id ts ext halg salg sig) with (sct_val id ts ext halg salg sig) in Hg.
  rewrite Hg in Hm. congruence.
Qed.

(* ---------------- the clock ---------------- *)

Lemma time_millis_clock now : (0 <= now < 9223372036854775808)%Z ->
  Z.of_N (time_millis now) = clock_ms now.
Proof.
  intros Hn. unfold time_millis, clock_ms, millis_per_nano.
  rewrite Z.quot_div_nonneg by lia.
  assert (0 <= now / (1000 * 1000) < 18446744073709551616)%Z.
  { split; [apply Z.div_pos; lia|]. apply Z.div_lt_upper_bound; lia. }
  rewrite Z.mod_small by lia. rewrite Z2N.id by lia. reflexivity.
Qed.
