// Distinguished names encoded BY HAND (a few lines of DER), and a hand-written reader of the
// TBSCertificate's name fields.
//
// harness/pki issues every certificate with the repository's own CreateCertificate from a
// pkix.Name, so every name of the test PKI used to be in the one form Go's encoder emits
// (C, ST, L, street, postal code, O, OU, CN, serial number; PrintableString where the text allows
// it, UTF8String otherwise; one attribute per RDN unless a type repeats).  Any code that PARSES a
// name and ENCODES it again instead of copying its bytes is the identity on such names.  Real CA
// names are not of that form (most-specific-first order, UTF8String throughout as openssl writes,
// domainComponent / emailAddress attributes, multi-valued RDNs, TeletexString / BMPString in old
// roots).  The subject names of the CAs (roots, intermediates, precertificate signing
// certificates) and of a share of the leaves are therefore given as RawSubject bytes assembled
// here; the property's oracle reads the names back out of the certificates' DER with the walk
// below, not with the repository's parser.
package main

import (
	"bytes"
	stdasn1 "encoding/asn1"
	"fmt"
	mrand "math/rand"
	"sort"
	"strings"

	stdpkix "crypto/x509/pkix"
)

func hLen(n int) []byte {
	switch {
	case n < 0x80:
		return []byte{byte(n)}
	case n < 0x100:
		return []byte{0x81, byte(n)}
	}
	return []byte{0x82, byte(n >> 8), byte(n)}
}

func hTLV(tag byte, content []byte) []byte {
	return append(append([]byte{tag}, hLen(len(content))...), content...)
}

// attribute type OIDs, DER content octets
var (
	oidC     = []byte{0x55, 0x04, 0x06}
	oidO     = []byte{0x55, 0x04, 0x0a}
	oidOU    = []byte{0x55, 0x04, 0x0b}
	oidCN    = []byte{0x55, 0x04, 0x03}
	oidL     = []byte{0x55, 0x04, 0x07}
	oidST    = []byte{0x55, 0x04, 0x08}
	oidSerNo = []byte{0x55, 0x04, 0x05}
	oidDC    = []byte{0x09, 0x92, 0x26, 0x89, 0x93, 0xf2, 0x2c, 0x64, 0x01, 0x19} // 0.9.2342.19200300.100.1.25
	oidEmail = []byte{0x2a, 0x86, 0x48, 0x86, 0xf7, 0x0d, 0x01, 0x09, 0x01}       // 1.2.840.113549.1.9.1
)

const (
	tPrintable = 0x13
	tUTF8      = 0x0c
	tIA5       = 0x16
	tT61       = 0x14
	tBMP       = 0x1e
)

// hATV is AttributeTypeAndValue ::= SEQUENCE { type OID, value <string type> }.
func hATV(oid []byte, strTag byte, s string) []byte {
	val := []byte(s)
	if strTag == tBMP {
		val = nil
		for _, c := range s { // ASCII only here: UCS-2 big endian
			val = append(val, 0, byte(c))
		}
	}
	return hTLV(0x30, append(hTLV(0x06, oid), hTLV(strTag, val)...))
}

// hRDN is RelativeDistinguishedName ::= SET OF AttributeTypeAndValue (DER: elements sorted by encoding).
func hRDN(atvs ...[]byte) []byte {
	sort.Slice(atvs, func(i, j int) bool { return bytes.Compare(atvs[i], atvs[j]) < 0 })
	return hTLV(0x31, bytes.Join(atvs, nil))
}

func hName(rdns ...[]byte) []byte { return hTLV(0x30, bytes.Join(rdns, nil)) }

// nameStyles: the forms a hand-encoded name takes.  "go" = left to harness/pki (pkix.Name).
var nameStyles = []string{"go", "go-order-by-hand", "specific-first", "utf8", "dc", "email", "multi-rdn", "repeated-ou", "teletex", "bmp", "long", "no-cn"}

// handName returns the DER of a Name in the given style whose common name (when it has one) is cn.
func handName(r *mrand.Rand, style, cn string) []byte {
	one := func(oid []byte, tag byte, s string) []byte { return hRDN(hATV(oid, tag, s)) }
	switch style {
	case "go-order-by-hand":
		// the control: exactly what pkix.Name would emit, assembled here
		return hName(one(oidC, tPrintable, "GB"), one(oidO, tPrintable, "verif"), one(oidCN, tPrintable, cn))
	case "specific-first":
		// most specific attribute first (RFC 4514 string order written out literally)
		return hName(one(oidCN, tPrintable, cn), one(oidOU, tPrintable, "issuing"), one(oidO, tPrintable, "verif"), one(oidL, tPrintable, "London"), one(oidC, tPrintable, "GB"))
	case "utf8":
		// Go's order, every DirectoryString a UTF8String (only the country stays printable)
		return hName(one(oidC, tPrintable, "GB"), one(oidST, tUTF8, "England"), one(oidL, tUTF8, "London"), one(oidO, tUTF8, "verif"), one(oidCN, tUTF8, cn))
	case "dc":
		return hName(one(oidDC, tIA5, "example"), one(oidDC, tIA5, "verif"), one(oidO, tPrintable, "verif"), one(oidCN, tPrintable, cn))
	case "email":
		return hName(one(oidC, tPrintable, "GB"), one(oidO, tPrintable, "verif"), one(oidCN, tPrintable, cn), one(oidEmail, tIA5, "ca@verif.example"))
	case "multi-rdn":
		return hName(one(oidC, tPrintable, "GB"), one(oidO, tPrintable, "verif"), hRDN(hATV(oidCN, tPrintable, cn), hATV(oidSerNo, tPrintable, fmt.Sprintf("%d", 1000+r.Intn(9000)))))
	case "repeated-ou":
		// two RDNs of the same type (pkix.Name folds them into ONE multi-valued RDN)
		return hName(one(oidC, tPrintable, "GB"), one(oidO, tPrintable, "verif"), one(oidOU, tPrintable, "pki"), one(oidOU, tPrintable, "issuing"), one(oidCN, tPrintable, cn))
	case "teletex":
		return hName(one(oidC, tPrintable, "GB"), one(oidO, tT61, "verif"), one(oidCN, tT61, cn))
	case "bmp":
		return hName(one(oidC, tPrintable, "GB"), one(oidO, tBMP, "verif"), one(oidCN, tPrintable, cn))
	case "long":
		// a Name beyond 127 (and sometimes 255) octets: long-form length of the Name itself
		n := 90 + r.Intn(60)
		rdns := [][]byte{one(oidC, tPrintable, "GB"), one(oidO, tUTF8, "verif")}
		for k := 0; k <= r.Intn(2); k++ {
			rdns = append(rdns, one(oidOU, tPrintable, strings.Repeat(string(rune('a'+k)), n)))
		}
		return hName(append(rdns, one(oidCN, tPrintable, cn))...)
	case "no-cn":
		// a CA name without a common name (the text of cn kept in an OU so that names stay distinct)
		return hName(one(oidO, tUTF8, "verif"), one(oidOU, tPrintable, cn), one(oidC, tPrintable, "GB"))
	}
	panic("unknown name style " + style)
}

// goWouldReencode says whether parsing the name into a pkix.Name and encoding that again (with the
// STANDARD library) gives other bytes: the class of names on which "copy the bytes" and "encode the
// parsed name" differ.  Statistics only.
func goWouldReencode(raw []byte) string {
	var seq stdpkix.RDNSequence
	if rest, err := stdasn1.Unmarshal(raw, &seq); err != nil || len(rest) != 0 {
		return "unparsed"
	}
	var n stdpkix.Name
	n.FillFromRDNSequence(&seq)
	again, err := stdasn1.Marshal(n.ToRDNSequence())
	if err != nil {
		return "unparsed"
	}
	if bytes.Equal(again, raw) {
		return "go-form"
	}
	return "not-go-form"
}

// tbsFields splits Certificate.tbsCertificate of a DER certificate into its fields with the
// hand-written walk of main.go; i is the index of serialNumber (1 when the version is present).
func tbsFields(certDER []byte) (fields [][]byte, i int, ok bool) {
	tag, content, _, rest, ok := derNext(certDER)
	if !ok || tag != 0x30 || len(rest) != 0 {
		return nil, 0, false
	}
	tag, tbs, _, _, ok := derNext(content)
	if !ok || tag != 0x30 {
		return nil, 0, false
	}
	return splitTBS(tbs)
}

// splitTBS: the fields of a TBSCertificate's content octets.
func splitTBS(tbsContent []byte) (fields [][]byte, i int, ok bool) {
	fields, ok = derChildren(tbsContent)
	if !ok || len(fields) < 6 {
		return nil, 0, false
	}
	if fields[0][0] == 0xa0 { // [0] EXPLICIT version
		i = 1
	}
	if len(fields) < i+6 {
		return nil, 0, false
	}
	return fields, i, true
}

// handSubject / handIssuer: the Name elements of a certificate, byte for byte, without x509.ParseCertificate.
func handSubject(certDER []byte) []byte {
	f, i, ok := tbsFields(certDER)
	if !ok {
		panic("harness certificate does not split into TBSCertificate fields")
	}
	return f[i+4]
}

func handIssuer(certDER []byte) []byte {
	f, i, ok := tbsFields(certDER)
	if !ok {
		panic("harness certificate does not split into TBSCertificate fields")
	}
	return f[i+2]
}
