(* C17: counting invariant (channel contents vs. finished goroutines), the termination
   measure and the progress lemma. *)
From Coq Require Import ZArith NArith Bool List Lia.
From V Require Import Base.GoInt gen.Races Submission.SubmitModel Submission.SubmitLib
     Submission.SubmitStateProofs Submission.SubmitInv.
Import ListNotations.

Definition is_rdone (pc : rpc) : bool := match pc with RDone => true | _ => false end.
Definition is_mdone (pc : mpc) : bool := match pc with MDone => true | _ => false end.
Definition done_count (c : cfg) (s : state) (g : N) : nat :=
  length (filter (fun l => is_rdone (rp s g l)) (session_of c g)).
Definition done_mains (c : cfg) (s : state) : nat :=
  length (filter (fun g => is_mdone (mp s g)) (names c)).

Record inv2 (c : cfg) (s : state) : Prop := mkInv2 {
  j_cnt : forall g, In g (names c) ->
          match mp s g with
          | MLoop k => done_count c s g = (k + cnt s g)%nat /\ (k < length (session_of c g))%nat
          | MCheck k => done_count c s g = (S k + cnt s g)%nat /\ (k < length (session_of c g))%nat
          | _ => True
          end;
  j_evq : match top s with
          | TLoop n _ => done_mains c s = (n + length (evq s))%nat /\ (n < length c)%nat
          | _ => True
          end
}.

Lemma filter_false_nil {A} (xs : list A) : filter (fun _ => false) xs = [].
Proof. induction xs; auto. Qed.

Lemma inv2_init p c : inv2 c (init p c).
Proof.
  constructor.
  - intros g Hin. simpl. destruct (session_of c g) eqn:E; [exact I|].
    unfold done_count. simpl. rewrite E. rewrite filter_false_nil. simpl. split; [reflexivity | lia].
  - simpl. destruct c as [|gr c']; [unfold after_loop; exact I|].
    unfold done_mains. cbn [top init mp evq].
    rewrite (filter_ext_in _ (fun _ => false)).
    + rewrite filter_false_nil. simpl. split; [reflexivity | lia].
    + intros g _. cbn [mp]. destruct (session_of (gr :: c') g); reflexivity.
Qed.

Section Live.
Variables (p : bool) (c : cfg) (oc : N -> outcome).
Hypothesis Hwf : wf c.

Lemma session_nodup g : NoDup (session_of c g).
Proof.
  unfold session_of. destruct (find_group c g) as [gr|] eqn:F; [|constructor].
  destruct Hwf as [_ W]. destruct (find_some_name c g gr F) as [Hin _]. apply (W gr Hin).
Qed.

Lemma valid_in_session g l : valid_gor c g l = true -> In g (names c) /\ In l (session_of c g).
Proof.
  unfold valid_gor. intros H. apply andb_true_iff in H. destruct H as [H1 H2].
  apply memN_In in H1. apply memN_In in H2. auto.
Qed.

(* done_count under a point update of the goroutine pcs *)
Lemma done_count_other s g l pc g' : g' <> g -> done_count c (set_rp s g l pc) g' = done_count c s g'.
Proof.
  intros Hne. unfold done_count. f_equal. apply filter_ext. intros l'. simpl.
  apply N.eqb_neq in Hne. rewrite Hne. reflexivity.
Qed.

Lemma done_count_same s g l pc : is_rdone pc = is_rdone (rp s g l) ->
  forall g', done_count c (set_rp s g l pc) g' = done_count c s g'.
Proof.
  intros E g'. unfold done_count. f_equal. apply filter_ext. intros l'. simpl.
  destruct (N.eqb g' g && N.eqb l' l) eqn:Hc; [|reflexivity].
  apply andb_true_iff in Hc. destruct Hc as [H1 H2]. apply N.eqb_eq in H1. apply N.eqb_eq in H2. subst. exact E.
Qed.

Lemma done_count_incr s g l : valid_gor c g l = true -> is_rdone (rp s g l) = false ->
  done_count c (set_rp s g l RDone) g = S (done_count c s g).
Proof.
  intros Hv Hnd. destruct (valid_in_session g l Hv) as [_ Hin]. unfold done_count.
  apply (filter_point_on (fun x => is_rdone (rp s g x)) (fun x => is_rdone (rp (set_rp s g l RDone) g x)) (session_of c g) l).
  - apply session_nodup.
  - exact Hin.
  - exact Hnd.
  - simpl. rewrite !N.eqb_refl. reflexivity.
  - intros y Hy. simpl. rewrite N.eqb_refl. apply N.eqb_neq in Hy. rewrite Hy. reflexivity.
Qed.

Lemma done_count_le s g : (done_count c s g <= length (session_of c g))%nat.
Proof. apply filter_length_le. Qed.

Lemma done_mains_same s s' : (forall g, In g (names c) -> is_mdone (mp s' g) = is_mdone (mp s g)) -> done_mains c s' = done_mains c s.
Proof. intros H. unfold done_mains. f_equal. apply filter_ext_in. exact H. Qed.

Lemma done_mains_incr s g : In g (names c) -> is_mdone (mp s g) = false ->
  done_mains c (set_mp s g MDone) = S (done_mains c s).
Proof.
  intros Hin Hnd. unfold done_mains. destruct Hwf as [Hn _].
  apply (filter_point_on (fun x => is_mdone (mp s x)) (fun x => is_mdone (mp (set_mp s g MDone) x)) (names c) g); auto.
  - simpl. rewrite upd_same. reflexivity.
  - intros y Hy. simpl. rewrite upd_other by exact Hy. reflexivity.
Qed.

Lemma names_length : length (names c) = length c.
Proof. unfold names. apply map_length. Qed.

Definition cnt_stmt (s : state) (g : N) : Prop :=
  match mp s g with
  | MLoop k => done_count c s g = (k + cnt s g)%nat /\ (k < length (session_of c g))%nat
  | MCheck k => done_count c s g = (S k + cnt s g)%nat /\ (k < length (session_of c g))%nat
  | _ => True
  end.

Lemma frame_cnt s s' g0 l0 pc : rp s' = rp (set_rp s g0 l0 pc) -> mp s' = mp s -> cnt s' = cnt s ->
  is_rdone pc = is_rdone (rp s g0 l0) -> forall g, cnt_stmt s g -> cnt_stmt s' g.
Proof.
  intros Hr Hm Hc Hd g. unfold cnt_stmt. rewrite Hm, Hc.
  assert (E : done_count c s' g = done_count c s g).
  { unfold done_count. rewrite Hr. apply (done_count_same s g0 l0 pc Hd g). }
  rewrite E. tauto.
Qed.

Lemma pres_cnt s a s' : inv1 c s -> inv2 c s -> step p c oc s a = Some s' ->
  forall g, In g (names c) -> cnt_stmt s' g.
Proof.
  intros I J H. pose proof (j_cnt c s J) as Old. fold cnt_stmt in Old. unfold cnt_stmt. step_inv H.
  all: fold (cnt_stmt).
  1-6, 9: split_ands; intros g' Hin; eapply (frame_cnt s _ g l _); try reflexivity; try exact (Old g' Hin);
    match goal with Hr : rp _ _ _ = _ |- _ => rewrite Hr end; try reflexivity;
    try (destruct (group_complete _ _ _); reflexivity);
    try (destruct (snd (request _ _ _)); [|destruct p]; reflexivity).
  - (* ASetRes *) split_ands; intros g' Hin; destruct sct; eapply (frame_cnt s _ g l RCount); try reflexivity; try exact (Old g' Hin);
      rewrite E0; reflexivity.
  - (* panic *) exact Old.
  - (* ACount *) split_ands. intros g' Hin. specialize (Old g' Hin). unfold cnt_stmt in *. cbn [mp cnt set_cnt set_rp].
    assert (Hnd : is_rdone (rp s g l) = false) by (match goal with Hr : rp s g l = _ |- _ => rewrite Hr end; reflexivity).
    unfold upd. destruct (N.eqb g' g) eqn:Eg.
    + apply N.eqb_eq in Eg. subst g'.
      assert (Hd : done_count c (set_cnt (set_rp s g l RDone) g (S (cnt s g))) g = S (done_count c s g)).
      { rewrite <- (done_count_incr s g l) by assumption. reflexivity. }
      rewrite Hd. destruct (mp s g); try exact Old; destruct Old as [O1 O2]; split; try exact O2; lia.
    + apply N.eqb_neq in Eg.
      assert (Hd : done_count c (set_cnt (set_rp s g l RDone) g (S (cnt s g))) g' = done_count c s g').
      { rewrite <- (done_count_other s g l RDone g') by exact Eg. reflexivity. }
      rewrite Hd. exact Old.
  - (* ARecvCount *) split_ands. intros g' Hin. specialize (Old g' Hin). unfold cnt_stmt in *. cbn [mp cnt set_cnt set_mp].
    unfold upd. destruct (N.eqb g' g) eqn:Eg.
    + apply N.eqb_eq in Eg. subst g'. rewrite E0, E1 in Old. destruct Old as [O1 O2]. split; [|exact O2].
      change (done_count c (set_mp (set_cnt s g n) g (MCheck k)) g) with (done_count c s g). lia.
    + exact Old.
  - (* ARecvDone *) split_ands. intros g' Hin. specialize (Old g' Hin). unfold cnt_stmt in *. cbn [mp cnt set_mp].
    unfold upd. destruct (N.eqb g' g) eqn:Eg; [exact Logic.I | exact Old].
  - (* AMainCheck *) split_ands. intros g' Hin. specialize (Old g' Hin). unfold cnt_stmt in *. cbn [mp cnt set_mp].
    unfold upd. destruct (N.eqb g' g) eqn:Eg; [|exact Old].
    apply N.eqb_eq in Eg. subst g'. rewrite E0 in Old. destruct Old as [O1 O2].
    destruct (group_complete c (sh s) g); [exact Logic.I|].
    match goal with |- context[if ?bb then MFinal else _] => destruct bb eqn:En end; [exact Logic.I|].
    change (Nat.eqb (S k) (length (session_of c g)) = false) in En.
    apply Nat.eqb_neq in En. split; [|lia].
    change (done_count c (set_mp s g (MLoop (S k))) g) with (done_count c s g). lia.
  - split_ands. intros g' Hin. specialize (Old g' Hin). unfold cnt_stmt in *. cbn [mp cnt set_mp].
    unfold upd. destruct (N.eqb g' g) eqn:Eg; [exact Logic.I | exact Old].
  - split_ands. intros g' Hin. specialize (Old g' Hin). unfold cnt_stmt in *. cbn [mp cnt set_mp set_evq].
    unfold upd. destruct (N.eqb g' g) eqn:Eg; [exact Logic.I | exact Old].
  - exact Old.
  - exact Old.
  - exact Old.
  - exact Old.
  - exact Old.
Qed.

Definition evq_stmt (s : state) : Prop :=
  match top s with
  | TLoop n _ => done_mains c s = (n + length (evq s))%nat /\ (n < length c)%nat
  | _ => True
  end.

Lemma frame_evq s s' : mp s' = mp s -> evq s' = evq s -> top s' = top s -> evq_stmt s -> evq_stmt s'.
Proof.
  intros Hm He Ht. unfold evq_stmt, done_mains. rewrite Hm, He, Ht. tauto.
Qed.

Lemma frame_evq_mp s s' g pc : mp s' = upd (mp s) g pc -> is_mdone pc = is_mdone (mp s g) ->
  evq s' = evq s -> top s' = top s -> evq_stmt s -> evq_stmt s'.
Proof.
  intros Hm Hd He Ht. unfold evq_stmt. rewrite He, Ht.
  assert (E : done_mains c s' = done_mains c s).
  { apply done_mains_same. intros g' _. rewrite Hm. unfold upd. destruct (N.eqb g' g) eqn:Eg; [|reflexivity].
    apply N.eqb_eq in Eg. subst. exact Hd. }
  rewrite E. tauto.
Qed.

Lemma pres_jevq s a s' : inv1 c s -> inv2 c s -> step p c oc s a = Some s' -> evq_stmt s'.
Proof.
  intros I J H. pose proof (j_evq c s J) as Old. fold (evq_stmt s) in Old. step_inv H.
  1-10, 20: try (destruct sct); apply (frame_evq s); try reflexivity; exact Old.
  - (* ARecvCount *) eapply (frame_evq_mp s _ g (MCheck k)); try reflexivity; [rewrite E0; reflexivity | exact Old].
  - (* ARecvDone *) eapply (frame_evq_mp s _ g MFinal); try reflexivity; [rewrite E0; reflexivity | exact Old].
  - (* AMainCheck *) eapply (frame_evq_mp s _ g _); try reflexivity; [|exact Old].
    rewrite E0. destruct (group_complete _ _ _); [reflexivity|].
    match goal with |- context[if ?bb then MFinal else _] => destruct bb end; reflexivity.
  - (* AMainFinal *) eapply (frame_evq_mp s _ g _); try reflexivity; [rewrite E0; reflexivity | exact Old].
  - (* ASendEvent *) split_ands. unfold evq_stmt in *. cbn [top set_evq set_mp evq].
    destruct (top s); try exact Logic.I. destruct Old as [O1 O2]. split; [|exact O2].
    change (done_mains c (set_evq (set_mp s g MDone) (evq s ++ [(g, v)]))) with (done_mains c (set_mp s g MDone)).
    rewrite done_mains_incr; [|assumption | rewrite E0; reflexivity]. rewrite app_length. simpl. lia.
  - (* ATopRecv *) unfold evq_stmt in *. rewrite E in Old. rewrite E0 in Old. destruct Old as [O1 O2].
    cbn [top set_top set_evq evq].
    match goal with |- context[if ?bb then _ else TLoop _ _] => destruct bb eqn:En end; [unfold after_loop; exact Logic.I|].
    change (Nat.eqb (S n) (length c) = false) in En.
    apply Nat.eqb_neq in En. split; [|lia].
    change (done_mains c (set_top (set_evq s l) (TLoop (S n) (upd gc n0 b)))) with (done_mains c s).
    simpl in O1. lia.
  - unfold evq_stmt. exact Logic.I.
  - unfold evq_stmt. exact Logic.I.
  - unfold evq_stmt. exact Logic.I.
Qed.

Lemma inv2_step s a s' : inv1 c s -> inv2 c s -> step p c oc s a = Some s' -> inv2 c s'.
Proof.
  intros I J H. constructor.
  - exact (pres_cnt s a s' I J H).
  - exact (pres_jevq s a s' I J H).
Qed.

Lemma inv12_run tr : forall s s', inv1 c s -> inv2 c s -> run p c oc s tr = Some s' -> inv1 c s' /\ inv2 c s'.
Proof.
  induction tr as [|a tr IH]; simpl; intros s s' I J H.
  - inversion H; subst. auto.
  - destruct (step p c oc s a) eqn:E; [|discriminate].
    eapply IH; [eapply inv1_step; eauto | eapply inv2_step; eauto | exact H].
Qed.

Lemma inv12_reach tr s : run p c oc (init p c) tr = Some s -> inv1 c s /\ inv2 c s.
Proof. apply inv12_run; [apply inv1_init; exact Hwf | apply inv2_init]. Qed.

(* ---- termination measure ---- *)
Definition rrank (pc : rpc) : nat :=
  match pc with RSleep => 8 | RCheck => 7 | RRequest => 6 | RCalling => 5 | RInflight => 4
              | RGot _ => 3 | RWait => 2 | RCount => 1 | RDone => 0 end.
Definition mrank (n : nat) (pc : mpc) : nat :=
  match pc with MLoop k => 2 * (n - k) + 3 | MCheck k => 2 * (n - k) + 2 | MFinal => 2 | MReturn _ => 1 | MDone => 0 end.
Definition trank (nc : nat) (t : tpc) : nat :=
  match t with TLoop n _ => (nc - n) + nc + 2 | TVerdict rest _ => length rest + 1 | TReturned _ _ => 0 end.
Definition grank (s : state) (g : N) : nat :=
  sumf (fun l => rrank (rp s g l)) (session_of c g) + mrank (length (session_of c g)) (mp s g).
Definition measure (s : state) : nat :=
  sumf (grank s) (names c) + trank (length c) (top s) + (if ctxdone s then 0 else 1).

Lemma measure_rp s s' g l pc : valid_gor c g l = true -> rp s' = rp (set_rp s g l pc) -> mp s' = mp s ->
  top s' = top s -> ctxdone s' = ctxdone s -> (rrank pc < rrank (rp s g l))%nat -> (measure s' < measure s)%nat.
Proof.
  intros Hv Hr Hm Ht Hc Hlt. destruct (valid_in_session g l Hv) as [Hg Hl]. destruct Hwf as [Hn _].
  unfold measure. rewrite Ht, Hc.
  assert (sumf (grank s') (names c) < sumf (grank s) (names c))%nat; [|lia].
  apply (sumf_point (grank s) (grank s') (names c) g Hn Hg).
  - unfold grank. rewrite Hm, Hr.
    assert (sumf (fun l0 => rrank (rp (set_rp s g l pc) g l0)) (session_of c g) < sumf (fun l0 => rrank (rp s g l0)) (session_of c g))%nat; [|lia].
    apply (sumf_point _ _ (session_of c g) l (session_nodup g) Hl).
    + simpl. rewrite !N.eqb_refl. exact Hlt.
    + intros y _ Hy. simpl. rewrite N.eqb_refl. apply N.eqb_neq in Hy. rewrite Hy. reflexivity.
  - intros g' _ Hne. unfold grank. rewrite Hm, Hr. f_equal. apply sumf_ext. intros l' _. simpl.
    apply N.eqb_neq in Hne. rewrite Hne. reflexivity.
Qed.

Lemma measure_mp s s' g pc : In g (names c) -> rp s' = rp s -> mp s' = upd (mp s) g pc ->
  top s' = top s -> ctxdone s' = ctxdone s ->
  (mrank (length (session_of c g)) pc < mrank (length (session_of c g)) (mp s g))%nat -> (measure s' < measure s)%nat.
Proof.
  intros Hg Hr Hm Ht Hc Hlt. destruct Hwf as [Hn _]. unfold measure. rewrite Ht, Hc.
  assert (sumf (grank s') (names c) < sumf (grank s) (names c))%nat; [|lia].
  apply (sumf_point (grank s) (grank s') (names c) g Hn Hg).
  - unfold grank. rewrite Hm, Hr, upd_same. lia.
  - intros g' _ Hne. unfold grank. rewrite Hm, Hr, upd_other by exact Hne. reflexivity.
Qed.

Lemma measure_top s s' : rp s' = rp s -> mp s' = mp s -> ctxdone s' = ctxdone s ->
  (trank (length c) (top s') < trank (length c) (top s))%nat -> (measure s' < measure s)%nat.
Proof.
  intros Hr Hm Hc Hlt. unfold measure. rewrite Hc.
  assert (E : sumf (grank s') (names c) = sumf (grank s) (names c)).
  { apply sumf_ext. intros g _. unfold grank. rewrite Hr, Hm. reflexivity. }
  rewrite E. lia.
Qed.

Lemma step_decreases s a s' : inv1 c s -> inv2 c s -> step p c oc s a = Some s' -> (measure s' < measure s)%nat.
Proof.
  intros I J H. pose proof (j_cnt c s J) as JC. pose proof (j_evq c s J) as JE. step_inv H.
  1-7, 9-10: split_ands; try (destruct sct); eapply (measure_rp s _ g l _); try reflexivity; try assumption;
    match goal with Hr : rp _ _ _ = _ |- _ => rewrite Hr end; simpl; try lia;
    try (destruct (group_complete _ _ _); simpl; lia);
    try (destruct (snd (request _ _ _)); [|destruct p]; simpl; lia).
  - (* panic: cannot happen *) exfalso. destruct Hwf as [Hnd _].
    eapply set_result_some; [exact Hnd | | exact E1]. apply (owner_res c s g l I). rewrite E0. reflexivity.
  - (* ARecvCount *) split_ands. specialize (JC g E). rewrite E0 in JC. destruct JC as [_ Hk].
    eapply (measure_mp s _ g (MCheck k)); try reflexivity; try assumption. rewrite E0. unfold mrank. lia.
  - (* ARecvDone *) split_ands. match goal with Hg : In g (names c) |- _ => specialize (JC g Hg) end.
    rewrite E0 in JC. destruct JC as [_ Hk].
    eapply (measure_mp s _ g MFinal); try reflexivity; try assumption. rewrite E0. unfold mrank. lia.
  - (* AMainCheck *) split_ands. specialize (JC g E). rewrite E0 in JC. destruct JC as [_ Hk].
    eapply (measure_mp s _ g _); try reflexivity; try assumption. rewrite E0.
    destruct (group_complete _ _ _); [unfold mrank; lia|].
    match goal with |- context[if ?bb then MFinal else _] => destruct bb eqn:En end; [unfold mrank; lia|].
    change (Nat.eqb (S k) (length (session_of c g)) = false) in En.
    apply Nat.eqb_neq in En. unfold mrank. lia.
  - split_ands. eapply (measure_mp s _ g _); try reflexivity; try assumption. rewrite E0. unfold mrank. lia.
  - split_ands. eapply (measure_mp s _ g MDone); try reflexivity; try assumption. rewrite E0. unfold mrank. lia.
  - (* ATopRecv *) destruct JE as [_ Hn].
    apply measure_top; try reflexivity. cbn [top set_top]. rewrite ?E.
    match goal with |- context[if ?bb then _ else TLoop _ _] => destruct bb eqn:En end.
    + unfold after_loop, trank. destruct p; simpl length; rewrite ?names_length; lia.
    + change (Nat.eqb (S n) (length c) = false) in En. apply Nat.eqb_neq in En. unfold trank. lia.
  - apply measure_top; try reflexivity. cbn [top set_top]. rewrite ?E. simpl. lia.
  - apply measure_top; try reflexivity. cbn [top set_top]. rewrite ?E. simpl. lia.
  - apply measure_top; try reflexivity. cbn [top set_top]. rewrite ?E. simpl. lia.
  - (* ACancel *) unfold measure. cbn [ctxdone set_ctx top]. rewrite ?E.
    assert (Eq : sumf (grank (set_ctx s)) (names c) = sumf (grank s) (names c)) by (apply sumf_ext; intros; reflexivity).
    rewrite Eq. lia.
Qed.

Lemma run_bounded tr : forall s s', inv1 c s -> inv2 c s -> run p c oc s tr = Some s' ->
  (length tr + measure s' <= measure s)%nat.
Proof.
  induction tr as [|a tr IH]; simpl; intros s s' I J H.
  - inversion H; subst. lia.
  - destruct (step p c oc s a) as [s1|] eqn:E; [|discriminate].
    pose proof (step_decreases s a s1 I J E).
    assert (length tr + measure s' <= measure s1)%nat; [|lia].
    apply IH; [eapply inv1_step; eauto | eapply inv2_step; eauto | exact H].
Qed.

(* ---- progress: while GetSCTs has not returned, the program can step by itself or is
        waiting for a SubmitToLog call to return ---- *)
Definition internal (a : action) : bool := match a with AReturn _ _ _ | ACancel => false | _ => true end.

Definition can_step (s : state) : Prop := exists a s', internal a = true /\ step p c oc s a = Some s'.
Definition waiting (s : state) : Prop := exists g l, valid_gor c g l = true /\ rp s g l = RInflight.

Ltac enabled a :=
  left; exists a; eexists; split; [reflexivity|]; unfold step;
  repeat match goal with
         | H : panicked _ = false |- _ => rewrite H
         | H : valid_gor _ _ _ = true |- _ => rewrite H
         | H : rp _ _ _ = _ |- _ => rewrite H
         | H : mp _ _ = _ |- _ => rewrite H
         | H : cnt _ _ = _ |- _ => rewrite H
         | H : top _ = _ |- _ => rewrite H
         | H : evq _ = _ |- _ => rewrite H
         | H : memN _ _ = true |- _ => rewrite H
         end; simpl; try reflexivity.

Lemma owner_progress s g l : inv1 c s -> owner (rp s g l) = true -> can_step s \/ waiting s.
Proof.
  intros I Ho. pose proof (i_nopanic c s I) as Hp.
  assert (Hv : valid_gor c g l = true) by (apply (i_valid c s I); intros E; rewrite E in Ho; discriminate).
  destruct (rp s g l) eqn:Er; try discriminate.
  - enabled (AStart g l).
  - right. exists g, l. auto.
  - destruct (set_result c (sh s) l sct) eqn:Es.
    + left. exists (ASetRes g l). eexists. split; [reflexivity|]. unfold step. rewrite Hp, Hv, Er, Es. reflexivity.
    + left. exists (ASetRes g l). eexists. split; [reflexivity|]. unfold step. rewrite Hp, Hv, Er, Es. reflexivity.
Qed.

Lemma gor_progress s g l : inv1 c s -> valid_gor c g l = true -> is_rdone (rp s g l) = false -> can_step s \/ waiting s.
Proof.
  intros I Hv Hd. pose proof (i_nopanic c s I) as Hp.
  destruct (rp s g l) eqn:Er; try discriminate.
  - enabled (AWakeTimer g l).
  - enabled (ACheck g l).
  - enabled (ARequest g l).
  - apply (owner_progress s g l I). rewrite Er. reflexivity.
  - apply (owner_progress s g l I). rewrite Er. reflexivity.
  - apply (owner_progress s g l I). rewrite Er. reflexivity.
  - (* RWait *)
    destruct (finished (sh s) l || ctxdone s) eqn:Ef.
    + enabled (AWaitDone g l). rewrite Ef. reflexivity.
    + apply orb_false_iff in Ef. destruct Ef as [Ef _].
      destruct (results (sh s) l) eqn:Eres.
      * exfalso. destruct (i_nil c s I l Eres) as [_ O]. destruct (O g) as [_ O2]. congruence.
      * destruct (i_pend c s I l Eres Ef) as [g' Ho]. exact (owner_progress s g' l I Ho).
      * exfalso. assert (finished (sh s) l = true) by (apply (i_final c s I); rewrite Eres; reflexivity). congruence.
      * exfalso. assert (finished (sh s) l = true) by (apply (i_final c s I); rewrite Eres; reflexivity). congruence.
  - enabled (ACount g l).
Qed.

Lemma progress s : inv1 c s -> inv2 c s -> returned s = None -> can_step s \/ waiting s.
Proof.
  intros I J Hret. pose proof (i_nopanic c s I) as Hp. unfold returned in Hret.
  pose proof (j_evq c s J) as JE.
  destruct (top s) as [n gc | rest gc | scts ok] eqn:Et; [| |discriminate].
  - destruct (evq s) as [|[g v] q] eqn:Eq.
    + (* some race has not delivered its event *)
      destruct JE as [JE1 JE2]. simpl in JE1. rewrite Nat.add_0_r in JE1.
      assert (Hlt : (length (filter (fun g => is_mdone (mp s g)) (names c)) < length (names c))%nat)
        by (fold (done_mains c s); rewrite names_length; lia).
      destruct (filter_lt_exists _ _ Hlt) as [g [Hg Hnd]].
      assert (Hm : memN g (names c) = true) by (apply memN_In; exact Hg).
      destruct (mp s g) as [k | k | | v |] eqn:Em; try discriminate.
      * (* MLoop *) destruct (cnt s g) as [|m] eqn:Ec.
        -- pose proof (j_cnt c s J g Hg) as JC. rewrite Em, Ec in JC. destruct JC as [JC1 JC2].
           rewrite Nat.add_0_r in JC1.
           assert (Hlt2 : (length (filter (fun l => is_rdone (rp s g l)) (session_of c g)) < length (session_of c g))%nat)
             by (fold (done_count c s g); lia).
           destruct (filter_lt_exists _ _ Hlt2) as [l [Hl Hnd2]].
           apply (gor_progress s g l I); [|exact Hnd2].
           unfold valid_gor. rewrite Hm. apply memN_In in Hl. rewrite Hl. reflexivity.
        -- enabled (ARecvCount g).
      * enabled (AMainCheck g).
      * enabled (AMainFinal g).
      * enabled (ASendEvent g).
    + enabled ATopRecv.
  - destruct rest as [|g rest].
    + enabled ATopCollect.
    + enabled ATopVerdict.
Qed.
End Live.
