(* Correspondence cases for C13: one case = one jsonclient.JSONClient (fresh backoff) used by
   one or several callers of PostAndParseWithRetry / LogClient.AddChain / AddPreChain over a
   scripted RoundTripper under virtual time (testing/synctest).  The case carries the script
   (per caller: context, start instant, per POST: duration, outcome, body id) and what was
   OBSERVED: the instant of every POST, the wait values the client logged, the result class
   and the instant the call returned.  The jitter of each wait is recovered from the observed
   instant of the next POST ([JObserved]) and must lie in [0, maxJitter) on whole milliseconds. *)
From Coq Require Import ZArith Bool List.
From V Require Import Base.GoInt Base.CaseLib gen.Retry Client.RetryModel.
Import ListNotations.
Open Scope Z_scope.

Record obs := mkObs {
  ob_attempts : list Z;
  ob_logged : list (option Z);   (* per completed response: the Duration the client logged, if any *)
  ob_res : result;
  ob_end : Z
}.

(* CSessionSCT: as CSession; [nosct]: per caller, the body ids of the 200 responses whose JSON
   decodes into the add-chain response type but which hold no decodable SCT (AddChain /
   AddPreChain callers only): addChainWithRetry turns that success of PostAndParseWithRetry
   into RspError{200, body} ([add_chain_result]). *)
Inductive case :=
| CSession (cs : list caller) (observed : list obs)
| CSessionSCT (cs : list caller) (nosct : list (list Z)) (observed : list obs).

Definition kind_eqb (a b : ctx_kind) : bool :=
  match a, b with KDeadline, KDeadline | KCancel, KCancel => true | _, _ => false end.

Definition result_eqb (a b : result) : bool :=
  match a, b with
  | RSuccess x, RSuccess y => x =? y
  | RStatus c x, RStatus d y => (c =? d) && (x =? y)
  | RCtx k, RCtx l => kind_eqb k l
  | RPending, RPending => true
  | _, _ => false
  end.

(* a logged value must be the model's; a missing log line is not compared *)
Definition logged_ok (model observed : option Z) : bool :=
  match observed, model with
  | None, _ => true
  | Some w, Some w' => w =? w'
  | Some _, None => false
  end.

Fixpoint logged_all (m o : list (option Z)) : bool :=
  match m, o with
  | [], [] => true
  | x :: m', y :: o' => logged_ok x y && logged_all m' o'
  | _, _ => false
  end.

Definition jitter_ok (x : rrec) : bool :=
  (0 <=? r_j x) && (r_j x <? max_jitter_ns) && (r_j x mod 1000000 =? 0).

Definition out_matches (o : call_out) (ob : obs) : bool :=
  list_eqb Z.eqb (o_attempts o) (ob_attempts ob)
  && logged_all (map r_logged (o_trace o)) (ob_logged ob)
  && result_eqb (o_res o) (ob_res ob)
  && (o_end o =? ob_end ob)
  && forallb jitter_ok (o_trace o).

Fixpoint outs_match (os : list (option call_out)) (obs : list obs) : bool :=
  match os, obs with
  | [], [] => true
  | Some o :: os', ob :: obs' => out_matches o ob && outs_match os' obs'
  | _, _ => false
  end.

Definition the_conv := retry_after_duration.

Definition sct_ok_of (bad : list Z) (body : Z) : bool := negb (existsb (Z.eqb body) bad).

(* the i-th caller's result goes through addChainWithRetry's SCT decoding *)
Fixpoint lift_outs (nosct : list (list Z)) (os : list (option call_out)) : list (option call_out) :=
  match os with
  | [] => []
  | o :: os' =>
      option_map (add_chain_out (sct_ok_of (hd [] nosct))) o :: lift_outs (tl nosct) os'
  end.

Definition check_with (nosct : list (list Z)) (cs : list caller) (observed : list obs) : bool :=
  outs_match (lift_outs nosct (fst (sim the_conv cs fresh_backoff))) observed
  && match cs, observed with
     | [k], [ob] =>   (* one caller: the structural loop must say the same *)
         out_matches (add_chain_out (sct_ok_of (hd [] nosct))
                        (run_call the_conv (k_ctx k) (k_start k) fresh_backoff (k_evs k))) ob
     | _, _ => true
     end.

Definition check (c : case) : bool :=
  match c with
  | CSession cs observed => check_with [] cs observed
  | CSessionSCT cs nosct observed => check_with nosct cs observed
  end.

(* what the model computes: per caller (POST instants, logged waits, jitters, scheduled next
   instants, result, return instant) *)
Definition explain_with (nosct : list (list Z)) (cs : list caller) :=
  map (fun o => match o with
                | Some o => Some (o_attempts o, map r_logged (o_trace o), map r_j (o_trace o),
                                  map r_next (o_trace o), o_res o, o_end o)
                | None => None
                end)
      (lift_outs nosct (fst (sim the_conv cs fresh_backoff))).

Definition explain (c : case) :=
  match c with
  | CSession cs _ => explain_with [] cs
  | CSessionSCT cs nosct _ => explain_with nosct cs
  end.
