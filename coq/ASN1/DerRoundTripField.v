(* Marshal(Unmarshal(DER)) = DER for untagged fields of the primitive kinds: header (L1) and content
   (L2, L3) uniqueness composed through parseField / makeField. *)
From Coq Require Import ZArith NArith List Bool Lia.
From Coq.Strings Require Import Byte.
From V Require Import Base.Bytes ASN1.DerBase ASN1.DerHeader ASN1.DerHeaderProofs ASN1.DerPrim ASN1.DerPrimProofs ASN1.DerRoundTrip
  ASN1.DerModel ASN1.DerStructProofs.
Import ListNotations.
Local Open Scope Z_scope.

(* ------------------------------------------------------------------ untagged fields of the primitive kinds *)

(* header_phase for a field without parameters: one header, class universal, the tag of the kind *)
Lemma header_phase_plain t d h utag inner rest ut0 :
  universal t = Some (false, ut0, false) ->
  header_phase (parse_base128 Fork) t params0 d = Ok (HBody h utag inner rest) ->
  ~ long_tag_leading80 d ->
  d = append_tl (mkTl 0 utag (zlen inner) false) ++ inner ++ rest /\ t_class h = 0 /\ t_tag h = utag /\
  utag = (let u1 := if ut0 =? 19 then (if is_string_tag (t_tag h) then t_tag h else ut0) else ut0 in
          if (u1 =? 23) && (t_tag h =? 24) then 24 else u1).
Proof.
  intros Hu H Hn. unfold header_phase in H. apply bind_ok in H. destruct H as ([h0 r0] & E0 & H). cbn [fst snd] in H.
  cbn [explicit_phase params0 p_explicit negb bind] in H. unfold match_phase in H. rewrite Hu in H.
  cbn [params0 p_tag p_set p_stringType p_optional expected_tag p_explicit fst snd negb andb] in H.
  change (parse_tl_with (parse_base128 Fork)) with (parse_tl Fork) in E0.
  destruct (Z.eqb_spec (t_class h0) 0) as [Ec|Ec]; [|cbn in H; discriminate].
  cbn [negb orb] in H.
  match type of H with (if negb (t_tag h0 =? ?u) || _ then _ else _) = _ => set (ut := u) in * end.
  destruct (Z.eqb_spec (t_tag h0) ut) as [Et|Et]; [|cbn in H; discriminate]. cbn [negb orb] in H.
  destruct (t_compound h0) eqn:Ek; [cbn in H; discriminate|]. cbn [Bool.eqb negb] in H.
  destruct (Z.ltb_spec (zlen r0) (t_len h0)); [discriminate|]. injection H as <- <- <- <-.
  pose proof (parse_tl_bound _ _ _ _ E0) as (_ & _ & Hlen).
  pose proof (header_canonical Fork d h0 r0 E0 (or_intror Hn)) as Hd.
  assert (Hl : zlen (ztake (t_len h0) r0) = t_len h0) by (apply ztake_len; lia).
  split.
  - rewrite Hd at 1. rewrite <- (ztake_zdrop (t_len h0) r0) at 1. f_equal.
    destruct h0 as [c tg l k]. cbn [t_class t_tag t_len t_compound] in *. subst c k. rewrite Hl, Et. reflexivity.
  - split; [exact Ec|]. split; [exact Et|]. unfold ut. rewrite andb_true_r. reflexivity.
Qed.

(* which contents are "as Marshal would write them" for the kinds where Unmarshal is more liberal *)
Definition leaf_canonical (t : aty) (utag : Z) (inner : bytes) : Prop :=
  match t with
  | TString => (utag = 19 /\ plain_printable inner = true) \/ (utag = 12 /\ plain_printable inner = false)
  | TTime => if utag =? 23 then parse_time_layout false false false inner = None
             else forall tm, parse_gentime false inner = Ok tm -> outside_utc tm = true
  | TOid => ~ oid_leading80 inner
  | _ => True
  end.

Definition plain_leaf (t : aty) : bool :=
  match t with
  | TBool | TInt _ | TBigInt | TBitString | TOid | TEnum | TTime | TOctets | TString => true
  | _ => false
  end.

Lemma utctime_year_range c t : parse_utctime c = Ok t -> outside_utc t = false.
Proof.
  unfold parse_utctime. set (o := match parse_time_layout false false false c with Some t0 => Some t0 | None => parse_time_layout false true false c end).
  assert (Ho : forall t0, o = Some t0 -> 1969 <= tm_year t0 <= 2068).
  { intros t0 E. assert (forall secs, parse_time_layout false secs false c = Some t0 -> 1969 <= tm_year t0 <= 2068).
    { intros secs. unfold parse_time_layout. destruct (two_digits c) as [[yy r]|] eqn:E0; [|discriminate].
      apply two_digits_canon in E0. destruct E0 as [_ Hy].
      destruct (two_digits r) as [[? ?]|]; [|discriminate]. destruct (two_digits _) as [[? ?]|]; [|discriminate].
      destruct (two_digits _) as [[? ?]|]; [|discriminate]. destruct (two_digits _) as [[? ?]|]; [|discriminate].
      destruct (if secs then _ else _) as [[? ?]|]; [|discriminate]. destruct (if secs then _ else _) as [[? ?]|]; [|discriminate].
      destruct (parse_zone _); [|discriminate]. destruct (_ && _ && _ && _ && _ && _ && _); [|discriminate].
      intros Hi. assert (Hyear : tm_year t0 = if 69 <=? yy then 1900 + yy else 2000 + yy) by (injection Hi as <-; reflexivity).
      rewrite Hyear. destruct (Z.leb_spec 69 yy); lia. }
    unfold o in E. destruct (parse_time_layout false false false c) eqn:E1; [injection E as <-; eapply H; eauto|eapply H; eauto]. }
  destruct o as [t0|]; [|discriminate]. specialize (Ho t0 eq_refl). intros Hi; injection Hi as <-.
  unfold outside_utc. destruct (Z.leb_spec 2050 (tm_year t0)); cbn [tm_year];
    [destruct (Z.ltb_spec (tm_year t0 - 100) 1950); [lia|]; destruct (Z.leb_spec 2050 (tm_year t0 - 100)); [lia|reflexivity]
    |destruct (Z.ltb_spec (tm_year t0) 1950); [lia|]; destruct (Z.leb_spec 2050 (tm_year t0)); [lia|reflexivity]].
Qed.

Lemma header_phase_params0 b128 t d st :
  header_phase b128 t params0 d = Ok st -> exists h u i r, st = HBody h u i r.
Proof.
  unfold header_phase. intros H. apply bind_ok in H. destruct H as ([h0 r0] & _ & H). cbn [fst snd] in H.
  cbn [explicit_phase params0 p_explicit negb bind] in H. unfold match_phase in H.
  destruct (universal t) as [[[ma ut] ct]|]; [|discriminate].
  cbn [params0 p_optional] in H. destruct (_ || _); [discriminate|]. destruct (_ <? _); [discriminate|].
  injection H as <-. eauto.
Qed.

Lemma make_leaf_field_params0 t x ut0 tag body :
  plain_leaf t = true -> universal t = Some (false, ut0, false) ->
  match t, x with
  | TString, VStr s => (if plain_printable s then Ok 19 else if utf8_valid s then Ok 12 else ErrOther)
  | TTime, VTime tm => Ok (if outside_utc tm then 24 else 23)
  | _, _ => Ok ut0
  end = Ok tag ->
  leaf_body t params0 x = Ok body ->
  make_leaf_field t params0 x = Ok (append_tl (mkTl 0 tag (zlen body) false) ++ body).
Proof.
  intros Hk Hu Htag Hbody. unfold make_leaf_field, make_pre.
  cbn [params0 p_omitEmpty p_optional p_timeType p_stringType p_set p_tag p_default]. rewrite andb_false_r. cbn [andb].
  destruct t; try discriminate; rewrite Hu; cbn [Z.eqb negb andb orb];
    destruct x; try (cbn in Hbody; discriminate);
    cbn [Z.eqb negb andb orb bind] in *; try rewrite Htag; try (injection Htag as <-); cbn [bind]; rewrite ?Hbody; cbn [bind wrap_field params0 p_tag]; try reflexivity.
Qed.

Theorem leaf_field_roundtrip t d x rest :
  plain_leaf t = true -> ~ long_tag_leading80 d ->
  parse_field Fork (fun _ => leaves_of Fork false) t params0 d = Ok (x, rest) ->
  (forall h utag inner rest', header_phase (parse_base128 Fork) t params0 d = Ok (HBody h utag inner rest') -> leaf_canonical t utag inner) ->
  make_field Fork t params0 x = Ok (consumed d rest).
Proof.
  intros Hk Hn H Hcan. destruct d as [|b0 d0]; [destruct t; cbn in H; discriminate|].
  assert (Hshape : exists h utag inner ut0,
            universal t = Some (false, ut0, false) /\
            header_phase (parse_base128 Fork) t params0 (b0 :: d0) = Ok (HBody h utag inner rest) /\
            prim_body (leaves_of Fork false) t utag h inner (consumed (b0 :: d0) rest) = Ok x).
  { destruct t; try discriminate; cbn [parse_field] in H;
      (apply bind_ok in H; destruct H as (st & Eh & H);
       destruct (header_phase_params0 _ _ _ _ Eh) as (h & utag & inner & rest' & ->);
       apply bind_ok in H; destruct H as (y & Ey & H); injection H as <- <-;
       eexists h, utag, inner, _; split; [reflexivity|split; [exact Eh|exact Ey]]). }
  destruct Hshape as (h & utag & inner & ut0 & Hu & Eh & Eb).
  specialize (Hcan _ _ _ _ Eh).
  destruct (header_phase_plain _ _ _ _ _ _ _ Hu Eh Hn) as (Hd & Hc & Ht & Hut).
  assert (Hcons : consumed (b0 :: d0) rest = append_tl (mkTl 0 utag (zlen inner) false) ++ inner).
  { rewrite Hd at 1. rewrite app_assoc. apply consumed_app. }
  rewrite Hcons. clear Hcons Hd H.
  assert (Hu' := Hu).
  destruct t; try discriminate; cbn [prim_body] in Eb; cbn [universal] in Hu; injection Hu as <-; cbn [Z.eqb] in Hut;
    cbn [make_field]; apply (make_leaf_field_params0 _ _ _ _ _ Hk Hu').
  - (* TBool *) cbn in Hut. rewrite Hut. reflexivity.
  - apply rmap_ok in Eb. destruct Eb as (b & Eb & ->). apply bool_parse_emit in Eb. subst inner. reflexivity.
  - (* TInt *) cbn in Hut. rewrite Hut. reflexivity.
  - apply rmap_ok in Eb. destruct Eb as (z & Eb & ->). cbn [leaf_body]. f_equal.
    destruct w64; [apply int64_parse_emit; exact Eb|]. unfold parse_int32_with in Eb. apply bind_ok in Eb. destruct Eb as (u & _ & Eb).
    apply bind_ok in Eb. destruct Eb as (v & Ev & Eb). destruct (_ || _); [discriminate|]. injection Eb as <-. apply int64_parse_emit; exact Ev.
  - (* TBigInt *) cbn in Hut. rewrite Hut. reflexivity.
  - apply rmap_ok in Eb. destruct Eb as (z & Eb & ->). cbn [leaf_body]. f_equal. apply bigint_parse_emit. exact Eb.
  - (* TBitString *) cbn in Hut. rewrite Hut. reflexivity.
  - apply rmap_ok in Eb. destruct Eb as ([body n] & Eb & ->). cbn [leaf_body bits_val fst snd]. f_equal. apply bitstring_parse_emit. exact Eb.
  - (* TOid *) cbn in Hut. rewrite Hut. reflexivity.
  - apply rmap_ok in Eb. destruct Eb as (l & Eb & ->). cbn [leaf_body]. cbn in Eb, Hcan. apply oid_parse_emit_fork; assumption.
  - (* TEnum *) cbn in Hut. rewrite Hut. reflexivity.
  - apply rmap_ok in Eb. destruct Eb as (z & Eb & ->). cbn [leaf_body]. f_equal.
    unfold parse_int32_with in Eb. apply bind_ok in Eb. destruct Eb as (u & _ & Eb).
    apply bind_ok in Eb. destruct Eb as (v & Ev & Eb). destruct (_ || _); [discriminate|]. injection Eb as <-. apply int64_parse_emit; exact Ev.
  - (* TTime: tag *) apply rmap_ok in Eb. destruct Eb as (tm & Eb & ->). cbn [leaf_canonical] in Hcan.
    destruct (Z.eqb_spec (t_tag h) 24) as [E24|E24]; cbn in Hut; rewrite Hut in *; cbn [Z.eqb] in Eb, Hcan.
    + cbn [l_gentime leaves_of is_upstream] in Eb. rewrite (Hcan _ Eb). reflexivity.
    + rewrite (utctime_year_range _ _ Eb). reflexivity.
  - (* TTime: body *) apply rmap_ok in Eb. destruct Eb as (tm & Eb & ->). cbn [leaf_canonical] in Hcan. cbn [leaf_body params0 p_timeType Z.eqb orb].
    destruct (Z.eqb_spec (t_tag h) 24) as [E24|E24]; cbn in Hut; rewrite Hut in *; cbn [Z.eqb] in Eb, Hcan.
    + cbn [l_gentime leaves_of is_upstream] in Eb. rewrite (Hcan _ Eb). apply gentime_parse_emit. exact Eb.
    + rewrite (utctime_year_range _ _ Eb). apply utctime_parse_emit; assumption.
  - (* TOctets *) cbn in Hut. rewrite Hut. reflexivity.
  - injection Eb as <-. reflexivity.
  - (* TString: tag *) apply rmap_ok in Eb. destruct Eb as (s & Eb & ->). cbn [leaf_canonical] in Hcan.
    destruct Hcan as [[-> Hp]|[-> Hp]]; unfold parse_string in Eb; cbn [Z.eqb] in Eb.
    + cbn [l_printable leaves_of eff_lax] in Eb. unfold parse_printable in Eb. destruct (forallb _ inner); [|discriminate]. injection Eb as <-. rewrite Hp. reflexivity.
    + unfold parse_utf8 in Eb. destruct (utf8_valid inner) eqn:Ev; [|discriminate]. injection Eb as <-. rewrite Hp, Ev. reflexivity.
  - (* TString: body *) apply rmap_ok in Eb. destruct Eb as (s & Eb & ->). cbn [leaf_canonical] in Hcan. cbn [leaf_body params0 p_stringType string_body Z.eqb].
    destruct Hcan as [[-> Hp]|[-> Hp]]; unfold parse_string in Eb; cbn [Z.eqb] in Eb.
    + cbn [l_printable leaves_of eff_lax] in Eb. unfold parse_printable in Eb. destruct (forallb _ inner); [|discriminate]. injection Eb as <-. reflexivity.
    + unfold parse_utf8 in Eb. destruct (utf8_valid inner) eqn:Ev; [|discriminate]. injection Eb as <-. reflexivity.
Qed.
