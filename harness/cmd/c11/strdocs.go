package main

// Well-formed documents that carry strings of every type in every place the parser decodes (or
// skips) them: names whose attribute values use PrintableString, UTF8String, T61String,
// BMPString, IA5String, NumericString, UniversalString and VisibleString; directoryName
// alternatives inside subjectAltName; CPS and user-notice policy qualifiers; CSR attributes whose
// value is a bare string (challengePassword, unstructuredName) next to an extensionRequest; a CRL
// whose issuer is such a name.  Encoded by hand (a few lines of DER), signatures not valid
// (parsing does not verify).  The /repo fixtures and the pki generator only ever produce
// PrintableString / UTF8String / IA5String names and no qualifiers, so without these documents the
// string re-tagging stream would have no site of the other kinds to start from.

import (
	stdasn1 "encoding/asn1"
	"math/big"

	"github.com/google/certificate-transparency-go/x509"
)

func derTLV(tag byte, parts ...[]byte) []byte {
	var c []byte
	for _, p := range parts {
		c = append(c, p...)
	}
	return append(encHeader([]byte{tag}, len(c)), c...)
}

func derOID(ids ...int) []byte {
	b, err := stdasn1.Marshal(stdasn1.ObjectIdentifier(ids))
	if err != nil {
		panic(err)
	}
	return b
}

func utf16be(s string) []byte {
	var o []byte
	for _, r := range s {
		o = append(o, byte(r>>8), byte(r))
	}
	return o
}

func ucs4be(s string) []byte {
	var o []byte
	for _, r := range s {
		o = append(o, byte(r>>24), byte(r>>16), byte(r>>8), byte(r))
	}
	return o
}

// one RDN holding one attribute
func derRDN(oid []byte, tag byte, content []byte) []byte {
	return derTLV(0x31, derTLV(0x30, oid, derTLV(tag, content)))
}

// a name with one attribute of every string type; odd and even lengths on purpose
func stringsName(cn string) []byte {
	return derTLV(0x30,
		derRDN(derOID(2, 5, 4, 6), 0x13, []byte("CH")),                                // C   PrintableString, even
		derRDN(derOID(2, 5, 4, 10), 0x0c, []byte("Zürich AG")),                        // O   UTF8String, 10 octets
		derRDN(derOID(2, 5, 4, 11), 0x14, []byte("Abteilung \xe9")),                   // OU  T61String, odd
		derRDN(derOID(2, 5, 4, 7), 0x13, []byte("Acme Co")),                           // L   PrintableString, odd
		derRDN(derOID(2, 5, 4, 17), 0x12, []byte("8000 1")),                           // postalCode NumericString
		derRDN(derOID(2, 5, 4, 9), 0x1c, ucs4be("Weg")),                               // street UniversalString
		derRDN(derOID(2, 5, 4, 12), 0x1a, []byte("Dr")),                               // title VisibleString
		derRDN(derOID(1, 2, 840, 113549, 1, 9, 1), 0x16, []byte("a@strings.example")), // emailAddress IA5String, odd
		derRDN(derOID(2, 5, 4, 3), 0x1e, utf16be(cn)),                                 // CN  BMPString
	)
}

func derExt(oid []byte, value []byte) []byte { return derTLV(0x30, oid, derTLV(0x04, value)) }

func stringsSAN() []byte {
	return derExt(derOID(2, 5, 29, 17), derTLV(0x30,
		derTLV(0x82, []byte("strings.example")),
		derTLV(0x81, []byte("san@strings.example")),
		derTLV(0xa4, stringsName("dir")),
		derTLV(0x86, []byte("http://strings.example/x"))))
}

func stringsPolicies() []byte {
	cps := derTLV(0x30, derOID(1, 3, 6, 1, 5, 5, 7, 2, 1), derTLV(0x16, []byte("http://cps.strings.example")))
	notice := derTLV(0x30, derOID(1, 3, 6, 1, 5, 5, 7, 2, 2), derTLV(0x30,
		derTLV(0x30, derTLV(0x1a, []byte("Org")), derTLV(0x30, []byte{0x02, 0x01, 0x01})),
		derTLV(0x0c, []byte("notice é"))))
	notice2 := derTLV(0x30, derOID(1, 3, 6, 1, 5, 5, 7, 2, 2), derTLV(0x30, derTLV(0x1e, utf16be("bmp notice"))))
	return derExt(derOID(2, 5, 29, 32), derTLV(0x30,
		derTLV(0x30, derOID(2, 23, 140, 1, 2, 1), derTLV(0x30, cps, notice, notice2))))
}

var ecdsaSHA256 = []byte{0x30, 0x0a, 0x06, 0x08, 0x2a, 0x86, 0x48, 0xce, 0x3d, 0x04, 0x03, 0x02}

func stringDocs(donor *x509.Certificate) []doc {
	if donor == nil {
		return nil
	}
	raw := func(b []byte) stdasn1.RawValue { return stdasn1.RawValue{FullBytes: b} }
	sig := derTLV(0x03, []byte{0, 1, 2, 3, 4, 5, 6, 7, 8})
	var out []doc

	// certificate
	t := bareTBS{Version: 2, Serial: big.NewInt(4711), SigAlg: raw(ecdsaSHA256), Issuer: raw(stringsName("strings issuer")),
		Validity: bareValidity{donor.NotBefore, donor.NotAfter}, Subject: raw(stringsName("strings subject")), SPKI: raw(donor.RawSubjectPublicKeyInfo),
		Extensions: []stdasn1.RawValue{raw(stringsSAN()), raw(stringsPolicies())}}
	tb, err := stdasn1.Marshal(t)
	if err != nil {
		panic(err)
	}
	out = append(out, doc{"cert", "generated/strings", derTLV(0x30, tb, ecdsaSHA256, sig)})
	out = append(out, doc{"tbs", "generated/strings/tbs", tb})

	// certificate request: bare-string attributes and an extensionRequest
	attrs := derTLV(0xa0,
		derTLV(0x30, derOID(1, 2, 840, 113549, 1, 9, 7), derTLV(0x31, derTLV(0x0c, []byte("secret")))),
		derTLV(0x30, derOID(1, 2, 840, 113549, 1, 9, 2), derTLV(0x31, derTLV(0x16, []byte("unstructured")))),
		derTLV(0x30, derOID(1, 2, 840, 113549, 1, 9, 14), derTLV(0x31, derTLV(0x30, stringsSAN()))))
	info := derTLV(0x30, []byte{0x02, 0x01, 0x00}, stringsName("strings csr"), donor.RawSubjectPublicKeyInfo, attrs)
	out = append(out, doc{"csr", "generated/csr-strings", derTLV(0x30, info, ecdsaSHA256, sig)})

	// CRL
	utc := func(s string) []byte { return derTLV(0x17, []byte(s)) }
	tbsList := derTLV(0x30, []byte{0x02, 0x01, 0x01}, ecdsaSHA256, stringsName("strings crl issuer"), utc("240101000000Z"), derTLV(0x18, []byte("20510101000000Z")),
		derTLV(0x30, derTLV(0x30, []byte{0x02, 0x01, 0x05}, utc("240101010000Z"))),
		derTLV(0xa0, derTLV(0x30, derExt(derOID(2, 5, 29, 20), []byte{0x02, 0x01, 0x07}))))
	out = append(out, doc{"crl", "generated/crl-strings", derTLV(0x30, tbsList, ecdsaSHA256, sig)})
	return out
}
