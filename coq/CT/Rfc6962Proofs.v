(* Byte-exactness: marshalling the RFC descriptors yields exactly the independent encoders. *)
From Coq Require Import String NArith List Bool Lia.
From V Require Import Base.Bytes TLS.TlsModel TLS.TlsLemmas CT.Rfc6962Spec.
Import ListNotations.
Local Open Scope N_scope.

Arguments check : simpl never.
Arguments low_bytes : simpl never.
Arguments be_enc : simpl never.
Arguments N.of_nat : simpl never.
Arguments N.to_nat : simpl never.
Arguments N.pow : simpl never.
Arguments N.modulo : simpl never.
Arguments app : simpl never.

Lemma check_intro i n :
  f_count i <= 8 -> (f_count i = 8 \/ n < 256 ^ f_count i) -> (f_max i = 0 \/ (f_min i <= n /\ n <= f_max i)) ->
  check i n = true.
Proof.
  intros H1 H2 H3. rewrite check_spec. unfold check_spec_b.
  rewrite (proj2 (N.leb_le _ _) H1). cbn [andb].
  assert (E : ((f_count i =? 8) || (n <? 256 ^ f_count i))%bool = true).
  { destruct H2 as [->|H2]; [reflexivity|]. rewrite (proj2 (N.ltb_lt _ _) H2). apply orb_true_r. }
  rewrite E. cbn [andb].
  destruct H3 as [->|[H3 H4]]; [reflexivity|].
  rewrite (proj2 (N.leb_le _ _) H3), (proj2 (N.leb_le _ _) H4). apply orb_true_r.
Qed.

Lemma low_bytes_small c n : n < 256 ^ c -> low_bytes c n = be_enc (N.to_nat c) n.
Proof. intros H. unfold low_bytes. rewrite N.mod_small by exact H. reflexivity. Qed.

Lemma fixed_small w n : n < 256 ^ N.of_nat w -> marshal_fixed w (VInt n) = Ok (be_enc w n).
Proof. intros H. unfold marshal_fixed. rewrite N.mod_small by exact H. reflexivity. Qed.

Ltac chk :=
  match goal with
  | |- context [check ?i ?n] =>
      rewrite (check_intro i n) by (cbn [f_count f_min f_max]; first [lia | right; lia | right; split; lia | left; reflexivity])
  end.

Definition ts_ok (ts : N) : Prop := ts < 18446744073709551616.
Definition ext_ok (ext : bytes) : Prop := len ext <= 65535.

Ltac pow_facts :=
  change (256 ^ 1) with 256 in *; change (256 ^ 2) with 65536 in *; change (256 ^ 3) with 16777216 in *;
  change (256 ^ 8) with 18446744073709551616 in *; change (256 ^ N.of_nat 8) with 18446744073709551616 in *.

Ltac finish :=
  unfold enc_leaf, enc_sct_siginput, enc_sth_siginput, enc_ds, enc_sct, u8, u16, u24, u64, opaque16, opaque24,
    enc_entry, entry_type, len;
  repeat rewrite low_bytes_small by (pow_facts; lia);
  repeat rewrite N.mod_small by (pow_facts; lia);
  change (N.to_nat 1) with 1%nat; change (N.to_nat 2) with 2%nat; change (N.to_nat 3) with 3%nat;
  rewrite ?app_nil_r, <- ?app_assoc; rewrite ?app_nil_r; reflexivity.

Ltac go := cbn; change (N.to_nat 32) with 32%nat; cbn; repeat (chk; cbn); finish.

Lemma leaf_marshal ts e ext :
  ts_ok ts -> entry_ok e -> ext_ok ext ->
  marshal rfc_MerkleTreeLeaf None (embed_leaf ts e ext) = Ok (enc_leaf ts e ext).
Proof.
  unfold ts_ok, ext_ok, len. intros Hts He Hext.
  destruct e as [c|h t]; cbn in He; unfold len in He.
  - go.
  - destruct He as [Hh Ht]. cbn. rewrite Hh. go.
Qed.

Lemma sct_siginput_marshal ts e ext :
  ts_ok ts -> entry_ok e -> ext_ok ext ->
  marshal rfc_CertificateTimestamp None (embed_sct_siginput ts e ext) = Ok (enc_sct_siginput ts e ext).
Proof.
  unfold ts_ok, ext_ok, len. intros Hts He Hext.
  destruct e as [c|h t]; cbn in He; unfold len in He.
  - go.
  - destruct He as [Hh Ht]. cbn. rewrite Hh. go.
Qed.

Lemma sth_siginput_marshal ts size root :
  ts_ok ts -> ts_ok size -> length root = 32%nat ->
  marshal rfc_TreeHeadSignature None (embed_sth_siginput ts size root) = Ok (enc_sth_siginput ts size root).
Proof. unfold ts_ok. intros Hts Hsz Hr. cbn. rewrite Hr. go. Qed.

Lemma ds_marshal hash sig s :
  hash < 256 -> sig < 256 -> len s <= 65535 ->
  marshal rfc_DigitallySigned None (embed_ds hash sig s) = Ok (enc_ds hash sig s).
Proof. unfold len. intros Hh Hs Hl. go. Qed.

Lemma sct_marshal logid ts ext hash sig s :
  length logid = 32%nat -> ts_ok ts -> ext_ok ext -> hash < 256 -> sig < 256 -> len s <= 65535 ->
  marshal rfc_SignedCertificateTimestamp None (embed_sct logid ts ext hash sig s) = Ok (enc_sct logid ts ext hash sig s).
Proof. unfold ts_ok, ext_ok, len. intros Hl Hts He Hh Hs Hsl. cbn. rewrite Hl. go. Qed.

(* the signature inputs and the leaf are injective in their fields (what "changing any signed
   field changes the signed bytes" needs) *)
Lemma be_enc_inj w a b : a < 256 ^ N.of_nat w -> b < 256 ^ N.of_nat w -> be_enc w a = be_enc w b -> a = b.
Proof. intros Ha Hb H. rewrite <- (be_dec_enc w a Ha), <- (be_dec_enc w b Hb), H. reflexivity. Qed.

Lemma app_inv_len {A} (a b c d : list A) : length a = length c -> a ++ b = c ++ d -> a = c /\ b = d.
Proof.
  revert c; induction a as [|x a IH]; intros [|y c] Hl H; cbn in *; try discriminate; auto.
  inversion H; subst. destruct (IH c ltac:(lia) H2) as [-> ->]. auto.
Qed.

Lemma be_enc_len_inj w a b x y :
  a < 256 ^ N.of_nat w -> b < 256 ^ N.of_nat w -> be_enc w a ++ x = be_enc w b ++ y -> a = b /\ x = y.
Proof.
  intros Ha Hb H. apply app_inv_len in H; [|rewrite !be_enc_length; reflexivity].
  destruct H as [H1 H2]. split; [eapply be_enc_inj; eauto | exact H2].
Qed.

Lemma opaque24_inj c c' r r' :
  len c < 16777216 -> len c' < 16777216 -> opaque24 c ++ r = opaque24 c' ++ r' -> c = c' /\ r = r'.
Proof.
  unfold opaque24, u24, len. intros Hc Hc' H. rewrite <- !app_assoc in H.
  apply be_enc_len_inj in H; [|exact Hc|exact Hc']. destruct H as [Hl H].
  apply app_inv_len in H; [exact H|]. apply Nnat.Nat2N.inj. exact Hl.
Qed.

Lemma opaque16_inj c c' r r' :
  len c < 65536 -> len c' < 65536 -> opaque16 c ++ r = opaque16 c' ++ r' -> c = c' /\ r = r'.
Proof.
  unfold opaque16, u16, len. intros Hc Hc' H. rewrite <- !app_assoc in H.
  apply be_enc_len_inj in H; [|exact Hc|exact Hc']. destruct H as [Hl H].
  apply app_inv_len in H; [exact H|]. apply Nnat.Nat2N.inj. exact Hl.
Qed.

(* the STH signature input determines (timestamp, tree size, root) *)
Lemma sth_siginput_inj ts sz root ts' sz' root' :
  ts_ok ts -> ts_ok sz -> ts_ok ts' -> ts_ok sz' ->
  enc_sth_siginput ts sz root = enc_sth_siginput ts' sz' root' -> ts = ts' /\ sz = sz' /\ root = root'.
Proof.
  unfold ts_ok, enc_sth_siginput, u8, u64. intros H1 H2 H3 H4 H.
  apply be_enc_len_inj in H; [|cbn; lia|cbn; lia]. destruct H as [_ H].
  apply be_enc_len_inj in H; [|cbn; lia|cbn; lia]. destruct H as [_ H].
  apply be_enc_len_inj in H; [|exact H1|exact H3]. destruct H as [-> H].
  rewrite <- (app_nil_r root), <- (app_nil_r root'), !app_assoc in H. rewrite <- !app_assoc in H.
  apply be_enc_len_inj in H; [|exact H2|exact H4]. destruct H as [-> H].
  rewrite !app_nil_r in H. auto.
Qed.

(* the SCT signature input (and hence the Merkle leaf) determines (timestamp, entry, extensions) *)
Lemma sct_siginput_inj ts e ext ts' e' ext' :
  ts_ok ts -> entry_ok e -> ext_ok ext -> ts_ok ts' -> entry_ok e' -> ext_ok ext' ->
  enc_sct_siginput ts e ext = enc_sct_siginput ts' e' ext' -> ts = ts' /\ e = e' /\ ext = ext'.
Proof.
  unfold ts_ok, ext_ok, enc_sct_siginput, u8, u64, u16. intros H1 H2 H3 H4 H5 H6 H.
  apply be_enc_len_inj in H; [|cbn; lia|cbn; lia]. destruct H as [_ H].
  apply be_enc_len_inj in H; [|cbn; lia|cbn; lia]. destruct H as [_ H].
  apply be_enc_len_inj in H; [|exact H1|exact H4]. destruct H as [-> H].
  apply be_enc_len_inj in H; [|destruct e; cbn; lia|destruct e'; cbn; lia]. destruct H as [Ht H].
  destruct e as [c|h t], e' as [c'|h' t']; cbn in Ht; try discriminate; cbn [enc_entry] in H; cbn in H2, H5.
  - apply opaque24_inj in H; [|lia|lia]. destruct H as [-> H].
    rewrite <- (app_nil_r (opaque16 ext)), <- (app_nil_r (opaque16 ext')) in H.
    apply opaque16_inj in H; [|lia|lia]. destruct H as [-> _]. auto.
  - destruct H2 as [Hh Ht1], H5 as [Hh' Ht2]. rewrite <- !app_assoc in H.
    apply app_inv_len in H; [|lia]. destruct H as [-> H].
    apply opaque24_inj in H; [|lia|lia]. destruct H as [-> H].
    rewrite <- (app_nil_r (opaque16 ext)), <- (app_nil_r (opaque16 ext')) in H.
    apply opaque16_inj in H; [|lia|lia]. destruct H as [-> _]. auto.
Qed.

Lemma leaf_is_sct_siginput ts e ext : enc_leaf ts e ext = enc_sct_siginput ts e ext.
Proof. reflexivity. Qed.
