package main

// HTTP-level response classes shared by every endpoint.

import (
	"math/rand"
)

type variant struct {
	name  string
	items []wireItem
}

const htmlPage = "<html><head><title>502 Bad Gateway</title></head><body><h1>Bad Gateway</h1></body></html>\n"

var oddStatuses = []int{400, 403, 404, 408, 429, 500, 502, 503, 0, 99, 100, 201, 204, 206, 304, 600, 999, -1}

func withLoc(w wireItem) wireItem { return w.withHeader("Location", logURI+"/v1/moved") }

// httpFaults: every way a response can be bad below the JSON field level, around a body that
// would be perfectly good with status 200.
func httpFaults(r *rand.Rand, good []byte) []variant {
	var vs []variant
	for _, st := range oddStatuses {
		body, cls := good, "good-body"
		switch r.Intn(3) {
		case 0:
			body, cls = []byte(htmlPage), "html-body"
		case 1:
			body, cls = nil, "empty-body"
		}
		it := resp(st, body, cls)
		if st == 429 || st == 503 {
			it = it.withHeader("Retry-After", []string{"0", "1", "7", "soon", "Sat, 01 Jan 2000 00:02:00 GMT", "-3"}[r.Intn(6)])
		}
		vs = append(vs, variant{name: "status-" + itoa(st) + "-" + cls, items: []wireItem{it}})
	}
	half := good[:len(good)/2]
	vs = append(vs,
		variant{"200-html-page", []wireItem{resp(200, []byte(htmlPage), "html-body").withHeader("Content-Type", "text/html")}},
		variant{"200-empty-body", []wireItem{resp(200, nil, "empty-body")}},
		variant{"200-truncated-json", []wireItem{resp(200, half, "truncated-json")}},
		variant{"200-json-null", []wireItem{resp(200, []byte("null"), "json-null")}},
		variant{"200-json-array", []wireItem{resp(200, []byte("[]"), "json-array")}},
		variant{"200-json-string", []wireItem{resp(200, []byte(`"ok"`), "json-string")}},
		variant{"200-json-empty-object", []wireItem{resp(200, []byte("{}"), "json-empty-object")}},
		variant{"200-json-trailing-garbage", []wireItem{resp(200, append(append([]byte{}, good...), []byte(" trailing garbage")...), "json-trailing")}},
		variant{"200-json-twice", []wireItem{resp(200, append(append([]byte{}, good...), good...), "json-twice")}},
		variant{"200-good-as-text-html", []wireItem{resp(200, good, "good-body").withHeader("Content-Type", "text/html")}},
		variant{"transport-error", []wireItem{{Transport: true, ReadFail: -1, Class: "transport-error"}}},
		variant{"context-ended", nil},
		variant{"200-read-fails-midway", []wireItem{{Status: 200, Body: good, ReadFail: len(good) / 2, Class: "read-fail"}}},
		variant{"200-read-fails-at-end", []wireItem{{Status: 200, Body: good, ReadFail: len(good), Class: "read-fail"}}},
		variant{"500-read-fails", []wireItem{{Status: 500, Body: []byte(htmlPage), ReadFail: 10, Class: "read-fail"}}},
		variant{"200-close-fails", []wireItem{{Status: 200, Body: good, ReadFail: -1, CloseFail: true, Class: "close-fail"}}},
		variant{"500-close-fails", []wireItem{{Status: 500, Body: []byte(htmlPage), ReadFail: -1, CloseFail: true, Class: "close-fail"}}},
		variant{"302-then-good", []wireItem{withLoc(resp(302, []byte("moved"), "redirect")), resp(200, good, "good-body")}},
		variant{"301-then-good", []wireItem{withLoc(resp(301, nil, "redirect")), resp(200, good, "good-body")}},
		variant{"307-then-good", []wireItem{withLoc(resp(307, nil, "redirect")), resp(200, good, "good-body")}},
		variant{"308-then-500", []wireItem{withLoc(resp(308, nil, "redirect")), resp(500, []byte(htmlPage), "html-body")}},
		variant{"303-then-transport-error", []wireItem{withLoc(resp(303, nil, "redirect")), {Transport: true, ReadFail: -1, Class: "transport-error"}}},
		variant{"302-then-nothing", []wireItem{withLoc(resp(302, nil, "redirect"))}},
		variant{"302-without-location", []wireItem{resp(302, good, "good-body")}},
	)
	return vs
}

func itoa(n int) string {
	if n < 0 {
		return "m" + itoa(-n)
	}
	if n < 10 {
		return string(rune('0' + n))
	}
	return itoa(n/10) + string(rune('0'+n%10))
}

func printable(b []byte) string {
	const max = 300
	s := make([]byte, 0, max)
	for i, c := range b {
		if i >= max {
			s = append(s, "..."...)
			break
		}
		if c < 32 || c > 126 {
			c = '.'
		}
		s = append(s, c)
	}
	return string(s)
}

// finish fills the replay text of the items and registers every byte string the client may read
func finish(items []wireItem, bodies *bodyTable) []wireItem {
	for i := range items {
		items[i].BodyText = printable(items[i].Body)
		bodies.id(items[i].Body)
		if f := items[i].ReadFail; f >= 0 && f < len(items[i].Body) {
			bodies.id(items[i].Body[:f])
		}
	}
	return items
}
