// retshape summarises, from /repo's CURRENT source (go/ast + go/types, no build needed), every
// `return` statement of the X.509 parse functions named in gen/targets/X509Returns.json and
// emits the summaries as a Coq list (coq/gen/X509Returns.v).  The obligation closed in Coq is
// `forallb (shape_ok ...) returns = true` (coq/X509/WrapperShape.v), which the generic lemma
// shape_sound turns into "every execution of every listed function satisfies its contract"
// ((object, nil | non-fatal) or (nil, fatal), never the mixed cases).
//
// The summary of a return is what a small abstract interpreter can establish syntactically:
//   - the object / error expression is nil, a constructor (&x, new, make, composite literal,
//     errors.New, fmt.Errorf, asn1.SyntaxError{...}), a NonFatalErrors value, `&errs` of type
//     Errors (with what is known about errs.Fatal()), an element of a NonFatalErrors list, or
//     a variable that holds a result of an earlier call;
//   - for every earlier call so referred to (or tested on the way): which error kinds
//     (nil / NonFatalErrors / other) and which object nil-ness the enclosing conditions
//     `err != nil`, `err == nil`, `_, ok := err.(NonFatalErrors); !ok`, `x == nil` still allow.
//
// The interpreter is flow-sensitive (if / for / range / switch with joins, loops to a fixpoint),
// treats every variable whose address is taken or that a closure assigns as unknown, forgets a
// call's results when the call site is executed again, and classifies everything it does not
// understand as Top, which makes the Coq obligation fail rather than pass silently.  Go outside
// the supported statement subset (goto, labels, defer, go, select, fallthrough) aborts.
//
// Usage: retshape -repo /repo -config ../gen/targets/X509Returns.json -out coq/gen/X509Returns.v
package main

import (
	"bytes"
	"crypto/sha256"
	"encoding/json"
	"flag"
	"fmt"
	"go/ast"
	"go/parser"
	"go/printer"
	"go/token"
	"go/types"
	"os"
	"path/filepath"
	"sort"
	"strings"
)

type variant struct {
	Name           string `json:"name"`
	Of             string `json:"of"`
	Contract       string `json:"contract"`
	SwitchTagParam int    `json:"switch_tag_param"`
	RangeFunc      string `json:"range_func"`
	Excluded       string `json:"excluded"`
}

type config struct {
	Dir            string            `json:"dir"`
	Files          []string          `json:"files"`
	Functions      map[string]string `json:"functions"`
	Closures       map[string]string `json:"closures"`
	Variants       []variant         `json:"variants"`
	Scan           []string          `json:"scan"`
	ExternPackages []string          `json:"extern_packages"`
	ExternMethods  []string          `json:"extern_methods"`
	FatalCtors     []string          `json:"fatal_ctors"`
	NonnilExprs    []string          `json:"nonnil_exprs"`
	NfeType        string            `json:"nfe_type"`
	ErrsType       string            `json:"errs_type"`
	ErrorTable     struct {
		Var        string `json:"var"`
		IDField    string `json:"id_field"`
		FatalField string `json:"fatal_field"`
	} `json:"error_table"`
}

var fset = token.NewFileSet()

func src(n ast.Node) string {
	var b bytes.Buffer
	printer.Fprint(&b, fset, n)
	return b.String()
}

func die(f string, a ...interface{}) {
	fmt.Fprintf(os.Stderr, "RETSHAPE-ABORT "+f+"\n", a...)
	os.Exit(2)
}

func posStr(p token.Pos) string {
	q := fset.Position(p)
	return fmt.Sprintf("%s:%d", filepath.Base(q.Filename), q.Line)
}

type fakeImporter struct{}

func (fakeImporter) Import(path string) (*types.Package, error) {
	name := path
	if i := strings.LastIndex(path, "/"); i >= 0 {
		name = path[i+1:]
	}
	p := types.NewPackage(path, name)
	p.MarkComplete()
	return p, nil
}

// ---------------------------------------------------------------- abstract values

const (
	kN   = 1 // err == nil
	kNFE = 2 // err.(NonFatalErrors) succeeds
	kO   = 4 // neither
	oNil = 1
	oNN  = 2
)

type atom struct {
	k  string // nil nonnil fatal nfe errsF errsNF errsU callobj callerr nfeelem top ta
	id int
}

type absval map[atom]bool

func av(as ...atom) absval {
	v := absval{}
	for _, a := range as {
		v[a] = true
	}
	return v
}

var top = atom{k: "top"}

func (v absval) clone() absval {
	o := absval{}
	for a := range v {
		o[a] = true
	}
	return o
}

func (v absval) single() (atom, bool) {
	if len(v) != 1 {
		return atom{}, false
	}
	for a := range v {
		return a, true
	}
	return atom{}, false
}

func (v absval) sorted() []atom {
	var as []atom
	for a := range v {
		as = append(as, a)
	}
	sort.Slice(as, func(i, j int) bool {
		if as[i].k != as[j].k {
			return as[i].k < as[j].k
		}
		return as[i].id < as[j].id
	})
	return as
}

type callInfo struct {
	callee      string
	kinds, objs uint8
	must        bool // executed on every path that reaches this point
}

type state struct {
	vars      map[types.Object]absval
	calls     map[int]callInfo
	errs      map[types.Object]string // Errors-typed locals: "F" "NF" "U"
	lastLv    string                  // text of the non-identifier lvalue assigned by the previous statement
	lastLvVal absval
}

func newState() *state {
	return &state{vars: map[types.Object]absval{}, calls: map[int]callInfo{}, errs: map[types.Object]string{}}
}

func (s *state) clone() *state {
	o := newState()
	for k, v := range s.vars {
		o.vars[k] = v.clone()
	}
	for k, v := range s.calls {
		o.calls[k] = v
	}
	for k, v := range s.errs {
		o.errs[k] = v
	}
	o.lastLv, o.lastLvVal = s.lastLv, s.lastLvVal
	return o
}

// join of two states (nil = unreachable)
func join(a, b *state) *state {
	if a == nil {
		return b
	}
	if b == nil {
		return a
	}
	o := a.clone()
	o.lastLv, o.lastLvVal = "", nil
	for k, v := range b.vars {
		if ov, ok := o.vars[k]; ok {
			for x := range v {
				ov[x] = true
			}
		} else {
			o.vars[k] = v.clone()
		}
	}
	o.calls = joinCalls(a.calls, b.calls)
	for k, v := range b.errs {
		if ov, ok := o.errs[k]; ok && ov != v {
			o.errs[k] = "U"
		} else if !ok {
			o.errs[k] = v
		}
	}
	for k := range o.errs {
		if _, ok := b.errs[k]; !ok {
			_ = k // only known on one side: keep (the variable is out of scope on the other)
		}
	}
	return o
}

// a call known on one side only was not executed on the other side's paths
func joinCalls(a, b map[int]callInfo) map[int]callInfo {
	o := map[int]callInfo{}
	for k, v := range a {
		if w, ok := b[k]; ok {
			v.kinds |= w.kinds
			v.objs |= w.objs
			v.must = v.must && w.must
		} else {
			v.must = false
		}
		o[k] = v
	}
	for k, w := range b {
		if _, ok := a[k]; !ok {
			w.must = false
			o[k] = w
		}
	}
	return o
}

func equalState(a, b *state) bool {
	if a == nil || b == nil {
		return a == b
	}
	if len(a.vars) != len(b.vars) || len(a.calls) != len(b.calls) || len(a.errs) != len(b.errs) {
		return false
	}
	for k, v := range a.vars {
		w, ok := b.vars[k]
		if !ok || len(v) != len(w) {
			return false
		}
		for x := range v {
			if !w[x] {
				return false
			}
		}
	}
	for k, v := range a.calls {
		if w, ok := b.calls[k]; !ok || w != v {
			return false
		}
	}
	for k, v := range a.errs {
		if w, ok := b.errs[k]; !ok || w != v {
			return false
		}
	}
	return true
}

// ---------------------------------------------------------------- analyser

type retRec struct {
	pos    token.Pos
	tail   string
	obj    absval
	err    absval
	calls  map[int]callInfo
	hasObj bool
}

type addRec struct {
	fn    string
	pos   token.Pos
	err   absval
	calls map[int]callInfo
}

type sig struct {
	nres   int
	errIdx int // index of the `error` result, -1 if none
	objIdx int // index of the object result, -1 if none
}

type analyzer struct {
	cfg         config
	info        *types.Info
	pkg         *types.Package
	decls       map[string]*ast.FuncDecl
	contracts   map[string]string // emitted function name -> contract
	sigs        map[string]sig
	fatalID     map[string]bool
	idOrder     []string
	externs     map[string]bool
	addSeen     map[token.Pos]bool
	litSeen     map[*ast.FuncLit]bool
	adds        []addRec
	results     map[string][]*retRec
	closureOf   map[types.Object]string // local func variable / func-typed parameter -> emitted name
	nfeAsserted map[types.Object]bool
	pending     []pendingLit
	covers      []string
}

type pendingLit struct {
	name string
	lit  *ast.FuncLit
}

type ctx struct {
	loop      bool
	breaks    []*state
	continues []*state
}

type fnAn struct {
	a         *analyzer
	name      string
	emit      bool // returns are emitted (false for scan-only functions)
	ftype     *ast.FuncType
	results   []types.Object // named results (nil entries for unnamed)
	sg        sig
	callIDs   map[token.Pos]int
	rets      map[token.Pos]*retRec
	alwaysTop map[types.Object]bool
	stack     []*ctx
	skip      map[ast.Node]bool // clauses treated as unreachable (variant analysis)
	enclosing *ast.FuncDecl
	variantOK map[token.Pos]string // call position -> variant name established syntactically
}

func (a *analyzer) objOf(id *ast.Ident) types.Object {
	if o := a.info.Defs[id]; o != nil {
		return o
	}
	return a.info.Uses[id]
}

func (a *analyzer) namedIs(t types.Type, name string) bool {
	n, ok := t.(*types.Named)
	return ok && n.Obj().Name() == name && n.Obj().Pkg() == a.pkg
}

func (a *analyzer) isNfeVal(o types.Object) bool {
	if o != nil && a.nfeAsserted[o] {
		return true // bound by `o, ok := e.(NonFatalErrors)` (its static type may be unknown to the fake importer)
	}
	return o != nil && o.Type() != nil && a.namedIs(o.Type(), a.cfg.NfeType)
}

func (a *analyzer) isNfeAny(o types.Object) bool {
	if o == nil || o.Type() == nil {
		return false
	}
	if a.nfeAsserted[o] || a.namedIs(o.Type(), a.cfg.NfeType) {
		return true
	}
	if p, ok := o.Type().(*types.Pointer); ok {
		return a.namedIs(p.Elem(), a.cfg.NfeType)
	}
	return false
}

func (a *analyzer) isErrsVal(o types.Object) bool {
	return o != nil && o.Type() != nil && a.namedIs(o.Type(), a.cfg.ErrsType)
}

func (a *analyzer) isErrsAny(o types.Object) bool {
	if a.isErrsVal(o) {
		return true
	}
	if o == nil || o.Type() == nil {
		return false
	}
	if p, ok := o.Type().(*types.Pointer); ok {
		return a.namedIs(p.Elem(), a.cfg.ErrsType)
	}
	return false
}

func isNilIdent(a *analyzer, e ast.Expr) bool {
	id, ok := e.(*ast.Ident)
	if !ok || id.Name != "nil" {
		return false
	}
	_, isNil := a.info.Uses[id].(*types.Nil)
	return isNil
}

func inList(l []string, s string) bool {
	for _, x := range l {
		if x == s {
			return true
		}
	}
	return false
}

// zero value class of a variable of type t
func zeroVal(t types.Type) absval {
	if t == nil {
		return av(top)
	}
	switch u := t.Underlying().(type) {
	case *types.Pointer, *types.Slice, *types.Map, *types.Interface, *types.Signature, *types.Chan:
		_ = u
		return av(atom{k: "nil"})
	}
	return av(top)
}

func (f *fnAn) val(s *state, o types.Object) absval {
	if o == nil {
		return av(top)
	}
	if f.a.isNfeVal(o) {
		return av(atom{k: "nfe"})
	}
	if f.alwaysTop[o] {
		return av(top)
	}
	if v, ok := s.vars[o]; ok {
		return v
	}
	return av(top)
}

func (f *fnAn) callID(p token.Pos) int {
	if id, ok := f.callIDs[p]; ok {
		return id
	}
	id := len(f.callIDs) + 1
	f.callIDs[p] = id
	return id
}

// resolveCallee: (name, kind) with kind "tracked", "extern" or "".
func (f *fnAn) resolveCallee(call *ast.CallExpr) (string, string) {
	a := f.a
	switch fun := call.Fun.(type) {
	case *ast.Ident:
		switch o := a.info.Uses[fun].(type) {
		case *types.Func:
			name := o.Name()
			if v, ok := f.variantOK[call.Pos()]; ok {
				name = v
			}
			if _, ok := a.contracts[name]; ok {
				return name, "tracked"
			}
		case *types.Var:
			if n, ok := a.closureOf[o]; ok {
				if _, ok := a.contracts[n]; ok {
					return n, "tracked"
				}
			}
		}
	case *ast.SelectorExpr:
		if x, ok := fun.X.(*ast.Ident); ok {
			if pn, ok := a.info.Uses[x].(*types.PkgName); ok {
				if inList(a.cfg.ExternPackages, pn.Name()) {
					return pn.Name() + "." + fun.Sel.Name, "extern"
				}
				return "", ""
			}
		}
		if inList(a.cfg.ExternMethods, fun.Sel.Name) {
			return "method." + fun.Sel.Name, "extern"
		}
	}
	return "", ""
}

// evalExpr classifies an expression in object / error position.
func (f *fnAn) evalExpr(e ast.Expr, s *state) absval {
	a := f.a
	switch x := e.(type) {
	case *ast.ParenExpr:
		return f.evalExpr(x.X, s)
	case *ast.Ident:
		if isNilIdent(a, x) {
			return av(atom{k: "nil"})
		}
		o := a.objOf(x)
		if _, ok := o.(*types.Var); ok {
			if a.isErrsVal(o) {
				return av(top) // an Errors VALUE is not an error (only *Errors is); never returned as such
			}
			return f.val(s, o).clone()
		}
		return av(top)
	case *ast.UnaryExpr:
		if x.Op == token.AND {
			if id, ok := x.X.(*ast.Ident); ok {
				o := a.objOf(id)
				if a.isErrsVal(o) {
					st, ok := s.errs[o]
					if !ok {
						st = "U"
					}
					return av(atom{k: "errs" + st})
				}
				if a.isNfeVal(o) {
					return av(top) // *NonFatalErrors is NOT what IsFatal looks for
				}
			}
			return av(atom{k: "nonnil"})
		}
	case *ast.CompositeLit:
		if x.Type != nil && inList(a.cfg.FatalCtors, src(x.Type)) {
			return av(atom{k: "fatal"})
		}
		return av(atom{k: "nonnil"})
	case *ast.CallExpr:
		ft := src(x.Fun)
		if id, ok := x.Fun.(*ast.Ident); ok {
			if _, isB := a.info.Uses[id].(*types.Builtin); isB && (id.Name == "new" || id.Name == "make") {
				return av(atom{k: "nonnil"})
			}
		}
		if inList(a.cfg.FatalCtors, ft) {
			return av(atom{k: "fatal"})
		}
		if inList(a.cfg.NonnilExprs, ft) {
			return av(atom{k: "nonnil"})
		}
	case *ast.IndexExpr:
		if sel, ok := x.X.(*ast.SelectorExpr); ok && sel.Sel.Name == "Errors" {
			if id, ok := sel.X.(*ast.Ident); ok && a.isNfeAny(a.objOf(id)) {
				return av(atom{k: "nfeelem"})
			}
		}
	}
	return av(top)
}

// snapshot of the calls an abstract value refers to, plus every constrained call of the state
func snapshotCalls(s *state, vals ...absval) map[int]callInfo {
	out := map[int]callInfo{}
	for id, ci := range s.calls {
		out[id] = ci
	}
	return out
}

// what is worth printing: calls an atom refers to, and calls that are constrained
func relevantCalls(cs map[int]callInfo, vals ...absval) map[int]callInfo {
	out := map[int]callInfo{}
	for _, v := range vals {
		for at := range v {
			if at.k == "callobj" || at.k == "callerr" {
				if ci, ok := cs[at.id]; ok {
					out[at.id] = ci
				}
			}
		}
	}
	for id, ci := range cs {
		if ci.kinds != kN|kNFE|kO || ci.objs != oNil|oNN {
			out[id] = ci
		}
	}
	return out
}

// effects: AddID / AddError / &errs escapes / function literals inside an expression.
func (f *fnAn) effects(e ast.Node, s *state) {
	if e == nil {
		return
	}
	a := f.a
	ast.Inspect(e, func(n ast.Node) bool {
		switch x := n.(type) {
		case *ast.FuncLit:
			if !a.litSeen[x] {
				die("%s: function literal at %s has no name in the configuration (closures)", f.name, posStr(x.Pos()))
			}
			return false
		case *ast.CallExpr:
			// register function literals passed to parameters of listed functions
			if name, kind := f.resolveCallee(x); kind == "tracked" {
				base := name
				if i := strings.Index(base, "#"); i >= 0 {
					base = base[:i]
				}
				if fd, ok := a.decls[base]; ok {
					pi := 0
					for _, fld := range fd.Type.Params.List {
						for _, pn := range fld.Names {
							if pi < len(x.Args) {
								if lit, ok := x.Args[pi].(*ast.FuncLit); ok {
									a.registerLit(base+"."+pn.Name, lit, f)
								}
							}
							pi++
						}
					}
				}
			}
			if sel, ok := x.Fun.(*ast.SelectorExpr); ok {
				if id, ok := sel.X.(*ast.Ident); ok {
					o := a.objOf(id)
					if sel.Sel.Name == "AddID" && a.isErrsAny(o) && len(x.Args) > 0 {
						if a.isErrsVal(o) {
							fatal, known := false, false
							if aid, ok := x.Args[0].(*ast.Ident); ok {
								if fv, ok := a.fatalID[aid.Name]; ok {
									fatal, known = fv, true
								}
							}
							cur, ok := s.errs[o]
							if !ok {
								cur = "U"
							}
							switch {
							case !known:
								s.errs[o] = "U"
							case fatal:
								s.errs[o] = "F"
							default:
								s.errs[o] = cur // a non-fatal entry changes nothing about Fatal()
							}
						}
					}
					if sel.Sel.Name == "AddError" && a.isNfeAny(o) && len(x.Args) == 1 {
						v := f.evalExpr(x.Args[0], s)
						a.addSeen[x.Pos()] = true
						a.adds = append(a.adds, addRec{fn: f.name, pos: x.Pos(), err: v, calls: snapshotCalls(s, v)})
					}
				}
			}
			for _, arg := range x.Args {
				if u, ok := arg.(*ast.UnaryExpr); ok && u.Op == token.AND {
					if id, ok := u.X.(*ast.Ident); ok {
						if o := a.objOf(id); a.isErrsVal(o) {
							s.errs[o] = "U"
						}
					}
				}
			}
		}
		return true
	})
}

func (a *analyzer) registerLit(name string, lit *ast.FuncLit, from *fnAn) {
	if a.litSeen[lit] {
		return
	}
	if _, ok := a.contracts[name]; !ok {
		die("function literal at %s would be %q, which is not in the configuration (closures)", posStr(lit.Pos()), name)
	}
	a.litSeen[lit] = true
	sg, _ := a.sigOf(lit.Type)
	if old, ok := a.sigs[name]; ok && old != sg {
		die("function literal at %s: result shape differs from the other implementations of %s", posStr(lit.Pos()), name)
	}
	a.sigs[name] = sg
	a.pending = append(a.pending, pendingLit{name, lit})
}

// kill: call site id is executed again - whatever still refers to its previous execution is unknown
func (s *state) kill(id int) {
	for o, v := range s.vars {
		ch := false
		for at := range v {
			if (at.k == "callobj" || at.k == "callerr" || at.k == "ta") && at.id == id {
				delete(v, at)
				ch = true
			}
		}
		if ch {
			v[top] = true
			s.vars[o] = v
		}
	}
	delete(s.calls, id)
}

func (f *fnAn) setVar(s *state, e ast.Expr, v absval) {
	id, ok := e.(*ast.Ident)
	if !ok || id.Name == "_" {
		return
	}
	if o := f.a.objOf(id); o != nil {
		if _, isVar := o.(*types.Var); isVar {
			s.vars[o] = v
		}
	}
}

// assign handles lhs = rhs / lhs := rhs.
func (f *fnAn) assign(lhs, rhs []ast.Expr, s *state) {
	a := f.a
	for _, r := range rhs {
		if _, isLit := r.(*ast.FuncLit); !isLit {
			f.effects(r, s)
		}
	}
	for _, l := range lhs { // index / selector expressions on the left may contain calls
		if _, ok := l.(*ast.Ident); !ok {
			f.effects(l, s)
		}
	}
	if len(rhs) == 1 {
		switch r := rhs[0].(type) {
		case *ast.FuncLit:
			// `name := func(...) {...}`
			if id, ok := lhs[0].(*ast.Ident); ok && len(lhs) == 1 {
				o := a.objOf(id)
				name := f.name + "." + id.Name
				if i := strings.Index(f.name, "#"); i >= 0 {
					name = f.name[:i] + "." + id.Name
				}
				a.closureOf[o] = name
				a.registerLit(name, r, f)
				return
			}
		case *ast.CallExpr:
			cls := f.evalExpr(r, s)
			if _, isTop := cls[top]; !isTop {
				for i, l := range lhs {
					if i == 0 {
						f.setVar(s, l, cls)
					} else {
						f.setVar(s, l, av(top))
					}
				}
				return
			}
			if name, kind := f.resolveCallee(r); kind != "" {
				id := f.callID(r.Pos())
				s.kill(id)
				s.calls[id] = callInfo{callee: name, kinds: kN | kNFE | kO, objs: oNil | oNN, must: true}
				sg := sig{nres: len(lhs), errIdx: len(lhs) - 1, objIdx: -1}
				if kind == "tracked" {
					sg = a.sigs[name]
					if sg.nres != len(lhs) {
						die("%s: call of %s at %s binds %d results, the function has %d", f.name, name, posStr(r.Pos()), len(lhs), sg.nres)
					}
				} else {
					a.externs[name] = true
				}
				for i, l := range lhs {
					var v absval
					switch {
					case i == sg.errIdx:
						v = av(atom{k: "callerr", id: id})
					case i == sg.objIdx:
						v = av(atom{k: "callobj", id: id})
					default:
						v = av(top)
					}
					if _, isId := l.(*ast.Ident); isId {
						f.setVar(s, l, v)
					} else if len(lhs) == 1 {
						s.lastLv, s.lastLvVal = src(l), v
					}
				}
				return
			}
		case *ast.TypeAssertExpr:
			if len(lhs) == 2 && r.Type != nil {
				if tid, ok := r.Type.(*ast.Ident); ok && tid.Name == a.cfg.NfeType {
					if xid, ok := r.X.(*ast.Ident); ok {
						if at, ok := f.val(s, a.objOf(xid)).single(); ok && at.k == "callerr" {
							f.setVar(s, lhs[0], av(atom{k: "nfe"}))
							f.setVar(s, lhs[1], av(atom{k: "ta", id: at.id}))
							return
						}
					}
				}
			}
		}
	}
	if len(lhs) == len(rhs) {
		vals := make([]absval, len(rhs))
		for i, r := range rhs {
			vals[i] = f.evalExpr(r, s)
		}
		for i, l := range lhs {
			f.setVar(s, l, vals[i])
		}
		return
	}
	for _, l := range lhs {
		f.setVar(s, l, av(top))
	}
}

func (f *fnAn) refine(cond ast.Expr, s *state, truth bool) *state {
	a := f.a
	switch c := cond.(type) {
	case *ast.ParenExpr:
		return f.refine(c.X, s, truth)
	case *ast.UnaryExpr:
		if c.Op == token.NOT {
			return f.refine(c.X, s, !truth)
		}
	case *ast.BinaryExpr:
		switch c.Op {
		case token.LAND, token.LOR:
			and := c.Op == token.LAND
			if and == truth { // both operands have the value `truth`
				return f.refine(c.Y, f.refine(c.X, s, truth), truth)
			}
			return join(f.refine(c.X, s, !and), f.refine(c.Y, f.refine(c.X, s, and), !and))
		case token.EQL, token.NEQ:
			var other ast.Expr
			if isNilIdent(a, c.Y) {
				other = c.X
			} else if isNilIdent(a, c.X) {
				other = c.Y
			}
			if other == nil {
				return s
			}
			isNil := (c.Op == token.EQL) == truth
			var v absval
			if id, ok := other.(*ast.Ident); ok {
				v = f.val(s, a.objOf(id))
			} else if s.lastLv != "" && src(other) == s.lastLv {
				v = s.lastLvVal
			}
			at, ok := v.single()
			if !ok {
				return s
			}
			o := s.clone()
			ci, have := o.calls[at.id]
			if !have {
				return s
			}
			switch at.k {
			case "callerr":
				if isNil {
					ci.kinds &= kN
				} else {
					ci.kinds &= kNFE | kO
				}
			case "callobj":
				if isNil {
					ci.objs &= oNil
				} else {
					ci.objs &= oNN
				}
			default:
				return s
			}
			o.calls[at.id] = ci
			return o
		}
	case *ast.Ident:
		if at, ok := f.val(s, a.objOf(c)).single(); ok && at.k == "ta" {
			if ci, have := s.calls[at.id]; have {
				o := s.clone()
				if truth {
					ci.kinds &= kNFE
				} else {
					ci.kinds &= kN | kO
				}
				o.calls[at.id] = ci
				return o
			}
		}
	case *ast.CallExpr:
		if sel, ok := c.Fun.(*ast.SelectorExpr); ok && sel.Sel.Name == "Fatal" && len(c.Args) == 0 {
			if id, ok := sel.X.(*ast.Ident); ok {
				if o := a.objOf(id); a.isErrsVal(o) && !f.alwaysTopErrs(o) {
					ns := s.clone()
					if truth {
						ns.errs[o] = "F"
					} else {
						ns.errs[o] = "NF"
					}
					return ns
				}
			}
		}
	}
	return s
}

func (f *fnAn) alwaysTopErrs(o types.Object) bool { return false }

func (f *fnAn) record(r *ast.ReturnStmt, s *state) {
	a := f.a
	for _, e := range r.Results {
		f.effects(e, s)
	}
	if !f.emit {
		return
	}
	rec := &retRec{pos: r.Pos()}
	switch {
	case len(r.Results) == 1 && f.sg.nres > 1:
		call, ok := r.Results[0].(*ast.CallExpr)
		if !ok {
			die("%s: return at %s", f.name, posStr(r.Pos()))
		}
		name, kind := f.resolveCallee(call)
		if kind == "" {
			name = "?" + src(call.Fun)
		}
		if kind == "extern" {
			a.externs[name] = true
		}
		rec.tail = name
	case len(r.Results) == 0:
		if f.sg.nres > 0 && len(f.results) != f.sg.nres {
			die("%s: bare return without named results at %s", f.name, posStr(r.Pos()))
		}
		rec.obj, rec.err = av(top), av(atom{k: "nil"})
		if f.sg.objIdx >= 0 {
			rec.obj = f.val(s, f.results[f.sg.objIdx]).clone()
		}
		if f.sg.errIdx >= 0 {
			rec.err = f.val(s, f.results[f.sg.errIdx]).clone()
		}
	default:
		if len(r.Results) != f.sg.nres {
			die("%s: return at %s has %d results, expected %d", f.name, posStr(r.Pos()), len(r.Results), f.sg.nres)
		}
		rec.obj, rec.err = av(top), av(atom{k: "nil"})
		if f.sg.objIdx >= 0 {
			rec.obj = f.evalExpr(r.Results[f.sg.objIdx], s)
		}
		if f.sg.errIdx >= 0 {
			rec.err = f.evalExpr(r.Results[f.sg.errIdx], s)
		}
	}
	if rec.tail == "" {
		rec.calls = snapshotCalls(s, rec.obj, rec.err)
	}
	if old, ok := f.rets[r.Pos()]; ok && rec.tail == "" { // revisited (loop): join
		for at := range old.obj {
			rec.obj[at] = true
		}
		for at := range old.err {
			rec.err[at] = true
		}
		rec.calls = joinCalls(old.calls, rec.calls)
	}
	f.rets[r.Pos()] = rec
}

func (f *fnAn) block(stmts []ast.Stmt, s *state) *state {
	for _, st := range stmts {
		if s == nil {
			return nil
		}
		prev := s.lastLv
		s = f.stmt(st, s)
		if s != nil && s.lastLv == prev && prev != "" {
			s.lastLv, s.lastLvVal = "", nil
		}
	}
	return s
}

func (f *fnAn) innermost(loopOnly bool) *ctx {
	for i := len(f.stack) - 1; i >= 0; i-- {
		if !loopOnly || f.stack[i].loop {
			return f.stack[i]
		}
	}
	return nil
}

func (f *fnAn) stmt(st ast.Stmt, s *state) *state {
	a := f.a
	switch x := st.(type) {
	case nil:
		return s
	case *ast.EmptyStmt:
		return s
	case *ast.BlockStmt:
		return f.block(x.List, s)
	case *ast.ReturnStmt:
		f.record(x, s)
		return nil
	case *ast.ExprStmt:
		f.effects(x.X, s)
		return s
	case *ast.IncDecStmt:
		f.setVar(s, x.X, av(top))
		return s
	case *ast.AssignStmt:
		if x.Tok != token.ASSIGN && x.Tok != token.DEFINE {
			for _, r := range x.Rhs {
				f.effects(r, s)
			}
			for _, l := range x.Lhs {
				f.setVar(s, l, av(top))
			}
			return s
		}
		f.assign(x.Lhs, x.Rhs, s)
		return s
	case *ast.DeclStmt:
		gd, ok := x.Decl.(*ast.GenDecl)
		if !ok {
			die("%s: declaration at %s", f.name, posStr(x.Pos()))
		}
		if gd.Tok != token.VAR {
			return s
		}
		for _, sp := range gd.Specs {
			vs := sp.(*ast.ValueSpec)
			if len(vs.Values) > 0 {
				lhs := make([]ast.Expr, len(vs.Names))
				for i, n := range vs.Names {
					lhs[i] = n
				}
				f.assign(lhs, vs.Values, s)
				continue
			}
			for _, n := range vs.Names {
				o := a.info.Defs[n]
				if o == nil {
					continue
				}
				if a.isErrsVal(o) {
					s.errs[o] = "NF"
					continue
				}
				s.vars[o] = zeroVal(o.Type())
			}
		}
		return s
	case *ast.IfStmt:
		s = f.stmt(x.Init, s)
		if s == nil {
			return nil
		}
		f.effects(x.Cond, s)
		st1 := f.refine(x.Cond, s.clone(), true)
		st0 := f.refine(x.Cond, s.clone(), false)
		out1 := f.block(x.Body.List, st1)
		var out0 *state
		if x.Else != nil {
			out0 = f.stmt(x.Else, st0)
		} else {
			out0 = st0
		}
		return join(out1, out0)
	case *ast.ForStmt, *ast.RangeStmt:
		var init, post ast.Stmt
		var cond ast.Expr
		var body *ast.BlockStmt
		var rng *ast.RangeStmt
		if fs, ok := x.(*ast.ForStmt); ok {
			init, post, cond, body = fs.Init, fs.Post, fs.Cond, fs.Body
		} else {
			rng = x.(*ast.RangeStmt)
			body = rng.Body
		}
		s = f.stmt(init, s)
		if s == nil {
			return nil
		}
		if rng != nil {
			f.effects(rng.X, s)
		}
		entry := s
		head := entry.clone()
		var c *ctx
		for iter := 0; ; iter++ {
			if iter > 20 {
				die("%s: loop at %s does not stabilise", f.name, posStr(x.Pos()))
			}
			c = &ctx{loop: true}
			f.stack = append(f.stack, c)
			in := head.clone()
			if cond != nil {
				f.effects(cond, in)
				in = f.refine(cond, in, true)
			}
			if rng != nil {
				if rng.Key != nil {
					f.setVar(in, rng.Key, av(top))
				}
				if rng.Value != nil {
					f.setVar(in, rng.Value, av(top))
				}
			}
			out := f.block(body.List, in)
			f.stack = f.stack[:len(f.stack)-1]
			for _, cs := range c.continues {
				out = join(out, cs)
			}
			if out != nil && post != nil {
				out = f.stmt(post, out)
			}
			nh := join(entry.clone(), out)
			if equalState(nh, head) {
				break
			}
			head = nh
		}
		var exit *state
		if cond != nil {
			exit = f.refine(cond, head.clone(), false)
		} else if rng != nil {
			exit = head.clone()
		}
		for _, b := range c.breaks {
			exit = join(exit, b)
		}
		return exit
	case *ast.SwitchStmt, *ast.TypeSwitchStmt:
		var init ast.Stmt
		var body *ast.BlockStmt
		if sw, ok := x.(*ast.SwitchStmt); ok {
			init, body = sw.Init, sw.Body
			s = f.stmt(init, s)
			if s == nil {
				return nil
			}
			f.effects(sw.Tag, s)
		} else {
			ts := x.(*ast.TypeSwitchStmt)
			init, body = ts.Init, ts.Body
			s = f.stmt(init, s)
			if s == nil {
				return nil
			}
			f.effects(ts.Assign, s)
		}
		c := &ctx{}
		f.stack = append(f.stack, c)
		var exit *state
		hasDefault := false
		for _, cl := range body.List {
			cc := cl.(*ast.CaseClause)
			if cc.List == nil {
				hasDefault = true
			}
			if f.skip[cc] {
				continue
			}
			in := s.clone()
			for _, e := range cc.List {
				f.effects(e, in)
			}
			for _, bs := range cc.Body {
				if br, ok := bs.(*ast.BranchStmt); ok && br.Tok == token.FALLTHROUGH {
					die("%s: fallthrough at %s", f.name, posStr(br.Pos()))
				}
			}
			exit = join(exit, f.block(cc.Body, in))
		}
		f.stack = f.stack[:len(f.stack)-1]
		if !hasDefault {
			exit = join(exit, s)
		}
		for _, b := range c.breaks {
			exit = join(exit, b)
		}
		return exit
	case *ast.BranchStmt:
		if x.Label != nil {
			die("%s: labelled branch at %s", f.name, posStr(x.Pos()))
		}
		switch x.Tok {
		case token.BREAK:
			c := f.innermost(false)
			if c == nil {
				die("%s: break outside loop/switch at %s", f.name, posStr(x.Pos()))
			}
			c.breaks = append(c.breaks, s)
			return nil
		case token.CONTINUE:
			c := f.innermost(true)
			if c == nil {
				die("%s: continue outside loop at %s", f.name, posStr(x.Pos()))
			}
			c.continues = append(c.continues, s)
			return nil
		}
		die("%s: unsupported branch statement at %s", f.name, posStr(x.Pos()))
	}
	die("%s: unsupported statement %T at %s", f.name, st, posStr(st.Pos()))
	return nil
}

// vars that are address-taken (other than Errors / NonFatalErrors values, handled on their own)
// or assigned inside a nested function literal are unknown everywhere.
func (a *analyzer) computeAlwaysTop(body *ast.BlockStmt, self *ast.FuncLit) map[types.Object]bool {
	out := map[types.Object]bool{}
	var walk func(n ast.Node, inNested bool)
	walk = func(n ast.Node, inNested bool) {
		ast.Inspect(n, func(m ast.Node) bool {
			switch x := m.(type) {
			case *ast.FuncLit:
				if x != self {
					walk(x.Body, true)
					return false
				}
			case *ast.UnaryExpr:
				if x.Op == token.AND {
					if id, ok := x.X.(*ast.Ident); ok {
						if o := a.objOf(id); o != nil && !a.isErrsVal(o) && !a.isNfeVal(o) {
							out[o] = true
						}
					}
				}
			case *ast.AssignStmt:
				if inNested {
					for _, l := range x.Lhs {
						if id, ok := l.(*ast.Ident); ok {
							if o := a.objOf(id); o != nil {
								out[o] = true // may over-approximate (the literal's own locals): harmless
							}
						}
					}
				}
			case *ast.IncDecStmt:
				if inNested {
					if id, ok := x.X.(*ast.Ident); ok {
						if o := a.objOf(id); o != nil {
							out[o] = true
						}
					}
				}
			}
			return true
		})
	}
	walk(body, false)
	return out
}

func (a *analyzer) sigOf(ft *ast.FuncType) (sig, []*ast.Ident) {
	sg := sig{errIdx: -1, objIdx: -1}
	var names []*ast.Ident
	if ft.Results == nil {
		return sg, nil
	}
	i := 0
	for _, fld := range ft.Results.List {
		n := len(fld.Names)
		if n == 0 {
			n = 1
		}
		for j := 0; j < n; j++ {
			if id, ok := fld.Type.(*ast.Ident); ok && id.Name == "error" {
				sg.errIdx = i
			}
			if len(fld.Names) > 0 {
				names = append(names, fld.Names[j])
			}
			i++
		}
	}
	sg.nres = i
	if sg.nres >= 2 || (sg.nres == 1 && sg.errIdx < 0) {
		sg.objIdx = 0
	}
	if sg.errIdx >= 0 && sg.errIdx != sg.nres-1 {
		die("error result is not the last result")
	}
	return sg, names
}

func (a *analyzer) analyse(name string, ft *ast.FuncType, body *ast.BlockStmt, self *ast.FuncLit, emit bool, skip map[ast.Node]bool, variantOK map[token.Pos]string) {
	sg, names := a.sigOf(ft)
	f := &fnAn{a: a, name: name, emit: emit, ftype: ft, sg: sg, callIDs: map[token.Pos]int{}, rets: map[token.Pos]*retRec{},
		skip: skip, variantOK: variantOK}
	f.alwaysTop = a.computeAlwaysTop(body, self)
	s := newState()
	for _, n := range names {
		o := a.info.Defs[n]
		f.results = append(f.results, o)
		if o != nil {
			s.vars[o] = zeroVal(o.Type())
		}
	}
	// func-typed parameters named in the configuration resolve to "<function>.<param>"
	base := name
	if i := strings.Index(base, "#"); i >= 0 {
		base = base[:i]
	}
	if ft.Params != nil {
		for _, fld := range ft.Params.List {
			for _, pn := range fld.Names {
				if _, ok := a.contracts[base+"."+pn.Name]; ok {
					pft, isFn := fld.Type.(*ast.FuncType)
					if !isFn {
						die("%s: parameter %s is named in the configuration but is not of function type", name, pn.Name)
					}
					a.closureOf[a.info.Defs[pn]] = base + "." + pn.Name
					psg, _ := a.sigOf(pft)
					if old, ok := a.sigs[base+"."+pn.Name]; ok && old != psg {
						die("%s: parameter %s: result shape differs from a literal passed for it", name, pn.Name)
					}
					a.sigs[base+"."+pn.Name] = psg
				}
			}
		}
	}
	end := f.block(body.List, s)
	if end != nil && sg.nres > 0 {
		die("%s: control reaches the end of the function", name)
	}
	if emit {
		var ps []token.Pos
		for p := range f.rets {
			ps = append(ps, p)
		}
		sort.Slice(ps, func(i, j int) bool { return ps[i] < ps[j] })
		for _, p := range ps {
			a.results[name] = append(a.results[name], f.rets[p])
		}
		if len(ps) == 0 {
			die("%s: no return statement found", name)
		}
	}
}

// ---------------------------------------------------------------- variants

// variantSites: call sites of v.Of in fd where the excluded value of the switch tag has been
// ruled out syntactically: `A := range_func(...)` (the only assignment of A), then a top-level
// `if A == Excluded { ...; return ... }`, then the call with A as the tag argument, all at the
// top level of the function body.
func (a *analyzer) variantSites(fd *ast.FuncDecl, v variant) map[token.Pos]string {
	out := map[token.Pos]string{}
	list := fd.Body.List
	for ci, st := range list {
		var call *ast.CallExpr
		switch x := st.(type) {
		case *ast.AssignStmt:
			if len(x.Rhs) == 1 {
				call, _ = x.Rhs[0].(*ast.CallExpr)
			}
		case *ast.ExprStmt:
			call, _ = x.X.(*ast.CallExpr)
		}
		if call == nil {
			continue
		}
		fid, ok := call.Fun.(*ast.Ident)
		if !ok || fid.Name != v.Of || len(call.Args) <= v.SwitchTagParam {
			continue
		}
		aid, ok := call.Args[v.SwitchTagParam].(*ast.Ident)
		if !ok {
			continue
		}
		obj := a.objOf(aid)
		if obj == nil {
			continue
		}
		// assignments of obj anywhere in the function
		nAssign, defIdx := 0, -1
		bad := false
		ast.Inspect(fd.Body, func(n ast.Node) bool {
			switch x := n.(type) {
			case *ast.AssignStmt:
				for _, l := range x.Lhs {
					if id, ok := l.(*ast.Ident); ok && a.objOf(id) == obj {
						nAssign++
					}
				}
			case *ast.UnaryExpr:
				if id, ok := x.X.(*ast.Ident); ok && x.Op == token.AND && a.objOf(id) == obj {
					bad = true
				}
			case *ast.IncDecStmt:
				if id, ok := x.X.(*ast.Ident); ok && a.objOf(id) == obj {
					bad = true
				}
			}
			return true
		})
		if nAssign != 1 || bad {
			continue
		}
		for i := 0; i < ci; i++ {
			as, ok := list[i].(*ast.AssignStmt)
			if !ok || len(as.Lhs) != 1 || len(as.Rhs) != 1 {
				continue
			}
			id, ok := as.Lhs[0].(*ast.Ident)
			if !ok || a.objOf(id) != obj {
				continue
			}
			rc, ok := as.Rhs[0].(*ast.CallExpr)
			if !ok {
				continue
			}
			if rf, ok := rc.Fun.(*ast.Ident); ok && rf.Name == v.RangeFunc {
				defIdx = i
			}
		}
		if defIdx < 0 {
			continue
		}
		guarded := false
		for i := defIdx + 1; i < ci; i++ {
			is, ok := list[i].(*ast.IfStmt)
			if !ok || is.Init != nil || is.Else != nil || len(is.Body.List) == 0 {
				continue
			}
			be, ok := is.Cond.(*ast.BinaryExpr)
			if !ok || be.Op != token.EQL {
				continue
			}
			xi, ok1 := be.X.(*ast.Ident)
			yi, ok2 := be.Y.(*ast.Ident)
			if !ok1 || !ok2 || a.objOf(xi) != obj || yi.Name != v.Excluded {
				continue
			}
			if _, ok := is.Body.List[len(is.Body.List)-1].(*ast.ReturnStmt); ok {
				guarded = true
			}
		}
		if guarded {
			out[call.Pos()] = v.Name
		}
	}
	return out
}

// ---------------------------------------------------------------- emission

func kindsStr(k uint8) string {
	var xs []string
	if k&kN != 0 {
		xs = append(xs, "KdNil")
	}
	if k&kNFE != 0 {
		xs = append(xs, "KdNfe")
	}
	if k&kO != 0 {
		xs = append(xs, "KdOther")
	}
	return "[" + strings.Join(xs, "; ") + "]"
}

func objsStr(k uint8) string {
	var xs []string
	if k&oNil != 0 {
		xs = append(xs, "ONil")
	}
	if k&oNN != 0 {
		xs = append(xs, "ONonNil")
	}
	return "[" + strings.Join(xs, "; ") + "]"
}

func callsStr(cs map[int]callInfo) string {
	var ids []int
	for id := range cs {
		ids = append(ids, id)
	}
	sort.Ints(ids)
	var xs []string
	for _, id := range ids {
		c := cs[id]
		xs = append(xs, fmt.Sprintf("mkCall %d %q %s %s %v", id, c.callee, kindsStr(c.kinds), objsStr(c.objs), c.must))
	}
	return "[" + strings.Join(xs, "; ") + "]"
}

func oatoms(v absval) string {
	var xs []string
	seen := map[string]bool{}
	for _, at := range v.sorted() {
		var t string
		switch at.k {
		case "nil":
			t = "OaNil"
		case "nonnil":
			t = "OaNonNil"
		case "callobj":
			t = fmt.Sprintf("OaCall %d", at.id)
		default:
			t = "OaTop"
		}
		if !seen[t] {
			seen[t] = true
			xs = append(xs, t)
		}
	}
	return "[" + strings.Join(xs, "; ") + "]"
}

func eatoms(v absval) string {
	var xs []string
	seen := map[string]bool{}
	for _, at := range v.sorted() {
		var t string
		switch at.k {
		case "nil":
			t = "EaNil"
		case "fatal":
			t = "EaFatalCtor"
		case "nfe":
			t = "EaNfe"
		case "errsF":
			t = "EaErrs SFatal"
		case "errsNF":
			t = "EaErrs SNotFatal"
		case "errsU":
			t = "EaErrs SUnknown"
		case "callerr":
			t = fmt.Sprintf("EaCall %d", at.id)
		case "nfeelem":
			t = "EaNfeElem"
		default:
			t = "EaTop"
		}
		if !seen[t] {
			seen[t] = true
			xs = append(xs, t)
		}
	}
	return "[" + strings.Join(xs, "; ") + "]"
}

func main() {
	repo := flag.String("repo", "/repo", "repository root")
	cfgPath := flag.String("config", "../gen/targets/X509Returns.json", "configuration (gofrag-shaped list with a `retshape` object)")
	out := flag.String("out", "", "output .v file")
	flag.Parse()
	raw, err := os.ReadFile(*cfgPath)
	if err != nil {
		die("%v", err)
	}
	var units []struct {
		Retshape *config `json:"retshape"`
	}
	if err := json.Unmarshal(raw, &units); err != nil {
		die("config: %v", err)
	}
	var cfg *config
	for _, u := range units {
		if u.Retshape != nil {
			cfg = u.Retshape
		}
	}
	if cfg == nil {
		die("config: no retshape object")
	}
	delete(cfg.Closures, "_comment")

	var files []*ast.File
	for _, fn := range cfg.Files {
		f, err := parser.ParseFile(fset, filepath.Join(*repo, cfg.Dir, fn), nil, 0)
		if err != nil {
			die("parse %s: %v", fn, err)
		}
		files = append(files, f)
	}
	info := &types.Info{Defs: map[*ast.Ident]types.Object{}, Uses: map[*ast.Ident]types.Object{}}
	conf := types.Config{Importer: fakeImporter{}, Error: func(error) {}, DisableUnusedImportCheck: true}
	pkg, _ := conf.Check(cfg.Dir, fset, files, info)

	a := &analyzer{cfg: *cfg, info: info, pkg: pkg, decls: map[string]*ast.FuncDecl{}, contracts: map[string]string{},
		sigs: map[string]sig{}, fatalID: map[string]bool{}, externs: map[string]bool{}, addSeen: map[token.Pos]bool{},
		litSeen: map[*ast.FuncLit]bool{}, results: map[string][]*retRec{}, closureOf: map[types.Object]string{}, nfeAsserted: map[types.Object]bool{}}
	for _, f := range files {
		ast.Inspect(f, func(n ast.Node) bool {
			if as, ok := n.(*ast.AssignStmt); ok && len(as.Rhs) == 1 && len(as.Lhs) == 2 && as.Tok == token.DEFINE {
				if ta, ok := as.Rhs[0].(*ast.TypeAssertExpr); ok && ta.Type != nil {
					if tid, ok := ta.Type.(*ast.Ident); ok && tid.Name == cfg.NfeType {
						if id, ok := as.Lhs[0].(*ast.Ident); ok && info.Defs[id] != nil {
							a.nfeAsserted[info.Defs[id]] = true
						}
					}
				}
			}
			return true
		})
	}
	for _, f := range files {
		for _, d := range f.Decls {
			if fd, ok := d.(*ast.FuncDecl); ok && fd.Recv == nil && fd.Body != nil {
				a.decls[fd.Name.Name] = fd
			}
		}
	}
	for n, k := range cfg.Functions {
		fd, ok := a.decls[n]
		if !ok {
			die("function %s not found in %v", n, cfg.Files)
		}
		a.contracts[n] = k
		a.sigs[n], _ = a.sigOf(fd.Type)
	}
	for n, k := range cfg.Closures {
		a.contracts[n] = k
	}
	for _, v := range cfg.Variants {
		if _, ok := a.decls[v.Of]; !ok {
			die("variant %s: function %s not found", v.Name, v.Of)
		}
		a.contracts[v.Name] = v.Contract
		a.sigs[v.Name] = a.sigs[v.Of]
	}
	for _, n := range cfg.Scan {
		if _, ok := a.decls[n]; !ok {
			die("scan function %s not found", n)
		}
	}

	// the error-id table of errors.go
	for _, f := range files {
		for _, d := range f.Decls {
			gd, ok := d.(*ast.GenDecl)
			if !ok || gd.Tok != token.VAR {
				continue
			}
			for _, sp := range gd.Specs {
				vs := sp.(*ast.ValueSpec)
				for i, n := range vs.Names {
					if n.Name != cfg.ErrorTable.Var || i >= len(vs.Values) {
						continue
					}
					cl, ok := vs.Values[i].(*ast.CompositeLit)
					if !ok {
						die("error table %s is not a composite literal", n.Name)
					}
					for _, el := range cl.Elts {
						ecl, ok := el.(*ast.CompositeLit)
						if !ok {
							die("error table entry at %s", posStr(el.Pos()))
						}
						id, fatal := "", false
						for _, kv := range ecl.Elts {
							p, ok := kv.(*ast.KeyValueExpr)
							if !ok {
								die("error table entry without field names at %s", posStr(kv.Pos()))
							}
							switch src(p.Key) {
							case cfg.ErrorTable.IDField:
								id = src(p.Value)
							case cfg.ErrorTable.FatalField:
								switch src(p.Value) {
								case "true":
									fatal = true
								case "false":
								default:
									die("error table: Fatal is not a literal at %s", posStr(p.Pos()))
								}
							}
						}
						if id == "" {
							die("error table entry without ID at %s", posStr(ecl.Pos()))
						}
						if _, dup := a.fatalID[id]; dup {
							die("error table: duplicate entry for %s", id)
						}
						a.fatalID[id] = fatal
						a.idOrder = append(a.idOrder, id)
					}
				}
			}
		}
	}
	if len(a.fatalID) == 0 {
		die("error table %s not found", cfg.ErrorTable.Var)
	}

	// variants: where may a call be resolved to the variant, and which clauses does the variant skip
	variantOK := map[string]map[token.Pos]string{}
	var coverLines []string
	for _, v := range cfg.Variants {
		for n := range cfg.Functions {
			sites := a.variantSites(a.decls[n], v)
			if len(sites) > 0 {
				if variantOK[n] == nil {
					variantOK[n] = map[token.Pos]string{}
				}
				for p, nm := range sites {
					variantOK[n][p] = nm
				}
			}
		}
	}

	names := make([]string, 0, len(cfg.Functions))
	for n := range cfg.Functions {
		names = append(names, n)
	}
	sort.Strings(names)
	for _, n := range names {
		fd := a.decls[n]
		a.analyse(n, fd.Type, fd.Body, nil, true, nil, variantOK[n])
	}
	for _, v := range cfg.Variants {
		fd := a.decls[v.Of]
		// the switch on the tag parameter
		var pname string
		pi := 0
		for _, fld := range fd.Type.Params.List {
			for _, pn := range fld.Names {
				if pi == v.SwitchTagParam {
					pname = pn.Name
				}
				pi++
			}
		}
		skip := map[ast.Node]bool{}
		var arms []string
		nsw := 0
		ast.Inspect(fd.Body, func(n ast.Node) bool {
			if _, ok := n.(*ast.FuncLit); ok {
				return false
			}
			sw, ok := n.(*ast.SwitchStmt)
			if !ok {
				return true
			}
			if id, ok := sw.Tag.(*ast.Ident); ok && id.Name == pname {
				nsw++
				for _, cl := range sw.Body.List {
					cc := cl.(*ast.CaseClause)
					if cc.List == nil {
						skip[cc] = true
					}
					for _, e := range cc.List {
						id, ok := e.(*ast.Ident)
						if !ok {
							die("variant %s: case label %s is not an identifier", v.Name, src(e))
						}
						arms = append(arms, id.Name)
					}
				}
			}
			return true
		})
		if nsw != 1 {
			die("variant %s: expected exactly one `switch %s` in %s, found %d", v.Name, pname, v.Of, nsw)
		}
		// the tag parameter must not be reassigned before the switch
		reassigned := false
		ast.Inspect(fd.Body, func(n ast.Node) bool {
			if as, ok := n.(*ast.AssignStmt); ok {
				for _, l := range as.Lhs {
					if id, ok := l.(*ast.Ident); ok && id.Name == pname {
						reassigned = true
					}
				}
			}
			return true
		})
		if reassigned {
			die("variant %s: parameter %s is assigned in %s", v.Name, pname, v.Of)
		}
		a.analyse(v.Name, fd.Type, fd.Body, nil, true, skip, variantOK[v.Of])
		rf, ok := a.decls[v.RangeFunc]
		if !ok {
			die("variant %s: range function %s not found", v.Name, v.RangeFunc)
		}
		var rng []string
		ast.Inspect(rf.Body, func(n ast.Node) bool {
			if r, ok := n.(*ast.ReturnStmt); ok {
				if len(r.Results) != 1 {
					die("variant %s: return of %s at %s", v.Name, v.RangeFunc, posStr(r.Pos()))
				}
				id, ok := r.Results[0].(*ast.Ident)
				if !ok {
					die("variant %s: %s returns a non-constant at %s", v.Name, v.RangeFunc, posStr(r.Pos()))
				}
				rng = append(rng, id.Name)
			}
			return true
		})
		q := func(xs []string) string {
			var o []string
			for _, x := range xs {
				o = append(o, fmt.Sprintf("%q", x))
			}
			return "[" + strings.Join(o, "; ") + "]"
		}
		coverLines = append(coverLines, fmt.Sprintf("  mkCover %q %s %s %s", v.Name, q(arms), q(rng), q([]string{v.Excluded})))
	}
	for _, n := range cfg.Scan {
		fd := a.decls[n]
		a.analyse(n, fd.Type, fd.Body, nil, false, nil, nil)
	}
	for len(a.pending) > 0 {
		p := a.pending[0]
		a.pending = a.pending[1:]
		a.analyse(p.name, p.lit.Type, p.lit.Body, p.lit, true, nil, nil)
	}

	// global safety scan: every AddError call and every write to a NonFatalErrors list in the
	// listed files must have been seen by the analysis (or be the type's own methods)
	for _, f := range files {
		for _, d := range f.Decls {
			fd, ok := d.(*ast.FuncDecl)
			if !ok || fd.Body == nil {
				continue
			}
			own := fd.Recv != nil && strings.Contains(src(fd.Recv.List[0].Type), cfg.NfeType)
			ast.Inspect(fd.Body, func(n ast.Node) bool {
				switch x := n.(type) {
				case *ast.CallExpr:
					if sel, ok := x.Fun.(*ast.SelectorExpr); ok && sel.Sel.Name == "AddError" && !a.addSeen[x.Pos()] {
						die("AddError at %s (in %s) is outside the analysed functions", posStr(x.Pos()), fd.Name.Name)
					}
				case *ast.AssignStmt:
					for i, l := range x.Lhs {
						sel, ok := l.(*ast.SelectorExpr)
						if !ok || sel.Sel.Name != "Errors" || own {
							continue
						}
						// only `X.Errors = append(X.Errors, Y.Errors...)` keeps "elements stay elements"
						okForm := false
						if i < len(x.Rhs) {
							if c, ok := x.Rhs[i].(*ast.CallExpr); ok && src(c.Fun) == "append" && len(c.Args) == 2 && c.Ellipsis != token.NoPos {
								if src(c.Args[0]) == src(l) {
									if s2, ok := c.Args[1].(*ast.SelectorExpr); ok && s2.Sel.Name == "Errors" {
										if id, ok := s2.X.(*ast.Ident); ok && a.isNfeAny(a.objOf(id)) {
											okForm = true
										}
									}
								}
							}
						}
						if !okForm {
							die("write to a .Errors list at %s (in %s) is not of the form X.Errors = append(X.Errors, Y.Errors...)", posStr(x.Pos()), fd.Name.Name)
						}
					}
				}
				return true
			})
		}
	}

	// ---- emit
	var b strings.Builder
	b.WriteString("(* GENERATED by retshape from /repo's working tree; do not edit.\n   One record per `return` statement of the X.509 parse functions named in\n   gen/targets/X509Returns.json: what the returned (object, error) expressions are,\n   syntactically, and what the enclosing conditions say about the calls they come from. *)\n")
	b.WriteString("From Coq Require Import List String.\nFrom V Require Import X509.WrapperShape.\nImport ListNotations.\nOpen Scope string_scope.\n\n")
	var cn []string
	for n := range a.contracts {
		cn = append(cn, n)
	}
	sort.Strings(cn)
	b.WriteString("Definition contracts : list (string * contract) := [\n")
	for i, n := range cn {
		sep := ";"
		if i == len(cn)-1 {
			sep = ""
		}
		fmt.Fprintf(&b, "  (%q, %s)%s\n", n, a.contracts[n], sep)
	}
	b.WriteString("].\n\n(* external callees met on the way: their error result is nil or a non-x509 error *)\nDefinition externs : list (string * contract) := [\n")
	var en []string
	for n := range a.externs {
		en = append(en, n)
	}
	sort.Strings(en)
	for i, n := range en {
		sep := ";"
		if i == len(en)-1 {
			sep = ""
		}
		fmt.Fprintf(&b, "  (%q, KErrOnly)%s\n", n, sep)
	}
	b.WriteString("].\n\n(* errors.go: which ErrorIDs are fatal *)\nDefinition error_ids : list (string * bool) := [\n")
	for i, n := range a.idOrder {
		sep := ";"
		if i == len(a.idOrder)-1 {
			sep = ""
		}
		fmt.Fprintf(&b, "  (%q, %v)%s\n", n, a.fatalID[n], sep)
	}
	b.WriteString("].\n\nDefinition returns : list ret := [\n")
	var lines []string
	var rn []string
	for n := range a.results {
		rn = append(rn, n)
	}
	sort.Strings(rn)
	for _, n := range rn {
		for i, r := range a.results[n] {
			tail := "None"
			obj, errs, calls := "[]", "[]", "[]"
			if r.tail != "" {
				tail = fmt.Sprintf("(Some %q)", r.tail)
			} else {
				obj, errs, calls = oatoms(r.obj), eatoms(r.err), callsStr(relevantCalls(r.calls, r.obj, r.err))
			}
			lines = append(lines, fmt.Sprintf("  mkRet %q %d %q %s %s %s %s", n, i, posStr(r.pos), tail, obj, errs, calls))
		}
	}
	b.WriteString(strings.Join(lines, ";\n"))
	b.WriteString("\n].\n\n(* arguments of nfe.AddError(...) *)\nDefinition added_errors : list added := [\n")
	sort.Slice(a.adds, func(i, j int) bool { return a.adds[i].pos < a.adds[j].pos })
	var al []string
	seenAdd := map[string]bool{}
	for _, ad := range a.adds {
		l := fmt.Sprintf("  mkAdded %q %q %s %s", ad.fn, posStr(ad.pos), eatoms(ad.err), callsStr(relevantCalls(ad.calls, ad.err)))
		if !seenAdd[l] {
			seenAdd[l] = true
			al = append(al, l)
		}
	}
	b.WriteString(strings.Join(al, ";\n"))
	b.WriteString("\n].\n\nDefinition covers : list cover := [\n")
	b.WriteString(strings.Join(coverLines, ";\n"))
	b.WriteString("\n].\n")
	content := b.String()
	sum := sha256.Sum256([]byte(content))
	content += fmt.Sprintf("(* sha256 %x *)\n", sum[:8])
	if *out == "" {
		fmt.Print(content)
		return
	}
	old, _ := os.ReadFile(*out)
	if string(old) != content {
		if err := os.WriteFile(*out, []byte(content), 0o644); err != nil {
			die("%v", err)
		}
		fmt.Printf("retshape: wrote %s\n", *out)
	}
}
