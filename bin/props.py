"""Per-property configuration for bin/check."""

COMMON_TRUSTED = [
    "Coq 8.16.1 kernel (coqc; vm_compute used for case evaluation and finite sweeps; no native_compute)",
    "translators under harness/gen (gofrag: go/ast -> Gallina for the slice named in gen/targets.json)",
    "Go correspondence harness and its generators (harness/cmd/*), Go toolchain, reflect",
    "no extraction: cases are evaluated inside Coq by vm_compute",
]

NOT_APPLICABLE = {}

PROPS = {
    "C18": {
        "harness": "c18",
        "technique": "Coq proof over gofrag-translated window conditions + differential correspondence",
        "level_text": "Theorems (all instants, all optional-bound windows, all shard lists) that each of the three membership tests is exactly start <= t < limit, that routing coincides with admission, and that accepted shard lists are exactly the contiguous ones and route every instant of their span to one shard; the three conditions are re-translated from the Go source on every run, the loop/constructor glue is tied by differential correspondence at boundary instants.",
        "level_note": "Trusted: Coq kernel, gofrag translator, time.Time comparison semantics, protobuf timestamp conversion; glue code (IndexByDate loop, NewTemporalLogClient order of checks) is hand-modelled and validated by correspondence only.",
        "gen_units": ["Windows.v"],
        "coq_deps": ["Temporal/WindowProofs"],
        "case_lib": "Temporal/WindowCase",
        "rule": "cases = (instant, window) points against ctfe.ValidateChain + single-shard TemporalLogClient, "
                "log-list intervals against TemporallyCompatible, shard lists (well-formed and perturbed) probed at every "
                "bound +-1ns; distinct = distinct Coq case term; all are non-trivial (each drives real code)",
        "trusted_base": ["time.Time comparison = comparison of (unix seconds, nanos) as one integer",
                         "protobuf Timestamp.CheckValid/AsTime (shard bounds are valid timestamps)",
                         "x509 chain verification (harness chains are valid by construction; sanity-checked)"],
        "assumptions": ["glue around the generated conditions (loop of IndexByDate, construction order of NewTemporalLogClient) is hand-modelled and tied by correspondence only"],
        "partial": [],
    },
}
