package main

// 8. Empty and boundary cardinalities of every SET OF / SEQUENCE OF (and of every constructed
// element) of the documents.
//
// A conforming encoder never writes an empty attribute value set, an empty RDN, an empty
// Extensions sequence, an empty GeneralNames ..., (X.509 / PKCS#10 give most of these lists a
// SIZE (1..MAX) constraint), and the list decoder of the asn1 package happily returns a
// zero-length slice for `31 00` / `30 00`.  The code that consumes the slice is therefore the
// only guard between "an element of the list" and an index out of range / nil dereference - and
// it is code no real or generated document ever drives with 0 elements (or with exactly one where
// the encoder always writes several, or with several where it always writes one).  The random
// `empty-content` / `delete-tlv` / `duplicate-tlv` mutations pick ONE node out of the ~100 of a
// document per draw; a particular list of a particular document kind is practically never hit.
// This stream enumerates the class on purpose, in two ways:
//
//	(a) documents written by hand (derTLV, independent of /repo's encoder): certificate requests
//	    whose attributes are absent / empty / carry an attribute without value set, with an empty
//	    value set, with one and with two values - for extensionRequest, challengePassword,
//	    unstructuredName and a private type, alone and before / after / between sound attributes;
//	    extensionRequest values holding an empty Extensions sequence, an empty Extension, an
//	    extension with an empty list as its value; names with an empty RDNSequence, an empty RDN
//	    set, an empty / half AttributeTypeAndValue, a multi-valued RDN (subject and issuer of
//	    certificates, CSR subject, CRL issuer, directoryName alternatives); certificates whose
//	    extensions block is absent / `a3 00` / an empty sequence / an empty Extension / an extension
//	    without value, and every extension the parser interprets with each list of its value empty
//	    or reduced to one (empty) member, critical and not, alone and next to sound extensions;
//	    certificate lists with the revoked list absent / empty / holding an empty entry, empty
//	    extension blocks at both levels and empty lists inside the interpreted extension values;
//	    keys in every container with empty / one-member algorithm identifiers, parameters, key
//	    sequences, other-prime lists, attribute sets.
//	(b) a structural operator applied to EVERY node of every well-formed document (real, generated,
//	    hand-written, issued for the conformance templates): `empty` (content removed), `keep-first`
//	    / `keep-last` (a constructed element, or an OCTET / BIT STRING that wraps elements, reduced
//	    to exactly one child), `delete` (the parent has one child less: an optional component
//	    absent, a list one shorter), `duplicate` (one more), the enclosing lengths re-encoded so
//	    that the document stays one well-framed TLV; for certificates and TBSCertificates also
//	    behind a non-minimal serial number so that the lax retry decodes the node.  In the quick
//	    tier one site per (document kind, operator, structural position) - the position being the
//	    path of (tag, child index, leading OID of a SEQUENCE = attribute / extension / algorithm
//	    type) from the root; in the thorough tier several sites per position.
//
// Every document goes through every entry point of its kind and through the other parsers under
// the panic guard and watchdog of coh - oracle: no panic, no hang, object xor fatal error, raw
// fields are the expected sub-slices - and through the model-tied cases of its kind.

import (
	"crypto/rand"
	"crypto/rsa"
	"encoding/hex"
	"fmt"
	mrand "math/rand"
	"strings"

	"github.com/google/certificate-transparency-go/x509"

	"verif/harness/lib"
)

func sq(parts ...[]byte) []byte { return derTLV(0x30, parts...) }
func st(parts ...[]byte) []byte { return derTLV(0x31, parts...) }

var (
	oidAttrExtReq       = derOID(1, 2, 840, 113549, 1, 9, 14)
	oidAttrChallenge    = derOID(1, 2, 840, 113549, 1, 9, 7)
	oidAttrUnstructured = derOID(1, 2, 840, 113549, 1, 9, 2)
	oidAttrPrivate      = derOID(1, 3, 6, 1, 4, 1, 99999, 7)
	cardSig             = derTLV(0x03, []byte{0, 0x30, 0x06, 0x02, 0x01, 0x01, 0x02, 0x01, 0x01})
	rsaAlgNull          = []byte{0x30, 0x0d, 0x06, 0x09, 0x2a, 0x86, 0x48, 0x86, 0xf7, 0x0d, 0x01, 0x01, 0x01, 0x05, 0x00}
)

func utcT(s string) []byte { return derTLV(0x17, []byte(s)) }

type namedBytes struct {
	n string
	b []byte
}

// names: the cardinalities of RDNSequence (SEQUENCE OF), RelativeDistinguishedName (SET OF) and
// the two components of AttributeTypeAndValue
func cardNames() []namedBytes {
	o := derTLV(0x30, derOID(2, 5, 4, 10), derTLV(0x13, []byte("verif")))
	cn := derTLV(0x30, derOID(2, 5, 4, 3), derTLV(0x0c, []byte("cardinality")))
	return []namedBytes{
		{"rdnsequence-empty", sq()},
		{"rdn-set-empty", sq(st())},
		{"rdn-set-empty-first", sq(st(), st(o), st(cn))},
		{"rdn-set-empty-between", sq(st(o), st(), st(cn))},
		{"rdn-set-empty-last", sq(st(o), st(cn), st())},
		{"atv-empty", sq(st(sq()))},
		{"atv-empty-after-sound", sq(st(o), st(cn, sq()))},
		{"atv-oid-only", sq(st(derTLV(0x30, derOID(2, 5, 4, 3))))},
		{"atv-value-only", sq(st(derTLV(0x30, derTLV(0x0c, []byte("x")))))},
		{"atv-empty-string", sq(st(derTLV(0x30, derOID(2, 5, 4, 3), []byte{0x0c, 0x00})))},
		{"atv-empty-oid", sq(st(derTLV(0x30, []byte{0x06, 0x00}, derTLV(0x0c, []byte("x")))))},
		{"atv-three-members", sq(st(derTLV(0x30, derOID(2, 5, 4, 3), derTLV(0x0c, []byte("x")), derTLV(0x0c, []byte("y")))))},
		{"rdn-multi-valued", sq(st(o, cn))},
		{"rdn-multi-valued-same-type", sq(st(cn, cn, cn))},
		{"one-rdn", sq(st(cn))},
	}
}

func cardSoundName(cn string) []byte {
	return sq(derRDN(derOID(2, 5, 4, 10), 0x13, []byte("verif")), derRDN(derOID(2, 5, 4, 3), 0x0c, []byte(cn)))
}

// ---------------------------------------------------------------- certificate requests

// attrs: the complete [0] element, nil = absent
func cardCSR(subject, spki, attrs []byte) []byte {
	return sq(sq([]byte{0x02, 0x01, 0x00}, subject, spki, attrs), ecdsaSHA256, cardSig)
}

func cardCSRDocs(spki []byte) []doc {
	var out []doc
	subj := cardSoundName("cardinality csr")
	add := func(name string, attrs []byte) {
		out = append(out, doc{"csr", "card/csr/" + name, cardCSR(subj, spki, attrs)})
	}
	san := derExt(derOID(2, 5, 29, 17), sq(derTLV(0x82, []byte("card.example"))))
	bc := derTLV(0x30, derOID(2, 5, 29, 19), []byte{0x01, 0x01, 0xff}, derTLV(0x04, sq()))
	soundReq := sq(oidAttrExtReq, st(sq(san)))
	soundPw := sq(oidAttrChallenge, st(derTLV(0x0c, []byte("secret"))))

	add("attributes-absent", nil)
	add("attributes-empty", derTLV(0xa0))
	add("attribute-empty-sequence", derTLV(0xa0, sq()))
	add("attribute-empty-sequence-then-sound", derTLV(0xa0, sq(), soundReq))
	add("attribute-sound-then-empty-sequence", derTLV(0xa0, soundReq, sq()))
	add("attribute-sound", derTLV(0xa0, soundReq))
	add("attribute-sound-twice", derTLV(0xa0, soundReq, soundReq))

	type av struct {
		n    string
		vals [][]byte // nil: no value set at all
	}
	// the values of an extensionRequest: Extensions ::= SEQUENCE OF Extension
	reqVals := []av{
		{"no-set", nil}, {"set-empty", [][]byte{}},
		{"one:extensions-empty", [][]byte{sq()}},
		{"one:extension-empty", [][]byte{sq(sq())}},
		{"one:extension-empty-then-sound", [][]byte{sq(sq(), san)}},
		{"one:extension-oid-only", [][]byte{sq(sq(derOID(2, 5, 29, 17)))}},
		{"one:extension-value-empty", [][]byte{sq(derExt(derOID(2, 5, 29, 17), nil))}},
		{"one:san-generalnames-empty", [][]byte{sq(derExt(derOID(2, 5, 29, 17), sq()))}},
		{"one:san-empty-members", [][]byte{sq(derExt(derOID(2, 5, 29, 17), sq([]byte{0x82, 0x00}, []byte{0x81, 0x00}, []byte{0x87, 0x00}, []byte{0x86, 0x00})))}},
		{"one:san-twice", [][]byte{sq(san, san)}},
		{"one:sound-two-extensions", [][]byte{sq(bc, san)}},
		{"one:not-a-sequence", [][]byte{{0x05, 0x00}}},
		{"one:empty-set-inside", [][]byte{st()}},
		{"two:sound+empty", [][]byte{sq(san), sq()}},
		{"two:empty+sound", [][]byte{sq(), sq(san)}},
		{"two:sound+sound", [][]byte{sq(bc), sq(san)}},
	}
	strVals := []av{
		{"no-set", nil}, {"set-empty", [][]byte{}},
		{"one:string", [][]byte{derTLV(0x0c, []byte("secret"))}},
		{"one:empty-string", [][]byte{{0x0c, 0x00}}},
		{"one:empty-sequence", [][]byte{sq()}},
		{"two:strings", [][]byte{derTLV(0x0c, []byte("a")), derTLV(0x13, []byte("b"))}},
	}
	attr := func(oid []byte, v av) []byte {
		if v.vals == nil {
			return sq(oid)
		}
		return sq(oid, st(v.vals...))
	}
	for _, a := range []struct {
		n    string
		oid  []byte
		vals []av
	}{{"extensionRequest", oidAttrExtReq, reqVals}, {"challengePassword", oidAttrChallenge, strVals},
		{"unstructuredName", oidAttrUnstructured, strVals}, {"private", oidAttrPrivate, strVals}, {"empty-oid", []byte{0x06, 0x00}, strVals[:3]}} {
		for _, v := range a.vals {
			x := attr(a.oid, v)
			add(a.n+"/"+v.n+"/alone", derTLV(0xa0, x))
			add(a.n+"/"+v.n+"/before-sound", derTLV(0xa0, x, soundReq))
			add(a.n+"/"+v.n+"/after-sound", derTLV(0xa0, soundReq, x))
			add(a.n+"/"+v.n+"/between", derTLV(0xa0, soundPw, x, soundReq))
		}
	}
	// the subject of a request
	for _, n := range cardNames() {
		out = append(out, doc{"csr", "card/csr/subject/" + n.n, cardCSR(n.b, spki, derTLV(0xa0, soundReq))})
		out = append(out, doc{"csr", "card/csr/subject/" + n.n + "/no-attributes", cardCSR(n.b, spki, derTLV(0xa0))})
	}
	return out
}

// ---------------------------------------------------------------- certificates

// extBlock: the complete [3] element, nil = absent
func cardTBS(issuer, subject, spki, extBlock []byte) []byte {
	return sq([]byte{0xa0, 0x03, 0x02, 0x01, 0x02}, []byte{0x02, 0x02, 0x2b, 0x67}, ecdsaSHA256, issuer,
		sq(utcT("240101000000Z"), utcT("340101000000Z")), subject, spki, extBlock)
}

func cardCert(tbs []byte) []byte { return sq(tbs, ecdsaSHA256, cardSig) }

type extValue struct {
	n string
	v []byte
}

// every extension the parser interprets: a sound value (so that the structural operator has a site
// of every kind) and the values in which a list is empty or holds one empty member
type extSpec struct {
	n     string
	oid   []int
	sound []byte
	vals  []extValue
}

func cardExtSpecs() []extSpec {
	uri := func(s string) []byte { return derTLV(0x86, []byte(s)) }
	dn := derTLV(0xa4, dirName("card directory name"))
	gnAll := sq(derTLV(0xa0, derOID(1, 3, 6, 1, 4, 1, 311, 20, 2, 3), derTLV(0xa0, derTLV(0x0c, []byte("u@card.example")))),
		derTLV(0x81, []byte("u@card.example")), derTLV(0x82, []byte("card.example")), dn, uri("https://card.example/"),
		derTLV(0x87, []byte{192, 0, 2, 1}), derTLV(0x88, []byte{0x2a, 0x03, 0x04}))
	gnVals := []extValue{
		{"generalnames-empty", sq()}, {"dns-empty", sq([]byte{0x82, 0x00})}, {"email-empty", sq([]byte{0x81, 0x00})},
		{"uri-empty", sq([]byte{0x86, 0x00})}, {"ip-empty", sq([]byte{0x87, 0x00})}, {"rid-empty", sq([]byte{0x88, 0x00})},
		{"othername-empty", sq([]byte{0xa0, 0x00})}, {"othername-oid-only", sq(derTLV(0xa0, derOID(1, 2, 3)))},
		{"othername-value-empty", sq(derTLV(0xa0, derOID(1, 2, 3), []byte{0xa0, 0x00}))},
		{"dirname-empty", sq([]byte{0xa4, 0x00})}, {"dirname-rdnsequence-empty", sq(derTLV(0xa4, sq()))},
		{"dirname-rdn-empty", sq(derTLV(0xa4, sq(st())))}, {"dirname-atv-empty", sq(derTLV(0xa4, sq(st(sq()))))},
		{"x400-empty", sq([]byte{0xa3, 0x00})}, {"edi-empty", sq([]byte{0xa5, 0x00})},
		{"every-kind-empty", sq([]byte{0xa0, 0x00}, []byte{0x81, 0x00}, []byte{0x82, 0x00}, []byte{0xa4, 0x00}, []byte{0x86, 0x00}, []byte{0x87, 0x00}, []byte{0x88, 0x00})},
		{"empty-then-sound", sq([]byte{0x82, 0x00}, derTLV(0x82, []byte("card.example")))},
	}
	subtree := func(gn ...[]byte) []byte { return sq(gn...) }
	qual := sq(derOID(1, 3, 6, 1, 5, 5, 7, 2, 1), derTLV(0x16, []byte("http://cps.card.example")))
	notice := sq(derOID(1, 3, 6, 1, 5, 5, 7, 2, 2), sq(sq(derTLV(0x0c, []byte("Org")), sq([]byte{0x02, 0x01, 0x01})), derTLV(0x0c, []byte("text"))))
	ad := func(m int, loc []byte) []byte { return sq(derOID(1, 3, 6, 1, 5, 5, 7, 48, m), loc) }
	sct := sctListExt().value
	v4 := []byte{0x04, 0x02, 0x00, 0x01}
	return []extSpec{
		{"keyUsage", []int{2, 5, 29, 15}, []byte{0x03, 0x02, 0x05, 0xa0}, []extValue{{"no-bits", []byte{0x03, 0x01, 0x00}}, {"empty-content", []byte{0x03, 0x00}},
			{"one-bit", []byte{0x03, 0x02, 0x07, 0x80}}, {"nine-bits", []byte{0x03, 0x03, 0x07, 0x00, 0x80}}}},
		{"basicConstraints", []int{2, 5, 29, 19}, sq([]byte{0x01, 0x01, 0xff}, []byte{0x02, 0x01, 0x01}), []extValue{{"empty", sq()}, {"pathlen-only", sq([]byte{0x02, 0x01, 0x00})},
			{"pathlen-empty", sq([]byte{0x01, 0x01, 0xff}, []byte{0x02, 0x00})}}},
		{"subjectKeyId", []int{2, 5, 29, 14}, derTLV(0x04, []byte{1, 2, 3, 4}), []extValue{{"empty-octets", []byte{0x04, 0x00}}}},
		{"authorityKeyId", []int{2, 5, 29, 35}, sq(derTLV(0x80, []byte{1, 2, 3, 4}), derTLV(0xa1, dn), derTLV(0x82, []byte{0x07})),
			[]extValue{{"empty", sq()}, {"keyid-empty", sq([]byte{0x80, 0x00})}, {"issuer-empty", sq([]byte{0xa1, 0x00})}, {"serial-empty", sq([]byte{0x82, 0x00})}}},
		{"subjectAltName", []int{2, 5, 29, 17}, gnAll, gnVals},
		{"issuerAltName", []int{2, 5, 29, 18}, gnAll, gnVals[:6]},
		{"nameConstraints", []int{2, 5, 29, 30}, sq(derTLV(0xa0, subtree(derTLV(0x82, []byte("card.example"))), subtree(derTLV(0x87, []byte{10, 0, 0, 0, 255, 0, 0, 0})),
			subtree(derTLV(0x81, []byte("card.example"))), subtree(uri("card.example")), subtree(dn)), derTLV(0xa1, subtree(derTLV(0x82, []byte("bad.card.example"))))),
			[]extValue{{"empty", sq()}, {"permitted-empty", sq([]byte{0xa0, 0x00})}, {"excluded-empty", sq([]byte{0xa1, 0x00})}, {"both-empty", sq([]byte{0xa0, 0x00}, []byte{0xa1, 0x00})},
				{"subtree-empty", sq(derTLV(0xa0, sq()))}, {"subtree-empty-excluded", sq(derTLV(0xa1, sq()))}, {"dns-empty", sq(derTLV(0xa0, sq([]byte{0x82, 0x00})))},
				{"email-empty", sq(derTLV(0xa0, sq([]byte{0x81, 0x00})))}, {"uri-empty", sq(derTLV(0xa0, sq([]byte{0x86, 0x00})))}, {"ip-empty", sq(derTLV(0xa0, sq([]byte{0x87, 0x00})))},
				{"ip-empty-excluded", sq(derTLV(0xa1, sq([]byte{0x87, 0x00})))}, {"dirname-empty", sq(derTLV(0xa0, sq([]byte{0xa4, 0x00})))},
				{"dirname-rdnsequence-empty", sq(derTLV(0xa0, sq(derTLV(0xa4, sq()))))}, {"subtree-two-bases", sq(derTLV(0xa0, sq(derTLV(0x82, []byte("a")), derTLV(0x82, []byte("b")))))},
				{"subtree-minimum-only", sq(derTLV(0xa0, sq([]byte{0x80, 0x01, 0x00})))}}},
		{"cRLDistributionPoints", []int{2, 5, 29, 31}, sq(sq(derTLV(0xa0, derTLV(0xa0, uri("http://crl.card.example/a.crl"), uri("ldap://card.example/cn=a")))),
			// (nameRelativeToCRLIssuer in the shape the decoder's structure accepts - the fork, like upstream, types it as an RDNSequence)
			sq(derTLV(0xa0, derTLV(0xa1, st(derTLV(0x30, derOID(2, 5, 4, 3), derTLV(0x0c, []byte("rel")))))), []byte{0x81, 0x02, 0x01, 0x06}, derTLV(0xa2, dn))),
			[]extValue{{"empty", sq()}, {"dp-empty", sq(sq())}, {"dp-empty-then-sound", sq(sq(), sq(derTLV(0xa0, derTLV(0xa0, uri("http://crl.card.example/")))))},
				{"dpname-empty", sq(sq([]byte{0xa0, 0x00}))}, {"fullname-empty", sq(sq(derTLV(0xa0, []byte{0xa0, 0x00})))}, {"relativename-empty", sq(sq(derTLV(0xa0, []byte{0xa1, 0x00})))},
				{"uri-empty", sq(sq(derTLV(0xa0, derTLV(0xa0, []byte{0x86, 0x00}))))}, {"reasons-empty", sq(sq([]byte{0x81, 0x00}))}, {"crlissuer-empty", sq(sq([]byte{0xa2, 0x00}))},
				{"fullname-non-uri-only", sq(sq(derTLV(0xa0, derTLV(0xa0, derTLV(0x82, []byte("dns"))))))},
				{"relativename-rdn-empty", sq(sq(derTLV(0xa0, derTLV(0xa1, st()))))}, {"relativename-bare-atv", sq(sq(derTLV(0xa0, derTLV(0xa1, derTLV(0x30, derOID(2, 5, 4, 3), derTLV(0x0c, []byte("rel")))))))}}},
		{"certificatePolicies", []int{2, 5, 29, 32}, sq(sq(derOID(2, 23, 140, 1, 2, 1), sq(qual, notice)), sq(derOID(2, 5, 29, 32, 0))),
			[]extValue{{"empty", sq()}, {"policy-empty", sq(sq())}, {"policy-empty-then-sound", sq(sq(), sq(derOID(2, 5, 29, 32, 0)))}, {"policy-oid-empty", sq(sq([]byte{0x06, 0x00}))},
				{"qualifiers-empty", sq(sq(derOID(2, 5, 29, 32, 0), sq()))}, {"qualifier-empty", sq(sq(derOID(2, 5, 29, 32, 0), sq(sq())))},
				{"qualifier-oid-only", sq(sq(derOID(2, 5, 29, 32, 0), sq(sq(derOID(1, 3, 6, 1, 5, 5, 7, 2, 1)))))},
				{"notice-empty", sq(sq(derOID(2, 5, 29, 32, 0), sq(sq(derOID(1, 3, 6, 1, 5, 5, 7, 2, 2), sq()))))},
				{"notice-numbers-empty", sq(sq(derOID(2, 5, 29, 32, 0), sq(sq(derOID(1, 3, 6, 1, 5, 5, 7, 2, 2), sq(sq(derTLV(0x0c, []byte("Org")), sq()))))))}}},
		{"extKeyUsage", []int{2, 5, 29, 37}, sq(derOID(1, 3, 6, 1, 5, 5, 7, 3, 1), derOID(1, 3, 6, 1, 5, 5, 7, 3, 2), derOID(1, 2, 3, 4)),
			[]extValue{{"empty", sq()}, {"oid-empty", sq([]byte{0x06, 0x00})}, {"one", sq(derOID(1, 3, 6, 1, 5, 5, 7, 3, 1))}}},
		{"authorityInfoAccess", []int{1, 3, 6, 1, 5, 5, 7, 1, 1}, sq(ad(1, uri("http://ocsp.card.example")), ad(2, uri("http://card.example/ca.cer")), ad(2, derTLV(0x82, []byte("dns")))),
			[]extValue{{"empty", sq()}, {"description-empty", sq(sq())}, {"description-empty-then-sound", sq(sq(), ad(1, uri("http://ocsp.card.example")))},
				{"method-only", sq(sq(derOID(1, 3, 6, 1, 5, 5, 7, 48, 1)))}, {"location-empty", sq(ad(1, []byte{0x86, 0x00}))}, {"location-empty-issuers", sq(ad(2, []byte{0x86, 0x00}))},
				{"method-empty", sq(sq([]byte{0x06, 0x00}, uri("x")))}}},
		{"subjectInfoAccess", []int{1, 3, 6, 1, 5, 5, 7, 1, 11}, sq(ad(5, uri("rsync://card.example/repo/")), ad(3, uri("http://ts.card.example")), ad(10, uri("rsync://card.example/m.mft"))),
			[]extValue{{"empty", sq()}, {"description-empty", sq(sq())}, {"method-only", sq(sq(derOID(1, 3, 6, 1, 5, 5, 7, 48, 5)))}, {"location-empty", sq(ad(5, []byte{0x86, 0x00}))},
				{"location-empty-timestamping", sq(ad(3, []byte{0x86, 0x00}))}}},
		{"sctList", []int{1, 3, 6, 1, 4, 1, 11129, 2, 4, 2}, sct, []extValue{{"empty-octets", []byte{0x04, 0x00}}, {"list-empty", []byte{0x04, 0x02, 0x00, 0x00}},
			{"one-empty-sct", []byte{0x04, 0x04, 0x00, 0x02, 0x00, 0x00}}, {"length-prefix-only", []byte{0x04, 0x01, 0x00}}}},
		{"ipAddrBlocks", []int{1, 3, 6, 1, 5, 5, 7, 1, 7}, sq(sq(v4, sq([]byte{0x03, 0x04, 0x00, 0x0a, 0x00, 0x00}, sq([]byte{0x03, 0x03, 0x00, 0xc0, 0x00}, []byte{0x03, 0x03, 0x00, 0xc0, 0x02}))),
			sq([]byte{0x04, 0x03, 0x00, 0x02, 0x01}, []byte{0x05, 0x00})),
			[]extValue{{"empty", sq()}, {"family-empty", sq(sq())}, {"family-afi-only", sq(sq(v4))}, {"family-afi-empty", sq(sq([]byte{0x04, 0x00}, []byte{0x05, 0x00}))},
				{"addresses-empty", sq(sq(v4, sq()))}, {"range-empty", sq(sq(v4, sq(sq())))}, {"range-min-only", sq(sq(v4, sq(sq([]byte{0x03, 0x02, 0x00, 0x0a}))))},
				{"prefix-empty-bits", sq(sq(v4, sq([]byte{0x03, 0x01, 0x00})))}, {"prefix-empty-content", sq(sq(v4, sq([]byte{0x03, 0x00})))}}},
		{"asIdentifiers", []int{1, 3, 6, 1, 5, 5, 7, 1, 8}, sq(derTLV(0xa0, sq([]byte{0x02, 0x03, 0x00, 0xfd, 0xe8}, sq([]byte{0x02, 0x01, 0x01}, []byte{0x02, 0x01, 0x05}))), derTLV(0xa1, []byte{0x05, 0x00})),
			[]extValue{{"empty", sq()}, {"asnum-empty", sq([]byte{0xa0, 0x00})}, {"rdi-empty", sq([]byte{0xa1, 0x00})}, {"both-empty", sq([]byte{0xa0, 0x00}, []byte{0xa1, 0x00})},
				{"ids-empty", sq(derTLV(0xa0, sq()))}, {"ids-empty-rdi", sq(derTLV(0xa1, sq()))}, {"range-empty", sq(derTLV(0xa0, sq(sq())))}, {"range-min-only", sq(derTLV(0xa0, sq(sq([]byte{0x02, 0x01, 0x01}))))},
				{"id-empty-integer", sq(derTLV(0xa0, sq([]byte{0x02, 0x00})))}}},
	}
}

func cardExt(oid []int, critical bool, value []byte) []byte {
	if critical {
		return derTLV(0x30, derOID(oid...), []byte{0x01, 0x01, 0xff}, derTLV(0x04, value))
	}
	return derExt(derOID(oid...), value)
}

func cardCertDocs(spki []byte) []doc {
	var out []doc
	iss, subj := cardSoundName("cardinality issuer"), cardSoundName("cardinality subject")
	add := func(name string, tbs []byte) {
		out = append(out, doc{"cert", "card/cert/" + name, cardCert(tbs)}, doc{"tbs", "card/cert/" + name + "/tbs", tbs})
	}
	specs := cardExtSpecs()
	// one certificate with a sound value of every interpreted extension
	var all [][]byte
	for _, s := range specs {
		all = append(all, cardExt(s.oid, s.n == "keyUsage" || s.n == "basicConstraints", s.sound))
	}
	add("every-extension-sound", cardTBS(iss, subj, spki, derTLV(0xa3, sq(all...))))
	// names
	for _, n := range cardNames() {
		add("subject/"+n.n, cardTBS(iss, n.b, spki, derTLV(0xa3, sq(all[:5]...))))
		add("issuer/"+n.n, cardTBS(n.b, subj, spki, derTLV(0xa3, sq(all[:5]...))))
		add("both-names/"+n.n, cardTBS(n.b, n.b, spki, nil))
	}
	// the extensions block
	san, bc := cardExt(specs[4].oid, false, sq(derTLV(0x82, []byte("card.example")))), cardExt(specs[1].oid, true, sq())
	for _, b := range []namedBytes{
		{"absent", nil}, {"wrapper-empty", derTLV(0xa3)}, {"sequence-empty", derTLV(0xa3, sq())}, {"extension-empty", derTLV(0xa3, sq(sq()))},
		{"extension-empty-then-sound", derTLV(0xa3, sq(sq(), san))}, {"sound-then-extension-empty", derTLV(0xa3, sq(san, sq()))},
		{"extension-oid-only", derTLV(0xa3, sq(sq(derOID(2, 5, 29, 17))))}, {"extension-oid-critical-only", derTLV(0xa3, sq(sq(derOID(2, 5, 29, 17), []byte{0x01, 0x01, 0xff})))},
		{"extension-value-only", derTLV(0xa3, sq(sq(derTLV(0x04, sq()))))}, {"extension-oid-empty", derTLV(0xa3, sq(sq([]byte{0x06, 0x00}, derTLV(0x04, sq()))))},
		{"two-sequences-in-wrapper", derTLV(0xa3, sq(san), sq(bc))}, {"one-extension", derTLV(0xa3, sq(san))}, {"same-extension-twice", derTLV(0xa3, sq(san, san))},
		{"unique-ids-empty", cat(derTLV(0x81), derTLV(0x82), derTLV(0xa3, sq(san)))}, {"unique-ids-no-bits", cat([]byte{0x81, 0x01, 0x00}, []byte{0x82, 0x01, 0x00}, derTLV(0xa3, sq(san)))},
	} {
		add("extensions-block/"+b.n, cardTBS(iss, subj, spki, b.b))
	}
	// every interpreted extension: value empty, each list of the value empty / one empty member
	for _, s := range specs {
		vals := append([]extValue{{"value-empty", nil}, {"value-null", []byte{0x05, 0x00}}}, s.vals...)
		for i, v := range vals {
			for _, crit := range []bool{false, true} {
				e := cardExt(s.oid, crit, v.v)
				var block []byte
				lay := ""
				switch i % 3 {
				case 0:
					block, lay = derTLV(0xa3, sq(e)), "alone"
				case 1:
					block, lay = derTLV(0xa3, sq(bc, e)), "after-sound"
				default:
					block, lay = derTLV(0xa3, sq(e, bc)), "before-sound"
				}
				if s.n == "basicConstraints" {
					block = derTLV(0xa3, sq(e))
				}
				add(fmt.Sprintf("ext/%s/%s/critical:%v/%s", s.n, v.n, crit, lay), cardTBS(iss, subj, spki, block))
				// an empty subject makes the subjectAltName / name-bearing extensions the only identity
				if s.n == "subjectAltName" && crit {
					add(fmt.Sprintf("ext/%s/%s/critical:%v/empty-subject", s.n, v.n, crit), cardTBS(iss, sq(), spki, derTLV(0xa3, sq(e))))
				}
			}
		}
	}
	return out
}

// ---------------------------------------------------------------- certificate lists

// revoked: the complete revokedCertificates element, nil = absent; extBlock: the complete [0] element
func cardCRL(issuer, revoked, extBlock []byte) []byte {
	return sq(sq([]byte{0x02, 0x01, 0x01}, ecdsaSHA256, issuer, utcT("240101000000Z"), utcT("250101000000Z"), revoked, extBlock), ecdsaSHA256, cardSig)
}

func cardCRLDocs() []doc {
	var out []doc
	iss := cardSoundName("cardinality crl issuer")
	add := func(name string, der []byte) { out = append(out, doc{"crl", "card/crl/" + name, der}) }
	entry := func(serial byte, exts []byte) []byte {
		return sq([]byte{0x02, 0x01, serial}, utcT("240101010000Z"), exts)
	}
	reason := derExt(derOID(2, 5, 29, 21), []byte{0x0a, 0x01, 0x01})
	num := derExt(derOID(2, 5, 29, 20), []byte{0x02, 0x01, 0x07})
	soundRev, soundExt := sq(entry(5, nil), entry(6, sq(reason))), derTLV(0xa0, sq(num))
	for _, r := range []namedBytes{
		{"absent", nil}, {"empty", sq()}, {"entry-empty", sq(sq())}, {"entry-empty-first", sq(sq(), entry(5, nil))}, {"entry-empty-last", sq(entry(5, nil), sq())},
		{"entry-serial-only", sq(sq([]byte{0x02, 0x01, 0x05}))}, {"entry-time-only", sq(sq(utcT("240101010000Z")))}, {"one-entry", sq(entry(5, nil))},
		{"entry-extensions-empty", sq(entry(5, sq()))}, {"entry-extension-empty", sq(entry(5, sq(sq())))}, {"entry-extension-oid-only", sq(entry(5, sq(sq(derOID(2, 5, 29, 21)))))},
		{"entry-extension-value-empty", sq(entry(5, sq(derExt(derOID(2, 5, 29, 21), nil))))}, {"entry-extension-empty-then-sound", sq(entry(5, sq(sq(), reason)))},
		{"entry-serial-empty", sq(sq([]byte{0x02, 0x00}, utcT("240101010000Z")))},
	} {
		add("revoked/"+r.n, cardCRL(iss, r.b, soundExt))
		add("revoked/"+r.n+"/no-list-extensions", cardCRL(iss, r.b, nil))
	}
	for _, e := range []namedBytes{
		{"absent", nil}, {"wrapper-empty", derTLV(0xa0)}, {"sequence-empty", derTLV(0xa0, sq())}, {"extension-empty", derTLV(0xa0, sq(sq()))},
		{"extension-empty-then-sound", derTLV(0xa0, sq(sq(), num))}, {"extension-oid-only", derTLV(0xa0, sq(sq(derOID(2, 5, 29, 20))))},
		{"extension-value-empty", derTLV(0xa0, sq(derExt(derOID(2, 5, 29, 20), nil)))}, {"two-sequences-in-wrapper", derTLV(0xa0, sq(num), sq(num))},
	} {
		add("extensions-block/"+e.n, cardCRL(iss, soundRev, e.b))
		add("extensions-block/"+e.n+"/no-entries", cardCRL(iss, nil, e.b))
	}
	for _, n := range cardNames() {
		add("issuer/"+n.n, cardCRL(n.b, soundRev, soundExt))
	}
	uri := func(s string) []byte { return derTLV(0x86, []byte(s)) }
	type lv struct {
		n    string
		oid  []int
		crit bool
		vals []extValue
	}
	for _, l := range []lv{
		{"authorityKeyIdentifier", []int{2, 5, 29, 35}, false, []extValue{{"empty", sq()}, {"keyid-empty", sq([]byte{0x80, 0x00})}, {"issuer-empty", sq([]byte{0xa1, 0x00})}}},
		{"issuerAltName", []int{2, 5, 29, 18}, false, []extValue{{"empty", sq()}, {"dns-empty", sq([]byte{0x82, 0x00})}, {"email-empty", sq([]byte{0x81, 0x00})}, {"uri-empty", sq([]byte{0x86, 0x00})},
			{"ip-empty", sq([]byte{0x87, 0x00})}, {"dirname-empty", sq([]byte{0xa4, 0x00})}, {"dirname-rdnsequence-empty", sq(derTLV(0xa4, sq()))}, {"othername-empty", sq([]byte{0xa0, 0x00})}}},
		{"cRLNumber", []int{2, 5, 29, 20}, false, []extValue{{"integer-empty", []byte{0x02, 0x00}}}},
		{"deltaCRLIndicator", []int{2, 5, 29, 27}, true, []extValue{{"integer-empty", []byte{0x02, 0x00}}}},
		{"issuingDistributionPoint", []int{2, 5, 29, 28}, true, []extValue{{"empty", sq()}, {"dpname-empty", sq([]byte{0xa0, 0x00})}, {"fullname-empty", sq(derTLV(0xa0, []byte{0xa0, 0x00}))},
			{"relativename-empty", sq(derTLV(0xa0, []byte{0xa1, 0x00}))}, {"fullname-uri-empty", sq(derTLV(0xa0, derTLV(0xa0, []byte{0x86, 0x00})))}, {"flag-empty", sq([]byte{0x81, 0x00})},
			{"reasons-empty", sq([]byte{0x83, 0x00})}, {"reasons-no-bits", sq([]byte{0x83, 0x01, 0x00})}, {"fullname-and-relativename", sq(derTLV(0xa0, derTLV(0xa0, uri("http://a/")), derTLV(0xa1, st())))}}},
		{"freshestCRL", []int{2, 5, 29, 46}, false, []extValue{{"empty", sq()}, {"dp-empty", sq(sq())}, {"dpname-empty", sq(sq([]byte{0xa0, 0x00}))}, {"fullname-empty", sq(sq(derTLV(0xa0, []byte{0xa0, 0x00})))},
			{"uri-empty", sq(sq(derTLV(0xa0, derTLV(0xa0, []byte{0x86, 0x00}))))}, {"dp-empty-then-sound", sq(sq(), sq(derTLV(0xa0, derTLV(0xa0, uri("http://crl.card.example/d.crl")))))}}},
		{"authorityInfoAccess", []int{1, 3, 6, 1, 5, 5, 7, 1, 1}, false, []extValue{{"empty", sq()}, {"description-empty", sq(sq())}, {"method-only", sq(sq(derOID(1, 3, 6, 1, 5, 5, 7, 48, 2)))},
			{"location-empty", sq(sq(derOID(1, 3, 6, 1, 5, 5, 7, 48, 2), []byte{0x86, 0x00}))}, {"location-empty-ocsp", sq(sq(derOID(1, 3, 6, 1, 5, 5, 7, 48, 1), []byte{0x86, 0x00}))}}},
	} {
		for i, v := range l.vals {
			for _, crit := range []bool{l.crit, !l.crit} {
				e := cardExt(l.oid, crit, v.v)
				block := [][]byte{derTLV(0xa0, sq(e)), derTLV(0xa0, sq(num, e)), derTLV(0xa0, sq(e, num))}[i%3]
				if l.n == "cRLNumber" {
					block = derTLV(0xa0, sq(e))
				}
				rev := [][]byte{soundRev, nil}[i%2]
				add(fmt.Sprintf("list-ext/%s/%s/critical:%v", l.n, v.n, crit), cardCRL(iss, rev, block))
			}
		}
	}
	for _, l := range []lv{
		{"reasonCode", []int{2, 5, 29, 21}, false, []extValue{{"enumerated-empty", []byte{0x0a, 0x00}}}},
		{"invalidityDate", []int{2, 5, 29, 24}, false, []extValue{{"time-empty", []byte{0x18, 0x00}}}},
		{"certificateIssuer", []int{2, 5, 29, 29}, true, []extValue{{"empty", sq()}, {"dirname-empty", sq([]byte{0xa4, 0x00})}, {"dirname-rdnsequence-empty", sq(derTLV(0xa4, sq()))},
			{"dirname-rdn-empty", sq(derTLV(0xa4, sq(st())))}, {"dns-empty", sq([]byte{0x82, 0x00})}, {"ip-empty", sq([]byte{0x87, 0x00})}}},
	} {
		for i, v := range l.vals {
			for _, crit := range []bool{l.crit, !l.crit} {
				e := cardExt(l.oid, crit, v.v)
				rev := [][]byte{sq(entry(5, sq(e))), sq(entry(5, nil), entry(6, sq(e))), sq(entry(5, sq(e)), entry(6, sq(reason)))}[i%3]
				add(fmt.Sprintf("entry-ext/%s/%s/critical:%v", l.n, v.n, crit), cardCRL(iss, rev, soundExt))
			}
		}
	}
	return out
}

// ---------------------------------------------------------------- keys

func cardKeyDocs() []doc {
	var out []doc
	add := func(kind, name string, der []byte) { out = append(out, doc{kind, "card/" + kind + "/" + name, der}) }
	bits := func(content ...[]byte) []byte { return derTLV(0x03, append([][]byte{{0x00}}, content...)...) }
	rsaOID, ecOID, edOID, dsaOID := derOID(1, 2, 840, 113549, 1, 1, 1), derOID(1, 2, 840, 10045, 2, 1), derOID(1, 3, 101, 112), derOID(1, 2, 840, 10040, 4, 1)
	p256 := derOID(1, 2, 840, 10045, 3, 1, 7)
	n := derTLV(0x02, append([]byte{0x00, 0xc1}, make([]byte, 127)...))
	n[len(n)-1] = 0x0b
	e := []byte{0x02, 0x03, 0x01, 0x00, 0x01}
	i5 := []byte{0x02, 0x01, 0x05}
	point := append([]byte{0x04}, make([]byte, 64)...)
	// SubjectPublicKeyInfo
	for _, k := range []namedBytes{
		{"empty", sq()}, {"algorithm-empty", sq(sq(), bits(sq(n, e)))}, {"algorithm-only", sq(rsaAlgNull)}, {"key-only", sq(bits(sq(n, e)))},
		{"rsa/sound", sq(rsaAlgNull, bits(sq(n, e)))}, {"rsa/params-absent", sq(sq(rsaOID), bits(sq(n, e)))}, {"rsa/params-empty-sequence", sq(sq(rsaOID, sq()), bits(sq(n, e)))},
		{"rsa/key-sequence-empty", sq(rsaAlgNull, bits(sq()))}, {"rsa/key-modulus-only", sq(rsaAlgNull, bits(sq(n)))}, {"rsa/key-three-integers", sq(rsaAlgNull, bits(sq(n, e, e)))},
		{"rsa/key-no-bits", sq(rsaAlgNull, []byte{0x03, 0x01, 0x00})}, {"rsa/key-empty-content", sq(rsaAlgNull, []byte{0x03, 0x00})}, {"rsa/key-integers-empty", sq(rsaAlgNull, bits(sq([]byte{0x02, 0x00}, []byte{0x02, 0x00})))},
		{"ec/params-absent", sq(sq(ecOID), bits(point))}, {"ec/params-null", sq(sq(ecOID, []byte{0x05, 0x00}), bits(point))}, {"ec/params-empty-sequence", sq(sq(ecOID, sq()), bits(point))},
		{"ec/params-empty-oid", sq(sq(ecOID, []byte{0x06, 0x00}), bits(point))}, {"ec/point-no-bits", sq(sq(ecOID, p256), []byte{0x03, 0x01, 0x00})}, {"ec/point-one-octet", sq(sq(ecOID, p256), bits([]byte{0x04}))},
		{"ec/point-empty-content", sq(sq(ecOID, p256), []byte{0x03, 0x00})}, {"ec/point-infinity", sq(sq(ecOID, p256), bits([]byte{0x00}))},
		{"ed25519/key-no-bits", sq(sq(edOID), []byte{0x03, 0x01, 0x00})}, {"ed25519/key-one-octet", sq(sq(edOID), bits([]byte{0x01}))}, {"ed25519/params-null", sq(sq(edOID, []byte{0x05, 0x00}), bits(make([]byte, 32)))},
		{"dsa/sound-shape", sq(sq(dsaOID, sq(i5, i5, i5)), bits(i5))}, {"dsa/params-absent", sq(sq(dsaOID), bits(i5))}, {"dsa/params-empty", sq(sq(dsaOID, sq()), bits(i5))},
		{"dsa/params-one", sq(sq(dsaOID, sq(i5)), bits(i5))}, {"dsa/key-no-bits", sq(sq(dsaOID, sq(i5, i5, i5)), []byte{0x03, 0x01, 0x00})}, {"dsa/key-empty-integer", sq(sq(dsaOID, sq(i5, i5, i5)), bits([]byte{0x02, 0x00}))},
		{"algorithm-oid-empty", sq(sq([]byte{0x06, 0x00}), bits(sq(n, e)))},
	} {
		add("pub", k.n, k.b)
	}
	// PKCS#1
	v0, v1 := []byte{0x02, 0x01, 0x00}, []byte{0x02, 0x01, 0x01}
	two := [][]byte{n, e, i5, i5, i5, i5, i5, i5}
	for _, k := range []namedBytes{
		{"empty", sq()}, {"version-only", sq(v0)}, {"version-and-modulus", sq(v0, n)}, {"two-prime-shape", sq(append([][]byte{v0}, two...)...)},
		{"other-primes-empty-v0", sq(append(append([][]byte{v0}, two...), sq())...)}, {"other-primes-empty-v1", sq(append(append([][]byte{v1}, two...), sq())...)},
		{"other-primes-absent-v1", sq(append([][]byte{v1}, two...)...)}, {"other-prime-empty", sq(append(append([][]byte{v1}, two...), sq(sq()))...)},
		{"other-prime-one-integer", sq(append(append([][]byte{v1}, two...), sq(sq(i5)))...)}, {"other-prime-shape", sq(append(append([][]byte{v1}, two...), sq(sq(i5, i5, i5)))...)},
		{"other-prime-empty-then-shape", sq(append(append([][]byte{v1}, two...), sq(sq(), sq(i5, i5, i5)))...)}, {"integers-empty", sq(v0, []byte{0x02, 0x00}, []byte{0x02, 0x00}, []byte{0x02, 0x00}, []byte{0x02, 0x00}, []byte{0x02, 0x00}, []byte{0x02, 0x00}, []byte{0x02, 0x00}, []byte{0x02, 0x00})},
	} {
		add("pkcs1", k.n, k.b)
	}
	for _, k := range []namedBytes{{"empty", sq()}, {"modulus-only", sq(n)}, {"shape", sq(n, e)}, {"three", sq(n, e, e)}, {"integers-empty", sq([]byte{0x02, 0x00}, []byte{0x02, 0x00})}} {
		add("pkcs1pub", k.n, k.b)
	}
	// SEC 1
	key32 := derTLV(0x04, append([]byte{0x01}, make([]byte, 31)...))
	sec1 := func(parts ...[]byte) []byte { return sq(append([][]byte{v1}, parts...)...) }
	for _, k := range []namedBytes{
		{"empty", sq()}, {"version-only", sq(v1)}, {"key-empty", sec1([]byte{0x04, 0x00}, derTLV(0xa0, p256))}, {"key-empty-no-params", sec1([]byte{0x04, 0x00})},
		{"params-absent", sec1(key32)}, {"params-wrapper-empty", sec1(key32, []byte{0xa0, 0x00})}, {"params-oid-empty", sec1(key32, derTLV(0xa0, []byte{0x06, 0x00}))},
		{"params-empty-sequence", sec1(key32, derTLV(0xa0, sq()))}, {"shape", sec1(key32, derTLV(0xa0, p256))}, {"public-wrapper-empty", sec1(key32, derTLV(0xa0, p256), []byte{0xa1, 0x00})},
		{"public-no-bits", sec1(key32, derTLV(0xa0, p256), derTLV(0xa1, []byte{0x03, 0x01, 0x00}))}, {"public-empty-content", sec1(key32, derTLV(0xa0, p256), derTLV(0xa1, []byte{0x03, 0x00}))},
		{"key-one-octet", sec1([]byte{0x04, 0x01, 0x01}, derTLV(0xa0, p256))}, {"key-zero-octet", sec1([]byte{0x04, 0x01, 0x00}, derTLV(0xa0, p256))},
	} {
		add("ec", k.n, k.b)
	}
	// PKCS#8
	ecAlg, ecAlgBare, edAlg := sq(ecOID, p256), sq(ecOID), sq(edOID)
	oct := func(parts ...[]byte) []byte { return derTLV(0x04, parts...) }
	for _, k := range []namedBytes{
		{"empty", sq()}, {"version-only", sq(v0)}, {"no-key", sq(v0, rsaAlgNull)}, {"algorithm-empty", sq(v0, sq(), oct())}, {"algorithm-oid-empty", sq(v0, sq([]byte{0x06, 0x00}), oct())},
		{"rsa/key-empty", sq(v0, rsaAlgNull, oct())}, {"rsa/key-sequence-empty", sq(v0, rsaAlgNull, oct(sq()))}, {"rsa/key-version-only", sq(v0, rsaAlgNull, oct(sq(v0)))},
		{"rsa/attributes-empty", sq(v0, rsaAlgNull, oct(sq(append([][]byte{v0}, two...)...)), []byte{0xa0, 0x00})}, {"rsa/other-primes-empty", sq(v0, rsaAlgNull, oct(sq(append(append([][]byte{v1}, two...), sq())...)))},
		{"ec/key-empty", sq(v0, ecAlg, oct())}, {"ec/key-sequence-empty", sq(v0, ecAlg, oct(sq()))}, {"ec/key-version-only", sq(v0, ecAlg, oct(sq(v1)))}, {"ec/inner-key-empty", sq(v0, ecAlg, oct(sec1([]byte{0x04, 0x00})))},
		{"ec/shape", sq(v0, ecAlg, oct(sec1(key32)))}, {"ec/params-absent-both", sq(v0, ecAlgBare, oct(sec1(key32)))}, {"ec/params-absent-outer", sq(v0, ecAlgBare, oct(sec1(key32, derTLV(0xa0, p256))))},
		{"ec/params-null-outer", sq(v0, sq(ecOID, []byte{0x05, 0x00}), oct(sec1(key32)))}, {"ec/params-empty-sequence-outer", sq(v0, sq(ecOID, sq()), oct(sec1(key32)))},
		{"ed25519/key-empty", sq(v0, edAlg, oct())}, {"ed25519/inner-empty", sq(v0, edAlg, oct(oct()))}, {"ed25519/inner-one-octet", sq(v0, edAlg, oct(oct([]byte{0x01})))},
		{"ed25519/shape", sq(v0, edAlg, oct(oct(make([]byte, 32))))}, {"ed25519/params-null", sq(v0, sq(edOID, []byte{0x05, 0x00}), oct(oct(make([]byte, 32))))},
		{"ed25519/attributes-empty", sq(v0, edAlg, oct(oct(make([]byte, 32))), []byte{0xa0, 0x00})},
	} {
		add("pkcs8", k.n, k.b)
	}
	return out
}

// a three-prime RSA key in both private containers: the only documents with a non-empty
// otherPrimeInfos list for the structural operator to shorten
func multiPrimeDocs() []doc {
	k, err := rsa.GenerateMultiPrimeKey(rand.Reader, 3, 1024) //nolint:staticcheck // the parser under test still reads such keys
	if err != nil {
		return nil
	}
	var out []doc
	out = append(out, doc{"pkcs1", "generated/rsa-three-primes/pkcs1", x509.MarshalPKCS1PrivateKey(k)})
	if b, err := x509.MarshalPKCS8PrivateKey(k); err == nil {
		out = append(out, doc{"pkcs8", "generated/rsa-three-primes/pkcs8", b})
	}
	return out
}

// ---------------------------------------------------------------- the structural operator

type cardOp struct {
	name string
	// f returns the replacement of the element at the end of path (nil: not applicable)
	f func(b []byte, path []tlv) ([]byte, bool)
}

// content of t reduced to the single child c (keeping what precedes the first child: the
// unused-bits octet of a BIT STRING that wraps elements)
func keepChild(b []byte, t tlv, which int) ([]byte, bool) {
	ks := kids(b, t)
	if len(ks) < 2 {
		return nil, false
	}
	c := ks[0]
	if which < 0 {
		c = ks[len(ks)-1]
	}
	content := append(append([]byte{}, b[t.off+t.hdr:ks[0].off]...), node(b, c)...)
	return append(encHeader(tagBytes(b, t), len(content)), content...), true
}

var cardOps = []cardOp{
	{"empty", func(b []byte, p []tlv) ([]byte, bool) {
		t := p[len(p)-1]
		if t.length == 0 {
			return nil, false
		}
		return encHeader(tagBytes(b, t), 0), true
	}},
	{"keep-first", func(b []byte, p []tlv) ([]byte, bool) { return keepChild(b, p[len(p)-1], 0) }},
	{"keep-last", func(b []byte, p []tlv) ([]byte, bool) { return keepChild(b, p[len(p)-1], -1) }},
	{"delete", func(b []byte, p []tlv) ([]byte, bool) {
		if len(p) < 2 {
			return nil, false
		}
		return []byte{}, true
	}},
	{"duplicate", func(b []byte, p []tlv) ([]byte, bool) {
		if len(p) < 2 {
			return nil, false
		}
		n := node(b, p[len(p)-1])
		return append(append([]byte{}, n...), n...), true
	}},
}

func applyCardOp(op cardOp, b []byte, path []tlv) []byte {
	repl, ok := op.f(b, path)
	if !ok {
		return nil
	}
	if len(path) == 1 {
		return repl
	}
	return replaceNode(b, path, repl)
}

// structural position of a node: the path of (tag, index among the siblings, leading OID of a
// SEQUENCE) from the root.  Two nodes with the same position are decoded by the same code with
// the same expectations (the same field of the same structure, the same attribute / extension /
// algorithm type), whatever the document.
func nodePosition(b []byte, path []tlv) string {
	var sb strings.Builder
	for i, t := range path {
		idx := 0
		if i > 0 {
			for _, s := range kids(b, path[i-1]) {
				if s.off == t.off {
					break
				}
				idx++
			}
		}
		if idx > 9 {
			idx = 9
		}
		fmt.Fprintf(&sb, "/%02x.%d", t.tag, idx)
		if t.tag == 0x30 {
			if ks := kids(b, t); len(ks) > 0 && ks[0].tag == 0x06 {
				sb.WriteString("~" + hex.EncodeToString(b[ks[0].off+ks[0].hdr:ks[0].end()]))
			}
		}
	}
	return sb.String()
}

func childCountClass(n int) string {
	switch {
	case n == 0:
		return "children:0"
	case n == 1:
		return "children:1"
	case n == 2:
		return "children:2"
	}
	return "children:3+"
}

// the randomly drawn forms, composable with the other mutations of stream 2
func init() {
	mutations = append(mutations,
		mutation{"empty-constructed", func(r *mrand.Rand, b []byte, _ [][]byte) []byte {
			p := randomPath(r, b, func(t tlv) bool { return t.length > 0 && len(kids(b, t)) > 0 })
			if len(p) < 2 {
				return nil
			}
			return applyCardOp(cardOps[0], b, p)
		}},
		mutation{"keep-one-child", func(r *mrand.Rand, b []byte, _ [][]byte) []byte {
			p := randomPath(r, b, func(t tlv) bool { return len(kids(b, t)) >= 2 })
			if p == nil {
				return nil
			}
			return applyCardOp(cardOps[1+r.Intn(2)], b, p)
		}})
}

// one document through every entry point of its kind, two others, and the model-tied cases
func (rn *runner) cardDoc(kind, src string, ops []string, b []byte, cross int, tags ...string) {
	for _, fn := range kindFns(kind) {
		rn.coh(fn, src, ops, b, tags...)
	}
	for j := 0; j < cross; j++ {
		rn.coh(rn.r.Intn(len(parsers)), src, ops, b, "stream:cardinality-cross")
	}
	switch kind {
	case "cert":
		rn.single(false, src, ops, b, tags[0])
		rn.many(src, ops, [][]byte{b}, false, tags[0])
	case "tbs":
		rn.single(true, src, ops, b, tags[0])
	case "crl":
		rn.listCase(src, ops, b)
		rn.strictCase(fnDERCRL, src, ops, b)
	case "pub":
		rn.strictCase(fnPKIX, src, ops, b)
	}
}

func (rn *runner) cardinalityStream(byKind map[string][]doc, hand, sites []doc) {
	quick := lib.Tier() == "quick"
	// (a) the hand-written documents as they are; certificate lists also PEM-armoured through the
	//     sniffing front ends
	for _, d := range append(append([]doc{}, sites...), hand...) {
		parts := strings.Split(d.src, "/")
		rn.cardDoc(d.kind, d.src, nil, d.der, 2, "stream:cardinality-hand", "kind:"+d.kind, "card:"+strings.Join(parts[1:3], "/"))
		if d.kind == "crl" {
			rn.crlDoc(d.src, d.der, false, "card:crl-pem")
		}
	}
	// (b) the structural operator on every node of every document
	per := lib.Count(1, 4)
	seen := map[string]int{}
	n := 0
	for _, k := range []string{"csr", "cert", "tbs", "crl", "pub", "pkcs1", "pkcs1pub", "pkcs8", "ec"} {
		// hand-written sites and generated documents first: they are the ones that hold every kind of list
		var pool []doc
		for _, d := range sites {
			if d.kind == k {
				pool = append(pool, d)
			}
		}
		for _, gen := range []bool{true, false} {
			for _, d := range byKind[k] {
				if strings.HasPrefix(d.src, "generated/") == gen {
					pool = append(pool, d)
				}
			}
		}
		for di, d := range pool {
			variants := []struct {
				der []byte
				lax bool
			}{{d.der, false}}
			if (k == "cert" || k == "tbs") && di%3 == 0 {
				if p := padSerial(d.der, k == "tbs"); p != nil {
					variants = append(variants, struct {
						der []byte
						lax bool
					}{p, true})
				}
			}
			for _, v := range variants {
				for _, path := range allNodes(v.der) {
					t := path[len(path)-1]
					pos := nodePosition(v.der, path)
					structural := len(kids(v.der, t)) > 0 || t.constructed()
					for oi, op := range cardOps {
						// quick tier: a primitive leaf is only emptied (its absence / repetition is the business of
						// the delete / duplicate mutations of stream 2), and the lax mode is tried on the lists only
						if quick && !structural && oi > 0 {
							continue
						}
						if quick && v.lax && (!structural || oi > 2) {
							continue
						}
						key := fmt.Sprintf("%s %s %v %s", k, op.name, v.lax, pos)
						if seen[key] >= per {
							continue
						}
						b := applyCardOp(op, v.der, path)
						if b == nil {
							continue
						}
						seen[key]++
						var ops []string
						mode := "mode:as-is"
						if v.lax {
							ops, mode = append(ops, "pad-serial"), "mode:lax-serial"
						}
						ops = append(ops, fmt.Sprintf("%s %02x at %d (len %d, %d children) position %s", op.name, t.tag, t.off, t.length, len(kids(v.der, t)), pos))
						cons := "node:primitive"
						if t.constructed() {
							cons = "node:constructed"
						} else if len(kids(v.der, t)) > 0 {
							cons = "node:wrapper"
						}
						tags := []string{"stream:cardinality", "mut:card-" + op.name, "kind:" + k, cons, childCountClass(len(kids(v.der, t))), fmt.Sprintf("depth:%d", len(path)-1), mode}
						cross := 0
						if n%4 == 0 {
							cross = 1
						}
						if quick && (k == "cert" || k == "tbs") && n%6 != 0 {
							// the model-tied cases cost the most; in the quick tier every sixth mutant carries them
							for _, fn := range kindFns(k) {
								rn.coh(fn, d.src, ops, b, tags...)
							}
						} else {
							rn.cardDoc(k, d.src, ops, b, cross, tags...)
						}
						n++
					}
				}
			}
		}
	}
}

// cardinalityDocs: the hand-written boundary documents of this stream, and the hand-written SOUND
// documents that hold every kind of list (sites of the structural operator).  Neither is claimed
// to be well-formed in the sense of the conformance clause (signatures and keys are dummies).
func cardinalityDocs(donor *x509.Certificate) (hand, sites []doc) {
	if donor == nil {
		return nil, nil
	}
	spki := donor.RawSubjectPublicKeyInfo
	hand = append(hand, cardCSRDocs(spki)...)
	hand = append(hand, cardCertDocs(spki)...)
	hand = append(hand, cardCRLDocs()...)
	hand = append(hand, cardKeyDocs()...)
	// sites
	var all [][]byte
	for _, s := range cardExtSpecs() {
		all = append(all, cardExt(s.oid, s.n == "keyUsage" || s.n == "basicConstraints", s.sound))
	}
	tbs := cardTBS(stringsName("card issuer"), cardSoundName("cardinality subject"), spki, cat(derTLV(0x81, []byte{0x00, 0xde, 0xad}), derTLV(0x82, []byte{0x04, 0xbe, 0xef, 0xf0}), derTLV(0xa3, sq(all...))))
	sites = append(sites, doc{"cert", "card/site/cert-every-extension", cardCert(tbs)}, doc{"tbs", "card/site/cert-every-extension/tbs", tbs})
	san := derExt(derOID(2, 5, 29, 17), sq(derTLV(0x82, []byte("card.example")), derTLV(0x81, []byte("u@card.example")), derTLV(0x87, []byte{192, 0, 2, 1}), derTLV(0x86, []byte("https://card.example/"))))
	bc := derTLV(0x30, derOID(2, 5, 29, 19), []byte{0x01, 0x01, 0xff}, derTLV(0x04, sq()))
	attrs := derTLV(0xa0, sq(oidAttrChallenge, st(derTLV(0x0c, []byte("secret")))), sq(oidAttrExtReq, st(sq(bc, san))), sq(oidAttrUnstructured, st(derTLV(0x16, []byte("a")), derTLV(0x16, []byte("b")))),
		sq(oidAttrPrivate, st(sq(derTLV(0x0c, []byte("x"))))))
	sites = append(sites, doc{"csr", "card/site/csr-every-attribute", cardCSR(stringsName("card csr"), spki, attrs)})
	good := func(vs []extVariant) (out []crlExt) {
		for _, v := range vs {
			if v.variant == "good" {
				out = append(out, v.e)
			}
		}
		return
	}
	ev, lv := good(entryExtVariants()), good(listExtVariants())
	sites = append(sites, doc{"crl", "card/site/crl-every-extension", handCRL(true, [][]crlExt{ev, nil, ev[:1]}, lv)})
	for _, d := range hand {
		if strings.HasSuffix(d.src, "sound-shape") {
			sites = append(sites, d)
		}
	}
	return
}
