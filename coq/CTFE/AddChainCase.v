(* C01 correspondence cases: one case = one HISTORY of add-chain / add-pre-chain requests against
   one real ctfe.Instance over a de-duplicating backend.  The model is run over the same history
   (threading its own backend state) and every projected observable of every request is compared:
   status class, QueueLeafRequest (LeafValue, ExtraData, LeafIdentityHash), the AlreadyExists
   flag, the SCT of the response (id, timestamp, extensions, algorithms), the bytes the log
   signed (observed = the client-side signature input under which the real signature verified
   with Go's crypto), and the TLS encoding handed to RequestLog.IssueSCT.
   The SHA-256 oracle is a per-case table (input -> digest) filled by the harness with
   crypto/sha256; the signer oracle returns the signature bytes observed for that request. *)
From Coq Require Import String NArith ZArith List Bool.
From V Require Import Base.Bytes Base.CaseLib TLS.TlsModel X509.PrecertModel CTFE.AddChainModel.
Import ListNotations.
Local Open Scope N_scope.

Record observed := {
  o_status : Z;
  o_queued : option (bytes * bytes * bytes);   (* LeafValue, ExtraData, LeafIdentityHash of the QueueLeafRequest *)
  o_dup : bool;                                (* the backend answered AlreadyExists *)
  o_sct : option (bytes * N * bytes * N * N * bytes);  (* id, timestamp, extensions, hash alg, sig alg, signature *)
  o_signed : option bytes;                     (* signature input that verified under the log key *)
  o_issue : option bytes                       (* RequestLog.IssueSCT *)
}.

Inductive hstep :=
| Valid (s : submission) (o : observed)        (* the chain validated: the model takes the validated path *)
| Invalid (status : Z) (queued issued : bool). (* rejected before the content path (C02 / C08): no state change *)

Inductive case :=
| CHistory (spki : bytes) (kind : key_kind) (htab : list (bytes * bytes)) (steps : list hstep).

Fixpoint table_lookup (tab : list (bytes * bytes)) (b : bytes) : bytes :=
  match tab with
  | [] => []                                   (* not in the table: no digest, the comparison fails *)
  | (k, d) :: r => if bytes_eqb b k then d else table_lookup r b
  end.

Definition triple_eqb (a b : bytes * bytes * bytes) : bool :=
  bytes_eqb (fst (fst a)) (fst (fst b)) && bytes_eqb (snd (fst a)) (snd (fst b)) && bytes_eqb (snd a) (snd b).

Definition leaf_triple (l : log_leaf) : bytes * bytes * bytes := (l_value l, l_extra l, l_id l).

Definition obs_sig (o : observed) : option bytes :=
  match o_sct o with Some (_, _, _, _, _, sg) => Some sg | None => None end.

Definition is_some_b {A} (x : option A) : bool := match x with Some _ => true | None => false end.

Definition step_ok (out : outcome) (o : observed) : bool :=
  match out with
  | OPanic => false                            (* the harness turns a panic into status -1 *)
  | Refused st =>
      Z.eqb (o_status o) st && negb (is_some_b (o_sct o)) && negb (is_some_b (o_issue o))
  | Issued r =>
      Z.eqb (o_status o) 200
      && opt_eqb triple_eqb (Some (leaf_triple (i_queued r))) (o_queued o)
      && Bool.eqb (i_dup r) (o_dup o)
      && match o_sct o with
         | Some (id, ts, ext, ha, sa, _) =>
             bytes_eqb (i_id r) id && N.eqb (i_ts r) ts && bytes_eqb (i_ext r) ext
             && N.eqb (i_hash_alg r) ha && N.eqb (i_sig_alg r) sa
         | None => false
         end
      && opt_eqb bytes_eqb (Some (i_signed r)) (o_signed o)
      && opt_eqb bytes_eqb (Some (i_sct_bytes r)) (o_issue o)
  end.

Definition model_step (H : bytes -> bytes) (cfg : config) (st : state) (s : submission) (o : observed) : state * outcome :=
  add_chain H (fun _ _ => obs_sig o) current_guard cfg st s.

(* a 5xx of the model is decided before the signer is asked; when the implementation did not
   sign either there is no observed signature and [sign] answers None, which the model turns
   into 500 as well - only Issued outcomes depend on the oracle *)
Fixpoint run_steps (H : bytes -> bytes) (cfg : config) (st : state) (steps : list hstep) : bool :=
  match steps with
  | [] => true
  | Valid s o :: r =>
      let '(st', out) := model_step H cfg st s o in
      step_ok out o && run_steps H cfg st' r
  | Invalid status queued issued :: r =>
      negb (Z.eqb status 200) && negb queued && negb issued && run_steps H cfg st r
  end.

Definition check (c : case) : bool :=
  match c with
  | CHistory spki kind tab steps =>
      run_steps (table_lookup tab) {| k_spki := spki; k_kind := kind |} init_state steps
  end.

(* what the model computes, per step, in a form short enough for replay files:
   (status, SCT timestamp, AlreadyExists, first 8 bytes of LeafIdentityHash as a number,
    timestamp inside the queued LeafValue, |LeafValue|, |ExtraData|, |signed bytes|) *)
Definition summary (out : outcome) : Z * N * bool * N * N * N * N * N :=
  match out with
  | OPanic => ((-1)%Z, 0, false, 0, 0, 0, 0, 0)
  | Refused st => (st, 0, false, 0, 0, 0, 0, 0)
  | Issued r => (200%Z, i_ts r, i_dup r, be_dec (firstn 8 (l_id (i_queued r))),
                 be_dec (firstn 8 (skipn 2 (l_value (i_queued r)))),
                 N.of_nat (length (l_value (i_queued r))), N.of_nat (length (l_extra (i_queued r))),
                 N.of_nat (length (i_signed r)))
  end.

Fixpoint explain_steps (H : bytes -> bytes) (cfg : config) (st : state) (steps : list hstep)
  : list (option (Z * N * bool * N * N * N * N * N)) :=
  match steps with
  | [] => []
  | Valid s o :: r =>
      let '(st', out) := model_step H cfg st s o in Some (summary out) :: explain_steps H cfg st' r
  | Invalid _ _ _ :: r => None :: explain_steps H cfg st r
  end.

Definition explain (c : case) :=
  match c with
  | CHistory spki kind tab steps =>
      explain_steps (table_lookup tab) {| k_spki := spki; k_kind := kind |} init_state steps
  end.
