(* C02 - where the faithful model refutes the unrestricted "if and only if".
   Three explicit witnesses: each is admissible by the property's sentence, satisfies the
   OTHER hypotheses of validate_complete, and is rejected by the model of the code.

   keyid     [L, I, R]: L names I and is validly signed by I, I by the trusted R, but L carries
             R's key id as authority key id.  findPotentialParents answers {R} (key-id match
             wins over the name), R did not sign L, I is never tried.     (known finding F17)
   budget    a valid 101-certificate line L <- I1 <- ... <- I100 with the root outside the
             submission: the 101st CheckSignatureFrom is refused (maxChainSignatureChecks = 100).
             With 100 certificates the same shape is accepted (the bound is exact).
   leafroot  [I, R] with I itself in the trusted pool (a trusted, non-self-signed certificate
             submitted together with its issuer): Verify answers [[I]] at once, which is not
             equivalent to the two-certificate submission. *)
From Coq Require Import ZArith NArith Bool List Lia.
From V Require Import Base.GoInt gen.Windows Temporal.WindowModel
  CTFE.ChainModel CTFE.ChainSpec CTFE.ChainLib CTFE.ChainSound CTFE.ChainComplete.
Import ListNotations.
Open Scope bool_scope.

(* ---------------------------------------------------------------- boolean reflections *)

Fixpoint linkedb (p : chain) : bool :=
  match p with
  | a :: t => match t with
              | b :: _ => N.eqb (c_issuer a) (c_subject b) && signed_by a b && linkedb t
              | [] => true
              end
  | [] => true
  end.
Lemma linkedb_sound p : linkedb p = true -> linked p.
Proof.
  induction p as [|a t IH]; [intros; exact I|]. destruct t as [|b t]; [intros; exact I|].
  intros H. change (linkedb (a :: b :: t)) with (N.eqb (c_issuer a) (c_subject b) && signed_by a b && linkedb (b :: t)) in H.
  apply andb_prop in H. destruct H as [H H3]. apply andb_prop in H. destruct H as [H1 H2].
  split; [split; [apply N.eqb_eq; exact H1|exact H2]|apply IH; exact H3].
Qed.

Fixpoint nodupb (l : list N) : bool :=
  match l with [] => true | x :: t => negb (memN x t) && nodupb t end.
Lemma nodupb_sound l : nodupb l = true -> NoDup l.
Proof.
  induction l as [|x t IH]; [constructor|]. simpl. intros H. apply andb_prop in H. destruct H as [H1 H2].
  constructor; [|apply IH; exact H2]. intro Hin. apply memN_In in Hin. rewrite Hin in H1. discriminate.
Qed.

Lemma NoDup_ids_inj (l : list cert) : NoDup (map c_id l) ->
  forall a b, In a l -> In b l -> c_id a = c_id b -> a = b.
Proof.
  induction l as [|x l IH]; simpl; [intros _ a b []|].
  intros Hn a b Ha Hb E. inversion Hn; subst.
  destruct Ha as [->|Ha], Hb as [->|Hb]; auto.
  - exfalso. apply H1. rewrite E. apply in_map. exact Hb.
  - exfalso. apply H1. rewrite <- E. apply in_map. exact Ha.
Qed.
Lemma NoDupIds_wf o raw : NoDupIds (raw ++ o_roots o) -> wf_ids o raw.
Proof. intros H a b. apply NoDup_ids_inj. exact H. Qed.

Lemma keyid_no_aki rp ints : forall suf c,
  (forall x, In x (c :: suf) -> c_aki x = None) -> keyid_ok rp ints c suf.
Proof.
  induction suf as [|x t IH]; intros c H; [exact I|].
  assert (Hv : forall pl, visible pl c x) by (intros pl k Hk; rewrite (H c (or_introl eq_refl)) in Hk; discriminate).
  destruct t as [|y t]; [apply Hv|]. split; [apply Hv|]. apply IH. intros z Hz. apply H. right. exact Hz.
Qed.

(* ---------------------------------------------------------------- witness 1: key ids *)

Definition kw_R : cert := mkCert 2 20 20 (Some 200%N) None 2 [2%N] true true 0%Z [] [].
Definition kw_I : cert := mkCert 1 10 20 (Some 100%N) (Some 200%N) 1 [2%N] true true 0%Z [] [].
Definition kw_L : cert := mkCert 0 5 10 None (Some 200%N) 0 [1%N] true false 0%Z [] [].
Definition kw_opts : options := mkOpts [kw_R] 0%Z false false None None false [] [].
Definition kw_raw : chain := [kw_L; kw_I; kw_R].

Lemma kw_wf : wf_ids kw_opts kw_raw.
Proof.
  intros a b Ha Hb E. simpl in Ha, Hb.
  repeat (destruct Ha as [<-|Ha]; [|]); try destruct Ha;
  repeat (destruct Hb as [<-|Hb]; [|]); try destruct Hb; try reflexivity; vm_compute in E; discriminate.
Qed.

Lemma kw_admissible : admissible_by kw_opts kw_raw kw_raw.
Proof.
  split.
  - exists kw_L, [kw_I; kw_R]. split; [reflexivity|]. apply leaf_filters_none. reflexivity.
  - split; [discriminate|]. split; [left; reflexivity|]. split; [apply linkedb_sound; reflexivity|].
    split; [intros c [<-|[]]; reflexivity|]. split; [exists kw_R; split; [reflexivity|left; reflexivity]|].
    apply nodupb_sound. reflexivity.
Qed.

Lemma complete_without_keyid_refuted_lemma :
  exists o raw P, wf_ids o raw /\ admissible_by o raw P /\ H_leafroot o raw /\ H_budget o raw P
                  /\ validate o raw = Rejected RVerify.
Proof.
  exists kw_opts, kw_raw, kw_raw. split; [exact kw_wf|]. split; [exact kw_admissible|].
  split; [|split].
  - intros c0 rest [= <- <-] H. vm_compute in H. discriminate.
  - unfold H_budget. apply Nat.leb_le. reflexivity.
  - reflexivity.
Qed.

(* the hypothesis is what fails *)
Lemma kw_not_keyid : ~ H_keyid kw_opts kw_raw kw_raw.
Proof.
  unfold H_keyid. simpl. intros [Hv _]. specialize (Hv 200%N eq_refl).
  assert (exists p, In p (pool_of [kw_I; kw_R]) /\ c_ski p = Some 200%N) as Hex
    by (exists kw_R; split; [vm_compute; auto|reflexivity]).
  specialize (Hv Hex). discriminate.
Qed.

(* ---------------------------------------------------------------- witness 2: the budget *)

Definition line_cert (i : nat) : cert :=
  mkCert (N.of_nat i) (N.of_nat i) (N.of_nat (S i)) None None (N.of_nat i) [N.of_nat (S i)] true true 0%Z [] [].
Definition line_root (n : nat) : cert :=
  mkCert (N.of_nat n) (N.of_nat n) (N.of_nat n) None None (N.of_nat n) [N.of_nat n] true true 0%Z [] [].
Definition line (n : nat) : chain := map line_cert (seq 0 n).
Definition line_opts (n : nat) : options := mkOpts [line_root n] 0%Z false false None None false [] [].
Definition line_path (n : nat) : chain := line n ++ [line_root n].

Lemma line_wf n : nodupb (map c_id (line_path n)) = true -> wf_ids (line_opts n) (line n).
Proof. intros H. apply NoDupIds_wf. apply nodupb_sound. exact H. Qed.

Lemma line_admissible n :
  line n <> [] -> leaf_filters (line_opts n) (hd (line_root n) (line n)) = None ->
  linkedb (line_path n) = true -> forallb is_ca_cert (middle (line_path n)) = true ->
  nodupb (map c_id (line_path n)) = true ->
  admissible_by (line_opts n) (line n) (line_path n).
Proof.
  intros Hne Hf Hl Hm Hn. split.
  - destruct (line n) as [|c0 rest] eqn:E; [congruence|]. exists c0, rest. split; [reflexivity|].
    apply leaf_filters_none. exact Hf.
  - split; [exact Hne|]. split; [right; exists (line_root n); reflexivity|].
    split; [apply linkedb_sound; exact Hl|]. split; [rewrite forallb_forall in Hm; exact Hm|].
    split; [exists (line_root n); split; [apply last_opt_app|left; reflexivity]|].
    apply nodupb_sound. exact Hn.
Qed.

Lemma line_keyid n : forallb (fun c => match c_aki c with None => true | Some _ => false end) (line_path n) = true ->
  H_keyid (line_opts n) (line n) (line_path n).
Proof.
  intros H. unfold H_keyid. destruct (line_path n) as [|c0 suf] eqn:E; [exact I|].
  apply keyid_no_aki. intros x Hx. rewrite forallb_forall in H. specialize (H x Hx).
  destruct (c_aki x); [discriminate|reflexivity].
Qed.

Lemma line_leafroot n : pool_contains (pool_of [line_root n]) (hd (line_root n) (line n)) = false ->
  H_leafroot (line_opts n) (line n).
Proof. intros H c0 rest E Hc. rewrite E in H. simpl in H, Hc. rewrite H in Hc. discriminate. Qed.

Lemma complete_without_budget_refuted_lemma :
  exists o raw P, wf_ids o raw /\ admissible_by o raw P /\ H_leafroot o raw /\ H_keyid o raw P
                  /\ length raw = 101%nat /\ validate o raw = Rejected RVerify.
Proof.
  exists (line_opts 101), (line 101), (line_path 101).
  split; [apply line_wf; vm_compute; reflexivity|].
  split; [apply line_admissible; try (vm_compute; reflexivity); discriminate|].
  split; [apply line_leafroot; vm_compute; reflexivity|].
  split; [apply line_keyid; vm_compute; reflexivity|].
  split; vm_compute; reflexivity.
Qed.

(* one certificate fewer: every hypothesis holds and the chain is accepted (the bound is tight) *)
Lemma line_100_accepted :
  H_budget (line_opts 100) (line 100) (line_path 100)
  /\ validate (line_opts 100) (line 100) = Accepted (line_path 100).
Proof. split; [unfold H_budget; apply Nat.leb_le; vm_compute; reflexivity|vm_compute; reflexivity]. Qed.

(* ---------------------------------------------------------------- witness 3: trusted leaf *)

Definition lw_R : cert := mkCert 2 20 20 None None 2 [2%N] true true 0%Z [] [].
Definition lw_I : cert := mkCert 1 10 20 None None 1 [2%N] true true 0%Z [] [].
Definition lw_opts : options := mkOpts [lw_I; lw_R] 0%Z false false None None false [] [].
Definition lw_raw : chain := [lw_I; lw_R].

Lemma complete_without_leafroot_refuted_lemma :
  exists o raw P, wf_ids o raw /\ admissible_by o raw P /\ H_budget o raw P /\ H_keyid o raw P
                  /\ validate o raw = Rejected RNoRFCPath.
Proof.
  exists lw_opts, lw_raw, lw_raw. split; [|split; [|split; [|split]]].
  - intros a b Ha Hb E. simpl in Ha, Hb.
    repeat (destruct Ha as [<-|Ha]; [|]); try destruct Ha;
    repeat (destruct Hb as [<-|Hb]; [|]); try destruct Hb; try reflexivity; vm_compute in E; discriminate.
  - split.
    + exists lw_I, [lw_R]. split; [reflexivity|]. apply leaf_filters_none. reflexivity.
    + split; [discriminate|]. split; [left; reflexivity|]. split; [apply linkedb_sound; reflexivity|].
      split; [intros c []|]. split; [exists lw_R; split; [reflexivity|right; left; reflexivity]|].
      apply nodupb_sound. reflexivity.
  - unfold H_budget. apply Nat.leb_le. reflexivity.
  - apply keyid_no_aki. intros x [<-|[<-|[]]]; reflexivity.
  - reflexivity.
Qed.

(* ---------------------------------------------------------------- the unrestricted statement *)

Lemma iff_unrestricted_refuted_lemma :
  ~ (forall o raw, wf_ids o raw -> (admissible o raw <-> exists path, validate o raw = Accepted path)).
Proof.
  intros H. destruct (H kw_opts kw_raw kw_wf) as [H1 _].
  destruct H1 as [p Hp]; [exists kw_raw; exact kw_admissible|]. vm_compute in Hp. discriminate.
Qed.
