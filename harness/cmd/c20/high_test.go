// C20, fourth input stream: migrations at HIGH leaf indices.
//
// The three streams of main_test.go build their sources entry by entry from the pool, so their logs hold a
// few dozen entries and every index they ever submit is below 128.  Everything the migrator derives from
// the INDEX of an entry (the SHA256_LEAF_INDEX identity hash = SHA-256 of the index as 8 little-endian
// octets, the LeafIndex field, the get-entries ranges, the batch boundaries) is then only observed where a
// one-octet quantity, a base-128 varint, a 16-bit or a 32-bit word all spell the index the same way.  This
// stream moves the migrated range to where the spellings part: around 2^7, 2^8, 2^14 and 2^16 and around a
// base drawn at random up to 70000, for both identity functions.  The source serves synthetic entries below
// the range (two small pool entries, repeated), so a case costs one tree hash over the source and a Coq term
// of a few dozen leaves.  Three layouts bring the migrator there:
//
//	start    - empty destination, one-shot run with start_index set to the beginning of the range;
//	islands  - the same, but the destination already holds some leaves of the range (a previous run with the
//	           same start_index stored them, the sequencer cannot integrate them over the gap below): they are
//	           submitted again and must come back as AlreadyExists, never as conflicting duplicates;
//	prefix   - a partly filled destination: the tree covers [0, ts) with ts just below the boundary, perhaps
//	           with leaves stored beyond the tree size (sequencer lag); automatic range, one-shot or
//	           continuous with growth across the boundary; the consistency gate is passed with a real proof.
//	           (Only for boundaries up to 320: the Coq case carries the destination leaf by leaf.)
//
// The oracle is the one of every stream (emit): each submitted leaf and each stored index must be the source
// entry of its index under the configured identity hash, computed by idHashRef from crypto/sha256 and
// encoding/binary, never from the repository's helper.
package main

import (
	"fmt"
	mrand "math/rand"

	"github.com/google/certificate-transparency-go/trillian/migrillian/configpb"
	"github.com/google/trillian"
	"google.golang.org/grpc/codes"
)

// the boundaries the stream cycles through; slot len(highBoundaries) draws a base at random
var highBoundaries = []int64{128, 256, 16384, 65536}

const highPrefixMax = 320 // largest boundary for which the destination is written out as a prefix

var highLayouts = []string{"start", "islands", "prefix"}

// the source never returns more than k entries per get-entries request that starts in [lo, n)
func pageCapFrom(ps *passScript, k, lo, n int64) {
	for q := lo; q < n; q++ {
		if v, ok := ps.short[q]; !ok || v > k {
			ps.short[q] = k
		}
	}
}

func genHigh(r *mrand.Rand, pool []*poolEntry, k int) *caseSpec {
	var okPool, small []*poolEntry
	for _, e := range pool {
		if e.buildable {
			okPool = append(okPool, e)
			if len(e.li)+len(e.xd) < 96 {
				small = append(small, e)
			}
		}
	}
	draw := func() *poolEntry { return okPool[r.Intn(len(okPool))] }
	drawN := func(n int64) []*poolEntry {
		var es []*poolEntry
		for i := int64(0); i < n; i++ {
			es = append(es, draw())
		}
		return es
	}
	c := &caseSpec{seed: r.Int63()}
	c.ep = pick(r, "Run", "RunWhenMaster")
	c.batch = pick(r, 1, 2, 3, 4, 5, 8, 16)
	c.fetchers, c.submitters = 1, 1
	if r.Intn(4) == 0 {
		c.fetchers = pick(r, 1, 2, 4)
		c.submitters = pick(r, 1, 2, 3)
	}
	c.chanSize = pick(r, 0, 0, 1, 4)
	c.nocheck = r.Intn(12) == 0
	// the grid boundary x layout is walked by k (every combination within 15 consecutive cases, whatever the
	// seed); the first round is all SHA256_LEAF_INDEX, later ones draw the identity function
	c.idf = configpb.IdentityFunction_SHA256_LEAF_INDEX
	if k >= 15 && r.Intn(4) == 0 {
		c.idf = configpb.IdentityFunction_SHA256_CERT_DATA
	}
	slot := k % (len(highBoundaries) + 1)
	layout := highLayouts[(k/(len(highBoundaries)+1))%len(highLayouts)]
	var W int64
	bname := "random"
	if slot < len(highBoundaries) {
		W = highBoundaries[slot]
		bname = fmt.Sprint(W)
	} else if layout == "prefix" || r.Intn(3) == 0 {
		W = 129 + r.Int63n(highPrefixMax-129+1)
	} else {
		W = highPrefixMax + 1 + r.Int63n(70000-highPrefixMax)
	}
	if layout == "prefix" && W > highPrefixMax {
		layout = pick(r, "start", "islands")
	}
	B := int64(c.batch)
	a := r.Int63n(2*B + 3) // entries of the range below the boundary (0: the range starts at it)
	b := 1 + r.Int63n(2*B+3)
	lo, hi := W-a, W+b
	// what the source holds (and signs) beyond the end of the range
	x := int64(0)
	if layout != "prefix" && r.Intn(3) == 0 {
		x = 1 + r.Int63n(B+2)
	}
	T := hi + x
	ps0 := blankPass()
	decorate := func(ps *passScript, from, held int64) {
		if B > 1 && r.Intn(3) == 0 {
			pc := B - 1
			if B > 2 && r.Intn(2) == 0 {
				pc = 1 + r.Int63n(B-1)
			}
			pageCapFrom(ps, pc, from, held)
			c.genTags = append(c.genTags, "pagecap:high")
		}
		if held > from && r.Intn(4) == 0 {
			q := from + B*r.Int63n((held-from+B-1)/B)
			for j, m := 0, 1+r.Intn(3); j < m; j++ {
				ps.replies[q] = append(ps.replies[q], dreply{basic: "code", code: int(codes.ResourceExhausted)})
			}
		}
		if held > from && r.Intn(6) == 0 {
			ps.srcerr[from+r.Int63n(held-from)] = 1 + r.Int63n(3)
		}
	}
	mirror := func(i int64) *trillian.LogLeaf {
		e := c.src0[i]
		return &trillian.LogLeaf{LeafIndex: i, LeafValue: e.li, ExtraData: e.xd, LeafIdentityHash: idHashRef(c.idf, i, e)}
	}
	endClass := "auto"
	switch layout {
	case "start", "islands":
		// synthetic entries below the range: two small entries, each repeated
		fa, fb := small[r.Intn(len(small))], small[r.Intn(len(small))]
		n1 := r.Int63n(lo + 1)
		for i := int64(0); i < lo; i++ {
			if i < n1 {
				c.src0 = append(c.src0, fa)
			} else {
				c.src0 = append(c.src0, fb)
			}
		}
		c.src0 = append(c.src0, drawN(T-lo)...)
		c.start = lo
		switch {
		case x > 0:
			c.end, endClass = hi, "below-sth"
		case r.Intn(3) == 0:
			c.end, endClass = hi, "at-sth"
		case r.Intn(3) == 0:
			c.end, endClass = hi+1+r.Int63n(B+1), "above-held"
		}
		c.dest0Kind = "empty"
		if layout == "islands" {
			c.dest0Kind = "islands"
			i0 := lo + r.Int63n(hi-lo)
			i1 := i0 + 1 + r.Int63n(hi-i0)
			for i := i0; i < i1; i++ {
				c.dest0 = append(c.dest0, mirror(i))
			}
		}
		decorate(ps0, lo, hi)
		c.scripts = append(c.scripts, ps0)
	case "prefix":
		c.src0 = drawN(T)
		c.start = -1
		c.continuous = r.Intn(2) == 0
		c.dest0Kind = "partial"
		p := lo // leaves stored
		if r.Intn(3) == 0 {
			// sequencer lag: leaves beyond the tree size, stored by the pass that a restart cut short
			p = lo + 1 + r.Int63n(hi-lo)
			ps0.integrate = r.Int63n(3)
			c.dest0Kind = "partial+lag"
		}
		for i := int64(0); i < p; i++ {
			c.dest0 = append(c.dest0, mirror(i))
		}
		c.size0 = lo
		decorate(ps0, lo, T)
		c.scripts = append(c.scripts, ps0)
		if c.continuous {
			cur := T
			for q, np := 1, 1+r.Intn(3); q < np; q++ {
				ps := blankPass()
				g := r.Int63n(2*B + 2)
				ps.grow = drawN(g)
				decorate(ps, cur, cur+g)
				cur += g
				c.scripts = append(c.scripts, ps)
			}
			if r.Intn(3) != 0 {
				c.scripts = append(c.scripts, settlingPass(r, draw, c.batch+1))
				c.genTags = append(c.genTags, "script:settling-pass")
			}
		}
	}
	c.scripts = append(c.scripts, terminalPass())
	c.genTags = append(c.genTags, "gen:high-index", "high:boundary-"+bname, "high:layout-"+layout, "high:end-"+endClass)
	c.genInfo = map[string]interface{}{"stream": "high-index", "boundary": W, "range_lo": lo, "range_hi": hi, "layout": layout,
		"source_holds": T, "end_class": endClass, "dest_leaves0": len(c.dest0)}
	return c
}
