(* C17: lemmas about the safeSubmissionState state machine (request / set_result). *)
From Coq Require Import ZArith NArith Bool List Lia.
From V Require Import Base.GoInt gen.Races Submission.SubmitModel Submission.SubmitLib.
Import ListNotations.
Open Scope Z_scope.

Definition wf (c : cfg) : Prop :=
  NoDup (names c) /\
  forall gr, In gr c -> NoDup (g_logs gr) /\ NoDup (g_session gr) /\ incl (g_session gr) (g_logs gr).

Definition is_sct (r : res) : bool := match r with RSct => true | _ => false end.
Definition cnt_sct (st : sst) (logs : list N) : Z :=
  Z.of_nat (length (filter (fun l => is_sct (results st l)) logs)).

(* stored SCTs account for what each group no longer needs *)
Definition policy_inv (c : cfg) (st : sst) : Prop :=
  forall gr, In gr c ->
    if N.eqb (g_name gr) base_name then cnt_sct st (g_logs gr) + needs st base_name = g_min gr
    else cnt_sct st (g_logs gr) + Z.max (needs st (g_name gr)) 0 >= g_min gr.

Lemma same_name_eq c gr gr' : NoDup (names c) -> In gr c -> In gr' c -> g_name gr = g_name gr' -> gr = gr'.
Proof.
  intros Hnd H1 H2 E. pose proof (find_group_in c gr Hnd H1) as F1. pose proof (find_group_in c gr' Hnd H2) as F2.
  rewrite E in F1. congruence.
Qed.

Lemma groups_of_member c gr l : NoDup (names c) -> In gr c -> (In (g_name gr) (groups_of c l) <-> In l (g_logs gr)).
Proof.
  intros Hnd Hin. rewrite groups_of_in. split.
  - intros [gr' [H1 [H2 H3]]]. rewrite (same_name_eq c gr gr'); auto.
  - intros H. exists gr. auto.
Qed.

Lemma in_base_iff c gr l : NoDup (names c) -> In gr c -> g_name gr = base_name -> (in_base c l = true <-> In l (g_logs gr)).
Proof.
  intros Hnd Hin E. unfold in_base. rewrite memN_In, <- E. apply groups_of_member; assumption.
Qed.

Lemma in_base_false c l : (forall gr, In gr c -> g_name gr <> base_name) -> in_base c l = false.
Proof.
  intros H. unfold in_base. apply memN_false. rewrite groups_of_in. intros [gr [H1 [H2 _]]]. exact (H gr H1 H2).
Qed.

(* ---- nonbase_pass ---- *)
Lemma existsb_ext_in {A} (f g : A -> bool) xs : (forall x, In x xs -> f x = g x) -> existsb f xs = existsb g xs.
Proof.
  induction xs as [|a xs IH]; simpl; intros H; [reflexivity|]. rewrite (H a), IH; auto.
Qed.

Lemma nonbase_pass_spec l gs : forall nd rs, NoDup gs ->
  (forall g, fst (nonbase_pass l gs nd rs) g = if memN g gs && negb (N.eqb g base_name) then nd g - 1 else nd g) /\
  (forall l', snd (nonbase_pass l gs nd rs) l' =
     if N.eqb l' l && existsb (fun g => negb (N.eqb g base_name) && (nd g >? 0)) gs then RSct else rs l').
Proof.
  unfold nonbase_pass. induction gs as [|a gs IH]; intros nd rs Hnd.
  - simpl. split; intros; [reflexivity | rewrite andb_false_r; reflexivity].
  - inversion Hnd as [|? ? Ha Hnd']; subst.
    assert (Hmem : memN a gs = false) by (apply memN_false; exact Ha).
    cbn [fold_left fst snd]. unfold set_skip_base, set_group_needs.
    destruct (N.eqb a base_name) eqn:Eb.
    + destruct (IH nd rs Hnd') as [I1 I2]. split.
      * intros g. rewrite I1. cbn [memN existsb]. destruct (N.eqb g a) eqn:Ega; cbn [orb]; [|reflexivity].
        apply N.eqb_eq in Ega. subst. rewrite Eb. cbn [negb]. rewrite !andb_false_r. reflexivity.
      * intros l'. rewrite I2. cbn [existsb]. rewrite Eb. reflexivity.
    + assert (Hex : existsb (fun g => negb (N.eqb g base_name) && (upd nd a (nd a - 1) g >? 0)) gs
                    = existsb (fun g => negb (N.eqb g base_name) && (nd g >? 0)) gs).
      { apply existsb_ext_in. intros x Hx. rewrite upd_other; [reflexivity|]. intros ->. tauto. }
      destruct (nd a >? 0) eqn:En.
      * destruct (IH (upd nd a (nd a - 1)) (upd rs l RSct) Hnd') as [I1 I2]. split.
        -- intros g. rewrite I1. cbn [memN existsb]. destruct (N.eqb g a) eqn:Ega; cbn [orb].
           ++ apply N.eqb_eq in Ega. subst. rewrite Eb, Hmem. cbn [negb andb]. apply upd_same.
           ++ apply N.eqb_neq in Ega. rewrite upd_other by exact Ega. reflexivity.
        -- intros l'. rewrite I2, Hex. cbn [existsb]. rewrite Eb, En. cbn [negb andb orb].
           destruct (N.eqb l' l) eqn:El; cbn [andb].
           ++ apply N.eqb_eq in El. subst. rewrite upd_same.
              destruct (existsb (fun g => negb (N.eqb g base_name) && (nd g >? 0)) gs); reflexivity.
           ++ apply N.eqb_neq in El. apply upd_other. exact El.
      * destruct (IH (upd nd a (nd a - 1)) rs Hnd') as [I1 I2]. split.
        -- intros g. rewrite I1. cbn [memN existsb]. destruct (N.eqb g a) eqn:Ega; cbn [orb].
           ++ apply N.eqb_eq in Ega. subst. rewrite Eb, Hmem. cbn [negb andb]. apply upd_same.
           ++ apply N.eqb_neq in Ega. rewrite upd_other by exact Ega. reflexivity.
        -- intros l'. rewrite I2, Hex. cbn [existsb]. rewrite Eb, En. cbn [negb andb orb]. reflexivity.
Qed.

(* ---- cancel_pass ---- *)
Lemma cancel_pass_spec c nd logs : forall cs cd l',
  snd (fold_left (fun (acc : (N -> bool) * (N -> bool)) (l : N) =>
               if set_should_cancel (awaited_by c nd l) (if fst acc l then Some 0 else None)
               then (upd (fst acc) l false, upd (snd acc) l true) else acc) logs (cs, cd)) l' = true ->
  cd l' = true \/ awaited_by c nd l' = false.
Proof.
  induction logs as [|a logs IH]; simpl; intros cs cd l' H; [left; exact H|].
  unfold set_should_cancel in H at 2. 
  destruct (negb (awaited_by c nd a) && is_some (if cs a then Some 0 else None)) eqn:E.
  - simpl in H. apply IH in H. destruct H as [H|H]; [|right; exact H].
    destruct (N.eq_dec l' a) as [->|Hne].
    + right. apply andb_true_iff in E. destruct E as [E _]. apply negb_true_iff in E. exact E.
    + rewrite upd_other in H by exact Hne. left. exact H.
  - apply IH in H. exact H.
Qed.

(* ---- request ---- *)
Lemma request_needs c st l : needs (fst (request c st l)) = needs st.
Proof. unfold request. destruct (req_already _); [reflexivity|]. destruct (req_not_awaited _); reflexivity. Qed.

Lemma request_cancelled c st l : cancelled (fst (request c st l)) = cancelled st.
Proof. unfold request. destruct (req_already _); [reflexivity|]. destruct (req_not_awaited _); reflexivity. Qed.

Lemma request_dup c st l : results st l <> RNil -> request c st l = (st, false).
Proof. unfold request, req_already. destruct (results st l); simpl; congruence. Qed.

Lemma request_fresh c st l : results st l = RNil ->
  let r := request c st l in
  results (fst r) = upd (results st) l RPending /\
  (snd r = true -> finished (fst r) = finished st) /\
  (snd r = false -> finished (fst r) = upd (finished st) l true /\
                    forall g, In g (groups_of c l) -> needs st g <= 0).
Proof.
  intros E. unfold request, req_already. rewrite E. simpl. unfold req_not_awaited.
  destruct (existsb (fun g => req_group_awaits (needs st g)) (groups_of c l)) eqn:Ex; simpl.
  - split; [reflexivity|]. split; [reflexivity|]. discriminate.
  - split; [reflexivity|]. split; [discriminate|]. intros _. split; [reflexivity|].
    intros g Hg. destruct (Z_le_gt_dec (needs st g) 0) as [Hle|Hgt]; [exact Hle|]. exfalso.
    assert (Ht : existsb (fun g => req_group_awaits (needs st g)) (groups_of c l) = true).
    { apply existsb_exists. exists g. split; [exact Hg|]. unfold req_group_awaits. apply Z.gtb_lt. lia. }
    congruence.
Qed.

Lemma request_results_other c st l l' : l' <> l -> results (fst (request c st l)) l' = results st l'.
Proof.
  intros Hne. unfold request. destruct (req_already _); [reflexivity|].
  destruct (req_not_awaited _); simpl; apply upd_other; exact Hne.
Qed.

Lemma request_finished_mono c st l l' : finished st l' = true -> finished (fst (request c st l)) l' = true.
Proof.
  intros H. unfold request. destruct (req_already _); [exact H|].
  destruct (req_not_awaited _); simpl; [|exact H]. unfold upd. destruct (N.eqb l' l); auto.
Qed.

(* ---- set_result, error ---- *)
Lemma set_result_err c st l :
  set_result c st l false = Some (mkSst (needs st) (upd (results st) l RErr) (cancels st) (upd (finished st) l true) (cancelled st)).
Proof. reflexivity. Qed.

(* ---- set_result, SCT ---- *)
Definition nb_stores (c : cfg) (st : sst) (l : N) : bool :=
  existsb (fun g => negb (N.eqb g base_name) && (needs st g >? 0)) (groups_of c l).
Definition nd1 (c : cfg) (st : sst) (l : N) : N -> Z :=
  fun g => if memN g (groups_of c l) && negb (N.eqb g base_name) then needs st g - 1 else needs st g.
Definition base_stores (c : cfg) (st : sst) (l : N) : bool :=
  in_base c l && negb (nb_stores c st l) && (needs st base_name >? 0) && (needs st base_name >? others_sum c (nd1 c st l)).
Definition stores (c : cfg) (st : sst) (l : N) : bool := nb_stores c st l || base_stores c st l.

Lemma nd1_base c st l : nd1 c st l base_name = needs st base_name.
Proof. unfold nd1. rewrite N.eqb_refl. simpl. rewrite andb_false_r. reflexivity. Qed.

Lemma base_pass_spec c l nd rs : rs l <> RNil ->
  base_pass c l nd rs = Some (
     if in_base c l then
        if is_sct (rs l) then (upd nd base_name (nd base_name - 1), rs)
        else if (nd base_name >? 0) && (nd base_name >? others_sum c nd)
             then (upd nd base_name (nd base_name - 1), upd rs l RSct)
             else (nd, rs)
     else (nd, rs)).
Proof.
  intros H. unfold base_pass, set_in_base, set_has_sct, set_base_needs, set_base_exceeds.
  destruct (in_base c l); [|reflexivity].
  destruct (rs l) eqn:E; try congruence; simpl; try reflexivity;
    destruct (nd base_name >? 0); simpl; try reflexivity;
    destruct (nd base_name >? others_sum c nd); reflexivity.
Qed.

Lemma others_sum_ext c f g : (forall x, f x = g x) -> others_sum c f = others_sum c g.
Proof.
  intros H. unfold others_sum. generalize 0. induction (names c) as [|a xs IH]; simpl; intros z; [reflexivity|].
  rewrite H. apply IH.
Qed.

Lemma set_result_sct c st l : NoDup (names c) -> results st l = RPending ->
  exists st', set_result c st l true = Some st' /\
    (forall g, needs st' g = if N.eqb g base_name && in_base c l && stores c st l then nd1 c st l g - 1 else nd1 c st l g) /\
    (forall l', results st' l' = if N.eqb l' l then (if stores c st l then RSct else RPending) else results st l') /\
    finished st' = upd (finished st) l true /\
    (forall l', cancelled st' l' = true -> cancelled st l' = true \/ awaited_by c (needs st') l' = false).
Proof.
  intros Hnd Hres. unfold set_result, set_is_error. cbn [is_none].
  destruct (nonbase_pass_spec l (groups_of c l) (needs st) (results st) (groups_of_nodup c l Hnd)) as [N1 N2].
  set (nr := nonbase_pass l (groups_of c l) (needs st) (results st)) in *.
  assert (F1 : forall g, fst nr g = nd1 c st l g) by (intros g; rewrite N1; reflexivity).
  assert (F2 : forall l', snd nr l' = if N.eqb l' l && nb_stores c st l then RSct else results st l') by (intros; rewrite N2; reflexivity).
  assert (Fl : snd nr l = if nb_stores c st l then RSct else RPending).
  { rewrite F2, N.eqb_refl. simpl. rewrite Hres. reflexivity. }
  assert (Fo : others_sum c (fst nr) = others_sum c (nd1 c st l)) by (apply others_sum_ext; exact F1).
  rewrite base_pass_spec by (rewrite Fl; destruct (nb_stores c st l); discriminate).
  rewrite Fl, F1, Fo, nd1_base.
  set (bp := if in_base c l then _ else _).
  assert (Hbp : (forall g, fst bp g = if N.eqb g base_name && in_base c l && stores c st l then nd1 c st l g - 1 else nd1 c st l g) /\
                (forall l', snd bp l' = if N.eqb l' l then (if stores c st l then RSct else RPending) else results st l')).
  { subst bp. unfold stores, base_stores.
    destruct (in_base c l) eqn:Eb; destruct (nb_stores c st l) eqn:Enb; cbn [is_sct andb orb negb fst snd].
    - split.
      + intros g. unfold upd. destruct (N.eqb g base_name) eqn:E; cbn [andb]; rewrite ?F1; [|reflexivity].
        apply N.eqb_eq in E. subst. rewrite nd1_base. reflexivity.
      + intros l'. rewrite F2. destruct (N.eqb l' l); reflexivity.
    - destruct ((needs st base_name >? 0) && (needs st base_name >? others_sum c (nd1 c st l))) eqn:Eq; cbn [fst snd]; split.
      + intros g. unfold upd. destruct (N.eqb g base_name) eqn:E; cbn [andb]; rewrite ?F1; [|reflexivity].
        apply N.eqb_eq in E. subst. rewrite nd1_base. reflexivity.
      + intros l'. unfold upd. destruct (N.eqb l' l) eqn:El; [reflexivity|]. rewrite F2, El. reflexivity.
      + intros g. rewrite F1. rewrite andb_false_r. reflexivity.
      + intros l'. rewrite F2. rewrite andb_false_r. destruct (N.eqb l' l) eqn:El; [|reflexivity].
        apply N.eqb_eq in El. subst. exact Hres.
    - split.
      + intros g. rewrite F1, andb_false_r. reflexivity.
      + intros l'. rewrite F2. destruct (N.eqb l' l); reflexivity.
    - split.
      + intros g. rewrite F1, andb_false_r. reflexivity.
      + intros l'. rewrite F2, andb_false_r. destruct (N.eqb l' l) eqn:El; [|reflexivity].
        apply N.eqb_eq in El. subst. exact Hres. }
  destruct Hbp as [B1 B2]. destruct bp as [nd rs]. cbn [fst snd] in *.
  eexists. split; [reflexivity|]. cbn [needs results finished cancelled].
  split; [exact B1|]. split; [exact B2|]. split; [reflexivity|].
  intros l' H. eapply cancel_pass_spec. exact H.
Qed.

(* ---- the policy accounting invariant is preserved ---- *)
Lemma cnt_sct_upd st st' logs l r' :
  NoDup logs -> (forall l', results st' l' = if N.eqb l' l then r' else results st l') ->
  is_sct (results st l) = false ->
  cnt_sct st' logs = cnt_sct st logs + (if memN l logs && is_sct r' then 1 else 0).
Proof.
  intros Hnd Hres Hold. unfold cnt_sct.
  destruct (memN l logs && is_sct r') eqn:E.
  - apply andb_true_iff in E. destruct E as [E1 E2]. apply memN_In in E1.
    rewrite (filter_point_on (fun x => is_sct (results st x)) (fun x => is_sct (results st' x)) logs l); auto.
    + lia.
    + rewrite Hres, N.eqb_refl. exact E2.
    + intros y Hy. rewrite Hres. apply N.eqb_neq in Hy. rewrite Hy. reflexivity.
  - rewrite (filter_ext_in (fun x => is_sct (results st' x)) (fun x => is_sct (results st x)) logs); [lia|].
    intros y Hy. rewrite Hres. destruct (N.eqb y l) eqn:Ey; [|reflexivity].
    apply N.eqb_eq in Ey. subst y. apply memN_In in Hy. rewrite Hy in E. simpl in E. rewrite E, Hold. reflexivity.
Qed.

Lemma memN_groups_of c gr l : NoDup (names c) -> In gr c -> memN (g_name gr) (groups_of c l) = memN l (g_logs gr).
Proof.
  intros Hnd Hin. destruct (memN l (g_logs gr)) eqn:E.
  - apply memN_In. apply groups_of_member; auto. apply memN_In. exact E.
  - apply memN_false. rewrite groups_of_member by auto. apply memN_false. exact E.
Qed.

Lemma in_base_mem c gr l : NoDup (names c) -> In gr c -> g_name gr = base_name -> in_base c l = memN l (g_logs gr).
Proof. intros Hnd Hin E. unfold in_base. rewrite <- E. apply memN_groups_of; assumption. Qed.

Lemma policy_set_sct c st l st' : wf c -> policy_inv c st -> results st l = RPending ->
  set_result c st l true = Some st' -> policy_inv c st'.
Proof.
  intros [Hnd Hwf] Hp Hres Hset.
  destruct (set_result_sct c st l Hnd Hres) as [st2 [E [Sn [Sr [Sf Sc]]]]].
  rewrite E in Hset. inversion Hset; subst st2. clear Hset E.
  intros gr Hin. specialize (Hp gr Hin). destruct (Hwf gr Hin) as [Hndl _].
  assert (Hc : cnt_sct st' (g_logs gr) = cnt_sct st (g_logs gr) + (if memN l (g_logs gr) && is_sct (if stores c st l then RSct else RPending) then 1 else 0)).
  { apply cnt_sct_upd; auto. rewrite Hres. reflexivity. }
  rewrite Hc. destruct (N.eqb (g_name gr) base_name) eqn:Eb.
  - apply N.eqb_eq in Eb. rewrite Sn, N.eqb_refl, nd1_base. cbn [andb].
    rewrite (in_base_mem c gr l Hnd Hin Eb).
    destruct (memN l (g_logs gr)); cbn [andb]; [|lia]. destruct (stores c st l); cbn [is_sct]; lia.
  - rewrite Sn, Eb. cbn [andb]. unfold nd1. rewrite (memN_groups_of c gr l Hnd Hin), Eb. cbn [negb].
    destruct (memN l (g_logs gr)) eqn:Em; cbn [andb]; [|lia].
    destruct (Z_le_gt_dec (needs st (g_name gr)) 0) as [Hle|Hgt].
    + destruct (stores c st l); cbn [is_sct]; lia.
    + assert (Hs : stores c st l = true).
      { unfold stores. assert (nb_stores c st l = true); [|rewrite H; reflexivity].
        unfold nb_stores. apply existsb_exists. exists (g_name gr). split.
        - apply groups_of_member; auto. apply memN_In. exact Em.
        - rewrite Eb. cbn [negb andb]. apply Z.gtb_lt. lia. }
      rewrite Hs. cbn [is_sct]. lia.
Qed.

Lemma policy_same_needs c st st' : policy_inv c st -> needs st' = needs st ->
  (forall gr, In gr c -> cnt_sct st' (g_logs gr) = cnt_sct st (g_logs gr)) -> policy_inv c st'.
Proof.
  intros Hp Hn Hc gr Hin. specialize (Hp gr Hin). rewrite Hn, (Hc gr Hin). exact Hp.
Qed.

Lemma cnt_sct_nonsct st st' logs l r' :
  (forall l', results st' l' = if N.eqb l' l then r' else results st l') ->
  is_sct (results st l) = false -> is_sct r' = false -> cnt_sct st' logs = cnt_sct st logs.
Proof.
  intros Hres H1 H2. unfold cnt_sct. f_equal. f_equal. apply filter_ext. intros y. rewrite Hres.
  destruct (N.eqb y l) eqn:E; [|reflexivity]. apply N.eqb_eq in E. subst. rewrite H1, H2. reflexivity.
Qed.

Lemma policy_set_err c st l st' : policy_inv c st -> is_sct (results st l) = false ->
  set_result c st l false = Some st' -> policy_inv c st'.
Proof.
  intros Hp Hres Hset. rewrite set_result_err in Hset. inversion Hset; subst; clear Hset.
  eapply policy_same_needs; [exact Hp | reflexivity |].
  intros gr _. eapply cnt_sct_nonsct with (l := l) (r' := RErr); auto.
Qed.

Lemma policy_request c st l : policy_inv c st -> policy_inv c (fst (request c st l)).
Proof.
  intros Hp. destruct (results st l) eqn:E.
  - destruct (request_fresh c st l E) as [R1 _].
    eapply policy_same_needs; [exact Hp | apply request_needs |].
    intros gr _. eapply cnt_sct_nonsct with (l := l) (r' := RPending); auto.
    + intros l'. rewrite R1. reflexivity.
    + rewrite E. reflexivity.
  - rewrite request_dup by congruence. exact Hp.
  - rewrite request_dup by congruence. exact Hp.
  - rewrite request_dup by congruence. exact Hp.
Qed.

Lemma policy_init c : NoDup (names c) -> policy_inv c (init_sst c).
Proof.
  intros Hnd gr Hin. unfold cnt_sct, init_sst. cbn [results needs is_sct].
  assert (F : filter (fun _ : N => false) (g_logs gr) = []) by (induction (g_logs gr); auto).
  rewrite F. cbn [length Z.of_nat].
  destruct (N.eqb (g_name gr) base_name) eqn:Eb.
  - apply N.eqb_eq in Eb. rewrite <- Eb. fold (find_group c (g_name gr)). rewrite find_group_in by auto. lia.
  - fold (find_group c (g_name gr)). rewrite find_group_in by auto. lia.
Qed.

(* needs never grow *)
Lemma set_result_needs_mono c st l sct st' : NoDup (names c) -> results st l = RPending ->
  set_result c st l sct = Some st' -> forall g, needs st' g <= needs st g.
Proof.
  intros Hnd Hres Hset g. destruct sct.
  - destruct (set_result_sct c st l Hnd Hres) as [st2 [E [Sn _]]]. rewrite E in Hset. inversion Hset; subst.
    rewrite Sn. unfold nd1. destruct (_ && _ && _); destruct (_ && _); lia.
  - rewrite set_result_err in Hset. inversion Hset; subst. simpl. lia.
Qed.

Lemma set_result_some c st l sct : NoDup (names c) -> results st l = RPending -> set_result c st l sct <> None.
Proof.
  intros Hnd Hres. destruct sct.
  - destruct (set_result_sct c st l Hnd Hres) as [st2 [E _]]. congruence.
  - rewrite set_result_err. discriminate.
Qed.

(* success read off the needs implies the policy holds on what collect returns *)
Lemma count_in_collect c st gr : wf c -> In gr c -> count_in (collect c st) (g_logs gr) = cnt_sct st (g_logs gr).
Proof.
  intros [Hnd Hwf] Hin. destruct (Hwf gr Hin) as [Hndl _].
  unfold count_in, cnt_sct, collect. f_equal.
  rewrite inter_length; [| apply NoDup_filter; apply NoDup_nodupN | exact Hndl].
  f_equal. apply filter_ext_in. intros x Hx. unfold collect_keep.
  assert (Hall : In x (all_logs c)).
  { unfold all_logs. apply In_nodupN. apply in_or_app. left. apply in_concat. exists (g_logs gr). split; [|exact Hx].
    apply in_map. exact Hin. }
  destruct (results st x) eqn:E; cbn [is_sct].
  - apply memN_false. rewrite filter_In, E. simpl. intros [_ H]; discriminate.
  - apply memN_false. rewrite filter_In, E. simpl. intros [_ H]; discriminate.
  - apply memN_false. rewrite filter_In, E. simpl. intros [_ H]; discriminate.
  - apply memN_In. rewrite filter_In, E. simpl. auto.
Qed.

Lemma policy_of_needs c st : wf c -> policy_inv c st -> (forall g, In g (names c) -> needs st g <= 0) ->
  policy_satisfied c (collect c st).
Proof.
  intros Hwf Hp Hn gr Hin. rewrite count_in_collect by auto. specialize (Hp gr Hin).
  specialize (Hn (g_name gr) (in_names c gr Hin)).
  destruct (N.eqb (g_name gr) base_name) eqn:Eb.
  - apply N.eqb_eq in Eb. rewrite Eb in Hn. lia.
  - lia.
Qed.

Lemma collect_nodup c st : NoDup (collect c st).
Proof. unfold collect. apply NoDup_filter. apply NoDup_nodupN. Qed.

Lemma collect_sct c st l : In l (collect c st) -> results st l = RSct.
Proof.
  unfold collect. rewrite filter_In. intros [_ H]. unfold collect_keep in H.
  destruct (results st l); simpl in H; try discriminate. reflexivity.
Qed.

Lemma group_complete_needs c st g : In g (names c) -> (group_complete c st g = true <-> needs st g <= 0).
Proof.
  intros Hin. unfold group_complete, group_complete_ret. apply memN_In in Hin. rewrite Hin. simpl.
  apply Z.leb_le.
Qed.

Lemma awaited_by_false c nd l : awaited_by c nd l = false -> forall g, In g (groups_of c l) -> nd g <= 0.
Proof.
  unfold awaited_by. intros H g Hg. destruct (Z_le_gt_dec (nd g) 0) as [Hle|Hgt]; [exact Hle|]. exfalso.
  assert (Ht : existsb (fun g => set_group_awaits (nd g)) (groups_of c l) = true).
  { apply existsb_exists. exists g. split; [exact Hg|]. unfold set_group_awaits. apply Z.gtb_lt. lia. }
  congruence.
Qed.

(* everything the thread-level proofs need to know about one setResult *)
Lemma set_result_spec c st l sct st' : NoDup (names c) -> results st l = RPending ->
  set_result c st l sct = Some st' ->
  (forall l', l' <> l -> results st' l' = results st l') /\
  results st' l <> RNil /\
  (results st' l = RSct -> sct = true) /\
  (sct = false -> results st' l = RErr /\ needs st' = needs st /\ cancelled st' = cancelled st) /\
  finished st' = upd (finished st) l true /\
  (forall l', cancelled st' l' = true ->
     cancelled st l' = true \/ forall g, In g (groups_of c l') -> needs st' g <= 0).
Proof.
  intros Hnd Hres Hset. destruct sct.
  - destruct (set_result_sct c st l Hnd Hres) as [st2 [E [Sn [Sr [Sf Sc]]]]].
    rewrite E in Hset. inversion Hset; subst st2. clear Hset E. repeat split.
    + intros l' Hne. rewrite Sr. apply N.eqb_neq in Hne. rewrite Hne. reflexivity.
    + rewrite Sr, N.eqb_refl. destruct (stores c st l); discriminate.
    + discriminate.
    + discriminate.
    + discriminate.
    + exact Sf.
    + intros l' H. destruct (Sc l' H) as [H1|H1]; [left; exact H1 | right; apply awaited_by_false; exact H1].
  - rewrite set_result_err in Hset. inversion Hset; subst; clear Hset. cbn [results needs finished cancelled]. repeat split.
    + intros l' Hne. apply upd_other. exact Hne.
    + rewrite upd_same. discriminate.
    + rewrite upd_same. discriminate.
    + apply upd_same.
    + intros l' H. left. exact H.
Qed.

Lemma request_first_fresh c st l : snd (request c st l) = true -> results st l = RNil.
Proof.
  intros H. destruct (results st l) eqn:E; [reflexivity| | |]; rewrite request_dup in H by congruence; discriminate.
Qed.

Lemma request_finished_other c st l l' : l' <> l -> finished (fst (request c st l)) l' = finished st l'.
Proof.
  intros Hne. unfold request. destruct (req_already _); [reflexivity|].
  destruct (req_not_awaited _); simpl; [apply upd_other; exact Hne | reflexivity].
Qed.

Lemma request_results_l c st l : results (fst (request c st l)) l <> RNil.
Proof.
  destruct (results st l) eqn:E.
  - destruct (request_fresh c st l E) as [R _]. rewrite R, upd_same. discriminate.
  - rewrite request_dup; simpl; congruence.
  - rewrite request_dup; simpl; congruence.
  - rewrite request_dup; simpl; congruence.
Qed.
