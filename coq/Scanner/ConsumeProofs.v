(* C16, consumers of the Fetcher: lemmas about Scanner/ConsumeModel.v *)
From Coq Require Import ZArith Bool List Lia.
From V Require Import Scanner.FetchLib Scanner.ConsumeModel.
Import ListNotations.
Open Scope Z_scope.

Lemma zmem_In i l : zmem i l = true <-> In i l.
Proof.
  unfold zmem. rewrite existsb_exists. split.
  - intros [x [Hin Heq]]. apply Z.eqb_eq in Heq. subst. exact Hin.
  - intros Hin. exists i. split; [exact Hin | apply Z.eqb_refl].
Qed.

Lemma covers_In l a b : covers l a b = true -> forall i, a <= i < b -> In i l.
Proof.
  unfold covers. rewrite forallb_forall. intros H i Hi.
  apply zmem_In. apply H. apply zrange_In. exact Hi.
Qed.

(* no gap below what is claimed; in continuous mode none below Run's position either *)
Definition minv (c : mcfg) (st : mst) : Prop :=
  (forall i, fst (s_claim st) <= i < snd (s_claim st) -> In i (s_have st))
  /\ (m_cont c = true -> forall i, 0 <= i < s_begin st -> In i (s_have st)).

Lemma minv_init c dest0 : minv c (mig_init dest0).
Proof.
  split; cbn; intros; lia.
Qed.

Lemma after_error_minv c st p s :
  minv c st -> minv c (after_error c st p (s ++ s_have st)).
Proof.
  intros [Hc Hb]. unfold after_error.
  destruct (m_restarts c && m_cont c && negb (p_cancel p)); split; cbn; intros.
  - apply in_or_app. right. apply Hc. assumption.
  - lia.
  - apply in_or_app. right. apply Hc. assumption.
  - apply in_or_app. right. apply Hb; assumption.
Qed.

Lemma mig_pass_minv c st p st' :
  minv c st -> mig_pass c st p = Some st' -> minv c st'.
Proof.
  intros Hinv Hp. pose proof Hinv as [Hc Hb].
  unfold mig_pass in Hp.
  destruct (s_ret st) eqn:Hret; [discriminate|].
  destruct (covers (s_have st) 0 (p_ts p)) eqn:Hworld; cbn [negb] in Hp; [|discriminate].
  assert (Herr : forall st1, (match p_stored p, p_reqs p with
                              | [], [] => Some (after_error c st p (p_stored p ++ s_have st))
                              | _, _ => None end) = Some st1 -> minv c st1).
  { intros st1 H. destruct (p_stored p) eqn:Hs; [|discriminate]. destruct (p_reqs p); [|discriminate].
    inversion H; subst st1. apply (after_error_minv c st p []). exact Hinv. }
  destruct (p_root p) eqn:Hroot.
  2:{ apply Herr. destruct (p_sth p); exact Hp. }
  destruct (p_sth p) as [n|] eqn:Hsth.
  2:{ apply Herr. exact Hp. }
  destruct (n <=? s_begin st) eqn:Hnb.
  - destruct (p_stored p) eqn:Hs; [|discriminate]. destruct (p_reqs p); [|discriminate].
    inversion Hp; subst st'. split; cbn; intros.
    + apply Hc. assumption.
    + apply Hb; assumption.
  - destruct (pass_range c (s_begin st) (p_ts p) n) as [lo hi] eqn:Hr.
    destruct (within (p_stored p) lo hi && nodupb (p_stored p) && reqs_within (p_reqs p) lo hi); cbn [negb] in Hp; [|discriminate].
    destruct (p_fault p || p_cancel p).
    + inversion Hp; subst st'. apply after_error_minv. exact Hinv.
    + destruct (covers (p_stored p) lo hi) eqn:Hcov; cbn [negb] in Hp; [|discriminate].
      inversion Hp; subst st'. clear Hp.
      unfold pass_range in Hr. cbv zeta in Hr.
      destruct (m_cont c) eqn:Hcont.
      * injection Hr as Hlo Hhi. subst lo hi.
        assert (Hall : forall i, 0 <= i < n -> In i (p_stored p ++ s_have st)).
        { intros i Hi. apply in_or_app.
          destruct (Z_lt_le_dec i (Z.max (p_ts p) (s_begin st))) as [Hlt|Hge].
          - right. destruct (Z_lt_le_dec i (p_ts p)).
            + apply (covers_In _ _ _ Hworld). lia.
            + apply Hb; [reflexivity | lia].
          - left. apply (covers_In _ _ _ Hcov). lia. }
        split; cbn; intros; apply Hall; lia.
      * split; cbn; [|intros Hf; rewrite Hcont in Hf; discriminate Hf].
        intros i Hi. apply in_or_app. left. apply (covers_In _ _ _ Hcov). exact Hi.
Qed.

Lemma mig_run_minv c ps : forall st st',
  minv c st -> mig_run c st ps = Some st' -> minv c st'.
Proof.
  induction ps as [|p t IH]; cbn; intros st st' Hinv H.
  - inversion H; subst. exact Hinv.
  - destruct (mig_pass c st p) as [st1|] eqn:Hp; [|discriminate].
    apply (IH st1); [eapply mig_pass_minv; eassumption | exact H].
Qed.

(* the destination holds nothing but what it held at first and what the passes stored *)
Lemma mig_pass_have c st p st' :
  mig_pass c st p = Some st' -> s_have st' = p_stored p ++ s_have st.
Proof.
  unfold mig_pass, after_error. intros H.
  destruct (s_ret st); [discriminate|].
  destruct (covers (s_have st) 0 (p_ts p)); cbn [negb] in H; [|discriminate].
  destruct (p_root p); destruct (p_sth p) as [n|];
    try (destruct (p_stored p) eqn:Hs; [|discriminate]; destruct (p_reqs p); [|discriminate];
         destruct (m_restarts c && m_cont c && negb (p_cancel p)); inversion H; reflexivity).
  destruct (n <=? s_begin st).
  - destruct (p_stored p) eqn:Hs; [|discriminate]; destruct (p_reqs p); [|discriminate]. inversion H. reflexivity.
  - destruct (pass_range c (s_begin st) (p_ts p) n) as [lo hi].
    destruct (within (p_stored p) lo hi && nodupb (p_stored p) && reqs_within (p_reqs p) lo hi); cbn [negb] in H; [|discriminate].
    destruct (p_fault p || p_cancel p).
    + destruct (m_restarts c && m_cont c && negb (p_cancel p)); inversion H; reflexivity.
    + destruct (covers (p_stored p) lo hi); cbn [negb] in H; [|discriminate]. inversion H. reflexivity.
Qed.

Lemma mig_run_have c ps : forall st st' i,
  mig_run c st ps = Some st' -> In i (s_have st') ->
  In i (s_have st) \/ exists p, In p ps /\ In i (p_stored p).
Proof.
  induction ps as [|p t IH]; cbn; intros st st' i H Hin.
  - inversion H; subst. left. exact Hin.
  - destruct (mig_pass c st p) as [st1|] eqn:Hp; [|discriminate].
    destruct (IH _ _ _ H Hin) as [H1|[q [Hq Hi]]].
    + rewrite (mig_pass_have _ _ _ _ Hp) in H1. apply in_app_or in H1. destruct H1 as [H1|H1].
      * right. exists p. split; [left; reflexivity | exact H1].
      * left. exact H1.
    + right. exists q. split; [right; exact Hq | exact Hi].
Qed.

Lemma consumer_no_gap_lemma c dest0 ps st :
  mig_run c (mig_init dest0) ps = Some st ->
  forall i, (fst (s_claim st) <= i < snd (s_claim st) \/ (m_cont c = true /\ 0 <= i < s_begin st)) ->
  0 <= i < dest0 \/ exists p, In p ps /\ In i (p_stored p).
Proof.
  intros Hrun i Hi.
  pose proof (mig_run_minv c ps _ _ (minv_init c dest0) Hrun) as [Hc Hb].
  assert (Hin : In i (s_have st)).
  { destruct Hi as [Hi|[Hcont Hi]]; [apply Hc; exact Hi | apply Hb; assumption]. }
  destruct (mig_run_have _ _ _ _ _ Hrun Hin) as [H0|H1].
  - left. cbn in H0. apply zrange_In in H0. exact H0.
  - right. exact H1.
Qed.

(* a pass that had something to fetch and met a consumer-side failure (or the caller's
   cancellation) claims nothing, is never a success, and continues - if at all - from scratch *)
Lemma failure_is_reported_lemma c st p st' n :
  mig_pass c st p = Some st' -> p_root p = true -> p_sth p = Some n -> n > s_begin st ->
  p_fault p || p_cancel p = true ->
  s_claim st' = s_claim st /\ s_ret st' <> Some true /\ (s_ret st' = None -> s_begin st' = 0).
Proof.
  unfold mig_pass. intros H Hroot Hsth Hn Hf.
  destruct (s_ret st); [discriminate|].
  destruct (covers (s_have st) 0 (p_ts p)); cbn [negb] in H; [|discriminate].
  rewrite Hroot, Hsth in H.
  destruct (n <=? s_begin st) eqn:Hnb; [apply Z.leb_le in Hnb; lia|].
  destruct (pass_range c (s_begin st) (p_ts p) n) as [lo hi].
  destruct (within (p_stored p) lo hi && nodupb (p_stored p) && reqs_within (p_reqs p) lo hi); cbn [negb] in H; [|discriminate].
  rewrite Hf in H. inversion H; subst st'. unfold after_error.
  destruct (m_restarts c && m_cont c && negb (p_cancel p)); cbn; repeat split; try discriminate; try reflexivity; intros; discriminate.
Qed.

(* success is only ever reported by a one-shot migration, for the pass that fetched its range *)
Lemma success_only_one_shot c st p st' :
  mig_pass c st p = Some st' -> s_ret st' = Some true -> m_cont c = false.
Proof.
  unfold mig_pass, after_error. intros H Hr.
  destruct (s_ret st); [discriminate|].
  destruct (covers (s_have st) 0 (p_ts p)); cbn [negb] in H; [|discriminate].
  destruct (m_cont c); [|reflexivity]. exfalso.
  destruct (p_root p); destruct (p_sth p) as [n|];
    try (destruct (p_stored p) eqn:Hs; [|discriminate]; destruct (p_reqs p); [|discriminate];
         destruct (m_restarts c && true && negb (p_cancel p)); inversion H; subst st'; cbn in Hr; discriminate).
  destruct (n <=? s_begin st).
  - destruct (p_stored p) eqn:Hs; [|discriminate]; destruct (p_reqs p); [|discriminate]. inversion H; subst st'; cbn in Hr; discriminate.
  - destruct (pass_range c (s_begin st) (p_ts p) n) as [lo hi].
    destruct (within (p_stored p) lo hi && nodupb (p_stored p) && reqs_within (p_reqs p) lo hi); cbn [negb] in H; [|discriminate].
    destruct (p_fault p || p_cancel p).
    + destruct (m_restarts c && true && negb (p_cancel p)); inversion H; subst st'; cbn in Hr; discriminate.
    + destruct (covers (p_stored p) lo hi); cbn [negb] in H; [|discriminate]. inversion H; subst st'; cbn in Hr; discriminate.
Qed.
