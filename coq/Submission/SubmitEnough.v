(* C17: enough_answers_implies_success for the patched code (p = true): in every interleaving
   in which the caller does not cancel, if every group has at least its minimum of
   SCT-answering logs in its submission session, GetSCTs reports success. *)
From Coq Require Import ZArith NArith Bool List Lia.
From V Require Import Base.GoInt gen.Races Submission.SubmitModel Submission.SubmitLib
     Submission.SubmitStateProofs Submission.SubmitInv Submission.SubmitLive Submission.SubmitEnoughState.
Import ListNotations.
Open Scope Z_scope.

Definition is_osct (o : outcome) : bool := match o with OSct => true | _ => false end.
Definition enough (c : cfg) (oc : N -> outcome) : Prop :=
  forall gr, In gr c -> Z.of_nat (length (filter (fun l => is_osct (oc l)) (g_session gr))) >= g_min gr.

Definition counted (pc : rpc) : bool := match pc with RCount | RDone => true | _ => false end.
Definition main_over (pc : mpc) : bool := match pc with MFinal | MReturn _ | MDone => true | _ => false end.

Record inv3 (c : cfg) (oc : N -> outcome) (s : state) : Prop := mkInv3 {
  k_count : forall g l, ctxdone s = false -> counted (rp s g l) = true ->
              needs (sh s) g <= 0 \/ finished (sh s) l = true;
  k_main : forall g, In g (names c) -> ctxdone s = false -> main_over (mp s g) = true ->
              needs (sh s) g <= 0 \/ forall l, In l (session_of c g) -> finished (sh s) l = true;
  k_fin : forall l, finished (sh s) l = true ->
              ctxdone s = true \/ oc l <> OSct \/ In l (arrived s) \/
              (forall g, In g (groups_of c l) -> needs (sh s) g <= 0);
  k_got : forall g l, rp s g l = RGot false ->
              ctxdone s = true \/ oc l <> OSct \/ (forall g', In g' (groups_of c l) -> needs (sh s) g' <= 0);
  k_canc : forall l, cancelled (sh s) l = true -> forall g, In g (groups_of c l) -> needs (sh s) g <= 0;
  k_arr : forall gr, In gr c -> g_name gr <> base_name ->
              needs (sh s) (g_name gr) = g_min gr - cnt_mem (arrived s) (g_logs gr);
  k_res : reserve_inv c (sh s) (arrived s);
  k_verdict : match top s with
              | TVerdict rest gc =>
                  (forall g, In g (names c) -> is_mdone (mp s g) = true) /\
                  (ctxdone s = false -> forall g, In g (names c) -> ~ In g rest -> gc g = true)
              | TReturned _ ok => ctxdone s = false -> ok = true
              | TLoop _ _ => True
              end
}.

Section Enough.
Variables (c : cfg) (oc : N -> outcome).
Hypothesis Hwf : wf c.
Hypothesis Hgood : good_cfg c.
Hypothesis Henough : enough c oc.
Let p := true.

Lemma session_in_logs gr l : In gr c -> In l (g_session gr) -> In l (g_logs gr).
Proof. intros Hin Hl. destruct Hwf as [_ W]. destruct (W gr Hin) as [_ [_ Hincl]]. apply Hincl. exact Hl. Qed.

Lemma session_of_gr gr : In gr c -> session_of c (g_name gr) = g_session gr.
Proof. intros Hin. unfold session_of. destruct Hwf as [Hnd _]. rewrite find_group_in by assumption. reflexivity. Qed.

Lemma cnt_mem_nil logs : cnt_mem [] logs = 0.
Proof. unfold cnt_mem. simpl. rewrite filter_false_nil. reflexivity. Qed.

Lemma inv3_init : inv3 c oc (init p c).
Proof.
  constructor.
  - intros g l _ H. discriminate.
  - intros g Hin _ Hm. right. simpl in Hm. destruct (session_of c g) eqn:E; [intros l []|discriminate].
  - intros l H. discriminate.
  - intros g l H. discriminate.
  - intros l H. discriminate.
  - intros gr Hin Hb. simpl. rewrite cnt_mem_nil. destruct Hwf as [Hnd _].
    fold (find_group c (g_name gr)). rewrite find_group_in by assumption. lia.
  - intros grb Hb Hbn. right. simpl. rewrite cnt_mem_nil. unfold cnt_sct. lia.
  - simpl. destruct c; [|exact Logic.I]. unfold after_loop. simpl. split; [intros g []|]. intros _ g [].
Qed.

(* monotone facts along one step *)
Lemma step_finished_mono s a s' l : inv1 c s -> step p c oc s a = Some s' ->
  finished (sh s) l = true -> finished (sh s') l = true.
Proof.
  intros I H Hf. destruct Hwf as [Hnd _]. step_inv H; simpl; try exact Hf.
  - apply request_finished_mono. exact Hf.
  - assert (Hres : results (sh s) l0 = RPending) by (apply (owner_res c s g l0 I); rewrite E0; reflexivity).
    destruct (set_result_spec c (sh s) l0 sct s0 Hnd Hres E1) as [_ [_ [_ [_ [S5 _]]]]].
    destruct sct; simpl; rewrite S5; unfold upd; destruct (N.eqb l l0); auto.
Qed.

Lemma step_ctx_mono s a s' : step p c oc s a = Some s' -> ctxdone s' = false -> ctxdone s = false.
Proof. intros H Hc. step_inv H; simpl in *; try (destruct sct; simpl in *); try assumption; try discriminate; try congruence. Qed.

Lemma step_ctx_mono' s a s' : step p c oc s a = Some s' -> ctxdone s = true -> ctxdone s' = true.
Proof. intros H Hc. step_inv H; simpl in *; try (destruct sct; simpl in *); try assumption; try reflexivity; try congruence. Qed.

Lemma step_arrived_mono s a s' l : step p c oc s a = Some s' -> In l (arrived s) -> In l (arrived s').
Proof. intros H. step_inv H; simpl; try (destruct sct; simpl); auto. Qed.

(* once every race has ended without cancellation, every group is complete *)
Lemma sct_logs_arrived s gr : inv1 c s -> inv3 c oc s -> In gr c -> ctxdone s = false ->
  needs (sh s) (g_name gr) > 0 ->
  (forall l, In l (g_session gr) -> finished (sh s) l = true) ->
  cnt_mem (arrived s) (g_logs gr) >= g_min gr.
Proof.
  intros I K Hin Hctx Hpos Hfin. destruct Hwf as [Hnd W]. destruct (W gr Hin) as [Hndl [Hnds Hincl]].
  specialize (Henough gr Hin).
  assert (Hle : (length (filter (fun l => is_osct (oc l)) (g_session gr)) <= length (filter (fun l => memN l (arrived s)) (g_logs gr)))%nat).
  { apply NoDup_incl_length; [apply NoDup_filter; exact Hnds|].
    intros l Hl. apply filter_In in Hl. destruct Hl as [Hl Ho]. apply filter_In. split; [apply Hincl; exact Hl|].
    apply memN_In. destruct (k_fin c oc s K l (Hfin l Hl)) as [F|[F|[F|F]]].
    - congruence.
    - destruct (oc l); simpl in Ho; try discriminate. congruence.
    - exact F.
    - exfalso. assert (needs (sh s) (g_name gr) <= 0); [|lia]. apply F.
      apply groups_of_member; auto. }
  unfold cnt_mem. lia.
Qed.

Lemma all_done_complete s : inv1 c s -> inv3 c oc s -> ctxdone s = false ->
  (forall g, In g (names c) -> is_mdone (mp s g) = true) ->
  forall g, In g (names c) -> needs (sh s) g <= 0.
Proof.
  intros I K Hctx Hdone.
  assert (Hover : forall gr, In gr c -> needs (sh s) (g_name gr) > 0 ->
                  forall l, In l (g_session gr) -> finished (sh s) l = true).
  { intros gr Hin Hpos. pose proof (in_names c gr Hin) as Hn.
    assert (Hm : main_over (mp s (g_name gr)) = true).
    { specialize (Hdone _ Hn). destruct (mp s (g_name gr)); try discriminate. reflexivity. }
    destruct (k_main c oc s K _ Hn Hctx Hm) as [F|F]; [lia|]. rewrite session_of_gr in F by exact Hin. exact F. }
  assert (Hnonbase : forall gr, In gr c -> g_name gr <> base_name -> needs (sh s) (g_name gr) <= 0).
  { intros gr Hin Hb. destruct (Z_le_gt_dec (needs (sh s) (g_name gr)) 0) as [Hle|Hgt]; [exact Hle|].
    pose proof (sct_logs_arrived s gr I K Hin Hctx Hgt (Hover gr Hin Hgt)).
    rewrite (k_arr c oc s K gr Hin Hb). lia. }
  intros g Hg. destruct (names_in c g Hg) as [gr [Hin Hname]]. subst g.
  destruct (N.eq_dec (g_name gr) base_name) as [Hb|Hb]; [|apply Hnonbase; assumption].
  destruct (Z_le_gt_dec (needs (sh s) (g_name gr)) 0) as [Hle|Hgt]; [exact Hle|].
  pose proof (sct_logs_arrived s gr I K Hin Hctx Hgt (Hover gr Hin Hgt)) as Harr.
  pose proof (i_policy c s I gr Hin) as Hp. rewrite Hb, N.eqb_refl in Hp. rewrite Hb in Hgt.
  destruct (k_res c oc s K gr Hin Hb) as [R|R].
  - assert (others_sum c (needs (sh s)) = 0); [|lia].
    rewrite others_sum_osum. apply osum_zero. intros g' Hg' Hb'.
    destruct (names_in c g' Hg') as [gr' [Hin' Hname']]. subst g'. apply Hnonbase; assumption.
  - rewrite Hb. lia.
Qed.

Lemma valid_names g l : valid_gor c g l = true -> In g (names c).
Proof. intros H. destruct (valid_in_session c g l H). assumption. Qed.

Lemma pres_kcount s a s' : inv1 c s -> inv3 c oc s -> step p c oc s a = Some s' ->
  forall g l, ctxdone s' = false -> counted (rp s' g l) = true -> needs (sh s') g <= 0 \/ finished (sh s') l = true.
Proof.
  intros I K H. pose proof (step_needs_mono p c oc s a s' Hwf I H) as Mono.
  pose proof (fun l => step_finished_mono s a s' l I H) as FMono.
  pose proof (step_ctx_mono s a s' H) as CMono.
  assert (Stable : forall g l, ctxdone s' = false -> counted (rp s g l) = true -> needs (sh s') g <= 0 \/ finished (sh s') l = true).
  { intros g l Hc Hk. destruct (k_count c oc s K g l (CMono Hc) Hk) as [F|F]; [left; specialize (Mono g); lia | right; apply FMono; exact F]. }
  clear Mono FMono. destruct Hwf as [Hnd _]. step_inv H; simpl in *.
  8, 11-20: exact Stable.
  all: split_ands.
  - intros g' l' Hc Hk. rp_split; [discriminate | apply Stable; assumption].
  - intros g' l' Hc Hk. rp_split; [congruence | apply Stable; assumption].
  - intros g' l' Hc Hk. rp_split; [|apply Stable; assumption].
    destruct (group_complete c (sh s) _) eqn:Eg; [|discriminate]. left.
    match goal with Hv : valid_gor c ?g0 _ = true |- _ => apply (group_complete_needs c (sh s) g0 (valid_names _ _ Hv)); exact Eg end.
  - intros g' l' Hc Hk. rp_split; [destruct (snd (request _ _ _)); discriminate | apply Stable; assumption].
  - intros g' l' Hc Hk. rp_split; [discriminate | apply Stable; assumption].
  - intros g' l' Hc Hk. rp_split; [discriminate | apply Stable; assumption].
  - (* ASetRes *)
    assert (Hres : results (sh s) l = RPending) by (apply (owner_res c s g l I); rewrite E0; reflexivity).
    destruct (set_result_spec c (sh s) l sct s0 Hnd Hres E1) as [_ [_ [_ [_ [S5 _]]]]].
    assert (G : forall g' l', ctxdone s = false ->
                counted (if N.eqb g' g && N.eqb l' l then RCount else rp s g' l') = true ->
                needs s0 g' <= 0 \/ finished s0 l' = true).
    { intros g' l' Hc Hk. rp_split; [right; rewrite S5; apply upd_same|].
      destruct sct; simpl in Stable; apply Stable; assumption. }
    destruct sct; simpl; exact G.
  - intros g' l' Hc Hk. rp_split; [|apply Stable; assumption].
    right. match goal with Hf : _ || _ = true |- _ => apply orb_true_iff in Hf; destruct Hf as [Hf|Hf]; [exact Hf | congruence] end.
  - intros g' l' Hc Hk. rp_split; [|apply Stable; assumption].
    apply Stable; [assumption|]. match goal with Hr : rp s _ _ = RCount |- _ => rewrite Hr end. reflexivity.
Qed.

Lemma pres_kmain s a s' : inv1 c s -> inv2 c s -> inv3 c oc s -> step p c oc s a = Some s' ->
  forall g, In g (names c) -> ctxdone s' = false -> main_over (mp s' g) = true ->
    needs (sh s') g <= 0 \/ forall l, In l (session_of c g) -> finished (sh s') l = true.
Proof.
  intros I J K H. pose proof (step_needs_mono p c oc s a s' Hwf I H) as Mono.
  pose proof (fun l => step_finished_mono s a s' l I H) as FMono.
  pose proof (step_ctx_mono s a s' H) as CMono.
  assert (Stable : forall g, In g (names c) -> ctxdone s' = false -> main_over (mp s g) = true ->
            needs (sh s') g <= 0 \/ forall l, In l (session_of c g) -> finished (sh s') l = true).
  { intros g Hg Hc Hk. destruct (k_main c oc s K g Hg (CMono Hc) Hk) as [F|F];
      [left; specialize (Mono g); lia | right; intros l Hl; apply FMono; apply F; exact Hl]. }
  assert (SameSh : sh s' = sh s -> forall g, (needs (sh s) g <= 0 \/ forall l, In l (session_of c g) -> finished (sh s) l = true) ->
            needs (sh s') g <= 0 \/ forall l, In l (session_of c g) -> finished (sh s') l = true).
  { intros E g F. rewrite E. exact F. }
  clear Mono FMono. step_inv H; simpl in *; try (destruct sct; simpl in * ); try exact Stable.
  all: split_ands; intros g' Hg' Hc Hk; unfold upd in Hk; destruct (N.eqb g' g) eqn:Eg;
    try (apply Stable; assumption); apply N.eqb_eq in Eg; subst g'; try discriminate.
  - (* ARecvDone: ctx is done *) congruence.
  - (* AMainCheck *)
    destruct (group_complete c (sh s) g) eqn:Ec.
    + left. apply (group_complete_needs c (sh s) g Hg'). exact Ec.
    + pose proof (j_cnt c s J g Hg') as JC. rewrite E0 in JC. destruct JC as [JC1 JC2].
      match type of Hk with main_over (if ?bb then _ else _) = true => destruct bb eqn:En end; [|discriminate].
      change (Nat.eqb (S k) (length (session_of c g)) = true) in En. apply Nat.eqb_eq in En.
      pose proof (done_count_le c s g) as Hle.
      assert (Hall : forall l, In l (session_of c g) -> is_rdone (rp s g l) = true).
      { apply filter_all_length. fold (done_count c s g). lia. }
      destruct (Z_le_gt_dec (needs (sh s) g) 0) as [Hn|Hn]; [left; exact Hn|]. right. intros l Hl.
      assert (Hk2 : counted (rp s g l) = true) by (specialize (Hall l Hl); destruct (rp s g l); try discriminate; reflexivity).
      destruct (k_count c oc s K g l Hc Hk2) as [F|F]; [lia | exact F].
  - (* AMainFinal *) apply Stable; try assumption. rewrite E0. reflexivity.
  - (* ASendEvent *) apply Stable; try assumption. rewrite E0. reflexivity.
Qed.

Lemma pres_kfin s a s' : inv1 c s -> inv3 c oc s -> step p c oc s a = Some s' ->
  forall l, finished (sh s') l = true ->
    ctxdone s' = true \/ oc l <> OSct \/ In l (arrived s') \/ (forall g, In g (groups_of c l) -> needs (sh s') g <= 0).
Proof.
  intros I K H. pose proof (step_needs_mono p c oc s a s' Hwf I H) as Mono.
  pose proof (step_ctx_mono' s a s' H) as CMono.
  pose proof (fun l => step_arrived_mono s a s' l H) as AMono.
  assert (Stable : forall l, finished (sh s) l = true ->
    ctxdone s' = true \/ oc l <> OSct \/ In l (arrived s') \/ (forall g, In g (groups_of c l) -> needs (sh s') g <= 0)).
  { intros l Hf. destruct (k_fin c oc s K l Hf) as [F|[F|[F|F]]]; auto.
    right. right. right. intros g Hg. specialize (F g Hg). specialize (Mono g). lia. }
  assert (StableG : forall g l, rp s g l = RGot false ->
    ctxdone s' = true \/ oc l <> OSct \/ (forall g', In g' (groups_of c l) -> needs (sh s') g' <= 0)).
  { intros g l Hr. destruct (k_got c oc s K g l Hr) as [F|[F|F]]; auto.
    right. right. intros g' Hg. specialize (F g' Hg). specialize (Mono g'). lia. }
  clear CMono AMono. destruct Hwf as [Hnd _]. step_inv H; simpl in *; try exact Stable.
  - (* ARequest *) intros l' Hf. destruct (N.eq_dec l' l) as [->|Hne].
    + destruct (results (sh s) l) eqn:Er.
      * destruct (request_fresh c (sh s) l Er) as [R1 [R2 R3]].
        destruct (snd (request c (sh s) l)) eqn:Es.
        -- rewrite (R2 eq_refl) in Hf. apply Stable. exact Hf.
        -- destruct (R3 eq_refl) as [_ R4]. right. right. right. intros g' Hg'. rewrite request_needs. apply R4. exact Hg'.
      * rewrite request_dup in Hf by congruence. apply Stable. exact Hf.
      * rewrite request_dup in Hf by congruence. apply Stable. exact Hf.
      * rewrite request_dup in Hf by congruence. apply Stable. exact Hf.
    + rewrite request_finished_other in Hf by exact Hne. apply Stable. exact Hf.
  - (* ASetRes *)
    assert (Hres : results (sh s) l = RPending) by (apply (owner_res c s g l I); rewrite E0; reflexivity).
    destruct (set_result_spec c (sh s) l sct s0 Hnd Hres E1) as [_ [_ [_ [_ [S5 _]]]]].
    destruct sct; simpl in *; intros l' Hf; rewrite S5 in Hf; unfold upd in Hf; destruct (N.eqb l' l) eqn:El;
      try (apply Stable; exact Hf); apply N.eqb_eq in El; subst l'.
    + right. right. left. left. reflexivity.
    + destruct (StableG g l E0) as [F|[F|F]]; auto.
Qed.

Lemma pres_kgot s a s' : inv1 c s -> inv3 c oc s -> step p c oc s a = Some s' ->
  forall g l, rp s' g l = RGot false ->
    ctxdone s' = true \/ oc l <> OSct \/ (forall g', In g' (groups_of c l) -> needs (sh s') g' <= 0).
Proof.
  intros I K H. pose proof (step_needs_mono p c oc s a s' Hwf I H) as Mono.
  pose proof (step_ctx_mono' s a s' H) as CMono.
  assert (Stable : forall g l, rp s g l = RGot false ->
    ctxdone s' = true \/ oc l <> OSct \/ (forall g', In g' (groups_of c l) -> needs (sh s') g' <= 0)).
  { intros g l Hr. destruct (k_got c oc s K g l Hr) as [F|[F|F]]; auto.
    right. right. intros g' Hg. specialize (F g' Hg). specialize (Mono g'). lia. }
  clear Mono CMono. step_inv H; simpl in *.
  8, 11-20: exact Stable.
  all: split_ands.
  - intros g' l' Hr. rp_split; [discriminate | eapply Stable; eauto].
  - intros g' l' Hr. rp_split; [discriminate | eapply Stable; eauto].
  - intros g' l' Hr. rp_split; [destruct (group_complete _ _ _); discriminate | eapply Stable; eauto].
  - intros g' l' Hr. rp_split; [destruct (snd (request _ _ _)); discriminate | eapply Stable; eauto].
  - intros g' l' Hr. rp_split; [discriminate | eapply Stable; eauto].
  - (* AReturn *) intros g' l' Hr. rp_split; [|eapply Stable; eauto].
    inversion Hr; subst. unfold may_return in *.
    match goal with Hm : (match oc ?l0 with _ => _ end) = true |- _ => destruct (oc l0) eqn:Eo end;
      try (right; left; congruence).
    all: match goal with Hm : _ || _ = true |- _ => apply orb_true_iff in Hm; destruct Hm as [Hm|Hm];
           [right; right; intros g2 Hg2; eapply (k_canc c oc s K); eauto | left; exact Hm] end.
  - assert (G : forall g' l', (if N.eqb g' g && N.eqb l' l then RCount else rp s g' l') = RGot false ->
                ctxdone s = true \/ oc l' <> OSct \/ (forall g2, In g2 (groups_of c l') -> needs s0 g2 <= 0)).
    { intros g' l' Hr. rp_split; [discriminate|]. destruct sct; simpl in Stable; eapply Stable; eauto. }
    destruct sct; simpl; exact G.
  - intros g' l' Hr. rp_split; [discriminate | eapply Stable; eauto].
  - intros g' l' Hr. rp_split; [discriminate | eapply Stable; eauto].
Qed.

Lemma pres_kcanc s a s' : inv1 c s -> inv3 c oc s -> step p c oc s a = Some s' ->
  forall l, cancelled (sh s') l = true -> forall g, In g (groups_of c l) -> needs (sh s') g <= 0.
Proof.
  intros I K H. pose proof (step_needs_mono p c oc s a s' Hwf I H) as Mono.
  assert (Stable : forall l, cancelled (sh s) l = true -> forall g, In g (groups_of c l) -> needs (sh s') g <= 0).
  { intros l Hc g Hg. pose proof (k_canc c oc s K l Hc g Hg). specialize (Mono g). lia. }
  clear Mono. destruct Hwf as [Hnd _]. step_inv H; simpl in *; try exact Stable.
  - rewrite request_cancelled. exact Stable.
  - assert (Hres : results (sh s) l = RPending) by (apply (owner_res c s g l I); rewrite E0; reflexivity).
    destruct (set_result_spec c (sh s) l sct s0 Hnd Hres E1) as [_ [_ [_ [_ [_ S6]]]]].
    destruct sct; simpl in *; intros l' Hc g' Hg'; destruct (S6 l' Hc) as [F|F]; try (apply F; exact Hg'); eapply Stable; eauto.
Qed.

Lemma setres_not_arrived s g l sct : inv1 c s -> rp s g l = RGot sct -> ~ In l (arrived s).
Proof.
  intros I Hr Hin. pose proof (i_arrived_fin c s I l Hin) as F.
  destruct (i_owner c s I g l) as [_ F2]; [rewrite Hr; reflexivity|]. congruence.
Qed.

Lemma pres_karr s a s' : inv1 c s -> inv3 c oc s -> step p c oc s a = Some s' ->
  forall gr, In gr c -> g_name gr <> base_name ->
    needs (sh s') (g_name gr) = g_min gr - cnt_mem (arrived s') (g_logs gr).
Proof.
  intros I K H. pose proof (k_arr c oc s K) as Old. destruct Hwf as [Hnd W].
  step_inv H; simpl in *; try exact Old.
  - rewrite request_needs. exact Old.
  - assert (Hres : results (sh s) l = RPending) by (apply (owner_res c s g l I); rewrite E0; reflexivity).
    pose proof (setres_not_arrived s g l sct I E0) as Hna.
    destruct sct; simpl in *.
    + destruct (set_result_sct c (sh s) l Hnd Hres) as [st2 [E2 [Sn _]]]. rewrite E2 in E1. inversion E1; subst st2.
      intros gr Hin Hb. destruct (W gr Hin) as [Hndl _].
      rewrite Sn. apply N.eqb_neq in Hb. rewrite Hb. simpl. unfold nd1. rewrite Hb. simpl. rewrite andb_true_r.
      rewrite (memN_groups_of c gr l Hnd Hin). rewrite cnt_mem_cons by assumption.
      apply N.eqb_neq in Hb. rewrite (Old gr Hin Hb). destruct (memN l (g_logs gr)); lia.
    + destruct (set_result_spec c (sh s) l false s0 Hnd Hres E1) as [_ [_ [_ [S4 _]]]].
      destruct (S4 eq_refl) as [_ [S4n _]]. rewrite S4n. exact Old.
Qed.

Lemma pres_kres s a s' : inv1 c s -> inv3 c oc s -> step p c oc s a = Some s' -> reserve_inv c (sh s') (arrived s').
Proof.
  intros I K H. pose proof (k_res c oc s K) as Old. pose proof Hwf as [Hnd W].
  step_inv H; simpl in *; try exact Old.
  - (* ARequest *) eapply reserve_same; [exact Old | apply request_needs |].
    intros gr _. destruct (results (sh s) l) eqn:Er.
    + destruct (request_fresh c (sh s) l Er) as [R1 _].
      eapply cnt_sct_nonsct with (l := l) (r' := RPending); auto.
      * intros l'. rewrite R1. reflexivity.
      * rewrite Er. reflexivity.
    + rewrite request_dup by congruence. reflexivity.
    + rewrite request_dup by congruence. reflexivity.
    + rewrite request_dup by congruence. reflexivity.
  - split_ands.
    assert (Hres : results (sh s) l = RPending) by (apply (owner_res c s g l I); rewrite E0; reflexivity).
    pose proof (setres_not_arrived s g l sct I E0) as Hna.
    destruct sct; simpl in *.
    + eapply reserve_set_sct; eauto.
      match goal with Hv : valid_gor c g l = true |- _ => destruct (valid_gor_sess c g l Hv) as [gr [G1 [G2 [G3 G4]]]] end.
      exists gr. split; [exact G1 | apply (session_in_logs gr l G1 G3)].
    + destruct (set_result_spec c (sh s) l false s0 Hnd Hres E1) as [S1 [_ [_ [S4 _]]]].
      destruct (S4 eq_refl) as [S4r [S4n _]].
      eapply reserve_same; [exact Old | exact S4n |].
      intros gr _. eapply cnt_sct_nonsct with (l := l) (r' := RErr); auto.
      * intros l'. destruct (N.eqb l' l) eqn:El; [apply N.eqb_eq in El; subst; exact S4r | apply S1; apply N.eqb_neq; exact El].
      * rewrite Hres. reflexivity.
Qed.

Lemma pres_kverdict s a s' : inv1 c s -> inv2 c s -> inv3 c oc s -> step p c oc s a = Some s' ->
  match top s' with
  | TVerdict rest gc =>
      (forall g, In g (names c) -> is_mdone (mp s' g) = true) /\
      (ctxdone s' = false -> forall g, In g (names c) -> ~ In g rest -> gc g = true)
  | TReturned _ ok => ctxdone s' = false -> ok = true
  | TLoop _ _ => True
  end.
Proof.
  intros I J K H. pose proof (k_verdict c oc s K) as Old. pose proof (step_ctx_mono s a s' H) as CMono.
  pose proof (j_evq c s J) as JE.
  assert (Frame : top s' = top s -> mp s' = mp s ->
    match top s' with
    | TVerdict rest gc =>
        (forall g, In g (names c) -> is_mdone (mp s' g) = true) /\
        (ctxdone s' = false -> forall g, In g (names c) -> ~ In g rest -> gc g = true)
    | TReturned _ ok => ctxdone s' = false -> ok = true
    | TLoop _ _ => True
    end).
  { intros Et Em. rewrite Et, Em. destruct (top s); auto. destruct Old as [O1 O2]. split; auto. }
  (* a race main cannot step once all of them are done *)
  assert (MainStep : forall g pc, In g (names c) -> is_mdone (mp s g) = false -> top s' = top s -> mp s' = upd (mp s) g pc ->
    match top s' with
    | TVerdict rest gc =>
        (forall g, In g (names c) -> is_mdone (mp s' g) = true) /\
        (ctxdone s' = false -> forall g, In g (names c) -> ~ In g rest -> gc g = true)
    | TReturned _ ok => ctxdone s' = false -> ok = true
    | TLoop _ _ => True
    end).
  { intros g pc Hg Hnd Et Em. rewrite Et. destruct (top s); auto.
    destruct Old as [O1 _]. specialize (O1 g Hg). congruence. }
  step_inv H.
  1-10, 20: try (destruct sct); apply Frame; reflexivity.
  - split_ands. eapply (MainStep g); try reflexivity; [assumption | rewrite E0; reflexivity].
  - split_ands. eapply (MainStep g); try reflexivity; [assumption | rewrite E0; reflexivity].
  - split_ands. eapply (MainStep g); try reflexivity; [assumption | rewrite E0; reflexivity].
  - split_ands. eapply (MainStep g); try reflexivity; [assumption | rewrite E0; reflexivity].
  - split_ands. eapply (MainStep g); try reflexivity; [assumption | rewrite E0; reflexivity].
  - (* ATopRecv *) cbn [top set_top set_evq mp ctxdone]. destruct JE as [JE1 JE2].
    match goal with |- context[if ?bb then _ else TLoop _ _] => destruct bb eqn:En end; [|exact Logic.I].
    change (Nat.eqb (S n) (length c) = true) in En. apply Nat.eqb_eq in En.
    unfold after_loop. cbn [p]. split.
    + apply filter_all_length. fold (done_mains c s). rewrite names_length. simpl in JE1. lia.
    + intros _ g Hg Hn. tauto.
  - (* ATopDone *) cbn [top set_top ctxdone]. intros Hc. congruence.
  - (* ATopVerdict *) cbn [top set_top mp ctxdone]. destruct Old as [O1 O2]. split; [exact O1|].
    intros Hc g Hg Hn. unfold upd. destruct (N.eqb g n) eqn:Eg.
    + apply N.eqb_eq in Eg. subst g. apply (group_complete_needs c (sh s) n Hg).
      apply (all_done_complete s I K Hc O1 n Hg).
    + apply O2; auto. intros [Hx|Hx]; [apply N.eqb_neq in Eg; congruence | tauto].
  - (* ATopCollect *) cbn [top set_top ctxdone]. destruct Old as [O1 O2]. intros Hc.
    apply forallb_forall. intros g Hg. apply O2; auto.
Qed.

Lemma inv3_step s a s' : inv1 c s -> inv2 c s -> inv3 c oc s -> step p c oc s a = Some s' -> inv3 c oc s'.
Proof.
  intros I J K H. constructor.
  - exact (pres_kcount s a s' I K H).
  - exact (pres_kmain s a s' I J K H).
  - exact (pres_kfin s a s' I K H).
  - exact (pres_kgot s a s' I K H).
  - exact (pres_kcanc s a s' I K H).
  - exact (pres_karr s a s' I K H).
  - exact (pres_kres s a s' I K H).
  - exact (pres_kverdict s a s' I J K H).
Qed.

Lemma inv123_run tr : forall s s', inv1 c s -> inv2 c s -> inv3 c oc s -> run p c oc s tr = Some s' ->
  inv1 c s' /\ inv2 c s' /\ inv3 c oc s'.
Proof.
  induction tr as [|a tr IH]; simpl; intros s s' I J K H.
  - inversion H; subst. auto.
  - destruct (step p c oc s a) eqn:E; [|discriminate].
    eapply IH; [eapply inv1_step; eauto | eapply inv2_step; eauto | eapply inv3_step; eauto | exact H].
Qed.

Theorem enough_success tr s scts ok :
  run true c oc (init true c) tr = Some s -> returned s = Some (scts, ok) -> ctxdone s = false -> ok = true.
Proof.
  intros Hrun Hret Hc.
  destruct (inv123_run tr (init true c) s (inv1_init true c Hwf) (inv2_init true c) inv3_init Hrun) as [_ [_ K]].
  pose proof (k_verdict c oc s K) as V. unfold returned in Hret.
  destruct (top s); try discriminate. inversion Hret; subst. apply V. exact Hc.
Qed.
End Enough.
