(* DER tag-length-value layer (single-byte tags, definite lengths below 2^31, exactly the
   lengths asn1.parseTagAndLength accepts), with round-trip lemmas.  Used by the TLV-level
   TBSCertificate model of C03. *)
From Coq Require Import NArith List Bool Lia PeanoNat.
From V Require Import Base.Bytes.
Import ListNotations.
Local Open Scope N_scope.

Definition len (b : bytes) : N := N.of_nat (length b).
Definition max_len : N := 2147483648.   (* 2^31 *)

Definition enc_len (n : N) : bytes :=
  if n <? 128 then [n2b n]
  else if n <? 256 then n2b 129 :: be_enc 1 n
  else if n <? 65536 then n2b 130 :: be_enc 2 n
  else if n <? 16777216 then n2b 131 :: be_enc 3 n
  else n2b 132 :: be_enc 4 n.

Definition dec_len (bs : bytes) : option (N * bytes) :=
  match bs with
  | [] => None
  | b :: r =>
      let x := b2n b in
      if x <? 128 then Some (x, r)
      else
        let k := N.to_nat (x - 128) in
        if (k =? 0)%nat then None                       (* indefinite length *)
        else if (4 <? k)%nat then None                  (* length too large *)
        else if (length r <? k)%nat then None           (* truncated *)
        else
          let v := be_dec (firstn k r) in
          match r with
          | [] => None
          | b1 :: _ =>
              if b2n b1 =? 0 then None                  (* superfluous leading zeros *)
              else if v <? 128 then None                (* non-minimal length *)
              else if max_len <=? v then None           (* length too large *)
              else Some (v, skipn k r)
          end
  end.

Lemma be_enc_head w n : n < 256 ^ N.of_nat (S w) ->
  exists tl, be_enc (S w) n = n2b (n / 256 ^ N.of_nat w) :: tl /\ length tl = w.
Proof. intros _. cbn [be_enc]. eexists. split; [reflexivity|]. apply be_enc_length. Qed.

Lemma dec_enc_len_long k n rest :
  (1 <= k <= 4)%nat -> 128 <= n -> 256 ^ N.of_nat (k - 1) <= n -> n < 256 ^ N.of_nat k -> n < max_len ->
  dec_len (n2b (128 + N.of_nat k) :: be_enc k n ++ rest) = Some (n, rest).
Proof.
  intros Hk H128 Hlo Hhi Hmax. cbn [dec_len].
  assert (Hkb : 128 + N.of_nat k < 256) by lia.
  rewrite b2n_n2b by exact Hkb.
  destruct (N.ltb_spec (128 + N.of_nat k) 128) as [?|_]; [lia|].
  replace (128 + N.of_nat k - 128) with (N.of_nat k) by lia. rewrite Nnat.Nat2N.id.
  destruct (Nat.eqb_spec k 0) as [?|_]; [lia|].
  destruct (Nat.ltb_spec 4 k) as [?|_]; [lia|].
  rewrite app_length, be_enc_length.
  destruct (Nat.ltb_spec (k + length rest) k) as [?|_]; [lia|].
  rewrite firstn_app, be_enc_length, Nat.sub_diag, firstn_O, app_nil_r.
  rewrite (firstn_all2 (n := k)) by (rewrite be_enc_length; lia).
  rewrite be_dec_enc by exact Hhi.
  destruct k as [|w]; [lia|]. cbn [be_enc app].
  assert (Hq : n / 256 ^ N.of_nat w < 256).
  { apply N.div_lt_upper_bound; [apply N.pow_nonzero; lia|].
    rewrite Nnat.Nat2N.inj_succ, N.pow_succ_r' in Hhi. lia. }
  rewrite b2n_n2b by exact Hq.
  replace (S w - 1)%nat with w in Hlo by lia.
  assert (Hq1 : 1 <= n / 256 ^ N.of_nat w).
  { apply N.div_le_lower_bound; [apply N.pow_nonzero; lia|lia]. }
  destruct (N.eqb_spec (n / 256 ^ N.of_nat w) 0) as [?|_]; [lia|].
  destruct (N.ltb_spec n 128) as [?|_]; [lia|].
  destruct (N.leb_spec max_len n) as [?|_]; [lia|].
  f_equal. f_equal.
  change (n2b (n / 256 ^ N.of_nat w) :: be_enc w (n mod 256 ^ N.of_nat w) ++ rest)
    with ((n2b (n / 256 ^ N.of_nat w) :: be_enc w (n mod 256 ^ N.of_nat w)) ++ rest).
  rewrite skipn_app. cbn [length]. rewrite be_enc_length, Nat.sub_diag.
  rewrite skipn_all2 by (cbn [length]; rewrite be_enc_length; lia). reflexivity.
Qed.

Lemma dec_enc_len n rest : n < max_len -> dec_len (enc_len n ++ rest) = Some (n, rest).
Proof.
  intros Hn. unfold enc_len, max_len in *.
  destruct (N.ltb_spec n 128).
  - cbn [app dec_len]. rewrite b2n_n2b by lia. destruct (N.ltb_spec n 128); [reflexivity|lia].
  - destruct (N.ltb_spec n 256).
    + apply (dec_enc_len_long 1 n rest); cbn; unfold max_len; lia.
    + destruct (N.ltb_spec n 65536).
      * apply (dec_enc_len_long 2 n rest); cbn; unfold max_len; lia.
      * destruct (N.ltb_spec n 16777216).
        -- apply (dec_enc_len_long 3 n rest); cbn; unfold max_len; lia.
        -- apply (dec_enc_len_long 4 n rest); cbn; unfold max_len; lia.
Qed.

(* ---- TLVs ---- *)
Definition low_tag (t : Byte.byte) : bool := negb (N.land (b2n t) 31 =? 31).

Definition enc_tlv (t : Byte.byte) (c : bytes) : bytes := t :: enc_len (len c) ++ c.

Definition dec_tlv (bs : bytes) : option (Byte.byte * bytes * bytes) :=
  match bs with
  | [] => None
  | t :: r =>
      if negb (low_tag t) then None
      else match dec_len r with
           | None => None
           | Some (n, r') =>
               if (length r' <? N.to_nat n)%nat then None
               else Some (t, firstn (N.to_nat n) r', skipn (N.to_nat n) r')
           end
  end.

Lemma dec_enc_tlv t c rest : low_tag t = true -> len c < max_len ->
  dec_tlv (enc_tlv t c ++ rest) = Some (t, c, rest).
Proof.
  intros Ht Hc. unfold enc_tlv, dec_tlv. cbn [app]. rewrite Ht. cbn [negb].
  rewrite <- app_assoc. rewrite dec_enc_len by exact Hc. unfold len. rewrite Nnat.Nat2N.id.
  rewrite app_length. destruct (Nat.ltb_spec (length c + length rest) (length c)); [lia|].
  rewrite firstn_app, Nat.sub_diag, firstn_O, app_nil_r, firstn_all.
  rewrite skipn_app, Nat.sub_diag, skipn_all. reflexivity.
Qed.

Lemma dec_tlv_shorter bs t c r : dec_tlv bs = Some (t, c, r) -> (length r < length bs)%nat.
Proof.
  unfold dec_tlv. destruct bs as [|t0 r0]; [discriminate|]. destruct (negb (low_tag t0)); [discriminate|].
  destruct (dec_len r0) as [[n r']|] eqn:El; [|discriminate].
  destruct (Nat.ltb_spec (length r') (N.to_nat n)); [discriminate|]. intros Heq; inversion Heq; subst.
  rewrite skipn_length. cbn [length].
  assert (Hle : (length r' <= length r0)%nat).
  { unfold dec_len in El. destruct r0 as [|b rr]; [discriminate|]. destruct (b2n b <? 128).
    - inversion El; subst. cbn; lia.
    - destruct (N.to_nat (b2n b - 128) =? 0)%nat; [discriminate|]. destruct (4 <? _)%nat; [discriminate|].
      destruct (length rr <? _)%nat; [discriminate|]. destruct rr as [|b1 r1]; [discriminate|].
      destruct (b2n b1 =? 0); [discriminate|]. destruct (_ <? 128); [discriminate|]. destruct (max_len <=? _); [discriminate|].
      inversion El; subst. rewrite skipn_length. cbn [length]. lia. }
  lia.
Qed.

(* a sequence body as a list of TLVs *)
Fixpoint split_tlvs (fuel : nat) (bs : bytes) : option (list (Byte.byte * bytes)) :=
  match bs with
  | [] => Some []
  | _ :: _ =>
      match fuel with
      | O => None
      | S f => match dec_tlv bs with
               | None => None
               | Some (t, c, r) => match split_tlvs f r with
                                   | None => None
                                   | Some l => Some ((t, c) :: l)
                                   end
               end
      end
  end.

Definition enc_tlvs (l : list (Byte.byte * bytes)) : bytes := concat (map (fun tc => enc_tlv (fst tc) (snd tc)) l).
Definition tlv_ok (tc : Byte.byte * bytes) : Prop := low_tag (fst tc) = true /\ len (snd tc) < max_len.

Lemma enc_tlv_nonempty t c : enc_tlv t c <> [].
Proof. discriminate. Qed.

Lemma split_enc_tlvs l : Forall tlv_ok l -> forall fuel, (length (enc_tlvs l) <= fuel)%nat ->
  split_tlvs fuel (enc_tlvs l) = Some l.
Proof.
  induction 1 as [|[t c] l [Ht Hc] Hl IH]; intros fuel Hf.
  - destruct fuel; reflexivity.
  - unfold enc_tlvs in *. cbn [map concat fst snd] in *.
    destruct fuel as [|f]. { rewrite app_length in Hf. cbn in Hf. lia. }
    assert (E : enc_tlv t c ++ concat (map (fun tc => enc_tlv (fst tc) (snd tc)) l)
                = t :: (enc_len (len c) ++ c) ++ concat (map (fun tc => enc_tlv (fst tc) (snd tc)) l)) by reflexivity.
    rewrite E. cbn [split_tlvs]. rewrite <- E. rewrite dec_enc_tlv by assumption.
    rewrite IH; [reflexivity|]. rewrite app_length in Hf. cbn [enc_tlv length] in Hf. lia.
Qed.
