// Two certificate issuers for the C03 harness.  The "fork" issuer is harness/pki (the repository's
// own x509.CreateCertificate: every shape the fork can express, e.g. CAs without a subject key id;
// harness/pki re-assembles serial, validity and length fields by hand).  The "std" issuer is the
// standard library's crypto/x509.CreateCertificate: nothing of /repo takes part in producing its
// certificates, so a defect of the fork's encoders cannot be built into the inputs nor into the
// references (the same certificate without poison / SCT list).  Every pair is issued entirely by one of them.
package main

import (
	"crypto/rand"
	stdx509 "crypto/x509"
	stdpkix "crypto/x509/pkix"
	stdasn1 "encoding/asn1"
	"math/big"
	"time"

	"github.com/google/certificate-transparency-go/asn1"
	"github.com/google/certificate-transparency-go/x509"
	"github.com/google/certificate-transparency-go/x509/pkix"

	"verif/harness/pki"
)

type certOpts struct {
	pki.Opts            // CN, KeyKind, KeyIdx, IsCA, NotBefore, NotAfter, EKUs, ExtraExt, SKI, NoBC, Serial, DNSNames
	SelfAKI    []byte   // authority key id of a self-signed certificate
	NoKeyUsage bool     // no keyUsage extension
	NoAKI      bool     // std issuer: no authority key id although the parent has a subject key id
	EKUNames   []string // std issuer: extended key usages by name (ekuOIDs), in this order; overrides EKUs
	// Recrit, when not nil, fixes the critical flag of the extensions it names (dotted object identifier):
	// the certificate is issued a second time by the same issuer with its complete extension list given
	// explicitly, same values, same order, and the flags drawn by the harness instead of the issuer's habits.
	Recrit map[string]bool
	// RawSubject, when not nil, is the DER of the subject name (both issuers copy it into the certificate as
	// it is): the class "names and authority key ids of the pre-issuer" gives a pre-issuer the very octets of
	// its issuer's name, or the same name in another string type.
	RawSubject []byte
}

var stdSerial int64 = 500000

var stdEKU = map[x509.ExtKeyUsage]stdx509.ExtKeyUsage{
	x509.ExtKeyUsageAny: stdx509.ExtKeyUsageAny, x509.ExtKeyUsageServerAuth: stdx509.ExtKeyUsageServerAuth, x509.ExtKeyUsageClientAuth: stdx509.ExtKeyUsageClientAuth,
	x509.ExtKeyUsageCodeSigning: stdx509.ExtKeyUsageCodeSigning, x509.ExtKeyUsageEmailProtection: stdx509.ExtKeyUsageEmailProtection,
	x509.ExtKeyUsageOCSPSigning: stdx509.ExtKeyUsageOCSPSigning,
}

func issue(std bool, o certOpts, parent *pki.Entity) *pki.Entity {
	if o.Recrit != nil {
		return reissue(std, o, parent)
	}
	if !std {
		p := o.Opts
		p.Mutate = func(t *x509.Certificate) {
			if o.SelfAKI != nil {
				t.AuthorityKeyId = o.SelfAKI
			}
			if o.NoKeyUsage {
				t.KeyUsage = 0
			}
			if o.RawSubject != nil {
				t.RawSubject = o.RawSubject
			}
		}
		return pki.Issue(p, parent)
	}
	if o.KeyKind == "" {
		o.KeyKind = "p256"
	}
	key := pki.Key(o.KeyKind, o.KeyIdx)
	sn := o.Serial
	if sn == nil {
		stdSerial++
		sn = big.NewInt(stdSerial)
	}
	if o.NotBefore.IsZero() {
		o.NotBefore = time.Date(2020, 1, 1, 0, 0, 0, 0, time.UTC)
	}
	if o.NotAfter.IsZero() {
		o.NotAfter = time.Date(2040, 1, 1, 0, 0, 0, 0, time.UTC)
	}
	t := &stdx509.Certificate{
		SerialNumber: sn, Subject: stdpkix.Name{CommonName: o.CN, Organization: []string{"verif"}},
		NotBefore: o.NotBefore, NotAfter: o.NotAfter, SubjectKeyId: o.SKI, DNSNames: o.DNSNames, AuthorityKeyId: o.SelfAKI,
	}
	if !o.NoBC {
		t.BasicConstraintsValid, t.IsCA = true, o.IsCA
	}
	if o.RawSubject != nil {
		t.RawSubject = o.RawSubject
	}
	switch {
	case o.NoKeyUsage:
	case o.IsCA:
		t.KeyUsage = stdx509.KeyUsageCertSign | stdx509.KeyUsageCRLSign
	default:
		t.KeyUsage = stdx509.KeyUsageDigitalSignature
	}
	for _, x := range o.ExtraExt {
		t.ExtraExtensions = append(t.ExtraExtensions, stdpkix.Extension{Id: stdasn1.ObjectIdentifier(x.Id), Critical: x.Critical, Value: x.Value})
	}
	if o.EKUNames != nil {
		if len(o.EKUNames) > 0 {
			var content []byte
			for _, n := range o.EKUNames {
				content = append(content, derOID(ekuOIDs[n])...)
			}
			t.ExtraExtensions = append(t.ExtraExtensions, stdpkix.Extension{Id: stdasn1.ObjectIdentifier{2, 5, 29, 37}, Value: tlv(0x30, content)})
		}
	} else {
		for _, u := range o.EKUs {
			su, ok := stdEKU[u]
			if !ok {
				panic("harness: usage not expressible in the standard library's template")
			}
			t.ExtKeyUsage = append(t.ExtKeyUsage, su)
		}
	}
	pc, pk := t, key
	if parent != nil {
		sp, err := stdx509.ParseCertificate(parent.DER)
		if err != nil {
			panic(err)
		}
		if o.NoAKI {
			sp.SubjectKeyId = nil
		}
		pc, pk = sp, parent.Key
	}
	der, err := stdx509.CreateCertificate(rand.Reader, t, pc, key.Public(), pk)
	if err != nil {
		panic(err)
	}
	c, err := x509.ParseCertificate(der)
	if err != nil && x509.IsFatal(err) {
		panic(err)
	}
	return &pki.Entity{Cert: c, DER: der, Key: key}
}

// reissue issues the certificate as the issuer would, reads the extension list off the result (by hand,
// der.go) and issues it again from a template that produces no extension of its own, with that list as
// explicit extensions and the critical flags of o.Recrit.
func reissue(std bool, o certOpts, parent *pki.Entity) *pki.Entity {
	recrit := o.Recrit
	o.Recrit = nil
	first := issue(std, o, parent)
	raw, ok := parseRawTBS(certTBS(first.DER))
	if !ok {
		panic("harness: cannot take the issued certificate apart")
	}
	var all []pkix.Extension
	for _, x := range raw.exts {
		all = append(all, pkix.Extension{Id: asn1.ObjectIdentifier(oidArcs(x.oid)), Critical: len(x.crit) == 3 && x.crit[2] != 0, Value: x.val})
	}
	for k := range all {
		if c, ok := recrit[all[k].Id.String()]; ok {
			all[k].Critical = c
		}
	}
	if o.IsCA {
		panic("harness: explicit extension lists are for end-entity certificates")
	}
	o.EKUs, o.EKUNames, o.UnknownEKU, o.DNSNames, o.SKI, o.AKI, o.SelfAKI = nil, nil, nil, nil, nil, nil, nil
	o.NoBC, o.NoKeyUsage, o.NoAKI = true, true, true
	o.ExtraExt = all
	return issue(std, o, parent)
}
