// The direct property oracle of C02: the property's sentence evaluated over the abstracted
// certificates, written without reference to the Coq model or to the code under test, plus the
// classification of a failing input into a deterministic Note key.
package main

import (
	"bytes"
	"fmt"
	"math/big"
)

func (a absCert) isCA() bool { return a.BCValid && a.IsCA }

func contains(xs []int, x int) bool {
	for _, y := range xs {
		if y == x {
			return true
		}
	}
	return false
}

func issuedBy(u []absCert, child, parent int) bool {
	return u[child].Issuer == u[parent].Subject && contains(u[child].Sigs, parent)
}

// filtersPass: NotAfter window start <= t < limit, expired / unexpired rejection, CA-only,
// required EKU, forbidden extension ids.
func filtersPass(leaf absCert, o opts) (bool, string) {
	t := leaf.NotAfter
	if o.Start != nil && t.Cmp(nsOf(*o.Start)) < 0 {
		return false, "window-early"
	}
	if o.Limit != nil && t.Cmp(nsOf(*o.Limit)) >= 0 {
		return false, "window-late"
	}
	if o.OnlyCA && !leaf.IsCA {
		return false, "not-ca"
	}
	expired := t.Cmp(nsOf(o.Now)) < 0
	if o.RejExpired && expired {
		return false, "expired"
	}
	if o.RejUnexp && !expired {
		return false, "unexpired"
	}
	for _, bad := range o.rejIDs() {
		for _, x := range leaf.Exts {
			if x.ID == bad {
				return false, "forbidden-extension"
			}
		}
	}
	if len(o.EKUs) > 0 {
		found := false
		for _, k := range leaf.EKUs {
			if contains(o.EKUs, k) {
				found = true
			}
		}
		if !found {
			return false, "eku"
		}
	}
	return true, ""
}

// admissible: every submitted byte string is exactly one certificate (strict.go: hand-written
// framing and the Go standard library's parser, which refuses trailing data); each certificate names
// and is validly signed by the next one, which must be a CA; the last one is a trusted root (a trust anchor: no CA bit asked)
// or directly issued by one; all submitted certificates used in the order given, none twice;
// the leaf passes the filters.
func admissible(u []absCert, o opts, chain []int, ents []entry) (bool, string) {
	return admissibleF(u, o, chain, ents, func(leaf absCert) (bool, string) { return filtersPass(leaf, o) })
}

// admissibleF: the same with the verdict on the leaf filters supplied by the caller (config.go
// evaluates them over the written configuration and the standard library's view of the leaf).
func admissibleF(u []absCert, o opts, chain []int, ents []entry, filters func(absCert) (bool, string)) (bool, string) {
	if len(chain) == 0 {
		return false, "empty"
	}
	seen := map[int]bool{}
	for k, i := range chain {
		if !ents[k].one {
			return false, fmt.Sprintf("unparsable at %d/%d (%s)", k, len(chain), ents[k].what)
		}
		if i < 0 {
			// exactly one certificate, yet not one the harness issued: there is no abstraction of it
			panic("harness: a junk entry is a certificate: " + ents[k].what)
		}
		if seen[i] {
			return false, "duplicate"
		}
		seen[i] = true
	}
	if ok, why := filters(u[chain[0]]); !ok {
		return false, "filter:" + why
	}
	n := len(chain) - 1
	for i := 0; i < n; i++ {
		if !issuedBy(u, chain[i], chain[i+1]) {
			if u[chain[i]].Issuer != u[chain[i+1]].Subject {
				return false, fmt.Sprintf("link-name at %d", i)
			}
			return false, fmt.Sprintf("link-signature at %d", i)
		}
	}
	for i := 1; i < n; i++ {
		if !u[chain[i]].isCA() {
			return false, fmt.Sprintf("not-a-ca at %d", i)
		}
	}
	last := chain[n]
	if contains(o.Roots, last) {
		return true, ""
	}
	if n > 0 && !u[last].isCA() {
		return false, fmt.Sprintf("not-a-ca at %d", n)
	}
	for _, r := range o.Roots {
		if !seen[r] && issuedBy(u, last, r) {
			return true, ""
		}
	}
	return false, "no-trusted-issuer"
}

// poisonClass: absent / critical-null / critical-nonnull / noncritical, from the extensions the Go
// standard library reads out of the DER, the value compared with the two octets 05 00 (strict.go).
func poisonClass(a absCert) string { return a.Poison }

// poisonClassAbs: the same over the abstraction given to the Coq model (the fork's parse): the
// fallback of stdPoisonClass.
func poisonClassAbs(a absCert) string {
	for _, x := range a.Exts {
		if x.ID == 0 {
			switch {
			case x.Critical && x.Null:
				return "critical-null"
			case x.Critical:
				return "critical-nonnull"
			default:
				return "noncritical"
			}
		}
	}
	return "absent"
}

// ---- classification of a completeness failure (for the Note key only) ----

func skiMatches(u []absCert, pool []int, aki int) []int {
	var out []int
	if aki < 0 {
		return nil
	}
	for _, p := range pool {
		if u[p].SKI == aki {
			out = append(out, p)
		}
	}
	return out
}

// candidates: the certificates of pool that a key-id-first, name-second lookup offers for child
func candidates(u []absCert, pool []int, child int) []int {
	if m := skiMatches(u, pool, u[child].AKI); len(m) > 0 {
		return m
	}
	var out []int
	for _, p := range pool {
		if u[p].Subject == u[child].Issuer {
			out = append(out, p)
		}
	}
	return out
}

func dedupe(xs []int) []int {
	var out []int
	for _, x := range xs {
		if !contains(out, x) {
			out = append(out, x)
		}
	}
	return out
}

// classifyIncomplete explains why an admissible chain was not accepted.
func classifyIncomplete(u []absCert, o opts, chain []int) string {
	n := len(chain) - 1
	roots := dedupe(o.Roots)
	if contains(roots, chain[0]) && n >= 1 {
		return fmt.Sprintf("trusted-leaf-with-chain: len=%d", len(chain))
	}
	ints := dedupe(chain[1:])
	// the candidate completions: the chain itself (last certificate trusted) or chain + one root
	var finals [][]int
	if contains(roots, chain[n]) {
		finals = append(finals, chain)
	}
	for _, r := range roots {
		if !contains(chain, r) && issuedBy(u, chain[n], r) && (n == 0 || u[chain[n]].isCA()) {
			finals = append(finals, append(append([]int{}, chain...), r))
		}
	}
	shadow := ""
	for _, p := range finals {
		cost, hidden := 0, ""
		for k := 0; k+1 < len(p) && hidden == ""; k++ {
			pool, poolName := ints, "submitted"
			rc := candidates(u, roots, p[k])
			if k+1 == len(p)-1 {
				pool, poolName = roots, "trusted"
			} else {
				for _, c := range rc {
					if !contains(p[:k+1], c) {
						cost++
					}
				}
			}
			cs := candidates(u, pool, p[k])
			if !contains(cs, p[k+1]) {
				who := "other"
				if len(cs) > 0 {
					switch {
					case contains(roots, cs[0]):
						who = "root"
					case contains(chain, cs[0]):
						who = "chain-member"
					}
				}
				hidden = fmt.Sprintf("link=%d pool=%s shadow=%s len=%d", k, poolName, who, len(chain))
				break
			}
			if k+1 == len(p)-1 {
				for _, c := range cs {
					if !contains(p[:k+1], c) {
						cost++
					}
					if c == p[k+1] {
						break
					}
				}
			} else {
				cost++
			}
		}
		if hidden == "" {
			if cost > 100 {
				return fmt.Sprintf("sigcheck-budget: len=%d checks=%d", len(chain), cost)
			}
			return fmt.Sprintf("complete-other: len=%d checks=%d", len(chain), cost)
		}
		if shadow == "" {
			shadow = hidden
		}
	}
	return "aki-shadows-issuer: " + shadow
}

// judgeValidate: the property on one ValidateChain observation.
func judgeValidate(u []absCert, o opts, chain []int, ders [][]byte, res obs, adm bool, why string) (bool, string) {
	switch res.class {
	case "panic":
		if len(chain) == 0 {
			return true, "" // chain[0] on an empty slice; not admitted, and no endpoint passes it on
		}
		return false, "panic: " + why
	case "accepted":
		if !adm {
			return false, "unsound-accept: " + why
		}
		// the path handed on: the submission unchanged and in order, at most one more, trusted end
		p := res.path
		if len(p) < len(chain) || len(p) > len(chain)+1 {
			return false, fmt.Sprintf("path-shape: len=%d submitted=%d", len(p), len(chain))
		}
		for i := range chain {
			if p[i] != chain[i] {
				return false, fmt.Sprintf("path-shape: differs at %d", i)
			}
			// unchanged: the very bytes that were submitted
			if !bytes.Equal(res.raw[i], ders[i]) {
				return false, fmt.Sprintf("path-bytes: differs at %d/%d", i, len(chain))
			}
		}
		if !contains(o.Roots, p[len(p)-1]) {
			return false, "path-shape: end not trusted"
		}
		for i := 0; i+1 < len(p); i++ {
			if !issuedBy(u, p[i], p[i+1]) {
				return false, fmt.Sprintf("path-shape: broken link at %d", i)
			}
		}
		return true, ""
	default:
		if adm {
			return false, classifyIncomplete(u, o, chain)
		}
		return true, ""
	}
}

// expect200: admitted through an endpoint = admissible, the leaf is of the endpoint's kind, and
// (precertificates) the RFC 6962 entry can be formed: an issuer, the issuer's issuer when the
// issuer is a pre-issuer, exactly one poison extension.
func expect200(u []absCert, chain []int, pre bool, adm bool, why string) (bool, string) {
	if !adm {
		return false, why
	}
	leaf := u[chain[0]]
	switch poisonClass(leaf) {
	case "critical-null":
		if !pre {
			return false, "kind: precertificate on add-chain"
		}
	case "absent":
		if pre {
			return false, "kind: certificate on add-pre-chain"
		}
	default:
		return false, "malformed-poison"
	}
	return true, ""
}

func isPreIssuer(a absCert) bool { return contains(a.EKUs, 14) }

func judgeHTTP(u []absCert, o opts, chain []int, pre bool, status int, want200 bool, adm bool, why string, pathWhy string) (bool, string) {
	ep := "add-chain"
	if pre {
		ep = "add-pre-chain"
	}
	if status == 0 {
		return false, "panic: via=" + ep
	}
	got200 := status == 200
	if !got200 && (status < 400 || status > 499) {
		return false, fmt.Sprintf("status-%d: via=%s", status, ep)
	}
	if got200 == want200 {
		if got200 && pathWhy != "" {
			// admitted, but what was handed on is not the submission unchanged and in order
			return false, "path-bytes: via=" + ep + " " + pathWhy
		}
		return true, ""
	}
	if got200 {
		return false, "unsound-accept: via=" + ep + " " + why
	}
	// wanted 200, got 4xx
	if pre {
		// a precertificate whose log entry cannot be formed from the validated path
		n := len(chain)
		if contains(o.Roots, chain[n-1]) && n == 1 {
			return true, "" // a trusted precertificate alone: no issuer to hash
		}
		if n >= 2 && isPreIssuer(u[chain[1]]) && (n == 2 && contains(o.Roots, chain[1])) {
			return true, "" // pre-issuer is the trust anchor: no final issuer
		}
		cnt := 0
		for _, x := range u[chain[0]].Exts {
			if x.ID == 0 {
				cnt++
			}
		}
		if cnt != 1 {
			return true, ""
		}
	}
	return false, classifyIncomplete(u, o, chain) + " via=" + ep
}

var _ = big.NewInt
