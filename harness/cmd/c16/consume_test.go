// C16, the consumers of the Fetcher named by the property: trillian/migrillian/core (Controller:
// fetchTail turns the Fetcher's callback into "stored in the destination tree") and
// trillian/integration (CopyChainGenerator: processBatch turns it into "handed to the caller").
//
// The Fetcher theorems say what reaches the CALLBACK; these two streams state the exactly-once
// sentence on what reaches the DESTINATION:
//   - whenever the consumer reports success for a range (Run returns nil; a later pass starts
//     above an index), every index of that range has been stored, once, with the source's bytes;
//   - a consumer-side failure (a store error that is not retried, a nil reply, an entry that does
//     not convert) while the caller's context is live surfaces as an error - never as success
//     with a gap, never by carrying on;
//   - the caller's cancellation ends the run promptly.
// One case = one call of Controller.Run / RunWhenMaster (or one life of a CopyChainGenerator) in a
// testing/synctest bubble against a scripted source log (HTTP handler behind an in-memory
// RoundTripper: short reads, 429 / 503, growth) and a scripted pre-ordered destination
// (trillian.TrillianLogClient: per-index fates ResourceExhausted / fatal code / nil reply / cancel).
// A "pass" is one fetchTail, recognised by its GetLatestSignedLogRoot call.

package main

import (
	"bytes"
	"context"
	"crypto/sha256"
	"encoding/binary"
	"encoding/json"
	"fmt"
	mrand "math/rand"
	"net/http"
	"net/http/httptest"
	"os"
	"path/filepath"
	"reflect"
	"sort"
	"strconv"
	"strings"
	"sync"
	"testing"
	"testing/synctest"
	"time"
	"unsafe"

	ct "github.com/google/certificate-transparency-go"
	"github.com/google/certificate-transparency-go/client"
	"github.com/google/certificate-transparency-go/jsonclient"
	"github.com/google/certificate-transparency-go/scanner"
	ctfepb "github.com/google/certificate-transparency-go/trillian/ctfe/configpb"
	"github.com/google/certificate-transparency-go/trillian/integration"
	"github.com/google/certificate-transparency-go/trillian/migrillian/configpb"
	"github.com/google/certificate-transparency-go/trillian/migrillian/core"
	"github.com/google/certificate-transparency-go/tls"
	"github.com/google/certificate-transparency-go/x509/pkix"
	"github.com/google/trillian"
	"github.com/google/trillian/monitoring"
	"github.com/google/trillian/types"
	"github.com/google/trillian/util/election2"
	"google.golang.org/grpc"
	"google.golang.org/grpc/codes"
	"google.golang.org/grpc/status"
	"google.golang.org/protobuf/types/known/timestamppb"

	"verif/harness/lib"
	"verif/harness/pki"
)

// ---------------------------------------------------------------- in-memory HTTP

type memTransport struct{ h http.Handler }

func (m memTransport) RoundTrip(req *http.Request) (*http.Response, error) {
	if err := req.Context().Err(); err != nil {
		return nil, err
	}
	rec := httptest.NewRecorder()
	m.h.ServeHTTP(rec, req)
	return rec.Result(), nil
}

type jsonLeaf struct {
	LeafInput []byte `json:"leaf_input"`
	ExtraData []byte `json:"extra_data"`
}

func writeSTH(w http.ResponseWriter, size int64, stamp int64) {
	root := sha256.Sum256([]byte(fmt.Sprint("root", size)))
	json.NewEncoder(w).Encode(map[string]interface{}{"tree_size": size, "timestamp": stamp,
		"sha256_root_hash": root[:], "tree_head_signature": []byte{4, 3, 0, 0}})
}

// ================================================================ migrillian Controller

type mFate struct {
	kind string // "quota" | "fatal" | "nil" | "cancel"
	code codes.Code
}

type mPass struct {
	grow      int64 // entries the source publishes before this pass
	lag       int64 // stored leaves the destination has not integrated yet when it reports its root
	rootErr   bool
	sthErr    bool
	fates     map[int64][]mFate // by index: consumed by the requests that cover the index
	short     map[int64]int64   // get-entries: cap on the entries returned, by start index
	srcErr    map[int64]int     // get-entries: transient 503 / 429 answers, by start index
	cancelGet int               // the caller's context is cancelled during the n-th get-entries of the pass
	used      map[int64]int     // fates consumed so far, by index
}

type mSpec struct {
	ep                                   string // "Run" | "RunWhenMaster"
	batch, fetchers, submitters, chanCap int
	start, end                           int64
	cont                                 bool
	dest0                                int64 // the destination holds (and has integrated) [0, dest0) already
	items                                []int // pool item per source index
	passes                               []*mPass
	tag                                  string
}

type mObs struct {
	ts        int64 // destination tree size reported to the pass
	rootOK    bool
	sth       int64 // source tree size served, -1 = none / error
	reqs      [][2]int64
	sub       []int64 // indices submitted (any reply)
	stored    []int64 // indices stored by this pass
	again     []int64 // indices re-submitted identically (stored before)
	conflicts []int64
	fault     []string // consumer-side failures delivered while the caller's context was live
	cancelled bool
	missing0  int64 // smallest index >= base the destination did not hold when the pass began
	quota     int
	nget      int
	srcErrs   map[int64]int
	bytesBad  []int64
	shape     []string
	delays    []time.Duration
	lastTry   map[int64]time.Time
}

type mSim struct {
	trillian.TrillianLogClient // any other RPC: nil dereference (observed as a panic)
	mu                         sync.Mutex
	sp                         *mSpec
	entries                    []ct.LeafEntry
	published                  int64
	dest                       map[int64]*trillian.LogLeaf
	size                       int64
	base                       int64
	pass                       int
	obs                        []*mObs
	cancel                     context.CancelFunc
	dead                       bool
	tCancel                    time.Time
	stray                      bool
}

func (s *mSim) cur() *mObs {
	if len(s.obs) == 0 {
		s.stray = true
		s.obs = append(s.obs, &mObs{sth: -1, srcErrs: map[int64]int{}, lastTry: map[int64]time.Time{}})
	}
	return s.obs[len(s.obs)-1]
}

func (s *mSim) script() *mPass {
	if s.pass >= 0 && s.pass < len(s.sp.passes) {
		return s.sp.passes[s.pass]
	}
	return &mPass{used: map[int64]int{}}
}

func (s *mSim) kill(o *mObs) {
	if !s.dead {
		s.dead = true
		s.tCancel = time.Now()
	}
	o.cancelled = true
	s.cancel()
}

func (s *mSim) GetLatestSignedLogRoot(ctx context.Context, _ *trillian.GetLatestSignedLogRootRequest, _ ...grpc.CallOption) (*trillian.GetLatestSignedLogRootResponse, error) {
	s.mu.Lock()
	defer s.mu.Unlock()
	s.pass++
	o := &mObs{sth: -1, srcErrs: map[int64]int{}, lastTry: map[int64]time.Time{}}
	s.obs = append(s.obs, o)
	missing := func() {
		if s.pass == 0 && !s.sp.cont { // the configured range starts here; below it nothing is promised
			if s.base = s.sp.start; s.base < 0 {
				s.base = o.ts
			}
		}
		o.missing0 = s.base
		for s.dest[o.missing0] != nil {
			o.missing0++
		}
	}
	if s.pass >= len(s.sp.passes) { // the script is used up: the caller gives up
		o.ts = s.size
		missing()
		s.kill(o)
		return nil, status.Error(codes.Canceled, "context canceled")
	}
	ps := s.sp.passes[s.pass]
	s.published += ps.grow
	if s.published > int64(len(s.entries)) {
		s.published = int64(len(s.entries))
	}
	top := int64(0)
	for s.dest[top] != nil {
		top++
	}
	if top-ps.lag > s.size {
		s.size = top - ps.lag
	}
	o.ts = s.size
	missing()
	if ps.rootErr {
		return nil, status.Error(codes.Unavailable, "scripted")
	}
	h := sha256.Sum256([]byte(fmt.Sprint("dest", s.size)))
	rb, err := (&types.LogRootV1{TreeSize: uint64(s.size), RootHash: h[:], TimestampNanos: 1}).MarshalBinary()
	must(err)
	o.rootOK = true
	return &trillian.GetLatestSignedLogRootResponse{SignedLogRoot: &trillian.SignedLogRoot{LogRoot: rb}}, nil
}

func (s *mSim) AddSequencedLeaves(ctx context.Context, req *trillian.AddSequencedLeavesRequest, _ ...grpc.CallOption) (*trillian.AddSequencedLeavesResponse, error) {
	s.mu.Lock()
	defer s.mu.Unlock()
	o := s.cur()
	if err := ctx.Err(); err != nil { // what a gRPC client does with a dead context
		return nil, status.FromContextError(err).Err()
	}
	ps := s.script()
	start := int64(-1)
	if len(req.Leaves) > 0 && req.Leaves[0] != nil {
		start = req.Leaves[0].LeafIndex
	}
	now := time.Now()
	if t, ok := o.lastTry[start]; ok {
		o.delays = append(o.delays, now.Sub(t))
	}
	o.lastTry[start] = now
	var fate *mFate
	for _, l := range req.Leaves {
		if l == nil {
			continue
		}
		o.sub = append(o.sub, l.LeafIndex)
		if f := ps.fates[l.LeafIndex]; fate == nil && ps.used[l.LeafIndex] < len(f) {
			fate = &f[ps.used[l.LeafIndex]]
			ps.used[l.LeafIndex]++
		}
	}
	live := !s.dead
	if fate != nil {
		switch fate.kind {
		case "quota":
			o.quota++
			return nil, status.Error(codes.ResourceExhausted, "scripted quota")
		case "fatal":
			if live {
				o.fault = append(o.fault, fmt.Sprintf("destination answered %s to the batch at %d", fate.code, start))
			}
			return nil, status.Error(fate.code, "scripted")
		case "nil":
			if live {
				o.fault = append(o.fault, fmt.Sprintf("destination answered (nil, nil) to the batch at %d", start))
			}
			return nil, nil
		case "cancel":
			s.kill(o)
		}
	}
	if len(req.Leaves) == 0 {
		o.shape = append(o.shape, "empty request")
		if live {
			o.fault = append(o.fault, "empty request refused")
		}
		return nil, status.Error(codes.InvalidArgument, "no leaves")
	}
	for i, l := range req.Leaves {
		if l == nil || l.LeafIndex != start+int64(i) {
			o.shape = append(o.shape, fmt.Sprintf("request at %d is not contiguous", start))
			if live {
				o.fault = append(o.fault, "non-contiguous request refused")
			}
			return nil, status.Error(codes.FailedPrecondition, "not contiguous")
		}
	}
	rsp := &trillian.AddSequencedLeavesResponse{}
	for _, l := range req.Leaves {
		i := l.LeafIndex
		c := codes.OK
		// reference: the destination mirrors the source entry at that index; identity = SHA-256 of the little-endian index
		var le [8]byte
		binary.LittleEndian.PutUint64(le[:], uint64(i))
		id := sha256.Sum256(le[:])
		if i < 0 || i >= int64(len(s.entries)) || !bytes.Equal(l.LeafValue, s.entries[i].LeafInput) ||
			!bytes.Equal(l.ExtraData, s.entries[i].ExtraData) || !bytes.Equal(l.LeafIdentityHash, id[:]) {
			o.bytesBad = append(o.bytesBad, i)
		}
		switch old := s.dest[i]; {
		case old == nil:
			s.dest[i] = &trillian.LogLeaf{LeafIndex: i, LeafValue: append([]byte{}, l.LeafValue...), ExtraData: append([]byte{}, l.ExtraData...)}
			o.stored = append(o.stored, i)
		case bytes.Equal(old.LeafValue, l.LeafValue) && bytes.Equal(old.ExtraData, l.ExtraData):
			c = codes.AlreadyExists
			o.again = append(o.again, i)
		default:
			c = codes.FailedPrecondition
			o.conflicts = append(o.conflicts, i)
		}
		rsp.Results = append(rsp.Results, &trillian.QueuedLogLeaf{Leaf: l, Status: status.New(c, "").Proto()})
	}
	return rsp, nil
}

func (s *mSim) ServeHTTP(w http.ResponseWriter, r *http.Request) {
	s.mu.Lock()
	defer s.mu.Unlock()
	o := s.cur()
	ps := s.script()
	q := r.URL.Query()
	switch {
	case strings.HasSuffix(r.URL.Path, "/ct/v1/get-sth"):
		if ps.sthErr {
			http.Error(w, "scripted", 500)
			return
		}
		o.sth = s.published
		writeSTH(w, s.published, int64(1000+s.pass))
	case strings.HasSuffix(r.URL.Path, "/ct/v1/get-entries"):
		start, e1 := strconv.ParseInt(q.Get("start"), 10, 64)
		end, e2 := strconv.ParseInt(q.Get("end"), 10, 64)
		if e1 != nil || e2 != nil {
			http.Error(w, "bad parameters", 400)
			return
		}
		o.reqs = append(o.reqs, [2]int64{start, end})
		o.nget++
		if len(o.reqs) > 4000 {
			s.kill(o) // a request storm: stop the case
			http.Error(w, "storm", 400)
			return
		}
		if ps.cancelGet == o.nget {
			s.kill(o)
		}
		if o.srcErrs[start] < ps.srcErr[start] {
			o.srcErrs[start]++
			if o.srcErrs[start]%2 == 1 {
				http.Error(w, "scripted", 503)
			} else {
				http.Error(w, "slow down", 429)
			}
			return
		}
		k := end - start + 1
		if v, ok := ps.short[start]; ok && v < k {
			k = v
		}
		if rem := s.published - start; rem < k {
			k = rem
		}
		if start < 0 || k <= 0 {
			http.Error(w, "out of range", 400)
			return
		}
		var es []jsonLeaf
		for i := start; i < start+k; i++ {
			if pool[s.sp.items[i]].class == "bad" && !s.dead {
				o.fault = append(o.fault, fmt.Sprintf("source entry %d does not convert to a leaf", i))
			}
			es = append(es, jsonLeaf{s.entries[i].LeafInput, s.entries[i].ExtraData})
		}
		json.NewEncoder(w).Encode(map[string]interface{}{"entries": es})
	default:
		http.Error(w, "unknown path", 404)
	}
}

type mResult struct {
	sim     *mSim
	final   string // "nil" | "err" | "panic" | "hang"
	detail  string
	tReturn time.Time
}

func runMigrate(t *testing.T, sp *mSpec) *mResult {
	s := &mSim{sp: sp, dest: map[int64]*trillian.LogLeaf{}, pass: -1, size: sp.dest0}
	for _, it := range sp.items {
		s.entries = append(s.entries, pool[it].leaf)
	}
	for i := int64(0); i < sp.dest0; i++ {
		s.dest[i] = &trillian.LogLeaf{LeafIndex: i, LeafValue: s.entries[i].LeafInput, ExtraData: s.entries[i].ExtraData}
	}
	res := &mResult{sim: s}
	type fin struct {
		final, detail string
		at            time.Time
	}
	run := func(t *testing.T) {
		ctx, cancel := context.WithCancel(context.Background())
		s.cancel = cancel
		ctc, err := client.New("http://source.test/log", &http.Client{Transport: memTransport{s}}, jsonclient.Options{})
		must(err)
		plc, err := core.NewPreorderedLogClient(s, &trillian.Tree{TreeId: 16, TreeType: trillian.TreeType_PREORDERED_LOG},
			configpb.IdentityFunction_SHA256_LEAF_INDEX, "c16")
		must(err)
		opts := core.Options{
			FetcherOptions: scanner.FetcherOptions{BatchSize: sp.batch, ParallelFetch: sp.fetchers,
				StartIndex: sp.start, EndIndex: sp.end, Continuous: sp.cont},
			Submitters: sp.submitters, ChannelSize: sp.chanCap, NoConsistencyCheck: true,
		}
		ctrl := core.NewController(opts, ctc, plc, election2.NoopFactory{}, monitoring.InertMetricFactory{})
		done := make(chan fin, 1)
		go func() {
			defer func() {
				if r := recover(); r != nil {
					done <- fin{"panic", fmt.Sprint(r), time.Now()}
				}
			}()
			var err error
			if sp.ep == "Run" {
				err = ctrl.Run(ctx)
			} else {
				err = ctrl.RunWhenMaster(ctx)
			}
			if err != nil {
				done <- fin{"err", err.Error(), time.Now()}
			} else {
				done <- fin{"nil", "", time.Now()}
			}
		}()
		select {
		case f := <-done:
			res.final, res.detail, res.tReturn = f.final, f.detail, f.at
		case <-time.After(500 * time.Hour):
			res.final = "hang"
		}
		cancel()
		time.Sleep(3 * time.Hour) // outlive abandoned back-off timers and goroutines
	}
	func() {
		defer func() {
			if r := recover(); r != nil { // synctest: goroutines that never finish
				res.final, res.detail = "hang", fmt.Sprint(r)
			}
		}()
		synctest.Test(t, run)
	}()
	return res
}

// the configured range as the documentation of Options / FetcherOptions gives it (reference, by hand)
func mRange(sp *mSpec, ts, n int64) (int64, int64) {
	if sp.cont {
		return ts, n
	}
	lo, hi := sp.start, sp.end
	if lo < 0 {
		lo = ts
	}
	if hi == 0 || hi > n {
		hi = n
	}
	return lo, hi
}

func sortedCopy(v []int64) []int64 {
	out := append([]int64{}, v...)
	sort.Slice(out, func(i, j int) bool { return out[i] < out[j] })
	return out
}

func emitMigrate(w *lib.Writer, sp *mSpec, res *mResult) {
	s := res.sim
	ok, note := true, ""
	fail := func(f string, a ...interface{}) {
		if ok {
			ok = false
			note = fmt.Sprintf("migrate %s %s batch=%d fetchers=%d submitters=%d chan=%d start=%d end=%d cont=%v dest0=%d: ",
				sp.tag, sp.ep, sp.batch, sp.fetchers, sp.submitters, sp.chanCap, sp.start, sp.end, sp.cont, sp.dest0) + fmt.Sprintf(f, a...)
		}
	}
	// ---- direct oracle: the run's own claims against what the destination holds
	switch res.final {
	case "panic":
		fail("panic: %s", res.detail)
	case "hang":
		fail("does not terminate")
	}
	if s.stray {
		fail("traffic before the destination's root was read")
	}
	anyFault, disturbed := false, false
	everStored := map[int64]int{} // index -> pass that stored it
	for k, o := range s.obs {
		seen := map[int64]bool{}
		for _, i := range o.stored {
			if seen[i] {
				fail("pass %d stores index %d twice", k, i)
			}
			seen[i] = true
			if p, dup := everStored[i]; dup {
				fail("index %d stored by pass %d and again by pass %d", i, p, k)
			}
			everStored[i] = k
		}
		for _, i := range o.again {
			// a repeat is legitimate only after a disturbed pass made the controller start over from the destination's size
			if p, was := everStored[i]; was && p == k {
				fail("pass %d submits index %d again after it was stored", k, i)
			} else if was && !disturbed {
				fail("pass %d repeats index %d although nothing went wrong since pass %d stored it", k, i, p)
			}
		}
		if len(o.conflicts) > 0 {
			fail("pass %d submits other bytes for index %d than the destination holds", k, o.conflicts[0])
		}
		if len(o.bytesBad) > 0 {
			fail("index %d submitted with other bytes / identity than the source entry at that index", o.bytesBad[0])
		}
		if len(o.shape) > 0 {
			fail("%s", o.shape[0])
		}
		// an undisturbed pass that asks for anything claims that everything below is there
		low := int64(-1)
		for _, r := range o.reqs {
			if low < 0 || r[0] < low {
				low = r[0]
			}
		}
		for _, i := range o.sub {
			if low < 0 || i < low {
				low = i
			}
		}
		// (a disturbed pass may never get to ask for its lowest range: the fetch workers run in parallel)
		if low > o.missing0 && len(o.fault) == 0 && !o.cancelled {
			fail("pass %d starts at index %d but index %d never reached the destination (gap)", k, low, o.missing0)
		}
		if o.sth >= 0 {
			lo, hi := mRange(sp, o.ts, o.sth)
			for _, i := range o.sub {
				if i >= hi || i < lo {
					fail("pass %d submits index %d outside the range [%d, %d)", k, i, lo, hi)
					break
				}
			}
		}
		// ... and one that completes (another pass follows) claims its whole tail
		if sp.cont && k+1 < len(s.obs) && o.rootOK && o.sth >= 0 && len(o.fault) == 0 && !o.cancelled && s.obs[k+1].missing0 < o.sth {
			fail("pass %d ends undisturbed at tree size %d but index %d never reached the destination (gap)", k, o.sth, s.obs[k+1].missing0)
		}
		if anyFault && sp.ep == "Run" {
			fail("pass %d: Run carries on after a store failure that happened while its context was live", k)
		}
		for _, d := range o.delays {
			if d < 500*time.Millisecond {
				fail("pass %d re-submits a refused batch after %v (no back-off)", k, d)
			}
		}
		if len(o.fault) > 0 {
			anyFault = true
		}
		if len(o.fault) > 0 || o.cancelled || !o.rootOK || o.sth < 0 {
			disturbed = true
		}
	}
	if res.final == "nil" {
		// success reported: the whole range must be there
		var lo, hi int64 = 0, 0
		for _, o := range s.obs {
			if o.sth >= 0 {
				l, h := mRange(sp, o.ts, o.sth)
				if sp.cont {
					l = 0
				}
				lo = l
				if h > hi {
					hi = h
				}
				if !sp.cont {
					break
				}
			}
		}
		for i := lo; i < hi; i++ {
			if s.dest[i] == nil {
				fail("reports success for [%d, %d) but index %d never reached the destination", lo, hi, i)
				break
			}
		}
		for _, o := range s.obs {
			if len(o.fault) > 0 {
				fail("reports success although %s while the context was live", o.fault[0])
			}
		}
		if sp.cont {
			fail("continuous migration returned nil by itself")
		}
	}
	if s.dead && (res.final == "nil" || res.final == "err") {
		if d := res.tReturn.Sub(s.tCancel); d > time.Second {
			fail("returns %v after the caller's cancellation", d)
		}
	}
	if res.final == "err" && !s.dead && !disturbed {
		fail("returned an error although nothing failed and nobody cancelled: %s", res.detail)
	}
	// ---- case term
	var ps, js []string
	for _, o := range s.obs {
		var reqs []string
		rq := append([][2]int64{}, o.reqs...)
		sort.Slice(rq, func(i, j int) bool { return rq[i][0] < rq[j][0] || rq[i][0] == rq[j][0] && rq[i][1] < rq[j][1] })
		if len(rq) > 60 {
			rq = rq[:60]
		}
		for _, r := range rq {
			reqs = append(reqs, lib.Pair(lib.Z(r[0]), lib.Z(r[1])))
		}
		sth := "None"
		if o.sth >= 0 {
			sth = lib.Some(lib.Z(o.sth))
		}
		ps = append(ps, fmt.Sprintf("MkPass %s %s %s %s %s %s %s", lib.Z(o.ts), lib.Bool(o.rootOK), sth, lib.List(reqs),
			zlist(sortedCopy(append(append([]int64{}, o.stored...), o.again...))), lib.Bool(len(o.fault) > 0), lib.Bool(o.cancelled)))
		js = append(js, fmt.Sprintf("ts=%d root=%v sth=%d requests=%d stored=%v again=%v faults=%v cancelled=%v quota=%d",
			o.ts, o.rootOK, o.sth, len(o.reqs), sortedCopy(o.stored), sortedCopy(o.again), o.fault, o.cancelled, o.quota))
	}
	ret := "None"
	switch res.final {
	case "nil":
		ret = "(Some true)"
	case "err":
		ret = "(Some false)"
	}
	coq := fmt.Sprintf("CMigrate %s %s %s %s %s %s %s", lib.Z(sp.start), lib.Z(sp.end), lib.Bool(sp.cont),
		lib.Bool(sp.ep == "RunWhenMaster"), lib.Z(sp.dest0), lib.List(ps), ret)
	var script []string
	for k, p := range sp.passes {
		var f []string
		for i, fs := range p.fates {
			for _, x := range fs {
				f = append(f, fmt.Sprintf("%d:%s/%d", i, x.kind, x.code))
			}
		}
		sort.Strings(f)
		script = append(script, fmt.Sprintf("pass %d: grow=%d lag=%d rootErr=%v sthErr=%v fates=%v short=%d srcErr=%d cancelAtGet=%d",
			k, p.grow, p.lag, p.rootErr, p.sthErr, f, len(p.short), len(p.srcErr), p.cancelGet))
	}
	in := map[string]interface{}{"kind": "migrate:" + sp.tag, "entry_point": sp.ep, "batch": sp.batch, "fetchers": sp.fetchers,
		"submitters": sp.submitters, "channel": sp.chanCap, "start": sp.start, "end": sp.end, "continuous": sp.cont,
		"destination_holds": sp.dest0, "source_entries": len(sp.items), "passes": script}
	tags := []string{"mode:migrate", "migrate:" + sp.tag, "migrate:" + sp.ep, fmt.Sprintf("submitters:%d", sp.submitters)}
	if sp.cont {
		tags = append(tags, "migrate:continuous")
	}
	for _, o := range s.obs {
		if len(o.fault) > 0 {
			tags = append(tags, "migrate:store-failure-live")
			break
		}
	}
	if s.dead {
		tags = append(tags, "migrate:cancelled")
	}
	sort.Strings(tags)
	w.Add(lib.Case{Coq: coq, Input: in, Impl: map[string]interface{}{"returned": res.final, "passes": js},
		PropOK: ok, Note: note, Tags: tags, Trivial: len(s.obs) == 0})
}

// ---------------------------------------------------------------- migrate generators

var fatalCodes = []codes.Code{codes.Internal, codes.Unavailable, codes.Unknown, codes.DeadlineExceeded, codes.FailedPrecondition,
	codes.PermissionDenied, codes.InvalidArgument, codes.Aborted, codes.NotFound, codes.DataLoss}

// good / bad pool items for the migration (bad = does not convert to a leaf)
func mItem(r *mrand.Rand) int { return r.Intn(16) }

func genMigrate(r *mrand.Rand) *mSpec {
	sp := &mSpec{ep: "Run"}
	if r.Intn(3) == 0 {
		sp.ep = "RunWhenMaster"
	}
	sp.batch = pick(r, 1, 2, 3, 4, 5, 8, 16, 1000)
	sp.fetchers = pick(r, 1, 1, 2, 3)
	sp.submitters = pick(r, 1, 1, 2, 3)
	sp.chanCap = pick(r, 0, 0, 1, 4)
	sp.cont = r.Intn(2) == 0
	n0 := int64(pick(r, 0, 1, 2, 5, 9, 12, 17, 24, 30, 41))
	npass := 1
	if sp.cont {
		npass = 1 + r.Intn(4)
	}
	for k := 0; k < npass; k++ {
		p := &mPass{fates: map[int64][]mFate{}, short: map[int64]int64{}, srcErr: map[int64]int{}, used: map[int64]int{}}
		if k == 0 {
			p.grow = n0
		} else if r.Intn(4) != 0 {
			p.grow = int64(1 + r.Intn(2*sp.batch%40+6))
		}
		sp.passes = append(sp.passes, p)
	}
	total := int64(0)
	for _, p := range sp.passes {
		total += p.grow
	}
	for i := int64(0); i < total; i++ {
		sp.items = append(sp.items, mItem(r))
	}
	if n0 > 0 && r.Intn(3) == 0 {
		sp.dest0 = r.Int63n(n0 + 1)
	}
	if !sp.cont {
		switch r.Intn(5) {
		case 0:
			sp.start = -1
		case 1:
			sp.start = r.Int63n(n0 + 2)
		}
		switch r.Intn(5) {
		case 0:
			sp.end = r.Int63n(n0 + 1)
		case 1:
			sp.end = n0 + int64(r.Intn(5))
		}
	}
	// transient conditions that must not matter
	pub := int64(0)
	for _, p := range sp.passes {
		pub += p.grow
		for i := int64(0); i < pub; i++ {
			if r.Intn(6) == 0 {
				p.short[i] = int64(1 + r.Intn(sp.batch%9+1))
			}
			if r.Intn(12) == 0 {
				p.srcErr[i] = 1 + r.Intn(2)
			}
			if r.Intn(10) == 0 {
				for n := 1 + r.Intn(2); n > 0; n-- {
					p.fates[i] = append(p.fates[i], mFate{kind: "quota"})
				}
			}
		}
		if r.Intn(4) == 0 {
			p.lag = int64(r.Intn(4))
		}
	}
	// one disturbance class per case
	target := sp.passes[r.Intn(len(sp.passes))]
	tpub := int64(0)
	for _, p := range sp.passes {
		tpub += p.grow
		if p == target {
			break
		}
	}
	at := int64(0)
	if tpub > 0 {
		at = r.Int63n(tpub)
	}
	switch c := r.Intn(20); {
	case c < 5:
		sp.tag = "clean"
	case c < 11:
		sp.tag = "store-fatal"
		target.fates[at] = append(target.fates[at], mFate{kind: "fatal", code: fatalCodes[r.Intn(len(fatalCodes))]})
	case c < 13:
		sp.tag = "store-nil-reply"
		target.fates[at] = append(target.fates[at], mFate{kind: "nil"})
	case c < 15:
		sp.tag = "entry-does-not-convert"
		if tpub > 0 {
			sp.items[at] = 16 + r.Intn(2)
		}
	case c < 17:
		sp.tag = "cancel-at-store"
		target.fates[at] = append(target.fates[at], mFate{kind: "cancel"})
	case c < 18:
		sp.tag = "cancel-at-fetch"
		target.cancelGet = 1 + r.Intn(4)
	case c < 19:
		sp.tag = "root-error"
		target.rootErr = true
	default:
		sp.tag = "sth-error"
		target.sthErr = true
	}
	return sp
}

func fixedMigrate() []*mSpec {
	var out []*mSpec
	mk := func(tag, ep string, cont bool, batch, fetchers, submitters int, grows ...int64) *mSpec {
		sp := &mSpec{tag: tag, ep: ep, cont: cont, batch: batch, fetchers: fetchers, submitters: submitters}
		for _, g := range grows {
			sp.passes = append(sp.passes, &mPass{grow: g, fates: map[int64][]mFate{}, short: map[int64]int64{}, srcErr: map[int64]int{}, used: map[int64]int{}})
			for ; g > 0; g-- {
				sp.items = append(sp.items, len(sp.items)%14)
			}
		}
		out = append(out, sp)
		return sp
	}
	mk("clean", "Run", false, 3, 2, 2, 10)
	sp := mk("clean", "Run", false, 4, 1, 1, 12)
	sp.start, sp.end = 2, 9
	sp = mk("clean", "Run", false, 4, 1, 1, 12)
	sp.start, sp.dest0 = -1, 5
	mk("clean", "Run", true, 3, 2, 2, 10, 4, 0, 7)
	// a store failure in the middle of the tail, the caller's context alive
	for _, ep := range []string{"Run", "RunWhenMaster"} {
		for _, cont := range []bool{false, true} {
			for _, subm := range []int{1, 2} {
				sp = mk("store-fatal", ep, cont, 2, 1, subm, 10, 6, 3)
				if !cont {
					sp.passes = sp.passes[:1]
					sp.items = sp.items[:10]
				}
				sp.passes[0].fates[4] = []mFate{{kind: "fatal", code: codes.Internal}}
			}
		}
	}
	sp = mk("store-nil-reply", "Run", false, 5, 2, 1, 11)
	sp.passes[0].fates[5] = []mFate{{kind: "nil"}}
	sp = mk("entry-does-not-convert", "Run", false, 2, 1, 1, 9)
	sp.items[3] = 16
	sp = mk("entry-does-not-convert", "Run", true, 2, 1, 2, 9, 5)
	sp.items[4] = 17
	sp = mk("clean", "Run", false, 3, 1, 1, 9) // quota refusals are retried, with back-off
	sp.passes[0].fates[3] = []mFate{{kind: "quota"}, {kind: "quota"}, {kind: "quota"}}
	sp = mk("cancel-at-store", "Run", false, 2, 2, 2, 12)
	sp.passes[0].fates[6] = []mFate{{kind: "cancel"}}
	sp = mk("cancel-at-fetch", "Run", true, 2, 2, 2, 12, 5)
	sp.passes[1].cancelGet = 2
	return out
}

// ================================================================ integration.CopyChainGenerator

type cItem struct {
	class    string // "x509" | "pre" | "x509-unparsable" | "x509-root-alone" | "bad"
	rootOK   bool   // chains to a root the target accepts
	notAfter time.Time
	leaf     ct.LeafEntry
	chain    [][]byte // what CertChain / PreCertChain must hand out
	defect   string   // the leaf parses with this complaint of the parser, which is not fatal ("" = none); nonfatal_test.go
}

var (
	cpool     []cItem
	crootsPEM []byte
	crootsDER [][]byte
)

func buildCopyPool() {
	rootA := pki.Issue(pki.Opts{CN: "c16 accepted root", IsCA: true}, nil)
	rootB := pki.Issue(pki.Opts{CN: "c16 source-only root", IsCA: true, KeyIdx: 1}, nil)
	crootsPEM = pki.PEM(rootA)
	crootsDER = [][]byte{rootA.DER, rootB.DER}
	ts := uint64(5000)
	for i := 0; i < 10; i++ {
		root := rootA
		if i%4 == 3 {
			root = rootB
		}
		na := time.Date(2030+i, 1, 1, 0, 0, 0, 0, time.UTC) // on a window boundary: NotAfterStart is inclusive, NotAfterLimit exclusive
		if i%3 == 2 {
			na = na.Add(-time.Second)
		}
		c := pki.Issue(pki.Opts{CN: fmt.Sprintf("copy%d.example", i), NotAfter: na}, root)
		chain, err := tls.Marshal(ct.CertificateChain{Entries: []ct.ASN1Cert{{Data: root.DER}}})
		must(err)
		li, err := tls.Marshal(*ct.CreateX509MerkleTreeLeaf(ct.ASN1Cert{Data: c.DER}, ts))
		must(err)
		ts++
		cpool = append(cpool, cItem{class: "x509", rootOK: root == rootA, notAfter: na, leaf: ct.LeafEntry{LeafInput: li, ExtraData: chain},
			chain: [][]byte{c.DER, root.DER}})
	}
	for i := 0; i < 8; i++ {
		root := rootA
		if i%4 == 1 {
			root = rootB
		}
		na := time.Date(2031+i, 1, 1, 0, 0, 0, 0, time.UTC)
		if i%3 == 1 {
			na = na.Add(time.Second)
		}
		pre := pki.Issue(pki.Opts{CN: fmt.Sprintf("copypre%d.example", i), NotAfter: na, ExtraExt: []pkix.Extension{pki.PoisonExt()}}, root)
		leaf := ct.MerkleTreeLeaf{Version: ct.V1, LeafType: ct.TimestampedEntryLeafType,
			TimestampedEntry: &ct.TimestampedEntry{Timestamp: ts, EntryType: ct.PrecertLogEntryType,
				PrecertEntry: &ct.PreCert{IssuerKeyHash: sha256.Sum256(root.Cert.RawSubjectPublicKeyInfo), TBSCertificate: pre.Cert.RawTBSCertificate}}}
		ts++
		li, err := tls.Marshal(leaf)
		must(err)
		extra, err := tls.Marshal(ct.PrecertChainEntry{PreCertificate: ct.ASN1Cert{Data: pre.DER}, CertificateChain: []ct.ASN1Cert{{Data: root.DER}}})
		must(err)
		cpool = append(cpool, cItem{class: "pre", rootOK: root == rootA, notAfter: na, leaf: ct.LeafEntry{LeafInput: li, ExtraData: extra},
			chain: [][]byte{pre.DER, root.DER}})
	}
	{ // a leaf that is not a certificate, under an accepted root: copied unless NotAfter bounds force a parse
		der := []byte{0x30, 0x03, 0x01, 0x02, 0x07}
		chain, err := tls.Marshal(ct.CertificateChain{Entries: []ct.ASN1Cert{{Data: rootA.DER}}})
		must(err)
		li, err := tls.Marshal(*ct.CreateX509MerkleTreeLeaf(ct.ASN1Cert{Data: der}, ts))
		must(err)
		cpool = append(cpool, cItem{class: "x509-unparsable", rootOK: true, leaf: ct.LeafEntry{LeafInput: li, ExtraData: chain}, chain: [][]byte{der, rootA.DER}})
	}
	for _, root := range []*pki.Entity{rootA, rootB} { // a trusted root logged on its own: the chain after it is empty, it is its own root
		chain, err := tls.Marshal(ct.CertificateChain{})
		must(err)
		li, err := tls.Marshal(*ct.CreateX509MerkleTreeLeaf(ct.ASN1Cert{Data: root.DER}, ts))
		must(err)
		ts++
		cpool = append(cpool, cItem{class: "x509-root-alone", rootOK: root == rootA, notAfter: root.Cert.NotAfter, leaf: ct.LeafEntry{LeafInput: li, ExtraData: chain},
			chain: [][]byte{root.DER}})
	}
	cpool = append(cpool, cItem{class: "bad", leaf: ct.LeafEntry{LeafInput: []byte{0xff, 0x00, 0x01}, ExtraData: cpool[0].leaf.ExtraData}})
	buildCopyPoolNF(rootA, rootB) // leaves with a tolerable defect: drawn by genCopyNF only
}

type cSpec struct {
	start          int64
	batch, workers int
	buf            int
	sizes          []int64 // published tree size, one step every 40 s of virtual time
	items          []int
	naStart        int // year, 0 = none
	naLimit        int
	short          map[int64]int64
	srcErr         map[int64]int
	lateCert       time.Duration // the caller asks for its first certificate / precertificate chain this late
	latePre        time.Duration
	tag            string
}

type cSim struct {
	mu      sync.Mutex
	sp      *cSpec
	t0      time.Time
	srcErrs map[int64]int
	reqs    int
}

func (s *cSim) published() int64 {
	k := int(time.Since(s.t0) / (40 * time.Second))
	if k >= len(s.sp.sizes) {
		k = len(s.sp.sizes) - 1
	}
	return s.sp.sizes[k]
}

func (s *cSim) ServeHTTP(w http.ResponseWriter, r *http.Request) {
	s.mu.Lock()
	defer s.mu.Unlock()
	q := r.URL.Query()
	switch {
	case strings.HasSuffix(r.URL.Path, "/ct/v1/get-roots"):
		json.NewEncoder(w).Encode(map[string]interface{}{"certificates": crootsDER})
	case strings.HasSuffix(r.URL.Path, "/ct/v1/get-sth"):
		writeSTH(w, s.published(), 1000)
	case strings.HasSuffix(r.URL.Path, "/ct/v1/get-entries"):
		start, e1 := strconv.ParseInt(q.Get("start"), 10, 64)
		end, e2 := strconv.ParseInt(q.Get("end"), 10, 64)
		if e1 != nil || e2 != nil {
			http.Error(w, "bad parameters", 400)
			return
		}
		s.reqs++
		// the two fetchers (certificates, precertificates) share the log: each start index fails for both
		if s.srcErrs[start] < 2*s.sp.srcErr[start] {
			s.srcErrs[start]++
			http.Error(w, "slow down", 429)
			return
		}
		k := end - start + 1
		if v, ok := s.sp.short[start]; ok && v < k {
			k = v
		}
		if rem := s.published() - start; rem < k {
			k = rem
		}
		if start < 0 || k <= 0 {
			http.Error(w, "out of range", 400)
			return
		}
		var es []jsonLeaf
		for i := start; i < start+k; i++ {
			e := cpool[s.sp.items[i]].leaf
			es = append(es, jsonLeaf{e.LeafInput, e.ExtraData})
		}
		json.NewEncoder(w).Encode(map[string]interface{}{"entries": es})
	default:
		http.Error(w, "unknown path", 404)
	}
}

type cResult struct {
	final     string // "ok" | "new-error" | "panic" | "hang"
	detail    string
	certs     [][][]byte
	precerts  [][][]byte
	tbsErrs   int
	leftCert  int
	leftPre   int
	published int64
}

func chanOf(g *integration.CopyChainGenerator, name string) chan []ct.ASN1Cert {
	f := reflect.ValueOf(g).Elem().FieldByName(name)
	return *(*chan []ct.ASN1Cert)(unsafe.Pointer(f.UnsafeAddr()))
}

func runCopy(t *testing.T, sp *cSpec, rootsFile string) *cResult {
	res := &cResult{}
	s := &cSim{sp: sp, srcErrs: map[int64]int{}}
	run := func(t *testing.T) {
		s.t0 = time.Now()
		ctx, cancel := context.WithCancel(context.Background())
		defer cancel()
		ctc, err := client.New("http://source.test/log", &http.Client{Transport: memTransport{s}}, jsonclient.Options{})
		must(err)
		cfg := &ctfepb.LogConfig{Prefix: "c16", RootsPemFile: []string{rootsFile}}
		if sp.naStart != 0 {
			cfg.NotAfterStart = timestamppb.New(time.Date(sp.naStart, 1, 1, 0, 0, 0, 0, time.UTC))
		}
		if sp.naLimit != 0 {
			cfg.NotAfterLimit = timestamppb.New(time.Date(sp.naLimit, 1, 1, 0, 0, 0, 0, time.UTC))
		}
		gen, err := integration.NewCopyChainGeneratorFromOpts(ctx, ctc, cfg,
			integration.CopyChainOptions{StartIndex: sp.start, BufSize: sp.buf, BatchSize: sp.batch, ParallelFetch: sp.workers})
		if err != nil {
			res.final, res.detail = "new-error", err.Error()
			return
		}
		g := gen.(*integration.CopyChainGenerator)
		var mu sync.Mutex
		var wg sync.WaitGroup
		wg.Add(2)
		go func() { // the consumers: the public entry points, until an empty chain says "no more"
			defer wg.Done()
			time.Sleep(sp.lateCert)
			for {
				c, err := gen.CertChain()
				if err != nil {
					return
				}
				var ch [][]byte
				for _, x := range c {
					ch = append(ch, x.Data)
				}
				mu.Lock()
				res.certs = append(res.certs, ch)
				mu.Unlock()
			}
		}()
		go func() {
			defer wg.Done()
			time.Sleep(sp.latePre)
			for {
				c, _, err := gen.PreCertChain()
				if err != nil && c == nil {
					if strings.Contains(err.Error(), "no precerts available") {
						return
					}
					mu.Lock()
					res.tbsErrs++
					mu.Unlock()
					continue
				}
				var ch [][]byte
				for _, x := range c {
					ch = append(ch, x.Data)
				}
				mu.Lock()
				res.precerts = append(res.precerts, ch)
				mu.Unlock()
			}
		}()
		// let the log publish everything, then give the continuous fetchers time to catch up
		time.Sleep(time.Duration(len(sp.sizes))*40*time.Second + sp.lateCert + sp.latePre + 10*time.Minute)
		synctest.Wait()
		s.mu.Lock()
		res.published = s.published()
		s.mu.Unlock()
		cancel()
		time.Sleep(10 * time.Minute)
		synctest.Wait()
		cc, pc := chanOf(g, "certs"), chanOf(g, "precerts")
		res.leftCert, res.leftPre = len(cc), len(pc)
		cc <- nil // "no certs available": the consumers leave
		pc <- nil
		wg.Wait()
		res.final = "ok"
	}
	func() {
		defer func() {
			if r := recover(); r != nil {
				res.final, res.detail = "hang", fmt.Sprint(r)
			}
		}()
		synctest.Test(t, run)
	}()
	return res
}

// what the documentation of CopyChainGenerator promises for one entry (reference)
func copySelected(sp *cSpec, it cItem, kind string) bool {
	if it.class == "bad" || !it.rootOK {
		return false
	}
	if kind == "cert" && it.class == "pre" || kind == "precert" && it.class != "pre" {
		return false
	}
	if sp.naStart == 0 && sp.naLimit == 0 {
		return true
	}
	if it.class == "x509-unparsable" {
		return false
	}
	if sp.naStart != 0 && it.notAfter.Before(time.Date(sp.naStart, 1, 1, 0, 0, 0, 0, time.UTC)) {
		return false
	}
	if sp.naLimit != 0 && !it.notAfter.Before(time.Date(sp.naLimit, 1, 1, 0, 0, 0, 0, time.UTC)) {
		return false
	}
	return true
}

// isTailMissing: what was handed out is exactly what is selected below one of the announced tree sizes
func isTailMissing(sp *cSpec, kind string, got []int64) bool {
	for _, n := range sp.sizes[:len(sp.sizes)-1] {
		var want []int64
		for i := sp.start; i < n; i++ {
			if copySelected(sp, cpool[sp.items[i]], kind) {
				want = append(want, int64(sp.items[i]))
			}
		}
		if fmt.Sprint(sortedCopy(want)) == fmt.Sprint(sortedCopy(got)) {
			return true
		}
	}
	return false
}

func emitCopy(w *lib.Writer, sp *cSpec, res *cResult) {
	ok, note := true, ""
	fail := func(f string, a ...interface{}) {
		if ok {
			ok = false
			note = fmt.Sprintf("copy %s start=%d batch=%d workers=%d buf=%d sizes=%v window=[%d,%d) late=%v/%v: ", sp.tag, sp.start, sp.batch, sp.workers, sp.buf,
				sp.sizes, sp.naStart, sp.naLimit, sp.lateCert, sp.latePre) + fmt.Sprintf(f, a...)
		}
	}
	tokenOf := map[string]int{}
	for i, it := range cpool {
		if len(it.chain) > 0 {
			tokenOf[string(it.chain[0])] = i
		}
	}
	total := sp.sizes[len(sp.sizes)-1]
	toTokens := func(kind string, got [][][]byte) []int64 {
		var toks []int64
		for _, ch := range got {
			tk, known := -1, false
			if len(ch) > 0 {
				tk, known = tokenOf[string(ch[0])]
			}
			if !known {
				fail("%s chain handed out that is not an entry of the log", kind)
				toks = append(toks, -1)
				continue
			}
			want := cpool[tk].chain
			same := len(want) == len(ch)
			for i := 0; same && i < len(ch); i++ {
				same = bytes.Equal(want[i], ch[i])
			}
			if !same {
				fail("%s chain of pool entry %d handed out with other certificates than the log holds", kind, tk)
			}
			toks = append(toks, int64(tk))
		}
		return toks
	}
	var gotC, gotP []int64
	switch res.final {
	case "ok":
		gotC, gotP = toTokens("cert", res.certs), toTokens("precert", res.precerts)
		for _, kc := range []struct {
			kind string
			got  []int64
		}{{"cert", gotC}, {"precert", gotP}} {
			var want []int64
			for i := sp.start; i < total; i++ {
				if copySelected(sp, cpool[sp.items[i]], kc.kind) {
					want = append(want, int64(sp.items[i]))
				}
			}
			if sp.workers == 1 { // one fetcher: in index order
				if fmt.Sprint(want) != fmt.Sprint(kc.got) && fmt.Sprint(sortedCopy(want)) == fmt.Sprint(sortedCopy(kc.got)) {
					fail("%s chains handed out in another order than the log's with a single fetcher", kc.kind)
				}
			}
			ws, gs := sortedCopy(want), sortedCopy(kc.got)
			if fmt.Sprint(ws) != fmt.Sprint(gs) && sp.lateCert+sp.latePre > 0 && isTailMissing(sp, kc.kind, kc.got) {
				ok = false
				note = fmt.Sprintf("copier-late-consumer-static-log: start=%d batch=%d workers=%d buf=%d sizes=%v first CertChain after %v, first PreCertChain after %v: "+
					"the %s chains of the entries published while that fetcher was blocked are never handed out (the log does not grow again)",
					sp.start, sp.batch, sp.workers, sp.buf, sp.sizes, sp.lateCert, sp.latePre, kc.kind)
			}
			if fmt.Sprint(ws) != fmt.Sprint(gs) {
				fail("%s chains handed out (pool entries %v) are not those of the selected entries of [%d, %d), once each (%v)", kc.kind, gs, sp.start, total, ws)
			}
		}
		if res.tbsErrs > 0 {
			fail("PreCertChain failed to build the TBS of %d precertificates", res.tbsErrs)
		}
		if res.published != total {
			fail("harness: log published %d of %d", res.published, total)
		}
	case "hang":
		fail("deadlock / does not settle: %s", res.detail)
	default:
		fail("%s: %s", res.final, res.detail)
	}
	var ents []string
	for _, it := range sp.items {
		c := cpool[it]
		k := "KBadLeaf"
		switch c.class {
		case "x509", "x509-unparsable", "x509-root-alone":
			k = "KCertE"
		case "pre":
			k = "KPreE"
		}
		ents = append(ents, lib.Pair(lib.Z(int64(it)), k, lib.Bool(copySelected(sp, c, "cert") || copySelected(sp, c, "precert"))))
	}
	good := "true"
	if res.final != "ok" {
		good = "false"
	}
	coq := fmt.Sprintf("CCopy %s %s %s %s %s %s", lib.Z(sp.start), lib.Z(total), lib.List(ents), zlist(gotC), zlist(gotP), good)
	in := map[string]interface{}{"kind": "copy:" + sp.tag, "first_cert_chain_asked_after": sp.lateCert.String(), "first_precert_chain_asked_after": sp.latePre.String(), "start": sp.start, "batch": sp.batch, "parallel_fetch": sp.workers, "buffer": sp.buf,
		"tree_sizes": sp.sizes, "not_after_start_year": sp.naStart, "not_after_limit_year": sp.naLimit, "pool_entry_by_index": sp.items}
	nf := map[string]string{}
	for i, it := range sp.items {
		if d := cpool[it].defect; d != "" {
			nf[fmt.Sprint(i)] = cpool[it].class + ": " + d
		}
	}
	if len(nf) > 0 {
		in["entries_with_non_fatal_parse_errors"] = nf
	}
	tags := []string{"mode:copy", "copy:" + sp.tag, fmt.Sprintf("workers:%d", sp.workers)}
	w.Add(lib.Case{Coq: coq, Input: in, Impl: map[string]interface{}{"settled": res.final, "cert_chains_pool_entries": gotC, "precert_chains_pool_entries": gotP},
		PropOK: ok, Note: note, Tags: tags})
}

func genCopy(r *mrand.Rand, late bool) *cSpec {
	sp := &cSpec{short: map[int64]int64{}, srcErr: map[int64]int{}, tag: "plain"}
	sp.batch = pick(r, 1, 2, 3, 5, 8, 500)
	sp.workers = pick(r, 1, 1, 2, 3)
	sp.buf = pick(r, 0, 1, 2, 10, 100)
	sz := int64(pick(r, 1, 3, 8, 15, 22))
	sp.sizes = []int64{sz}
	for n := r.Intn(4); n > 0; n-- {
		sz += int64(r.Intn(2*sp.batch%20 + 4))
		sp.sizes = append(sp.sizes, sz)
	}
	if len(sp.sizes) > 1 {
		sp.tag = "growth"
	}
	for i := int64(0); i < sz; i++ {
		sp.items = append(sp.items, r.Intn(baseCPool))
		if r.Intn(5) == 0 {
			sp.short[i] = int64(1 + r.Intn(sp.batch%7+1))
		}
		if r.Intn(10) == 0 {
			sp.srcErr[i] = 1
		}
	}
	switch r.Intn(4) {
	case 0:
		sp.start = r.Int63n(sp.sizes[0])
	case 1:
		sp.start = sp.sizes[0] - 1
	}
	switch c := r.Intn(6); {
	case c == 0 && late:
		sp.lateCert = time.Duration(1+r.Intn(200)) * time.Second
		sp.tag += "+late-consumer"
	case c == 1 && late:
		sp.latePre = time.Duration(1+r.Intn(200)) * time.Second
		sp.tag += "+late-consumer"
	}
	if r.Intn(3) == 0 {
		sp.naStart = 2030 + r.Intn(6)
		sp.tag += "+window"
	}
	if r.Intn(3) == 0 {
		sp.naLimit = 2033 + r.Intn(7)
		if !strings.Contains(sp.tag, "+window") {
			sp.tag += "+window"
		}
	}
	return sp
}

func writeRootsFile(dir string) string {
	p := filepath.Join(dir, "c16-roots.pem")
	must(os.WriteFile(p, crootsPEM, 0o600))
	return p
}
