package main

// kindStream: the window is a filter on the NotAfter of the FIRST certificate of a submission whatever
// that certificate is.  The other streams only ever submit an end-entity certificate issued directly by
// the root; here every KIND of submission RFC 6962 allows is crossed with windows placed around the first
// certificate's NotAfter:
//
//   leaf, leaf + root, leaf + intermediate, leaf + intermediate + root, a trusted root on its own (the
//   one the others chain to, and another one of the pool), an intermediate on its own, intermediate +
//   root, precertificate + root, precertificate + intermediate + root, a precertificate issued by a
//   precertificate signing certificate.
//
// Every certificate of a hierarchy has its own NotAfter, so the first certificate's NotAfter never
// coincides with the NotAfter of its issuers: a window is also placed around each of THOSE (the verdict is
// still the first certificate's).
//
// (a) direct: ctfe.ValidateChain with start, limit in {none, NotAfter + {-24 h, -1 s, -1 ns, 0, +1 ns, +1 s,
//     +24 h}} (the full cross: inside, at start, at limit, outside on either side, sub-second, empty and
//     inverted), the calendar-year windows around it and the windows around the other members' NotAfter;
//     oracle by hand: admitted iff start <= NotAfter < limit (the same chain is admitted without a window),
//     and a client of that single shard routes it iff the server admits it.
// (b) a temporal log: shard layouts around the NotAfter, every shard a real instance configured from a
//     LogConfig with the shard's window, a real client.TemporalLogClient over them (in-process transport)
//     that is handed the chain (AddChain / AddPreChain): the client must contact exactly the one shard
//     whose window holds the NotAfter by hand (none if no shard does) and get its SCT, and every shard,
//     handed the chain directly, must admit it iff it is that one.

import (
	"bytes"
	"context"
	"fmt"
	"io"
	mrand "math/rand"
	"net/http"
	"net/http/httptest"
	"strings"
	"time"

	ct "github.com/google/certificate-transparency-go"
	"github.com/google/certificate-transparency-go/client"
	"github.com/google/certificate-transparency-go/client/configpb"
	"github.com/google/certificate-transparency-go/trillian/ctfe"
	ctfepb "github.com/google/certificate-transparency-go/trillian/ctfe/configpb"
	"github.com/google/certificate-transparency-go/x509"
	"github.com/google/certificate-transparency-go/x509/pkix"
	"github.com/google/certificate-transparency-go/x509util"
	"github.com/google/trillian"
	"google.golang.org/protobuf/types/known/timestamppb"

	"verif/harness/ctfeenv"
	"verif/harness/lib"
	"verif/harness/pki"
)

type submission struct {
	kind  string
	pre   bool
	chain []*pki.Entity // chain[0] is the certificate the window is about
}

// distinctInstants draws k instants no two of which are within three days of each other, so that a window
// placed around one of them never holds another by accident.
func distinctInstants(r *mrand.Rand, k int) []time.Time {
	var out []time.Time
	for len(out) < k {
		t := pickInstant(r)
		ok := true
		for _, o := range out {
			d := t.Sub(o)
			if d < 0 {
				d = -d
			}
			if d < 72*time.Hour {
				ok = false
			}
		}
		if ok {
			out = append(out, t)
		}
	}
	return out
}

var hierarchyNo int

// hierarchy builds two trusted roots and under the first an intermediate, a precertificate signing
// certificate, leaves and precertificates; every certificate gets its own NotAfter.
func hierarchy(r *mrand.Rand) (roots []*pki.Entity, subs []submission) {
	hierarchyNo++
	na := distinctInstants(r, 10)
	nb := time.Unix(1000, 0)
	cn := func(s string) string { return fmt.Sprintf("c18 %s %d", s, hierarchyNo) }
	rootA := pki.Issue(pki.Opts{CN: cn("root A"), IsCA: true, KeyIdx: 0, NotBefore: nb, NotAfter: na[0]}, nil)
	rootB := pki.Issue(pki.Opts{CN: cn("root B"), IsCA: true, KeyIdx: 1, NotBefore: nb, NotAfter: na[1]}, nil)
	inter := pki.Issue(pki.Opts{CN: cn("intermediate"), IsCA: true, KeyIdx: 2, NotBefore: nb, NotAfter: na[2]}, rootA)
	preIssuer := pki.Issue(pki.Opts{CN: cn("precertificate signing"), IsCA: true, KeyIdx: 4, NotBefore: nb, NotAfter: na[3],
		EKUs: []x509.ExtKeyUsage{x509.ExtKeyUsageCertificateTransparency}}, rootA)
	leafR := pki.Issue(pki.Opts{CN: cn("leaf under root"), KeyIdx: 3, NotBefore: nb, NotAfter: na[4]}, rootA)
	leafI := pki.Issue(pki.Opts{CN: cn("leaf under intermediate"), KeyIdx: 3, NotBefore: nb, NotAfter: na[5]}, inter)
	poison := []pkix.Extension{pki.PoisonExt()}
	preR := pki.Issue(pki.Opts{CN: cn("precert under root"), KeyIdx: 3, NotBefore: nb, NotAfter: na[6], ExtraExt: poison}, rootA)
	preI := pki.Issue(pki.Opts{CN: cn("precert under intermediate"), KeyIdx: 3, NotBefore: nb, NotAfter: na[7], ExtraExt: poison}, inter)
	preP := pki.Issue(pki.Opts{CN: cn("precert under signing cert"), KeyIdx: 3, NotBefore: nb, NotAfter: na[8], ExtraExt: poison}, preIssuer)
	roots = []*pki.Entity{rootA, rootB}
	subs = []submission{
		{"leaf", false, []*pki.Entity{leafR}},
		{"leaf+root", false, []*pki.Entity{leafR, rootA}},
		{"leaf+intermediate", false, []*pki.Entity{leafI, inter}},
		{"leaf+intermediate+root", false, []*pki.Entity{leafI, inter, rootA}},
		{"root-alone", false, []*pki.Entity{rootA}},
		{"other-root-alone", false, []*pki.Entity{rootB}},
		{"intermediate-alone", false, []*pki.Entity{inter}},
		{"intermediate+root", false, []*pki.Entity{inter, rootA}},
		{"precert+root", true, []*pki.Entity{preR, rootA}},
		{"precert+intermediate+root", true, []*pki.Entity{preI, inter, rootA}},
		{"preissued-precert+signing-cert+root", true, []*pki.Entity{preP, preIssuer, rootA}},
	}
	return roots, subs
}

func ders(es []*pki.Entity) [][]byte {
	var out [][]byte
	for _, e := range es {
		out = append(out, e.DER)
	}
	return out
}

func tp(t time.Time) *time.Time { return &t }

// wj prints an optional bound in notes.
func wj(t *time.Time) string {
	if t == nil {
		return "none"
	}
	return t.UTC().Format(time.RFC3339Nano)
}

// where names the position of NotAfter t relative to the window.
func where(t time.Time, lo, hi *time.Time) string {
	switch {
	case lo != nil && hi != nil && ns(*lo).Cmp(ns(*hi)) > 0:
		return "inverted"
	case lo != nil && hi != nil && ns(*lo).Cmp(ns(*hi)) == 0:
		return "empty"
	case lo != nil && ns(*lo).Cmp(ns(t)) == 0:
		return "at-start"
	case hi != nil && ns(*hi).Cmp(ns(t)) == 0:
		return "at-limit"
	case lo != nil && ns(t).Cmp(ns(*lo)) < 0:
		if lo.Sub(t) < time.Second {
			return "below-start-subsecond"
		}
		return "below-start"
	case hi != nil && ns(t).Cmp(ns(*hi)) >= 0:
		return "past-limit"
	case hi != nil && hi.Sub(t) < time.Second || lo != nil && t.Sub(*lo) < time.Second:
		return "inside-subsecond"
	}
	return "inside"
}

// shardTransport hands the client's requests to the shard instances in-process and records which shard
// was contacted.
type shardTransport struct {
	envs map[string]*ctfeenv.Env
	hits []string
}

func (s *shardTransport) RoundTrip(req *http.Request) (*http.Response, error) {
	s.hits = append(s.hits, req.URL.Host)
	rec := httptest.NewRecorder()
	env := s.envs[req.URL.Host]
	var body []byte
	if req.Body != nil {
		body, _ = io.ReadAll(req.Body)
		req.Body.Close()
	}
	if env == nil {
		rec.WriteHeader(http.StatusBadGateway)
	} else if h, ok := env.Inst.Handlers[req.URL.Path]; !ok {
		rec.WriteHeader(http.StatusNotFound)
	} else {
		sreq := httptest.NewRequest(req.Method, req.URL.String(), bytes.NewReader(body)).WithContext(req.Context())
		for k, v := range req.Header {
			sreq.Header[k] = v
		}
		h.ServeHTTP(rec, sreq)
	}
	res := rec.Result()
	res.Request = req
	return res, nil
}

func echoQueue(env *ctfeenv.Env) {
	env.Backend.QueueLeafFn = func(_ context.Context, req *trillian.QueueLeafRequest) (*trillian.QueueLeafResponse, error) {
		return &trillian.QueueLeafResponse{QueuedLeaf: &trillian.QueuedLogLeaf{Leaf: req.Leaf}}, nil
	}
}

func kindStream(w *lib.Writer, r *mrand.Rand, n int) {
	rounds := n / 600
	if rounds < 1 {
		rounds = 1
	}
	if rounds > 6 {
		rounds = 6
	}
	for round := 0; round < rounds; round++ {
		roots, subs := hierarchy(r)
		kpool := x509util.NewPEMCertPool()
		for _, e := range roots {
			kpool.AddCert(e.Cert)
		}
		for si, sub := range subs {
			chain := ders(sub.chain)
			na := sub.chain[0].Cert.NotAfter
			// the certificate carries the instant it was issued with, and the chain is admitted by a log without a window
			if sub.chain[0].Cert.NotAfter.Nanosecond() != 0 {
				panic("harness PKI broken: sub-second NotAfter")
			}
			if _, err := ctfe.ValidateChain(chain, ctfe.NewCertValidationOpts(kpool, time.Time{}, false, false, nil, nil, false, nil)); err != nil {
				panic(fmt.Sprintf("harness PKI broken: %s chain refused without a window: %v", sub.kind, err))
			}
			var others []time.Time
			for _, e := range sub.chain[1:] {
				others = append(others, e.Cert.NotAfter)
			}
			for _, e := range roots {
				if e != sub.chain[0] {
					others = append(others, e.Cert.NotAfter)
				}
			}

			// ---- (a) direct: ValidateChain + a client of the single shard ----
			type win struct{ lo, hi *time.Time }
			var wins []win
			bounds := []*time.Time{nil}
			for _, o := range []time.Duration{-24 * time.Hour, -time.Second, -time.Nanosecond, 0, time.Nanosecond, time.Second, 24 * time.Hour} {
				bounds = append(bounds, tp(na.Add(o)))
			}
			for _, lo := range bounds {
				for _, hi := range bounds {
					wins = append(wins, win{lo, hi})
				}
			}
			y := na.UTC().Year()
			for d := -1; d <= 1; d++ { // calendar-year shards: the year before, the NotAfter's own, the year after
				wins = append(wins, win{tp(time.Date(y+d, 1, 1, 0, 0, 0, 0, time.UTC)), tp(time.Date(y+d+1, 1, 1, 0, 0, 0, 0, time.UTC))})
			}
			wins = append(wins, win{tp(na.Add(-time.Duration(1 + r.Int63n(999999999)))), tp(na.Add(time.Duration(1 + r.Int63n(999999999))))},
				win{tp(na.Add(time.Duration(1 + r.Int63n(999999999)))), tp(na.Add(time.Hour))},
				win{tp(na.Add(-time.Hour)), tp(na.Add(-time.Duration(1 + r.Int63n(999999999))))})
			for _, o := range others { // windows that hold another member's (or another root's) NotAfter
				wins = append(wins, win{tp(o.Add(-time.Second)), tp(o.Add(time.Second))}, win{tp(o), tp(o.Add(time.Nanosecond))})
			}
			for wi, wn := range wins {
				lo, hi := wn.lo, wn.hi
				want := inside(na, lo, hi)
				_, err := ctfe.ValidateChain(chain, ctfe.NewCertValidationOpts(kpool, time.Time{}, false, false, lo, hi, false, nil))
				ctfeOK := err == nil
				ok, note := ctfeOK == want, ""
				if !ok {
					note = fmt.Sprintf("a submission of kind %s whose first certificate has NotAfter=%s is admitted=%v under the window not_after_start=%v not_after_limit=%v (start <= NotAfter < limit: %v)",
						sub.kind, na.UTC().Format(time.RFC3339Nano), ctfeOK, wj(lo), wj(hi), want)
				}
				clientObs := "None"
				var clientJ interface{}
				inverted := lo != nil && hi != nil && ns(*lo).Cmp(ns(*hi)) >= 0
				tlc, cerr := client.NewTemporalLogClient(&configpb.TemporalLogConfig{Shard: []*configpb.LogShardConfig{shardCfg(lo, hi)}}, nil)
				if cerr == nil {
					_, ierr := tlc.IndexByDate(na)
					clientObs, clientJ = lib.Some(lib.Bool(ierr == nil)), ierr == nil
					if ok && (inverted || (ierr == nil) != want || (ierr == nil) != ctfeOK) {
						ok, note = false, fmt.Sprintf("a client of the single shard [%v, %v) routes NotAfter=%s: %v; the server with that window admits the %s submission: %v", wj(lo), wj(hi), na.UTC().Format(time.RFC3339Nano), ierr == nil, sub.kind, ctfeOK)
					}
				} else if ok && !inverted {
					ok, note = false, fmt.Sprintf("a client of the single ordered shard [%v, %v) cannot be built: %v", wj(lo), wj(hi), cerr)
				}
				w.Add(lib.Case{
					Coq:    fmt.Sprintf("CPoint %s %s %s %s", lib.ZBig(ns(na)), iv(lo, hi), lib.Bool(ctfeOK), clientObs),
					Key:    fmt.Sprintf("kind-point-%d-%d-%d", round, si, wi),
					Input:  map[string]interface{}{"kind": "kind-point", "submission": sub.kind, "chain_length": len(chain), "t": jt(&na), "lo": jt(lo), "hi": jt(hi)},
					Impl:   map[string]interface{}{"ctfe_admits": ctfeOK, "client_routes": clientJ},
					PropOK: ok, Note: note, Tags: []string{"kind:" + sub.kind, "kind-point:" + where(na, lo, hi)},
				})
			}

			// ---- (b) a temporal log of real instances, one per shard, and a real client over them ----
			sub1 := time.Duration(1 + r.Int63n(999999999))
			layouts := []struct {
				name   string
				bounds []*time.Time // k+1 bounds of k contiguous shards
			}{
				{"split-at-NotAfter", []*time.Time{nil, tp(na), tp(na.Add(time.Nanosecond)), nil}},
				{"split-below-NotAfter", []*time.Time{nil, tp(na.Add(-time.Nanosecond)), tp(na), nil}},
				{"seconds-around", []*time.Time{tp(na.Add(-24 * time.Hour)), tp(na.Add(-time.Second)), tp(na.Add(time.Second)), tp(na.Add(24 * time.Hour))}},
				{"subsecond-around", []*time.Time{tp(na.Add(-time.Hour)), tp(na.Add(-sub1)), tp(na.Add(sub1)), nil}},
				{"calendar-years", []*time.Time{tp(time.Date(y-1, 1, 1, 0, 0, 0, 0, time.UTC)), tp(time.Date(y, 1, 1, 0, 0, 0, 0, time.UTC)), tp(time.Date(y+1, 1, 1, 0, 0, 0, 0, time.UTC)), tp(time.Date(y+2, 1, 1, 0, 0, 0, 0, time.UTC))}},
				{"ends-at-NotAfter", []*time.Time{nil, tp(na.Add(-time.Second)), tp(na)}},
				{"starts-after-NotAfter", []*time.Time{tp(na.Add(sub1)), tp(na.Add(time.Second)), nil}},
				{"one-open-shard", []*time.Time{nil, nil}},
			}
			for li, lay := range layouts {
				k := len(lay.bounds) - 1
				tr := &shardTransport{envs: map[string]*ctfeenv.Env{}}
				var shards []*configpb.LogShardConfig
				var ivs []string
				var ji []interface{}
				var sd []string
				wantIdx, cnt := -1, 0
				var status []int
				allOK, notes := true, ""
				for j := 0; j < k; j++ {
					lo, hi := lay.bounds[j], lay.bounds[j+1]
					host := fmt.Sprintf("shard-%d.example", j)
					env, eerr := ctfeenv.New(ctfeenv.Options{Roots: roots, Dir: *lib.OutDir, Configure: func(c *ctfepb.LogConfig) {
						if lo != nil {
							c.NotAfterStart = timestamppb.New(*lo)
						}
						if hi != nil {
							c.NotAfterLimit = timestamppb.New(*hi)
						}
					}})
					if eerr != nil {
						panic(fmt.Sprintf("harness broken: a log with the ordered window [%v, %v) cannot be set up: %v", wj(lo), wj(hi), eerr))
					}
					echoQueue(env)
					tr.envs[host] = env
					c := shardCfg(lo, hi)
					c.Uri = "http://" + host + env.Prefix
					shards = append(shards, c)
					ivs = append(ivs, iv(lo, hi))
					ji = append(ji, []interface{}{jt(lo), jt(hi)})
					sd = append(sd, "["+wj(lo)+", "+wj(hi)+")")
					want := inside(na, lo, hi)
					if want {
						cnt++
						wantIdx = j
					}
					// the chain handed to this shard directly
					rec := env.AddChain(sub.pre, chain)
					status = append(status, rec.Code)
					admitted := rec.Code == 200
					ok, note := admitted == want && (admitted || rec.Code == 400), ""
					if !ok {
						note = fmt.Sprintf("shard %d of a temporal log, configured with not_after_start=%v not_after_limit=%v, answered %d to a submission of kind %s whose first certificate has NotAfter=%s (start <= NotAfter < limit: %v)",
							j, wj(lo), wj(hi), rec.Code, sub.kind, na.UTC().Format(time.RFC3339Nano), want)
						allOK = false
						notes += note + "; "
					}
					w.Add(lib.Case{
						Coq:    fmt.Sprintf("CConfigPoint %s %s (Some %s)", lib.ZBig(ns(na)), iv(lo, hi), lib.Bool(admitted)),
						Key:    fmt.Sprintf("kind-shard-%d-%d-%d-%d", round, si, li, j),
						Input:  map[string]interface{}{"kind": "kind-shard", "submission": sub.kind, "chain_length": len(chain), "layout": lay.name, "shard": j, "t": jt(&na), "lo": jt(lo), "hi": jt(hi)},
						Impl:   map[string]interface{}{"status": rec.Code},
						PropOK: ok, Note: note, Tags: []string{"kind:" + sub.kind, "kind-shard:" + where(na, lo, hi)},
					})
				}
				if cnt > 1 {
					panic("harness broken: overlapping layout")
				}
				// the client of the whole log, handed the chain
				tlc, cerr := client.NewTemporalLogClient(&configpb.TemporalLogConfig{Shard: shards}, &http.Client{Transport: tr})
				if cerr != nil {
					w.Add(lib.Case{
						Coq: fmt.Sprintf("CShards %s [%s] None", lib.List(ivs), lib.ZBig(ns(na))), Key: fmt.Sprintf("kind-route-%d-%d-%d", round, si, li),
						Input:  map[string]interface{}{"kind": "kind-route", "submission": sub.kind, "layout": lay.name, "shards": ji, "t": jt(&na)},
						Impl:   map[string]interface{}{"constructed": false, "error": cerr.Error()},
						PropOK: false, Note: fmt.Sprintf("a client of the contiguous shard list %s cannot be built: %v", strings.Join(sd, " "), cerr), Tags: []string{"kind:" + sub.kind, "kind-route:refused"},
					})
					continue
				}
				var asn []ct.ASN1Cert
				for _, d := range chain {
					asn = append(asn, ct.ASN1Cert{Data: d})
				}
				ctx, cancel := context.WithTimeout(context.Background(), 20*time.Second)
				var sct *ct.SignedCertificateTimestamp
				var aerr error
				if sub.pre {
					sct, aerr = tlc.AddPreChain(ctx, asn)
				} else {
					sct, aerr = tlc.AddChain(ctx, asn)
				}
				cancel()
				gotIdx := -1
				if len(tr.hits) > 0 {
					fmt.Sscanf(tr.hits[0], "shard-%d.example", &gotIdx)
				}
				obs := "None"
				if gotIdx >= 0 {
					obs = lib.Some(lib.Nat(gotIdx))
				}
				ok, note := true, ""
				desc := fmt.Sprintf("a client of the temporal log with shards %s, handed a submission of kind %s whose first certificate has NotAfter=%s,", strings.Join(sd, " "), sub.kind, na.UTC().Format(time.RFC3339Nano))
				switch {
				case len(tr.hits) > 1:
					ok, note = false, fmt.Sprintf("%s contacted %v", desc, tr.hits)
				case gotIdx != wantIdx:
					ok, note = false, fmt.Sprintf("%s chose shard %d; by hand the NotAfter is in shard %d (-1 = none)", desc, gotIdx, wantIdx)
				case wantIdx >= 0 && (aerr != nil || sct == nil):
					ok, note = false, fmt.Sprintf("%s chose shard %d, which did not admit it: %v", desc, gotIdx, aerr)
				case wantIdx < 0 && aerr == nil:
					ok, note = false, desc+" got an SCT although no shard holds the NotAfter"
				case !allOK:
					// routing and admission disagree: some shard other than the chosen one admits it (or the chosen one does not)
					ok, note = false, fmt.Sprintf("%s chose shard %d (-1 = none), but handed the chain directly the shards answer %v: %s", desc, gotIdx, status, notes)
				}
				tag := "kind-route:routed"
				if wantIdx < 0 {
					tag = "kind-route:nowhere"
				}
				w.Add(lib.Case{
					Coq:    fmt.Sprintf("CShards %s [%s] (Some [%s])", lib.List(ivs), lib.ZBig(ns(na)), obs),
					Key:    fmt.Sprintf("kind-route-%d-%d-%d", round, si, li),
					Input:  map[string]interface{}{"kind": "kind-route", "submission": sub.kind, "chain_length": len(chain), "layout": lay.name, "shards": ji, "t": jt(&na)},
					Impl:   map[string]interface{}{"constructed": true, "contacted": tr.hits, "sct": sct != nil, "direct_status": status},
					PropOK: ok, Note: note, Tags: []string{"kind:" + sub.kind, tag, "kind-route:" + lay.name},
				})
			}
		}
	}
}
