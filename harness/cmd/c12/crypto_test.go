package main

// The harness's own log: keys, RFC 6962 signature inputs written from the RFC (not the
// repository's serializers), signing, and INDEPENDENT verification with crypto/ecdsa and
// crypto/rsa.  The same verification fills the model's crypto-oracle table and is the direct
// oracle for returned STHs / SCTs.

import (
	"crypto"
	"crypto/ecdsa"
	"crypto/md5"
	"crypto/rand"
	"crypto/rsa"
	"crypto/sha1"
	"crypto/sha256"
	"crypto/sha512"
	stdx509 "crypto/x509"
	"encoding/binary"
	"encoding/pem"

	"verif/harness/lib"
	"verif/harness/pki"
)

type logKey struct {
	name   string
	signer crypto.Signer
	spki   []byte   // DER SubjectPublicKeyInfo
	id     [32]byte // SHA-256(spki): the RFC 6962 log id
	pem    string
	sigAlg byte // TLS SignatureAlgorithm: 1 rsa, 3 ecdsa
}

func newLogKey(kind string, idx int) *logKey {
	s := pki.Key(kind, idx)
	der, err := stdx509.MarshalPKIXPublicKey(s.Public())
	if err != nil {
		panic(err)
	}
	k := &logKey{name: kind, signer: s, spki: der, id: sha256.Sum256(der), sigAlg: 3}
	if _, ok := s.(*rsa.PrivateKey); ok {
		k.sigAlg = 1
	}
	k.pem = string(pem.EncodeToMemory(&pem.Block{Type: "PUBLIC KEY", Bytes: der}))
	return k
}

func u16(n int) []byte    { return []byte{byte(n >> 8), byte(n)} }
func u24(n int) []byte    { return []byte{byte(n >> 16), byte(n >> 8), byte(n)} }
func u64(n uint64) []byte { b := make([]byte, 8); binary.BigEndian.PutUint64(b, n); return b }

func cat(parts ...[]byte) []byte {
	var out []byte
	for _, p := range parts {
		out = append(out, p...)
	}
	return out
}

// entry derived from a chain: X.509 (cert) or precert (issuer key hash, TBS)
type entry struct {
	precert bool
	cert    []byte
	ikh     []byte
	tbs     []byte
}

func (e *entry) coq() string {
	if e.precert {
		return "(PrecertE " + lib.Bytes(e.ikh) + " " + lib.Bytes(e.tbs) + ")"
	}
	return "(X509E " + lib.Bytes(e.cert) + ")"
}

// RFC 6962 s3.2: digitally-signed struct { v1; certificate_timestamp; timestamp; entry_type; signed_entry; extensions }
func rfcSCTInput(ts uint64, e *entry, ext []byte) []byte {
	if e.precert {
		return cat([]byte{0, 0}, u64(ts), u16(1), e.ikh, u24(len(e.tbs)), e.tbs, u16(len(ext)), ext)
	}
	return cat([]byte{0, 0}, u64(ts), u16(0), u24(len(e.cert)), e.cert, u16(len(ext)), ext)
}

// RFC 6962 s3.5: digitally-signed struct { v1; tree_hash; timestamp; tree_size; sha256_root_hash }
func rfcSTHInput(ts, size uint64, root []byte) []byte {
	return cat([]byte{0, 1}, u64(ts), u64(size), root)
}

func hashFor(alg byte) (crypto.Hash, bool) {
	switch alg {
	case 1:
		return crypto.MD5, true
	case 2:
		return crypto.SHA1, true
	case 3:
		return crypto.SHA224, true
	case 4:
		return crypto.SHA256, true
	case 5:
		return crypto.SHA384, true
	case 6:
		return crypto.SHA512, true
	}
	return 0, false
}

func digest(h crypto.Hash, msg []byte) []byte {
	switch h {
	case crypto.MD5:
		d := md5.Sum(msg)
		return d[:]
	case crypto.SHA1:
		d := sha1.Sum(msg)
		return d[:]
	case crypto.SHA224:
		d := sha256.Sum224(msg)
		return d[:]
	case crypto.SHA256:
		d := sha256.Sum256(msg)
		return d[:]
	case crypto.SHA384:
		d := sha512.Sum384(msg)
		return d[:]
	case crypto.SHA512:
		d := sha512.Sum512(msg)
		return d[:]
	}
	panic("hash")
}

// signDS signs msg and returns the TLS DigitallySigned bytes (hash alg, sig alg, opaque<0..2^16-1>)
func (k *logKey) signDS(msg []byte, hashAlg byte) []byte {
	h, ok := hashFor(hashAlg)
	if !ok {
		panic("hash alg")
	}
	d := digest(h, msg)
	var sig []byte
	var err error
	switch p := k.signer.(type) {
	case *ecdsa.PrivateKey:
		sig, err = ecdsa.SignASN1(rand.Reader, p, d)
	case *rsa.PrivateKey:
		sig, err = rsa.SignPKCS1v15(rand.Reader, p, h, d)
	}
	if err != nil {
		panic(err)
	}
	return cat([]byte{hashAlg, k.sigAlg}, u16(len(sig)), sig)
}

// parsed DigitallySigned (own parser: exact length, nothing trailing)
type dsig struct {
	hash, alg byte
	sig       []byte
}

func parseDS(b []byte) (*dsig, bool) {
	if len(b) < 4 {
		return nil, false
	}
	n := int(b[2])<<8 | int(b[3])
	if len(b) != 4+n {
		return nil, false
	}
	return &dsig{hash: b[0], alg: b[1], sig: b[4:]}, true
}

func (d *dsig) coq() string {
	return "(VStruct [Some (VStruct [Some (VInt " + lib.Nn(uint64(d.hash)) + "); Some (VInt " + lib.Nn(uint64(d.alg)) + ")]); Some (VBytes " + lib.Bytes(d.sig) + ")])"
}

// verifyOwn: does the signature verify over msg under the key (algorithms as named in the signature)?
func (k *logKey) verifyOwn(msg []byte, d *dsig) bool {
	h, ok := hashFor(d.hash)
	if !ok {
		return false
	}
	dg := digest(h, msg)
	switch pub := k.signer.Public().(type) {
	case *ecdsa.PublicKey:
		return d.alg == 3 && ecdsa.VerifyASN1(pub, dg, d.sig)
	case *rsa.PublicKey:
		return d.alg == 1 && rsa.VerifyPKCS1v15(pub, h, dg, d.sig) == nil
	}
	return false
}
