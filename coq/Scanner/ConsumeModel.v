(* C16, the consumers of the Fetcher: what reaches the DESTINATION.
   Definitions only.

   Migration (trillian/migrillian/core/controller.go).  One [pass] is one fetchTail as seen from
   outside: the destination's tree size it was given, the source tree size it was served, the
   get-entries requests, the indices the destination stored, whether a consumer-side failure
   happened while the caller's context was live (a store answered with a code that is not
   retried, a nil reply, an entry that does not convert), whether the caller cancelled.
   [mig_pass] follows fetchTail / Run / runWithRestarts branch for branch:
     getRoot fails | Prepare fails                       -> error
     sth.TreeSize <= begin                               -> (begin, nil), nothing fetched
     a submitter failed or the context died (cctx.Err()) -> error  ("Run may have returned nil
                                                            despite a cancel() call")
     otherwise                                           -> (sth.TreeSize, nil), and by the Fetcher
        theorems + one submit per callback the stored indices are exactly the range.
   Copying (trillian/integration/copier.go): processBatch hands out the chain of every entry of
   the wanted type whose root the target accepts (and whose NotAfter fits), [copy_expected]. *)
From Coq Require Import ZArith Bool List.
From V Require Import Scanner.FetchLib.
Import ListNotations.
Open Scope Z_scope.

Record mcfg := { m_start : Z; m_end : Z; m_cont : bool; m_restarts : bool }.

Record pass := MkPass {
  p_ts : Z;                 (* destination tree size reported to the pass *)
  p_root : bool;            (* ... and whether reading it succeeded *)
  p_sth : option Z;         (* source tree size served; None = get-sth failed / not reached *)
  p_reqs : list (Z * Z);    (* get-entries requests [a, b] *)
  p_stored : list Z;        (* indices the destination stored during the pass *)
  p_fault : bool;           (* consumer-side failure while the caller's context was live *)
  p_cancel : bool           (* the caller's context was cancelled during the pass *)
}.

Record mst := {
  s_begin : Z;              (* Run's position: the next fetchTail starts no lower *)
  s_have : list Z;          (* indices the destination holds *)
  s_claim : Z * Z;          (* the range the controller has reported as transferred *)
  s_ret : option bool       (* Run / RunWhenMaster has returned (true = nil) *)
}.

Definition zmem (i : Z) (l : list Z) : bool := existsb (Z.eqb i) l.
Definition covers (l : list Z) (a b : Z) : bool := forallb (fun i => zmem i l) (zrange a b).
Definition within (l : list Z) (a b : Z) : bool := forallb (fun i => (a <=? i) && (i <? b)) l.
Fixpoint nodupb (l : list Z) : bool :=
  match l with [] => true | x :: t => negb (zmem x t) && nodupb t end.
Definition reqs_within (l : list (Z * Z)) (a b : Z) : bool :=
  forallb (fun r => (a <=? fst r) && (fst r <=? snd r) && (snd r <? b)) l.

(* fetchTail's range: FetcherOptions adjusted by the destination's tree size, begin, and Prepare *)
Definition pass_range (c : mcfg) (begin ts n : Z) : Z * Z :=
  let lo0 := if m_cont c then ts else if m_start c <? 0 then ts else m_start c in
  let hi := if m_cont c then n else if (m_end c =? 0) || (m_end c >? n) then n else m_end c in
  (Z.max lo0 begin, hi).

Definition mig_init (dest0 : Z) : mst :=
  {| s_begin := 0; s_have := zrange 0 dest0; s_claim := (0, 0); s_ret := None |}.

Definition after_error (c : mcfg) (st : mst) (p : pass) (have' : list Z) : mst :=
  if m_restarts c && m_cont c && negb (p_cancel p)
  then {| s_begin := 0; s_have := have'; s_claim := s_claim st; s_ret := None |}   (* runWithRestarts: a fresh Run *)
  else {| s_begin := s_begin st; s_have := have'; s_claim := s_claim st; s_ret := Some false |}.

Definition mig_pass (c : mcfg) (st : mst) (p : pass) : option mst :=
  match s_ret st with
  | Some _ => None                                           (* nothing happens after the return *)
  | None =>
    if negb (covers (s_have st) 0 (p_ts p)) then None        (* the destination integrates only what it holds *)
    else
    let have' := p_stored p ++ s_have st in
    match p_root p, p_sth p with
    | false, _ | true, None =>
        match p_stored p, p_reqs p with
        | [], [] => Some (after_error c st p have')
        | _, _ => None
        end
    | true, Some n =>
        if n <=? s_begin st then
          match p_stored p, p_reqs p with
          | [], [] =>
              Some {| s_begin := s_begin st; s_have := have'; s_claim := s_claim st;
                      s_ret := if m_cont c then None else Some true |}
          | _, _ => None
          end
        else
          let '(lo, hi) := pass_range c (s_begin st) (p_ts p) n in
          if negb (within (p_stored p) lo hi && nodupb (p_stored p) && reqs_within (p_reqs p) lo hi) then None
          else if p_fault p || p_cancel p then Some (after_error c st p have')
          else if negb (covers (p_stored p) lo hi) then None   (* every callback of the Fetcher is one successful store *)
          else Some {| s_begin := n; s_have := have';
                       s_claim := if m_cont c then (0, n) else (lo, hi);
                       s_ret := if m_cont c then None else Some true |}
    end
  end.

Fixpoint mig_run (c : mcfg) (st : mst) (ps : list pass) : option mst :=
  match ps with
  | [] => Some st
  | p :: t => match mig_pass c st p with Some st' => mig_run c st' t | None => None end
  end.

(* the whole observation: the passes are a run of the model and it returns what was observed *)
Definition mig_accepts (c : mcfg) (dest0 : Z) (ps : list pass) (ret : option bool) : bool :=
  match mig_run c (mig_init dest0) ps, ret with
  | Some st, Some r => match s_ret st with Some r' => Bool.eqb r r' | None => false end
  | _, _ => false
  end.

(* what the model says (printed into replay files): position, claimed range, return, or the
   number of passes it accepts *)
Fixpoint mig_explain (c : mcfg) (st : mst) (ps : list pass) (k : N) : (N * (Z * (Z * Z)) * option bool) :=
  match ps with
  | [] => (k, (s_begin st, s_claim st), s_ret st)
  | p :: t => match mig_pass c st p with
              | Some st' => mig_explain c st' t (k + 1)
              | None => (k, (s_begin st, s_claim st), s_ret st)
              end
  end.

(* ---------------------------------------------------------------- copier *)

Inductive ckind := KCertE | KPreE | KBadLeaf.
Definition ckind_eqb (a b : ckind) : bool :=
  match a, b with KCertE, KCertE | KPreE, KPreE | KBadLeaf, KBadLeaf => true | _, _ => false end.

(* entry = (token of its chain, type, accepted: root accepted by the target and NotAfter in the window) *)
Definition centry := (Z * ckind * bool)%type.

Definition copy_expected (k : ckind) (start : Z) (log : list centry) : list Z :=
  map (fun e => fst (fst e))
      (filter (fun e => ckind_eqb (snd (fst e)) k && snd e)
              (skipn (Z.to_nat start) log)).

Definition zcount (x : Z) (l : list Z) : nat := length (filter (Z.eqb x) l).
Definition same_multiset (a b : list Z) : bool :=
  Nat.eqb (length a) (length b) && forallb (fun x => Nat.eqb (zcount x a) (zcount x b)) a.

Definition copy_accepts (start total : Z) (log : list centry) (certs precerts : list Z) (settled : bool) : bool :=
  settled && (Z.of_nat (length log) =? total) && (0 <=? start)
  && same_multiset (copy_expected KCertE start log) certs
  && same_multiset (copy_expected KPreE start log) precerts.
