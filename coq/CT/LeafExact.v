(* C04: the decoder of MerkleTreeLeaf accepts EXACTLY the RFC byte strings (for any version
   byte; plus this implementation's JSON-entry extension, type 32768): every complete parse
   is the RFC encoding of an in-range record, and the decoded value is that record. *)
From Coq Require Import String NArith ZArith Bool Lia PeanoNat List.
From V Require Import Base.Bytes TLS.TlsModel TLS.TlsLemmas TLS.TlsRoundTripA TLS.TlsRoundTripB gen.CtTypes
  CT.Rfc6962Spec CT.Rfc6962Proofs CT.CtFuncs CT.CtFuncsProofs.
Import ListNotations.
Local Open Scope N_scope.

(* the leaf with an explicit version byte *)
Definition enc_leaf_v (ver ts : N) (e : entry) (ext : bytes) : bytes :=
  u8 ver ++ u8 0 ++ u64 ts ++ u16 (entry_type e) ++ enc_entry e ++ opaque16 ext.
Definition embed_leaf_v (ver ts : N) (e : entry) (ext : bytes) : val :=
  VStruct [Some (VInt ver); Some (VInt 0); Some (VStruct (Some (VInt ts) :: embed_entry e ext))].

Definition is_json_leaf (v : val) : Prop :=
  exists ver ts d ext, v = VStruct [Some (VInt ver); Some (VInt 0);
     Some (VStruct [Some (VInt ts); Some (VInt 32768); None; None; Some (VStruct [Some (VBytes d)]); Some (VBytes ext)])].

Ltac chk_in H :=
  match type of H with
  | context [check ?i ?n] =>
      let E := fresh "Echk" in destruct (check i n) eqn:E; [|cbn in H; discriminate H];
      apply check_true in E; cbn [f_count f_min f_max] in E
  end.

Ltac fld H l v Hf :=          (* a non-pointer field: must be present *)
  destruct l as [|[v|] l]; cbn [wt_fields] in H; [contradiction| |destruct H as [Hf _]; discriminate Hf];
  destruct H as [Hf H].
Ltac pfld H l o Hf :=         (* a pointer field: present or nil *)
  destruct l as [|o l]; cbn [wt_fields] in H; [contradiction|]; destruct H as [Hf H].
Ltac no_more H l := destruct l; cbn [wt_fields] in H; [|contradiction].
Ltac is_struct H v l := destruct v as [| | |l]; cbn [wt] in H; try contradiction.
Ltac is_bytes H v b := destruct v as [|b| |]; cbn [wt] in H; try contradiction.
Ltac is_int H v n := destruct v as [n| | |]; cbn [wt] in H; try contradiction.

Lemma parse_gives_marshal t bs v : complete t bs = Ok v -> marshal t None v = Ok bs /\ wt t v.
Proof.
  intros Hc. apply complete_no_trailing in Hc.
  destruct (proj1 roundtripB t None bs v [] Hc) as (bs' & Hm & Hd & Hw). rewrite app_nil_r in Hd. subst. auto.
Qed.

Ltac pow_facts :=
  change (256 ^ 1) with 256 in *; change (256 ^ 2) with 65536 in *; change (256 ^ 3) with 16777216 in *;
  change (256 ^ 8) with 18446744073709551616 in *; change (256 ^ N.of_nat 8) with 18446744073709551616 in *.

Lemma leaf_parse_exact_lemma bs v :
  complete gen_MerkleTreeLeaf bs = Ok v ->
  (exists ver ts e ext, ver < 256 /\ ts_ok ts /\ entry_ok e /\ ext_ok ext /\
       v = embed_leaf_v ver ts e ext /\ bs = enc_leaf_v ver ts e ext)
  \/ is_json_leaf v.
Proof.
  intros Hc. destruct (parse_gives_marshal _ _ _ Hc) as [Hm Hw].
  unfold gen_MerkleTreeLeaf in Hw. is_struct Hw v l.
  fld Hw l v1 H1. fld Hw l v2 H2. pfld Hw l o3 H3. no_more Hw l.
  is_int H1 v1 ver. is_int H2 v2 ltyp.
  (* the leaf type selects the timestamped entry *)
  cbn in Hm. chk_in Hm. cbn in Hm. chk_in Hm. cbn in Hm.
  destruct (N.eqb_spec ltyp 0) as [->|Hlt]; cbn in Hm.
  2:{ destruct o3; cbn in Hm; discriminate Hm. }
  destruct o3 as [te|]; [|cbn in Hm; discriminate Hm].
  is_struct H3 te tel.
  fld H3 tel t1 T1. fld H3 tel t2 T2. pfld H3 tel ox T3. pfld H3 tel op T4. pfld H3 tel oj T5. fld H3 tel t6 T6. no_more H3 tel.
  is_int T1 t1 ts. is_int T2 t2 et. is_bytes T6 t6 ext.
  (* all presence combinations of the three variants, all entry types *)
  assert (Het : et = 0 \/ et = 1 \/ et = 32768 \/ (et <> 0 /\ et <> 1 /\ et <> 32768)) by lia.
  destruct ox as [xv|]; [is_struct T3 xv xl; fld T3 xl x1 X1; no_more T3 xl; is_bytes X1 x1 c|];
  (destruct op as [pv|]; [is_struct T4 pv pl; fld T4 pl p1 P1; fld T4 pl p2 P2; no_more T4 pl; is_bytes P1 p1 ikh; is_bytes P2 p2 tbs|]);
  (destruct oj as [jv|]; [is_struct T5 jv jl; fld T5 jl j1 J1; no_more T5 jl; is_bytes J1 j1 d|]);
  (destruct Het as [->|[->|[->|(N0 & N1 & N2)]]];
   [| | | apply N.eqb_neq in N0, N1, N2]);
  cbn in Hm; try rewrite N0 in Hm; try rewrite N1 in Hm; try rewrite N2 in Hm;
  try (rewrite P1 in Hm; change (N.to_nat 32) with 32%nat in Hm);
  cbn in Hm;
  try solve [repeat first [discriminate Hm | chk_in Hm; cbn in Hm]].
  all: first
   [ (* precert entry *)
     repeat (chk_in Hm; cbn in Hm); injection Hm as <-;
     left; exists ver, ts, (PrecertE ikh tbs), ext;
     repeat split; try (unfold ts_ok, ext_ok, len; cbn; lia);
     unfold enc_leaf_v, u8, u16, u24, u64, opaque16, opaque24, enc_entry, entry_type, len;
     repeat rewrite low_bytes_small by (pow_facts; lia); repeat rewrite N.mod_small by (pow_facts; lia);
     change (N.to_nat 1) with 1%nat; change (N.to_nat 2) with 2%nat; change (N.to_nat 3) with 3%nat;
     rewrite ?app_nil_r, <- ?app_assoc; rewrite ?app_nil_r; reflexivity
   | (* x509 entry *)
     repeat (chk_in Hm; cbn in Hm); injection Hm as <-;
     left; exists ver, ts, (X509E c), ext;
     repeat split; try (unfold ts_ok, ext_ok, len; cbn; lia);
     unfold enc_leaf_v, u8, u16, u24, u64, opaque16, opaque24, enc_entry, entry_type, len;
     repeat rewrite low_bytes_small by (pow_facts; lia); repeat rewrite N.mod_small by (pow_facts; lia);
     change (N.to_nat 1) with 1%nat; change (N.to_nat 2) with 2%nat; change (N.to_nat 3) with 3%nat;
     rewrite ?app_nil_r, <- ?app_assoc; rewrite ?app_nil_r; reflexivity
   | (* the JSON extension *)
     right; exists ver, ts, d, ext; reflexivity ].
Qed.

(* conversely every RFC leaf encoding decodes, completely, to its record *)
Lemma leaf_decodes_lemma ts e ext : ts_ok ts -> entry_ok e -> ext_ok ext ->
  complete gen_MerkleTreeLeaf (enc_leaf ts e ext) = Ok (embed_leaf ts e ext).
Proof.
  intros Hts He Hext. pose proof (gen_leaf_marshal ts e ext Hts He Hext) as Hm.
  unfold complete.
  assert (Hs : sized gen_MerkleTreeLeaf None = true) by (vm_compute; reflexivity).
  assert (Hw : wt gen_MerkleTreeLeaf (embed_leaf ts e ext)).
  { unfold ts_ok in Hts. destruct e as [c|h t]; cbn in He |- *; change (N.to_nat 32) with 32%nat;
    repeat split; auto; try (destruct He; assumption). all: try lia. }
  assert (Hsh : short (enc_leaf ts e ext)).
  { unfold short, two64N. unfold ext_ok, len in Hext.
    destruct e as [c|h t]; cbn [entry_ok] in He; unfold len in He;
      unfold enc_leaf, enc_entry, opaque16, opaque24, u8, u16, u24, u64, len;
      repeat rewrite app_length; repeat rewrite be_enc_length.
    - lia.
    - destruct He as [Hh Ht]. rewrite Hh. lia. }
  pose proof (proj1 roundtripA gen_MerkleTreeLeaf None _ _ Hs Hm Hsh Hw []) as E. rewrite app_nil_r in E. rewrite E. reflexivity.
Qed.
